/- Helper lemmas for Props/C18.lean -/
import XsdataModel.Code.PycodeWF
import XsdataModel.Props.C05Float
import XsdataModel.Proofs.PycodeDec

namespace Xs.Code
open Py

/-! ### Python `==` on leaves -/

theorem NumV.eq_self {n : NumV} (h : notNan (some n) = true) : n.eq n = true := by
  cases n <;> simp_all [NumV.eq, notNan]

theorem pyEq_none : pyEq .none .none = true := by decide
theorem pyEq_bool (b : Bool) : pyEq (.bool b) (.bool b) = true := by
  cases b <;> decide
theorem pyEq_int (i : Int) : pyEq (.int i) (.int i) = true := by
  simp [pyEq, leafEq, numOf, NumV.eq]
theorem numOfF64_notNan {x : Xs.Conv.F64} (h : x ≠ .nan) : notNan (some (numOfF64 x)) = true := by
  cases x with
  | nan => exact absurd rfl h
  | inf neg => cases neg <;> simp [numOfF64, notNan]
  | fin neg m q =>
    simp only [numOfF64]
    split
    · simp [notNan]
    · split <;> simp [notNan]

theorem pyEq_float {x : Xs.Conv.F64} (r r' : Str) (h : x ≠ .nan) :
    pyEq (.float x r) (.float x r') = true := by
  simp [pyEq, leafEq, numOf, NumV.eq_self (numOfF64_notNan h)]

theorem canonical_of_B {x : Xs.Conv.F64} (h : f64Canonical x = true) : x.Canonical := by
  cases x with
  | nan => trivial
  | inf _ => trivial
  | fin neg m q =>
    simp only [f64Canonical, Bool.or_eq_true, Bool.and_eq_true, beq_iff_eq, decide_eq_true_eq] at h
    unfold Xs.Conv.F64.Canonical
    rcases h with (h | h) | h
    · exact Or.inl h
    · exact Or.inr (Or.inl ⟨h.1.1.1, h.1.1.2, h.1.2, h.2⟩)
    · exact Or.inr (Or.inr ⟨h.1.1, h.1.2, h.2⟩)

/-- the repr of a float of the domain is read back as that float: C05's
`float_repr_rt`, instantiated -/
theorem readFloat_repr {x : Xs.Conv.F64} {r : Str}
    (h : (x != .nan && f64Canonical x && r == x.repr) = true) : x ≠ .nan ∧ readFloat r = some x := by
  simp only [Bool.and_eq_true, bne_iff_ne, ne_eq, beq_iff_eq] at h
  refine ⟨h.1.1, ?_⟩
  rw [h.2]
  exact Props.C05.float_repr_rt Py.Env.ascii x (canonical_of_B h.1.2)

theorem pyEq_str (s r r' : Str) : pyEq (.str s r) (.str s r') = true := by
  simp [pyEq, leafEq, numOf]
theorem pyEq_bytes (c c' : ClsRef) (bs : List Nat) (r r' : Str) : pyEq (.bytes c bs r) (.bytes c' bs r') = true := by
  simp [pyEq, leafEq, numOf]
theorem pyEq_qname (t : Str) : pyEq (.qname t) (.qname t) = true := by
  simp [pyEq, leafEq, numOf]
theorem pyEq_enum (c : ClsRef) (m : Str) : pyEq (.enum c m) (.enum c m) = true := by
  simp [pyEq, leafEq, numOf]
theorem pyEq_decimal (d : Xs.Conv.Dec) (r r' : Str) (h : notNan (some (numOfDec d)) = true) :
    pyEq (.decimal d r) (.decimal d r') = true := by
  simp [pyEq, leafEq, numOf, NumV.eq_self h]

theorem decimalName_builtin : Tables.builtinNames.contains Tables.decimalName = false ∧
    (decimalT.module == builtinsMod) = false := by decide

theorem pyEq_opaque (c : ClsRef) (cal : List Str) (ar : Str) (n : Option NumV) (h : notNan n = true) :
    pyEq (.opaque c cal ar n) (.opaque c cal ar n) = true := by
  cases n with
  | none => simp [pyEq, leafEq, numOf]
  | some x => simp [pyEq, leafEq, numOf, NumV.eq_self h]


/-! ### keyword arguments and the dataclass constructor -/

theorem kwGet_none_of_forall {n : Str} : ∀ {kv : List (Str × Val)}, (∀ p ∈ kv, p.1 ≠ n) → kwGet n kv = none
  | [], _ => rfl
  | (k, v) :: r, h => by
      have hk : k ≠ n := h (k, v) (by simp)
      have hr : ∀ p ∈ r, p.1 ≠ n := fun p hp => h p (by simp [hp])
      simp [kwGet, hk, kwGet_none_of_forall hr]

/-- what `evalKw (selectKw …)` returns, relative to the original attributes -/
def KwRel : List FieldSpec → List Val → List (Str × Val) → Prop
  | f :: fs, a :: as, kv =>
    if f.init && !(elide f.dflt a) then
      ∃ a' kv', kv = (f.name, a') :: kv' ∧ pyEq a' a = true ∧ KwRel fs as kv'
    else KwRel fs as kv
  | _, _, kv => kv = []

theorem KwRel_init : ∀ (fs : List FieldSpec) (as : List Val) (kv : List (Str × Val)),
    KwRel fs as kv → ∀ p ∈ kv, ∃ f ∈ fs, f.init = true ∧ f.name = p.1
  | [], _, kv, h, p, hp => by simp [KwRel] at h; subst h; cases hp
  | f :: fs, [], kv, h, p, hp => by simp [KwRel] at h; subst h; cases hp
  | f :: fs, a :: as, kv, h, p, hp => by
      unfold KwRel at h
      split at h
      · rename_i hsel
        obtain ⟨a', kv', rfl, _, hrest⟩ := h
        simp only [Bool.and_eq_true] at hsel
        cases hp with
        | head => exact ⟨f, by simp, hsel.1, rfl⟩
        | tail _ hp' =>
          obtain ⟨g, hg, hgi, hgn⟩ := KwRel_init fs as kv' hrest p hp'
          exact ⟨g, by simp [hg], hgi, hgn⟩
      · obtain ⟨g, hg, hgi, hgn⟩ := KwRel_init fs as kv h p hp
        exact ⟨g, by simp [hg], hgi, hgn⟩

theorem kwNamesOK_of_rel {fs : List FieldSpec} {as : List Val} {kv : List (Str × Val)}
    (h : KwRel fs as kv) : kwNamesOK fs kv = true := by
  simp only [kwNamesOK, List.all_eq_true, List.any_eq_true, Bool.and_eq_true]
  intro p hp
  obtain ⟨f, hf, hfi, hfn⟩ := KwRel_init fs as kv h p hp
  exact ⟨f, hf, hfi, by simp [hfn]⟩

theorem elide_default {d : Default} {a : Val} (h : elide d a = true) :
    ∃ dv, (d = .value dv ∨ d = .factory dv) ∧ pyEq dv a = true := by
  cases d with
  | missing => simp [elide] at h
  | value dv => exact ⟨dv, Or.inl rfl, by simpa [elide] using h⟩
  | factory dv => exact ⟨dv, Or.inr rfl, by simpa [elide] using h⟩

theorem nodupB_cons {x : Str} {xs : List Str} (h : nodupB (x :: xs) = true) :
    x ∉ xs ∧ nodupB xs = true := by
  simpa [nodupB] using h

theorem construct_rel : ∀ (fs : List FieldSpec) (attrs : List Val) (kv kvAll : List (Str × Val)),
    attrs.length = fs.length → nodupB (fs.map (·.name)) = true → initFalseOK fs attrs = true →
    KwRel fs attrs kv → (∀ f ∈ fs, kwGet f.name kvAll = kwGet f.name kv) →
    ∃ attrs', construct fs kvAll = .ok attrs' ∧ pyEqL attrs' attrs = true
  | [], attrs, kv, kvAll, hlen, _, _, _, _ => by
      cases attrs with
      | nil => exact ⟨[], rfl, by simp [pyEqL]⟩
      | cons _ _ => simp at hlen
  | f :: fs, [], _, _, hlen, _, _, _, _ => by simp at hlen
  | f :: fs, a :: as, kv, kvAll, hlen, hnd, hinit, hrel, hget => by
      have hlen' : as.length = fs.length := by simpa using hlen
      obtain ⟨hfn, hnd'⟩ := nodupB_cons (by simpa using hnd)
      have hinit' : (f.init || elide f.dflt a) = true ∧ initFalseOK fs as = true := by
        simpa [initFalseOK] using hinit
      unfold KwRel at hrel
      split at hrel
      · -- the field was rendered
        rename_i hsel
        obtain ⟨a', kv', rfl, heq, hrest⟩ := hrel
        simp only [Bool.and_eq_true] at hsel
        have h1 : kwGet f.name kvAll = some a' := by
          rw [hget f (by simp)]; simp [kwGet]
        have hget' : ∀ g ∈ fs, kwGet g.name kvAll = kwGet g.name kv' := by
          intro g hg
          rw [hget g (by simp [hg])]
          have : f.name ≠ g.name := by
            intro he; apply hfn; rw [he]; exact List.mem_map.mpr ⟨g, hg, rfl⟩
          simp [kwGet, this]
        obtain ⟨vs, hc, hp⟩ := construct_rel fs as kv' kvAll hlen' hnd' hinit'.2 hrest hget'
        refine ⟨a' :: vs, ?_, ?_⟩
        · simp [construct, fieldVal, hsel.1, h1, hc]
        · simp [pyEqL, heq, hp]
      · -- the field was skipped: `init=False`, or its value equals the default
        rename_i hsel
        have hel : elide f.dflt a = true := by
          cases hfi : f.init <;> simp_all
        obtain ⟨dv, hd, heq⟩ := elide_default hel
        have hnone : kwGet f.name kvAll = none := by
          rw [hget f (by simp)]
          apply kwGet_none_of_forall
          intro p hp he
          obtain ⟨g, hg, _, hgn⟩ := KwRel_init fs as kv hrel p hp
          apply hfn
          rw [← he, ← hgn]
          exact List.mem_map.mpr ⟨g, hg, rfl⟩
        have hget' : ∀ g ∈ fs, kwGet g.name kvAll = kwGet g.name kv :=
          fun g hg => hget g (by simp [hg])
        obtain ⟨vs, hc, hp⟩ := construct_rel fs as kv kvAll hlen' hnd' hinit'.2 hrel hget'
        refine ⟨dv :: vs, ?_, ?_⟩
        · have hfv : fieldVal f kvAll = .ok dv := by
            unfold fieldVal
            cases hfi : f.init <;> rcases hd with hd | hd <;> simp [hnone, hd]
          simp [construct, hfv, hc]
        · simp [pyEqL, heq, hp]


/-! ### the round trip, for a namespace in which every reference resolves -/

theorem EnvGood.append_left {W : World} {env : Env} {a b : List (List Str × ClsRef)}
    (h : EnvGood W env (a ++ b)) : EnvGood W env a :=
  fun pc hp => h pc (List.mem_append.mpr (Or.inl hp))

theorem EnvGood.append_right {W : World} {env : Env} {a b : List (List Str × ClsRef)}
    (h : EnvGood W env (a ++ b)) : EnvGood W env b :=
  fun pc hp => h pc (List.mem_append.mpr (Or.inr hp))

/-- round trip of one value -/
def RT (W : World) (env : Env) (v : Val) : Prop :=
  wf W v = true → valOK W v = true → EnvGood W env ((render W v).refs) →
    ∃ v', eval W env (render W v) = .ok v' ∧ pyEq v' v = true ∧ (hashable v = true → hashable v' = true)

theorem evalKw_select (W : World) (env : Env) : ∀ (fs : List FieldSpec) (attrs : List Val),
    (∀ a ∈ attrs, RT W env a) → wfL W attrs = true → valOKL W attrs = true →
    EnvGood W env (refsKw (selectKw fs attrs (renderL W attrs))) →
    ∃ kv, evalKw W env (selectKw fs attrs (renderL W attrs)) = .ok kv ∧ KwRel fs attrs kv
  | [], attrs, _, _, _, _ => by
      cases attrs <;> exact ⟨[], by simp [selectKw, evalKw], by simp [KwRel]⟩
  | f :: fs, [], _, _, _, _ => ⟨[], by simp [selectKw, evalKw], by simp [KwRel]⟩
  | f :: fs, a :: as, hrt, hwf, hok, henv => by
      have hwf' : wf W a = true ∧ wfL W as = true := by simpa [wfL] using hwf
      have hok' : valOK W a = true ∧ valOKL W as = true := by simpa [valOKL] using hok
      have hrt' : ∀ x ∈ as, RT W env x := fun x hx => hrt x (by simp [hx])
      by_cases hsel : (f.init && !(elide f.dflt a)) = true
      · have hs : selectKw (f :: fs) (a :: as) (renderL W (a :: as))
            = (f.name, render W a) :: selectKw fs as (renderL W as) := by
          simp [selectKw, renderL, hsel]
        rw [hs] at henv ⊢
        have henv1 : EnvGood W env ((render W a).refs) := by
          simp only [refsKw] at henv; exact henv.append_left
        have henv2 : EnvGood W env (refsKw (selectKw fs as (renderL W as))) := by
          simp only [refsKw] at henv; exact henv.append_right
        obtain ⟨a', he, hp, _⟩ := hrt a (by simp) hwf'.1 hok'.1 henv1
        obtain ⟨kv', hk, hr⟩ := evalKw_select W env fs as hrt' hwf'.2 hok'.2 henv2
        refine ⟨(f.name, a') :: kv', by simp [evalKw, he, hk], ?_⟩
        unfold KwRel
        rw [if_pos hsel]
        exact ⟨a', kv', rfl, hp, hr⟩
      · have hs : selectKw (f :: fs) (a :: as) (renderL W (a :: as))
            = selectKw fs as (renderL W as) := by
          simp [selectKw, renderL, hsel]
        rw [hs] at henv ⊢
        obtain ⟨kv', hk, hr⟩ := evalKw_select W env fs as hrt' hwf'.2 hok'.2 henv
        refine ⟨kv', hk, ?_⟩
        unfold KwRel
        rw [if_neg hsel]
        exact hr

theorem fieldsOf_of_isModelWith {W : World} {c : ClsRef} {n : Nat} (h : isModelWith W c n = true) :
    ∃ e, W.find c = some ⟨e, .model (W.fieldsOf c)⟩ ∧ n = (W.fieldsOf c).length
      ∧ nodupB ((W.fieldsOf c).map (·.name)) = true := by
  unfold isModelWith at h
  unfold World.fieldsOf
  split at h
  · rename_i r fs hfind
    simp only [Bool.and_eq_true, beq_iff_eq] at h
    exact ⟨r, by simp [hfind], by simp [hfind, h.1], by simp [hfind, h.2]⟩
  · simp at h

/-- the `repr_model` case: constructor call with the selected keywords -/
theorem rt_model (W : World) (env : Env) (c : ClsRef) (attrs : List Val)
    (hrt : ∀ a ∈ attrs, RT W env a) : RT W env (.model c attrs) := by
  intro hwf hok henv
  simp only [wf, Bool.and_eq_true] at hwf
  obtain ⟨⟨⟨hmod, _⟩, _⟩, hwfL⟩ := hwf
  simp only [valOK, Bool.and_eq_true] at hok
  obtain ⟨hinit, hokL⟩ := hok
  obtain ⟨r, hfind, hlen, hnd⟩ := fieldsOf_of_isModelWith hmod
  simp only [render, PyExpr.refs] at henv ⊢
  have hres : resolve W env c.path = .ok c := henv (c.path, c) (by simp)
  have henv' : EnvGood W env (refsKw (selectKw (W.fieldsOf c) attrs (renderL W attrs))) :=
    fun pc hp => henv pc (by simp [hp])
  obtain ⟨kv, hkv, hrel⟩ := evalKw_select W env (W.fieldsOf c) attrs hrt hwfL hokL henv'
  obtain ⟨attrs', hcon, heq⟩ := construct_rel (W.fieldsOf c) attrs kv kv hlen hnd hinit hrel (fun _ _ => rfl)
  refine ⟨.model c attrs', ?_, ?_, ?_⟩
  · simp [eval, hres, hkv, hfind, kwNamesOK_of_rel hrel, hcon]
  · simp [pyEq, heq]
  · simp [hashable]


/-! ### the parser reads back what `json.dumps` wrote -/

theorem hex_low : ∀ n : Fin 32,
    hexVal (hexDigit (n.val / 16)) = some (n.val / 16) ∧ hexVal (hexDigit (n.val % 16)) = some (n.val % 16) ∧
    isSurrogate n.val = false := by decide

/-- one character: the escape `json.dumps` writes for `c`, followed by anything,
decodes to `c` followed by the decoding of the rest -/
theorem decodeDq_jsonEscChar (c : Char) (r : Str) :
    decodeDq .normal (jsonEscChar c ++ r) = (decodeDq .normal r).map (c :: ·) := by
  unfold jsonEscChar
  by_cases h1 : c = '"'
  · subst h1; simp [decodeDq, hardEsc, simpleEsc, rawBad]
  by_cases h2 : c = '\\'
  · subst h2; simp [decodeDq, hardEsc, simpleEsc, rawBad]
  by_cases h3 : c = '\n'
  · subst h3; simp [decodeDq, hardEsc, simpleEsc, rawBad]
  by_cases h4 : c = '\r'
  · subst h4; simp [decodeDq, hardEsc, simpleEsc, rawBad]
  by_cases h5 : c = '\t'
  · subst h5; simp [decodeDq, hardEsc, simpleEsc, rawBad]
  by_cases h6 : c.toNat = 8
  · have : c = Char.ofNat 8 := by rw [← h6, Char.ofNat_toNat]
    subst this; simp [decodeDq, hardEsc, simpleEsc, rawBad]
  by_cases h7 : c.toNat = 12
  · have : c = Char.ofNat 12 := by rw [← h7, Char.ofNat_toNat]
    subst this; simp [decodeDq, hardEsc, simpleEsc, rawBad]
  by_cases h8 : c.toNat < 32
  · obtain ⟨hx1, hx2, hs⟩ := hex_low ⟨c.toNat, h8⟩
    simp only at hx1 hx2 hs
    have h0 : hexVal '0' = some 0 := by decide
    have hv : (0 * 16 + 0) * 16 + c.toNat / 16 = c.toNat / 16 := by omega
    have hv2 : c.toNat / 16 * 16 + c.toNat % 16 = c.toNat := by omega
    simp [h1, h2, h3, h4, h5, h6, h7, h8, decodeDq, hx1, hx2, h0, hv2, hs, Char.ofNat_toNat]
  · have hraw : rawBad c = false := by
      have : c.toNat ≠ 0 := by omega
      simp [rawBad, h1, h3, h4, this]
    simp [h1, h2, h3, h4, h5, h6, h7, h8, decodeDq, hraw]

theorem decodeDq_jsonBody : ∀ (t : Str), decodeDq .normal (jsonBody t) = some t
  | [] => rfl
  | c :: r => by
      rw [jsonBody, decodeDq_jsonEscChar, decodeDq_jsonBody r]
      rfl

def RTL (W : World) (env : Env) (xs : List Val) : Prop :=
  wfL W xs = true → valOKL W xs = true → EnvGood W env (refsL (renderL W xs)) →
    ∃ vs, evalL W env (renderL W xs) = .ok vs ∧ pyEqL vs xs = true
      ∧ (hashableL xs = true → hashableL vs = true)

def RTKV (W : World) (env : Env) (kvs : List (Val × Val)) : Prop :=
  wfKV W kvs = true → valOKKV W kvs = true → EnvGood W env (refsKV (renderKV W kvs)) →
    ∃ ps, evalKV W env (renderKV W kvs) = .ok ps ∧ pyEqKV ps kvs = true
      ∧ ps.all (fun p => hashable p.1) = true

theorem set_builtin : Tables.builtinNames.contains cs!"set" = true ∧
    Tables.builtinNames.contains cs!"frozenset" = true := by decide

mutual
theorem rt (W : World) (env : Env) : (v : Val) → RT W env v
  | .none => fun _ _ _ => ⟨.none, by simp [render, eval], pyEq_none, by simp [hashable]⟩
  | .bool b => fun _ _ _ => ⟨.bool b, by simp [render, eval], pyEq_bool b, by simp [hashable]⟩
  | .int i => fun _ _ _ => ⟨.int i, by simp [render, eval], pyEq_int i, by simp [hashable]⟩
  | .str s r => fun _ hok _ => by
      have hd : decodeStrLit r = some s := by simpa [valOK] using hok
      exact ⟨.str s r, by simp [render, eval, hd], pyEq_str s r r, by simp [hashable]⟩
  | .bytes c bs r => fun _ hok _ => by
      have hd : decodeBytesLit r = some bs := by simpa [valOK] using hok
      exact ⟨.bytes bytesT bs r, by simp [render, eval, hd], pyEq_bytes _ _ bs r r, by simp [hashable]⟩
  | .float x r => fun _ hok henv => by
      obtain ⟨hn, hrt⟩ := readFloat_repr (by simpa [valOK] using hok)
      refine ⟨.float x r, ?_, pyEq_float r r hn, by simp [hashable]⟩
      cases hf : f64Finite x
      · have hres : resolve W env [floatCallee] = .ok floatT :=
          henv ([floatCallee], floatT) (by simp [render, hf, PyExpr.refs])
        simp [render, hf, eval, hres, hrt]
      · simp [render, hf, eval, hrt]
  | .qname t => fun _ _ henv => by
      have hres : resolve W env [qnameCallee] = .ok qnameT :=
        henv ([qnameCallee], qnameT) (by simp [render, PyExpr.refs])
      exact ⟨.qname t, by simp [render, eval, hres, decodeDq_jsonBody t], pyEq_qname t, by simp [hashable]⟩
  | .decimal d r => fun _ hok henv => by
      have hp : notNan (some (numOfDec d)) = true ∧ r = decRepr d := by simpa [valOK] using hok
      have hres : resolve W env [Tables.decimalName] = .ok decimalT :=
        henv ([Tables.decimalName], decimalT) (by simp [render, PyExpr.refs])
      have hrd : readDecimal r = some d := by rw [hp.2]; exact readDecimal_decRepr d
      exact ⟨.decimal d r, by simp [render, eval, hres, hrd], pyEq_decimal d r r hp.1, by simp [hashable]⟩
  | .opaque c callee args n => fun _ hok henv => by
      have hp : notNan n = true ∧ callee = c.path := by simpa [valOK] using hok
      have hres : resolve W env callee = .ok c :=
        henv (callee, c) (by simp [render, PyExpr.refs])
      exact ⟨.opaque c callee args n, by simp [render, eval, hres], pyEq_opaque _ _ _ _ hp.1, by simp [hashable]⟩
  | .enum c m => fun hwf hok henv => by
      have hn : enumNameOK m = true := by simpa [valOK] using hok
      have hres : resolve W env c.path = .ok c :=
        henv (c.path, c) (by simp [render, PyExpr.refs])
      have hw : isEnumWith W c m = true := by
        simp only [wf, Bool.and_eq_true] at hwf; exact hwf.1.1
      unfold isEnumWith at hw
      split at hw
      · rename_i r ms hfind
        have hm : m ∈ ms := by simpa using hw
        exact ⟨.enum c m, by simp [render, eval, hres, hfind, hm, hn], pyEq_enum c m, by simp [hashable]⟩
      · simp at hw
  | .list xs => fun hwf hok henv => by
      obtain ⟨vs, he, hp, _⟩ := rtL W env xs (by simpa [wf] using hwf) (by simpa [valOK] using hok)
        (by simpa [render, PyExpr.refs, arrRefs] using henv)
      exact ⟨.list vs, by simp [render, eval, he], by simp [pyEq, hp], by simp [hashable]⟩
  | .tuple xs => fun hwf hok henv => by
      obtain ⟨vs, he, hp, hh⟩ := rtL W env xs (by simpa [wf] using hwf) (by simpa [valOK] using hok)
        (by simpa [render, PyExpr.refs, arrRefs] using henv)
      exact ⟨.tuple vs, by simp [render, eval, he], by simp [pyEq, hp], by simpa [hashable] using hh⟩
  | .set frozen xs => fun hwf hok henv => by
      have hok' : hashableL xs = true ∧ valOKL W xs = true := by simpa [valOK] using hok
      cases frozen
      · -- `set()` or a set display
        cases xs with
        | nil =>
          have hres : resolve W env [cs!"set"] = .ok setT :=
            henv ([cs!"set"], setT) (by simp [render, renderL, PyExpr.refs, arrRefs])
          exact ⟨.set false [], by simp [render, renderL, eval, hres], by simp [pyEq, pyEqL], by simp [hashable]⟩
        | cons x xs =>
          obtain ⟨vs, he, hp, hh⟩ := rtL W env (x :: xs) (by simpa [wf] using hwf) hok'.2
            (by simpa [render, PyExpr.refs, arrRefs, renderL] using henv)
          refine ⟨.set false vs, ?_, by simp [pyEq, hp], by simp [hashable]⟩
          simp only [renderL] at he
          simp [render, renderL, eval, he, hh hok'.1]
      · -- `frozenset()` or `frozenset({…})`
        have hres : resolve W env [cs!"frozenset"] = .ok frozensetT :=
          henv ([cs!"frozenset"], frozensetT) (by simp [render, PyExpr.refs, arrRefs])
        obtain ⟨vs, he, hp, hh⟩ := rtL W env xs (by simpa [wf] using hwf) hok'.2
          (fun pc hpc => henv pc (by simp [render, PyExpr.refs, arrRefs, hpc]))
        refine ⟨.set true vs, ?_, by simp [pyEq, hp], ?_⟩
        · simp [render, eval, hres, he, hh hok'.1]
        · intro _; simp [hashable, hh hok'.1]
  | .dict kvs => fun hwf hok henv => by
      obtain ⟨ps, he, hp, hh⟩ := rtKV W env kvs (by simpa [wf] using hwf) (by simpa [valOK] using hok)
        (by simpa [render, PyExpr.refs] using henv)
      exact ⟨.dict ps, by simp [render, eval, he, hh], by simp [pyEq, hp], by simp [hashable]⟩
  | .model c attrs => rt_model W env c attrs (rtA W env attrs)
theorem rtA (W : World) (env : Env) : (xs : List Val) → ∀ a ∈ xs, RT W env a
  | [], _, h => by cases h
  | x :: xs, a, h => by
      cases h with
      | head => exact rt W env x
      | tail _ h' => exact rtA W env xs a h'
theorem rtL (W : World) (env : Env) : (xs : List Val) → RTL W env xs
  | [] => fun _ _ _ => ⟨[], by simp [renderL, evalL], by simp [pyEqL], by simp [hashableL]⟩
  | x :: xs => fun hwf hok henv => by
      have hwf' : wf W x = true ∧ wfL W xs = true := by simpa [wfL] using hwf
      have hok' : valOK W x = true ∧ valOKL W xs = true := by simpa [valOKL] using hok
      simp only [renderL, refsL] at henv
      obtain ⟨v', he, hp, hh⟩ := rt W env x hwf'.1 hok'.1 henv.append_left
      obtain ⟨vs, hes, hps, hhs⟩ := rtL W env xs hwf'.2 hok'.2 henv.append_right
      refine ⟨v' :: vs, by simp [renderL, evalL, he, hes], by simp [pyEqL, hp, hps], ?_⟩
      intro hx
      have hx' : hashable x = true ∧ hashableL xs = true := by simpa [hashableL] using hx
      simp [hashableL, hh hx'.1, hhs hx'.2]
theorem rtKV (W : World) (env : Env) : (kvs : List (Val × Val)) → RTKV W env kvs
  | [] => fun _ _ _ => ⟨[], by simp [renderKV, evalKV], by simp [pyEqKV], by simp⟩
  | (k, v) :: r => fun hwf hok henv => by
      have hwf' : (wf W k = true ∧ wf W v = true) ∧ wfKV W r = true := by simpa [wfKV] using hwf
      have hok' : ((hashable k = true ∧ valOK W k = true) ∧ valOK W v = true) ∧ valOKKV W r = true := by
        simpa [valOKKV] using hok
      simp only [renderKV, refsKV] at henv
      obtain ⟨k', hek, hpk, hhk⟩ := rt W env k hwf'.1.1 hok'.1.1.2 henv.append_left.append_left
      obtain ⟨v', hev, hpv, _⟩ := rt W env v hwf'.1.2 hok'.1.2 henv.append_left.append_right
      obtain ⟨ps, hes, hps, hhs⟩ := rtKV W env r hwf'.2 hok'.2 henv.append_right
      have hk : hashable k' = true := hhk hok'.1.1.1
      exact ⟨(k', v') :: ps, by simp [renderKV, evalKV, hek, hev, hes], by simp [pyEqKV, hpk, hpv, hps],
        by simp [hk, hhs]⟩
end

/-! ### `build_imports` binds every referenced name to the class meant -/

theorem mem_insertImport {x p : Str × Str} : ∀ {l : List (Str × Str)},
    x ∈ insertImport p l ↔ x = p ∨ x ∈ l
  | [] => by simp [insertImport]
  | q :: qs => by
      unfold insertImport
      split
      · rename_i h
        have : p = q := by simpa using h
        subst this
        simp
      · split
        · simp
        · simp only [List.mem_cons, mem_insertImport (l := qs)]
          constructor
          · rintro (h | h | h) <;> simp [h]
          · rintro (h | h | h) <;> simp [h]

theorem mem_imports {x : Str × Str} {ts : List ClsRef} :
    x ∈ imports ts ↔ ∃ t ∈ ts, importOf t = some x := by
  unfold imports
  generalize hl : ts.filterMap importOf = l
  have : (∃ t ∈ ts, importOf t = some x) ↔ x ∈ l := by
    subst hl; simp [List.mem_filterMap]
  rw [this]
  clear this hl
  induction l with
  | nil => simp
  | cons q qs ih => simp [List.foldr, mem_insertImport, ih]

theorem Env.lookup_some_mem {env : Env} {n m : Str} (h : env.lookup n = some m) : (m, n) ∈ env := by
  unfold Env.lookup at h
  cases hf : env.reverse.find? (fun p => p.2 == n) with
  | none => simp [hf] at h
  | some p =>
    have hm : p ∈ env.reverse := List.mem_of_find?_eq_some hf
    have hp : (p.2 == n) = true := @List.find?_some (Str × Str) (fun q => q.2 == n) _ _ hf
    simp [hf] at h
    have : p = (m, n) := by
      cases p with
      | mk a b =>
        simp at hp h
        simp [hp, h]
    rw [← this]
    exact List.mem_reverse.mp hm

theorem Env.lookup_none_of {env : Env} {n : Str} (h : ∀ p ∈ env, p.2 ≠ n) : env.lookup n = none := by
  unfold Env.lookup
  have : env.reverse.find? (fun p => p.2 == n) = none := by
    rw [List.find?_eq_none]
    intro p hp
    have := h p (List.mem_reverse.mp hp)
    simpa using this
  simp [this]

theorem Env.lookup_isSome_of_mem {env : Env} {n m : Str} (h : (m, n) ∈ env) : ∃ m', env.lookup n = some m' := by
  unfold Env.lookup
  cases hf : env.reverse.find? (fun p => p.2 == n) with
  | some p => exact ⟨p.1, by simp⟩
  | none =>
    rw [List.find?_eq_none] at hf
    have := hf (m, n) (List.mem_reverse.mpr h)
    simp at this

theorem walk_ok {W : World} {m : Str} : ∀ {rest cur : List Str} {r : ClsRef},
    walk W m cur rest = .ok r → r = ⟨m, cur ++ rest⟩
  | [], cur, r, h => by simp [walk] at h; simp [← h]
  | a :: rest, cur, r, h => by
      unfold walk at h
      split at h
      · have := walk_ok (rest := rest) h
        simp [this]
      · cases h

/-- what a reference must satisfy for the import lines to serve it -/
def RefGood (W : World) (pc : List Str × ClsRef) : Prop :=
  pc.1 = pc.2.path ∧ reachable W pc.2 = true ∧
    (pc.2.module ≠ builtinsMod ∨ ∃ h, pc.2 = bref h ∧ Tables.builtinNames.contains h = true)

theorem floatCallee_eq : floatCallee = cs!"float" := by decide
theorem qnameCallee_eq : qnameCallee = Tables.qnameName := by decide
theorem float_builtin : Tables.builtinNames.contains cs!"float" = true := by decide
theorem qname_not_builtin : (qnameT.module == builtinsMod) = false := by decide

theorem resolve_of_good {W : World} {ts : List ClsRef} {pc : List Str × ClsRef}
    (hg : RefGood W pc) (hmem : pc.2 ∈ ts)
    (hclash : ∀ t ∈ ts, t.module = builtinsMod ∨ t.path.headD [] ≠ pc.1.headD [] ∨ t.module = pc.2.module) :
    resolve W (imports ts) pc.1 = .ok pc.2 := by
  obtain ⟨p, c⟩ := pc
  obtain ⟨hp, hreach, hmod⟩ := hg
  simp only at hp hreach hmod hmem hclash ⊢
  subst hp
  unfold reachable at hreach
  cases hpath : c.path with
  | nil => simp [hpath] at hreach
  | cons h rest =>
    simp only [hpath] at hreach hclash
    -- whatever the namespace binds `h` to comes from the module of `c`
    have hfrom : ∀ m', (m', h) ∈ imports ts → m' = c.module ∧ c.module ≠ builtinsMod := by
      intro m' hm
      obtain ⟨t, ht, hi⟩ := mem_imports.mp hm
      unfold importOf at hi
      split at hi
      · cases hi
      · rename_i hnb
        simp only [Option.some.injEq, Prod.mk.injEq] at hi
        have hnb' : t.module ≠ builtinsMod := by simpa using hnb
        rcases hclash t ht with h1 | h1 | h1
        · exact absurd h1 hnb'
        · exact absurd hi.2 (by simpa using h1)
        · exact ⟨by rw [← hi.1, h1], by rw [← h1]; exact hnb'⟩
    unfold resolve
    rcases hmod with hmod | hmod
    · -- imported class
      have hin : (c.module, h) ∈ imports ts := by
        apply mem_imports.mpr
        refine ⟨c, hmem, ?_⟩
        have : (c.module == builtinsMod) = false := by simpa using hmod
        simp [importOf, this, hpath]
      obtain ⟨m', hl⟩ := Env.lookup_isSome_of_mem hin
      have hm' : m' = c.module := (hfrom m' (Env.lookup_some_mem hl)).1
      subst hm'
      simp only [hl]
      cases hw : walk W c.module [h] rest with
      | error e => simp [hw] at hreach
      | ok r =>
        have := walk_ok hw
        simp only [List.singleton_append] at this
        rw [this, ← hpath]
    · -- a builtin (`float`, `set`, `frozenset`): nothing imported may shadow it
      obtain ⟨b, hb, hbn⟩ := hmod
      subst hb
      have hh : h = b ∧ rest = [] := by
        have : (bref b).path = [b] := rfl
        rw [this] at hpath
        simp at hpath
        exact ⟨hpath.1.symm, hpath.2⟩
      obtain ⟨rfl, rfl⟩ := hh
      have hnone : Env.lookup (imports ts) h = none := by
        apply Env.lookup_none_of
        intro q hq he
        have hq' : (q.1, h) ∈ imports ts := by rw [← he]; exact hq
        exact (hfrom q.1 hq').2 rfl
      simp only [hnone, hbn]
      rfl


mutual
/-- every class a reference means was collected into `types` -/
theorem refs_sub_types : (e : PyExpr) → ∀ pc ∈ e.refs, pc.2 ∈ e.types
  | .lit _ _ _, pc, h => by simp [PyExpr.refs] at h
  | .arr k xs, pc, h => by
      simp only [PyExpr.refs, List.mem_append] at h
      simp only [PyExpr.types, List.mem_cons]
      rcases h with h | h
      · left
        unfold arrRefs at h
        cases k <;> simp at h
        · obtain ⟨_, h⟩ := h; simp [h, ArrKind.type]
        · simp [h, ArrKind.type]
      · exact Or.inr (refsL_sub_types xs pc h)
  | .dict kvs, pc, h => by
      simp only [PyExpr.refs] at h
      simp only [PyExpr.types, List.mem_cons]
      exact Or.inr (refsKV_sub_types kvs pc h)
  | .floatCall _ _, pc, h => by simp [PyExpr.refs] at h; simp [PyExpr.types, h]
  | .qnameCall _, pc, h => by simp [PyExpr.refs] at h; simp [PyExpr.types, h]
  | .opaqueCall _ _ _ _, pc, h => by simp [PyExpr.refs] at h; simp [PyExpr.types, h]
  | .decimalCall _ _, pc, h => by simp [PyExpr.refs] at h; simp [PyExpr.types, h]
  | .enumRef _ _, pc, h => by simp [PyExpr.refs] at h; simp [PyExpr.types, h]
  | .call c kws, pc, h => by
      simp only [PyExpr.refs, List.mem_cons] at h
      simp only [PyExpr.types, List.mem_cons]
      rcases h with h | h
      · exact Or.inl (by simp [h])
      · exact Or.inr (refsKw_sub_types kws pc h)
theorem refsL_sub_types : (xs : List PyExpr) → ∀ pc ∈ refsL xs, pc.2 ∈ typesL xs
  | [], pc, h => by simp [refsL] at h
  | x :: xs, pc, h => by
      simp only [refsL, List.mem_append] at h
      simp only [typesL, List.mem_append]
      rcases h with h | h
      · exact Or.inl (refs_sub_types x pc h)
      · exact Or.inr (refsL_sub_types xs pc h)
theorem refsKV_sub_types : (kvs : List (PyExpr × PyExpr)) → ∀ pc ∈ refsKV kvs, pc.2 ∈ typesKV kvs
  | [], pc, h => by simp [refsKV] at h
  | (k, v) :: r, pc, h => by
      simp only [refsKV, List.mem_append] at h
      simp only [typesKV, List.mem_append]
      rcases h with (h | h) | h
      · exact Or.inl (Or.inl (refs_sub_types k pc h))
      · exact Or.inl (Or.inr (refs_sub_types v pc h))
      · exact Or.inr (refsKV_sub_types r pc h)
theorem refsKw_sub_types : (kws : List (Str × PyExpr)) → ∀ pc ∈ refsKw kws, pc.2 ∈ typesKw kws
  | [], pc, h => by simp [refsKw] at h
  | (_, e) :: r, pc, h => by
      simp only [refsKw, List.mem_append] at h
      simp only [typesKw, List.mem_append]
      rcases h with h | h
      · exact Or.inl (refs_sub_types e pc h)
      · exact Or.inr (refsKw_sub_types r pc h)
end

theorem mem_refsKw_select (W : World) : ∀ (fs : List FieldSpec) (as : List Val) (pc : List Str × ClsRef),
    pc ∈ refsKw (selectKw fs as (renderL W as)) → ∃ a ∈ as, pc ∈ ((render W a).refs)
  | [], as, pc, h => by cases as <;> simp [selectKw, refsKw] at h
  | f :: fs, [], pc, h => by simp [selectKw, refsKw] at h
  | f :: fs, a :: as, pc, h => by
      simp only [selectKw, renderL] at h
      split at h
      · simp only [refsKw, List.mem_append] at h
        rcases h with h | h
        · exact ⟨a, by simp, h⟩
        · obtain ⟨x, hx, hp⟩ := mem_refsKw_select W fs as pc h
          exact ⟨x, by simp [hx], hp⟩
      · obtain ⟨x, hx, hp⟩ := mem_refsKw_select W fs as pc h
        exact ⟨x, by simp [hx], hp⟩

theorem reachable_single (W : World) (m h : Str) : reachable W ⟨m, [h]⟩ = true := by
  simp [reachable, walk]

theorem wfL_mem {W : World} : ∀ {xs : List Val} {a : Val}, wfL W xs = true → a ∈ xs → wf W a = true
  | [], _, _, h => by cases h
  | x :: xs, a, hw, h => by
      have hw' : wf W x = true ∧ wfL W xs = true := by simpa [wfL] using hw
      cases h with
      | head => exact hw'.1
      | tail _ h' => exact wfL_mem hw'.2 h'

theorem domOKL_mem {W : World} : ∀ {xs : List Val} {a : Val}, domOKL W xs = true → a ∈ xs → domOK W a = true
  | [], _, _, h => by cases h
  | x :: xs, a, hw, h => by
      have hw' : domOK W x = true ∧ domOKL W xs = true := by simpa [domOKL] using hw
      cases h with
      | head => exact hw'.1
      | tail _ h' => exact domOKL_mem hw'.2 h'

def RefsGood (W : World) (v : Val) : Prop :=
  wf W v = true → domOK W v = true → ∀ pc ∈ ((render W v).refs), RefGood W pc

mutual
theorem refs_good (W : World) : (v : Val) → RefsGood W v
  | .none => fun _ _ pc h => by simp [render, PyExpr.refs] at h
  | .bool _ => fun _ _ pc h => by simp [render, PyExpr.refs] at h
  | .int _ => fun _ _ pc h => by simp [render, PyExpr.refs] at h
  | .str _ _ => fun _ _ pc h => by simp [render, PyExpr.refs] at h
  | .bytes _ _ _ => fun _ _ pc h => by simp [render, PyExpr.refs] at h
  | .float x r => fun _ _ pc h => by
      cases hf : f64Finite x
      · simp [render, hf, PyExpr.refs] at h
        subst h
        exact ⟨by simp [floatCallee_eq]; rfl, reachable_single W _ _, Or.inr ⟨cs!"float", rfl, float_builtin⟩⟩
      · simp [render, hf, PyExpr.refs] at h
  | .qname t => fun _ _ pc h => by
      simp [render, PyExpr.refs] at h
      subst h
      exact ⟨by simp [qnameCallee_eq]; rfl, reachable_single W _ _, Or.inl (by simpa using qname_not_builtin)⟩
  | .decimal d r => fun _ _ pc h => by
      simp [render, PyExpr.refs] at h
      subst h
      exact ⟨rfl, reachable_single W _ _, Or.inl (by simpa using decimalName_builtin.2)⟩
  | .opaque c callee args n => fun hwf hok pc h => by
      simp [render, PyExpr.refs] at h
      subst h
      have hp : notNan n = true ∧ callee = c.path := by simpa [domOK] using hok
      have hw : reachable W c = true ∧ c.module ≠ builtinsMod := by simpa [wf] using hwf
      exact ⟨hp.2, hw.1, Or.inl hw.2⟩
  | .enum c m => fun hwf hok pc h => by
      simp [render, PyExpr.refs] at h
      subst h
      have hw : (isEnumWith W c m = true ∧ reachable W c = true) ∧ c.module ≠ builtinsMod := by
        simpa [wf] using hwf
      exact ⟨rfl, hw.1.2, Or.inl hw.2⟩
  | .list xs => fun hwf hok pc h => by
      simp only [render, PyExpr.refs, arrRefs] at h
      exact refs_goodL W xs (by simpa [wf] using hwf) (by simpa [domOK] using hok) pc (by simpa using h)
  | .tuple xs => fun hwf hok pc h => by
      simp only [render, PyExpr.refs, arrRefs] at h
      exact refs_goodL W xs (by simpa [wf] using hwf) (by simpa [domOK] using hok) pc (by simpa using h)
  | .set frozen xs => fun hwf hok pc h => by
      have hok' : hashableL xs = true ∧ domOKL W xs = true := by simpa [domOK] using hok
      simp only [render, PyExpr.refs, List.mem_append] at h
      rcases h with h | h
      · cases frozen
        · by_cases hx : xs.isEmpty = true
          · simp [arrRefs, renderL, hx] at h
            have hx' : xs = [] := by simpa using hx
            subst hx'
            simp [renderL] at h
            subst h
            exact ⟨rfl, reachable_single W _ _, Or.inr ⟨cs!"set", rfl, set_builtin.1⟩⟩
          · cases xs with
            | nil => simp at hx
            | cons x xs => simp [arrRefs, renderL] at h
        · simp [arrRefs] at h
          subst h
          exact ⟨rfl, reachable_single W _ _, Or.inr ⟨cs!"frozenset", rfl, set_builtin.2⟩⟩
      · exact refs_goodL W xs (by simpa [wf] using hwf) hok'.2 pc h
  | .dict kvs => fun hwf hok pc h => by
      simp only [render, PyExpr.refs] at h
      exact refs_goodKV W kvs (by simpa [wf] using hwf) (by simpa [domOK] using hok) pc h
  | .model c attrs => fun hwf hok pc h => by
      simp only [wf, Bool.and_eq_true] at hwf
      obtain ⟨⟨⟨_, hreach⟩, hmod⟩, hwfL⟩ := hwf
      simp only [domOK] at hok
      simp only [render, PyExpr.refs, List.mem_cons] at h
      rcases h with h | h
      · subst h
        exact ⟨rfl, hreach, Or.inl (by simpa using hmod)⟩
      · obtain ⟨a, ha, hp⟩ := mem_refsKw_select W _ attrs pc h
        exact refs_goodA W attrs a ha (wfL_mem hwfL ha) (domOKL_mem hok ha) pc hp
theorem refs_goodA (W : World) : (xs : List Val) → ∀ a ∈ xs, RefsGood W a
  | [], _, h => by cases h
  | x :: xs, a, h => by
      cases h with
      | head => exact refs_good W x
      | tail _ h' => exact refs_goodA W xs a h'
theorem refs_goodL (W : World) : (xs : List Val) → wfL W xs = true → domOKL W xs = true →
    ∀ pc ∈ refsL (renderL W xs), RefGood W pc
  | [], _, _, pc, h => by simp [renderL, refsL] at h
  | x :: xs, hwf, hok, pc, h => by
      have hwf' : wf W x = true ∧ wfL W xs = true := by simpa [wfL] using hwf
      have hok' : domOK W x = true ∧ domOKL W xs = true := by simpa [domOKL] using hok
      simp only [renderL, refsL, List.mem_append] at h
      rcases h with h | h
      · exact refs_good W x hwf'.1 hok'.1 pc h
      · exact refs_goodL W xs hwf'.2 hok'.2 pc h
theorem refs_goodKV (W : World) : (kvs : List (Val × Val)) → wfKV W kvs = true → domOKKV W kvs = true →
    ∀ pc ∈ refsKV (renderKV W kvs), RefGood W pc
  | [], _, _, pc, h => by simp [renderKV, refsKV] at h
  | (k, v) :: r, hwf, hok, pc, h => by
      have hwf' : (wf W k = true ∧ wf W v = true) ∧ wfKV W r = true := by simpa [wfKV] using hwf
      have hok' : ((hashable k = true ∧ domOK W k = true) ∧ domOK W v = true) ∧ domOKKV W r = true := by
        simpa [domOKKV] using hok
      simp only [renderKV, refsKV, List.mem_append] at h
      rcases h with (h | h) | h
      · exact refs_good W k hwf'.1.1 hok'.1.1.2 pc h
      · exact refs_good W v hwf'.1.2 hok'.1.2 pc h
      · exact refs_goodKV W r hwf'.2 hok'.2 pc h
end


/-! ### no string literal of the source needs decoding the model does not cover -/

theorem riskKw_select (W : World) : ∀ (fs : List FieldSpec) (as : List Val),
    (∀ a ∈ as, (render W a).syntaxRisk = false) → riskKw (selectKw fs as (renderL W as)) = false
  | [], as, _ => by cases as <;> simp [selectKw, riskKw]
  | f :: fs, [], _ => by simp [selectKw, riskKw]
  | f :: fs, a :: as, h => by
      have ha := h a (by simp)
      have hr := riskKw_select W fs as (fun x hx => h x (by simp [hx]))
      simp only [selectKw, renderL]
      split <;> simp [riskKw, ha, hr]

def NoRisk (W : World) (v : Val) : Prop := domOK W v = true → (render W v).syntaxRisk = false

mutual
theorem no_risk (W : World) : (v : Val) → NoRisk W v
  | .none => fun _ => by simp [render, PyExpr.syntaxRisk]
  | .bool _ => fun _ => by simp [render, PyExpr.syntaxRisk]
  | .int _ => fun _ => by simp [render, PyExpr.syntaxRisk]
  | .str s r => fun hok => by
      have hd : decodeStrLit r = some s := by simpa [domOK] using hok
      simp [render, PyExpr.syntaxRisk, hd]
  | .bytes _ bs r => fun hok => by
      have hd : decodeBytesLit r = some bs := by simpa [domOK] using hok
      simp [render, PyExpr.syntaxRisk, hd]
  | .float x r => fun hok => by
      obtain ⟨_, hrt⟩ := readFloat_repr (by simpa [domOK] using hok)
      cases hf : f64Finite x <;> simp [render, hf, PyExpr.syntaxRisk, hrt]
  | .opaque _ _ _ _ => fun _ => by simp [render, PyExpr.syntaxRisk]
  | .decimal d r => fun hok => by
      have hp : notNan (some (numOfDec d)) = true ∧ r = decRepr d := by simpa [domOK] using hok
      simp [render, PyExpr.syntaxRisk, hp.2, readDecimal_decRepr d]
  | .enum _ m => fun hok => by
      have hn : enumNameOK m = true := by simpa [domOK] using hok
      simp [render, PyExpr.syntaxRisk, hn]
  | .qname t => fun _ => by
      simp [render, PyExpr.syntaxRisk, decodeDq_jsonBody t]
  | .list xs => fun hok => by
      simp only [render, PyExpr.syntaxRisk]
      exact no_riskL W xs (by simpa [domOK] using hok)
  | .tuple xs => fun hok => by
      simp only [render, PyExpr.syntaxRisk]
      exact no_riskL W xs (by simpa [domOK] using hok)
  | .set frozen xs => fun hok => by
      have hok' : hashableL xs = true ∧ domOKL W xs = true := by simpa [domOK] using hok
      simp only [render, PyExpr.syntaxRisk]
      exact no_riskL W xs hok'.2
  | .dict kvs => fun hok => by
      simp only [render, PyExpr.syntaxRisk]
      exact no_riskKV W kvs (by simpa [domOK] using hok)
  | .model c attrs => fun hok => by
      simp only [domOK] at hok
      simp only [render, PyExpr.syntaxRisk]
      exact riskKw_select W _ attrs (fun a ha => no_riskA W attrs a ha (domOKL_mem hok ha))
theorem no_riskA (W : World) : (xs : List Val) → ∀ a ∈ xs, NoRisk W a
  | [], _, h => by cases h
  | x :: xs, a, h => by
      cases h with
      | head => exact no_risk W x
      | tail _ h' => exact no_riskA W xs a h'
theorem no_riskL (W : World) : (xs : List Val) → domOKL W xs = true → riskL (renderL W xs) = false
  | [], _ => by simp [renderL, riskL]
  | x :: xs, hok => by
      have hok' : domOK W x = true ∧ domOKL W xs = true := by simpa [domOKL] using hok
      simp [renderL, riskL, no_risk W x hok'.1, no_riskL W xs hok'.2]
theorem no_riskKV (W : World) : (kvs : List (Val × Val)) → domOKKV W kvs = true → riskKV (renderKV W kvs) = false
  | [], _ => by simp [renderKV, riskKV]
  | (k, v) :: r, hok => by
      have hok' : ((hashable k = true ∧ domOK W k = true) ∧ domOK W v = true) ∧ domOKKV W r = true := by
        simpa [domOKKV] using hok
      simp [renderKV, riskKV, no_risk W k hok'.1.1.2, no_risk W v hok'.1.2, no_riskKV W r hok'.2]
end


/-! ### `valOK` = the property's domain, with `init=False` attributes at their default -/

mutual
theorem valOK_of_dom (W : World) : (v : Val) → domOK W v = true → initFalseAtDefault W v = true → valOK W v = true
  | .none, _, _ => by simp [valOK]
  | .bool _, _, _ => by simp [valOK]
  | .int _, _, _ => by simp [valOK]
  | .qname _, _, _ => by simp [valOK]
  | .str _ _, hd, _ => by simpa [valOK, domOK] using hd
  | .bytes _ _ _, hd, _ => by simpa [valOK, domOK] using hd
  | .enum _ _, hd, _ => by simpa [valOK, domOK] using hd
  | .float _ _, hd, _ => by simpa [valOK, domOK] using hd
  | .opaque _ _ _ _, hd, _ => by simpa [valOK, domOK] using hd
  | .decimal _ _, hd, _ => by simpa [valOK, domOK] using hd
  | .set _ xs, hd, hi => by
      simp only [domOK, Bool.and_eq_true] at hd
      simp only [valOK, Bool.and_eq_true]
      exact ⟨hd.1, valOKL_of_dom W xs hd.2 (by simpa [initFalseAtDefault] using hi)⟩
  | .tuple xs, hd, hi => by
      simp only [valOK]
      exact valOKL_of_dom W xs (by simpa [domOK] using hd) (by simpa [initFalseAtDefault] using hi)
  | .list xs, hd, hi => by
      simp only [valOK]
      exact valOKL_of_dom W xs (by simpa [domOK] using hd) (by simpa [initFalseAtDefault] using hi)
  | .dict kvs, hd, hi => by
      simp only [valOK]
      exact valOKKV_of_dom W kvs (by simpa [domOK] using hd) (by simpa [initFalseAtDefault] using hi)
  | .model c attrs, hd, hi => by
      simp only [initFalseAtDefault, Bool.and_eq_true] at hi
      simp only [valOK, Bool.and_eq_true]
      exact ⟨hi.1, valOKL_of_dom W attrs (by simpa [domOK] using hd) hi.2⟩
theorem valOKL_of_dom (W : World) : (xs : List Val) → domOKL W xs = true → initFalseAtDefaultL W xs = true →
    valOKL W xs = true
  | [], _, _ => by simp [valOKL]
  | x :: xs, hd, hi => by
      have hd' : domOK W x = true ∧ domOKL W xs = true := by simpa [domOKL] using hd
      have hi' : initFalseAtDefault W x = true ∧ initFalseAtDefaultL W xs = true := by
        simpa [initFalseAtDefaultL] using hi
      simp [valOKL, valOK_of_dom W x hd'.1 hi'.1, valOKL_of_dom W xs hd'.2 hi'.2]
theorem valOKKV_of_dom (W : World) : (kvs : List (Val × Val)) → domOKKV W kvs = true →
    initFalseAtDefaultKV W kvs = true → valOKKV W kvs = true
  | [], _, _ => by simp [valOKKV]
  | (k, v) :: r, hd, hi => by
      have hd' : ((hashable k = true ∧ domOK W k = true) ∧ domOK W v = true) ∧ domOKKV W r = true := by
        simpa [domOKKV] using hd
      have hi' : (initFalseAtDefault W k = true ∧ initFalseAtDefault W v = true) ∧ initFalseAtDefaultKV W r = true := by
        simpa [initFalseAtDefaultKV] using hi
      simp [valOKKV, hd'.1.1.1, valOK_of_dom W k hd'.1.1.2 hi'.1.1, valOK_of_dom W v hd'.1.2 hi'.1.2,
        valOKKV_of_dom W r hd'.2 hi'.2]
end

/-! ### QName text with lone surrogates: what `literal_value` writes is read back -/

theorem hexVal_hexDigit : ∀ k : Fin 16, hexVal (hexDigit k.val) = some k.val := by decide

/-- the `Char` escapes, decoded by the code-point scanner -/
theorem decodeCp_jsonEscChar (c : Char) (r : Str) :
    decodeCp .normal (jsonEscChar c ++ r) = (decodeCp .normal r).map (c.toNat :: ·) := by
  unfold jsonEscChar
  by_cases h1 : c = '"'
  · subst h1; simp [decodeCp, hardEsc, simpleEsc, rawBad]
  by_cases h2 : c = '\\'
  · subst h2; simp [decodeCp, hardEsc, simpleEsc, rawBad]
  by_cases h3 : c = '\n'
  · subst h3; simp [decodeCp, hardEsc, simpleEsc, rawBad]
  by_cases h4 : c = '\r'
  · subst h4; simp [decodeCp, hardEsc, simpleEsc, rawBad]
  by_cases h5 : c = '\t'
  · subst h5; simp [decodeCp, hardEsc, simpleEsc, rawBad]
  by_cases h6 : c.toNat = 8
  · have : c = Char.ofNat 8 := by rw [← h6, Char.ofNat_toNat]
    subst this; simp [decodeCp, hardEsc, simpleEsc, rawBad]
  by_cases h7 : c.toNat = 12
  · have : c = Char.ofNat 12 := by rw [← h7, Char.ofNat_toNat]
    subst this; simp [decodeCp, hardEsc, simpleEsc, rawBad]
  by_cases h8 : c.toNat < 32
  · obtain ⟨hx1, hx2, _⟩ := hex_low ⟨c.toNat, h8⟩
    simp only at hx1 hx2
    have h0 : hexVal '0' = some 0 := by decide
    have hv2 : c.toNat / 16 * 16 + c.toNat % 16 = c.toNat := by omega
    simp [h1, h2, h3, h4, h5, h6, h7, h8, decodeCp, hx1, hx2, h0, hv2]
  · have hraw : rawBad c = false := by
      have : c.toNat ≠ 0 := by omega
      simp [rawBad, h1, h3, h4, this]
    simp [h1, h2, h3, h4, h5, h6, h7, h8, decodeCp, hraw]

theorem toNat_ofNat_of_scalar {n : Nat} (hn : n < 0x110000) (hs : isSurrogate n = false) :
    (Char.ofNat n).toNat = n := by
  have hv : n.isValidChar := by
    unfold Nat.isValidChar
    simp [isSurrogate] at hs
    omega
  simp [Char.ofNat, hv, Char.toNat, Char.ofNatAux]

/-- one code point: what `literal_value` writes for it, followed by anything,
decodes to that code point followed by the decoding of the rest -/
theorem decodeCp_escapeCp (n : Nat) (hn : n < 0x110000) (r : Str) :
    decodeCp .normal (escapeCp n ++ r) = (decodeCp .normal r).map (n :: ·) := by
  unfold escapeCp
  by_cases hs : isSurrogate n = true
  · have hlo : 0xD800 ≤ n ∧ n ≤ 0xDFFF := by simpa [isSurrogate] using hs
    have h3 := hexVal_hexDigit ⟨n / 4096, by omega⟩
    have h2 := hexVal_hexDigit ⟨n / 256 % 16, by omega⟩
    have h1 := hexVal_hexDigit ⟨n / 16 % 16, by omega⟩
    have h0 := hexVal_hexDigit ⟨n % 16, by omega⟩
    simp only at h3 h2 h1 h0
    have hv : ((n / 4096 * 16 + n / 256 % 16) * 16 + n / 16 % 16) * 16 + n % 16 = n := by omega
    simp [hs, decodeCp, h3, h2, h1, h0, hv]
  · have hns : isSurrogate n = false := by simpa using hs
    simp only [hns, Bool.false_eq_true, if_false]
    rw [decodeCp_jsonEscChar, toNat_ofNat_of_scalar hn hns]

theorem decodeCp_qnameLitBody : ∀ (cps : List Nat), (∀ n ∈ cps, n < 0x110000) →
    decodeCp .normal (qnameLitBody cps) = some cps
  | [], _ => rfl
  | n :: r, h => by
      rw [qnameLitBody, decodeCp_escapeCp n (h n (by simp)), decodeCp_qnameLitBody r (fun m hm => h m (by simp [hm]))]
      rfl

/-- for a text without surrogates (a `List Char`) the repaired `literal_value`
writes exactly what `json.dumps` writes -/
theorem qnameLitBody_scalar : ∀ (t : Str), qnameLitBody (t.map Char.toNat) = jsonBody t
  | [] => rfl
  | c :: r => by
      have hns : isSurrogate c.toNat = false := by
        have := c.valid
        simp only [isSurrogate]
        rcases this with h | h
        · have : c.toNat < 0xD800 := h
          simp; omega
        · have : 0xDFFF < c.toNat := h.1
          simp; omega
      simp [qnameLitBody, jsonBody, escapeCp, hns, Char.ofNat_toNat, qnameLitBody_scalar r]

/-! ### when `render` does not refuse, no import shadows a name the source uses -/

theorem importsOK_of_renders (W : World) (v : Val) (hwf : wf W v = true) (hok : domOK W v = true)
    (hr : renders W v = true) : importsOK W v = true := by
  simp only [importsOK, importsOKe, List.all_eq_true]
  intro pc hpc t ht
  have hg := refs_good W v hwf hok pc hpc
  have hmem := refs_sub_types (render W v) pc hpc
  simp only [renders, clashFree, List.all_eq_true] at hr
  have h := hr t ht pc.2 hmem
  rw [hg.1]
  simp only [Bool.or_eq_true, bne_iff_ne, beq_iff_eq] at h ⊢
  rcases h with h | h
  · exact Or.inl (Or.inr h)
  · exact Or.inr h

end Xs.Code
