/-
L7 — the abstract class universe and the *cache-free* specification of
`XmlMetaBuilder.build_class_meta / build_vars / build`,
`XmlVarBuilder.resolve_namespaces`, `default_namespace`,
`XmlContext.get_subclasses / is_binding_model` and the xsi index that
`XmlContext.build_xsi_cache` computes.

A class is identified by its creation index (`ClassId`).  The universe lists
every class that will ever exist; a `World` says how many of them have been
created so far (`loaded`) and what `len(sys.modules)` currently is.

Cuts (see NOTES-C14.md): single inheritance only; name generators are the
default `return_input`; compound (`Elements`) / `Attributes` fields, wrappers,
`Ignore` and the default-xml-type guess are not modelled; a class whose field
typing is unsupported is flagged `bad` (build raises `XmlContextError`).
-/
import XsdataModel.Ctx.Names

namespace Xs.Ctx
open Py

abbrev ClassId := Nat

inductive Kind | element | attribute | wildcard | text | elements
  deriving DecidableEq, Repr, Inhabited

/-- one entry of `metadata["choices"]` of a compound (`type="Elements"`) field whose
type is a single binding model -/
structure Alt where
  /-- `choice.get("name", "any")` -/
  name : Option Str
  /-- `choice["namespace"]` -/
  ns : Option Str
  /-- `choice["type"]` -/
  cls : Nat
  deriving DecidableEq, Repr, Inhabited

/-- one dataclass field with its `metadata` -/
structure Field where
  name : Str
  kind : Kind
  /-- `metadata["name"]` -/
  mname : Option Str
  /-- `metadata["namespace"]` (raw string) -/
  ns : Option Str
  /-- first binding-model type among the field's types (`XmlVar.clazz`) -/
  cls : Option ClassId
  /-- `metadata["wrapper"]` -/
  wrapper : Option Str := none
  /-- `metadata["choices"]` (compound fields only) -/
  alts : List Alt := []
  deriving DecidableEq, Repr, Inhabited

/-- a plain element field (optional model type) -/
def Field.elem (name : Str) (cls : Option Nat := none) : Field :=
  { name := name, kind := .element, mname := none, ns := none, cls := cls }

structure ClassDef where
  /-- `__name__` (assumed non-empty) -/
  name : Str
  /-- the single direct base other than `object` -/
  base : Option ClassId
  /-- `dataclasses.is_dataclass` -/
  isModel : Bool
  /-- `clazz.__module__` starts with the context's `models_package` (and is in `sys.modules`) -/
  inPkg : Bool
  /-- `Meta.namespace`: absent / `None` / a string -/
  ns : Option (Option Str)
  /-- `Meta.name` -/
  mname : Option Str
  /-- `Meta.target_namespace` -/
  targetNs : Option Str
  /-- the module's `__NAMESPACE__` -/
  moduleNs : Option Str
  /-- `Meta.global_type` (default `True`) -/
  globalType : Bool
  /-- `"." in __qualname__` -/
  inner : Bool
  /-- an own field carries a typing the converter does not support -/
  bad : Bool
  /-- own (declared in this class) fields, declaration order -/
  fields : List Field
  deriving DecidableEq, Repr, Inhabited

structure Universe where
  classes : List ClassDef
  deriving Repr

structure World where
  /-- classes `0 .. loaded-1` exist -/
  loaded : Nat
  /-- `len(sys.modules) = mods + 1` (never `0`, the context's initial stamp) -/
  mods : Nat
  deriving DecidableEq, Repr

def Universe.get? (U : Universe) (c : ClassId) : Option ClassDef := U.classes[c]?

/-- `ClassMeta` of `build_class_meta` (the name generators are identities) -/
structure ClassMeta where
  qname : Str
  localName : Str
  nsUri : Option Str
  targetQName : Option Str
  deriving DecidableEq, Repr

/-- first argument that `is not None` -/
def firstSome : List (Option Str) → Option Str
  | [] => none
  | some x :: _ => some x
  | none :: xs => firstSome xs

/-- `XmlMetaBuilder.build_class_meta(clazz, parent_namespace)` -/
def classMeta (d : ClassDef) (pns : Option Str) : ClassMeta :=
  let ln := if truthy d.mname then d.mname.getD [] else d.name
  let ns := match d.ns with
    | some v => v
    | none => pns
  let q := qn ns ln
  if d.inner || !d.globalType then ⟨q, ln, ns, none⟩
  else
    let tns := firstSome [d.targetNs, d.moduleNs, d.ns.getD none]
    ⟨q, ln, ns, some (qn tns ln)⟩

/-- a choice of a compound field: `XmlVar.elements[qname]` -/
structure ChoiceVar where
  qname : Str
  cls : Nat
  deriving DecidableEq, Repr

/-- `XmlVar` (the parts that names and lookups depend on) -/
structure Var where
  index : Nat
  name : Str
  localName : Str
  qname : Str
  /-- `tuple(set(...))`, canonically sorted -/
  namespaces : List Str
  kind : Kind
  cls : Option ClassId
  /-- `XmlVar.wrapper` -/
  wrapper : Option Str := none
  /-- `XmlVar.wrapper_qname` -/
  wrapperQName : Option Str := none
  /-- `XmlVar.elements` of a compound field, in dict order -/
  choices : List ChoiceVar := []
  deriving DecidableEq, Repr

/-- `XmlVarBuilder.resolve_namespaces` -/
def resolveNamespaces (kind : Kind) (ns pns : Option Str) : List Str :=
  let ns := if (kind == .element || kind == .wildcard) && ns.isNone then pns else ns
  match ns with
  | some (c :: cs) =>
    sortDedup ((splitWs (c :: cs)).map fun t =>
      if t = Tables.nsTarget then (if truthy pns then pns.getD [] else Tables.nsAny)
      else if t = Tables.nsLocal then []
      else if t = Tables.nsOther then '!' :: pns.getD []
      else t)
  | _ => []

/-- `default_namespace(namespaces)`: first non-empty entry not starting with `#`.
The code iterates a `tuple(set)`; the model iterates the sorted list, which
coincides whenever at most one entry qualifies. -/
def defaultNamespace : List Str → Option Str
  | [] => none
  | [] :: rest => defaultNamespace rest
  | (c :: cs) :: rest => if c = '#' then defaultNamespace rest else some (c :: cs)

/-- `dict[k] = v` on the choices of a compound field (`elements[choice.qname] = choice`) -/
def choiceSet (d : List ChoiceVar) (ch : ChoiceVar) : List ChoiceVar :=
  match d with
  | [] => [ch]
  | x :: rest => if x.qname = ch.qname then ch :: rest else x :: choiceSet rest ch

/-- `XmlVarBuilder.build_choices`: every choice is built like an element field named
`choice.get("name", "any")` with the compound field's parent namespace -/
def buildChoices (f : Field) (pns : Option Str) : List ChoiceVar :=
  f.alts.foldl (fun acc a =>
    let ln := a.name.getD "any".toList
    let nss := resolveNamespaces .element a.ns pns
    choiceSet acc ⟨qn (defaultNamespace nss) ln, a.cls⟩) []

/-- "Compound field contains ambiguous types": a type occurs in two choices -/
def altsAmbiguous : List Alt → Bool
  | [] => false
  | a :: rest => rest.any (fun b => b.cls == a.cls) || altsAmbiguous rest

/-- `XmlVarBuilder.build` for one field -/
def buildVar (index : Nat) (f : Field) (pns : Option Str) : Var :=
  let ln := if truthy f.mname then f.mname.getD [] else f.name
  let nss := resolveNamespaces f.kind f.ns pns
  { index := index, name := f.name, localName := ln,
    qname := qn (defaultNamespace nss) ln, namespaces := nss,
    kind := if f.cls.isSome then .element else f.kind, cls := f.cls,
    wrapper := f.wrapper,
    wrapperQName := if truthy f.wrapper then some (qn (defaultNamespace nss) (f.wrapper.getD [])) else none,
    choices := buildChoices f pns }

/-- `__mro__` without `object`, via the single-base chain (fuel bounds the depth) -/
def mroAux (U : Universe) : Nat → ClassId → List ClassId
  | 0, _ => []
  | fuel + 1, c =>
    match U.get? c with
    | none => [c]
    | some d =>
      match d.base with
      | none => [c]
      | some b => c :: mroAux U fuel b

def mro (U : Universe) (c : ClassId) : List ClassId := mroAux U (U.classes.length + 1) c

/-- dataclass fields in definition order (base first), each with the class that declares it -/
def allFields (U : Universe) (c : ClassId) : List (ClassId × Field) :=
  (mro U c).reverse.flatMap fun k =>
    match U.get? k with
    | some d => d.fields.map fun f => (k, f)
    | none => []

/-- does building the vars raise (`XmlContextError`): some class of the chain has a bad field -/
def chainBad (U : Universe) (c : ClassId) : Bool :=
  (mro U c).any fun k =>
    match U.get? k with
    | some d => d.bad || d.fields.any (fun f => altsAmbiguous f.alts)
    | none => false

/-- `XmlVarBuilder.index`: every var takes the next number; the choices of a compound
field are vars too and take the numbers after their field's -/
def enumFrom1 : Nat → List (ClassId × Field) → List (Nat × (ClassId × Field))
  | _, [] => []
  | i, x :: xs => (i, x) :: enumFrom1 (i + 1 + x.2.alts.length) xs

/-- `XmlMetaBuilder.build_vars` -/
def buildVars (U : Universe) (c : ClassId) (ns : Option Str) : List Var :=
  (enumFrom1 1 (allFields U c)).map fun (i, (k, f)) =>
    let pns :=
      if k = c then ns
      else match U.get? k with
        | some dk => (match dk.ns with
            | some v => v
            | none => ns)
        | none => ns
    buildVar i f pns

/-- `XmlMeta` -/
structure Meta where
  cls : ClassId
  qname : Str
  /-- `target_uri(qname)` -/
  nsUri : Option Str
  targetQName : Option Str
  vars : List Var
  deriving DecidableEq, Repr

inductive Err | xmlContext | value | parser | index | runtime
  deriving DecidableEq, Repr

/-- **Specification** of `XmlMetaBuilder.build(clazz, parent_namespace)`:
what a context without any cache returns. -/
def pureBuild (U : Universe) (c : ClassId) (pns : Option Str) : Except Err Meta :=
  match U.get? c with
  | none => .error .xmlContext
  | some d =>
    if !d.isModel then .error .xmlContext
    else if chainBad U c then .error .xmlContext
    else
      let cm := classMeta d pns
      .ok { cls := c, qname := cm.qname, nsUri := targetUri cm.qname,
            targetQName := cm.targetQName, vars := buildVars U c cm.nsUri }

/-- children of `p` (`none` = `object`) among the loaded classes, creation order -/
def childrenOf (U : Universe) (n : Nat) (p : Option ClassId) : List ClassId :=
  (List.range n).filter fun i =>
    match U.get? i with
    | some d => d.base == p
    | none => false

/-- `XmlContext.get_subclasses`: post-order (descendants first, then the class) -/
def postOrder (U : Universe) (n : Nat) : Nat → Option ClassId → List ClassId
  | 0, _ => []
  | fuel + 1, p => (childrenOf U n p).flatMap fun c => postOrder U n fuel (some c) ++ [c]

def subclassOrder (U : Universe) (n : Nat) : List ClassId := postOrder U n (n + 1) none

/-- `defaultdict(list)[k].append(c)` on an insertion-ordered association list -/
def dictAppend (d : List (Str × List ClassId)) (k : Str) (c : ClassId) : List (Str × List ClassId) :=
  match d with
  | [] => [(k, [c])]
  | (k', l) :: rest => if k' = k then (k', l ++ [c]) :: rest else (k', l) :: dictAppend rest k c

/-- `is_binding_model` -/
def isBinding (U : Universe) (c : ClassId) : Bool :=
  match U.get? c with
  | some d => d.isModel && d.inPkg
  | none => false

/-- the xsi key a class is indexed under (`build_class_meta(clazz).target_qname` if truthy) -/
def indexKey (U : Universe) (c : ClassId) : Option Str :=
  match U.get? c with
  | some d =>
    match (classMeta d none).targetQName with
    | some (t :: ts) => some (t :: ts)
    | _ => none
  | none => none

/-- the (key, class) pairs `build_xsi_cache` appends, in order -/
def indexEntries (U : Universe) (n : Nat) : List (Str × ClassId) :=
  (subclassOrder U n).filterMap fun c =>
    if isBinding U c then (indexKey U c).map fun k => (k, c) else none

/-- **Specification** of the index `build_xsi_cache` leaves behind -/
def pureIndex (U : Universe) (n : Nat) : List (Str × List ClassId) :=
  (indexEntries U n).foldl (fun d (k, c) => dictAppend d k c) []

def isDataType (q : Str) : Bool := Tables.dataTypeQNames.contains q

/-- **Specification** of `find_types(qname)` -/
def pureTypes (U : Universe) (w : World) (q : Str) : List ClassId :=
  if isDataType q then [] else ((pureIndex U w.loaded).lookup q).getD []

/-- `issubclass(c, tp)` -/
def isSubclass (U : Universe) (c tp : ClassId) : Bool := (mro U c).contains tp

/-- the loop of `find_subclass` over the candidate list -/
def pickSubclass (U : Universe) (c : ClassId) : List ClassId → Option ClassId
  | [] => none
  | tp :: rest =>
    if isSubclass U c tp then pickSubclass U c rest
    else if (mro U tp).any (fun m => (mro U c).contains m) then some tp
    else pickSubclass U c rest

def localNames (m : Meta) : List Str := m.vars.map (·.localName)

/-- the wrapper names of the wrapped fields (a wrapped field is written under its wrapper name) -/
def wrapperNames (m : Meta) : List Str :=
  m.vars.filterMap fun v => if truthy v.wrapper then v.wrapper else none

/-- `not names.difference(local_names)`, the local names including the wrapper names (5c6ca3a) -/
def namesMatch (names : List Str) (m : Meta) : Bool :=
  names.all fun n => (localNames m ++ wrapperNames m).contains n

/-- `len(local_names - field_names)` (sets) -/
def fieldDiff (names : List Str) (m : Meta) : Nat :=
  ((sortDedup (localNames m)).filter fun n => !names.contains n).length

/-- first element of a stable sort by `(diff, __name__)` -/
def keyLt (a b : Nat × Str) : Bool := a.1 < b.1 || (a.1 == b.1 && strLt a.2 b.2)

def bestChoice : List (ClassId × (Nat × Str)) → Option (ClassId × (Nat × Str))
  | [] => none
  | x :: xs =>
    match bestChoice xs with
    | none => some x
    | some y => if keyLt y.2 x.2 then some y else some x

end Xs.Ctx
