/- "Generation succeeds": a decidable well-formedness predicate on `Definitions`
under which `mapDefinitions` returns classes (used by Props/C17.lean `generation_succeeds`). -/
import XsdataModel.Proofs.WsdlMapper

namespace Xs.Wsdl
open Py

/-! ## well-formedness, bottom up -/

/-- a part given by element/type names something (`tns:` alone would raise `ValueError`) -/
def partOK (p : Part) : Bool := !p.typed || !(splitColon p.ref).2.isEmpty

/-- the message exists and all its parts are fine -/
def messageOK (d : Definitions) (name : Str) : Bool :=
  match d.messages.find? (·.name == name) with
  | some m => m.parts.all partOK
  | none => false

/-- one `soap:body`/`soap:header`/… of a binding message -/
def extOK (d : Definitions) (pm : PtMessage) (style : Str) (e : Ext) : Bool :=
  let c := titleA (localName e.qname)
  !c.isEmpty &&
    (if style == ws!"rpc" && c == ws!"Body" then !(splitColon pm.message).2.isEmpty
     else messageOK d (extMessageName pm.message e))

/-- one direction of an operation -/
def directionOK (d : Definitions) (style : Str) (isOutput : Bool) (bm : BMessage) (pm? : Option PtMessage) : Bool :=
  match pm? with
  | none => false
  | some pm =>
    (style != ws!"rpc" || (messageOK d (splitColon pm.message).2 && !(splitColon pm.message).2.isEmpty)) &&
    bm.ext.all (extOK d pm style) &&
    bm.ext.all (fun e => wfLocal (titleA (localName e.qname))) &&
    (!isOutput || bm.ext.any (fun e => titleA (localName e.qname) == ws!"Body"))

/-- one binding operation against its port type operation -/
def operationOK (d : Definitions) (bo : BOperation) (po : PtOperation) (cfg : Dict) : Bool :=
  let style := (aget cfg ws!"style").getD ws!"document"
  (match bo.input with | some bm => directionOK d style false bm po.input | none => true) &&
  (match bo.output with
    | some bm => directionOK d style true bm po.output && po.faults.all (fun f => messageOK d (suffix f.message))
    | none => true)

def operationsOK (d : Definitions) (pt : PortType) (config : Dict) (ops : List BOperation) : Bool :=
  ops.all (fun o =>
    match pt.operations.find? (·.name == o.name) with
    | some po => operationOK d o po (aupdate config (attributes o.ext))
    | none => false)

def portOK (d : Definitions) (port : Port) : Bool :=
  match d.bindings.find? (·.name == suffix port.binding) with
  | none => false
  | some b =>
    match d.portTypes.find? (·.name == suffix b.type) with
    | none => false
    | some pt => wfLocal pt.name && operationsOK d pt (attributes (b.ext ++ port.ext)) (uniqueOperations b)

/-- **the supported fragment, as a decidable predicate**: the target namespace can be
written in `{ns}name` notation; every port names a binding, every binding a port
type, every binding operation an operation of it with the same directions; every
message referenced (port type input/output for rpc, `soap:body`/`soap:header`,
faults) exists and its parts name an element or type; extension elements have
names; an output has a `soap:body`. -/
def wfDefinitions (d : Definitions) : Bool :=
  wfUri d.targetNamespace && (d.services.flatMap (·.ports)).all (portOK d)

/-! ## totality lemmas -/

theorem partAttr_ok (p : Part) (h : partOK p = true) : ∃ a, partAttr p = .ok a := by
  by_cases ht : p.typed = true
  · have hl : (splitColon p.ref).2 ≠ [] := by
      simp only [partOK, ht, Bool.not_true, Bool.false_or, Bool.not_eq_true'] at h
      intro hh; rw [hh] at h; simp at h
    obtain ⟨q, hq⟩ := buildQName_ok (aget p.nsMap (splitColon p.ref).1) _ hl
    unfold partAttr
    by_cases he : truthy p.element = true
    · simp only [Part.ref, he, ↓reduceIte] at hq
      simp only [he, ↓reduceIte, bind, Except.bind, pure, Except.pure, hq]
      exact ⟨_, rfl⟩
    · have he' : truthy p.element = false := by simpa using he
      have htt : truthy p.type = true := by simpa [Part.typed, he'] using ht
      simp only [Part.ref, he', Bool.false_eq_true, ↓reduceIte] at hq
      simp only [he', Bool.false_eq_true, ↓reduceIte, htt, bind, Except.bind, pure, Except.pure, hq]
      exact ⟨_, rfl⟩
  · exact ⟨none, partAttr_untyped p (by simpa using ht)⟩

theorem partsAttrs_ok (ps : List Part) (h : ps.all partOK = true) : ∃ as, partsAttrs ps = .ok as := by
  induction ps with
  | nil => exact ⟨[], rfl⟩
  | cons p ps ih =>
    simp only [List.all_cons, Bool.and_eq_true] at h
    obtain ⟨a, ha⟩ := partAttr_ok p h.1
    obtain ⟨as, has⟩ := ih h.2
    simp only [partsAttrs, ha, has, bind, Except.bind, pure, Except.pure]
    exact ⟨_, rfl⟩

theorem messageOK_find (d : Definitions) (name : Str) (h : messageOK d name = true) :
    ∃ m, findMessage d name = .ok m ∧ m.parts.all partOK = true := by
  unfold messageOK at h
  unfold findMessage
  cases hf : d.messages.find? (·.name == name) with
  | none => simp [hf] at h
  | some m => simp only [hf] at h; exact ⟨m, rfl, h⟩

theorem all_filter_of_all {α} (l : List α) (p q : α → Bool) (h : l.all p = true) : (l.filter q).all p = true := by
  simp only [List.all_eq_true, List.mem_filter] at *
  intro x hx; exact h x hx.1

theorem extItem_ok (d : Definitions) (pm : PtMessage) (style : Str) (op : Option Str) (e : Ext)
    (h : extOK d pm style e = true) : ∃ i, extItem d pm style op e = .ok i := by
  simp only [extOK] at h
  have h2 := (Bool.and_eq_true_iff.1 h).2
  unfold extItem
  by_cases hc : (style == ws!"rpc" && titleA (localName e.qname) == ws!"Body") = true
  · simp only [hc, ↓reduceIte, Bool.not_eq_true'] at h2
    have hl : (splitColon pm.message).2 ≠ [] := by intro hh; rw [hh] at h2; simp at h2
    obtain ⟨q, hq⟩ := buildQName_ok (aget pm.nsMap (splitColon pm.message).1) _ hl
    simp only [hc, ↓reduceIte, mapPortTypeMessage, bind, Except.bind, pure, Except.pure, hq]
    exact ⟨_, rfl⟩
  · have hc' : (style == ws!"rpc" && titleA (localName e.qname) == ws!"Body") = false := by simpa using hc
    simp only [hc', Bool.false_eq_true, ↓reduceIte] at h2
    obtain ⟨m, hm, hp⟩ := messageOK_find d _ h2
    obtain ⟨as, has⟩ := partsAttrs_ok (selectParts (selectedNames e) m.parts) (by
      unfold selectParts
      split
      · exact hp
      · exact all_filter_of_all _ _ _ hp)
    simp only [hc', Bool.false_eq_true, ↓reduceIte, mapBindingMessageParts, bind, Except.bind, pure, Except.pure, hm, has]
    exact ⟨_, rfl⟩

theorem extItems_ok (d : Definitions) (pm : PtMessage) (style : Str) (op : Option Str) (exts : List Ext)
    (h : exts.all (extOK d pm style) = true) : ∃ is, extItems d pm style op exts = .ok is := by
  induction exts with
  | nil => exact ⟨[], rfl⟩
  | cons e es ih =>
    simp only [List.all_cons, Bool.and_eq_true] at h
    obtain ⟨i, hi⟩ := extItem_ok d pm style op e h.1
    obtain ⟨is, his⟩ := ih h.2
    simp only [extItems, hi, his, bind, Except.bind, pure, Except.pure]
    exact ⟨_, rfl⟩

theorem wfLocal_ne_nil (c : Str) (h : wfLocal c = true) : c ≠ [] := by
  intro hh; subst hh; simp [wfLocal] at h

theorem mkInner_ok (t : Cls) (c : Str) (hc : c ≠ []) : ∃ i, mkInner t c = .ok i := by
  obtain ⟨q, hq⟩ := buildQName_ok t.targetNamespace c hc
  simp only [mkInner, hq, bind, Except.bind, pure, Except.pure]
  exact ⟨_, rfl⟩

theorem addInner_ok (t : Cls) (c : Str) (ns : Option Str) (as : List AttrM) (upd : NsMap → NsMap) (hc : c ≠ []) :
    ∃ t', addInner t c ns as upd = .ok t' := by
  unfold addInner
  split
  · exact ⟨_, rfl⟩
  · obtain ⟨i, hi⟩ := mkInner_ok t c hc
    simp only [hi, bind, Except.bind, pure, Except.pure]
    exact ⟨_, rfl⟩

theorem addItems_ok (t : Cls) (items : List ExtItem) (h : ∀ i ∈ items, i.cname ≠ []) :
    ∃ t', addItems t items = .ok t' := by
  induction items generalizing t with
  | nil => exact ⟨t, rfl⟩
  | cons i is ih =>
    obtain ⟨t1, h1⟩ := addInner_ok t i.cname none i.attrs (fun m => partsNs m i.parts) (h i List.mem_cons_self)
    obtain ⟨t2, h2⟩ := ih t1 (fun j hj => h j (List.mem_cons_of_mem _ hj))
    simp only [addItems, addItem, h1, bind, Except.bind]
    exact ⟨t2, h2⟩

theorem buildEnvelopeClass_ok (d : Definitions) (bm : BMessage) (pm : PtMessage) (name style : Str)
    (ns op : Option Str) (hn : name ≠ []) (he : bm.ext.all (extOK d pm style) = true)
    (hw : bm.ext.all (fun e => wfLocal (titleA (localName e.qname))) = true) :
    ∃ env, buildEnvelopeClass d bm pm name style ns op = .ok env := by
  obtain ⟨q, hq⟩ := buildQName_ok d.targetNamespace name hn
  obtain ⟨items, hi⟩ := extItems_ok d pm style op bm.ext he
  have hcn : ∀ i ∈ items, i.cname ≠ [] := by
    intro i hi'
    have hc := extItems_cnames _ _ _ _ _ _ hi
    have : i.cname ∈ bm.ext.map (fun e => titleA (localName e.qname)) := by
      rw [← hc]; exact List.mem_map_of_mem hi'
    obtain ⟨e, hee, heq⟩ := List.mem_map.1 this
    rw [← heq]
    exact wfLocal_ne_nil _ (List.all_eq_true.1 hw e hee)
  obtain ⟨t', ht'⟩ := addItems_ok
    (Cls.mk q (some ws!"Envelope") Tables.c17TagBindingMessage Tables.c17StatusRaw ns bm.location bm.nsMap [] []) items hcn
  simp only [buildEnvelopeClass, envelopeBase, hq, hi, bind, Except.bind, pure, Except.pure]
  exact ⟨t', ht'⟩

/-! ### a `Body` exists -/

theorem addInner_find_self (t t' : Cls) (c : Str) (ns : Option Str) (as : List AttrM) (upd : NsMap → NsMap)
    (hn : innerNameOK t.qname c) (h : addInner t c ns as upd = .ok t') : (findInner t' c).isSome = true := by
  unfold addInner at h
  split at h
  · rename_i x hx
    simp only [Except.ok.injEq] at h
    subst h
    unfold findInner at hx ⊢
    simp only [Cls.setInner_inner, List.find?_map]
    have hfun : ((fun y : Cls => y.name == c) ∘ (fun y : Cls =>
        if y.name == c then (y.setAttrs (y.attrs ++ as)).setNsMap (upd y.nsMap) else y))
        = (fun y : Cls => y.name == c) := by
      funext y
      simp only [Function.comp]
      by_cases hy : y.name == c <;> simp [hy]
    rw [hfun, hx]
    rfl
  · cases hm : mkInner t c with
    | error e => simp [hm, bind, Except.bind] at h
    | ok inner =>
      simp only [hm, bind, Except.bind, pure, Except.pure, Except.ok.injEq] at h
      subst h
      have hin := mkInner_name t inner c hn hm
      unfold findInner
      simp only [Cls.setAttrs_inner, Cls.setInner_inner, List.find?_append]
      cases hf : List.find? (fun y => y.name == c) t.inner <;> simp [hin]

theorem addInner_find_mono (t t' : Cls) (c : Str) (ns : Option Str) (as : List AttrM) (upd : NsMap → NsMap)
    (key : Str) (h : addInner t c ns as upd = .ok t') (hk : (findInner t key).isSome = true) :
    (findInner t' key).isSome = true := by
  unfold addInner at h
  split at h
  · simp only [Except.ok.injEq] at h
    subst h
    unfold findInner at hk ⊢
    simp only [Cls.setInner_inner, List.find?_map]
    have hfun : ((fun y : Cls => y.name == key) ∘ (fun y : Cls =>
        if y.name == c then (y.setAttrs (y.attrs ++ as)).setNsMap (upd y.nsMap) else y))
        = (fun y : Cls => y.name == key) := by
      funext y
      simp only [Function.comp]
      by_cases hy : y.name == c <;> simp [hy]
    rw [hfun]
    cases hf : List.find? (fun y => y.name == key) t.inner with
    | none => rw [hf] at hk; simp at hk
    | some y => rfl
  · cases hm : mkInner t c with
    | error e => simp [hm, bind, Except.bind] at h
    | ok inner =>
      simp only [hm, bind, Except.bind, pure, Except.pure, Except.ok.injEq] at h
      subst h
      unfold findInner at hk ⊢
      simp only [Cls.setAttrs_inner, Cls.setInner_inner, List.find?_append]
      cases hf : List.find? (fun y => y.name == key) t.inner with
      | none => rw [hf] at hk; simp at hk
      | some y => simp

theorem addItems_find (t t' : Cls) (items : List ExtItem) (key : Str)
    (hn : ∀ i ∈ items, innerNameOK t.qname i.cname) (h : addItems t items = .ok t')
    (hk : (findInner t key).isSome = true ∨ ∃ i ∈ items, i.cname = key) : (findInner t' key).isSome = true := by
  induction items generalizing t with
  | nil =>
    simp [addItems] at h; subst h
    rcases hk with hk | ⟨i, hi, _⟩
    · exact hk
    · cases hi
  | cons i is ih =>
    simp only [addItems, bind, Except.bind] at h
    cases h1 : addItem t i with
    | error e => simp [h1] at h
    | ok t1 =>
      simp only [h1] at h
      have hq : t1.qname = t.qname := (addInner_sameHead _ _ _ _ _ _ h1).1
      have hn' : ∀ j ∈ is, innerNameOK t1.qname j.cname := by
        intro j hj; rw [hq]; exact hn j (List.mem_cons_of_mem _ hj)
      apply ih t1 hn' h
      rcases hk with hk | ⟨j, hj, hjk⟩
      · exact Or.inl (addInner_find_mono _ _ _ _ _ _ key h1 hk)
      · rcases List.mem_cons.1 hj with hj | hj
        · subst hj; subst hjk
          exact Or.inl (addInner_find_self _ _ _ _ _ _ (hn _ List.mem_cons_self) h1)
        · exact Or.inr ⟨j, hj, hjk⟩

theorem buildEnvelopeClass_has_body (d : Definitions) (bm : BMessage) (pm : PtMessage) (name style : Str)
    (ns op : Option Str) (env : Cls) (wf : EnvWF d bm name)
    (hb : bm.ext.any (fun e => titleA (localName e.qname) == ws!"Body") = true)
    (h : buildEnvelopeClass d bm pm name style ns op = .ok env) : (findInner env ws!"Body").isSome = true := by
  unfold buildEnvelopeClass envelopeBase at h
  cases hq : buildQName d.targetNamespace name with
  | error e => simp [hq, bind, Except.bind] at h
  | ok q =>
    simp only [hq, bind, Except.bind, pure, Except.pure] at h
    cases hi : extItems d pm style op bm.ext with
    | error e => simp [hi] at h
    | ok items =>
      simp only [hi] at h
      have hc := extItems_cnames _ _ _ _ _ _ hi
      have hn : ∀ i ∈ items, innerNameOK
          (Cls.mk q (some ws!"Envelope") Tables.c17TagBindingMessage Tables.c17StatusRaw ns bm.location bm.nsMap [] []).qname
          i.cname := by
        intro i hi'
        have : i.cname ∈ bm.ext.map (fun e => titleA (localName e.qname)) := by
          rw [← hc]; exact List.mem_map_of_mem hi'
        obtain ⟨e, he, hee⟩ := List.mem_map.1 this
        exact innerNameOK_of_wf d.targetNamespace name q i.cname wf.uri wf.name hq (hee ▸ wf.exts e he)
      apply addItems_find _ _ items ws!"Body" hn h
      right
      obtain ⟨e, he, heb⟩ := List.any_eq_true.1 hb
      have : titleA (localName e.qname) ∈ items.map (·.cname) := by
        rw [hc]; exact List.mem_map_of_mem (f := fun e => titleA (localName e.qname)) he
      obtain ⟨i, hi', hie⟩ := List.mem_map.1 this
      exact ⟨i, hi', by rw [hie]; simpa using heb⟩

/-! ### faults -/

theorem faultDetailAttrs_ok (d : Definitions) (fs : List PtMessage)
    (h : fs.all (fun f => messageOK d (suffix f.message)) = true) : ∃ as, faultDetailAttrs d fs = .ok as := by
  induction fs with
  | nil => exact ⟨[], rfl⟩
  | cons f fs ih =>
    simp only [List.all_cons, Bool.and_eq_true] at h
    obtain ⟨m, hm, hp⟩ := messageOK_find d _ h.1
    obtain ⟨a, ha⟩ := partsAttrs_ok m.parts hp
    obtain ⟨rest, hr⟩ := ih h.2
    simp only [faultDetailAttrs, hm, ha, hr, bind, Except.bind, pure, Except.pure]
    exact ⟨_, rfl⟩

theorem finishFault_ok (fault0 : Cls) (da : List AttrM) : ∃ f, finishFault fault0 da = .ok f := by
  unfold finishFault
  by_cases hd : da.isEmpty = true
  · simp only [hd, ↓reduceIte]; exact ⟨_, rfl⟩
  · obtain ⟨i, hi⟩ := mkInner_ok fault0 ws!"detail" (by decide)
    have hd' : da.isEmpty = false := by simpa using hd
    simp only [hd', Bool.false_eq_true, ↓reduceIte, hi, bind, Except.bind, pure, Except.pure]
    exact ⟨_, rfl⟩

theorem buildEnvelopeFault_ok (d : Definitions) (po : PtOperation) (env : Cls)
    (hb : (findInner env ws!"Body").isSome = true)
    (hf : po.faults.all (fun f => messageOK d (suffix f.message)) = true) :
    ∃ env', buildEnvelopeFault d po env = .ok env' := by
  unfold buildEnvelopeFault
  unfold findInner at hb
  cases hfind : env.inner.find? (fun c => c.name == ws!"Body") with
  | none => rw [hfind] at hb; simp at hb
  | some body =>
    obtain ⟨f0, hf0⟩ := mkInner_ok body ws!"Fault" (by decide)
    obtain ⟨da, hda⟩ := faultDetailAttrs_ok d po.faults hf
    obtain ⟨f, hff⟩ := finishFault_ok f0 da
    simp only [addFault, hf0, hda, hff, bind, Except.bind, pure, Except.pure]
    exact ⟨_, rfl⟩

/-! ### one operation, one port, all ports -/

theorem joinU_ne_nil (a b : Str) : joinU a b ≠ [] := by
  unfold joinU
  cases a <;> simp

theorem buildMessageClass_ok (d : Definitions) (pm : PtMessage)
    (h : messageOK d (splitColon pm.message).2 = true) (hl : (splitColon pm.message).2 ≠ []) :
    ∃ c, buildMessageClass d pm = .ok c := by
  obtain ⟨m, hm, hp⟩ := messageOK_find d _ h
  obtain ⟨q, hq⟩ := buildQName_ok (aget m.nsMap (splitColon pm.message).1) _ hl
  obtain ⟨as, has⟩ := partsAttrs_ok m.parts hp
  simp only [buildMessageClass, hm, hq, has, bind, Except.bind, pure, Except.pure]
  exact ⟨_, rfl⟩

theorem mapMessage_ok (d : Definitions) (po : PtOperation) (name style : Str) (ns : Option Str) (sfx : Str)
    (bm : BMessage) (pm? : Option PtMessage) (op : Option Str) (isOut : Bool)
    (hu : wfUri d.targetNamespace = true) (hname : wfLocal name = true)
    (hd : directionOK d style isOut bm pm? = true)
    (hf : isOut = true → po.faults.all (fun f => messageOK d (suffix f.message)) = true) :
    ∃ r, mapMessage d po name style ns sfx bm pm? op isOut = .ok r := by
  unfold directionOK at hd
  cases pm? with
  | none => simp at hd
  | some pm =>
    simp only [Bool.and_eq_true, Bool.or_eq_true, bne_iff_ne, ne_eq, Bool.not_eq_true'] at hd
    obtain ⟨⟨⟨h1, h2⟩, h3⟩, h4⟩ := hd
    have hmc : ∃ mc, rpcMessageClass d style pm = .ok mc := by
      unfold rpcMessageClass
      by_cases hs : (style == ws!"rpc") = true
      · have : style = ws!"rpc" := by simpa using hs
        rcases h1 with h1 | h1
        · exact absurd this h1
        · obtain ⟨c, hc⟩ := buildMessageClass_ok d pm h1.1 (by
            intro hh; have := h1.2; rw [hh] at this; simp at this)
          simp only [hs, ↓reduceIte, hc, Except.map]
          exact ⟨_, rfl⟩
      · have hs' : (style == ws!"rpc") = false := by simpa using hs
        simp only [hs', Bool.false_eq_true, ↓reduceIte]
        exact ⟨_, rfl⟩
    obtain ⟨mc, hmc⟩ := hmc
    obtain ⟨env, henv⟩ := buildEnvelopeClass_ok d bm pm (joinU name sfx) style ns op (joinU_ne_nil _ _) h2 h3
    have wf : EnvWF d bm (joinU name sfx) :=
      ⟨hu, wfLocal_joinU _ _ hname, fun e he => List.all_eq_true.1 h3 e he⟩
    have hw : ∃ env', withFault d po isOut env = .ok env' := by
      unfold withFault
      cases isOut with
      | false => exact ⟨env, rfl⟩
      | true =>
        simp only [↓reduceIte]
        have hb : bm.ext.any (fun e => titleA (localName e.qname) == ws!"Body") = true := by
          rcases h4 with h4 | h4
          · cases h4
          · exact h4
        exact buildEnvelopeFault_ok d po env (buildEnvelopeClass_has_body _ _ _ _ _ _ _ _ wf hb henv) (hf rfl)
    obtain ⟨env', henv'⟩ := hw
    simp only [mapMessage, hmc, henv, henv', bind, Except.bind, pure, Except.pure]
    exact ⟨_, rfl⟩

theorem mapBindingOperation_ok (d : Definitions) (bo : BOperation) (po : PtOperation) (cfg : Dict) (pt : Str)
    (hu : wfUri d.targetNamespace = true) (hpt : wfLocal pt = true) (h : operationOK d bo po cfg = true) :
    ∃ cs, mapBindingOperation d bo po cfg pt = .ok cs := by
  simp only [operationOK, Bool.and_eq_true] at h
  obtain ⟨hi, ho⟩ := h
  have hname : wfLocal (joinU pt bo.name) = true := wfLocal_joinU _ _ hpt
  have hmm : ∃ pairs, mapMessages d bo po (joinU pt bo.name) ((aget cfg ws!"style").getD ws!"document")
      (operationNamespace cfg) = .ok pairs := by
    unfold mapMessages
    cases hbi : bo.input with
    | none =>
      cases hbo : bo.output with
      | none => simp only [bind, Except.bind, pure, Except.pure]; exact ⟨_, rfl⟩
      | some bmo =>
        simp only [hbo, Bool.and_eq_true] at ho
        obtain ⟨r, hr⟩ := mapMessage_ok d po (joinU pt bo.name) _ (operationNamespace cfg) ws!"output" bmo po.output none true
          hu hname ho.1 (fun _ => ho.2)
        simp only [hr, bind, Except.bind, pure, Except.pure, Except.map]
        exact ⟨_, rfl⟩
    | some bmi =>
      simp only [hbi] at hi
      obtain ⟨ri, hri⟩ := mapMessage_ok d po (joinU pt bo.name) _ (operationNamespace cfg) ws!"input" bmi po.input
        (some bo.name) false hu hname hi (fun h => by cases h)
      cases hbo : bo.output with
      | none => simp only [hri, bind, Except.bind, pure, Except.pure, Except.map]; exact ⟨_, rfl⟩
      | some bmo =>
        simp only [hbo, Bool.and_eq_true] at ho
        obtain ⟨r, hr⟩ := mapMessage_ok d po (joinU pt bo.name) _ (operationNamespace cfg) ws!"output" bmo po.output none true
          hu hname ho.1 (fun _ => ho.2)
        simp only [hri, hr, bind, Except.bind, pure, Except.pure, Except.map]
        exact ⟨_, rfl⟩
  obtain ⟨pairs, hp⟩ := hmm
  obtain ⟨q, hq⟩ := buildQName_ok d.targetNamespace (joinU pt bo.name) (joinU_ne_nil _ _)
  simp only [mapBindingOperation, hp, hq, bind, Except.bind, pure, Except.pure]
  exact ⟨_, rfl⟩

theorem mapOperations_ok (d : Definitions) (pt : PortType) (config : Dict) (ops : List BOperation)
    (hu : wfUri d.targetNamespace = true) (hpt : wfLocal pt.name = true)
    (h : operationsOK d pt config ops = true) : ∃ cs, mapOperations d pt config ops = .ok cs := by
  induction ops with
  | nil => exact ⟨[], rfl⟩
  | cons o os ih =>
    simp only [operationsOK, List.all_cons, Bool.and_eq_true] at h
    obtain ⟨h1, h2⟩ := h
    cases hf : pt.operations.find? (·.name == o.name) with
    | none => simp [hf] at h1
    | some po =>
      simp only [hf] at h1
      obtain ⟨cs, hcs⟩ := mapBindingOperation_ok d o po _ pt.name hu hpt h1
      obtain ⟨rest, hr⟩ := ih (by simpa [operationsOK] using h2)
      simp only [mapOperations, findOperation, hf, hcs, hr, bind, Except.bind, pure, Except.pure]
      exact ⟨_, rfl⟩

theorem mapPort_ok (d : Definitions) (port : Port) (hu : wfUri d.targetNamespace = true)
    (h : portOK d port = true) : ∃ cs, mapPort d port = .ok cs := by
  unfold portOK at h
  cases hb : d.bindings.find? (·.name == suffix port.binding) with
  | none => simp [hb] at h
  | some b =>
    simp only [hb] at h
    cases hp : d.portTypes.find? (·.name == suffix b.type) with
    | none => simp [hp] at h
    | some pt =>
      simp only [hp, Bool.and_eq_true] at h
      obtain ⟨cs, hcs⟩ := mapOperations_ok d pt _ (uniqueOperations b) hu h.1 h.2
      simp only [mapPort, findBinding, findPortType, hb, hp, bind, Except.bind]
      exact ⟨cs, hcs⟩

theorem mapPorts_ok (d : Definitions) (ports : List Port) (hu : wfUri d.targetNamespace = true)
    (h : ports.all (portOK d) = true) : ∃ cs, mapPorts d ports = .ok cs := by
  induction ports with
  | nil => exact ⟨[], rfl⟩
  | cons p ps ih =>
    simp only [List.all_cons, Bool.and_eq_true] at h
    obtain ⟨cs, hcs⟩ := mapPort_ok d p hu h.1
    obtain ⟨rest, hr⟩ := ih h.2
    simp only [mapPorts, hcs, hr, bind, Except.bind, pure, Except.pure]
    exact ⟨_, rfl⟩

theorem mapDefinitions_ok (d : Definitions) (h : wfDefinitions d = true) : ∃ cs, mapDefinitions d = .ok cs := by
  simp only [wfDefinitions, Bool.and_eq_true] at h
  exact mapPorts_ok d _ h.1 h.2

end Xs.Wsdl

namespace Xs.Wsdl
open Py

/-! ## one service class per operation -/

def isService (c : Cls) : Bool := c.tag == Tables.c17TagBindingOperation

theorem buildEnvelopeClass_tag (d : Definitions) (bm : BMessage) (pm : PtMessage) (name style : Str)
    (ns op : Option Str) (env : Cls) (h : buildEnvelopeClass d bm pm name style ns op = .ok env) :
    env.tag = Tables.c17TagBindingMessage := by
  unfold buildEnvelopeClass envelopeBase at h
  cases hq : buildQName d.targetNamespace name with
  | error e => simp [hq, bind, Except.bind] at h
  | ok q =>
    simp only [hq, bind, Except.bind, pure, Except.pure] at h
    cases hi : extItems d pm style op bm.ext with
    | error e => simp [hi] at h
    | ok items =>
      simp only [hi] at h
      exact (addItems_sameHead _ _ _ h).2.2.2

theorem mapMessage_tags (d : Definitions) (po : PtOperation) (name style : Str) (ns : Option Str) (sfx : Str)
    (bm : BMessage) (pm? : Option PtMessage) (op : Option Str) (isOut : Bool) (r : Option Cls × Cls)
    (h : mapMessage d po name style ns sfx bm pm? op isOut = .ok r) :
    (flattenPair r).all (fun c => !isService c) = true := by
  have hne1 : (Tables.c17TagBindingMessage == Tables.c17TagBindingOperation) = false := by decide
  have hne2 : (Tables.c17TagElement == Tables.c17TagBindingOperation) = false := by decide
  unfold mapMessage at h
  cases pm? with
  | none => simp at h
  | some pm =>
    simp only [bind, Except.bind, pure, Except.pure] at h
    cases hm : rpcMessageClass d style pm with
    | error e => simp [hm] at h
    | ok msgCls =>
      simp only [hm] at h
      cases he : buildEnvelopeClass d bm pm (joinU name sfx) style ns op with
      | error e => simp [he] at h
      | ok env =>
        simp only [he] at h
        cases hf : withFault d po isOut env with
        | error e => simp [hf] at h
        | ok env' =>
          simp only [hf, Except.ok.injEq] at h
          subst h
          have htag : env'.tag = Tables.c17TagBindingMessage := by
            rw [(withFault_head _ _ _ _ _ hf).1.2.2.2]
            exact buildEnvelopeClass_tag _ _ _ _ _ _ _ _ he
          cases msgCls with
          | none => simp [flattenPair, isService, htag, hne1]
          | some m =>
            have hmt : m.tag = Tables.c17TagElement := by
              unfold rpcMessageClass at hm
              by_cases hs : (style == ws!"rpc") = true
              · simp only [hs, ↓reduceIte, Except.map] at hm
                cases hb : buildMessageClass d pm with
                | error e => simp [hb] at hm
                | ok mc =>
                  simp only [hb, Except.ok.injEq, Option.some.injEq] at hm
                  subst hm
                  unfold buildMessageClass at hb
                  simp only [bind, Except.bind, pure, Except.pure] at hb
                  cases h1 : findMessage d (splitColon pm.message).2 with
                  | error e => simp [h1] at hb
                  | ok dm =>
                    simp only [h1] at hb
                    cases h2 : buildQName (aget dm.nsMap (splitColon pm.message).1) (splitColon pm.message).2 with
                    | error e => simp [h2] at hb
                    | ok q =>
                      simp only [h2] at hb
                      cases h3 : partsAttrs dm.parts with
                      | error e => simp [h3] at hb
                      | ok as =>
                        simp only [h3, Except.ok.injEq] at hb
                        subst hb
                        rfl
              · have hs' : (style == ws!"rpc") = false := by simpa using hs
                simp [hs'] at hm
            simp [flattenPair, isService, htag, hmt, hne1, hne2]

theorem mapBindingOperation_one_service (d : Definitions) (bo : BOperation) (po : PtOperation) (cfg : Dict)
    (pt : Str) (cs : List Cls) (h : mapBindingOperation d bo po cfg pt = .ok cs) :
    (cs.filter isService).length = 1 := by
  obtain ⟨pairs, q, hm, _, rfl⟩ := mapBindingOperation_shape d bo po cfg pt cs h
  obtain ⟨li, lo, rfl, h1, h2⟩ := mapMessages_shape _ _ _ _ _ _ _ hm
  have hall : ∀ r ∈ li ++ lo, (flattenPair r).all (fun c => !isService c) = true := by
    intro r hr
    rcases List.mem_append.1 hr with hr | hr
    · cases hbi : bo.input with
      | none => rw [hbi] at h1; subst h1; cases hr
      | some bm =>
        rw [hbi] at h1
        obtain ⟨r', rfl, hr'⟩ := h1
        simp only [List.mem_singleton] at hr
        subst hr
        exact mapMessage_tags _ _ _ _ _ _ _ _ _ _ _ hr'
    · cases hbo : bo.output with
      | none => rw [hbo] at h2; subst h2; cases hr
      | some bm =>
        rw [hbo] at h2
        obtain ⟨r', rfl, hr'⟩ := h2
        simp only [List.mem_singleton] at hr
        subst hr
        exact mapMessage_tags _ _ _ _ _ _ _ _ _ _ _ hr'
  have hnone : ((li ++ lo).flatMap flattenPair).filter isService = [] := by
    rw [List.filter_eq_nil_iff]
    intro c hc
    obtain ⟨r, hr, hcr⟩ := List.mem_flatMap.1 hc
    have := List.all_eq_true.1 (hall r hr) c hcr
    simpa using this
  rw [List.filter_append, hnone]
  simp [serviceClass, isService, Cls.tag]

theorem mapOperations_services (d : Definitions) (pt : PortType) (config : Dict) (ops : List BOperation)
    (cs : List Cls) (h : mapOperations d pt config ops = .ok cs) : (cs.filter isService).length = ops.length := by
  induction ops generalizing cs with
  | nil => simp [mapOperations] at h; subst h; rfl
  | cons o os ih =>
    simp only [mapOperations, bind, Except.bind, pure, Except.pure] at h
    cases h1 : findOperation pt o.name with
    | error e => simp [h1] at h
    | ok po =>
      simp only [h1] at h
      cases h2 : mapBindingOperation d o po (aupdate config (attributes o.ext)) pt.name with
      | error e => simp [h2] at h
      | ok c1 =>
        simp only [h2] at h
        cases h3 : mapOperations d pt config os with
        | error e => simp [h3] at h
        | ok rest =>
          simp only [h3, Except.ok.injEq] at h
          subst h
          rw [List.filter_append, List.length_append, mapBindingOperation_one_service _ _ _ _ _ _ h2, ih rest h3]
          simp [Nat.add_comm]

/-- operations of the binding a port names (`0` if it names none) -/
def portOperations (d : Definitions) (p : Port) : Nat :=
  match d.bindings.find? (·.name == suffix p.binding) with
  | some b => (uniqueOperations b).length
  | none => 0

theorem mapPort_services (d : Definitions) (p : Port) (cs : List Cls) (h : mapPort d p = .ok cs) :
    (cs.filter isService).length = portOperations d p := by
  unfold mapPort findBinding at h
  unfold portOperations
  cases hb : d.bindings.find? (·.name == suffix p.binding) with
  | none => simp [hb, bind, Except.bind] at h
  | some b =>
    simp only [hb, bind, Except.bind] at h
    cases hp : findPortType d (suffix b.type) with
    | error e => simp [hp] at h
    | ok pt =>
      simp only [hp] at h
      exact mapOperations_services _ _ _ _ _ h

theorem mapPorts_services (d : Definitions) (ports : List Port) (cs : List Cls) (h : mapPorts d ports = .ok cs) :
    (cs.filter isService).length = (ports.map (portOperations d)).sum := by
  induction ports generalizing cs with
  | nil => simp [mapPorts] at h; subst h; rfl
  | cons p ps ih =>
    simp only [mapPorts, bind, Except.bind, pure, Except.pure] at h
    cases h1 : mapPort d p with
    | error e => simp [h1] at h
    | ok c1 =>
      simp only [h1] at h
      cases h2 : mapPorts d ps with
      | error e => simp [h2] at h
      | ok rest =>
        simp only [h2, Except.ok.injEq] at h
        subst h
        rw [List.filter_append, List.length_append, mapPort_services _ _ _ h1, ih rest h2]
        simp

end Xs.Wsdl
