/-
C15 — inside the supported region of `Fault/Supported.lean` the dict/JSON decoder model never
answers `Err.unsupported` (fuel included).
-/
import XsdataModel.Proofs.C15Supported
import XsdataModel.Proofs.C15Dict

namespace Proofs.C15
open Py Xs.Bind Xs.Fault

/-! ### depth and shape of sub-values -/

theorem depthList_mem : ∀ (xs : List J) (x : J), x ∈ xs → x.depth ≤ depthList xs
  | [], _, h => by cases h
  | y :: ys, x, h => by
    rw [depthList]
    rcases List.mem_cons.mp h with rfl | h
    · exact Nat.le_max_left _ _
    · exact Nat.le_trans (depthList_mem ys x h) (Nat.le_max_right _ _)

theorem depthPairs_mem : ∀ (kvs : List (Str × J)) (kv : Str × J), kv ∈ kvs → kv.2.depth ≤ depthPairs kvs
  | [], _, h => by cases h
  | y :: ys, x, h => by
    rw [depthPairs]
    rcases List.mem_cons.mp h with rfl | h
    · exact Nat.le_max_left _ _
    · exact Nat.le_trans (depthPairs_mem ys x h) (Nat.le_max_right _ _)

theorem listSupported_mem : ∀ (xs : List J) (x : J), listSupported xs = true → x ∈ xs → jsonSupported x = true
  | [], _, _, h => by cases h
  | y :: ys, x, hs, h => by
    rw [listSupported, Bool.and_eq_true] at hs
    rcases List.mem_cons.mp h with rfl | h
    · exact hs.1
    · exact listSupported_mem ys x hs.2 h

theorem pairsSupported_mem : ∀ (kvs : List (Str × J)) (kv : Str × J), pairsSupported kvs = true → kv ∈ kvs →
    jsonSupported kv.2 = true
  | [], _, _, h => by cases h
  | y :: ys, x, hs, h => by
    rw [pairsSupported, Bool.and_eq_true] at hs
    rcases List.mem_cons.mp h with rfl | h
    · exact hs.1
    · exact pairsSupported_mem ys x hs.2 h

theorem J.get_mem' (kvs : List (Str × J)) (k : Str) (v : J) (h : J.get kvs k = some v) : ∃ kv ∈ kvs, kv.2 = v := by
  unfold J.get at h
  cases hf : kvs.find? (·.1 = k) with
  | none => simp [hf] at h
  | some kv =>
    simp [hf] at h
    exact ⟨kv, List.mem_of_find?_eq_some hf, h⟩

/-- a member of a supported object is supported and one level less deep -/
theorem member_facts (kvs : List (Str × J)) (hs : jsonSupported (.obj kvs) = true) (v : J)
    (hv : ∃ kv ∈ kvs, kv.2 = v) : jsonSupported v = true ∧ v.depth + 1 ≤ (J.obj kvs).depth := by
  obtain ⟨kv, hkv, rfl⟩ := hv
  rw [jsonSupported, Bool.and_eq_true] at hs
  refine ⟨pairsSupported_mem kvs kv hs.2 hkv, ?_⟩
  rw [J.depth]
  have := depthPairs_mem kvs kv hkv
  omega

theorem getD_member_facts (kvs : List (Str × J)) (hs : jsonSupported (.obj kvs) = true) (k : Str) :
    jsonSupported ((J.get kvs k).getD .null) = true ∧ ((J.get kvs k).getD .null).depth + 1 ≤ (J.obj kvs).depth := by
  cases hg : J.get kvs k with
  | none => exact ⟨rfl, by simp [J.depth]⟩
  | some v => exact member_facts kvs hs v (J.get_mem' kvs k v hg)


/-! ### leaves -/

theorem SerOk.sup {α} {r : Except Err α} (h : SerOk r) : Sup r := by
  cases r with
  | ok a => rfl
  | error err =>
    have := h err rfl
    cases err <;> first | rfl | simp [serErr] at this

theorem dictVar_facts (v : XmlVar) (h : dictVarSupported v = true) :
    v.isElements = false ∧ v.elements.isEmpty = true ∧ v.anyType = false ∧ v.isWildcard = false ∧
    v.isClazzUnion = false ∧ varSupported v.toVarCore = true ∧
    (v.isAttributes = true → v.listElement = false ∧ v.tokens = false) := by
  simp only [dictVarSupported, Bool.and_eq_true, Bool.not_eq_true', Bool.or_eq_true] at h
  obtain ⟨⟨⟨⟨⟨⟨h1, h2⟩, h3⟩, h4⟩, h5⟩, h6⟩, h7⟩ := h
  refine ⟨h1, h2, h3, h4, h5, h6, ?_⟩
  intro ha
  rcases h7 with h7 | h7
  · rw [ha] at h7; cases h7
  · exact h7

theorem bindTextJ_sup (e : BEnv) (cfg : ParserConfig) (var : XmlVar) (hv : dictVarSupported var = true) (j : J) :
    Sup (bindTextJ e cfg var j) := by
  obtain ⟨h1, _, h3, h4, _, h6, _⟩ := dictVar_facts var hv
  unfold bindTextJ
  simp only [h1, h3, h4, Bool.false_eq_true, if_false, Bool.or_self]
  have hs := (serializeJ_serOk j).sup
  have hp := fun s => parseVar_sup e cfg var.toVarCore h6 s [] none
  repeat' (first
    | sup_leaf
    | exact hp _
    | apply Sup.bind
    | intro _
    | split
    | dsimp only)

theorem dictOf_sup (j : J) (h : j.isArr = false) : Sup (dictOf j) := by
  unfold dictOf
  split <;> first | rfl | (simp [J.isArr] at h)

theorem findTypeJ_sup (Γ : Ctx) (j : J) : Sup (findTypeJ Γ j) := by
  unfold findTypeJ
  split <;> rfl

/-- `find_var` gives an `xs:anyAttribute` field (neither list nor tokens) no array -/
theorem findVar_notArr (vars : List XmlVar) (key : Str) (value : J) (var : XmlVar)
    (h : findVar vars key value = some var) (hl : (var.listElement || var.tokens) = false) :
    (var.localName = key → value.isArr = false) ∧
    (∀ inner v, value = .obj inner → J.get inner var.localName = some v → var.localName ≠ key → v.isArr = false) := by
  unfold findVar at h
  obtain ⟨a, _, hf⟩ := List.exists_of_findSome?_eq_some h
  dsimp only at hf
  split at hf
  · rename_i hk
    split at hf
    · rename_i hc
      cases hf
      refine ⟨fun _ => ?_, fun _ _ _ _ hne => absurd hk hne⟩
      rw [hl] at hc
      cases value <;> simp_all [J.isArr, J.isNull]
    · cases hf
  · rename_i hk
    split at hf
    · split at hf
      · rename_i inner
        split at hf
        · rename_i v hv
          split at hf
          · rename_i hc
            cases hf
            refine ⟨fun h0 => absurd h0 hk, ?_⟩
            intro inner' v' hin hg _
            cases hin
            rw [hv] at hg
            cases hg
            rw [hl] at hc
            simpa using hc
          · cases hf
        · cases hf
      · cases hf
    · cases hf

theorem findVar_mem' (vars : List XmlVar) (key : Str) (value : J) (var : XmlVar)
    (h : findVar vars key value = some var) : var ∈ vars := by
  unfold findVar at h
  obtain ⟨a, ha, hf⟩ := List.exists_of_findSome?_eq_some h
  have : a = var := by
    dsimp only at hf
    repeat' split at hf
    all_goals first | (cases hf; rfl) | cases hf
  exact this ▸ ha

theorem find_metaFor_dict (Γ : Ctx) (hΓ : dictCtxSupported Γ = true) (c : ClassId) (m : XmlMeta)
    (h : (Γ.find c).bind (·.metaFor none) = some m) : dictMetaSupported m = true := by
  cases hf : Γ.find c with
  | none => simp [hf] at h
  | some ci =>
    simp [hf] at h
    obtain ⟨p, hp, hpm⟩ := metaFor_mem ci none m h
    have hci : ci ∈ Γ.classes := List.mem_of_find?_eq_some hf
    unfold dictCtxSupported at hΓ
    have := List.all_eq_true.mp (List.all_eq_true.mp hΓ ci hci) p hp
    rw [hpm] at this; exact this


/-! ### the recursion, by induction on the fuel -/

theorem bindComplexWith_sup (best : List (Str × J) → List ClassId → Except Err Val) (one : J → ClassId → Except Err Val)
    (Γ : Ctx) (var : XmlVar) (hv : dictVarSupported var = true) (kvs : List (Str × J))
    (hb : ∀ cs, Sup (best kvs cs)) (ho : ∀ c, Sup (one (.obj kvs) c)) :
    Sup (bindComplexWith best one Γ var kvs) := by
  obtain ⟨_, h2, h3, h4, h5, _, _⟩ := dictVar_facts var hv
  unfold bindComplexWith
  simp only [h5, h2, h3, h4, Bool.false_eq_true, if_false, Bool.not_true, Bool.or_self]
  split
  · rfl
  · split
    · exact hb _
    · exact ho _

theorem find_unsup_none {α} (results : List (α × Except Err Val)) (h : ∀ r ∈ results, Sup r.2) :
    results.find? (fun r => match r.2 with | .error (.unsupported _) => true | _ => false) = none := by
  rw [List.find?_eq_none]
  intro r hr
  have := h r hr
  cases hr2 : r.2 with
  | ok v => simp
  | error err =>
    rw [hr2] at this
    cases err with
    | unsupported w => cases this
    | _ => simp

theorem bind_sup (e : BEnv) (Γ : Ctx) (hΓ : dictCtxSupported Γ = true) : ∀ n : Nat,
    (∀ cfg data c, jsonSupported data = true → 3 * data.depth + 1 ≤ n → Sup (bindDataclass e Γ cfg n data c)) ∧
    (∀ cfg m var v r, dictVarSupported var = true → jsonSupported v = true → 3 * v.depth + 3 ≤ n →
      (var.isAttributes = true → v.isArr = false) → Sup (bindValue e Γ cfg n m var v r)) ∧
    (∀ cfg kvs cs, jsonSupported (.obj kvs) = true → 3 * (J.obj kvs).depth + 2 ≤ n → Sup (bindBest e Γ cfg n kvs cs))
  | 0 => ⟨fun _ _ _ _ h => by omega, fun _ _ _ _ _ _ _ h => by omega, fun _ _ _ _ h => by omega⟩
  | n + 1 => by
    obtain ⟨ihD, ihV, ihB⟩ := bind_sup e Γ hΓ n
    refine ⟨?_, ?_, ?_⟩
    · -- bind_dataclass
      intro cfg data c hs hd
      cases data with
      | obj kvs =>
        unfold bindDataclass
        dsimp only
        split
        · have hf := getD_member_facts kvs hs "value".toList
          exact ihD cfg _ c hf.1 (by omega)
        · split
          · rfl
          · rename_i m hm
            have hmeta := find_metaFor_dict Γ hΓ c m hm
            apply Sup.bind
            · apply Sup.foldlM_mem
              intro params kv hkv
              split
              · split <;> sup_leaf
              · rename_i var hfind
                have hvar : dictVarSupported var = true :=
                  List.all_eq_true.mp hmeta var (findVar_mem' _ _ _ _ hfind)
                have hkvf := member_facts kvs hs kv.2 ⟨kv, hkv, rfl⟩
                have hspec := findVar_spec _ _ _ _ hfind
                have hattr : var.isAttributes = true → (var.listElement || var.tokens) = false := by
                  intro ha
                  obtain ⟨hl, ht⟩ := (dictVar_facts var hvar).2.2.2.2.2.2 ha
                  simp [hl, ht]
                -- what follows once the value handed to bind_value is known
                have hcont : ∀ value : J, jsonSupported value = true → value.depth + 1 ≤ (J.obj kvs).depth →
                    (var.isAttributes = true → value.isArr = false) →
                    Sup (if (value.isNull && var.listElement) = true then (pure params : Except Err Params) else do
                      let v ← bindValue e Γ cfg n m var value false
                      if var.init = true then pure (params.set var.name v)
                        else do
                          validateFixed e.py var.toVarCore v
                          pure params) := by
                  intro value h1 h2 h3
                  split
                  · exact Sup.pure _
                  · apply Sup.bind (ihV cfg m var value false hvar h1 (by omega) h3)
                    intro v
                    split
                    · exact Sup.pure _
                    · exact Sup.bind (validateFixed_sup _ _ _) (fun _ => Sup.pure _)
                split
                · rename_i hc
                  simp only [Bool.and_eq_true, decide_eq_true_eq] at hc
                  split
                  · rename_i inner hin
                    split
                    · rename_i v hg
                      have hins : jsonSupported (.obj inner) = true := hin ▸ hkvf.1
                      have hm2 := member_facts inner hins v (J.get_mem' inner _ _ hg)
                      have hd2 : (J.obj inner).depth + 1 ≤ (J.obj kvs).depth := hin ▸ hkvf.2
                      simp only [pure_bind]
                      refine hcont v hm2.1 (by omega) ?_
                      intro ha
                      exact (findVar_notArr _ _ _ _ hfind (hattr ha)).2 inner v hin hg hc.2
                    · rfl
                  · rfl
                · simp only [pure_bind]
                  refine hcont kv.2 hkvf.1 hkvf.2 ?_
                  intro ha
                  have hna := findVar_notArr _ _ _ _ hfind (hattr ha)
                  rcases hspec with hk | ⟨inner, v, hv1, hv2⟩
                  · exact hna.1 hk
                  · rw [hv1]; rfl
            · intro params; exact classFactory_sup _ _ _
      | _ => unfold bindDataclass; rfl
    · -- bind_value
      intro cfg m var v r hvar hs hd hattr
      obtain ⟨_, h2, _, _, _, _, _⟩ := dictVar_facts var hvar
      unfold bindValue
      split
      · rename_i ha; exact dictOf_sup v (hattr ha)
      · rename_i hna
        generalize (!r && var.listElement) = b
        have hcx : ∀ kvs, jsonSupported (.obj kvs) = true → 3 * (J.obj kvs).depth + 2 ≤ n →
            Sup (bindComplexWith (bindBest e Γ cfg n) (bindDataclass e Γ cfg n) Γ var kvs) := fun kvs hk hdk =>
          bindComplexWith_sup _ _ Γ var hvar kvs (fun cs => ihB cfg kvs cs hk hdk) (fun c => ihD cfg _ c hk (by omega))
        cases v with
        | arr xs =>
          cases b
          · exact bindTextJ_sup e cfg var hvar _
          · apply Sup.bind
            · apply Sup.mapM_mem
              intro x hx
              have hxs : jsonSupported x = true := listSupported_mem xs x (by simpa [jsonSupported] using hs) hx
              have hxd := depthList_mem xs x hx
              rw [J.depth] at hd
              exact ihV cfg m var x true hvar hxs (by omega) (fun ha => absurd ha hna)
            · intro _; exact Sup.pure _
        | obj kvs =>
          have hng : isGeneric kvs anyRequired anyKeys = false := by
            rw [jsonSupported, Bool.and_eq_true] at hs
            simpa using hs.1
          cases b <;>
          · simp only [hng, Bool.false_eq_true, if_false]
            split
            · simp only [h2, Bool.not_true, Bool.false_eq_true, if_false]
              apply Sup.map
              have hpf := getD_member_facts kvs hs "value".toList
              split
              · rename_i pk hpk
                rw [hpk] at hpf
                split
                · apply Sup.bind (findTypeJ_sup Γ _)
                  intro oc
                  split
                  · rfl
                  · rw [hpk]; exact ihD cfg _ _ hpf.1 (by omega)
                · split
                  · exact hcx pk hpf.1 (by omega)
                  · exact ihB cfg pk _ hpf.1 (by omega)
              · exact bindTextJ_sup e cfg var hvar _
            · exact hcx kvs hs (by omega)
        | _ => cases b <;> exact bindTextJ_sup e cfg var hvar _
    · -- bind_best_dataclass
      intro cfg kvs cs hs hd
      unfold bindBest
      dsimp only
      have hall : ∀ cfg' (cl : List ClassId), ∀ r ∈ cl.map (fun c => (c, bindDataclass e Γ cfg' n (.obj kvs) c)), Sup r.2 := by
        intro cfg' cl r hr
        obtain ⟨c, _, rfl⟩ := List.mem_map.mp hr
        exact ihD cfg' _ c hs (by omega)
      split
      · rename_i val heq
        have hcontra := heq.symm.trans (find_unsup_none _ (hall _ _))
        cases hcontra
      · split
        · rfl
        · split
          · rfl
          · split
            · rename_i val heq
              have hcontra := heq.symm.trans (find_unsup_none _ (hall _ _))
              cases hcontra
            · split <;> rfl


theorem decode_sup (e : BEnv) (Γ : Ctx) (cfg : ParserConfig) (fuel : Nat) (c : ClassId) (listOf : Bool) (data : J)
    (h : dictSupported Γ fuel data = true) : Sup (decode e Γ cfg fuel c listOf data) := by
  simp only [dictSupported, Bool.and_eq_true, decide_eq_true_eq] at h
  obtain ⟨⟨hΓ, hs⟩, hd⟩ := h
  have hD := (bind_sup e Γ hΓ fuel).1
  unfold decode
  split
  · rfl
  · cases data with
    | arr xs =>
      dsimp only
      apply Sup.bind
      · apply Sup.mapM_mem
        intro x hx
        have hxs := listSupported_mem xs x (by simpa [jsonSupported] using hs) hx
        have hxd := depthList_mem xs x hx
        rw [J.depth] at hd
        exact hD cfg x c hxs (by omega)
      · intro _; exact Sup.pure _
    | _ => exact hD cfg _ c hs hd

theorem parseJson_sup (e : BEnv) (Γ : Ctx) (cfg : ParserConfig) (fuel : Nat) (c : ClassId) (listOf : Bool) (data : J)
    (h : dictSupported Γ fuel data = true) : Sup (parseJson e Γ cfg fuel c listOf (.value data)) :=
  decode_sup e Γ cfg fuel c listOf data h

end Proofs.C15
