/- helper lemmas for Props/C10Dict -/
import XsdataModel.DictDec.Keys
import XsdataModel.Proofs.C10

namespace Proofs.C10Dict
open Py Xs.Bind Xs.DictDec

theorem keySetEq_insert_false {k : Str} {derived : List Str} (v : JShape) (pre post : List (Str × JShape))
    (hd : derived.contains k = false) :
    keySetEq ((pre ++ (k, v) :: post).map (·.1)) derived = false := by
  have hk : k ∉ derived := by simpa using hd
  have : ((pre ++ (k, v) :: post).map (·.1)).all (derived.contains ·) = false := by
    rw [List.all_eq_false]; exact ⟨k, by simp, by simpa using hk⟩
  unfold keySetEq
  rw [this, Bool.false_and]

end Proofs.C10Dict
