"""Witness universes of the C04 findings, and the generator of
lean/XsdataModel/Proofs/C04Witness.lean: the Lean terms are printed from the metadata the
real XmlContext builds for these classes, so the witnesses of the counterexample theorems are
the real exported contexts.

    /venv/bin/python harness/c04_witness.py          # rewrite the Lean file
"""
from __future__ import annotations

import json
import os
import sys

EL = {"type": "Element"}


def _f(name, typ, md=None, **kw):
    return {"name": name, "type": typ, "metadata": md or dict(EL), **kw}


NONE = {"default": {"value": None}}
LIST = {"default": {"factory": "list"}}

# --- a base class with a loaded subclass whose extra field is optional
SUB_DESC = {"classes": [
    {"name": "Ch", "fields": [_f("v", "int")]},
    {"name": "Ch2", "bases": ["Ch"], "fields": [_f("w", {"opt": "int"}, **NONE)]},
    {"name": "P", "fields": [_f("c", {"cls": "Ch"})]},
]}
SUB_VALUE = {"obj": "P", "fields": [["c", {"obj": "Ch", "fields": [["v", {"int": 1}]]}]]}
SUB_OTHER = {"obj": "P", "fields": [["c", {"obj": "Ch2", "fields": [["v", {"int": 1}], ["w", None]]}]]}
SUB_GOOD = {"obj": "P", "fields": [["c", {"obj": "Ch2", "fields": [["v", {"int": 1}], ["w", {"int": 5}]]}]]}

# --- a wildcard holding an AnyElement with a None member, FILTER_NONE
ANY_DESC = {"classes": [
    {"name": "W", "fields": [_f("any", {"opt": "object"}, {"type": "Wildcard"}, **NONE)]},
]}
ANY_VALUE = {"obj": "W", "fields": [["any", {"any": {"qname": "w1", "text": None, "tail": None, "attrs": [], "children": []}}]]}

# --- a wrapped list inside a class that is decoded through bind_best_dataclass
WRAP_DESC = {"classes": [
    {"name": "B", "fields": [_f("items", {"list": "int"}, {"type": "Element", "name": "item", "wrapper": "items"}, **LIST)]},
    {"name": "BExt", "bases": ["B"], "fields": [_f("extra", "str")]},   # required: `{"items": …}` alone only binds to B
    {"name": "P", "fields": [_f("c", {"cls": "B"})]},
]}
WRAP_VALUE = {"obj": "P", "fields": [["c", {"obj": "B", "fields": [["items", {"list": [{"int": 1}]}]]}]]}
WRAP_GOOD = {"obj": "P", "fields": [["c", {"obj": "BExt", "fields": [["items", {"list": [{"int": 1}]}], ["extra", {"str": "x"}]]}]]}

# --- a compound field whose int choice precedes the str choice
COMP_DESC = {"classes": [
    {"name": "H", "fields": [_f("e", {"list": "object"}, {"type": "Elements", "choices": [{"name": "i", "type": "int"}, {"name": "s", "type": "str"}]}, **LIST)]},
]}
COMP_VALUE = {"obj": "H", "fields": [["e", {"list": [{"str": "1"}]}]]}
COMP_CHANGED = {"obj": "H", "fields": [["e", {"list": [{"int": 1}]}]]}

# --- a DerivedElement without xsi:type (what the XML parser produces for a known element under a wildcard)
DER_DESC = {"classes": [
    {"name": "X", "fields": [_f("a", {"opt": "int"}, **NONE)]},
    {"name": "WL", "fields": [_f("any", {"list": "object"}, {"type": "Wildcard"}, **LIST)]},
]}
DER_VALUE = {"obj": "WL", "fields": [["any", {"list": [{"derived": {"qname": "a", "value": {"obj": "X", "fields": [["a", {"int": 1}]]}, "type": None}}]}]]}

# --- a plain universe inside the fragment of the round-trip theorem (non-vacuity examples)
OK_DESC = {"classes": [
    {"name": "Item", "fields": [
        _f("id", "int", {"type": "Attribute", "required": True}),
        _f("tag", {"opt": "str"}, {"type": "Element"}, **NONE),
    ]},
    {"name": "Doc", "fields": [
        _f("title", "str", {"type": "Element", "required": True}),
        _f("flag", {"opt": "bool"}, {"type": "Attribute"}, **NONE),
        _f("first", {"opt": {"cls": "Item"}}, {"type": "Element"}, **NONE),
        _f("items", {"list": {"cls": "Item"}}, {"type": "Element", "name": "item", "wrapper": "items"}, **LIST),
        _f("nums", {"list": "int"}, {"type": "Element", "name": "num"}, **LIST),
    ]},
]}
OK_VALUE = {"obj": "Doc", "fields": [
    ["title", {"str": "a b"}], ["flag", None],
    ["first", {"obj": "Item", "fields": [["id", {"int": -7}], ["tag", None]]}],
    ["items", {"list": [{"obj": "Item", "fields": [["id", {"int": 1}], ["tag", {"str": "x"}]]}]}],
    ["nums", {"list": [{"int": 3}, {"int": 10}]}],
]}

# --- attributes map + mixed wildcard content with nested generic elements (inside the fragment since c04f)
GEN_DESC = {"classes": [
    {"name": "G", "fields": [
        _f("name", "str", {"type": "Attribute", "required": True}),
        _f("extra", {"dict": 1}, {"type": "Attributes"}, default={"factory": "dict"}),
        _f("nums", {"list": "int"}, {"type": "Element", "tokens": True}, **LIST),
        _f("words", {"list": "str"}, {"type": "Attribute", "tokens": True}, **LIST),
        _f("content", {"list": "object"}, {"type": "Wildcard", "mixed": True}, **LIST),
        _f("tail", {"opt": "object"}, {"type": "Wildcard"}, **NONE),
    ]},
]}
GEN_VALUE = {"obj": "G", "fields": [
    ["name", {"str": "n"}],
    ["extra", {"attrs": [["a", "1"], ["{urn:x}b", ""]]}],
    ["nums", {"list": [{"int": 3}, {"int": -12}]}],
    ["words", {"list": [{"str": "a"}, {"str": "é1"}]}],
    ["content", {"list": [
        {"any": {"qname": "{urn:o}w", "text": "t", "tail": None, "attrs": [["k", "v"]],
                 "children": [{"any": {"qname": "c", "text": None, "tail": None, "attrs": [], "children": []}}]}},
        {"str": "txt"}, {"int": 5}, None]}],
    ["tail", {"any": {"qname": None, "text": None, "tail": "x", "attrs": [], "children": []}}],
]}

# --- a fixed (init=False) field: its value is bound first and compared with the default afterwards
FIX_DESC = {"classes": [
    {"name": "F", "fields": [
        _f("s", {"opt": "str"}, {"type": "Element"}, **NONE),
        {"name": "a", "type": "int", "metadata": {"type": "Attribute"}, "default": {"value": 3}, "init": False},
        {"name": "b", "type": "bool", "metadata": {"type": "Attribute"}, "default": {"value": True}, "init": False},
    ]},
]}
FIX_VALUE = {"obj": "F", "fields": [["s", {"str": "x"}], ["a", {"int": 3}], ["b", {"bool": True}]]}

WITNESSES = {
    "fixw": (FIX_DESC, {"value": FIX_VALUE}),
    "genw": (GEN_DESC, {"value": GEN_VALUE}),
    "sub": (SUB_DESC, {"value": SUB_VALUE, "other": SUB_OTHER, "good": SUB_GOOD}),
    "anyw": (ANY_DESC, {"value": ANY_VALUE}),
    "wrap": (WRAP_DESC, {"value": WRAP_VALUE, "good": WRAP_GOOD}),
    "comp": (COMP_DESC, {"value": COMP_VALUE, "changed": COMP_CHANGED}),
    "der": (DER_DESC, {"value": DER_VALUE}),
    "okw": (OK_DESC, {"value": OK_VALUE}),
}


# ------------------------------------------------------------------ Lean printer
def lstr(s):
    if s is None:
        return "none"
    return "[" + ", ".join(lchar(c) for c in s) + "]" if s else "[]"


def lchar(c):
    if c == "'":
        return "'\\''"
    if c == "\\":
        return "'\\\\'"
    if c == "\n":
        return "'\\n'"
    if c == "\t":
        return "'\\t'"
    return f"'{c}'"


def lopt(f, x):
    return "none" if x is None else f"(some {f(x)})"


def llist(f, xs):
    return "[" + ", ".join(f(x) for x in xs) + "]"


def lbool(b):
    return "true" if b else "false"


def lpval(p):
    if "str" in p:
        return f"(.str {lstr(p['str'])})"
    if "int" in p:
        i = p["int"]
        return f"(.int ({i}))"
    if "bool" in p:
        return f"(.bool {lbool(p['bool'])})"
    return f"(.qname {lstr(p['qname'])})"


def ltype(t):
    if t == "obj":
        return ".obj"
    if "prim" in t:
        return f"(.prim .{t['prim']})"
    if "cls" in t:
        return f"(.cls {lstr(t['cls'])})"
    return f"(.other {lstr(t['other'])})"


def ldefault(d):
    if d is None:
        return ".none"
    if d == "list":
        return ".listFactory"
    if d == "dict":
        return ".dictFactory"
    if d == "other":
        return ".other"
    return f"(.val {lpval(d['val'])})"


def lcore(v):
    return (
        "{ index := %d, name := %s, localName := %s, qname := %s, wrapperQName := %s, types := %s, clazz := %s, "
        "init := %s, mixed := %s, tokens := %s, format := %s, anyType := %s, processContents := %s, required := %s, "
        "nillable := %s, sequence := %s, listElement := %s, default := %s, namespaces := %s, kind := VarKind.%s, isClazzUnion := %s }"
        % (
            v["index"], lstr(v["name"]), lstr(v["local_name"]), lstr(v["qname"]), lopt(lstr, v["wrapper_qname"]),
            llist(ltype, v["types"]), lopt(lstr, v["clazz"]), lbool(v["init"]), lbool(v["mixed"]), lbool(v["tokens"]),
            lopt(lstr, v["format"]), lbool(v["any_type"]), lstr(v["process_contents"]), lbool(v["required"]),
            lbool(v["nillable"]), lopt(str, v["sequence"]), lbool(v["list_element"]), ldefault(v["default"]),
            llist(lstr, v["namespaces"]), v["kind"], lbool(v["is_clazz_union"]),
        )
    )


def lvar(v):
    els = llist(lambda qv: f"({lstr(qv[0])}, ({lcore(qv[1])} : VarCore))", v["elements"])
    wcs = llist(lambda w: f"({lcore(w)} : VarCore)", v["wildcards"])
    return f"({{ toVarCore := {lcore(v)}, elements := {els}, wildcards := {wcs} }} : XmlVar)"


def lmeta(m):
    return (
        "{ clazz := %s, qname := %s, targetQName := %s, nillable := %s, text := %s, choices := %s, elements := %s, "
        "wildcards := %s, attributes := %s, anyAttributes := %s, wrappers := %s }"
        % (
            lstr(m["clazz"]), lstr(m["qname"]), lopt(lstr, m["target_qname"]), lbool(m["nillable"]), lopt(lvar, m["text"]),
            llist(lvar, m["choices"]), llist(lambda qv: f"({lstr(qv[0])}, {llist(lvar, qv[1])})", m["elements"]),
            llist(lvar, m["wildcards"]), llist(lambda qv: f"({lstr(qv[0])}, {lvar(qv[1])})", m["attributes"]),
            llist(lvar, m["any_attributes"]), llist(lambda kv: f"({lstr(kv[0])}, {lstr(kv[1])})", m["wrappers"]),
        )
    )


def lval(v):
    if v is None:
        return "Val.none"
    if "list" in v:
        return f"(Val.list {llist(lval, v['list'])})"
    if "obj" in v:
        return f"(Val.obj {lstr(v['obj'])} {llist(lambda kv: f'({lstr(kv[0])}, {lval(kv[1])})', v['fields'])})"
    if "any" in v:
        a = v["any"]
        return (f"(Val.any {lopt(lstr, a['qname'])} {lopt(lstr, a['text'])} {lopt(lstr, a['tail'])} "
                f"{llist(lambda kv: f'({lstr(kv[0])}, {lstr(kv[1])})', a['attrs'])} {llist(lval, a['children'])})")
    if "derived" in v:
        d = v["derived"]
        return f"(Val.derived {lstr(d['qname'])} {lval(d['value'])} {lopt(lstr, d['type'])})"
    if "attrs" in v:
        return f"(Val.attrs {llist(lambda kv: f'({lstr(kv[0])}, {lstr(kv[1])})', v['attrs'])})"
    return f"(Val.prim {lpval(v)})"


def lfield(f):
    d = "none" if "default" not in f else f"(some {lval(f['default'])})"
    return f"{{ name := {lstr(f['name'])}, init := {lbool(f['init'])}, default := {d} }}"


def lclass(c):
    metas = llist(lambda pm: f"({lopt(lstr, pm[0])}, ({lmeta(pm[1])} : XmlMeta))", c["metas"][:1])
    return (f"({{ id := {lstr(c['id'])}, metas := {metas}, mro := {llist(lstr, c['mro'])}, bases := {llist(lstr, c['bases'])}, "
            f"fields := {llist(lfield, c['fields'])} }} : ClassInfo)")


def lctx(ctx):
    xsi = llist(lambda qc: f"({lstr(qc[0])}, {llist(lstr, qc[1])})", ctx["xsi_index"])
    return f"{{ classes := [\n  {(',' + chr(10) + '  ').join(lclass(c) for c in ctx['classes'])}], xsiIndex := {xsi}, datatypes := [] }}"


def main():
    here = os.path.dirname(os.path.abspath(__file__))
    sys.path.insert(0, here)
    sys.path.insert(0, os.path.join(here, "shims"))
    sys.path.insert(0, os.environ.get("XSDATA_REPO", "/repo"))
    import bindlib as B
    import c04_dict as D

    out = [
        "/- GENERATED by harness/c04_witness.py from the metadata the real XmlContext builds for the witness",
        "   classes (do not edit).  Concrete contexts and values of the C04 counterexample / non-vacuity theorems. -/",
        "import XsdataModel.Dict.Decode",
        "import XsdataModel.Dict.Encode",
        "",
        "namespace Proofs.C04Witness",
        "open Py Xs.Bind Xs.Dict",
        "",
        "/-- an environment for the concrete evaluations (ASCII only; the witnesses hold no QName) -/",
        "def benv0 : DEnv := { toBEnv := ⟨Env.ascii, fun _ => true, fun _ => true⟩ }",
        "",
    ]
    for name, (desc, vals) in WITNESSES.items():
        u = B.Universe(desc)
        ctx = D.export_ctx(u)
        out.append(f"def {name}Ctx : Ctx :=\n  {lctx(ctx)}\n")
        for vn, v in vals.items():
            out.append(f"def {name}_{vn} : Val :=\n  {lval(v)}\n")
        u.close()
    out.append("end Proofs.C04Witness\n")
    # the same witnesses as corpus cases of the correspondence ops
    cdir = os.path.join(os.path.dirname(here), "corpus", "C04")
    os.makedirs(cdir, exist_ok=True)
    # a fixed field given as lexical variants of its value (bound before it is compared), and as wrong values
    uf = B.Universe(FIX_DESC)
    ctxf = D.export_ctx(uf)
    for i, doc in enumerate([{"s": "x", "a": " 3 ", "b": "1"}, {"a": "3", "b": True}, {"a": 3, "b": " true "}, {"a": 4}, {"b": "0"}, {"a": "x"}]):
        for strict in (False, True):
            args = {"ctx": ctxf, "data": D.to_j(doc), "target": {"cls": "F"}, "config": {"fail_on_converter_warnings": strict},
                    "route": "dict", "desc": FIX_DESC, "_kind": "fixed"}
            with open(os.path.join(cdir, f"w_fixw_dec_{i}_{int(strict)}.json"), "w") as f:
                json.dump({"op": "dict.dec", "args": args}, f, ensure_ascii=False)
    uf.close()
    for name, (desc, vals) in WITNESSES.items():
        u = B.Universe(desc)
        ctx = D.export_ctx(u)
        for fac in ("dict", "filter_none"):
            args = {"ctx": ctx, "value": vals["value"], "target": {"cls": vals["value"]["obj"]}, "factory": fac, "config": {},
                    "ignore_default_attributes": False, "route": "dict", "desc": desc}
            for op in ("dict.roundtrip", "dict.enc"):
                with open(os.path.join(cdir, f"w_{name}_{fac}_{op.split('.')[1]}.json"), "w") as f:
                    json.dump({"op": op, "args": args}, f, ensure_ascii=False)
        u.close()
    path = os.path.join(os.path.dirname(here), "lean", "XsdataModel", "Proofs", "C04Witness.lean")
    with open(path, "w") as f:
        f.write("\n".join(out))
    print("wrote", path)


if __name__ == "__main__":
    main()
