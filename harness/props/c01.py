"""C01 — XML round-trip: parsing what was serialized gives back the same object."""
import json
import random

import bindgen as G
import bindlib as B
from framework import Corr, Oracle

PROP_ID = "C01"
DESIGN_REF = "6/C01"

_UNIS: dict[str, B.Universe] = {}


def uni_of(a) -> B.Universe:
    key = a.get("_uni")
    if key in _UNIS:
        return _UNIS[key]
    u = B.Universe(a["desc"])
    _UNIS[u.modname] = u
    a["_uni"] = u.modname
    return u


def new_universe(rng, features=None):
    for _ in range(60):
        desc = G.gen_universe_desc(rng, features)
        if not G.single_parent_namespace(desc):
            continue
        try:
            u = B.Universe(desc)
            ctx = u.export_ctx()
        except Exception:  # noqa: BLE001  (a description the real builder rejects: not our subject here)
            continue
        _UNIS[u.modname] = u
        return u, desc, ctx
    raise RuntimeError("could not build a universe")


CONFIGS = [
    {},
    {"fail_on_unknown_properties": False},
    {"fail_on_unknown_attributes": True},
    {"fail_on_converter_warnings": True},
    {"fail_on_unknown_properties": False, "fail_on_unknown_attributes": True, "fail_on_converter_warnings": True},
]


def n_cases(tier, quick, thorough):
    return quick if tier == "quick" else thorough


# ------------------------------------------------------------------ bind.generate
def gen_generate(rng, tier):
    for _ in range(n_cases(tier, 60, 1500)):
        u, desc, ctx = new_universe(rng)
        for _ in range(6):
            try:
                obj = G.gen_instance(rng, u, "Root")
            except Exception:  # noqa: BLE001
                continue
            yield {"ctx": ctx, "value": u.to_val(obj), "ignore_default_attributes": rng.random() < 0.3, "desc": desc, "_uni": u.modname}


def impl_generate(a):
    u = uni_of(a)
    return B.real_generate(u, a["value"], a.get("ignore_default_attributes", False))


def unsupported(o):
    return isinstance(o, dict) and "unsupported" in o


def cmp_skip_unsupported(mo, io, a):
    if unsupported(mo):
        return True
    return mo == io


# ------------------------------------------------------------------ bind.parse
def documents(rng, tier, n_uni, per_uni, mutate=True):
    """(universe, ctx, desc, tree) from real serialisation read back by lxml, plus faults"""
    for _ in range(n_uni):
        u, desc, ctx = new_universe(rng)
        for _ in range(per_uni):
            try:
                obj = G.gen_instance(rng, u, "Root")
                xml = G.real_serialize(u, obj, writer=rng.choice(["native", "lxml"]))
                tree = G.xml_tree(xml.encode())
            except Exception:  # noqa: BLE001
                continue
            yield u, ctx, desc, tree, "valid"
            if mutate:
                for _ in range(3):
                    kind, t2 = G.mutate_tree(rng, tree)
                    yield u, ctx, desc, t2, kind


def gen_parse(rng, tier):
    for u, ctx, desc, tree, kind in documents(rng, tier, n_cases(tier, 50, 1200), 4):
        yield {"ctx": ctx, "tree": tree, "clazz": "Root", "config": rng.choice(CONFIGS), "desc": desc, "_uni": u.modname, "_kind": kind}


def impl_parse(a):
    return B.real_parse_tree(uni_of(a), a["clazz"], a["tree"], a["config"])


def cmp_parse(mo, io, a):
    if unsupported(mo):
        return True
    if "ok" in mo and "ok" in io:
        u = uni_of(a)
        return u.fill_defaults(mo["ok"]["value"]) == io["ok"]["value"] and mo["ok"]["warnings"] == io["ok"]["warnings"]
    return mo == io


def classify_parse(a, o):
    k = a.get("_kind", "?")
    r = "ok" if "ok" in o else o.get("err", "unsupported")
    return f"{k}:{r}"


# ------------------------------------------------------------------ end to end
def gen_roundtrip(rng, tier):
    for _ in range(n_cases(tier, 50, 1200)):
        u, desc, ctx = new_universe(rng)
        for _ in range(4):
            try:
                obj = G.gen_instance(rng, u, "Root")
            except Exception:  # noqa: BLE001
                continue
            yield {
                "ctx": ctx, "value": u.to_val(obj), "clazz": "Root", "config": {}, "desc": desc, "_uni": u.modname,
                "ignore_default_attributes": rng.random() < 0.3,
                "writer": rng.choice(["native", "lxml"]), "handler": rng.choice(["native", "lxml"]),
                "indent": None, "xml_declaration": rng.random() < 0.5,
            }


def impl_roundtrip(a):
    u = uni_of(a)
    obj = u.from_val(a["value"])
    try:
        xml = G.real_serialize(
            u, obj, writer=a["writer"], ignore_default_attributes=a["ignore_default_attributes"], indent=a["indent"],
            xml_declaration=a["xml_declaration"],
        )
    except Exception as e:  # noqa: BLE001
        return B.classify_exc(e)
    return G.real_parse_bytes(u, a["clazz"], xml.encode(), handler=a["handler"], config=a["config"])


def classify_rt(a, o):
    if "ok" in o:
        return "identity" if o["ok"]["value"] == a["value"] else "changed"
    return o.get("err", "?")


CORRS = [
    Corr("bind.generate", gen_generate, impl_generate, compare=cmp_skip_unsupported,
         describe="EventGenerator.generate vs model on generated class universes and instances"),
    Corr("bind.parse", gen_parse, impl_parse, compare=cmp_parse, classify=classify_parse,
         describe="NodeParser(EventsHandler) vs model on real documents and single-point faults"),
    Corr("bind.roundtrip", gen_roundtrip, impl_roundtrip, compare=cmp_parse, classify=classify_rt,
         describe="real serialize({native,lxml}) + parse({native,lxml}) vs model generate+write+parse"),
]


# ------------------------------------------------------------------ oracle
def oracle_roundtrip(a):
    u = uni_of(a)
    obj = u.from_val(a["value"])
    for writer in ("native", "lxml"):
        try:
            xml = G.real_serialize(u, obj, writer=writer, ignore_default_attributes=a.get("ignore_default_attributes", False))
        except Exception as e:  # noqa: BLE001
            return f"serialize ({writer}) raised {type(e).__name__}: {e}"
        for handler in ("native", "lxml"):
            r = G.real_parse_bytes(u, a["clazz"], xml.encode(), handler=handler)
            if "ok" not in r:
                return f"{writer}/{handler}: parse of own output failed with {r['err']}"
            if r["ok"]["value"] != a["value"]:
                return f"{writer}/{handler}: round trip changed the object"
    return None


ORACLES = []
FINDINGS = {}
TRUSTED = [
    "metadata (XmlMeta/XmlVar) is exported from the real XmlContext.build and is an input of the model (builders.py is not modelled here)",
    "primitive converters restricted to str/int/bool/QName in this layer",
    "expat/lxml tokenisers and writers only through the end-to-end op bind.roundtrip",
]
ASSUMPTIONS = []
LEVEL_TEXT = "pending"
LEVEL_NOTE = "pending"
NOT_CLAIMED = "binding-layer model and correspondence are in place; the property theorems are not finished yet"
