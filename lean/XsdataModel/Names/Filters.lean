/-
C07 — xsdata/formats/dataclass/filters.py: Filters.safe_name and the
class/field/constant/module/package name filters (without user substitutions),
xsdata/utils/namespaces.py clean_uri.
-/
import XsdataModel.Names.Text

namespace Xs.Filters
open Py Xs.Text

/-- `re.match(r"^-\d*\.?\d+$", name)` on a str pattern: `\d` is Unicode Nd;
`$` also matches just before a trailing newline. -/
def isNegNumber (e : Env) (name : Str) : Bool :=
  match name with
  | '-' :: rest =>
    let isDec := fun c => (e.decVal c).isSome
    let body := if rest.getLast? = some '\n' then rest.dropLast else rest
    let r := body.dropWhile isDec
    match r with
    | [] => !body.isEmpty
    | c :: t => c = '.' && !t.isEmpty && t.all isDec
  | _ => false

/-- a naming convention: `NameConvention(case, safe_prefix)` -/
structure Conv where
  case : NameCase
  pfx : Str
  deriving DecidableEq, Repr

/-- the branch of `safe_name` taken for `name`: either a rewritten name to
recurse on, or the final result (`none` inside = IndexError of the case function) -/
inductive Step
  | recurse (name : Str)
  | done (r : Str)
  | indexError
  deriving DecidableEq, Repr

def safeNameStep (e : Env) (u : UEnv) (cv : Conv) (name : Str) : Step :=
  if name.isEmpty then .recurse cv.pfx
  else if isNegNumber e name then .recurse (cv.pfx ++ "_minus_".toList ++ name)
  else
    let slug := alnum name
    match slug with
    | [] => .recurse (cv.pfx ++ ['_'] ++ name)
    | c :: _ =>
      if !isAsciiAlpha c then .recurse (cv.pfx ++ ['_'] ++ name)
      else match applyCase u cv.case name with
        | none => .indexError
        | some r => if isReserved r then .recurse (name ++ ['_'] ++ cv.pfx) else .done r

inductive Res
  | ok (r : Str)
  | recursionError
  | indexError
  deriving DecidableEq, Repr

/-- `Filters.safe_name(name, prefix, case)`. The real function is recursive
without a bound; `fuel` stands for the interpreter's recursion limit. -/
def safeNameFuel (e : Env) (u : UEnv) (cv : Conv) : Nat → Str → Res
  | 0, _ => .recursionError
  | fuel + 1, name =>
    match safeNameStep e u cv name with
    | .recurse n => safeNameFuel e u cv fuel n
    | .done r => .ok r
    | .indexError => .indexError

/-- more than enough for every terminating run (`Props.C07.safe_name_fuel`),
far below CPython's limit of 1000 frames -/
def defaultFuel : Nat := 64

def safeName (e : Env) (u : UEnv) (cv : Conv) (name : Str) : Res :=
  safeNameFuel e u cv defaultFuel name

/-- `Filters.validate_safe_prefixes`, one prefix: the first ASCII alphanumeric is a letter -/
def validPrefix (p : Str) : Bool :=
  match alnum p with
  | c :: _ => isAsciiAlpha c
  | [] => false

/-- `Filters.__init__` as far as names go: `false` = CodegenError("Invalid safe prefix…") -/
def filtersInit (prefixes : List Str) : Bool := prefixes.all validPrefix

/-- `namespaces.clean_uri` -/
def cleanUri (ns : Str) : Str :=
  let ns := if ns.take 2 = ['#', '#'] then ns.drop 2 else ns
  let (left, right) := splitOnce ns ':'
  let ns :=
    if left = some "urn".toList then right
    else if left = some "http".toList || left = some "https".toList then right.drop 2
    else ns
  join ['_'] ((splitOn '.' ns).filter (fun x => !Tables.uriIgnore.contains x))

/-- default conventions of `GeneratorConventions` as extracted into `Tables` -/
def convOf (case pfx : Str) : Conv :=
  ⟨(NameCase.ofStr case).getD .original, pfx⟩

def classConv : Conv := convOf Tables.classCase Tables.classSafePrefix
def fieldConv : Conv := convOf Tables.fieldCase Tables.fieldSafePrefix
/-- `constant_name` uses the *field* safe prefix (as the code does) -/
def constantConv : Conv := convOf Tables.constantCase Tables.fieldSafePrefix
def moduleConv : Conv := convOf Tables.moduleCase Tables.moduleSafePrefix
def packageConv : Conv := convOf Tables.packageCase Tables.packageSafePrefix

def className (e : Env) (u : UEnv) (cv : Conv) (name : Str) : Res := safeName e u cv name
def fieldName (e : Env) (u : UEnv) (cv : Conv) (name : Str) : Res := safeName e u cv name
def constantName (e : Env) (u : UEnv) (cv : Conv) (name : Str) : Res := safeName e u cv name
def moduleName (e : Env) (u : UEnv) (cv : Conv) (name : Str) : Res :=
  safeName e u cv (cleanUri name)

/-- `Filters.package_name`: every dot separated part goes through `safe_name` -/
def packageName (e : Env) (u : UEnv) (cv : Conv) (name : Str) : Res :=
  if name.isEmpty then .ok name
  else
    let parts := (splitOn '.' name).map (safeName e u cv)
    let rec go : List Res → List Str → Res
      | [], acc => .ok (join ['.'] acc.reverse)
      | .ok r :: rest, acc => go rest (r :: acc)
      | err :: _, _ => err
    go parts []

end Xs.Filters
