import Driver.Proto
import Driver.OpsBind
import XsdataModel.Backends.Handler
import XsdataModel.Backends.Writer
import XsdataModel.Backends.Serializers
import XsdataModel.Backends.Sources
import XsdataModel.Backends.LxmlText
import XsdataModel.Backends.UnionAttrs
open Lean Proto Py Xs.Bind Xs.Backends OpsBind

namespace OpsBackends

def dStore (j : Json) : Except String Store :=
  match j with
  | .str "passed" => .ok .passed
  | .str "top" => .ok .top
  | .str "empty" => .ok .empty
  | _ => .error "bad store"

partial def dXTree (j : Json) : Except String XTree := do
  let kids ← asArr (field j "c")
  let kids ← kids.mapM dXTree
  let st ← match field j "s" with
    | .null => pure Store.passed
    | x => dStore x
  pure (.node (← dList (dPair dStr dStr) (field j "d")) (← dStr (field j "q"))
    (← dList (dPair dStr dStr) (field j "a")) st (← dOptStr (field j "t")) kids (← dOptStr (field j "tl")))

def jNs (m : NsMap) : Json := jList (fun (p, u) => Json.arr #[jOpt jStr p, jStr u]) m

def jPEv : PEv → Json
  | .registerNs p u => Json.arr #[Json.str "start-ns", jOpt jStr p, jStr u]
  | .start q a m => Json.arr #[Json.str "start", jStr q, jPairs a, jNs m]
  | .end q t tl => Json.arr #[Json.str "end", jStr q, jOpt jStr t, jOpt jStr tl]
  | .crash => Json.arr #[Json.str "crash"]

mutual
partial def allPrefixes : XTree → List (Option Str)
  | .node d _ _ _ _ kids _ => d.map (fun pu => orNone pu.1) ++ (kids.map allPrefixes).flatten
end

def jSEv (cands : List (Option Str)) : SEv → Json
  | .registerNs p u => Json.arr #[Json.str "start-ns", jOpt jStr p, jStr u]
  | .start q a f => Json.arr #[Json.str "start", jStr q, jPairs a,
      jList (fun p => Json.arr #[jOpt jStr p, jOpt jStr (f p)]) cands]
  | .end q t tl => Json.arr #[Json.str "end", jStr q, jOpt jStr t, jOpt jStr tl]
  | .crash => Json.arr #[Json.str "crash"]

def dIndent (a : Json) : Except String (Option Str) := dOptStr (field a "indent")

def serCfg (a : Json) : SerCfg :=
  { ignoreDefaultAttributes := (field a "ignore_default_attributes").getBool?.toOption.getD false }

partial def dCNode (j : Json) : Except String CNode :=
  match j.getObjVal? "t", j.getObjVal? "m", j.getObjVal? "e" with
  | .ok t, _, _ => (dStr t).map CNode.chars
  | _, .ok (.str "c"), _ => .ok (.misc true)
  | _, .ok _, _ => .ok (.misc false)
  | _, _, .ok e => do
    let ks ← asArr e
    let ks ← ks.mapM dCNode
    pure (.elem ks)
  | _, _, _ => .error "bad content item"

def run (op : String) (a : Json) : Option (Except String Json) :=
  match op with
  | "c08.union_record" => some do
      -- UnionNode.child / bind(level > 0) fed by the lxml handler's loop (live attrib views, clear at the end)
      let toks ← dList (fun j => match j with
        | .arr #[.str "start", i, q, _] => do pure (UTok.start (← dNat i) (← dStr q))
        | .arr #[.str "end", i, q] => do pure (UTok.end (← dNat i) (← dStr q))
        | _ => .error "bad union token") (field a "toks")
      let store ← dList (fun j => match j with
        | .arr #[.str "start", i, _, ats] => do pure (some ((← dNat i), (← dList (dPair dStr dStr) ats)))
        | _ => pure none) (field a "toks")
      let s0 : AStore := store.filterMap id
      pure (ok (jList (fun (r : URec) => match r with
        | .start q ats => Json.arr #[Json.str "start", jStr q, jPairs ats]
        | .end q => Json.arr #[Json.str "end", jStr q]) (unionRecord s0 toks)))
  | "c08.lxml_text" => some do
      -- get_text / get_tail on every element of the tree libxml2 builds for the document
      let items ← dList dCNode (field a "items")
      let doc := [CNode.elem items]
      let doc := if (field a "remove_comments").getBool?.toOption.getD false then dropComments doc else doc
      pure (ok (jList (fun (tt : Option Str × Option Str) => Json.arr #[jOpt jStr tt.1, jOpt jStr tt.2]) (readsList doc)))
  | "c08.native_tree" => some do
      let Γ ← dCtx (field a "ctx")
      let v ← dVal (field a "value")
      let ind ← dIndent a
      pure <| match (generate benv Γ (serCfg a) v).bind (nativeTree (isDatatype Γ) ind) with
        | .ok t => ok (jTree t)
        | .error e => jErr e
  | "c08.lxml_tree" => some do
      let Γ ← dCtx (field a "ctx")
      let v ← dVal (field a "value")
      let ind ← dIndent a
      pure <| match (generate benv Γ (serCfg a) v).bind (lxmlTree benv.py (isDatatype Γ) ind) with
        | .ok t => ok (jTree t)
        | .error e => jErr e
  | "c08.tree_serializer" => some do
      -- `TreeSerializer(config).render(obj)` through the model of tree.py / LxmlTreeBuilder.build
      let Γ ← dCtx (field a "ctx")
      let v ← dVal (field a "value")
      let ind ← dIndent a
      pure <| match treeSerializerRender benv Γ (isDatatype Γ) (serCfg a) { indent := ind } [] v with
        | .ok t => ok (jTree t)
        | .error e => jErr e
  | "c08.lxml_writer" => some do
      -- `XmlSerializer(config, writer=LxmlEventWriter).render(obj)`: declaration + printed tree
      let Γ ← dCtx (field a "ctx")
      let v ← dVal (field a "value")
      let ind ← dIndent a
      let decl := (field a "xml_declaration").getBool?.toOption.getD true
      pure <| match xmlSerializerRenderLxml benv Γ (isDatatype Γ) (serCfg a) { indent := ind, xmlDeclaration := decl } [] v with
        | .ok (d, t) => ok (jObj [("declaration", jStr d), ("tree", jTree t)])
        | .error e => jErr e
  | "c08.native_parse" => some do
      -- the whole native route for one kind of source: `from_*` chain, `XmlEventHandler.parse` dispatch,
      -- `process_context`; the world: the document's bytes, one file, the tokeniser's events for them
      let d ← dXTree (field a "doc")
      let wk ← dList (dPair dStr dStr) (field a "well_known")
      let xs ← dList dNat (field a "bytes")
      let bytes : Bytes := xs.map (·.toUInt8)
      let path ← dStr (field a "path")
      let W : World := {
        encode := fun _ => bytes
        fs := fun p => if p = path then some bytes else none
        tokenise := fun b => if b = bytes then toks d else [] }
      let src ← match field a "kind" with
        | .str "str" => pure (Src.str [])
        | .str "bytes" => pure (Src.bytes bytes)
        | .str "file" => pure (Src.file bytes)
        | .str "path" => pure (Src.path path)
        | .str "missing_path" => pure (Src.path ("/nonexistent/".toList ++ path))
        | .str "et_tree" => pure (Src.etTree d)
        | .str "et_element" => pure (Src.etElement d)
        | _ => .error "bad source kind"
      pure <| ok <| match nativeParse W wk src with
        | none => Json.null
        | some evs => jObj [("events", jList jPEv evs), ("ns_map", jNs (recorded evs))]
  | "c08.hsource" => some do
      -- PushParser.from_string / from_bytes / from_path / parse: what `handler.parse` receives
      let dBytes (j : Json) : Except String Bytes := do
        let xs ← dList dNat j
        pure (xs.map (·.toUInt8))
      let enc ← dBytes (field a "encoded")
      let W : World := { encode := fun _ => enc, fs := fun _ => none, tokenise := fun _ => [] }
      let dummy : XTree := .node [] [] [] .passed none [] none
      let src ← match field a "kind" with
        | .str "str" => pure (Src.str [])
        | .str "bytes" => (dBytes (field a "bytes")).map Src.bytes
        | .str "path" => (dStr (field a "path")).map Src.path
        | .str "file" => (dBytes (field a "bytes")).map Src.file
        | .str "et_tree" => pure (Src.etTree dummy)
        | .str "et_element" => pure (Src.etElement dummy)
        | _ => .error "bad source kind"
      let jB (b : Bytes) : Json := jList (fun (x : UInt8) => jNat x.toNat) b
      pure <| ok <| match toHSource W src with
        | .stream c => jObj [("stream", jB c)]
        | .name p => jObj [("name", jStr p)]
        | .tree _ => jObj [("tree", Json.null)]
        | .element _ => jObj [("element", Json.null)]
  | "c08.indent" => some do
      let t ← dTree (field a "tree")
      let sp ← dStr (field a "space")
      pure (ok (jTree (lxmlIndent benv.py sp t)))
  | "c08.pump" => some do
      let t ← dXTree (field a "doc")
      let evs := pump [] [] (toks t)
      pure (ok (jObj [("events", jList jPEv evs), ("ns_map", jNs (recorded evs))]))
  | "c08.iterwalk" => some do
      let t ← dXTree (field a "doc")
      let wk ← dList (dPair dStr dStr) (field a "well_known")
      let evs := nativeParseTree wk t
      pure (ok (jObj [("events", jList jPEv evs), ("ns_map", jNs (recorded evs))]))
  | "c08.inscope" => some do
      let t ← dXTree (field a "doc")
      let cands := (none :: allPrefixes t).eraseDups
      pure (ok (jList (jSEv cands) (spec [] t)))
  | "c08.decl" => some do
      pure (ok (jStr (xmlDeclaration (← dBool (field a "on")) (← dStr (field a "version")) (← dStr (field a "encoding")))))
  | _ => none

end OpsBackends
