/- C02 — compound fields (`CreateCompoundFields` with `compound_fields` enabled): property theorems
(only). Model `Gen/Compound`, helper lemmas `Proofs/Compound`.

The attrs of one choice id become one list-valued compound field. The order clause of the property
("every repeating group is a choice of single elements, with compound fields enabled") rests on
this field holding the occurrences of all its members in document order, and on its taking part in
the interleaving of an enclosing repeating sequence. -/
import XsdataModel.Gen.Compound
import XsdataModel.Gen.Subst
import XsdataModel.Proofs.Compound

namespace Props.C02Compound
open Py Xs.Gen

/-- `(d, c)*` with `m` substitutable for `d`, as the FLATTEN handlers leave it (`Props.C02.exSP_occurs`) -/
def exSites : List Site := [
  { name := ['d'], index := 0, min := 0, max := maxsize,
    path := [⟨.s, 1, 0, maxsize⟩, ⟨.c, 1000, 1, 1⟩], choice := some 1000, sequence := some 1 },
  { name := ['m'], index := 0, min := 0, max := maxsize,
    path := [⟨.s, 1, 0, maxsize⟩, ⟨.c, 1000, 1, 1⟩], choice := some 1000, sequence := some 1 },
  { name := ['c'], index := 1, min := 0, max := maxsize, path := [⟨.s, 1, 0, maxsize⟩],
    choice := none, sequence := some 1 }]

/-- the head and its substitute form one compound field that stays in sequence `1` with `c`
(before the repair `fix: CreateCompoundFields keeps the sequence number …` it had no sequence and
`m c d c` was written as `m d c c`) -/
theorem exSites_compound : compoundFields exSites = [
    .compound { names := [['d'], ['m']], min := 0, max := maxsize, sequence := some 1 },
    .plain { name := ['c'], index := 1, min := 0, max := maxsize, path := [⟨.s, 1, 0, maxsize⟩],
             choice := none, sequence := some 1 }] := by
  decide

/-- **The compound field keeps the sequence its members share**: it takes part in the
interleaving of the repeating sequence the members belong to. -/
theorem compound_keeps_sequence (choice : Int) (s : Site) (rest : List Site)
    (h : ∀ t ∈ rest, t.sequence = s.sequence) :
    (groupFields choice (s :: rest)).sequence = s.sequence :=
  groupFields_sequence_core choice s rest h

/-- the hypotheses are satisfiable: `d` and `m` above -/
example : (groupFields 1000 (exSites.take 2)).sequence = some 1 :=
  compound_keeps_sequence 1000 _ _ (by decide)

/-- **The compound field of a real choice can hold the occurrences of each member**: its
`max_occurs` is at least the `max_occurs` of every attr it replaces (so it is a list whenever one
of them was, and none of the bounds the occurrence theorems establish for the members is cut). -/
theorem compound_holds_each_member (choice : Int) (hc : choice > 0) (grp : List Site) (s : Site)
    (hs : s ∈ grp) : s.max ≤ (groupFields choice grp).max :=
  groupFields_covers_core choice hc grp s hs

example : maxsize ≤ (groupFields 1000 (exSites.take 2)).max :=
  compound_holds_each_member 1000 (by decide) _ (exSites.take 2)[0] (by decide)

/-- a sequence inside a choice: `choice(1,1)[a, sequence(1,1)[b, c{0,3}]]` — the compound may hold
`b c c c`: the sums below a sequence step, the maximum over the alternatives -/
theorem nested_counters : (groupFields 1 [
    { name := ['a'], index := 0, min := 0, max := 1, path := [⟨.c, 1, 1, 1⟩], choice := some 1 },
    { name := ['b'], index := 1, min := 0, max := 1, path := [⟨.c, 1, 1, 1⟩, ⟨.s, 2, 1, 1⟩],
      choice := some 1, sequence := some 2 },
    { name := ['c'], index := 2, min := 0, max := 3, path := [⟨.c, 1, 1, 1⟩, ⟨.s, 2, 1, 1⟩],
      choice := some 1, sequence := some 2 }]).max = 4 := by
  decide

end Props.C02Compound
