/- Parser options as state of a parser instance (C14 / C19, rarely used corners).

A parser instance (`XmlParser`, `JsonParser`, `DictDecoder`) holds ONE `ParserConfig` object for its
whole life.  Nodes that rank candidates (`UnionNode.bind`, `DictDecoder.bind_best_dataclass`) need
every candidate to convert all its values cleanly; the code does this on a COPY
(`replace(self.config, fail_on_converter_warnings=True)`) and never writes the instance's object.
The model keeps exactly that: a call reads the instance's options, ranks candidates under a local
strict copy, and returns the options object it leaves behind.  Deliberately small: documents are
reduced to what the options can change (is a primitive convertible, which union candidates convert
cleanly); the real parsers are compared at document level by the spec-level ops
`c14.parser_history` / `c19.parser_threads`. -/
namespace Xs.ParserCfg

/-- the `ParserConfig` flags candidate ranking is concerned with -/
structure Cfg where
  strict : Bool       -- fail_on_converter_warnings
  unknownFail : Bool  -- fail_on_unknown_properties
  deriving DecidableEq, Repr

inductive Doc where
  /-- a primitive value, convertible or not -/
  | prim (convertible : Bool)
  /-- a union-typed node: per candidate, whether it converts every value cleanly -/
  | union (cands : List Bool)
  deriving DecidableEq, Repr

inductive Out where
  | ok | warned | error
  deriving DecidableEq, Repr

/-- `ParserUtils.parse_var`: an unconvertible value warns, or raises in strict mode -/
def parsePrim (c : Cfg) (convertible : Bool) : Out :=
  if convertible then .ok else if c.strict then .error else .warned

/-- `UnionNode.bind` / `bind_best_dataclass`: candidates run under a local strict copy -/
def parseUnion (c : Cfg) (cands : List Bool) : Out :=
  if cands.any (fun b => parsePrim { c with strict := true } b == .ok) then .ok else .error

/-- one call through an instance whose options object is `c`: outcome, options object afterwards -/
def parse (c : Cfg) : Doc → Out × Cfg
  | .prim b => (parsePrim c b, c)
  | .union cs => (parseUnion c cs, c)

/-- a history of calls through one instance -/
def run (c : Cfg) : List Doc → List Out × Cfg
  | [] => ([], c)
  | d :: ds => ((parse c d).1 :: (run (parse c d).2 ds).1, (run (parse c d).2 ds).2)

/-- every call on a fresh instance with equal options -/
def fresh (c : Cfg) (ds : List Doc) : List Out := ds.map (fun d => (parse c d).1)

/-- the variant that flips the instance's own object and restores it only on success -/
def parseStuck (c : Cfg) : Doc → Out × Cfg
  | .prim b => (parsePrim c b, c)
  | .union cs => (parseUnion c cs, if parseUnion c cs = .ok then c else { c with strict := true })

/-! Threads: the atomic steps of calls as forced schedules see them.  No step writes the shared
options object; a candidate step reads it and works on its local copy. -/
inductive Step where
  | prim (b : Bool)
  | cand (b : Bool)
  deriving DecidableEq, Repr

def stepOut (shared : Cfg) : Step → Out
  | .prim b => parsePrim shared b
  | .cand b => parsePrim { shared with strict := true } b

structure Thread where
  todo : List Step
  done : List Out
  deriving Repr

def tick (shared : Cfg) (t : Thread) : Thread :=
  match t.todo with
  | [] => t
  | s :: r => ⟨r, t.done ++ [stepOut shared s]⟩

/-- what the thread observes when it runs with nobody else -/
def alone (shared : Cfg) (t : Thread) : List Out := t.done ++ t.todo.map (stepOut shared)

/-- two threads on one instance; `false` lets the first, `true` the second perform one step -/
def sched2 (c : Cfg) : Thread × Thread → List Bool → Thread × Thread
  | p, [] => p
  | (a, b), false :: r => sched2 c (tick c a, b) r
  | (a, b), true :: r => sched2 c (a, tick c b) r

end Xs.ParserCfg
