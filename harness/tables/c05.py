"""More sections for Tables.lean. Each function gets the line writer `w`."""
import extract_tables as T
from extract_tables import chars, extra, lean_bool, nats, strs  # noqa: F401


# --------------------------------------------------------------------------
# C05 — xsdata/formats/converter.py, xsdata/utils/namespaces.py,
#       xsdata/models/enums.py
# --------------------------------------------------------------------------
def _consts(fn, kind):
    return [c for c in fn.__code__.co_consts if isinstance(c, kind) and not isinstance(c, bool) and c != fn.__doc__]


def _ranges(pred, lo, hi):
    out = []
    start = None
    for cp in range(lo, hi):
        if pred(cp):
            if start is None:
                start = cp
        elif start is not None:
            out.append((start, cp - 1))
            start = None
    if start is not None:
        out.append((start, hi - 1))
    return out


def _pairs(xs):
    return "[" + ", ".join(f"({a}, {b})" for a, b in xs) + "]"


def _ratio(x):
    """an exact decimal (neg, coeff, exp10) of the *shortest repr* of a float constant"""
    from decimal import Decimal

    t = Decimal(repr(x)).as_tuple()
    coeff = int("".join(map(str, t.digits)))
    return f"({lean_bool(t.sign == 1)}, {coeff}, {'(' + str(t.exponent) + ')'})"


@extra
def c05_tables(w):
    import sys

    from xsdata.formats import converter as C
    from xsdata.models import enums as E
    from xsdata.utils import namespaces as N

    w("-- C05: xsdata/formats/converter.py")
    # BoolConverter: tuples of accepted literals, in code order
    tups = [c for c in C.BoolConverter.deserialize.__code__.co_consts if isinstance(c, tuple)]
    assert len(tups) == 2 and all(isinstance(x, str) for t in tups for x in t), tups
    w(f"def boolTrueLits : List (List Char) := {strs(tups[0])}")
    w(f"def boolFalseLits : List (List Char) := {strs(tups[1])}")
    ser = _consts(C.BoolConverter.serialize, str)
    assert len(ser) == 2, ser
    w(f"def boolTrueStr : List Char := {chars(ser[0])}")
    w(f"def boolFalseStr : List Char := {chars(ser[1])}")
    # FloatConverter.serialize: 'NaN', 'INF', '-INF', 'E+', 'E'
    fc = [c for c in _consts(C.FloatConverter.serialize, str) if len(c) < 12]
    assert len(fc) == 5, fc
    for name, v in zip(["floatNaN", "floatInf", "floatNegInf", "floatReplaceFrom", "floatReplaceTo"], fc):
        w(f"def {name} : List Char := {chars(v)}")
    w(f"def floatUsesUpper : Bool := {lean_bool('upper' in C.FloatConverter.serialize.__code__.co_names)}")
    # DecimalConverter.serialize: 'Infinity', 'INF', 'f'
    dc = [c for c in _consts(C.DecimalConverter.serialize, str) if len(c) < 12]
    assert len(dc) == 3, dc
    w(f"def decInfFrom : List Char := {chars(dc[0])}")
    w(f"def decInfTo : List Char := {chars(dc[1])}")
    w(f"def decFormatSpec : List Char := {chars(dc[2])}")
    # BytesConverter formats
    bd = [c for c in _consts(C.BytesConverter.deserialize, str) if c.startswith("base")]
    bs = [c for c in _consts(C.BytesConverter.serialize, str) if c.startswith("base")]
    assert bd == bs and len(bd) == 2, (bd, bs)
    w(f"def fmtBase16 : List Char := {chars(bd[0])}")
    w(f"def fmtBase64 : List Char := {chars(bd[1])}")
    # priority table, explicit types, registry
    w(
        "def pythonTypesSorted : List (List Char × Nat) := ["
        + ", ".join(f"({chars(k.__name__)}, {v})" for k, v in C.__PYTHON_TYPES_SORTED__.items())
        + "]"
    )
    w(f"def explicitTypes : List (List Char) := {strs([t.__name__ for t in C.__EXPLICIT_TYPES__])}")
    w(f"def registryTypes : List (List Char) := {strs([t.__name__ for t in C.converter.registry])}")
    w("")
    w("-- C05: xsdata/utils/namespaces.py")
    w(f"def ncnamePunctuation : List Nat := {nats(sorted(ord(c) for c in N.NCNAME_PUNCTUATION))}")
    # URI_REGEX: the set of single characters it lets through before / after '#'.
    rx = N.URI_REGEX
    body = [cp for cp in range(0, 0x3000) if rx.search("a" + chr(cp) + "a#a")]
    frag = [cp for cp in range(0, 0x3000) if rx.search("#a" + chr(cp) + "a")]
    w(f"def uriBodyChars : List Nat := {nats(body)}")
    w(f"def uriFragmentChars : List Nat := {nats(frag)}")
    w(f"def uriRegexPattern : List Char := {chars(rx.pattern)}")
    w(
        "def standardNamespaces : List (List Char × List Char) := ["
        + ", ".join(f"({chars(ns.uri)}, {chars(ns.prefix)})" for ns in E.Namespace)
        + "]"
    )
    w("")
    w("-- C05: xsdata/models/enums.py")
    ints = _consts(E.int_datatype, int)
    assert len(ints) == 6, ints
    w("def intDatatypeBounds : List Int := [" + ", ".join(f"({i})" for i in ints) + "]")
    fl = _consts(E.float_datatype, float)
    assert len(fl) == 2, fl
    w(f"def floatDatatypeLo : Bool × Nat × Int := {_ratio(fl[0])}")
    w(f"def floatDatatypeHi : Bool × Nat × Int := {_ratio(fl[1])}")
    w(
        "def dataTypeIndex : List (List Char × List Char) := ["
        + ", ".join(f"({chars(k.__name__)}, {chars(v.code)})" for k, v in E.__DataTypeIndex__.items())
        + "]"
    )
    w(f"def dataTypeInferIndex : List (List Char) := {strs([k.__name__ for k in E.__DataTypeInferIndex__])}")
    names = [n for n in E.int_datatype.__code__.co_names if n != "DataType"]
    w(f"def intDatatypeCodes : List (List Char) := {strs([getattr(E.DataType, n).code for n in names])}")
    names = [n for n in E.period_datatype.__code__.co_names if n.startswith("G_")]
    assert len(names) == 5, names
    w(f"def periodDatatypeCodes : List (List Char) := {strs([getattr(E.DataType, n).code for n in names])}")
    names = [n for n in E.float_datatype.__code__.co_names if n != "DataType"]
    w(f"def floatDatatypeCodes : List (List Char) := {strs([getattr(E.DataType, n).code for n in names])}")
    w(f"def defaultDatatypeCode : List Char := {chars(E.DataType.from_type(type(None)).code)}")
    w("")
    w("-- running interpreter: str.isalpha() for non-ASCII characters, as ranges")
    w(f"def alphaRangesNA : List (Nat × Nat) := {_pairs(_ranges(lambda cp: chr(cp).isalpha(), 128, sys.maxunicode + 1))}")
    w(f"def intMaxStrDigits : Nat := {sys.get_int_max_str_digits()}")
    import decimal

    w("-- running interpreter: limits of the decimal module's maximal context (used by Decimal(str))")
    w(f"def decMaxEmax : Int := {decimal.MAX_EMAX}")
    w(f"def decMinEtiny : Int := ({decimal.MIN_ETINY})")
    # hypothesis `EnvOk` of the QName theorems, checked on the running interpreter:
    # no character is_ncname lets through is white space for str.strip()
    punct = set(N.NCNAME_PUNCTUATION) | {"_"}
    bad = [cp for cp in range(sys.maxunicode + 1) if chr(cp).isspace() and (chr(cp).isalpha() or chr(cp).isdigit() or chr(cp) in punct)]
    assert not bad, f"EnvOk violated by code points {bad[:5]}"
    w(f"def envOkChecked : Bool := {lean_bool(not bad)}")
    w("")
