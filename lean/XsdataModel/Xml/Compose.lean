/-
L5 — `XmlSerializer.render`: the event generator of the binding layer
(`Bind/Gen.lean`, EventGenerator) composed with the writer of this area
(`Xml/Writer.lean`, EventHandler + XMLGenerator):

    render(obj, ns_map) = write(clean_prefixes(ns_map), generate(obj))

The two layers were modelled with their own event types; `convEv` is the
(identity) translation between them.
-/
import XsdataModel.Bind.Gen
import XsdataModel.Xml.Writer

namespace Xs.Compose
open Py

def convPrim : Xs.Bind.PVal → Xs.Ns.Atom
  | .str s => .str s
  | .int i => .int i
  | .bool b => .bool b
  | .qname t => .qname t

/-- an item of a token list; `none`: a payload the writer model does not cover
(`None` inside a list makes `" ".join` raise `TypeError`; nested lists) -/
def convItem : Xs.Bind.Data → Option Xs.Ns.Atom
  | .prim p => some (convPrim p)
  | _ => none

def convItems : List Xs.Bind.Data → Option (List Xs.Ns.Atom)
  | [] => some []
  | d :: r =>
    match convItem d, convItems r with
    | some a, some as => some (a :: as)
    | _, _ => none

/-- payload of an ATTR / DATA event -/
def convData : Xs.Bind.Data → Option Xs.Ns.Val
  | .none => some .none
  | .prim p => some (.atom (convPrim p))
  | .list ds => (convItems ds).map .list

def convEv : Xs.Bind.Ev → Option Xs.Writer.Ev
  | .start q => some (.start q)
  | .end q => some (.end_ q)
  | .attr q d => (convData d).map (.attr q)
  | .data d => (convData d).map .data

def convEvs : List Xs.Bind.Ev → Option (List Xs.Writer.Ev)
  | [] => some []
  | e :: r =>
    match convEv e, convEvs r with
    | some e', some r' => some (e' :: r')
    | _, _ => none

/-- outcome of `XmlSerializer(writer=XmlEventWriter).render(obj, ns_map)` -/
inductive Outcome
  | text (s : Str)
  | genError (e : Xs.Bind.Err)       -- raised by the event generator
  | writeError (e : Xs.Ns.Err)       -- raised by the writer
  | uncovered                        -- a payload outside the writer model
  deriving Repr

/-- `XmlSerializer.render` with the native writer -/
def render (env : Xs.Ns.NsEnv) (be : Xs.Bind.BEnv) (Γ : Xs.Bind.Ctx) (scfg : Xs.Bind.SerCfg)
    (wcfg : Xs.Writer.Cfg) (userMap : List (Xs.Ns.Pfx × Str)) (v : Xs.Bind.Val) : Outcome :=
  -- the writer is constructed (and validates the prefix map) before the lazy generator runs
  if !Xs.Writer.prefixesValid env (Xs.Ns.serializerNsMap userMap) then .writeError .xmlWriterError else
  match Xs.Bind.generate be Γ scfg v with
  | .error e => .genError e
  | .ok evs =>
    match convEvs evs with
    | none => .uncovered
    | some es =>
      match Xs.Writer.nativeText env wcfg userMap es with
      | .error e => .writeError e
      | .ok s => .text s

end Xs.Compose
