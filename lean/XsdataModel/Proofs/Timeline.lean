/- Helper lemmas for C06: `days_from_civil` against the calendar. -/
import XsdataModel.Lex.Period
namespace Proofs.Timeline
open Py Xs.Dates

theorem pyDiv_pos (a b : Int) (hb : 0 < b) : pyDiv a b = a / b := by
  unfold pyDiv
  exact Int.fdiv_eq_ediv_of_nonneg a (Int.le_of_lt hb)

theorem pyMod_pos (a b : Int) (hb : 0 < b) : pyMod a b = a % b := by
  unfold pyMod
  exact Int.fmod_eq_emod_of_nonneg a (Int.le_of_lt hb)

/-- the next calendar day -/
def nextDay (y m d : Int) : Int × Int × Int :=
  match monthlen y m.toNat with
  | some md => if d < md then (y, m, d + 1) else if m < 12 then (y, m + 1, 1) else (y + 1, 1, 1)
  | none => (y, m, d)

/-- calendar (lexicographic) order on dates -/
def dateLt (y m d y' m' d' : Int) : Prop := y < y' ∨ (y = y' ∧ (m < m' ∨ (m = m' ∧ d < d')))

theorem dfc_unfold (y m d : Int) : daysFromCivil y m d =
    if m ≤ 2 then 365 * (y-1) + (y-1) / 4 - (y-1) / 100 + (y-1) / 400 + (153 * (m + 12 - 3) + 2) / 5 + d - 1
    else 365 * y + y / 4 - y / 100 + y / 400 + (153 * (m - 3) + 2) / 5 + d - 1 := by
  unfold daysFromCivil
  split <;> simp [pyDiv_pos, *]

theorem monthlen_cases (y : Int) (m : Int) (h1 : 1 ≤ m) (h2 : m ≤ 12) :
    monthlen y m.toNat = some (if m = 2 then (if isLeap y then 29 else 28)
      else if m = 4 ∨ m = 6 ∨ m = 9 ∨ m = 11 then 30 else 31) := by
  have : m = 1 ∨ m = 2 ∨ m = 3 ∨ m = 4 ∨ m = 5 ∨ m = 6 ∨ m = 7 ∨ m = 8 ∨ m = 9 ∨ m = 10 ∨ m = 11 ∨ m = 12 := by omega
  rcases this with h|h|h|h|h|h|h|h|h|h|h|h <;> subst h <;> simp [monthlen, Tables.mdays] <;> split <;> rfl

theorem isLeap_iff (y : Int) : isLeap y = true ↔ (y % 4 = 0 ∧ (y % 100 ≠ 0 ∨ y % 400 = 0)) := by
  simp [isLeap]

theorem dfc_succ (y m d : Int) (h1 : 1 ≤ m) (h2 : m ≤ 12)
    (md : Nat) (hm : monthlen y m.toNat = some md) (hd2 : d ≤ md) :
    daysFromCivil (nextDay y m d).1 (nextDay y m d).2.1 (nextDay y m d).2.2 = daysFromCivil y m d + 1 := by
  have hc := monthlen_cases y m h1 h2
  rw [hm] at hc
  simp only [nextDay, hm]
  have hl := isLeap_iff y
  injection hc with hc
  have hmm : m = 1 ∨ m = 2 ∨ m = 3 ∨ m = 4 ∨ m = 5 ∨ m = 6 ∨ m = 7 ∨ m = 8 ∨ m = 9 ∨ m = 10 ∨ m = 11 ∨ m = 12 := by omega
  by_cases hd : d < (md : Int)
  · simp only [hd, if_true, dfc_unfold]
    split <;> omega
  · have hde : d = md := by omega
    simp only [hd, if_false, dfc_unfold]
    by_cases hL : isLeap y = true
    · have := hl.mp hL
      rcases hmm with h|h|h|h|h|h|h|h|h|h|h|h <;> subst h <;> simp [hL] at hc <;> simp <;> omega
    · have hL' : ¬ (y % 4 = 0 ∧ (y % 100 ≠ 0 ∨ y % 400 = 0)) := fun h => hL (hl.mpr h)
      rcases hmm with h|h|h|h|h|h|h|h|h|h|h|h <;> subst h <;> simp [hL] at hc <;> simp <;> omega

theorem dfc_lt_of_dateLt (y m d y' m' d' : Int)
    (h1 : 1 ≤ m) (h2 : m ≤ 12) (md : Nat) (hm : monthlen y m.toNat = some md) (hd2 : d ≤ md)
    (h1' : 1 ≤ m') (h2' : m' ≤ 12) (hd1' : 1 ≤ d')
    (hlt : dateLt y m d y' m' d') : daysFromCivil y m d < daysFromCivil y' m' d' := by
  have hc := monthlen_cases y m h1 h2
  rw [hm] at hc
  injection hc with hc
  have hl := isLeap_iff y
  simp only [dfc_unfold]
  have hmm : m = 1 ∨ m = 2 ∨ m = 3 ∨ m = 4 ∨ m = 5 ∨ m = 6 ∨ m = 7 ∨ m = 8 ∨ m = 9 ∨ m = 10 ∨ m = 11 ∨ m = 12 := by omega
  rcases hlt with hy | ⟨hy, hm2 | ⟨hm2, hd⟩⟩
  · by_cases hL : isLeap y = true
    · have := hl.mp hL
      rcases hmm with h|h|h|h|h|h|h|h|h|h|h|h <;> subst h <;> simp [hL] at hc <;> simp <;> split <;> omega
    · have hL' : ¬ (y % 4 = 0 ∧ (y % 100 ≠ 0 ∨ y % 400 = 0)) := fun h => hL (hl.mpr h)
      rcases hmm with h|h|h|h|h|h|h|h|h|h|h|h <;> subst h <;> simp [hL] at hc <;> simp <;> split <;> omega
  · subst hy
    by_cases hL : isLeap y = true
    · have := hl.mp hL
      rcases hmm with h|h|h|h|h|h|h|h|h|h|h|h <;> subst h <;> simp [hL] at hc <;> simp <;> split <;> omega
    · have hL' : ¬ (y % 4 = 0 ∧ (y % 100 ≠ 0 ∨ y % 400 = 0)) := fun h => hL (hl.mpr h)
      rcases hmm with h|h|h|h|h|h|h|h|h|h|h|h <;> subst h <;> simp [hL] at hc <;> simp <;> split <;> omega
  · subst hy; subst hm2
    split <;> omega

end Proofs.Timeline
