/- C09 — property theorems (only). -/
import XsdataModel.Bind.Parse

namespace Props.C09
open Py Xs.Bind

end Props.C09
