/- C09 helper lemmas: what `QNameConverter.resolve` returns for a prefixed / unprefixed lexical QName. -/
import XsdataModel.Proofs.C09Ns
import XsdataModel.Proofs.C09Strip

namespace Proofs.C09
open Py Xs.Bind

theorem takeWhile_append_stop {α} (p : α → Bool) (l r : List α) (x : α) (hl : l.all p = true) (hx : p x = false) :
    (l ++ x :: r).takeWhile p = l ∧ (l ++ x :: r).dropWhile p = x :: r := by
  induction l with
  | nil => simp [List.takeWhile, List.dropWhile, hx]
  | cons y ys ih =>
    simp only [List.all_cons, Bool.and_eq_true] at hl
    simp [List.takeWhile, List.dropWhile, hl.1, ih hl.2]

theorem textSplit_colon (p l : Str) (hp : p.contains ':' = false) (hl : l ≠ []) :
    textSplit (p ++ ':' :: l) ':' = (some p, l) := by
  have hall : p.all (· ≠ ':') = true := by
    simp only [List.all_eq_true, decide_eq_true_eq]
    intro c hc heq
    subst heq
    simp [List.contains_iff_mem, hc] at hp
  have := takeWhile_append_stop (fun c => decide (c ≠ ':')) p l ':' hall (by simp)
  unfold textSplit
  simp only [this.1, this.2]
  cases l with
  | nil => exact absurd rfl hl
  | cons c cs => simp

theorem textSplit_nocolon (l : Str) (hl : l.contains ':' = false) : textSplit l ':' = (none, l) := by
  have hall : ∀ c ∈ l, (decide (c ≠ ':')) = true := by
    intro c hc
    simp only [decide_eq_true_eq]
    intro heq; subst heq
    simp [List.contains_iff_mem, hc] at hl
  unfold textSplit
  have h1 : l.takeWhile (fun c => decide (c ≠ ':')) = l := by
    exact takeWhile_of_forall _ l hall
  have h2 : l.dropWhile (fun c => decide (c ≠ ':')) = [] := by
    exact dropWhile_all _ l (by simpa [List.all_eq_true] using hall)
  simp only [h1, h2]

/-- lexical side conditions of a prefixed name `p:l` -/
def lexPrefixed (e : BEnv) (p l : Str) : Bool :=
  !p.isEmpty && !p.contains ':' && p.head? ≠ some '{' && !l.isEmpty && (e.py.strip (p ++ ':' :: l) = p ++ ':' :: l)

/-- lexical side conditions of an unprefixed name `l` -/
def lexLocal (e : BEnv) (l : Str) : Bool :=
  !l.isEmpty && !l.contains ':' && l.head? ≠ some '{' && (e.py.strip l = l)

theorem resolveQName_prefixed (e : BEnv) (p l u : Str) (n : NsMap) (h : lexPrefixed e p l = true)
    (hn : n.get (some p) = some u) (hu : u ≠ []) :
    resolveQName e (p ++ ':' :: l) n = if l.contains ' ' || !e.isNCName l then none else some (some u, l) := by
  simp only [lexPrefixed, Bool.and_eq_true, Bool.not_eq_true', decide_eq_true_eq] at h
  obtain ⟨⟨⟨⟨hp0, hpc⟩, hph⟩, hl0⟩, hstrip⟩ := h
  have hl : l ≠ [] := by intro hh; subst hh; simp at hl0
  unfold resolveQName
  simp only [hstrip]
  cases p with
  | nil => simp at hp0
  | cons c cs =>
    have hc : c ≠ '{' := by intro hh; subst hh; simp at hph
    have hts := textSplit_colon (c :: cs) l hpc hl
    simp only [List.cons_append] at hts ⊢
    split
    · rename_i heq; cases heq
    · rename_i rest heq
      cases heq; exact absurd rfl hc
    · simp only [hts, hn]
      cases u with
      | nil => exact absurd rfl hu
      | cons uc us => simp

theorem resolveQName_local (e : BEnv) (l u : Str) (n : NsMap) (h : lexLocal e l = true)
    (hn : n.get none = some u) (hu : u ≠ []) :
    resolveQName e l n = if l.contains ' ' || !e.isNCName l then none else some (some u, l) := by
  simp only [lexLocal, Bool.and_eq_true, Bool.not_eq_true', decide_eq_true_eq] at h
  obtain ⟨⟨⟨hl0, hlc⟩, hlh⟩, hstrip⟩ := h
  unfold resolveQName
  simp only [hstrip]
  have hts := textSplit_nocolon l hlc
  cases l with
  | nil => simp at hl0
  | cons c cs =>
    have hc : c ≠ '{' := by intro hh; subst hh; simp at hlh
    split
    · rename_i heq; cases heq
    · rename_i rest heq
      cases heq; exact absurd rfl hc
    · simp only [hts, hn]
      cases u with
      | nil => exact absurd rfl hu
      | cons uc us => simp

/-- `ParserUtils.xsi_type` for a non-empty attribute value -/
theorem xsiTypeOf_value (e : BEnv) (attrs : List (QN × Str)) (n : NsMap) (v : Str)
    (ha : (attrs.find? (·.1 = xsiType)).map (·.2) = some v) (hv : v ≠ []) :
    xsiTypeOf e attrs n =
      (match resolveQName e v n with
       | none => .error .converter
       | some (uri, name) =>
         match buildQName uri (some name) with
         | some q => .ok (some q)
         | none => .error (.leaked "ValueError")) := by
  unfold xsiTypeOf
  rw [ha]
  cases v with
  | nil => exact absurd rfl hv
  | cons c cs => rfl

end Proofs.C09
