/-
C01 (fragments F2…): `next_attribute` against `bind_attrs`: scalar and token-list attributes,
fixed attributes (`init=False`), an `Attributes` map, and the `xsi:nil` attribute of nillable
elements.
-/
import XsdataModel.Proofs.C01NTokens

namespace Proofs.C01
open Py Xs.Bind Xs.Bind.F1 Xs.Bind.FN

/-- the attribute a declared attribute var contributes: payload of the event and the string the
writer stores -/
def attrOfN (cfg : SerCfg) (fields : List (Str × Val)) (var : XmlVar) : Option (Data × Str) :=
  match look fields var.name with
  | .prim p =>
    if cfg.ignoreDefaultAttributes && !var.required && defaultEq var.default (.prim p) then none
    else some (.prim (.str (serPrim p)), serPrim p)
  | .list (y :: ys) => some (tokData (y :: ys), joinTok (y :: ys))
  | _ => none

/-- the entries of an `Attributes` map -/
def mapEntries (fields : List (Str × Val)) (var : XmlVar) : List (QN × Str) :=
  match look fields var.name with
  | .attrs kv => kv
  | _ => []

/-- (qname, payload, stored string) of every attribute event of a var -/
def attrTriples (cfg : SerCfg) (fields : List (Str × Val)) (var : XmlVar) : List (QN × Data × Str) :=
  if var.isAttributes then (mapEntries fields var).map fun kw => (kw.1, Data.prim (.str kw.2), kw.2)
  else ((attrOfN cfg fields var).map fun ds => (var.qname, ds.1, ds.2)).toList

def attrEvsN (cfg : SerCfg) (vars : List XmlVar) (fields : List (Str × Val)) : List Ev :=
  vars.flatMap fun var => (attrTriples cfg fields var).map fun t => Ev.attr t.1 t.2.1

def attrPairsN (cfg : SerCfg) (vars : List XmlVar) (fields : List (Str × Val)) : List (QN × Str) :=
  vars.flatMap fun var => (attrTriples cfg fields var).map fun t => (t.1, t.2.2)

/-- the constructor argument `bind_attrs` leaves for a var -/
def attrParamOf (cfg : SerCfg) (fields : List (Str × Val)) (var : XmlVar) : Option (Str × Val) :=
  if var.isAttributes then
    (if (mapEntries fields var).isEmpty then none else some (var.name, .attrs (mapEntries fields var)))
  else if var.init then (attrOfN cfg fields var).map fun _ => (var.name, look fields var.name)
  else none

def attrParamsN (cfg : SerCfg) (vars : List XmlVar) (fields : List (Str × Val)) : Params :=
  vars.filterMap (attrParamOf cfg fields)

/-- a declared attribute var and its value -/
structure AttrA (e : BEnv) (Γ : Ctx) (m : XmlMeta) (fields : List (Str × Val)) (var : XmlVar) : Prop where
  isAttr : var.isAttribute = true
  find : m.findAttribute var.qname = some var
  notNil : var.qname ≠ xsiNil
  notType : var.qname ≠ xsiType
  mem : var.name ∈ fields.map (·.1)
  typed : ∃ t, var.types = [.prim t] ∧
    ((var.tokens = false ∧ (look fields var.name = .none ∨
        ∃ p, look fields var.name = .prim p ∧ primHasType p t = true ∧ attrStrOK Γ p = true)) ∨
     (var.tokens = true ∧ ∃ ys, look fields var.name = .list ys ∧ Toks e t ys))
  fixed : var.init = false → var.tokens = false ∧ ∃ p, look fields var.name = .prim p ∧ var.default = .val p

/-- the `Attributes` map and its value -/
structure AttrM (Γ : Ctx) (m : XmlMeta) (fields : List (Str × Val)) (var : XmlVar) : Prop where
  isMap : var.isAttributes = true
  init : var.init = true
  any : m.anyAttributes = [var]
  mem : var.name ∈ fields.map (·.1)
  value : ∃ kv, look fields var.name = .attrs kv
  nodup : ((mapEntries fields var).map (·.1)).Nodup
  entries : ∀ kw ∈ mapEntries fields var, matchNamespace var.namespaces kw.1 = true ∧
    m.findAttribute kw.1 = none ∧ targetUri kw.1 ≠ some xsiNs ∧ anyAttrValOK kw.2 = true ∧
    attrStrOK Γ (.str kw.2) = true

/-- what the proof needs to know about one var of `get_attribute_vars()` -/
inductive AttrFactsN (e : BEnv) (Γ : Ctx) (m : XmlMeta) (fields : List (Str × Val)) (var : XmlVar) : Prop
  | attr (h : AttrA e Γ m fields var)
  | amap (h : AttrM Γ m fields var)

theorem isAttributes_false_of_attr {var : XmlVar} (h : var.isAttribute = true) : var.isAttributes = false := by
  simp only [VarCore.isAttribute, VarCore.isAttributes, decide_eq_true_eq, decide_eq_false_iff_not] at h ⊢
  rw [h]; simp

theorem isAttribute_false_of_map {var : XmlVar} (h : var.isAttributes = true) : var.isAttribute = false := by
  simp only [VarCore.isAttribute, VarCore.isAttributes, decide_eq_true_eq, decide_eq_false_iff_not] at h ⊢
  rw [h]; simp

theorem attrOfN_cases {e : BEnv} {Γ : Ctx} {m : XmlMeta} {fields : List (Str × Val)} {var : XmlVar}
    (h : AttrA e Γ m fields var) {cfg : SerCfg} {d : Data} {s : Str}
    (hp : attrOfN cfg fields var = some (d, s)) :
    ∃ t, var.types = [.prim t] ∧
      ((var.tokens = false ∧ ∃ p, look fields var.name = .prim p ∧ primHasType p t = true ∧
          attrStrOK Γ p = true ∧ d = .prim (.str (serPrim p)) ∧ s = serPrim p) ∨
       (var.tokens = true ∧ ∃ ys, ys ≠ [] ∧ look fields var.name = .list ys ∧ Toks e t ys ∧
          d = tokData ys ∧ s = joinTok ys)) := by
  obtain ⟨t, hty, hv⟩ := h.typed
  refine ⟨t, hty, ?_⟩
  rcases hv with ⟨htok, hv | ⟨p, hv, hpt, hs⟩⟩ | ⟨htok, ys, hv, hys⟩
  · simp [attrOfN, hv] at hp
  · simp only [attrOfN, hv] at hp
    split at hp
    · cases hp
    · cases hp; exact Or.inl ⟨htok, p, hv, hpt, hs, rfl, rfl⟩
  · cases ys with
    | nil => simp [attrOfN, hv] at hp
    | cons y ys' =>
      simp only [attrOfN, hv, Option.some.injEq, Prod.mk.injEq] at hp
      exact Or.inr ⟨htok, y :: ys', by simp, hv, hys, hp.1.symm, hp.2.symm⟩

/-! ### `next_attribute` -/

theorem nextAttribute_N {e : BEnv} {Γ : Ctx} (cfg : SerCfg) (m : XmlMeta) (fields : List (Str × Val))
    (nl : Bool) (xt : Option QN) (h : ∀ var ∈ m.attributeVars, AttrFactsN e Γ m fields var) :
    nextAttribute cfg m fields nl xt =
      .ok (attrEvsN cfg m.attributeVars fields ++ typeEvs xt ++ nilEvs nl) := by
  unfold nextAttribute
  rw [mapM_ok _ (fun var => (attrTriples cfg fields var).map fun t => Ev.attr t.1 t.2.1)]
  · simp only [bind, Except.bind, pure, Except.pure, nilEvs, attrEvsN, List.flatMap, typeEvs]
    cases xt <;> rfl
  · intro var hvar
    cases h var hvar with
    | attr hf =>
      obtain ⟨t, hty, hv⟩ := hf.typed
      simp only [hf.isAttr, if_true, getField_look hf.mem, bind, Except.bind, attrTriples,
        isAttributes_false_of_attr hf.isAttr, Bool.false_eq_true, if_false]
      rcases hv with ⟨_, hv | ⟨p, hv, hpt, _⟩⟩ | ⟨_, ys, hv, hys⟩
      · simp [hv, attrOfN, pure, Except.pure]
      · simp only [hv, attrOfN, Bool.false_or]
        split <;> simp_all [encodePrimitive_prim hpt, pure, Except.pure]
      · cases ys with
        | nil => simp [hv, attrOfN, pure, Except.pure]
        | cons y ys' =>
          simp [hv, attrOfN, defaultEq, encodePrimitive_toks hys, pure, Except.pure]
    | amap hf =>
      obtain ⟨kv, hkv⟩ := hf.value
      obtain ⟨x, hx⟩ := find?_fst_isSome hf.mem
      have hlook : look fields var.name = x := by simp [look, hx]
      simp only [isAttribute_false_of_map hf.isMap, Bool.false_eq_true, if_false, hx, attrTriples,
        hf.isMap, if_true, mapEntries, hkv]
      rw [hlook] at hkv
      subst hkv
      simp [pure, Except.pure]

/-! ### the attribute events in the writer -/

/-- one attribute event with payload `d` stored as `s`, without rewrite -/
def TripleOK (M : NsMap) (isDt : Str → Bool) (t : QN × Data × Str) : Prop :=
  encodeData M t.2.1 = some (some t.2.2) ∧
  ∀ u, t.2.1 = .prim (.str u) → ¬ (u.head? = some '{' ∧ (t.1 = xsiType ∨ isDt u = true))

theorem attrsW_triples {M : NsMap} {isDt : Str → Bool} : ∀ (T : List (QN × Data × Str)),
    (∀ t ∈ T, TripleOK M isDt t) → (T.map (·.1)).Nodup →
    AttrsW M isDt (T.map fun t => Ev.attr t.1 t.2.1) (T.map fun t => (t.1, t.2.2)) := by
  intro T
  induction T with
  | nil => intro _ _; exact AttrsW_nil M isDt
  | cons t r ih =>
    intro h hnd
    simp only [List.map_cons, List.nodup_cons] at hnd
    have h1 := AttrsW_one (M := M) (isDt := isDt) t.1 t.2.1 t.2.2 (h t (by simp)).1 (h t (by simp)).2
    have := h1.append (ih (fun t' ht' => h t' (by simp [ht'])) hnd.2) (by
      intro a ha b hb
      simp only [List.mem_singleton] at ha
      subst ha
      intro heq
      obtain ⟨t', ht', rfl⟩ := List.mem_map.1 hb
      exact hnd.1 (List.mem_map.2 ⟨t', ht', heq.symm⟩))
    simpa using this

/-- all triples of the attribute vars -/
def allTriples (cfg : SerCfg) (vars : List XmlVar) (fields : List (Str × Val)) : List (QN × Data × Str) :=
  vars.flatMap (attrTriples cfg fields)

theorem attrEvsN_eq (cfg : SerCfg) (vars : List XmlVar) (fields : List (Str × Val)) :
    attrEvsN cfg vars fields = (allTriples cfg vars fields).map fun t => Ev.attr t.1 t.2.1 := by
  simp [attrEvsN, allTriples, List.map_flatMap]

theorem attrPairsN_eq (cfg : SerCfg) (vars : List XmlVar) (fields : List (Str × Val)) :
    attrPairsN cfg vars fields = (allTriples cfg vars fields).map fun t => (t.1, t.2.2) := by
  simp [attrPairsN, allTriples, List.map_flatMap]

/-- a triple comes from a declared attribute var or from an entry of the map -/
theorem mem_allTriples {e : BEnv} {Γ : Ctx} {m : XmlMeta} {fields : List (Str × Val)} {cfg : SerCfg}
    {vars : List XmlVar} (h : ∀ var ∈ vars, AttrFactsN e Γ m fields var) {t : QN × Data × Str}
    (ht : t ∈ allTriples cfg vars fields) :
    (∃ var ∈ vars, AttrA e Γ m fields var ∧ t.1 = var.qname ∧ attrOfN cfg fields var = some (t.2.1, t.2.2)) ∨
    (∃ var ∈ vars, AttrM Γ m fields var ∧ (t.1, t.2.2) ∈ mapEntries fields var ∧
      t.2.1 = .prim (.str t.2.2)) := by
  obtain ⟨var, hv, htv⟩ := List.mem_flatMap.1 ht
  cases h var hv with
  | attr hf =>
    simp only [attrTriples, isAttributes_false_of_attr hf.isAttr, Bool.false_eq_true, if_false,
      Option.mem_toList, Option.map_eq_some_iff] at htv
    obtain ⟨ds, hds, rfl⟩ := htv
    exact Or.inl ⟨var, hv, hf, rfl, hds⟩
  | amap hf =>
    simp only [attrTriples, hf.isMap, if_true, List.mem_map] at htv
    obtain ⟨kw, hkw, rfl⟩ := htv
    exact Or.inr ⟨var, hv, hf, hkw, rfl⟩

theorem tripleOK_all {e : BEnv} {Γ : Ctx} {m : XmlMeta} {fields : List (Str × Val)} (M : NsMap)
    (cfg : SerCfg) {vars : List XmlVar} (h : ∀ var ∈ vars, AttrFactsN e Γ m fields var) :
    ∀ t ∈ allTriples cfg vars fields, TripleOK M (isDatatype Γ) t ∧ t.1 ≠ xsiNil ∧ t.1 ≠ xsiType := by
  intro t ht
  rcases mem_allTriples h ht with ⟨var, _, hf, hq, ha⟩ | ⟨var, _, hf, hkw, hd⟩
  · obtain ⟨ty, _, hc⟩ := attrOfN_cases hf ha
    refine ⟨?_, by rw [hq]; exact hf.notNil, by rw [hq]; exact hf.notType⟩
    rcases hc with ⟨_, p, _, hpt, hs, hd, hss⟩ | ⟨_, ys, hne, _, hys, hd, hss⟩
    · refine ⟨by rw [hd, hss]; rfl, ?_⟩
      intro u hu ⟨hhead, hdt⟩
      rw [hd] at hu; cases hu
      rcases hdt with hdt | hdt
      · exact hf.notType (by rw [← hq]; exact hdt)
      · cases p with
        | str s' =>
          simp only [attrStrOK, serPrim] at hs hhead hdt
          simp [hhead, hdt] at hs
        | int i => exact serPrim_head (.int i) (by simp) (by simp) hhead
        | bool b => exact serPrim_head (.bool b) (by simp) (by simp) hhead
        | qname s' => cases ty <;> simp [primHasType] at hpt
    · refine ⟨?_, ?_⟩
      · rw [hd, hss, encodeData_toks M hys]
        cases ys with
        | nil => exact absurd rfl hne
        | cons _ _ => rfl
      · intro u hu; rw [hd] at hu; simp [tokData] at hu
  · obtain ⟨_, _, hxsi, _, hs⟩ := hf.entries _ hkw
    have hnn : t.1 ≠ xsiNil := by
      intro heq; apply hxsi; rw [heq]; decide
    have hnt : t.1 ≠ xsiType := by
      intro heq; apply hxsi; rw [heq]; decide
    refine ⟨⟨by rw [hd]; rfl, ?_⟩, hnn, hnt⟩
    intro u hu ⟨hhead, hdt⟩
    rw [hd] at hu; cases hu
    rcases hdt with hdt | hdt
    · exact hnt hdt
    · simp only [attrStrOK] at hs
      simp [hhead, hdt] at hs

/-- all attribute events of an element, `xsi:nil` included -/
theorem attrsW_all {e : BEnv} {Γ : Ctx} {m : XmlMeta} {fields : List (Str × Val)} (M : NsMap)
    (cfg : SerCfg) (nl : Bool) (h : ∀ var ∈ m.attributeVars, AttrFactsN e Γ m fields var)
    (hnd : ((attrPairsN cfg m.attributeVars fields).map (·.1)).Nodup) :
    AttrsW M (isDatatype Γ) (attrEvsN cfg m.attributeVars fields ++ nilEvs nl)
      (attrPairsN cfg m.attributeVars fields ++ nilAttr nl) := by
  have hT := tripleOK_all M cfg h
  rw [attrEvsN_eq, attrPairsN_eq]
  apply (attrsW_triples _ (fun t ht => (hT t ht).1) (by
    rw [attrPairsN_eq, List.map_map] at hnd; simpa [Function.comp_def] using hnd)).append
    (AttrsW_nilAttr M _ nl)
  intro a ha b hb
  cases nl
  · simp [nilAttr] at hb
  · simp only [nilAttr, if_true, List.mem_singleton] at hb
    subst hb
    obtain ⟨t, ht, rfl⟩ := List.mem_map.1 ha
    exact (hT t ht).2.1

theorem attrPairsN_keys {e : BEnv} {Γ : Ctx} {m : XmlMeta} {fields : List (Str × Val)} (cfg : SerCfg)
    (vars : List XmlVar) (h : ∀ var ∈ vars, AttrFactsN e Γ m fields var) :
    ∀ kv ∈ attrPairsN cfg vars fields, kv.1 ≠ xsiNil ∧ kv.1 ≠ xsiType := by
  intro kv hkv
  rw [attrPairsN_eq] at hkv
  obtain ⟨t, ht, rfl⟩ := List.mem_map.1 hkv
  exact (tripleOK_all [] cfg h t ht).2


/-! ### `bind_attrs` -/

theorem Params.get_append_last {P : Params} {n : Str} (a : Val) (h : P.has n = false) :
    (P ++ [(n, a)]).get n = some a := by
  rw [Params.get_append, Params.get_eq_none h]; simp [Params.get]

theorem Params.set_last {P : Params} {n : Str} (a b : Val) (h : P.has n = false) :
    (P ++ [(n, a)]).set n b = P ++ [(n, b)] := by
  have hhas : (P ++ [(n, a)]).has n = true := by simp [Params.has]
  rw [Params.has_eq_false] at h
  simp only [Params.set, hhas, if_true, List.map_append, List.map_cons, List.map_nil, if_true]
  congr 1
  conv => rhs; rw [← List.map_id P]
  apply List.map_congr_left
  intro kv hkv
  obtain ⟨k, w⟩ := kv
  simp [h (k, w) hkv]

/-- the map `bind_attrs` has collected so far -/
def curOf (P : Params) (n : Str) : List (QN × Str) :=
  match P.get n with
  | some (.attrs a) => a
  | _ => []

theorem parseAnyAttribute_id {v : Str} (h : anyAttrValOK v = true) (M : NsMap) :
    parseAnyAttribute v M = v := by
  unfold anyAttrValOK at h
  unfold parseAnyAttribute
  cases hs : textSplit v ':' with
  | mk pfx suffix =>
    rw [hs] at h
    cases pfx with
    | none => rfl
    | some p =>
      simp only [Bool.or_eq_true] at h
      by_cases hp : p.isEmpty = true
      · simp [hp]
      · have hsfx : startsWith suffix ['/', '/'] = true := by
          rcases h with h | h
          · exact absurd h hp
          · exact h
        simp only [hp, Bool.not_false, if_true]
        cases M.get (some p) with
        | none => rfl
        | some uri => simp [hsfx]

/-- the block of one map var -/
theorem map_block (step : Params × Nat → QN × Str → Except Err (Params × Nat)) (n : Str) (P : Params)
    (hP : P.has n = false)
    (ok : QN × Str → Prop)
    (hstep : ∀ (Q : Params) (kw : QN × Str), ok kw → (∀ kw' ∈ curOf Q n, kw'.1 ≠ kw.1) →
      step (Q, 0) kw = .ok (Q.set n (.attrs (curOf Q n ++ [kw])), 0)) :
    ∀ (kv done : List (QN × Str)), (∀ kw ∈ kv, ok kw) → ((done ++ kv).map (·.1)).Nodup →
    kv.foldlM step (if done.isEmpty then P else P ++ [(n, .attrs done)], 0) =
      .ok (if (done ++ kv).isEmpty then P else P ++ [(n, .attrs (done ++ kv))], 0) := by
  intro kv
  induction kv with
  | nil => intro done _ _; simp; rfl
  | cons kw r ih =>
    intro done hok hnd
    have hcur : curOf (if done.isEmpty then P else P ++ [(n, .attrs done)]) n = done := by
      cases done with
      | nil => simp [curOf, Params.get_eq_none hP]
      | cons a l => simp [curOf, Params.get_append_last _ hP]
    have hfresh : ∀ kw' ∈ done, kw'.1 ≠ kw.1 := by
      intro kw' hkw' heq
      rw [List.map_append, List.nodup_append] at hnd
      exact hnd.2.2 kw'.1 (List.mem_map.2 ⟨kw', hkw', rfl⟩) kw.1 (by simp) heq
    rw [List.foldlM_cons, hstep _ kw (hok kw (by simp)) (by rw [hcur]; exact hfresh), hcur]
    have hset : (if done.isEmpty then P else P ++ [(n, .attrs done)]).set n (.attrs (done ++ [kw])) =
        (if (done ++ [kw]).isEmpty then P else P ++ [(n, .attrs (done ++ [kw]))]) := by
      cases done with
      | nil => simp [Params.set_fresh _ hP]
      | cons a l => simp [Params.set_last _ _ hP]
    show List.foldlM step _ r = _
    rw [hset, ih (done ++ [kw]) (fun kw' h' => hok kw' (by simp [h'])) (by simpa using hnd)]
    simp

theorem foldlM_attrN_gen {e : BEnv} {Γ : Ctx} {m : XmlMeta} {fields : List (Str × Val)} (cfg : SerCfg)
    (step : Params × Nat → QN × Str → Except Err (Params × Nat))
    (hA : ∀ (P : Params) (var : XmlVar) (d : Data) (s : Str), AttrA e Γ m fields var →
      var.init = true → attrOfN cfg fields var = some (d, s) → P.has var.name = false →
      step (P, 0) (var.qname, s) = .ok (P ++ [(var.name, look fields var.name)], 0))
    (hF : ∀ (P : Params) (var : XmlVar) (d : Data) (s : Str), AttrA e Γ m fields var →
      var.init = false → attrOfN cfg fields var = some (d, s) → P.has var.name = false →
      step (P, 0) (var.qname, s) = .ok (P, 0))
    (hM : ∀ (Q : Params) (var : XmlVar) (kw : QN × Str), AttrM Γ m fields var →
      kw ∈ mapEntries fields var → (∀ kw' ∈ curOf Q var.name, kw'.1 ≠ kw.1) →
      step (Q, 0) kw = .ok (Q.set var.name (.attrs (curOf Q var.name ++ [kw])), 0)) :
    ∀ (vars : List XmlVar) (P0 : Params), (∀ var ∈ vars, AttrFactsN e Γ m fields var) →
      (vars.map (·.name)).Nodup → (∀ var ∈ vars, P0.has var.name = false) →
      (attrPairsN cfg vars fields).foldlM step (P0, 0) =
        .ok (P0 ++ attrParamsN cfg vars fields, 0) := by
  intro vars
  induction vars with
  | nil => intro P0 _ _ _; simp [attrPairsN, attrParamsN]; rfl
  | cons v t ih =>
    intro P0 hf hnd hfresh
    simp only [List.map_cons, List.nodup_cons] at hnd
    have hcons : attrPairsN cfg (v :: t) fields =
        (attrTriples cfg fields v).map (fun t => (t.1, t.2.2)) ++ attrPairsN cfg t fields := by
      simp [attrPairsN]
    have hpcons : attrParamsN cfg (v :: t) fields =
        (attrParamOf cfg fields v).toList ++ attrParamsN cfg t fields := by
      simp only [attrParamsN, List.filterMap_cons]
      cases attrParamOf cfg fields v <;> simp
    -- the block of `v`
    have hblock : ((attrTriples cfg fields v).map (fun t => (t.1, t.2.2))).foldlM step (P0, 0) =
        .ok (P0 ++ (attrParamOf cfg fields v).toList, 0) := by
      have hfv := hfresh v (by simp)
      cases hf v (by simp) with
      | attr ha =>
        have hna := isAttributes_false_of_attr ha.isAttr
        simp only [attrTriples, attrParamOf, hna, Bool.false_eq_true, if_false]
        cases hao : attrOfN cfg fields v with
        | none => cases hi : v.init <;> simp [pure, Except.pure]
        | some ds =>
          obtain ⟨d, s⟩ := ds
          by_cases hi : v.init = true
          · simp [hi, hA P0 v d s ha hi hao hfv, pure, Except.pure, bind, Except.bind]
          · have hi' : v.init = false := by simpa using hi
            simp [hi', hF P0 v d s ha hi' hao hfv, pure, Except.pure, bind, Except.bind]
      | amap hm =>
        simp only [attrTriples, attrParamOf, hm.isMap, if_true, List.map_map]
        have hmap : (mapEntries fields v).map ((fun t : QN × Data × Str => (t.1, t.2.2)) ∘
            fun kw => (kw.1, Data.prim (.str kw.2), kw.2)) = mapEntries fields v := by
          conv => rhs; rw [← List.map_id (mapEntries fields v)]
          apply List.map_congr_left; intro kw _; rfl
        rw [hmap]
        have := map_block step v.name P0 hfv (fun kw => kw ∈ mapEntries fields v)
          (fun Q kw hkw hcur => hM Q v kw hm hkw hcur) (mapEntries fields v) []
          (fun kw h => h) (by simpa using hm.nodup)
        simp only [List.isEmpty_nil, if_true, List.nil_append] at this
        rw [this]
        cases mapEntries fields v <;> simp
    rw [hcons, foldlM_append_ok hblock, hpcons, ih _ (fun var hv => hf var (by simp [hv])) hnd.2]
    · simp
    · intro var hv
      rw [Params.has_append, hfresh var (by simp [hv])]
      cases hpo : attrParamOf cfg fields v with
      | none => simp [Params.has]
      | some nv =>
        have hname : nv.1 = v.name := by
          unfold attrParamOf at hpo
          split at hpo
          · split at hpo
            · cases hpo
            · cases hpo; rfl
          · split at hpo
            · simp only [Option.map_eq_some_iff] at hpo
              obtain ⟨_, _, rfl⟩ := hpo; rfl
            · cases hpo
        simp only [Option.toList_some, Params.has, List.any_cons, List.any_nil, Bool.or_false,
          Bool.false_or, decide_eq_false_iff_not, hname]
        intro heq
        exact hnd.1 (List.mem_map.2 ⟨var, hv, heq.symm⟩)

theorem validateFixed_same (e : Env) (vc : VarCore) (p : PVal) (h : vc.default = .val p) :
    validateFixed e vc (.prim p) = .ok () := by
  cases p <;> simp [validateFixed, h]

/-- a fold whose step leaves the accumulator alone on every element of the list -/
theorem foldlM_skip {α β : Type} (step : α → β → Except Err α) (P : β → Prop)
    (hstep : ∀ acc kv, P kv → step acc kv = .ok acc) (acc : α) :
    ∀ (X : List β), (∀ kv ∈ X, P kv) → X.foldlM step acc = .ok acc := by
  intro X
  induction X with
  | nil => intro _; rfl
  | cons kv rest ih =>
    intro h
    rw [List.foldlM_cons, hstep acc kv (h kv (by simp))]
    exact ih (fun kv hkv => h kv (by simp [hkv]))

theorem bindAttrs_NX {e : BEnv} {Γ : Ctx} (pcfg : ParserConfig) (cfg : SerCfg) (m : XmlMeta)
    (fields : List (Str × Val)) (nsmap : NsMap) (X : List (QN × Str))
    (h : ∀ var ∈ m.attributeVars, AttrFactsN e Γ m fields var)
    (hnd : (m.attributeVars.map (·.name)).Nodup)
    (hX : ∀ kv ∈ X, m.findAttribute kv.1 = none ∧ (kv.1 = xsiType ∨ kv.1 = xsiNil)) :
    bindAttrs e pcfg m (attrPairsN cfg m.attributeVars fields ++ X) nsmap =
      .ok (attrParamsN cfg m.attributeVars fields, 0) := by
  unfold bindAttrs
  rw [foldlM_append_ok (foldlM_attrN_gen (e := e) (Γ := Γ) (m := m) (fields := fields) cfg _ ?_ ?_ ?_
    m.attributeVars [] h hnd (fun _ _ => rfl))]
  · -- control attributes (`xsi:type`, `xsi:nil`) that no var takes are skipped
    apply foldlM_skip _ (fun kv => m.findAttribute kv.1 = none ∧ (kv.1 = xsiType ∨ kv.1 = xsiNil)) ?_ _ X hX
    intro acc kv hkv
    obtain ⟨h1, h2⟩ := hkv
    obtain ⟨P, w⟩ := acc
    obtain ⟨k, v⟩ := kv
    simp only at h1 h2
    have hctl : (decide (k = xsiType) || decide (k = xsiNil)) = true := by
      rcases h2 with h | h <;> simp [h]
    simp [h1, hctl, pure, Except.pure]
  · intro P var d s hf hi ha hfresh
    obtain ⟨t, hty, hc⟩ := attrOfN_cases hf ha
    rcases hc with ⟨htok, p, hv, hpt, _, _, rfl⟩ | ⟨htok, ys, _, hv, hys, _, rfl⟩
    · have hpv := parseVar_serPrim e pcfg var.toVarCore p t nsmap htok hty hpt
      simp [hf.find, hfresh, hpv, hi, Params.set_fresh, hv, bind, Except.bind, pure, Except.pure]
    · have hpv := parseVar_toks e pcfg var.toVarCore nsmap htok hty hys
      simp [hf.find, hfresh, hpv, hi, Params.set_fresh, hv, bind, Except.bind, pure, Except.pure]
  · intro P var d s hf hi ha hhas'
    obtain ⟨htok, p, hv, hdef⟩ := hf.fixed hi
    obtain ⟨t, hty, hc⟩ := attrOfN_cases hf ha
    rcases hc with ⟨_, p', hv', hpt, _, _, rfl⟩ | ⟨htok', _⟩
    · rw [hv] at hv'; cases hv'
      have hpv := parseVar_serPrim e pcfg var.toVarCore p t nsmap htok hty hpt
      have hvf := validateFixed_same e.py var.toVarCore p hdef
      simp [hf.find, hhas', hpv, hi, hvf, bind, Except.bind, pure, Except.pure]
    · rw [htok] at htok'; cases htok'
  · intro Q var kw hm hkw hcur
    obtain ⟨hmatch, hnf, hxsi, hval, _⟩ := hm.entries kw hkw
    obtain ⟨k, v⟩ := kw
    have hctl : (decide (k = xsiType) || decide (k = xsiNil)) = false := by
      simp only [Bool.or_eq_false_iff, decide_eq_false_iff_not]
      constructor
      · intro h; apply hxsi; rw [h]; show targetUri xsiType = some xsiNs; decide
      · intro h; apply hxsi; rw [h]; show targetUri xsiNil = some xsiNs; decide
    have hfa : m.findAnyAttributes k = some var := by
      simp [XmlMeta.findAnyAttributes, hm.any, findByNamespace, hmatch]
    have hcurany : (curOf Q var.name).any (fun x => decide (x.1 = k)) = false := by
      simp only [List.any_eq_false, decide_eq_true_eq]
      exact fun x hx => hcur x hx
    simp only [hnf, hctl, Bool.false_eq_true, if_false, hfa, parseAnyAttribute_id hval, pure, Except.pure]
    unfold curOf at hcurany ⊢
    cases hg : Q.get var.name with
    | none => simp [hg] at hcurany ⊢
    | some w =>
      cases w <;> simp [hg] at hcurany ⊢
      rename_i kvs
      have : (kvs.any fun x => decide (x.fst = k)) = false := by
        simp only [List.any_eq_false, decide_eq_true_eq]
        exact fun x hx => hcurany x.1 x.2 hx
      simp [this]

end Proofs.C01
