import XsdataModel.Dict.Frag
import XsdataModel.Proofs.C04Witness
open Py Xs.Bind Xs.Dict Proofs.C04Witness
#eval (valOKj benv0 compCtx .dict 3 "H".toList comp_value, valOKj benv0 compCtx .filterNone 3 "H".toList comp_value, valOKj benv0 genwCtx .dict 4 "G".toList genw_value)
