/- ATTR events and DATA values under the lexical hypotheses. -/
import XsdataModel.Proofs.Resolve

namespace Proofs.Attrs
open Py Xs.Ns Xs.Sax Xs.Writer Spec.XmlNs Spec.EventTree Proofs.MapInv Proofs.Flush Proofs.Resolve Proofs.TreeWriter Spec.Hyps

theorem encodeData_hasValue (env : NsEnv) (v : Val) (M : NsMap) (val : Option Str) (M' : NsMap)
    (hv : hasValue v = true) (h : encodeData env v M = .ok (val, M')) : ∃ s, val = some s := by
  cases v with
  | none => cases hv
  | atom a =>
    cases a with
    | str s => simp [encodeData] at h; exact ⟨s, h.1.symm⟩
    | qname t =>
      simp only [encodeData] at h
      split at h
      · cases h
      · cases h; exact ⟨_, rfl⟩
    | int i =>
      simp only [encodeData] at h
      split at h
      · cases h
      · cases h; exact ⟨_, rfl⟩
    | bool b =>
      simp only [encodeData] at h
      split at h
      · cases h
      · cases h; exact ⟨_, rfl⟩
  | list xs =>
    cases xs with
    | nil => cases hv
    | cons a r =>
      simp only [encodeData] at h
      split at h
      · cases h
      · cases h; exact ⟨_, rfl⟩

/-- the ATTR events of an element keep all invariants -/
theorem attrsRun_ok (env : NsEnv) (henv : EnvOK env) (d : Option Str) (attrs : List (Str × Val)) :
    ∀ (M : NsMap) (A : Attrs), MapOK env d M → AttrsOK d A → attrs.all (attrOK env d) = true →
    ∃ M2 A2, attrsRun env attrs M A = some (M2, A2) ∧ Ext M M2 ∧ MapOK env d M2 ∧ AttrsOK d A2 := by
  induction attrs with
  | nil => intro M A hM hA _; exact ⟨M, A, rfl, Ext.refl M, hM, hA⟩
  | cons a r ih =>
    obtain ⟨q, v⟩ := a
    intro M A hM hA h
    simp only [List.all_cons, Bool.and_eq_true] at h
    obtain ⟨ha, hr⟩ := h
    simp only [attrOK, Bool.and_eq_true] at ha
    obtain ⟨⟨hname, hval⟩, hhas⟩ := ha
    cases hc : clark q with
    | none => rw [hc] at hname; cases hname
    | some n =>
      rw [hc] at hname
      simp only [] at hname
      have hs := clark_splitQName q n hc
      obtain ⟨val, M1, he, e1, ok1, x1⟩ := encodeData_ok env henv d _ M hM hval
      obtain ⟨s, hsv⟩ := encodeData_hasValue env _ M val M1 hhas he
      subst hsv
      obtain ⟨M2, A2, h2, e2, ok2, a2⟩ := ih M1 (dset A n (some s)) ok1 (hA.dset n s hname (x1 s rfl)) hr
      exact ⟨M2, A2, by simp [attrsRun, hs, he, h2], e1.trans e2, ok2, a2⟩

theorem dataValOK_valOK (v : Val) (h : dataValOK v = true) : valOK v = true := h

end Proofs.Attrs
