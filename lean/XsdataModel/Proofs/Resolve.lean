/-
Names written by `XMLGenerator._qname` resolve, in the scope built from the
declarations, to the expanded names the handler passed in.
-/
import XsdataModel.Proofs.Flush

namespace Proofs.Resolve
open Py Xs.Ns Xs.Sax Xs.Writer Spec.XmlNs Proofs.MapInv Proofs.Flush Spec.Hyps

theorem uriOK_ne_nil (u : Str) (h : uriOK u = true) : u ≠ [] := by
  simp only [uriOK, Bool.and_eq_true, Bool.not_eq_true'] at h
  intro e; subst e; simp at h

theorem isEmpty_false_of_ne_nil (u : Str) (h : u ≠ []) : u.isEmpty = false := by
  cases u with
  | nil => exact absurd rfl h
  | cons _ _ => rfl

theorem xmlPrefix_lit : xmlPrefix = ['x', 'm', 'l'] := rfl

/-- a qualified name -/
theorem resolve_qualified (env : NsEnv) (henv : EnvOK env) (d : Option Str) (Mf : NsMap)
    (S : List (Pfx × Str)) (g : GState)
    (hM : MapOK env d Mf) (hS : ScopeEq S Mf) (hK : K2 Mf g.cur)
    (u l : Str) (hl : isNCName l = true) (hu : uriOK u = true) (hp : prefixExists u Mf = true) :
    ∃ w, gQName env.saxXmlNs g (some u, l) = .ok w ∧ resolveElem S w = some (some u, l)
      ∧ (dget g.cur u ≠ some none → u ≠ xmlNsUri → ∃ p, w = p ++ ':' :: l ∧ isNCName p = true)
      ∧ (u = xmlNsUri → w = xmlPrefix ++ ':' :: l) := by
  have hune := uriOK_ne_nil u hu
  have hlc := isNCName_no_colon l hl
  unfold gQName
  simp only [isEmpty_false_of_ne_nil u hune, Bool.false_eq_true, if_false]
  by_cases hx : u = env.saxXmlNs
  · -- the XML namespace: 'xml:' + local
    simp only [hx, if_true]
    have hxu : env.saxXmlNs = xmlNsUri := henv.xmlNs
    refine ⟨'x' :: 'm' :: 'l' :: ':' :: l, rfl, ?_, ?_, ?_⟩
    · have hs : splitColon ('x' :: 'm' :: 'l' :: ':' :: l) = (some xmlPrefix, l) :=
        splitColon_prefixed xmlPrefix l (by decide)
      unfold resolveElem
      rw [hs]
      have h1 : isNCName xmlPrefix = true := by decide
      have h2 : (xmlPrefix == xmlnsPrefix) = false := by decide
      simp [h1, hl, h2, hxu]
    · intro _ hne; exact absurd hxu hne
    · intro _; rfl
  · simp only [hx, if_false]
    obtain ⟨k, hc, hm⟩ := hK.live hM.nodup u hune hp
    rw [hc]
    have hxu : u ≠ xmlNsUri := by rw [← henv.xmlNs]; exact hx
    cases k with
    | none =>
      refine ⟨l, rfl, ?_, ?_, ?_⟩
      · unfold resolveElem
        rw [splitColon_plain l hlc]
        simp [hl, hS none, hm, isEmpty_false_of_ne_nil u hune]
      · intro h; exact absurd rfl h
      · intro h; exact absurd h hxu
    | some p =>
      have hdecl := hM.decl (some p, u) (dget_some_mem _ _ _ hm)
      have hpn := declOK_prefix_ncname p u hdecl
      have hpne := isNCName_ne_nil p hpn
      have hpc := isNCName_no_colon p hpn
      simp only [isEmpty_false_of_ne_nil p hpne, Bool.false_eq_true, if_false]
      refine ⟨p ++ ':' :: l, rfl, ?_, ?_, ?_⟩
      · unfold resolveElem
        rw [splitColon_prefixed p l hpc]
        simp only [declOK, Bool.and_eq_true, bne_iff_ne, ne_eq, Bool.not_eq_true', beq_iff_eq] at hdecl
        have hnx : (p == xmlnsPrefix) = false := by simpa using hdecl.1.1.1.1.2
        have hpx : (p == xmlPrefix) = false := by
          have := hdecl.2
          have h2 : (u == xmlNsUri) = false := by simpa using hxu
          rw [h2] at this
          simpa using this
        simp [hpn, hl, hnx, hpx, hS (some p), hm, isEmpty_false_of_ne_nil u hune]
      · intro _ _; exact ⟨p, rfl, hpn⟩
      · intro h; exact absurd h hxu

/-- an unqualified element name under a scope whose default namespace is absent or reset -/
theorem resolve_unqualified_elem (env : NsEnv) (S : List (Pfx × Str)) (g : GState) (l : Str)
    (hl : isNCName l = true) (hd : dget S none = none ∨ dget S none = some []) :
    gQName env.saxXmlNs g (none, l) = .ok l ∧ resolveElem S l = some (none, l) := by
  refine ⟨rfl, ?_⟩
  unfold resolveElem
  rw [splitColon_plain l (isNCName_no_colon l hl)]
  rcases hd with h | h <;> simp [hl, h]

end Proofs.Resolve

namespace Proofs.Resolve
open Py Xs.Ns Xs.Sax Xs.Writer Spec.XmlNs Proofs.MapInv Proofs.Flush Spec.Hyps

theorem resolve_attr (env : NsEnv) (henv : EnvOK env) (d : Option Str) (Mf : NsMap)
    (S : List (Pfx × Str)) (g : GState)
    (hM : MapOK env d Mf) (hS : ScopeEq S Mf) (hK : K2 Mf g.cur)
    (n : EName) (hn : attrNameOK d n = true) (hp : ∀ u, n.1 = some u → prefixedExists u Mf = true) :
    ∃ w, gQName env.saxXmlNs g n = .ok w ∧ resolveAttr S w = some n := by
  obtain ⟨uo, l⟩ := n
  simp only [attrNameOK, Bool.and_eq_true] at hn
  obtain ⟨hl, hrest⟩ := hn
  cases uo with
  | none =>
    simp only [bne_iff_ne, ne_eq] at hrest
    refine ⟨l, rfl, ?_⟩
    unfold resolveAttr
    rw [splitColon_plain l (isNCName_no_colon l hl)]
    have : (l != xmlnsPrefix) = true := by simpa using hrest
    simp [hl, this]
  | some u =>
    simp only [] at hrest
    have hu := hrest
    obtain ⟨s0, hs0⟩ := prefixedExists_true u Mf (hp u rfl)
    have hget0 := NoDupKeys_dget_of_mem Mf (some s0) u hM.nodup hs0
    have hpe : prefixExists u Mf = true := prefixExists_of_mem u Mf (some s0, u) hs0 rfl
    obtain ⟨w, hw, hres, hform, hxml⟩ := resolve_qualified env henv d Mf S g hM hS hK u l hl hu hpe
    refine ⟨w, hw, ?_⟩
    have hune := uriOK_ne_nil u hu
    -- the prefix found for `u` is not the default namespace
    have hnd : dget g.cur u ≠ some none := by
      intro hc
      obtain ⟨s', hk, _⟩ := hK.pre u hune s0 hget0
      rw [hc] at hk; cases hk
    have hcolon : ∃ p, splitColon w = (some p, l) := by
      by_cases hx : u = xmlNsUri
      · rw [hxml hx]
        exact ⟨xmlPrefix, splitColon_prefixed xmlPrefix l (by decide)⟩
      · obtain ⟨p, rfl, hpn⟩ := hform hnd hx
        exact ⟨p, splitColon_prefixed p l (isNCName_no_colon p hpn)⟩
    obtain ⟨p, hsp⟩ := hcolon
    unfold resolveAttr
    rw [hsp]
    exact hres

/-- the pending attributes: distinct names, all writable, every value present and made of XML characters -/
structure AttrsOK (d : Option Str) (A : List (EName × Option Str)) : Prop where
  nodup : NoDupKeys A
  names : ∀ e ∈ A, attrNameOK d e.1 = true
  vals : ∀ e ∈ A, ∃ v, e.2 = some v ∧ xmlChars v = true

theorem AttrsOK.nil (d : Option Str) : AttrsOK d [] := ⟨by simp [NoDupKeys], by simp, by simp⟩

theorem AttrsOK.tail {d : Option Str} {e : EName × Option Str} {r : List (EName × Option Str)}
    (h : AttrsOK d (e :: r)) : AttrsOK d r := by
  obtain ⟨n, v⟩ := e
  exact ⟨h.nodup.2, fun x hx => h.names x (List.mem_cons_of_mem _ hx), fun x hx => h.vals x (List.mem_cons_of_mem _ hx)⟩

theorem AttrsOK.dset {d : Option Str} {A : List (EName × Option Str)} (h : AttrsOK d A) (n : EName) (v : Str)
    (hn : attrNameOK d n = true) (hv : xmlChars v = true) : AttrsOK d (dset A n (some v)) := by
  refine ⟨NoDupKeys_dset A n (some v) h.nodup, ?_, ?_⟩
  · intro e he
    rcases mem_dset A n (some v) e he with h1 | h1
    · subst h1; exact hn
    · exact h.names e h1
  · intro e he
    rcases mem_dset A n (some v) e he with h1 | h1
    · subst h1; exact ⟨v, rfl, hv⟩
    · exact h.vals e h1

theorem AttrsOK.dpop {d : Option Str} {A : List (EName × Option Str)} (h : AttrsOK d A) (n : EName) :
    AttrsOK d (dpop A n) :=
  ⟨NoDupKeys_dpop A n h.nodup, fun e he => h.names e (mem_dpop A n e he), fun e he => h.vals e (mem_dpop A n e he)⟩

/-- the attribute loop of `startElementNS` and the parser's reading of what it wrote -/
theorem resolve_attrs (env : NsEnv) (henv : EnvOK env) (d : Option Str) (Mf : NsMap)
    (S : List (Pfx × Str)) (g : GState)
    (hM : MapOK env d Mf) (hS : ScopeEq S Mf) (hK : K2 Mf g.cur) (A : List (EName × Option Str)) :
    (∀ e ∈ A, attrNameOK d e.1 = true) → (∀ e ∈ A, ∃ v, e.2 = some v ∧ xmlChars v = true) →
    (∀ e ∈ A, ∀ u, e.1.1 = some u → prefixedExists u Mf = true) →
    ∃ ws vs, gAttrs env.saxXmlNs g A = .ok ws ∧ someVals A = some vs ∧ resolveAttrs S ws = some vs := by
  induction A with
  | nil => intro _ _ _; exact ⟨[], [], rfl, rfl, rfl⟩
  | cons a r ih =>
    obtain ⟨n, vo⟩ := a
    intro hn hv hp
    obtain ⟨v, hv1, hv2⟩ := hv (n, vo) (by simp)
    simp only at hv1
    subst hv1
    obtain ⟨w, hw, hres⟩ := resolve_attr env henv d Mf S g hM hS hK n (hn (n, some v) (by simp))
      (hp (n, some v) (by simp))
    obtain ⟨ws, vs, h1, h2, h3⟩ := ih (fun e he => hn e (List.mem_cons_of_mem _ he))
      (fun e he => hv e (List.mem_cons_of_mem _ he)) (fun e he => hp e (List.mem_cons_of_mem _ he))
    refine ⟨(w, v) :: ws, (n, v) :: vs, ?_, ?_, ?_⟩
    · simp [gAttrs, hw, h1]
    · simp [someVals, h2]
    · simp [resolveAttrs, hres, h3, hv2]

end Proofs.Resolve
