/- C12 — code generation is reproducible: property theorems (only).

Every Python `set`/`dict`/`id()` the generator goes through is an explicit
parameter of the model (an arbitrary list order, an arbitrary injective id
assignment); the theorems state that what reaches the generated files does not
depend on it.  Helper lemmas: `Proofs/SortPerm`, `Proofs/ToposortPerm`,
`Proofs/ResolverPerm`, `Proofs/SeqNumRelabel`, `Proofs/PackagesPerm`,
`Proofs/SccStruct`, `Proofs/SccSem`, `Proofs/SccSpec`. -/
import XsdataModel.Codegen.Pipeline
import XsdataModel.Codegen.Types
import XsdataModel.Codegen.SeqNum
import XsdataModel.Codegen.Cli
import XsdataModel.Proofs.SortPerm
import XsdataModel.Proofs.ToposortPerm
import XsdataModel.Proofs.ResolverPerm
import XsdataModel.Proofs.SeqNumRelabel
import XsdataModel.Proofs.PackagesPerm
import XsdataModel.Proofs.SccStruct
import XsdataModel.Proofs.SccSpec
import XsdataModel.Proofs.CliFlags

namespace Props.C12
open Py Xs.Codegen List

/-! ## 1. topological flattening, class order and imports of a module -/

/-- `toposort_flatten(data)` is a function of the mapping item ↦ dependency
*set*: neither the dict order nor the iteration order (or multiplicity) inside
the sets matters — including whether it raises `CircularDependencyError`. -/
theorem toposort_perm_invariant {d d' : Deps} (h : DepsEquiv d d') :
    toposortFlatten d = toposortFlatten d' :=
  toposortFlatten_equiv h

/-- the hypothesis is decidable (`depsEquivB`) and satisfiable -/
example : DepsEquiv
    [(['b'], [['a'], ['c']]), (['a'], [])]
    [(['a'], []), (['b'], [['c'], ['a'], ['c']])] :=
  depsEquiv_of_check (by decide)

/-- `DependenciesResolver.create_class_list`: the order of the classes of a
module in the generated file does not depend on the order in which the classes
arrive nor on `set(obj.dependencies())`' iteration order. -/
theorem create_class_list_perm_invariant {cs cs' : List ModClass} (h : ModEquiv cs cs')
    (hn : (cs.map (·.qname)).Nodup) : createClassList cs = createClassList cs' := by
  unfold createClassList
  exact toposortFlatten_equiv (h.depsEquiv hn)

/-- **Whole resolver run** (`process`, `sorted_imports`, `sorted_classes`, aliases):
same module contents ⇒ same class order, same import statements, same aliases,
same error. No side condition. -/
theorem resolver_perm_invariant (registry : List (Str × Str)) {cs cs' : List ModClass}
    (h : ModEquiv cs cs') : resolverProcess registry cs = resolverProcess registry cs' :=
  resolverProcess_equiv registry h

/-- the hypothesis is decidable (`modEquivB`) and satisfiable -/
example : ModEquiv
    [⟨['A'], [['X'], ['B']]⟩, ⟨['B'], []⟩]
    [⟨['B'], []⟩, ⟨['A'], [['B'], ['X'], ['B']]⟩] :=
  modEquiv_of_check (by decide)

/-- `sorted_imports()` taken alone (`sorted(self.imports, key=lambda x: x.name)`),
full strength: any reordering of the import list gives the same sorted list. -/
def sorted_imports_perm_invariant : Prop :=
  ∀ l l' : List Import, l ~ l' → pySortedBy Import.name l = pySortedBy Import.name l'

/-- … which is false: the sort is stable and two classes with the same local name
from different namespaces keep their incoming order.  (Inside the resolver the
incoming order is the toposorted class list, which is why
`resolver_perm_invariant` holds nevertheless.) -/
theorem sorted_imports_perm_invariant_false : ¬ sorted_imports_perm_invariant := by
  intro h
  have key := h [⟨['{', 'a', '}', 'T'], ['m'], none⟩, ⟨['{', 'b', '}', 'T'], ['m'], none⟩]
            [⟨['{', 'b', '}', 'T'], ['m'], none⟩, ⟨['{', 'a', '}', 'T'], ['m'], none⟩]
            (List.Perm.swap _ _ _)
  -- both lists are already sorted by name (the names are equal), so the stable sort returns them unchanged
  unfold pySortedBy at key
  rw [List.mergeSort_of_pairwise (by decide), List.mergeSort_of_pairwise (by decide)] at key
  revert key
  decide

/-- … and true when the local names are pairwise different. -/
theorem sorted_imports_perm_invariant_partial {l l' : List Import} (hp : l ~ l')
    (hd : ∀ a b, a ∈ l → b ∈ l → a.name = b.name → a = b) :
    pySortedBy Import.name l = pySortedBy Import.name l' :=
  pySortedBy_perm Import.name hp hd

example : ∀ a b, a ∈ [(⟨['{', 'a', '}', 'T'], ['m'], none⟩ : Import), ⟨['{', 'b', '}', 'U'], ['m'], none⟩] →
    b ∈ [(⟨['{', 'a', '}', 'T'], ['m'], none⟩ : Import), ⟨['{', 'b', '}', 'U'], ['m'], none⟩] →
    a.name = b.name → a = b := by
  intro a b ha hb
  simp only [List.mem_cons, List.not_mem_nil, or_false] at ha hb
  rcases ha with rfl | rfl <;> rcases hb with rfl | rfl <;> decide

/-! ## 1b. clusters: strongly connected components → packages and modules -/

/-- `DesignateClassPackages.sort_classes(qnames)` does not depend on the iteration
order of the component set it is handed. -/
theorem sort_classes_perm_invariant (cs : List ClassInfo) {g g' : List Str} (hp : g ~ g')
    (hn : g.Nodup) : sortClasses cs g = sortClasses cs g' :=
  sortClasses_perm cs hp hn

/-- **`group_by_strong_components` is a function of the partition**: if two runs of
the component search deliver the same components — in another order, each in
another internal order — every class ends in the same package and module, and the
step fails in one run iff it fails in the other.  (`toOption`: *which* of several
failing components raises first does depend on the order.) -/
theorem clusters_assignment_invariant (package : Str) (cs : List ClassInfo)
    {comps comps' : List (List Str)} (h : SamePartition comps comps') (hd : DisjointComps comps) :
    (assignClusters package cs comps).toOption.map (finalAssignment cs)
      = (assignClusters package cs comps').toOption.map (finalAssignment cs) :=
  assignGroups_partition_invariant (clusterTarget package) cs h hd

/-- the same for `group_by_namespace_clusters` (`nsPackage` = `combine_ns_package`, uninterpreted) -/
theorem ns_clusters_assignment_invariant (nsPackage : Option Str → Str) (cs : List ClassInfo)
    {comps comps' : List (List Str)} (h : SamePartition comps comps') (hd : DisjointComps comps) :
    (assignNsClusters nsPackage cs comps).toOption.map (finalAssignment cs)
      = (assignNsClusters nsPackage cs comps').toOption.map (finalAssignment cs) :=
  assignGroups_partition_invariant (nsClusterTarget nsPackage) cs h hd

/-- hypotheses are satisfiable: {a,b},{c} against {c},{b,a} -/
example : SamePartition [[['a'], ['b']], [['c']]] [[['c']], [['b'], ['a']]] ∧
    DisjointComps [[['a'], ['b']], [['c']]] := by
  refine ⟨⟨[[['b'], ['a']], [['c']]], ?_, List.Perm.swap _ _ _⟩, ?_⟩
  · exact .cons (List.Perm.swap _ _ _) (by decide) (.cons (List.Perm.refl _) (by decide) .nil)
  · unfold DisjointComps
    simp only [List.pairwise_cons, List.mem_cons, List.not_mem_nil, or_false]
    refine ⟨?_, ?_, List.Pairwise.nil⟩
    · intro b hb q hq; subst hb; rcases hq with rfl | rfl <;> decide
    · intro b hb; cases hb

/-- **`strongly_connected_components` always yields a partition**: on a graph whose
edge targets are all vertices (what `ValidateReferences` guarantees), for *every*
iteration order of `set(edges)` and of the adjacency lists the exact algorithm
raises nothing (`KeyError`, `IndexError`, recursion bound) and its components are
non-empty, duplicate free, pairwise disjoint and cover exactly the vertices — so
every class is designated exactly once. -/
theorem scc_yields_partition (g : Graph) (hc : ClosedGraph g) (vorder : List Str)
    (hv : ∀ v, v ∈ vorder ↔ v ∈ keysOf g) :
    (sccRun g vorder).err = false ∧
    (∀ c ∈ (sccRun g vorder).out, c ≠ [] ∧ c.Nodup) ∧
    DisjointLists (sccRun g vorder).out ∧
    (∀ x, x ∈ keysOf g ↔ ∃ c ∈ (sccRun g vorder).out, x ∈ c) :=
  scc_partition g hc vorder hv

/-- the hypothesis is decidable and satisfiable -/
example : ClosedGraph [(['a'], [['b']]), (['b'], [['a'], ['b']])] := by
  intro x ws h y hy
  unfold dget at h
  simp only [List.lookup] at h
  split at h
  · cases h; simp only [List.mem_singleton] at hy; subst hy; decide
  · split at h
    · cases h
      simp only [List.mem_cons, List.not_mem_nil, or_false] at hy
      rcases hy with rfl | rfl <;> decide
    · cases h

/-- **Specification of `strongly_connected_components`** (the exact path-based
algorithm of `utils/graphs.py`, for *every* iteration order of `set(edges)` and
of the adjacency lists): each yielded component is exactly a class of mutual
reachability. -/
theorem scc_spec (g : Graph) (hc : ClosedGraph g) (vorder : List Str)
    (hv : ∀ v, v ∈ vorder ↔ v ∈ keysOf g) :
    ∀ c ∈ (sccRun g vorder).out, ∀ x ∈ c, ∀ y, (y ∈ c ↔ (Reach g x y ∧ Reach g y x)) :=
  Xs.Codegen.scc_spec g hc vorder hv

/-- **The component search is independent of every iteration order**: two runs on
the same graph presented differently (other dict order, other order inside
`list(set(deps))`, other order of `set(edges)`) deliver the same partition. -/
theorem scc_order_independent (g g' : Graph) (hc : ClosedGraph g) (hc' : ClosedGraph g')
    (hk : ∀ x, x ∈ keysOf g ↔ x ∈ keysOf g') (he : ∀ x y, Edge g x y ↔ Edge g' x y)
    (vo vo' : List Str) (hvo : ∀ v, v ∈ vo ↔ v ∈ keysOf g) (hvo' : ∀ v, v ∈ vo' ↔ v ∈ keysOf g') :
    SamePartition (sccRun g vo).out (sccRun g' vo').out :=
  (sccRun_classPartition g hc vo hvo).samePartition
    ((sccRun_classPartition g' hc' vo' hvo').congr hk he)

/-- **`group_by_strong_components` does not depend on any iteration order** —
unconditionally on closed class graphs: for two presentations `g`, `g'` of the
dependency graph (other dict order, other order inside every
`list(set(obj.dependencies(True)))`) and two iteration orders of `set(edges)`, the
package and module of every class, and whether the step fails, are the same.
(Composition of `scc_order_independent`, `scc_yields_partition` and
`clusters_assignment_invariant`.) -/
theorem clusters_order_independent (package : Str) (cs : List ClassInfo) (g g' : Graph)
    (hc : ClosedGraph g) (hc' : ClosedGraph g')
    (hk : ∀ x, x ∈ keysOf g ↔ x ∈ keysOf g') (he : ∀ x y, Edge g x y ↔ Edge g' x y)
    (vo vo' : List Str) (hvo : ∀ v, v ∈ vo ↔ v ∈ keysOf g) (hvo' : ∀ v, v ∈ vo' ↔ v ∈ keysOf g') :
    (groupByStrongComponentsG package cs g vo).toOption
      = (groupByStrongComponentsG package cs g' vo').toOption := by
  have h := scc_order_independent g g' hc hc' hk he vo vo' hvo hvo'
  obtain ⟨herr, _, hd, _⟩ := scc_partition g hc vo hvo
  obtain ⟨herr', _, _, _⟩ := scc_partition g' hc' vo' hvo'
  have key := clusters_assignment_invariant package cs h hd
  unfold groupByStrongComponentsG
  simp only [herr, herr']
  cases h1 : assignClusters package cs (sccRun g vo).out with
  | error e =>
    cases h2 : assignClusters package cs (sccRun g' vo').out with
    | error e' => rfl
    | ok r' => rw [h1, h2] at key; simp [Except.toOption] at key
  | ok r =>
    cases h2 : assignClusters package cs (sccRun g' vo').out with
    | error e' => rw [h1, h2] at key; simp [Except.toOption] at key
    | ok r' =>
      rw [h1, h2] at key
      simp only [Except.toOption, Option.map_some, Option.some.injEq] at key
      simp [Except.toOption, key]

/-- the same for `group_by_namespace_clusters` -/
theorem namespace_clusters_order_independent (nsPackage : Option Str → Str) (cs : List ClassInfo)
    (g g' : Graph) (hc : ClosedGraph g) (hc' : ClosedGraph g')
    (hk : ∀ x, x ∈ keysOf g ↔ x ∈ keysOf g') (he : ∀ x y, Edge g x y ↔ Edge g' x y)
    (vo vo' : List Str) (hvo : ∀ v, v ∈ vo ↔ v ∈ keysOf g) (hvo' : ∀ v, v ∈ vo' ↔ v ∈ keysOf g') :
    (groupByNamespaceClustersG nsPackage cs g vo).toOption
      = (groupByNamespaceClustersG nsPackage cs g' vo').toOption := by
  have h := scc_order_independent g g' hc hc' hk he vo vo' hvo hvo'
  obtain ⟨herr, _, hd, _⟩ := scc_partition g hc vo hvo
  obtain ⟨herr', _, _, _⟩ := scc_partition g' hc' vo' hvo'
  have key := ns_clusters_assignment_invariant nsPackage cs h hd
  unfold groupByNamespaceClustersG
  simp only [herr, herr']
  cases h1 : assignNsClusters nsPackage cs (sccRun g vo).out with
  | error e =>
    cases h2 : assignNsClusters nsPackage cs (sccRun g' vo').out with
    | error e' => rfl
    | ok r' => rw [h1, h2] at key; simp [Except.toOption] at key
  | ok r =>
    cases h2 : assignNsClusters nsPackage cs (sccRun g' vo').out with
    | error e' => rw [h1, h2] at key; simp [Except.toOption] at key
    | ok r' =>
      rw [h1, h2] at key
      simp only [Except.toOption, Option.map_some, Option.some.injEq] at key
      simp [Except.toOption, key]

/-- instance for the container's own edges dict and two orders of `set(edges)` -/
theorem group_by_strong_components_order_independent (package : Str) (cs : List ClassInfo)
    (vo vo' : List Str) (hc : ClosedGraph (classEdges cs))
    (hvo : ∀ v, v ∈ vo ↔ v ∈ keysOf (classEdges cs))
    (hvo' : ∀ v, v ∈ vo' ↔ v ∈ keysOf (classEdges cs)) :
    (groupByStrongComponents package cs vo).toOption
      = (groupByStrongComponents package cs vo').toOption :=
  clusters_order_independent package cs _ _ hc hc (fun _ => Iff.rfl) (fun _ _ => Iff.rfl) vo vo' hvo hvo'

/-- **Layout of the generated package** (module of every class, class order and
import list of every module — `DesignateClassPackages` followed by `render`'s
per-module resolver runs): independent of the iteration order of `set(edges)`. -/
theorem layout_clusters_order_independent (package : Str) (cs : List ClassInfo)
    (vo vo' : List Str) (hc : ClosedGraph (classEdges cs))
    (hvo : ∀ v, v ∈ vo ↔ v ∈ keysOf (classEdges cs))
    (hvo' : ∀ v, v ∈ vo' ↔ v ∈ keysOf (classEdges cs)) :
    (layoutClusters package cs vo).toOption = (layoutClusters package cs vo').toOption := by
  have key := group_by_strong_components_order_independent package cs vo vo' hc hvo hvo'
  unfold layoutClusters
  cases h1 : groupByStrongComponents package cs vo with
  | error e =>
    cases h2 : groupByStrongComponents package cs vo' with
    | error e' => rfl
    | ok a' => rw [h1, h2] at key; simp [Except.toOption] at key
  | ok a =>
    cases h2 : groupByStrongComponents package cs vo' with
    | error e' => rw [h1, h2] at key; simp [Except.toOption] at key
    | ok a' =>
      rw [h1, h2] at key
      simp only [Except.toOption, Option.some.injEq] at key
      subst key
      rfl

/-! ## 2. type priority after `set()` de-duplication -/

/-- any list of names whose sort keys are pairwise different is sorted to the same
list whatever its order -/
theorem sort_types_perm_invariant_of_distinct_keys {ts ts' : List Str} (hp : ts ~ ts')
    (hd : ∀ a b, a ∈ ts → b ∈ ts → typeKey a = typeKey b → a = b) :
    sortTypes ts = sortTypes ts' := by
  unfold sortTypes sortTypesBy
  rw [hp.length_eq]
  split
  · -- fewer than two elements: a permutation of such a list is the list itself
    rename_i hlt
    have hl : ts.length < 2 := by rw [hp.length_eq]; exact hlt
    match ts, ts', hp, hl with
    | [], ts', hp, _ => exact hp.symm.eq_nil.symm ▸ rfl
    | [a], ts', hp, _ => exact (List.perm_singleton.1 hp.symm).symm ▸ rfl
  · exact pySortedByNat_perm typeKey hp hd

/-- Decision table over the live tables: among the Python types the XSD builtins
map to (`DataType`), the only pair with equal *table priority* is `bytes` / `object` … -/
theorem priority_ties_bytes_object :
    priorityTies Tables.dataTypeTypeNames
      = [(['b', 'y', 't', 'e', 's'], ['o', 'b', 'j', 'e', 'c', 't']),
         (['o', 'b', 'j', 'e', 'c', 't'], ['b', 'y', 't', 'e', 's'])] := by
  decide

/-- … and the sort key `(priority, tp is object)` separates them: no two native
types share a key. -/
theorem native_type_keys_distinct : keyTies Tables.dataTypeTypeNames = [] := by decide

theorem eq_of_key_eq_of_native {a b : Str} (ha : a ∈ Tables.dataTypeTypeNames)
    (hb : b ∈ Tables.dataTypeTypeNames) (h : typeKey a = typeKey b) : a = b := by
  apply Classical.byContradiction
  intro hne
  have hmem : (a, b) ∈ keyTies Tables.dataTypeTypeNames := by
    unfold keyTies tiesBy
    rw [List.mem_flatMap]
    refine ⟨a, ha, List.mem_map.2 ⟨b, List.mem_filter.2 ⟨hb, ?_⟩, rfl⟩⟩
    simp [hne, h]
  rw [native_type_keys_distinct] at hmem
  cases hmem

/-- **`ConverterFactory.sort_types` after `Attr.native_types`, full strength**: for
the Python types `Attr.native_types` can yield (the types of the XSD builtins,
regenerated table) the result does not depend on the order in which
`list(set(...))` delivers them.  (Before the repair `bytes` and `object` tied at
priority 0 and this failed for `[bytes, object]`; nothing remains excluded.
For arbitrary class names — enum classes share key 0 — see
`sort_types_perm_invariant_of_distinct_keys`; such lists never pass through a set.) -/
theorem sort_types_perm_invariant {ts ts' : List Str} (hp : ts ~ ts')
    (hn : ∀ t ∈ ts, t ∈ Tables.dataTypeTypeNames) : sortTypes ts = sortTypes ts' :=
  sort_types_perm_invariant_of_distinct_keys hp
    (fun a b ha hb h => eq_of_key_eq_of_native (hn a ha) (hn b hb) h)

/-- the former counterexample, both ways round -/
example : sortTypes [['b', 'y', 't', 'e', 's'], ['o', 'b', 'j', 'e', 'c', 't']]
    = sortTypes [['o', 'b', 'j', 'e', 'c', 't'], ['b', 'y', 't', 'e', 's']] :=
  sort_types_perm_invariant (List.Perm.swap _ _ _) (by decide)

/-! ## 3. sequence / choice identifiers taken from `id()` -/

/-- **Renumbering forgets `id()`** (one class): relabelling the ids found in the
attr paths by any injective, zero-preserving map leaves the occurrence bounds, the
final sequence numbers and the choice grouping unchanged, given the numbers of
the base classes. -/
theorem renumber_id_invariant {f : Int → Int} (hf : GoodRelabel f)
    (base : List (Option Int)) (attrs : List SeqAttr) :
    seqOutput (sequencePipeline base (attrs.map (relabelAttr f)))
      = seqOutput (sequencePipeline base attrs) :=
  sequencePipeline_relabel hf base attrs

example : GoodRelabel (fun x => 3 * x) := ⟨fun a b h => by omega, fun x => by omega⟩

/-- **Full strength, whole inheritance chain**: `ResetAttributeSequenceNumbers`
renumbers the base classes before it reads their numbers, so relabelling *every*
id of *every* class of the chain (root first) — what another process does —
changes nothing in what is generated for any class of the chain.  (Before the
repair a base class still being finalised handed its raw ids to
`find_next_sequence_number` and this failed; nothing remains excluded for
single-inheritance chains.) -/
theorem renumber_id_independent {f : Int → Int} (hf : GoodRelabel f)
    (chain : List (List SeqAttr)) :
    (sequencePipelineChain (chain.map (List.map (relabelAttr f)))).map seqOutput
      = (sequencePipelineChain chain).map seqOutput :=
  sequencePipelineChain_relabel hf chain

/-- the former counterexample (base with a repeated sequence, subclass with one):
the subclass gets number 2 whatever the ids -/
example : (sequencePipelineChain
      [[{ path := [⟨['s'], 1000, 1, 5⟩] }, { path := [⟨['s'], 1000, 1, 5⟩] }],
       [{ path := [⟨['s'], 7, 1, 5⟩] }, { path := [⟨['s'], 7, 1, 5⟩] }]]).map seqOutput
    = [[(1, 5, some 1, none), (1, 5, some 1, none)], [(1, 5, some 2, none), (1, 5, some 2, none)]] := by
  decide

/-! ## 4. invocation routes -/

/-- `cli.generate` sorts the resolved URIs and `process_sources` buckets them by
type: the processing order does not depend on the order in which the file
system lists the sources. -/
theorem process_order_perm_invariant (classify : Str → ResType) {uris uris' : List Str}
    (h : uris ~ uris') : processOrder classify uris = processOrder classify uris' := by
  unfold processOrder
  rw [pySorted_perm h]

/-- the option destinations of the model are the ones `build_options(GeneratorOutput)`
declares now (regenerated table) -/
theorem cli_options_match_tables : optionDests = Tables.cliOptions := by decide

/-- and the model's `GeneratorOutput()` has the defaults the code has now -/
theorem cli_defaults_match_tables : describe defaultOutput = Tables.cliDefaults := by decide

/-- **CLI flags = API = config file, full strength**: giving every option on the
command line produces exactly the configuration the constructors
(`GeneratorOutput(...)`, i.e. the programmatic API and the config-file reader)
produce for the same values — for *every* configuration.  (Before 4e80ca2
`update` skipped `GeneratorOutput.validate()` and this failed for
`--generic-collections --frozen`; nothing remains excluded.) -/
theorem cli_flags_eq_api (o : GenOutput) :
    cliGenerate defaultOutput (flagsOf o) = some (construct o) := by
  obtain ⟨p, ⟨v, r, e, od, u, fz, sl⟩, ss, ds, ri, cf, wf, ml, gc, un, ip, ih⟩ := o
  simp only [cliGenerate, flagsOf, Dest.all, List.map, List.filterMap, Option.map, getField,
    update, List.foldlM, setField, bind, Option.bind, pure, construct]

/-- the corner that used to differ, now through both routes -/
example : cliGenerate defaultOutput
      (flagsOf { defaultOutput with genericCollections := true,
                                    format := { defaultOutput.format with frozen := true } })
    = some { defaultOutput with genericCollections := false,
                                format := { defaultOutput.format with frozen := true } } := by
  decide

/-- **The order of the flags on the command line is irrelevant**: `update(**kwargs)`
assigns the keyword arguments one after the other (`objects.update`), click delivers
them in declaration order, a caller of the API in any order — for pairwise different
options every order gives the same configuration (assignments to different fields
commute, the validations run once at the end). -/
theorem cli_flags_order_irrelevant (file : GenOutput) {kwargs kwargs' : List (Dest × Option OptVal)}
    (hp : kwargs ~ kwargs') (hn : (kwargs.map (·.1)).Nodup) :
    cliGenerate file kwargs = cliGenerate file kwargs' := by
  unfold cliGenerate
  rw [update_eq, update_eq]
  have hp' := hp.filterMap (fun kv => kv.2.map (fun v => (kv.1, v)))
  have hn' := hn.sublist (given_dests_sublist kwargs)
  rw [applyParams_perm hp' hn']

example : ([(Dest.fmtFrozen, some (OptVal.bool true)), (Dest.genericCollections, some (OptVal.bool true))] :
    List (Dest × Option OptVal)) ~ [(Dest.genericCollections, some (OptVal.bool true)), (Dest.fmtFrozen, some (OptVal.bool true))]
    ∧ ([(Dest.fmtFrozen, some (OptVal.bool true)), (Dest.genericCollections, some (OptVal.bool true))].map (·.1)).Nodup :=
  ⟨List.Perm.swap _ _ _, by decide⟩

/-- **Whatever the project file and the flags are, the configuration that reaches the
generator satisfies both validations**: it is a fixed point of the constructors'
`__post_init__` chain, i.e. a configuration the API could have produced. -/
theorem cli_result_is_validated (file : GenOutput) (kwargs : List (Dest × Option OptVal))
    (r : GenOutput) (h : cliGenerate file kwargs = some r) : construct r = r := by
  unfold cliGenerate at h
  rw [update_eq] at h
  cases ha : applyParams file (kwargs.filterMap (fun kv => kv.2.map (fun v => (kv.1, v)))) with
  | none => rw [ha] at h; cases h
  | some o =>
    rw [ha] at h
    simp only [Option.map_some, Option.some.injEq] at h
    rw [← h]
    exact construct_idem o

/-- Explicit flags override whatever the project file says: with every option
given, the result does not depend on the file. -/
theorem cli_flags_override_file (c c' o : GenOutput) :
    cliGenerate c (flagsOf o) = cliGenerate c' (flagsOf o) := by
  obtain ⟨p, ⟨v, r, e, od, u, fz, sl⟩, ss, ds, ri, cf, wf, ml, gc, un, ip, ih⟩ := o
  simp only [cliGenerate, flagsOf, Dest.all, List.map, List.filterMap, Option.map, getField,
    update, List.foldlM, setField, bind, Option.bind, pure]

/-- Config-file route: a configuration that came out of the constructors (what
`GeneratorConfig.read` returns) passes through `cli.generate` without flags
unchanged — the only thing `update` does then are the two idempotent validations. -/
theorem config_file_eq_api (o : GenOutput) :
    cliGenerate (construct o) [] = some (construct o) := by
  obtain ⟨p, ⟨v, r, e, od, u, fz, sl⟩, ss, ds, ri, cf, wf, ml, gc, un, ip, ih⟩ := o
  simp only [cliGenerate, List.filterMap, update, List.foldlM, pure, Option.map, construct,
    outputValidate, formatValidate]
  cases od <;> cases e <;> cases gc <;> cases fz <;> simp

end Props.C12
