import XsdataModel.Bind.Gen
example : ([1,2,3] : List Nat).Nodup := by decide
example (e : Py.Env) : e.strip "true".toList = "true".toList := by
  simp [Py.Env.strip, Py.Env.lstrip, Py.Env.rstrip, Py.Env.isSpace, Py.isAscii, Py.isAsciiSpace]
