import XsdataModel.Bind.Parse
namespace Proofs.C09
open Py Xs.Bind

/-! C09 helper lemmas: surrounding whitespace in the lexical value does not
change the converted value, for every `Env`. -/

/-- every character of `s` is whitespace for `str.isspace` -/
def allSpace (e : Env) (s : Str) : Bool := s.all e.isSpace

/-! ### generic `dropWhile`/`takeWhile` facts -/

theorem dropWhile_append_all {α} (p : α → Bool) (l x : List α) (h : l.all p = true) :
    (l ++ x).dropWhile p = x.dropWhile p := by
  induction l with
  | nil => rfl
  | cons a l ih =>
    simp only [List.all_cons, Bool.and_eq_true] at h
    simp [h.1, ih h.2]

theorem dropWhile_all {α} (p : α → Bool) (l : List α) (h : l.all p = true) :
    l.dropWhile p = [] := by
  have := dropWhile_append_all p l [] h
  simpa using this

theorem all_of_dropWhile_nil {α} (p : α → Bool) (l : List α) (h : l.dropWhile p = []) :
    l.all p = true := by
  induction l with
  | nil => rfl
  | cons a l ih =>
    rw [List.dropWhile_cons] at h
    split at h
    · rename_i hp
      simp [hp, ih h]
    · cases h

theorem dropWhile_append_ne_nil {α} (p : α → Bool) (s r : List α) (h : s.dropWhile p ≠ []) :
    (s ++ r).dropWhile p = s.dropWhile p ++ r := by
  induction s with
  | nil => exact absurd rfl h
  | cons a s ih =>
    rw [List.dropWhile_cons] at h
    rw [List.cons_append, List.dropWhile_cons, List.dropWhile_cons]
    split
    · rename_i hp
      rw [if_pos hp] at h
      exact ih h
    · rfl

theorem takeWhile_append_ne_nil {α} (p : α → Bool) (s r : List α) (h : s.dropWhile p ≠ []) :
    (s ++ r).takeWhile p = s.takeWhile p := by
  induction s with
  | nil => exact absurd rfl h
  | cons a s ih =>
    rw [List.dropWhile_cons] at h
    rw [List.cons_append, List.takeWhile_cons, List.takeWhile_cons]
    split
    · rename_i hp
      rw [if_pos hp] at h
      rw [ih h]
    · rfl

theorem dropWhile_head_false {α} (p : α → Bool) (s : List α) (c : α) (t : List α)
    (h : s.dropWhile p = c :: t) : p c = false := by
  induction s with
  | nil => cases h
  | cons a s ih =>
    rw [List.dropWhile_cons] at h
    split at h
    · exact ih h
    · rename_i hp
      cases h
      simpa using hp

theorem all_append' {α} (p : α → Bool) (a b : List α) (ha : a.all p = true) (hb : b.all p = true) :
    (a ++ b).all p = true := by
  simp [List.all_append, ha, hb]

theorem all_reverse' {α} (p : α → Bool) (a : List α) (ha : a.all p = true) :
    a.reverse.all p = true := by
  simpa using ha

/-! ### strip -/

/-- `dropWhile p`, reverse, `dropWhile p`, reverse: the shape of `str.strip()` and of the
white space removal of `int(str)` -/
def stripP (p : Char → Bool) (s : Str) : Str := ((s.dropWhile p).reverse.dropWhile p).reverse

theorem stripP_pad (p : Char → Bool) (l s r : Str) (hl : l.all p = true) (hr : r.all p = true) :
    stripP p (l ++ s ++ r) = stripP p s := by
  unfold stripP
  rw [List.append_assoc, dropWhile_append_all p l (s ++ r) hl]
  by_cases h : s.dropWhile p = []
  · have hs : s.all p = true := all_of_dropWhile_nil _ _ h
    have : (s ++ r).dropWhile p = [] := dropWhile_all _ _ (all_append' _ _ _ hs hr)
    rw [this, h]
  · rw [dropWhile_append_ne_nil p s r h, List.reverse_append,
      dropWhile_append_all p r.reverse _ (all_reverse' _ _ hr)]

theorem strip_eq_stripP (e : Env) (s : Str) : e.strip s = stripP e.isSpace s := rfl
theorem intStrip_eq_stripP (e : Env) (s : Str) : e.intStrip s = stripP e.isIntSpace s := rfl

theorem lstrip_pad (e : Env) (l s : Str) (hl : allSpace e l = true) : e.lstrip (l ++ s) = e.lstrip s :=
  dropWhile_append_all e.isSpace l s hl

theorem rstrip_pad (e : Env) (s r : Str) (hr : allSpace e r = true) : e.rstrip (s ++ r) = e.rstrip s := by
  unfold Env.rstrip
  rw [List.reverse_append, dropWhile_append_all e.isSpace r.reverse s.reverse (all_reverse' _ _ hr)]

theorem rstrip_nil (e : Env) : e.rstrip [] = [] := rfl

/-- `str.strip()` ignores padding that is `str.isspace` -/
theorem strip_pad (e : Env) (l s r : Str) (hl : allSpace e l = true) (hr : allSpace e r = true) :
    e.strip (l ++ s ++ r) = e.strip s := by
  rw [strip_eq_stripP, strip_eq_stripP]
  exact stripP_pad e.isSpace l s r hl hr

/-! ### `int(str)`: a narrower notion of white space

CPython's `int(str)` skips \t \n \v \f \r, space and the non-ASCII Unicode spaces, but NOT the
ASCII separators FS GS RS US (0x1c–0x1f) that `str.isspace()` / `str.strip()` accept. -/

/-- every character of `s` is skipped by `int(str)`; such a string is also blank for `str.strip()`
(`allBlank_allSpace`), so it is blank for every converter of the fragment -/
def allBlank (e : Env) (s : Str) : Bool := s.all e.isIntSpace

theorem isSpace_of_isIntSpace (e : Env) (c : Char) (h : e.isIntSpace c = true) : e.isSpace c = true := by
  unfold Env.isIntSpace at h
  unfold Env.isSpace
  by_cases ha : isAscii c = true
  · simp only [ha, if_true] at h ⊢
    simp only [isAsciiSpace]
    simp only [Bool.or_eq_true, Bool.and_eq_true, decide_eq_true_eq] at h ⊢
    omega
  · simp only [ha] at h ⊢
    exact h

theorem allBlank_allSpace (e : Env) (s : Str) (h : allBlank e s = true) : allSpace e s = true := by
  simp only [allBlank, allSpace, List.all_eq_true] at h ⊢
  exact fun c hc => isSpace_of_isIntSpace e c (h c hc)

/-- the white space of XML: #x20 #x9 #xD #xA -/
def isXmlWs (c : Char) : Bool := c = ' ' || c = '\t' || c = '\r' || c = '\n'

/-- XML white space is blank for `int()` (hence for `str.strip()`) in every environment -/
theorem allBlank_of_xmlWs (e : Env) (s : Str) (h : s.all isXmlWs = true) : allBlank e s = true := by
  simp only [allBlank, List.all_eq_true] at h ⊢
  intro c hc
  have := h c hc
  simp only [isXmlWs, Bool.or_eq_true, decide_eq_true_eq] at this
  rcases this with ((h1 | h1) | h1) | h1 <;> subst h1 <;> simp [Env.isIntSpace, isAscii]

/-- `int(str)` ignores padding that `int` itself regards as white space -/
theorem intStrip_pad (e : Env) (l s r : Str) (hl : allBlank e l = true) (hr : allBlank e r = true) :
    e.intStrip (l ++ s ++ r) = e.intStrip s := by
  rw [intStrip_eq_stripP, intStrip_eq_stripP]
  exact stripP_pad e.isIntSpace l s r hl hr

theorem pyInt_pad (e : Env) (l s r : Str) (hl : allBlank e l = true) (hr : allBlank e r = true) :
    e.pyInt (l ++ s ++ r) = e.pyInt s := by
  unfold Env.pyInt
  rw [intStrip_pad e l s r hl hr]

/-- the statement with `str.isspace` padding is FALSE for `int`: `int("\x1c1")` raises ValueError
although `"\x1c1".strip() == "1"` -/
theorem pyInt_pad_isspace_false :
    ¬ (∀ (e : Env) (l s r : Str), allSpace e l = true → allSpace e r = true → e.pyInt (l ++ s ++ r) = e.pyInt s) := by
  intro h
  have := h Env.ascii [Char.ofNat 0x1c] ['1'] [] (by decide) (by decide)
  revert this
  decide

theorem resolveQName_pad (e : BEnv) (l s r : Str) (n : NsMap) (hl : allSpace e.py l = true) (hr : allSpace e.py r = true) :
    resolveQName e (l ++ s ++ r) n = resolveQName e s n := by
  unfold resolveQName
  rw [strip_pad e.py l s r hl hr]

/-- the converter of this type strips its input (everything except `str`/`object`) -/
def strips : TypeRef → Bool
  | .prim .str | .obj => false
  | _ => true

/-- … and strips with `str.strip()` (everything except `str`/`object`/`int`) -/
def stripsSpace : TypeRef → Bool
  | .prim .str | .obj | .prim .int => false
  | _ => true

/-- padding that is `str.isspace`: bool, QName (not int) -/
theorem deOne_pad_space (e : BEnv) (l s r : Str) (t : TypeRef) (n : NsMap) (ht : stripsSpace t = true)
    (hl : allSpace e.py l = true) (hr : allSpace e.py r = true) :
    deOne e (l ++ s ++ r) t n = deOne e s t n := by
  unfold deOne
  split
  · simp [stripsSpace] at ht
  · simp [stripsSpace] at ht
  · simp [stripsSpace] at ht
  · rw [strip_pad e.py l s r hl hr]
  · rw [resolveQName_pad e l s r n hl hr]
  · rfl
  · rfl

/-- padding that is blank for `int()` too: int, bool, QName -/
theorem deOne_pad (e : BEnv) (l s r : Str) (t : TypeRef) (n : NsMap) (ht : strips t = true)
    (hl : allBlank e.py l = true) (hr : allBlank e.py r = true) :
    deOne e (l ++ s ++ r) t n = deOne e s t n := by
  by_cases hi : t = .prim .int
  · subst hi
    unfold deOne
    rw [pyInt_pad e.py l s r hl hr]
  · have hs : stripsSpace t = true := by
      cases t with
      | prim p => cases p <;> simp_all [strips, stripsSpace]
      | cls c => rfl
      | obj => simp [strips] at ht
      | other o => rfl
    exact deOne_pad_space e l s r t n hs (allBlank_allSpace _ _ hl) (allBlank_allSpace _ _ hr)

theorem deserialize_pad (e : BEnv) (l s r : Str) (ts : List TypeRef) (n : NsMap) (ht : ts.all strips = true)
    (hl : allBlank e.py l = true) (hr : allBlank e.py r = true) :
    deserialize e (l ++ s ++ r) ts n = deserialize e s ts n := by
  unfold deserialize
  induction ts with
  | nil => rfl
  | cons t ts ih =>
    simp only [List.all_cons, Bool.and_eq_true] at ht
    rw [List.findSome?_cons, List.findSome?_cons, deOne_pad e l s r t n ht.1 hl hr, ih ht.2]

theorem deserialize_pad_space (e : BEnv) (l s r : Str) (ts : List TypeRef) (n : NsMap) (ht : ts.all stripsSpace = true)
    (hl : allSpace e.py l = true) (hr : allSpace e.py r = true) :
    deserialize e (l ++ s ++ r) ts n = deserialize e s ts n := by
  unfold deserialize
  induction ts with
  | nil => rfl
  | cons t ts ih =>
    simp only [List.all_cons, Bool.and_eq_true] at ht
    rw [List.findSome?_cons, List.findSome?_cons, deOne_pad_space e l s r t n ht.1 hl hr, ih ht.2]

/-! ### `str.split()` -/

theorem dropWhile_not_of_all {α} (p : α → Bool) (r : List α) (h : r.all p = true) :
    r.dropWhile (fun c => !p c) = r := by
  cases r with
  | nil => rfl
  | cons a r =>
    simp only [List.all_cons, Bool.and_eq_true] at h
    simp [h.1]

theorem takeWhile_not_of_all {α} (p : α → Bool) (r : List α) (h : r.all p = true) :
    r.takeWhile (fun c => !p c) = [] := by
  cases r with
  | nil => rfl
  | cons a r =>
    simp only [List.all_cons, Bool.and_eq_true] at h
    simp [h.1]

theorem length_dropWhile_le' {α} (p : α → Bool) (s : List α) : (s.dropWhile p).length ≤ s.length := by
  induction s with
  | nil => exact Nat.le_refl _
  | cons a s ih =>
    rw [List.dropWhile_cons]
    split
    · exact Nat.le_succ_of_le ih
    · exact Nat.le_refl _

theorem takeWhile_of_forall {α} (p : α → Bool) (s : List α) (h : ∀ a ∈ s, p a = true) :
    s.takeWhile p = s := by
  induction s with
  | nil => rfl
  | cons a s ih =>
    rw [List.takeWhile_cons, if_pos (h a (List.mem_cons_self ..)),
      ih (fun b hb => h b (List.mem_cons_of_mem _ hb))]

/-- any fuel above the length of the remaining string gives the same result -/
theorem go_fuel (e : Env) : ∀ (f1 f2 : Nat) (s : Str) (acc : List Str),
    s.length < f1 → s.length < f2 → pySplitWs.go e f1 s acc = pySplitWs.go e f2 s acc := by
  intro f1
  induction f1 with
  | zero => intro f2 s acc h; omega
  | succ f1 ih =>
    intro f2 s acc h1 h2
    cases f2 with
    | zero => omega
    | succ f2 =>
      unfold pySplitWs.go
      simp only
      cases hs : s.dropWhile e.isSpace with
      | nil => rfl
      | cons c t =>
        have hc : e.isSpace c = false := dropWhile_head_false _ _ _ _ hs
        have hlen : (c :: t).length ≤ s.length := by
          rw [← hs]; exact length_dropWhile_le' _ _
        have hd : ((c :: t).dropWhile fun c => !e.isSpace c).length ≤ t.length := by
          rw [List.dropWhile_cons]
          simp only [hc, Bool.not_false, if_true]
          exact length_dropWhile_le' _ _
        simp only [List.length_cons] at hlen
        have : (c :: t).isEmpty = false := rfl
        simp only [this, Bool.false_eq_true, if_false]
        exact ih f2 _ _ (by omega) (by omega)

/-- leading whitespace disappears in the first step -/
theorem go_lpad (e : Env) (f : Nat) (l x : Str) (acc : List Str) (hl : allSpace e l = true) :
    pySplitWs.go e (f + 1) (l ++ x) acc = pySplitWs.go e (f + 1) x acc := by
  unfold pySplitWs.go
  simp only
  rw [dropWhile_append_all e.isSpace l x hl]

/-- a string of whitespace yields no further token -/
theorem go_allSpace (e : Env) (f : Nat) (r : Str) (acc : List Str) (hr : allSpace e r = true) :
    pySplitWs.go e f r acc = acc.reverse := by
  cases f with
  | zero => rfl
  | succ f =>
    unfold pySplitWs.go
    simp only
    rw [dropWhile_all e.isSpace r hr]
    rfl

/-- trailing whitespace does not change the result, for any fuel -/
theorem go_rpad (e : Env) (r : Str) (hr : allSpace e r = true) : ∀ (f : Nat) (s : Str) (acc : List Str),
    pySplitWs.go e f (s ++ r) acc = pySplitWs.go e f s acc := by
  intro f
  induction f with
  | zero => intro s acc; rfl
  | succ f ih =>
    intro s acc
    by_cases h : s.dropWhile e.isSpace = []
    · have hs : s.all e.isSpace = true := all_of_dropWhile_nil _ _ h
      rw [go_allSpace e _ (s ++ r) acc (all_append' _ _ _ hs hr), go_allSpace e _ s acc hs]
    · unfold pySplitWs.go
      simp only
      rw [dropWhile_append_ne_nil _ _ _ h]
      generalize s.dropWhile e.isSpace = s' at h
      have h1 : (s' ++ r).isEmpty = false := by
        cases s' with
        | nil => exact absurd rfl h
        | cons => rfl
      have h2 : s'.isEmpty = false := by
        cases s' with
        | nil => exact absurd rfl h
        | cons => rfl
      simp only [h1, h2, Bool.false_eq_true, if_false]
      by_cases hq : s'.dropWhile (fun c => !e.isSpace c) = []
      · have hall : ∀ a ∈ s', (fun c => !e.isSpace c) a = true := by
          have := all_of_dropWhile_nil _ _ hq
          simpa using this
        rw [List.dropWhile_append_of_pos hall, List.takeWhile_append_of_pos hall, hq,
          dropWhile_not_of_all _ _ hr, takeWhile_not_of_all _ _ hr, List.append_nil,
          takeWhile_of_forall _ _ hall, go_allSpace e f r _ hr, go_allSpace e f [] _ rfl]
      · rw [dropWhile_append_ne_nil _ _ _ hq, takeWhile_append_ne_nil _ _ _ hq]
        exact ih _ _

theorem pySplitWs_pad (e : Env) (l s r : Str) (hl : allSpace e l = true) (hr : allSpace e r = true) :
    pySplitWs e (l ++ s ++ r) = pySplitWs e s := by
  unfold pySplitWs
  rw [List.append_assoc, go_lpad e _ l (s ++ r) [] hl, go_rpad e r hr]
  exact go_fuel e _ _ s [] (by simp only [List.length_append]; omega) (by omega)

/-! ### non-vacuity -/

example : allSpace Env.ascii [' ', '\t', '\n'] = true := by decide
example : Env.ascii.strip [' ', '4', '2', '\n'] = ['4', '2'] := by decide
example : Env.ascii.pyInt [' ', '4', '2', '\n'] = some 42 := by decide
example : Env.ascii.pyInt ['4', '2'] = some 42 := by decide
example : Env.ascii.pyInt ['\t', '-', '7', ' '] = some (-7) := by decide
example : pySplitWs Env.ascii [' ', 'a', 'b', ' ', ' ', 'c', '\n'] = [['a', 'b'], ['c']] := by decide
example : strips (.prim .int) = true ∧ strips (.prim .bool) = true ∧ strips (.prim .qname) = true
    ∧ strips (.prim .str) = false ∧ strips .obj = false := by decide

/-- an instance of `deOne_pad_space` with concrete padding (FS is `str.isspace`), for every
environment whose `py` component is `Env.ascii` -/
example (e : BEnv) (he : e.py = Env.ascii) (n : NsMap) :
    deOne e ([' ', Char.ofNat 0x1c] ++ ['1'] ++ ['\n']) (.prim .bool) n = some (.bool true) := by
  rw [deOne_pad_space e _ _ _ _ n rfl (by rw [he]; decide) (by rw [he]; decide)]
  simp only [deOne, he]
  decide

/-- XML white space is blank in every `Env`, so the padding hypotheses of the `int` lemmas are
satisfiable for every `Env` -/
example (e : Env) : allBlank e [' ', '\t', '\n', '\r'] = true := allBlank_of_xmlWs e _ (by decide)
example (e : Env) : allSpace e [' ', '\t', '\n', '\r'] = true :=
  allBlank_allSpace e _ (allBlank_of_xmlWs e _ (by decide))

/-- FS is `str.isspace` but not blank for `int()` -/
example : allSpace Env.ascii [Char.ofNat 0x1c] = true ∧ allBlank Env.ascii [Char.ofNat 0x1c] = false := by decide
example : Env.ascii.pyInt [Char.ofNat 0x1c, '1'] = none ∧ Env.ascii.pyInt [' ', '1'] = some 1 := by decide

/-- without `strips` the statement is false: `str` keeps the padding -/
example (e : BEnv) (n : NsMap) :
    deOne e ([' '] ++ ['a'] ++ [' ']) (.prim .str) n ≠ deOne e ['a'] (.prim .str) n := by
  simp [deOne]

end Proofs.C09
