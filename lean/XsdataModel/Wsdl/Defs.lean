/-
C17 — record model of `xsdata/models/wsdl.py` `Definitions` (what the
`DefinitionsParser` hands to the mapper) and of the codegen `Class`/`Attr`
objects `DefinitionsMapper` builds from it, plus the Python helpers the mapper
uses (`text.split/suffix`, `namespaces.build_qname/split_qname/local_name`,
dict get/set/update on association lists in insertion order).

Modelling decisions
* a Python `dict` is an association list in insertion order; `aset` replaces
  the value of an existing key in place and appends a new key (`d[k] = v`);
* `ns_map` keys are `Option Str` (`None` = default namespace);
* `location` of every WSDL element is a string (the parser sets it on every
  `WsdlElement`; the mapper `assert`s it);
* names (`name=` attributes, QNames of extension elements) are non-empty
  strings: `split_qname("")` would raise `IndexError` in the code and is
  modelled as `(None, "")`.
-/
import XsdataModel.Names.Text
import XsdataModel.Codegen.Basic
import XsdataModel.Tables

open Lean in
/-- `ws!"abc"` = `['a','b','c']` -/
macro:max "ws!" s:str : term => do
  let elems := s.getString.toList.map fun c => Syntax.mkCharLit c
  `(([$(elems.toArray),*] : List Char))

namespace Xs.Wsdl
open Py

/-! ## dicts -/

/-- `d.get(k)` -/
def aget {κ β} [BEq κ] (d : List (κ × β)) (k : κ) : Option β := d.lookup k

/-- `k in d` -/
def ahas {κ β} [BEq κ] (d : List (κ × β)) (k : κ) : Bool := (aget d k).isSome

/-- `d[k] = v` -/
def aset {κ β} [BEq κ] : List (κ × β) → κ → β → List (κ × β)
  | [], k, v => [(k, v)]
  | (k', v') :: rest, k, v => if k == k' then (k', v) :: rest else (k', v') :: aset rest k v

/-- `d.update(other)` -/
def aupdate {κ β} [BEq κ] (d other : List (κ × β)) : List (κ × β) :=
  other.foldl (fun acc kv => aset acc kv.1 kv.2) d

abbrev NsMap := List (Option Str × Str)
abbrev Dict := List (Str × Str)

/-! ## errors the mapper can end with -/

inductive Err
  | codegenError    -- find_or_die: "Unknown WSDL Type"
  | runtimeError    -- StopIteration inside a generator (output without soap:body)
  | attributeError  -- port type operation without the input/output the binding has
  | valueError      -- build_qname with neither namespace nor name
  deriving DecidableEq, Repr

def Err.name : Err → Str
  | .codegenError => ws!"CodegenError"
  | .runtimeError => ws!"RuntimeError"
  | .attributeError => ws!"AttributeError"
  | .valueError => ws!"ValueError"

/-! ## xsdata.utils.text / namespaces -/

/-- `text.split(value)` (separator ":") -/
def splitColon (v : Str) : Option Str × Str := Xs.Text.splitOnce v ':'

/-- `text.suffix(value)` -/
def suffix (v : Str) : Str := (splitColon v).2

/-- `namespaces.build_qname(uri, tag)` -/
def buildQName (uri : Option Str) (tag : Str) : Except Err Str :=
  match uri with
  | some u =>
    if u.isEmpty then (if tag.isEmpty then .error .valueError else .ok tag)
    else if tag.isEmpty then .ok u else .ok (ws!"{" ++ u ++ ws!"}" ++ tag)
  | none => if tag.isEmpty then .error .valueError else .ok tag

/-- `namespaces.split_qname(qname)` -/
def splitQName (q : Str) : Option Str × Str :=
  match q with
  | '{' :: rest =>
    match Xs.Text.splitOnce rest '}' with
    | (some l, r) => if l.isEmpty then (none, q) else (some l, r)
    | (none, _) => (none, q)
  | _ => (none, q)

/-- `namespaces.local_name(qname)` -/
def localName (q : Str) : Str := (splitQName q).2

/-- `namespaces.target_uri(qname)` -/
def targetUri (q : Str) : Option Str := (splitQName q).1

/-- `value.split()` (white space; ASCII part of `str.isspace`) -/
def wsSplitGo : Str → Str → List Str
  | cur, [] => if cur.isEmpty then [] else [cur]
  | cur, c :: cs =>
    if isAsciiSpace c then (if cur.isEmpty then wsSplitGo [] cs else cur :: wsSplitGo [] cs)
    else wsSplitGo (cur ++ [c]) cs

def wsSplit (s : Str) : List Str := wsSplitGo [] s

/-- `name.split("_")[-1]` -/
def lastSeg (s : Str) : Str := (splitOn '_' s).getLastD []

/-! ## WSDL records -/

/-- `AnyElement` kept in `extended`: qualified name and attributes -/
structure Ext where
  qname : Str
  attrs : Dict
  deriving Repr, DecidableEq

structure Part where
  name : Str
  type : Option Str
  element : Option Str
  nsMap : NsMap
  deriving Repr, DecidableEq

structure Message where
  name : Str
  parts : List Part
  nsMap : NsMap
  deriving Repr, DecidableEq

structure PtMessage where
  message : Str
  nsMap : NsMap
  location : Str
  deriving Repr, DecidableEq

structure PtOperation where
  name : Str
  input : Option PtMessage
  output : Option PtMessage
  faults : List PtMessage
  deriving Repr, DecidableEq

structure PortType where
  name : Str
  operations : List PtOperation
  deriving Repr, DecidableEq

structure BMessage where
  ext : List Ext
  nsMap : NsMap
  location : Str
  deriving Repr, DecidableEq

structure BOperation where
  name : Str
  ext : List Ext
  input : Option BMessage
  output : Option BMessage
  nsMap : NsMap
  location : Str
  deriving Repr, DecidableEq

structure Binding where
  name : Str
  type : Str
  ext : List Ext
  operations : List BOperation
  deriving Repr, DecidableEq

structure Port where
  name : Str
  binding : Str
  ext : List Ext
  deriving Repr, DecidableEq

structure Service where
  ports : List Port
  deriving Repr, DecidableEq

structure Definitions where
  targetNamespace : Option Str
  messages : List Message
  portTypes : List PortType
  bindings : List Binding
  services : List Service
  deriving Repr, DecidableEq

/-- `find_or_die` -/
def findMessage (d : Definitions) (name : Str) : Except Err Message :=
  match d.messages.find? (·.name == name) with
  | some m => .ok m
  | none => .error .codegenError

def findBinding (d : Definitions) (name : Str) : Except Err Binding :=
  match d.bindings.find? (·.name == name) with
  | some m => .ok m
  | none => .error .codegenError

def findPortType (d : Definitions) (name : Str) : Except Err PortType :=
  match d.portTypes.find? (·.name == name) with
  | some m => .ok m
  | none => .error .codegenError

def findOperation (p : PortType) (name : Str) : Except Err PtOperation :=
  match p.operations.find? (·.name == name) with
  | some m => .ok m
  | none => .error .codegenError

/-! ## codegen classes -/

/-- `Attr` with its single `AttrType` and the two occurrence restrictions -/
structure AttrM where
  name : Str
  ns : Option Str
  default : Option Str
  type : Str
  forward : Bool
  native : Bool
  /-- qname of the class `AttrType.reference` points to -/
  ref : Option Str
  min : Option Nat
  max : Option Nat
  deriving Repr, DecidableEq

/-- `Class` -/
inductive Cls
  | mk (qname : Str) (metaName : Option Str) (tag : Str) (status : Nat) (ns : Option Str)
       (location : Str) (nsMap : NsMap) (attrs : List AttrM) (inner : List Cls)
  deriving Repr

namespace Cls
def qname : Cls → Str | mk q _ _ _ _ _ _ _ _ => q
def metaName : Cls → Option Str | mk _ m _ _ _ _ _ _ _ => m
def tag : Cls → Str | mk _ _ t _ _ _ _ _ _ => t
def status : Cls → Nat | mk _ _ _ s _ _ _ _ _ => s
def ns : Cls → Option Str | mk _ _ _ _ n _ _ _ _ => n
def location : Cls → Str | mk _ _ _ _ _ l _ _ _ => l
def nsMap : Cls → NsMap | mk _ _ _ _ _ _ m _ _ => m
def attrs : Cls → List AttrM | mk _ _ _ _ _ _ _ a _ => a
def inner : Cls → List Cls | mk _ _ _ _ _ _ _ _ i => i
/-- `Class.name` -/
def name (c : Cls) : Str := localName c.qname
/-- `Class.target_namespace` -/
def targetNamespace (c : Cls) : Option Str := targetUri c.qname
def setAttrs : Cls → List AttrM → Cls | mk q m t s n l ns _ i, a => mk q m t s n l ns a i
def setInner : Cls → List Cls → Cls | mk q m t s n l ns a _, i => mk q m t s n l ns a i
def setNsMap : Cls → NsMap → Cls | mk q m t s n l _ a i, ns => mk q m t s n l ns a i
end Cls

end Xs.Wsdl
