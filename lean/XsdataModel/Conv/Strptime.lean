/-
L1 — `datetime.strptime(value, fmt)` / `value.strftime(fmt)` as used by
`DateTimeBase.parse/serialize`, `TimeConverter`, `DateConverter`,
`DateTimeConverter` (xsdata/formats/converter.py), for format strings built from
the numeric directives `%Y %m %d %H %M %S %f`, `%%`, literal characters and
white space.  Other (valid) directives are `unsupported` by the model.

`_strptime` turns the format into a regular expression (special characters
escaped, white-space runs → `\s+`, directives → named groups, IGNORECASE),
takes the *first* match in backtracking order and then demands that it consumed
the whole string.  The matcher below enumerates matches in that order.
`strftime` is glibc's, whose `%Y` is not zero padded; `DateTimeBase.serialize` substitutes the
four-digit year for `%Y` itself when the year is below 1000, so `%Y` is modelled as zero padded.
-/
import XsdataModel.Conv.Basic
import XsdataModel.Lex.Dates

namespace Xs.Conv
open Py Xs.Dates

/-- a compiled format item -/
inductive FItem
  | lit (c : Char)
  | ws
  | dir (d : Char)
deriving DecidableEq, Repr

inductive FmtErr | bad | unsupported
deriving DecidableEq, Repr

/-- directives of `_strptime.TimeRE` that this model does not cover -/
def otherDirectives : Str :=
  ['a', 'A', 'b', 'B', 'c', 'G', 'I', 'j', 'p', 'U', 'u', 'V', 'w', 'W', 'x', 'X', 'y', 'z', 'Z']

def numDirectives : Str := ['Y', 'm', 'd', 'H', 'M', 'S', 'f']

/-- characters `TimeRE.pattern` escapes before looking for directives -/
def regexSpecial : Str := ['\\', '.', '^', '$', '*', '+', '?', '(', ')', '{', '}', '[', ']', '|']

/-- `TimeRE.pattern(format)`: items of the format; `prevWs` = the previous item is `ws` -/
def compileFmt (e : Env) : Str → Bool → Except FmtErr (List FItem)
  | [], _ => .ok []
  | '%' :: d :: rest, _ =>
    if d = '%' then (compileFmt e rest false).map (.lit '%' :: ·)
    else if numDirectives.contains d then (compileFmt e rest false).map (.dir d :: ·)
    else if otherDirectives.contains d then .error .unsupported
    else .error .bad
  | ['%'], _ => .error .bad
  | c :: rest, prevWs =>
    if e.isSpace c then
      (if prevWs then compileFmt e rest true else (compileFmt e rest true).map (.ws :: ·))
    else (compileFmt e rest false).map (.lit c :: ·)

/-- a directive may occur once (named groups) -/
def dirsNodup (items : List FItem) : Bool :=
  let ds := items.filterMap (fun i => match i with | .dir d => some d | _ => none)
  ds.eraseDups.length = ds.length

/-- character classes the directive regexes distinguish -/
inductive CC
  | ad (v : Nat)   -- ASCII digit
  | ud             -- other Unicode decimal digit (`\d` only)
  | sp             -- a blank (`%d` accepts `' 5'`)
  | other
deriving DecidableEq, Repr

def charClass (e : Env) (c : Char) : CC :=
  if isAsciiDigit c then .ad (c.toNat - 48)
  else if (e.decVal c).isSome then .ud
  else if c = ' ' then .sp
  else .other

def CC.isD : CC → Bool
  | .ad _ => true
  | .ud => true
  | _ => false

def CC.adIn (lo hi : Nat) : CC → Bool
  | .ad v => lo ≤ v && v ≤ hi
  | _ => false

def oIs (p : CC → Bool) : Option CC → Bool
  | some x => p x
  | none => false

/-- lengths, in the regex's alternation order, that a two-digit directive can
consume given the classes of the next two characters -/
def dirLens2 (d : Char) (a b : Option CC) : List Nat :=
  let alt (k : Nat) (ok : Bool) : List Nat := if ok then [k] else []
  if d = 'd' then
    alt 2 (oIs (CC.adIn 3 3) a && oIs (CC.adIn 0 1) b) ++ alt 2 (oIs (CC.adIn 1 2) a && oIs CC.isD b) ++
    alt 2 (oIs (CC.adIn 0 0) a && oIs (CC.adIn 1 9) b) ++ alt 1 (oIs (CC.adIn 1 9) a) ++
    alt 2 (oIs (· = .sp) a && oIs (CC.adIn 1 9) b)
  else if d = 'm' then
    alt 2 (oIs (CC.adIn 1 1) a && oIs (CC.adIn 0 2) b) ++ alt 2 (oIs (CC.adIn 0 0) a && oIs (CC.adIn 1 9) b) ++
    alt 1 (oIs (CC.adIn 1 9) a)
  else if d = 'H' then
    alt 2 (oIs (CC.adIn 2 2) a && oIs (CC.adIn 0 3) b) ++ alt 2 (oIs (CC.adIn 0 1) a && oIs CC.isD b) ++
    alt 1 (oIs CC.isD a)
  else if d = 'M' then
    alt 2 (oIs (CC.adIn 0 5) a && oIs CC.isD b) ++ alt 1 (oIs CC.isD a)
  else if d = 'S' then
    alt 2 (oIs (CC.adIn 6 6) a && oIs (CC.adIn 0 1) b) ++ alt 2 (oIs (CC.adIn 0 5) a && oIs CC.isD b) ++
    alt 1 (oIs CC.isD a)
  else []

/-- `k, k-1, …, 1` -/
def countDown : Nat → List Nat
  | 0 => []
  | k + 1 => (k + 1) :: countDown k

/-- lengths directive `d` can consume at the start of `s`, in backtracking order -/
def dirLens (e : Env) (d : Char) (s : Str) : List Nat :=
  if d = 'Y' then
    (if s.length ≥ 4 && (s.take 4).all (fun c => (charClass e c).isD) then [4] else [])
  else if d = 'f' then
    countDown (min 6 (s.takeWhile isAsciiDigit).length)
  else dirLens2 d (s[0]?.map (charClass e)) (s[1]?.map (charClass e))

/-- fields found so far -/
structure TmF where
  year : Option Int := none
  month : Option Int := none
  day : Option Int := none
  hour : Option Int := none
  minute : Option Int := none
  second : Option Int := none
  frac : Option Int := none
deriving DecidableEq, Repr

def TmF.set (f : TmF) (e : Env) (d : Char) (txt : Str) : TmF :=
  let v := pyIntC e txt
  if d = 'Y' then { f with year := v }
  else if d = 'm' then { f with month := v }
  else if d = 'd' then { f with day := v }
  else if d = 'H' then { f with hour := v }
  else if d = 'M' then { f with minute := v }
  else if d = 'S' then { f with second := v }
  else { f with frac := pyIntC e (ljust txt 6 '0') }

/-- literal characters match case-insensitively (ASCII letters; the harness keeps
letters with special Unicode case folding — `K`, `S` — out of formats) -/
def litEq (f c : Char) : Bool :=
  f = c || (isAsciiAlpha f && isAsciiAlpha c && upperAscii f = upperAscii c)

/-- all matches of the items at the start of `s`, in backtracking order:
(fields, unconsumed rest) -/
def matchItems (e : Env) : List FItem → Str → TmF → List (TmF × Str)
  | [], s, f => [(f, s)]
  | .lit c :: is, s, f =>
    match s with
    | x :: xs => if litEq c x then matchItems e is xs f else []
    | [] => []
  | .ws :: is, s, f =>
    (countDown (s.takeWhile e.isSpace).length).flatMap (fun k => matchItems e is (s.drop k) f)
  | .dir d :: is, s, f =>
    (dirLens e d s).flatMap (fun k => matchItems e is (s.drop k) (f.set e d (s.take k)))

/-- a naive `datetime.datetime` -/
structure PyDT where
  year : Int
  month : Int
  day : Int
  hour : Int
  minute : Int
  second : Int
  micro : Int
deriving DecidableEq, Repr

inductive PR (α : Type)
  | ok (v : α)
  | err            -- ValueError / re.error → ConverterError
  | unsupported    -- outside the model

/-- `datetime.strptime(s, fmt)` -/
def strptime (e : Env) (s fmt : Str) : PR PyDT :=
  match compileFmt e fmt false with
  | .error .unsupported => .unsupported
  | .error .bad => .err
  | .ok items =>
    if !dirsNodup items then .err else
    match matchItems e items s {} with
    | [] => .err
    | (f, rest) :: _ =>
      if !rest.isEmpty then .err else
      let year := f.year.getD 1900
      let month := f.month.getD 1
      let day := f.day.getD 1
      let second := f.second.getD 0
      if year < 1 || second > 59 || !validateDate year month day then .err
      else .ok ⟨year, month, day, f.hour.getD 0, f.minute.getD 0, second, f.frac.getD 0⟩

/-- `value.strftime(fmt)` for the supported directives -/
def strftime (v : PyDT) : Str → PR Str
  | [] => .ok []
  | '%' :: d :: rest =>
    let field : Option Str :=
      if d = '%' then some ['%']
      else if d = 'Y' then some (zpadInt v.year 4)   -- `DateTimeBase.serialize` pads years below 1000 itself
      else if d = 'm' then some (zpadInt v.month 2)
      else if d = 'd' then some (zpadInt v.day 2)
      else if d = 'H' then some (zpadInt v.hour 2)
      else if d = 'M' then some (zpadInt v.minute 2)
      else if d = 'S' then some (zpadInt v.second 2)
      else if d = 'f' then some (zpadInt v.micro 6)
      else none
    match field, strftime v rest with
    | some t, .ok r => .ok (t ++ r)
    | some _, x => x
    | none, _ => .unsupported
  | ['%'] => .unsupported
  | c :: rest =>
    match strftime v rest with
    | .ok r => .ok (c :: r)
    | x => x

end Xs.Conv
