"""C15 — fault generators and real-code adapters (byte level, tree level, JSON level).

Everything derives from the `rng` handed in by the framework.  Byte strings travel in the
args dicts as hex (`"hex"`), so that every case is a plain JSON document and replayable.
"""
from __future__ import annotations

import codecs
import copy
import json
import logging
import re
import signal
import time
import warnings

import bindgen as G
import bindlib as B

logging.getLogger("xsdata").setLevel(logging.CRITICAL)  # "Unassigned parsed object" noise
logging.disable(logging.WARNING)

XSI = "http://www.w3.org/2001/XMLSchema-instance"
EMPTY_CTX = {"classes": [], "xsi_index": [], "datatypes": []}


# ----------------------------------------------------------------------------- time cap
class Hang(BaseException):
    """raised by the alarm: the call did not come back within the cap"""


class time_cap:
    def __init__(self, seconds: float):
        self.seconds = seconds

    def _fire(self, *_):
        raise Hang()

    def __enter__(self):
        try:
            self.old = signal.signal(signal.SIGALRM, self._fire)
            signal.setitimer(signal.ITIMER_REAL, self.seconds)
            self.armed = True
        except ValueError:  # not in the main thread
            self.armed = False
        self.t0 = time.time()
        return self

    def __exit__(self, *exc):
        if self.armed:
            signal.setitimer(signal.ITIMER_REAL, 0)
            signal.signal(signal.SIGALRM, self.old)
        self.elapsed = time.time() - self.t0
        return False


CAP_S = 5.0


# ----------------------------------------------------------------------------- tree-level faults
MY_TREE_KINDS = [
    "wrong_root", "xsi_type_weird", "nest_in_leaf", "drop_ns", "qname_text", "deep_unknown", "empty_root",
    "nil_everywhere", "swap_subtrees", "dup_root_child_all", "text_into_parent", "strip_text", "tails_everywhere",
]
XSI_WEIRD = ["zz:T", ":", "xs:", " ", "{}x", "{urn:a}", "a:b:c", "xs:string", "xs:int", "xs:boolean", "xs:QName", "xs:date",
             "xs:anyType", "Leaf0", "Leaf1", "Mid0", "Root", "Leaf0Ext", "{urn:a}Leaf0", "{urn:b}Root", "leaf0-el", " Leaf0 ", "x y"]


def my_mutate_tree(rng, t, kind):
    t = copy.deepcopy(t)
    paths = list(G.tree_paths(t))
    path, node = rng.choice(paths)

    def set_attr(n, k, v):
        for kv in n["a"]:
            if kv[0] == k:
                kv[1] = v
                return
        n["a"].append([k, v])

    if kind == "wrong_root":
        names = [n["q"] for _, n in paths[1:]] + ["Other", "{urn:zz}" + t["q"].split("}")[-1], t["q"].split("}")[-1], "root"]
        t["q"] = rng.choice(names)
    elif kind == "xsi_type_weird":
        v = rng.choice(XSI_WEIRD)
        set_attr(node, "{%s}type" % XSI, v)
        if v.startswith("xs:") and rng.random() < 0.7:
            node["ns"] = [kv for kv in node["ns"] if kv[0] != "xs"] + [["xs", "http://www.w3.org/2001/XMLSchema"]]
    elif kind == "nest_in_leaf":
        leaves = [n for _, n in paths if not n["c"]]
        n = rng.choice(leaves)
        n["c"].append(copy.deepcopy(rng.choice(G.UNKNOWN_SUBTREES + [{"q": n["q"], "a": [], "ns": list(n["ns"]), "t": "1", "c": [], "tl": None}])))
    elif kind == "drop_ns":
        for _, n in paths:
            n["ns"] = []
    elif kind == "qname_text":
        leaves = [n for _, n in paths if not n["c"]]
        rng.choice(leaves)["t"] = rng.choice(["zz:name", ":", "a:", ":b", "{urn:q}n1", "{}n", "{urn:q}", "n 1", "xs:n1"])
    elif kind == "deep_unknown":
        sub = {"q": "dd", "a": [], "ns": [], "t": "x", "c": [], "tl": None}
        for i in range(rng.choice([5, 40])):
            sub = {"q": "d%d" % (i % 3), "a": [], "ns": [], "t": None, "c": [sub], "tl": " "}
        node["c"].insert(rng.randint(0, len(node["c"])), sub)
    elif kind == "empty_root":
        t["c"], t["a"], t["t"] = [], [], rng.choice([None, "", " ", "text"])
    elif kind == "nil_everywhere":
        v = rng.choice(["true", "false"])
        for _, n in paths:
            if rng.random() < 0.6:
                set_attr(n, "{%s}nil" % XSI, v)
    elif kind == "swap_subtrees" and len(paths) > 2:
        (p1, n1), (p2, n2) = rng.sample(paths[1:], 2)
        a, b = copy.deepcopy(n1), copy.deepcopy(n2)
        n1.clear(), n1.update(b)
        n2.clear(), n2.update(a)
    elif kind == "dup_root_child_all":
        t["c"] = [copy.deepcopy(c) for c in t["c"] for _ in (0, 1)]
    elif kind == "text_into_parent":
        for _, n in paths:
            if n["c"]:
                n["t"] = rng.choice(["stray", " x ", "0"])
                for c in n["c"]:
                    if rng.random() < 0.5:
                        c["tl"] = rng.choice(["tail", "1"])
    elif kind == "tails_everywhere":
        for p, n in paths:
            if p:
                n["tl"] = rng.choice(["tail", "t", "0"])
    elif kind == "strip_text":
        for _, n in paths:
            if not n["c"] and rng.random() < 0.6:
                n["t"] = rng.choice([None, ""])
    return kind, t


UNION_KINDS = ["u_attr", "u_text_only", "u_empty", "u_swap", "u_xsi_type", "u_nil", "u_extra_child", "u_drop_child", "u_corrupt_leaf",
               "u_tail", "u_dup"]


def union_fault_stream(rng, tree, union_qnames, per_kind=1):
    """faults aimed at the elements a UnionNode binds (their qnames are given): the content
    decides which candidate wins, so every way of changing it is tried on every such element"""
    base_paths = [p for p, n in G.tree_paths(tree) if n["q"] in union_qnames]
    if not base_paths:
        return
    def put(n, k, v):
        for kv in n["a"]:
            if kv[0] == k:
                kv[1] = v
                return
        n["a"].append([k, v])

    for _ in range(per_kind):
        for kind in UNION_KINDS:
            t = copy.deepcopy(tree)
            path = rng.choice(base_paths)
            node = G.tree_at(t, path)
            others = [G.tree_at(t, p) for p in base_paths if p != path]
            if kind == "u_attr":
                put(node, rng.choice(["zzz", "{urn:a}zz", "id"]), rng.choice(["v", "", "1"]))
            elif kind == "u_text_only":
                node["c"], node["t"] = [], rng.choice(["12", "true", "abc", "", " 7 ", "0", "false", None, "1.5", "x y"])
                if rng.random() < 0.6:
                    node["a"] = []
            elif kind == "u_empty":
                node["c"], node["t"], node["a"] = [], None, []
            elif kind == "u_swap" and others:
                o = rng.choice(others)
                node["c"], node["t"], node["a"] = copy.deepcopy(o["c"]), o["t"], copy.deepcopy(o["a"])
            elif kind == "u_xsi_type":
                put(node, "{%s}type" % XSI, rng.choice(["Leaf0", "Leaf1", "Mid0", "Root", "Leaf0Ext", "xs:int", "zz:T", "", "{urn:a}Leaf0"]))
            elif kind == "u_nil":
                put(node, "{%s}nil" % XSI, rng.choice(["true", "false"]))
            elif kind == "u_extra_child":
                node["c"].insert(rng.randint(0, len(node["c"])), copy.deepcopy(rng.choice(G.UNKNOWN_SUBTREES)))
            elif kind == "u_drop_child" and node["c"]:
                del node["c"][rng.randrange(len(node["c"]))]
            elif kind == "u_corrupt_leaf":
                leaves = [n for _, n in G.tree_paths(node) if not n["c"]]
                rng.choice(leaves)["t"] = rng.choice(["zzz", "", "12x", "truee", None, "1 2", "7"])
            elif kind == "u_tail" and path:
                node["tl"] = rng.choice(["tail", " ", "7"])
            elif kind == "u_dup" and path:
                parent = G.tree_at(t, path[:-1])
                parent["c"].insert(path[-1], copy.deepcopy(node))
            else:
                continue
            yield kind, t


def tree_fault_stream(rng, tree, per_kind=1):
    """every fault kind (the shared ones of bindgen.mutate_tree and the ones above) on one document"""
    shared = ["inject", "inject_known", "unknown_attr", "xsi_attr", "delete", "duplicate", "retag", "reorder", "corrupt_text",
              "corrupt_attr", "bad_xsi_type", "bad_xsi_nil", "drop_attr", "add_text", "add_tail", "ws"]
    for _ in range(per_kind):
        for k in shared:
            yield G.mutate_tree(rng, tree, k)
        for k in MY_TREE_KINDS:
            yield my_mutate_tree(rng, tree, k)


# ----------------------------------------------------------------------------- byte-level faults
def byte_fault_stream(rng, xml: bytes, tier: str):
    """(kind, bytes): single-point faults of a serialized document"""
    n = len(xml)
    # truncation at each offset (quick tier: every offset of short documents, a stride otherwise)
    step = 1 if (tier != "quick" or n <= 60) else max(1, n // 40)
    off = rng.randrange(step)
    for i in range(off, n, step):
        yield "trunc", xml[:i]
    # byte flips: random positions, and the markup characters one by one
    k = 25 if tier == "quick" else 200
    for _ in range(k):
        b = bytearray(xml)
        i = rng.randrange(n)
        b[i] = rng.choice([rng.randrange(256), b[i] ^ (1 << rng.randrange(8)), 0x3C, 0x3E, 0x26, 0x22, 0x00, 0x20, 0x2F, 0x3A])
        if bytes(b) != xml:
            yield "flip", bytes(b)
    markup = [i for i, c in enumerate(xml) if c in b"<>&\"'/=:;?"]
    for i in rng.sample(markup, min(len(markup), 12 if tier == "quick" else 80)):
        b = bytearray(xml)
        del b[i]
        yield "del_markup", bytes(b)
    for _ in range(6 if tier == "quick" else 40):
        i = rng.randrange(n + 1)
        ins = rng.choice([b"<", b"&", b">", b"\x00", b"<!--", b"]]>", b"&#0;", b"&#xD800;", b"&nope;", b"<a>", b"</a>", b"\xc3", b"\xff", b"<?x?>", b"&#65;"])
        yield "insert", xml[:i] + ins + xml[i:]
    for _ in range(4 if tier == "quick" else 20):
        i, j = sorted((rng.randrange(n + 1), rng.randrange(n + 1)))
        yield "del_range", xml[:i] + xml[j:]
        yield "dup_range", xml[:j] + xml[i:j] + xml[j:]
    # undeclared prefixes: rename or remove a namespace declaration
    for m in list(re.finditer(rb' xmlns:([A-Za-z0-9_]+)="[^"]*"', xml))[:3]:
        yield "undeclare", xml[: m.start()] + xml[m.end():]
        yield "redeclare", xml[: m.start(1)] + b"zz9" + xml[m.end(1):]
    # wrong root (textual, both tags)
    m = re.search(rb"<([A-Za-z_][\w.\-]*:)?([A-Za-z_][\w.\-]*)", xml[xml.find(b"?>") + 2 if xml.startswith(b"<?xml") else 0:])
    if m:
        name = m.group(2)
        yield "wrong_root", re.sub(rb"(</?(?:[\w.\-]+:)?)" + re.escape(name) + rb"(?=[\s>/])", rb"\1Other", xml)
        yield "mismatched_end", re.sub(rb"(</(?:[\w.\-]+:)?)" + re.escape(name) + rb">\s*$", rb"\1Other>", xml)
    # junk around the document
    yield "junk_after", xml + rng.choice([b"junk", b"<x/>", b"\x00", b"&amp;"])
    yield "junk_before", rng.choice([b"junk", b"\x00", b" ", b"\n"]) + xml
    yield "twice", xml + xml
    yield "empty", b""
    yield "bom", b"\xef\xbb\xbf" + xml
    # XML declaration / encoding
    body = xml[xml.find(b"?>") + 2:] if xml.startswith(b"<?xml") else xml
    for enc in rng.sample(ENCODINGS, 4 if tier == "quick" else len(ENCODINGS)):
        yield "encoding", b'<?xml version="1.0" encoding="' + enc.encode() + b'"?>' + body
    yield "version", b'<?xml version="' + rng.choice([b"1.1", b"2.0", b"", b"1"]) + b'" encoding="UTF-8"?>' + body
    # random byte strings
    for _ in range(4 if tier == "quick" else 30):
        yield "random", bytes(rng.randrange(256) for _ in range(rng.choice([1, 2, 5, 20, 200])))
    yield "random_ascii", bytes(rng.choice(b"<>/=\"' abAB:&;?!-[]") for _ in range(rng.randint(1, 30)))


ENCODINGS = ["UTF78", "utf-8", "UTF-8", "utf-7", "utf-32", "shift_jis", "hex", "rot13", "idna", "latin-1", "ISO-8859-1", "iso-8859-5",
             "cp1252", "us-ascii", "big5", "koi8-r", "punycode", "undefined", "x", "cp037", "utf_16_be", "UTF-16", "ucs-4", "ascii", "mbcs", "zlib"]
EXPAT_BUILTIN = {"UTF-8", "UTF-16", "UTF-16BE", "UTF-16LE", "ISO-8859-1", "US-ASCII"}
DECL = re.compile(
    rb"""^(?:\xef\xbb\xbf)?<\?xml[ \t\r\n]+version[ \t\r\n]*=[ \t\r\n]*(?:"1\.[0-9]+"|'1\.[0-9]+')"""
    rb"""[ \t\r\n]+encoding[ \t\r\n]*=[ \t\r\n]*(?:"([A-Za-z][A-Za-z0-9._\-]*)"|'([A-Za-z][A-Za-z0-9._\-]*)')"""
    rb"""(?:[ \t\r\n]+standalone[ \t\r\n]*=[ \t\r\n]*(?:"(?:yes|no)"|'(?:yes|no)'))?[ \t\r\n]*\?>"""
)


def declared_encoding(data: bytes):
    m = DECL.match(data)
    if not m:
        return None
    return (m.group(1) or m.group(2)).decode("ascii")


def pyexpat_unknown_encoding(enc: str):
    """What CPython's pyexpat does when expat meets a declared encoding it has no built-in
    table for (Modules/pyexpat.c, PyUnknownEncodingHandler): decode the 256 byte values with
    the Python codec of that name; an exception from the codec machinery escapes as it is, a
    result that is not 256 characters long is `ValueError`.  Returns the escaping exception
    type name, or None when expat goes on (or fails with its own ParseError)."""
    if enc.upper() in EXPAT_BUILTIN:
        return None
    try:
        s = bytes(range(256)).decode(enc, "replace")
    except Exception as e:  # noqa: BLE001
        return type(e).__name__
    if len(s) != 256:
        return "ValueError"
    return None


# libxml2 diagnostics that are not well-formedness errors of XML 1.0 + Namespaces
NOT_WF_ERRORS = {"WAR_NS_URI", "WAR_NS_URI_RELATIVE", "WAR_UNKNOWN_VERSION", "WAR_NS_COLUMN"}
# well-formedness errors that expat does not report (production [26] VersionNum): known finding
VERSION_ERRORS = {"ERR_UNKNOWN_VERSION", "ERR_VERSION_MISSING"}


def libxml2_reading(data: bytes, as_expat: bool = True):
    """the independent tokenizer: libxml2 (no network, no DTD loading).  Returns
    (tree | None, well_formed: bool, version_only: bool): `tree` is None when libxml2 reports a
    well-formedness error other than a bad version number; `well_formed` is the verdict by the
    letter of the spec; `version_only` tells that the only violation is the version number."""
    from lxml import etree

    version_only = False
    m = VERSION.match(data)
    if m and not re.fullmatch(rb"1\.[0-9]+", m.group(2)):
        # production [26] VersionNum is violated; expat does not look (known finding).  libxml2's
        # recovery after that error is lossy, so it reads the document with the number put right
        version_only = True
        data = data[: m.start(2)] + b"1.0" + data[m.end(2):]
    enc = declared_encoding(data)
    if as_expat and enc is not None and enc.upper() not in EXPAT_BUILTIN and pyexpat_unknown_encoding(enc) is None:
        # a single-byte Python codec that expat uses through pyexpat's table: hand libxml2 the
        # same characters as UTF-8
        # pyexpat hands expat a table byte -> character (U+FFFD = no such character)
        table = bytes(range(256)).decode(enc, "replace")
        if any(table[b] == "\ufffd" for b in data):
            return None, False, False
        m = DECL.match(data)
        span = m.span(1) if m.group(1) else m.span(2)
        head = data[: span[0]] + b"UTF-8" + data[span[1]: m.end()]
        data = head + "".join(table[b] for b in data[m.end():]).encode("utf-8")
    def read(d):
        p = etree.XMLParser(recover=True, resolve_entities=True, no_network=True, load_dtd=False, huge_tree=False)
        try:
            root = etree.fromstring(d, p)
        except (etree.XMLSyntaxError, ValueError):
            return None, {"EXCEPTION"}
        return root, {e.type_name for e in p.error_log if e.level_name in ("ERROR", "FATAL")} - NOT_WF_ERRORS

    root, bad = read(data)
    if root is None or bad:
        return None, False, False
    if as_expat and any("}" in (u or "") for el in root.iter() for u in el.nsmap.values()):
        # pyexpat asks expat to join namespace and local name with "}", and expat (>= 2.4.5)
        # refuses namespace names that contain the separator: a syntax error for this handler
        return None, True, False
    return _walk(root), not version_only, version_only


VERSION = re.compile(rb"""^(?:\xef\xbb\xbf)?<\?xml[ \t\r\n]+version[ \t\r\n]*=[ \t\r\n]*(["'])([A-Za-z0-9._\-]*)\1""")


def strict_tree(data: bytes):
    """Tree JSON of a document that is well-formed up to the version number, else None"""
    return libxml2_reading(data)[0]


def well_formed(data: bytes) -> bool:
    return libxml2_reading(data)[1]


def recovered_tree(data: bytes):
    """libxml2 in recovery mode without comments: what `LxmlEventHandler` asks for"""
    from lxml import etree

    try:
        root = etree.fromstring(data, etree.XMLParser(recover=True, remove_comments=True, no_network=True, load_dtd=False))
    except etree.XMLSyntaxError:
        return None
    if root is None:
        return None
    return _walk(root)


def _walk(el):
    """ElementTree-style infoset; character data after a comment or processing instruction
    belongs to the surrounding text (what a tree builder that skips comments/PIs produces)"""
    text = el.text
    kids = []
    for c in el:
        if isinstance(c.tag, str):
            kids.append(_walk(c))
        elif c.tail:
            if kids:
                kids[-1]["tl"] = (kids[-1]["tl"] or "") + c.tail
            else:
                text = (text or "") + c.tail
    return {"q": el.tag, "a": [[k, v] for k, v in el.attrib.items()], "ns": [[p, u] for p, u in el.nsmap.items()],
            "t": text, "c": kids, "tl": el.tail}


SURROGATE_REF = re.compile(rb"&#(?:x([0-9a-fA-F]+)|([0-9]+));")


def has_surrogate_charref(data: bytes) -> bool:
    """a numeric character reference to a surrogate code point (not a Char of XML 1.0)"""
    for m in SURROGATE_REF.finditer(data):
        try:
            cp = int(m.group(1), 16) if m.group(1) else int(m.group(2))
        except ValueError:
            continue
        if 0xD800 <= cp <= 0xDFFF:
            return True
    return False


def tokenizer_outcome(data: bytes):
    """the `tok` argument of op fault.document for the pure-Python handler, decided without xsdata"""
    enc = declared_encoding(data)
    if enc is not None:
        r = pyexpat_unknown_encoding(enc)
        if r is not None:
            return {"raised": r}
    t = strict_tree(data)
    if t is None:
        return "syntax"
    return {"tree": t}


# ----------------------------------------------------------------------------- lxml recovery mode only
LEAF_TEXT = re.compile(rb">([^<>]+)</")


def lxml_only_faults(rng, xml: bytes):
    """(kind, bytes, tok) for the tokenizer outcomes only libxml2's recovery mode has.
    `stopped`: the declaration says us-ascii and a byte >= 0x80 stands in the content of the root element —
    libxml2 raises a fatal encoding error there and delivers no further events (the root never ends).
    `text_decode`: a reference to a surrogate code point in character data — recovery lets it through and
    lxml cannot decode the text.  Both are decided here from the bytes, without xsdata."""
    body = xml[xml.find(b"?>") + 2:] if xml.startswith(b"<?xml") else xml
    spots = list(LEAF_TEXT.finditer(body))
    if not spots:
        return
    m = rng.choice(spots)
    for enc in (b"us-ascii", b"ASCII"):
        data = b'<?xml version="1.0" encoding="' + enc + b'"?>' + body[: m.start(1)] + "é名".encode() + body[m.start(1):]
        yield "ascii_stop", data, "stopped"
    for ref in (b"&#xD800;", b"&#57343;", b"&#xdbff;"):
        m = rng.choice(spots)
        yield "surrogate_text", body[: m.end(1)] + ref + body[m.end(1):], "text_decode"


# ----------------------------------------------------------------------------- xinclude
XI_NS = "http://www.w3.org/2001/XInclude"


def xinclude_split(rng, xml: bytes):
    """Cut one non-root element out of the document into a file of its own and leave an
    `xi:include` in its place.  Returns (main bytes, {file name: bytes}, path of the cut) or None."""
    from lxml import etree

    root = etree.fromstring(xml)
    els = [e for e in root.iter() if e is not root and isinstance(e.tag, str)]
    if not els:
        return None
    el = rng.choice(els)
    tail, el.tail = el.tail, None
    inc = etree.tostring(el)
    parent = el.getparent()
    ref = etree.Element("{%s}include" % XI_NS, nsmap={"xi": XI_NS})
    ref.set("href", "part.xml")
    ref.tail = tail
    parent.replace(el, ref)
    return etree.tostring(root), {"part.xml": inc}


def xinclude_fault_stream(rng, main: bytes, files: dict):
    """(kind, main, files, expected tokenizer outcome or None=take the expanded tree)"""
    part = files["part.xml"]
    yield "valid", main, files, None
    yield "bad_parse_attr", main.replace(b'href="part.xml"', b'href="part.xml" parse="zzz"'), files, "include"
    yield "no_href", main.replace(b' href="part.xml"', b""), files, "include"
    yield "self_loop", main.replace(b'href="part.xml"', b'href="main.xml"'), files, "include"
    cut = rng.randrange(1, max(2, len(part)))
    yield "part_truncated", main, {"part.xml": part[:cut]}, "syntax"
    yield "part_unknown_encoding", main, {"part.xml": b'<?xml version="1.0" encoding="UTF78"?>' + part}, {"raised": "LookupError"}
    yield "part_multibyte_encoding", main, {"part.xml": b'<?xml version="1.0" encoding="utf-7"?>' + part}, {"raised": "ValueError"}
    yield "main_multibyte_encoding", b'<?xml version="1.0" encoding="shift_jis"?>' + main, files, {"raised": "ValueError"}
    yield "part_garbage", main, {"part.xml": bytes(rng.randrange(256) for _ in range(12))}, "syntax"
    yield "main_truncated", main[: rng.randrange(1, len(main))], files, "syntax"
    yield "main_unknown_encoding", b'<?xml version="1.0" encoding="UTF78"?>' + main, files, {"raised": "LookupError"}
    yield "text_include", main.replace(b'href="part.xml"', b'href="part.xml" parse="text"'), files, None


def expanded_tree(main: bytes, files: dict):
    """the document after inclusion, by libxml2's own XInclude (independent of xsdata)"""
    import os
    import tempfile

    from lxml import etree

    d = tempfile.mkdtemp(prefix="c15xi")
    try:
        for k, v in files.items():
            open(os.path.join(d, k), "wb").write(v)
        mp = os.path.join(d, "main.xml")
        open(mp, "wb").write(main)
        try:
            tree = etree.parse(mp, etree.XMLParser(recover=False, no_network=True, load_dtd=False))
            tree.xinclude()
        except (etree.XMLSyntaxError, etree.XIncludeError, OSError):
            return None
        return _walk(tree.getroot())
    finally:
        import shutil

        shutil.rmtree(d, ignore_errors=True)


def real_xinclude(uni, clazz, main: bytes, files: dict, handler: str, config: dict):
    """XmlParser(config=process_xinclude).from_bytes on the real code, with the parts on disk"""
    import os
    import shutil
    import tempfile

    from xsdata.exceptions import ConverterWarning
    from xsdata.formats.dataclass.context import XmlContext
    from xsdata.formats.dataclass.parsers import XmlParser
    from xsdata.formats.dataclass.parsers.config import ParserConfig
    from xsdata.formats.dataclass.parsers.handlers import LxmlEventHandler, XmlEventHandler

    d = tempfile.mkdtemp(prefix="c15xi")
    try:
        for k, v in files.items():
            open(os.path.join(d, k), "wb").write(v)
        mp = os.path.join(d, "main.xml")
        open(mp, "wb").write(main)
        h = XmlEventHandler if handler == "native" else LxmlEventHandler
        p = XmlParser(context=XmlContext(models_package=uni.modname), handler=h,
                      config=ParserConfig(process_xinclude=True, base_url=mp, **config))
        try:
            with time_cap(CAP_S), warnings.catch_warnings(record=True) as w:
                warnings.simplefilter("always")
                obj = p.from_bytes(main, uni.classes[clazz])
        except Hang:
            return {"err": "HANG"}
        except BaseException as e:  # noqa: BLE001
            return B.classify_exc(e) if isinstance(e, Exception) else {"err": "LEAK:" + type(e).__name__}
        n = sum(1 for x in w if issubclass(x.category, ConverterWarning))
        return {"ok": {"value": uni.to_val(obj), "warnings": n}}
    finally:
        shutil.rmtree(d, ignore_errors=True)


# ----------------------------------------------------------------------------- real adapters
def real_xml_bytes(uni, clazz, data: bytes, handler: str, config: dict):
    """XmlParser.from_bytes on the real code under the time cap"""
    try:
        with time_cap(CAP_S):
            return G.real_parse_bytes(uni, clazz, data, handler=handler, config=config)
    except Hang:
        return {"err": "HANG"}
    except BaseException as e:  # noqa: BLE001  (SystemExit, RecursionError is an Exception, …)
        return {"err": "LEAK:" + type(e).__name__}


def real_json_bytes(uni, clazz, data: bytes, config: dict, list_of=False):
    from xsdata.formats.dataclass.context import XmlContext
    from xsdata.formats.dataclass.parsers import JsonParser
    from xsdata.formats.dataclass.parsers.config import ParserConfig

    cls = uni.classes[clazz]
    target = list[cls] if list_of else cls
    p = JsonParser(context=XmlContext(models_package=uni.modname), config=ParserConfig(**config))
    try:
        with time_cap(CAP_S), warnings.catch_warnings():
            warnings.simplefilter("ignore")
            obj = p.from_bytes(data, target)
    except Hang:
        return {"err": "HANG"}
    except BaseException as e:  # noqa: BLE001
        r = B.classify_exc(e) if isinstance(e, Exception) else {"err": "LEAK:" + type(e).__name__}
        r["msg"] = str(e)[:200]
        return r
    return {"ok": shape_of(obj, cls, list_of)}


def real_dict_decode(uni, clazz, data, config: dict, list_of=False):
    from xsdata.formats.dataclass.context import XmlContext
    from xsdata.formats.dataclass.parsers import DictDecoder
    from xsdata.formats.dataclass.parsers.config import ParserConfig

    cls = uni.classes[clazz]
    target = list[cls] if list_of else cls
    p = DictDecoder(context=XmlContext(models_package=uni.modname), config=ParserConfig(**config))
    try:
        with time_cap(CAP_S), warnings.catch_warnings():
            warnings.simplefilter("ignore")
            obj = p.decode(data, target)
    except Hang:
        return {"err": "HANG"}
    except BaseException as e:  # noqa: BLE001
        r = B.classify_exc(e) if isinstance(e, Exception) else {"err": "LEAK:" + type(e).__name__}
        r["msg"] = str(e)[:200]
        return r
    return {"ok": shape_of(obj, cls, list_of)}


def shape_of(obj, cls, list_of):
    """'instance' when the result is what was asked for: an instance of the class, a
    DerivedElement around one (the documented wrapper for xsi:type/derived documents) or a
    list of those; anything else is named"""
    from xsdata.formats.dataclass.models.generics import DerivedElement

    def one(o):
        if isinstance(o, DerivedElement):
            o = o.value
        return isinstance(o, cls)

    if list_of:
        return "instance" if isinstance(obj, list) and all(one(o) for o in obj) else "WRONGTYPE:" + type(obj).__name__
    return "instance" if one(obj) else "WRONGTYPE:" + type(obj).__name__


def real_json_serialize(uni, obj) -> str:
    from xsdata.formats.dataclass.context import XmlContext
    from xsdata.formats.dataclass.serializers import JsonSerializer

    return JsonSerializer(context=XmlContext(models_package=uni.modname)).render(obj)


def real_parse_tree_per_ns(uni, clazz, tree, config):
    """The real NodeParser on the real code, with ONE difference: the metadata cache of the
    context is keyed by (class, parent namespace) instead of by class.  XmlContext.build keeps
    the first metadata it built for a class whatever the parent namespace of later uses (the
    subject of C14); the Lean model looks metadata up per parent namespace.  A fault such as
    xsi:type="Root" deep inside a document makes a class appear under a second parent
    namespace, which the generators otherwise exclude."""
    from xsdata.exceptions import ConverterWarning
    from xsdata.formats.dataclass.context import XmlContext
    from xsdata.formats.dataclass.parsers.bases import NodeParser
    from xsdata.formats.dataclass.parsers.config import ParserConfig
    from xsdata.formats.dataclass.parsers.mixins import EventsHandler

    class PerNsContext(XmlContext):
        def build(self, clazz, parent_ns=None, globalns=None):
            key = (clazz, parent_ns)
            if key not in self.cache:
                self.cache[key] = self.get_builder(globalns).build(clazz, parent_ns)
            return self.cache[key]

    parser = NodeParser(context=PerNsContext(models_package=uni.modname), config=ParserConfig(**config), handler=EventsHandler)
    with warnings.catch_warnings(record=True) as w:
        warnings.simplefilter("always")
        try:
            obj = parser.parse(B.tree_events(tree), uni.classes[clazz])
        except Exception as e:  # noqa: BLE001
            return B.classify_exc(e)
    n = sum(1 for x in w if issubclass(x.category, ConverterWarning))
    return {"ok": {"value": uni.to_val(obj), "warnings": n}}


# ----------------------------------------------------------------------------- JSON faults
JSON_REPLACEMENTS = [
    None, 5, -1, "s", "", True, 1.5, [], {}, [1], [[1]], [None], {"a": 1}, [{}], {"": 1}, 10 ** 30,
    {"qname": "q", "type": None, "value": 1}, {"qname": "q", "type": "t", "value": {}}, {"qname": 1, "type": 2, "value": [1]},
    {"qname": "q", "type": None, "value": None},
    {"qname": "q", "text": "t", "tail": None, "children": [], "attributes": {}},
    {"qname": None, "text": None, "tail": None, "children": 5, "attributes": 7},
    "12x", "true", " 1 ", "zz:q", [1, "a", None], [[], {}],
    {"qname": "q", "type": [1], "value": {}}, {"qname": "q", "type": {"a": 1}, "value": {"a": 1}}, {"qname": "q", "type": "", "value": {}},
]


def json_paths(v, p=()):
    yield p, v
    if isinstance(v, dict):
        for k in v:
            yield from json_paths(v[k], p + (k,))
    elif isinstance(v, list):
        for i, x in enumerate(v):
            yield from json_paths(x, p + (i,))


def json_set(doc, p, new):
    if not p:
        return new
    d = doc
    for k in p[:-1]:
        d = d[k]
    d[p[-1]] = new
    return doc


def json_value_faults(rng, doc, tier):
    """(kind, value): single-point faults of a valid JSON document, as Python values"""
    paths = list(json_paths(doc))
    per_path = 6 if tier == "quick" else 14
    for p, v in paths:
        for rep in rng.sample(JSON_REPLACEMENTS, per_path):
            yield "replace", json_set(copy.deepcopy(doc), p, copy.deepcopy(rep))
        if isinstance(v, dict):
            d2 = copy.deepcopy(doc)
            tgt = d2
            for k in p:
                tgt = tgt[k]
            tgt[rng.choice(["zzz", "", "qname", "value"])] = rng.choice([1, None, {}, []])
            yield "add_key", d2
            for k in list(v)[:3]:
                d3 = copy.deepcopy(doc)
                tgt = d3
                for kk in p:
                    tgt = tgt[kk]
                val = tgt.pop(k)
                yield "drop_key", copy.deepcopy(d3)
                tgt[k + "x"] = val
                yield "rename_key", d3
        if isinstance(v, dict) and len(v) == 1 and p and isinstance(next(iter(v.values())), list):
            # a wrapper object {"wrap": {"name": [...]}}: hoist the list to the parent under its own name
            d4 = copy.deepcopy(doc)
            tgt = d4
            for kk in p[:-1]:
                tgt = tgt[kk]
            inner = tgt.pop(p[-1])
            if isinstance(tgt, dict):
                tgt.update(inner)
                yield "hoist_wrapped", d4
        if isinstance(v, list) and v:
            yield "wrap_list", json_set(copy.deepcopy(doc), p, [copy.deepcopy(v)]) if p else [copy.deepcopy(v)]
            yield "unwrap_list", json_set(copy.deepcopy(doc), p, copy.deepcopy(v[0])) if p else copy.deepcopy(v[0])
    yield "top_array", [copy.deepcopy(doc)]
    yield "top_array2", [copy.deepcopy(doc), 5]
    for s in (None, 5, "s", True, 1.5, [], [[]], [None], [5]):
        yield "top_scalar", s


def json_byte_faults(rng, js: bytes, tier):
    n = len(js)
    step = 1 if (tier != "quick" or n <= 40) else max(1, n // 25)
    for i in range(rng.randrange(step), n, step):
        yield "trunc", js[:i]
    for _ in range(20 if tier == "quick" else 200):
        b = bytearray(js)
        i = rng.randrange(n)
        b[i] = rng.choice([rng.randrange(256), b[i] ^ (1 << rng.randrange(8)), 0x22, 0x7B, 0x7D, 0x5B, 0x5D, 0x2C, 0x3A, 0x5C, 0x00])
        if bytes(b) != js:
            yield "flip", bytes(b)
    for _ in range(5 if tier == "quick" else 30):
        i = rng.randrange(n + 1)
        yield "insert", js[:i] + rng.choice([b"{", b"}", b"[", b"]", b",", b'"', b"\\", b"\xff", b"\x00", b"NaN", b"1e999", b"\\ud800", b"9" * 4400]) + js[i:]
    yield "empty", b""
    yield "bom", b"\xef\xbb\xbf" + js
    yield "utf16", js.decode().encode("utf-16")
    yield "twice", js + js
    yield "deep_array", b"[" * 100000 + b"]" * 100000
    yield "deep_object", b'{"a":' * 100000 + b"1" + b"}" * 100000
    yield "huge_int", b'{"a": ' + b"9" * 5000 + b"}"
    for _ in range(4 if tier == "quick" else 30):
        yield "random", bytes(rng.randrange(256) for _ in range(rng.choice([1, 2, 5, 20, 200])))
    yield "random_ascii", bytes(rng.choice(b'{}[]",: 01aenultrfs\\-.') for _ in range(rng.randint(1, 30)))
