/- Helper lemmas: `strptime(strftime(v, fmt), fmt)` for arbitrary formats made of the numeric
directives, `%%` and literal characters (no white space). -/
import XsdataModel.Proofs.StrptimeL

namespace Xs.Conv
open Py Xs.Spec Xs.Dates

/-- what `strftime` writes for a compiled item -/
def renderItem (v : PyDT) : FItem → Str
  | .lit c => [c]
  | .ws => []
  | .dir d =>
    if d = 'Y' then zpadInt v.year 4
    else if d = 'm' then zpadInt v.month 2
    else if d = 'd' then zpadInt v.day 2
    else if d = 'H' then zpadInt v.hour 2
    else if d = 'M' then zpadInt v.minute 2
    else if d = 'S' then zpadInt v.second 2
    else if d = 'f' then zpadInt v.micro 6
    else []

def render (v : PyDT) : List FItem → Str
  | [] => []
  | i :: is => renderItem v i ++ render v is

/-- an item of a format without white space -/
def ItemOk : FItem → Prop
  | .lit _ => True
  | .ws => False
  | .dir d => d ∈ numDirectives

theorem except_map_ok {ε α β} (x : Except ε α) (g : α → β) (y : β) (h : x.map g = .ok y) :
    ∃ a, x = .ok a ∧ y = g a := by
  cases x with
  | error _ => simp [Except.map] at h
  | ok a => simp [Except.map] at h; exact ⟨a, rfl, h.symm⟩

theorem compile_render (e : Env) (v : PyDT) : ∀ (n : Nat) (fmt : Str) (pw : Bool) (items : List FItem),
    fmt.length ≤ n → (∀ c ∈ fmt, e.isSpace c = false) → compileFmt e fmt pw = .ok items →
    strftime v fmt = .ok (render v items) ∧ ∀ i ∈ items, ItemOk i := by
  intro n
  induction n with
  | zero =>
    intro fmt pw items hl _ hc
    have : fmt = [] := List.eq_nil_of_length_eq_zero (by omega)
    subst this
    simp [compileFmt] at hc
    subst hc
    exact ⟨rfl, by intro i hi; cases hi⟩
  | succ n ih =>
    intro fmt pw items hl hsp hc
    cases fmt with
    | nil =>
      simp [compileFmt] at hc
      subst hc
      exact ⟨rfl, by intro i hi; cases hi⟩
    | cons c rest =>
      by_cases hpc : c = '%'
      · subst hpc
        cases rest with
        | nil => simp [compileFmt] at hc
        | cons d rest' =>
          have hsp' : ∀ c ∈ rest', e.isSpace c = false := fun c hc => hsp c (by simp [hc])
          have hl' : rest'.length ≤ n := by simp at hl; omega
          unfold compileFmt at hc
          by_cases h1 : d = '%'
          · simp only [h1, if_true] at hc
            obtain ⟨a, ha, rfl⟩ := except_map_ok _ _ _ hc
            obtain ⟨i1, i2⟩ := ih rest' false a hl' hsp' ha
            refine ⟨?_, ?_⟩
            · simp [strftime, h1, i1, render, renderItem]
            · intro i hi
              rcases List.mem_cons.mp hi with rfl | hi
              · trivial
              · exact i2 i hi
          · simp only [h1, if_false] at hc
            by_cases h2 : numDirectives.contains d = true
            · simp only [h2, if_true] at hc
              obtain ⟨a, ha, rfl⟩ := except_map_ok _ _ _ hc
              obtain ⟨i1, i2⟩ := ih rest' false a hl' hsp' ha
              have hmem : d ∈ numDirectives := by simpa using h2
              refine ⟨?_, ?_⟩
              · simp only [numDirectives, List.mem_cons, List.mem_nil_iff, or_false] at hmem
                rcases hmem with rfl | rfl | rfl | rfl | rfl | rfl | rfl <;>
                  simp [strftime, i1, render, renderItem]
              · intro i hi
                rcases List.mem_cons.mp hi with rfl | hi
                · exact hmem
                · exact i2 i hi
            · rw [if_neg h2] at hc
              split at hc <;> cases hc
      · have hns : e.isSpace c = false := hsp c (by simp)
        have hsp' : ∀ c ∈ rest, e.isSpace c = false := fun c hc => hsp c (by simp [hc])
        have hl' : rest.length ≤ n := by simp at hl; omega
        have hceq : compileFmt e (c :: rest) pw = (compileFmt e rest false).map (.lit c :: ·) := by
          conv => lhs; unfold compileFmt
          split <;> simp_all
        rw [hceq] at hc
        obtain ⟨a, ha, rfl⟩ := except_map_ok _ _ _ hc
        obtain ⟨i1, i2⟩ := ih rest false a hl' hsp' ha
        refine ⟨?_, ?_⟩
        · clear ih hc hceq
          conv => lhs; unfold strftime
          split <;> simp_all [render, renderItem]
        · intro i hi
          rcases List.mem_cons.mp hi with rfl | hi
          · trivial
          · exact i2 i hi

/-- a white-space run of the format (`\\s+`) takes the whole run of the input first, when what
follows is not white space -/
theorem firstMatch_ws (e : Env) (sp : Str) (hne : sp ≠ []) (hsp : ∀ c ∈ sp, e.isSpace c = true)
    (is : List FItem) (tail : Str) (f : TmF) (r : TmF × Str)
    (htail : ∀ c r', tail = c :: r' → e.isSpace c = false)
    (h : firstMatch e is tail f = some r) :
    firstMatch e (.ws :: is) (sp ++ tail) f = some r := by
  have htw : (sp ++ tail).takeWhile e.isSpace = sp := by
    rw [List.takeWhile_append_of_pos hsp]
    cases tail with
    | nil => simp
    | cons c r' => simp [List.takeWhile, htail c r' rfl]
  have hlen : 0 < sp.length := List.length_pos_iff.mpr hne
  obtain ⟨k, hk⟩ : ∃ k, sp.length = k + 1 := ⟨sp.length - 1, by omega⟩
  unfold firstMatch matchItems
  rw [htw, hk]
  show (((k + 1) :: countDown k).flatMap _).head? = _
  apply head_flatMap_cons
  have h1 : (sp ++ tail).drop (k + 1) = tail := by rw [← hk]; simp
  rw [h1]
  exact h

/-- the fields `strptime` collects along the first match -/
def setAll (e : Env) (v : PyDT) : TmF → List FItem → TmF
  | f, [] => f
  | f, .dir d :: is => setAll e v (f.set e d (renderItem v (.dir d))) is
  | f, _ :: is => setAll e v f is

theorem firstMatch_render (e : Env) (y m d h mi sec us : Nat) (hy : y ≤ 9999)
    (hm1 : 1 ≤ m) (hm2 : m ≤ 12) (hd1 : 1 ≤ d) (hd2 : d ≤ 31) (hh : h ≤ 23) (hmi : mi ≤ 59)
    (hs : sec ≤ 59) (hus : us < 1000000) :
    ∀ items, (∀ i ∈ items, ItemOk i) → ∀ (f : TmF) (tail : Str),
      firstMatch e items (render ⟨y, m, d, h, mi, sec, us⟩ items ++ tail) f =
        some (setAll e ⟨y, m, d, h, mi, sec, us⟩ f items, tail) := by
  intro items
  induction items with
  | nil => intro _ f tail; exact firstMatch_nil e tail f
  | cons i is ih =>
    intro hok f tail
    have hok' : ∀ i ∈ is, ItemOk i := fun i hi => hok i (by simp [hi])
    cases i with
    | lit c =>
      simp only [render, renderItem, List.cons_append, List.nil_append, setAll]
      rw [firstMatch_lit]
      exact ih hok' f tail
    | ws => exact absurd (hok .ws (by simp)) (by simp [ItemOk])
    | dir dd =>
      have hmem : dd ∈ numDirectives := hok (.dir dd) (by simp)
      simp only [numDirectives, List.mem_cons, List.mem_nil_iff, or_false] at hmem
      obtain ⟨hyl, hyd, _⟩ := zpad_spec y 4 (by omega) (by omega)
      obtain ⟨hul, hud, _⟩ := zpad_spec us 6 (by omega) (by omega)
      rcases hmem with rfl | rfl | rfl | rfl | rfl | rfl | rfl
      · simp only [render, List.append_assoc, setAll]
        have hr : renderItem ⟨y, m, d, h, mi, sec, us⟩ (.dir 'Y') = zpadInt (y : Int) 4 := rfl
        rw [hr]
        exact firstMatch_year e _ hyl hyd is _ f _ (ih hok' _ _)
      · simp only [render, List.append_assoc, setAll]
        have hr : renderItem ⟨y, m, d, h, mi, sec, us⟩ (.dir 'm') = two m := zpadInt_two m (by omega)
        rw [hr]
        exact firstMatch_two e 'm' (by decide) m (by omega) (by simp [twoOk]; omega) is _ f _ (ih hok' _ _)
      · simp only [render, List.append_assoc, setAll]
        have hr : renderItem ⟨y, m, d, h, mi, sec, us⟩ (.dir 'd') = two d := zpadInt_two d (by omega)
        rw [hr]
        exact firstMatch_two e 'd' (by decide) d (by omega) (by simp [twoOk]; omega) is _ f _ (ih hok' _ _)
      · simp only [render, List.append_assoc, setAll]
        have hr : renderItem ⟨y, m, d, h, mi, sec, us⟩ (.dir 'H') = two h := zpadInt_two h (by omega)
        rw [hr]
        exact firstMatch_two e 'H' (by decide) h (by omega) (by simp [twoOk]; omega) is _ f _ (ih hok' _ _)
      · simp only [render, List.append_assoc, setAll]
        have hr : renderItem ⟨y, m, d, h, mi, sec, us⟩ (.dir 'M') = two mi := zpadInt_two mi (by omega)
        rw [hr]
        exact firstMatch_two e 'M' (by decide) mi (by omega) (by simp [twoOk]; omega) is _ f _ (ih hok' _ _)
      · simp only [render, List.append_assoc, setAll]
        have hr : renderItem ⟨y, m, d, h, mi, sec, us⟩ (.dir 'S') = two sec := zpadInt_two sec (by omega)
        rw [hr]
        exact firstMatch_two e 'S' (by decide) sec (by omega) (by simp [twoOk]; omega) is _ f _ (ih hok' _ _)
      · simp only [render, List.append_assoc, setAll]
        have hr : renderItem ⟨y, m, d, h, mi, sec, us⟩ (.dir 'f') = zpadInt (us : Int) 6 := rfl
        rw [hr]
        exact firstMatch_frac e _ hul hud is _ f _ (ih hok' _ _)

theorem ljust_full (s : Str) (h : s.length = 6) : ljust s 6 '0' = s := by
  unfold ljust; simp [h]

/-- the fields collected: the written value for every directive of the format, untouched otherwise -/
theorem setAll_fields (e : Env) (y m d h mi sec us : Nat) (hy : y ≤ 9999)
    (hm2 : m ≤ 12) (hd2 : d ≤ 31) (hh : h ≤ 23) (hmi : mi ≤ 59) (hs : sec ≤ 59) (hus : us < 1000000) :
    ∀ items, (∀ i ∈ items, ItemOk i) → ∀ (f : TmF),
      (setAll e ⟨y, m, d, h, mi, sec, us⟩ f items).year = (if FItem.dir 'Y' ∈ items then some (y : Int) else f.year) ∧
      (setAll e ⟨y, m, d, h, mi, sec, us⟩ f items).month = (if FItem.dir 'm' ∈ items then some (m : Int) else f.month) ∧
      (setAll e ⟨y, m, d, h, mi, sec, us⟩ f items).day = (if FItem.dir 'd' ∈ items then some (d : Int) else f.day) ∧
      (setAll e ⟨y, m, d, h, mi, sec, us⟩ f items).hour = (if FItem.dir 'H' ∈ items then some (h : Int) else f.hour) ∧
      (setAll e ⟨y, m, d, h, mi, sec, us⟩ f items).minute = (if FItem.dir 'M' ∈ items then some (mi : Int) else f.minute) ∧
      (setAll e ⟨y, m, d, h, mi, sec, us⟩ f items).second = (if FItem.dir 'S' ∈ items then some (sec : Int) else f.second) ∧
      (setAll e ⟨y, m, d, h, mi, sec, us⟩ f items).frac = (if FItem.dir 'f' ∈ items then some (us : Int) else f.frac) := by
  intro items
  induction items with
  | nil => intro _ f; simp [setAll]
  | cons i is ih =>
    intro hok f
    have hok' : ∀ i ∈ is, ItemOk i := fun i hi => hok i (by simp [hi])
    cases i with
    | lit c => simpa [setAll] using ih hok' f
    | ws => exact absurd (hok .ws (by simp)) (by simp [ItemOk])
    | dir dd =>
      have hmem : dd ∈ numDirectives := hok (.dir dd) (by simp)
      simp only [numDirectives, List.mem_cons, List.mem_nil_iff, or_false] at hmem
      have hul := (zpad_spec us 6 (by omega) (by omega)).1
      have p4 := pyIntC_zpad e y 4 (by omega) (by omega)
      have p6 := pyIntC_zpad e us 6 (by omega) (by omega)
      have q1 := pyIntC_zpad e m 2 (by omega) (by omega)
      have q2 := pyIntC_zpad e d 2 (by omega) (by omega)
      have q3 := pyIntC_zpad e h 2 (by omega) (by omega)
      have q4 := pyIntC_zpad e mi 2 (by omega) (by omega)
      have q5 := pyIntC_zpad e sec 2 (by omega) (by omega)
      have lj := ljust_full _ hul
      have := ih hok' (TmF.set f e dd (renderItem ⟨y, m, d, h, mi, sec, us⟩ (.dir dd)))
      rcases hmem with rfl | rfl | rfl | rfl | rfl | rfl | rfl
      all_goals
        obtain ⟨t1, t2, t3, t4, t5, t6, t7⟩ := this
        simp only [setAll, t1, t2, t3, t4, t5, t6, t7]
        refine ⟨?_, ?_, ?_, ?_, ?_, ?_, ?_⟩ <;>
          simp [TmF.set, renderItem, p4, p6, q1, q2, q3, q4, q5, lj]

end Xs.Conv
