/-
L7 — cache-free specification of every `XmlContext` call (`pureOut`), the
(class, parent namespace) pairs a call requests (`opUses`) and the decidable
side conditions under which the shared context provably behaves like a fresh
one (`consistent`, `faithful`, `noEvict`, folded over a history by `histOK`).
-/
import XsdataModel.Ctx.Context

namespace Xs.Ctx
open Py

/-- the metadata of `c` depends on the parent namespace it is first built with:
the class has no `Meta.namespace` of its own -/
def nsSensitive (U : Universe) (c : ClassId) : Bool :=
  match U.get? c with
  | some d => d.ns.isNone
  | none => false

def buildable (U : Universe) (c : ClassId) : Bool :=
  match pureBuild U c none with
  | .ok _ => true
  | .error _ => false

/-- the subclass `fetch` would switch to -/
def pureSub (U : Universe) (w : World) (c : ClassId) (pns xsi : Option Str) : Option ClassId :=
  match pureBuild U c pns with
  | .ok m =>
    if truthy xsi && m.targetQName != xsi then pickSubclass U c (pureTypes U w (xsi.getD [])) else none
  | .error _ => none

def pureFetch (U : Universe) (w : World) (c : ClassId) (pns xsi : Option Str) : Except Err Meta :=
  match pureBuild U c pns with
  | .error e => .error e
  | .ok m =>
    if truthy xsi && m.targetQName != xsi then
      match pickSubclass U c (pureTypes U w (xsi.getD [])) with
      | some sub => pureBuild U sub pns
      | none => .ok m
    else .ok m

/-- one candidate of `find_type_by_fields` -/
def choiceOf (U : Universe) (names : List Str) (c : ClassId) : Option Choice :=
  match pureBuild U c none, U.get? c with
  | .ok m, some d => if namesMatch names m then some (c, (fieldDiff names m, d.name)) else none
  | _, _ => none

/-- the classes of the index in iteration order (`for types in values() for clazz in types`) -/
def indexedClasses (idx : List (Str × List ClassId)) : List ClassId :=
  (idx.map (·.1)).flatMap fun k => (idx.lookup k).getD []

def pureFields (U : Universe) (w : World) (names : List Str) : Option ClassId :=
  (bestChoice ((indexedClasses (pureIndex U w.loaded)).filterMap (choiceOf U names))).map (·.1)

abbrev Use := ClassId × Option Str

/-- cache-free specification of the serializer's walk; the "state" collects the requests -/
def pureSerialize (U : Universe) (toks : List Tok) : List Use × Except Err (List Str) :=
  serWalk (σ := List Use) (fun us c p => (us ++ [(c, p)], pureBuild U c p)) toks [] [] []

/-- the `(class, parent_ns)` pairs a serialisation requests -/
def serUses (U : Universe) (toks : List Tok) : List Use := (pureSerialize U toks).1

/-- **Cache-free specification** of one call in world `w` -/
def pureOut (U : Universe) (w : World) : Op → Out
  | .build c pns => outMeta (pureBuild U c pns)
  | .fetch c pns xsi => outMeta (pureFetch U w c pns xsi)
  | .findTypes q => .gotTypes (pureTypes U w q)
  | .findType q => .gotType (pureTypes U w q).getLast?
  | .findSubclass c q => .gotType (pickSubclass U c (pureTypes U w q))
  | .findTypeByFields names => .gotType (pureFields U w names)
  | .localNamesMatch names c =>
    match pureBuild U c none with
    | .ok m => .gotBool (namesMatch names m)
    | .error _ => .gotBool false
  | .buildXsiCache => .done
  | .reset => .done
  | .serialize toks =>
    match (pureSerialize U toks).2 with
    | .ok l => .gotNames l
    | .error e => .raised e

/-- the `(class, parent_ns)` pairs a call hands to `build` -/
def opUses (U : Universe) (w : World) : Op → List Use
  | .build c pns => [(c, pns)]
  | .fetch c pns xsi =>
    (c, pns) :: (match pureSub U w c pns xsi with
      | some sub => [(sub, pns)]
      | none => [])
  | .localNamesMatch _ c => [(c, none)]
  | .findTypeByFields _ => (indexedClasses (pureIndex U w.loaded)).map fun c => (c, none)
  | .serialize toks => serUses U toks
  | _ => []

/-- no namespace-less class is requested under two different parent namespaces -/
def consistent (U : Universe) (us : List Use) : Prop :=
  ∀ a ∈ us, ∀ b ∈ us, a.1 = b.1 → nsSensitive U a.1 = true → a.2 = b.2

instance (U : Universe) (us : List Use) : Decidable (consistent U us) :=
  inferInstanceAs (Decidable (∀ a ∈ us, ∀ b ∈ us, a.1 = b.1 → nsSensitive U a.1 = true → a.2 = b.2))

/-- `len(sys.modules)` identifies the set of loaded classes -/
def faithful (ws : List World) : Prop :=
  ∀ a ∈ ws, ∀ b ∈ ws, a.mods = b.mods → a.loaded = b.loaded

instance (ws : List World) : Decidable (faithful ws) :=
  inferInstanceAs (Decidable (∀ a ∈ ws, ∀ b ∈ ws, a.mods = b.mods → a.loaded = b.loaded))

/-- the call does not hit `local_names_match`'s eviction path -/
def noEvict (U : Universe) (w : World) : Op → Prop
  | .localNamesMatch _ c => buildable U c = true ∨ indexKey U c = none
  | .findTypeByFields _ => ∀ c ∈ indexedClasses (pureIndex U w.loaded), buildable U c = true
  | _ => True

instance (U : Universe) (w : World) : (op : Op) → Decidable (noEvict U w op)
  | .localNamesMatch _ c => inferInstanceAs (Decidable (buildable U c = true ∨ indexKey U c = none))
  | .findTypeByFields _ =>
    inferInstanceAs (Decidable (∀ c ∈ indexedClasses (pureIndex U w.loaded), buildable U c = true))
  | .build _ _ => inferInstanceAs (Decidable True)
  | .fetch _ _ _ => inferInstanceAs (Decidable True)
  | .findTypes _ => inferInstanceAs (Decidable True)
  | .findType _ => inferInstanceAs (Decidable True)
  | .findSubclass _ _ => inferInstanceAs (Decidable True)
  | .buildXsiCache => inferInstanceAs (Decidable True)
  | .reset => inferInstanceAs (Decidable True)
  | .serialize _ => inferInstanceAs (Decidable True)

/-- what has been requested from the instance since it was created / reset -/
structure Track where
  uses : List Use
  worlds : List World

def Track.empty : Track := ⟨[], []⟩

def Track.next (U : Universe) (t : Track) (w : World) (op : Op) : Track :=
  if op = .reset then Track.empty else ⟨t.uses ++ opUses U w op, w :: t.worlds⟩

def okStep (U : Universe) (t : Track) (w : World) (op : Op) : Prop :=
  consistent U (t.uses ++ opUses U w op) ∧ faithful (w :: t.worlds) ∧ noEvict U w op

instance (U : Universe) (t : Track) (w : World) (op : Op) : Decidable (okStep U t w op) :=
  inferInstanceAs (Decidable (consistent U (t.uses ++ opUses U w op) ∧ faithful (w :: t.worlds) ∧ noEvict U w op))

/-- the side conditions hold at every call of the history -/
def histOK (U : Universe) : Track → List (World × Op) → Prop
  | _, [] => True
  | t, (w, op) :: rest => okStep U t w op ∧ histOK U (t.next U w op) rest

def decHistOK (U : Universe) : (t : Track) → (h : List (World × Op)) → Decidable (histOK U t h)
  | _, [] => inferInstanceAs (Decidable True)
  | t, (w, op) :: rest =>
    have := decHistOK U (t.next U w op) rest
    inferInstanceAs (Decidable (okStep U t w op ∧ histOK U (t.next U w op) rest))

instance (U : Universe) (t : Track) (h : List (World × Op)) : Decidable (histOK U t h) := decHistOK U t h

/-- calls that may appear in a history in which unbuildable classes get evicted
from the index: everything except `fetch` with an xsi:type, whose choice of the
subclass to build reads the index by name -/
def Op.evictionTolerant : Op → Bool
  | .fetch _ _ x => !truthy x
  | _ => true

/-- calls whose *result* does not depend on which unbuildable classes have been
evicted from the index (they never read the index by qualified name) -/
def Op.evictionBlind : Op → Bool
  | .build _ _ => true
  | .serialize _ => true
  | .findTypeByFields _ => true
  | .buildXsiCache => true
  | .reset => true
  | .fetch _ _ x => !truthy x
  | _ => false

/-- the side conditions without `noEvict` -/
def okStepW (U : Universe) (t : Track) (w : World) (op : Op) : Prop :=
  consistent U (t.uses ++ opUses U w op) ∧ faithful (w :: t.worlds) ∧ op.evictionTolerant = true

instance (U : Universe) (t : Track) (w : World) (op : Op) : Decidable (okStepW U t w op) :=
  inferInstanceAs (Decidable (consistent U (t.uses ++ opUses U w op) ∧ faithful (w :: t.worlds) ∧
    op.evictionTolerant = true))

def histOKW (U : Universe) : Track → List (World × Op) → Prop
  | _, [] => True
  | t, (w, op) :: rest => okStepW U t w op ∧ histOKW U (t.next U w op) rest

def decHistOKW (U : Universe) : (t : Track) → (h : List (World × Op)) → Decidable (histOKW U t h)
  | _, [] => inferInstanceAs (Decidable True)
  | t, (w, op) :: rest =>
    have := decHistOKW U (t.next U w op) rest
    inferInstanceAs (Decidable (okStepW U t w op ∧ histOKW U (t.next U w op) rest))

instance (U : Universe) (t : Track) (h : List (World × Op)) : Decidable (histOKW U t h) := decHistOKW U t h

/-- every class declares its own `Meta.namespace` -/
def allDeclared (U : Universe) : Prop := ∀ d ∈ U.classes, d.ns.isSome = true

instance (U : Universe) : Decidable (allDeclared U) :=
  inferInstanceAs (Decidable (∀ d ∈ U.classes, d.ns.isSome = true))

end Xs.Ctx
