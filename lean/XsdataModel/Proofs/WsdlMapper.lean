/- Lemmas about the mapper model (Wsdl/Mapper.lean) used by Props/C17.lean. -/
import XsdataModel.Proofs.Wsdl

set_option linter.unusedSectionVars false

namespace Xs.Wsdl
open Py

/-! ## attributes / configuration -/

/-- attribute (local name, value) pairs of a list of extension elements, in document order -/
def attrPairs (exts : List Ext) : List (Str × Str) :=
  (exts.flatMap (·.attrs)).map (fun kv => (localName kv.1, kv.2))

theorem attributes_eq (exts : List Ext) :
    attributes exts = (attrPairs exts).foldl (fun acc kv => aset acc kv.1 kv.2) [] := by
  unfold attributes attrPairs
  rw [List.foldl_map]

theorem attributes_get (exts : List Ext) (k : Str) :
    aget (attributes exts) k = lastVal (attrPairs exts) k := by
  rw [attributes_eq, aget_foldl_aset]
  simp [aget]

theorem attributes_nodup (exts : List Ext) : ((attributes exts).map (·.1)).Nodup := by
  rw [attributes_eq]
  exact foldl_aset_keys_nodup _ _ (by simp)

theorem attrPairs_append (a b : List Ext) : attrPairs (a ++ b) = attrPairs a ++ attrPairs b := by
  simp [attrPairs]

theorem lastVal_eq_aget_of_nodup {κ β : Type} [BEq κ] [LawfulBEq κ] (d : List (κ × β))
    (h : (d.map (·.1)).Nodup) (k : κ) : lastVal d k = aget d k := by
  induction d with
  | nil => simp [lastVal, aget]
  | cons hd tl ih =>
    obtain ⟨a, b⟩ := hd
    simp only [List.map_cons, List.nodup_cons] at h
    rw [lastVal_cons, ih h.2]
    simp only [aget, List.lookup]
    by_cases hk : k == a
    · have : k = a := eq_of_beq hk
      subst this
      have hnone : List.lookup k tl = none := by
        cases hl : List.lookup k tl with
        | none => rfl
        | some v =>
          have hm : (k, v) ∈ tl := by
            have := (mem_iff_aget_of_nodup tl h.2 k v).2 (by simpa [aget] using hl)
            exact this
          exact absurd (List.mem_map_of_mem (f := (·.1)) hm) h.1
      simp [hnone]
    · have hk' : (k == a) = false := by simpa using hk
      have hak : (a == k) = false := by
        cases hh : a == k
        · rfl
        · have : a = k := eq_of_beq hh
          subst this; simp at hk
      simp [hk', hak]

theorem operationConfig_nodup (b p o : List Ext) : ((operationConfig b p o).map (·.1)).Nodup := by
  unfold operationConfig aupdate
  exact foldl_aset_keys_nodup _ _ (attributes_nodup _)

theorem operationConfig_get (b p o : List Ext) (k : Str) :
    aget (operationConfig b p o) k
      = ((lastVal (attrPairs o) k).or (lastVal (attrPairs p) k)).or (lastVal (attrPairs b) k) := by
  unfold operationConfig
  rw [aget_aupdate, lastVal_eq_aget_of_nodup _ (attributes_nodup o), attributes_get, attributes_get,
    attrPairs_append, lastVal_append, Option.or_assoc]

/-! ## service constants -/

theorem mem_constAttrs (cfg : Dict) (a : AttrM) :
    a ∈ constAttrs cfg ↔ ∃ k v, (k, v) ∈ cfg ∧ v ≠ [] ∧
      a = buildAttr k Tables.c17XsString (native := true) (default := some v) := by
  unfold constAttrs Xs.Codegen.pySortedByNat
  simp only [List.mem_map, List.mem_filter, List.mem_mergeSort]
  constructor
  · rintro ⟨⟨k, v⟩, ⟨hm, hv⟩, rfl⟩
    refine ⟨k, v, hm, ?_, rfl⟩
    intro h; subst h; simp at hv
  · rintro ⟨k, v, hm, hv, rfl⟩
    refine ⟨(k, v), ⟨hm, ?_⟩, rfl⟩
    cases v <;> simp_all

end Xs.Wsdl

namespace Xs.Wsdl
open Py

/-! ## qualified names -/

/-- a namespace URI the `{uri}local` notation can carry: no `}` -/
def wfUri : Option Str → Bool
  | none => true
  | some u => u.all (· != '}')

/-- a local name: non-empty, not starting with `{` -/
def wfLocal : Str → Bool
  | [] => false
  | c :: _ => c != '{'

theorem takeWhile_append_sep (u n : Str) (c : Char) (h : u.all (· != c) = true) :
    (u ++ c :: n).takeWhile (· ≠ c) = u ∧ (u ++ c :: n).dropWhile (· ≠ c) = c :: n := by
  induction u with
  | nil => simp
  | cons x xs ih =>
    simp only [List.all_cons, Bool.and_eq_true] at h
    have hx : x ≠ c := by simpa using h.1
    have ih' := ih h.2
    have hp : (fun y : Char => decide (y ≠ c)) x = true := by simpa using hx
    constructor
    · rw [List.cons_append, List.takeWhile_cons_of_pos (p := fun y : Char => decide (y ≠ c)) hp, ih'.1]
    · rw [List.cons_append, List.dropWhile_cons_of_pos (p := fun y : Char => decide (y ≠ c)) hp, ih'.2]

theorem splitOnce_append_sep (u n : Str) (c : Char) (h : u.all (· != c) = true) (hn : n ≠ []) :
    Xs.Text.splitOnce (u ++ c :: n) c = (some u, n) := by
  obtain ⟨h1, h2⟩ := takeWhile_append_sep u n c h
  unfold Xs.Text.splitOnce
  simp only [h1, h2, List.drop_succ_cons, List.drop_zero]
  cases n with
  | nil => exact absurd rfl hn
  | cons a b => simp

/-- the namespace `build_qname` actually writes (an empty URI counts as none) -/
def effUri : Option Str → Option Str
  | some (c :: cs) => some (c :: cs)
  | _ => none

theorem splitQName_buildQName (u : Option Str) (n q : Str) (hu : wfUri u = true) (hn : wfLocal n = true)
    (hq : buildQName u n = .ok q) : splitQName q = (effUri u, n) := by
  cases n with
  | nil => simp [wfLocal] at hn
  | cons c cs =>
    have hc : c ≠ '{' := by simpa [wfLocal] using hn
    have plain : splitQName (c :: cs) = (none, c :: cs) := by
      unfold splitQName
      split
      · rename_i rest heq
        cases heq
        exact absurd rfl hc
      · rfl
    cases u with
    | none =>
      simp [buildQName] at hq
      subst hq
      simpa [effUri] using plain
    | some u =>
      cases u with
      | nil =>
        simp [buildQName] at hq
        subst hq
        simpa [effUri] using plain
      | cons a as =>
        simp [buildQName] at hq
        subst hq
        have hall : (a :: as).all (· != '}') = true := by simpa [wfUri] using hu
        have := splitOnce_append_sep (a :: as) (c :: cs) '}' hall (by simp)
        simp only [List.cons_append] at this
        simp [splitQName, this, effUri]

theorem localName_buildQName (u : Option Str) (n q : Str) (hu : wfUri u = true) (hn : wfLocal n = true)
    (hq : buildQName u n = .ok q) : localName q = n := by
  simp [localName, splitQName_buildQName u n q hu hn hq]

theorem targetUri_buildQName (u : Option Str) (n q : Str) (hu : wfUri u = true) (hn : wfLocal n = true)
    (hq : buildQName u n = .ok q) : targetUri q = effUri u := by
  simp [targetUri, splitQName_buildQName u n q hu hn hq]

theorem buildQName_ok (u : Option Str) (n : Str) (hn : n ≠ []) : ∃ q, buildQName u n = .ok q := by
  cases n with
  | nil => exact absurd rfl hn
  | cons c cs =>
    cases u with
    | none => exact ⟨c :: cs, by simp [buildQName]⟩
    | some u => cases u with
      | nil => exact ⟨c :: cs, by simp [buildQName]⟩
      | cons a as => exact ⟨ws!"{" ++ (a :: as) ++ ws!"}" ++ (c :: cs), by simp [buildQName]⟩

/-! ## `name.split("_")[-1]` -/

theorem splitGo_nosep (sep : Char) (cur t : Str) (h : t.all (· != sep) = true) :
    splitGo sep cur t = [cur ++ t] := by
  induction t generalizing cur with
  | nil => simp [splitGo]
  | cons c cs ih =>
    simp only [List.all_cons, Bool.and_eq_true] at h
    have hc : c ≠ sep := by simpa using h.1
    simp [splitGo, hc, ih _ h.2]

theorem splitGo_getLastD (sep : Char) (cur x t d : Str) (h : t.all (· != sep) = true) :
    (splitGo sep cur (x ++ sep :: t)).getLastD d = t := by
  induction x generalizing cur d with
  | nil =>
    simp [splitGo, splitGo_nosep sep [] t h]
  | cons c cs ih =>
    by_cases hc : c = sep
    · subst hc
      simp only [List.cons_append, splitGo, ↓reduceIte, List.getLastD_cons]
      exact ih _ _
    · simp only [List.cons_append, splitGo, hc, ↓reduceIte]
      exact ih _ _

theorem lastSeg_append (x t : Str) (h : t.all (· != '_') = true) : lastSeg (x ++ '_' :: t) = t := by
  unfold lastSeg splitOn
  exact splitGo_getLastD '_' [] x t [] h

end Xs.Wsdl

namespace Xs.Wsdl
open Py

/-! ## what the envelope loops preserve -/

/-- the fields of a class `build_inner_class` & co. never touch -/
def sameHead (a b : Cls) : Prop :=
  b.qname = a.qname ∧ b.metaName = a.metaName ∧ b.ns = a.ns ∧ b.tag = a.tag

theorem sameHead_refl (a : Cls) : sameHead a a := ⟨rfl, rfl, rfl, rfl⟩

theorem sameHead_trans {a b c : Cls} (h1 : sameHead a b) (h2 : sameHead b c) : sameHead a c :=
  ⟨h2.1.trans h1.1, h2.2.1.trans h1.2.1, h2.2.2.1.trans h1.2.2.1, h2.2.2.2.trans h1.2.2.2⟩

theorem addInner_sameHead (t t' : Cls) (c : Str) (ns : Option Str) (as : List AttrM) (upd : NsMap → NsMap)
    (h : addInner t c ns as upd = .ok t') : sameHead t t' := by
  unfold addInner at h
  split at h
  · cases h
    simp [sameHead]
  · cases hm : mkInner t c with
    | error e => simp [hm, bind, Except.bind] at h
    | ok inner =>
      simp only [hm, bind, Except.bind, pure, Except.pure, Except.ok.injEq] at h
      subst h
      simp [sameHead]

theorem addItems_sameHead (t t' : Cls) (is : List ExtItem) (h : addItems t is = .ok t') : sameHead t t' := by
  induction is generalizing t with
  | nil => simp [addItems] at h; subst h; exact sameHead_refl _
  | cons i is ih =>
    simp only [addItems, bind, Except.bind] at h
    cases h1 : addItem t i with
    | error e => simp [h1] at h
    | ok t1 =>
      simp only [h1] at h
      exact sameHead_trans (addInner_sameHead _ _ _ _ _ _ h1) (ih t1 h)

theorem buildEnvelopeClass_head (d : Definitions) (bm : BMessage) (pm : PtMessage) (name style : Str)
    (ns op : Option Str) (env : Cls) (h : buildEnvelopeClass d bm pm name style ns op = .ok env) :
    buildQName d.targetNamespace name = .ok env.qname ∧ env.metaName = some ws!"Envelope" ∧ env.ns = ns := by
  unfold buildEnvelopeClass envelopeBase at h
  cases hq : buildQName d.targetNamespace name with
  | error e => simp [hq, bind, Except.bind] at h
  | ok q =>
    simp only [hq, bind, Except.bind, pure, Except.pure] at h
    cases hi : extItems d pm style op bm.ext with
    | error e => simp [hi] at h
    | ok items =>
      simp only [hi] at h
      have := addItems_sameHead _ _ _ h
      obtain ⟨h1, h2, h3, _⟩ := this
      exact ⟨by rw [show env.qname = q from h1], h2, h3⟩

theorem buildEnvelopeFault_head (d : Definitions) (po : PtOperation) (env env' : Cls)
    (h : buildEnvelopeFault d po env = .ok env') :
    sameHead env env' ∧ env'.attrs = env.attrs.map optionalUnlessBody := by
  unfold buildEnvelopeFault at h
  split at h
  · cases h
  · rename_i body hb
    cases hf : addFault d po env.ns body with
    | error e => simp [hf, bind, Except.bind] at h
    | ok b' =>
      simp only [hf, bind, Except.bind, pure, Except.pure, Except.ok.injEq] at h
      subst h
      simp [sameHead]

theorem withFault_head (d : Definitions) (po : PtOperation) (isOut : Bool) (env env' : Cls)
    (h : withFault d po isOut env = .ok env') :
    sameHead env env' ∧ env'.attrs = if isOut then env.attrs.map optionalUnlessBody else env.attrs := by
  unfold withFault at h
  cases isOut with
  | false => simp at h; subst h; exact ⟨sameHead_refl _, rfl⟩
  | true => simp at h; exact buildEnvelopeFault_head _ _ _ _ h

theorem mapMessage_env (d : Definitions) (po : PtOperation) (name style : Str) (ns : Option Str) (sfx : Str)
    (bm : BMessage) (pm? : Option PtMessage) (op : Option Str) (isOut : Bool) (r : Option Cls × Cls)
    (h : mapMessage d po name style ns sfx bm pm? op isOut = .ok r) :
    buildQName d.targetNamespace (joinU name sfx) = .ok r.2.qname ∧
      r.2.metaName = some ws!"Envelope" ∧ r.2.ns = ns := by
  unfold mapMessage at h
  cases pm? with
  | none => simp at h
  | some pm =>
    simp only [bind, Except.bind, pure, Except.pure] at h
    cases hm : rpcMessageClass d style pm with
    | error e => simp [hm] at h
    | ok msgCls =>
      simp only [hm] at h
      cases he : buildEnvelopeClass d bm pm (joinU name sfx) style ns op with
      | error e => simp [he] at h
      | ok env =>
        simp only [he] at h
        have hh := buildEnvelopeClass_head _ _ _ _ _ _ _ _ he
        cases hf : withFault d po isOut env with
        | error e => simp [hf] at h
        | ok env' =>
          simp only [hf, Except.ok.injEq] at h
          subst h
          obtain ⟨⟨h1, h2, h3, _⟩, _⟩ := withFault_head _ _ _ _ _ hf
          simp only
          rw [h1, h2, h3]
          exact hh

end Xs.Wsdl

namespace Xs.Wsdl
open Py

/-! ## one operation -/

theorem mapMessages_shape (d : Definitions) (bo : BOperation) (po : PtOperation) (name style : Str)
    (ns : Option Str) (pairs : List (Option Cls × Cls)) (h : mapMessages d bo po name style ns = .ok pairs) :
    ∃ li lo, pairs = li ++ lo ∧
      (match bo.input with
        | none => li = []
        | some bm => ∃ r, li = [r] ∧ mapMessage d po name style ns ws!"input" bm po.input (some bo.name) false = .ok r) ∧
      (match bo.output with
        | none => lo = []
        | some bm => ∃ r, lo = [r] ∧ mapMessage d po name style ns ws!"output" bm po.output none true = .ok r) := by
  unfold mapMessages at h
  simp only [bind, Except.bind, pure, Except.pure] at h
  cases hi : bo.input with
  | none =>
    simp only [hi] at h
    cases ho : bo.output with
    | none =>
      simp only [ho, Except.ok.injEq] at h
      exact ⟨[], [], by simpa using h.symm, rfl, rfl⟩
    | some bmo =>
      simp only [ho, Except.map] at h
      cases hmo : mapMessage d po name style ns ws!"output" bmo po.output none true with
      | error e => simp [hmo] at h
      | ok ro =>
        simp only [hmo, Except.ok.injEq] at h
        exact ⟨[], [ro], by simpa using h.symm, rfl, ro, rfl, hmo⟩
  | some bmi =>
    simp only [hi, Except.map] at h
    cases hmi : mapMessage d po name style ns ws!"input" bmi po.input (some bo.name) false with
    | error e => simp [hmi] at h
    | ok ri =>
      simp only [hmi] at h
      cases ho : bo.output with
      | none =>
        simp only [ho, Except.ok.injEq] at h
        exact ⟨[ri], [], by simpa using h.symm, ⟨ri, rfl, hmi⟩, rfl⟩
      | some bmo =>
        simp only [ho] at h
        cases hmo : mapMessage d po name style ns ws!"output" bmo po.output none true with
        | error e => simp [hmo] at h
        | ok ro =>
          simp only [hmo, Except.ok.injEq] at h
          exact ⟨[ri], [ro], by simpa using h.symm, ⟨ri, rfl, hmi⟩, ro, rfl, hmo⟩

/-- the service class `map_binding_operation` yields last -/
def serviceClass (q : Str) (bo : BOperation) (cfg : Dict) (pairs : List (Option Cls × Cls)) : Cls :=
  Cls.mk q none Tables.c17TagBindingOperation Tables.c17StatusFlattened none bo.location bo.nsMap
    (constAttrs cfg ++ pairs.map (fun p => refAttr p.2)) []

theorem mapBindingOperation_shape (d : Definitions) (bo : BOperation) (po : PtOperation) (cfg : Dict)
    (pt : Str) (cs : List Cls) (h : mapBindingOperation d bo po cfg pt = .ok cs) :
    ∃ pairs q,
      mapMessages d bo po (joinU pt bo.name) ((aget cfg ws!"style").getD ws!"document") (operationNamespace cfg) = .ok pairs ∧
      buildQName d.targetNamespace (joinU pt bo.name) = .ok q ∧
      cs = pairs.flatMap flattenPair ++ [serviceClass q bo cfg pairs] := by
  unfold mapBindingOperation at h
  simp only [bind, Except.bind, pure, Except.pure] at h
  cases hm : mapMessages d bo po (joinU pt bo.name) ((aget cfg ws!"style").getD ws!"document") (operationNamespace cfg) with
  | error e => simp [hm] at h
  | ok pairs =>
    simp only [hm] at h
    cases hq : buildQName d.targetNamespace (joinU pt bo.name) with
    | error e => simp [hq] at h
    | ok q =>
      simp only [hq, Except.ok.injEq] at h
      exact ⟨pairs, q, rfl, rfl, h.symm⟩

theorem wfLocal_append (a b : Str) (h : wfLocal a = true) : wfLocal (a ++ b) = true := by
  cases a with
  | nil => simp [wfLocal] at h
  | cons c cs => simpa [wfLocal] using h

theorem wfLocal_joinU (a b : Str) (h : wfLocal a = true) : wfLocal (joinU a b) = true := by
  unfold joinU
  rw [List.append_assoc]
  exact wfLocal_append _ _ h

theorem lastSeg_joinU (a t : Str) (h : t.all (· != '_') = true) : lastSeg (joinU a t) = t := by
  unfold joinU
  rw [List.append_assoc]
  exact lastSeg_append a t h

/-- `refAttr` of an envelope whose qname was built from `{tns}<name>_<sfx>` -/
theorem refAttr_of_qname (tns : Option Str) (name sfx : Str) (env : Cls)
    (hu : wfUri tns = true) (hn : wfLocal name = true) (hs : sfx.all (· != '_') = true)
    (hq : buildQName tns (joinU name sfx) = .ok env.qname) :
    refAttr env = buildAttr sfx env.qname (ref := some env.qname) := by
  unfold refAttr Cls.name
  rw [localName_buildQName tns _ _ hu (wfLocal_joinU _ _ hn) hq, lastSeg_joinU _ _ hs]

end Xs.Wsdl

namespace Xs.Wsdl
open Py

/-! ## inner classes of an envelope -/

/-- attrs of the inner class called `key` (`[]` if there is none) -/
def innerAttrs (t : Cls) (key : Str) : List AttrM :=
  match findInner t key with
  | some c => c.attrs
  | none => []

/-- an inner class of a class named `q` created for `c` is found again under `c` -/
def innerNameOK (q c : Str) : Prop :=
  ∀ q', buildQName (targetUri q) c = .ok q' → localName q' = c

theorem mkInner_name (t inner : Cls) (c : Str) (hn : innerNameOK t.qname c) (h : mkInner t c = .ok inner) :
    inner.name = c := by
  unfold mkInner at h
  cases hq : buildQName t.targetNamespace c with
  | error e => simp [hq, bind, Except.bind] at h
  | ok q' =>
    simp only [hq, bind, Except.bind, pure, Except.pure, Except.ok.injEq] at h
    subst h
    exact hn q' hq

theorem findInner_name (t c : Cls) (key : Str) (h : findInner t key = some c) : c.name = key := by
  unfold findInner at h
  have := List.find?_some h
  simpa using this

theorem addInner_innerAttrs (t t' : Cls) (c : Str) (ns : Option Str) (as : List AttrM) (upd : NsMap → NsMap)
    (hn : innerNameOK t.qname c) (h : addInner t c ns as upd = .ok t') (key : Str) :
    innerAttrs t' key = if key = c then innerAttrs t c ++ as else innerAttrs t key := by
  unfold addInner at h
  split at h
  · rename_i x hx
    simp only [Except.ok.injEq] at h
    subst h
    have hfind : findInner (t.setInner (t.inner.map (fun y =>
          if y.name == c then (y.setAttrs (y.attrs ++ as)).setNsMap (upd y.nsMap) else y))) key
        = (findInner t key).map (fun y =>
          if y.name == c then (y.setAttrs (y.attrs ++ as)).setNsMap (upd y.nsMap) else y) := by
      unfold findInner
      have hfun : ((fun c : Cls => c.name == key) ∘ (fun y : Cls =>
          if y.name == c then (y.setAttrs (y.attrs ++ as)).setNsMap (upd y.nsMap) else y))
          = (fun c : Cls => c.name == key) := by
        funext y
        simp only [Function.comp]
        by_cases hy : y.name == c <;> simp [hy]
      simp only [Cls.setInner_inner, List.find?_map, hfun]
    unfold innerAttrs
    rw [hfind]
    cases hk : findInner t key with
    | none =>
      simp only [Option.map_none]
      by_cases hkc : key = c
      · subst hkc; rw [hk] at hx; cases hx
      · simp [hkc]
    | some y =>
      have hyn := findInner_name t y key hk
      simp only [Option.map_some]
      by_cases hkc : key = c
      · subst hkc
        simp [hyn, hk]
      · have : (y.name == c) = false := by rw [hyn]; simpa using hkc
        simp [this, hkc]
  · rename_i hnone
    cases hm : mkInner t c with
    | error e => simp [hm, bind, Except.bind] at h
    | ok inner =>
      simp only [hm, bind, Except.bind, pure, Except.pure, Except.ok.injEq] at h
      subst h
      have hin := mkInner_name t inner c hn hm
      unfold innerAttrs findInner
      simp only [Cls.setAttrs_inner, Cls.setInner_inner, List.find?_append]
      unfold findInner at hnone
      by_cases hkc : key = c
      · subst hkc
        simp [hnone, hin]
      · have : (inner.name == key) = false := by rw [hin]; simpa using fun h => hkc h.symm
        cases hf : List.find? (fun c => c.name == key) t.inner <;> simp [this, hkc]

theorem addItems_innerAttrs (t t' : Cls) (items : List ExtItem)
    (hn : ∀ i ∈ items, innerNameOK t.qname i.cname) (h : addItems t items = .ok t') (key : Str) :
    innerAttrs t' key = innerAttrs t key ++ (items.filter (fun i => i.cname == key)).flatMap (·.attrs) := by
  induction items generalizing t with
  | nil => simp [addItems] at h; subst h; simp
  | cons i is ih =>
    simp only [addItems, bind, Except.bind] at h
    cases h1 : addItem t i with
    | error e => simp [h1] at h
    | ok t1 =>
      simp only [h1] at h
      have hq : t1.qname = t.qname := (addInner_sameHead _ _ _ _ _ _ h1).1
      have hn' : ∀ j ∈ is, innerNameOK t1.qname j.cname := by
        intro j hj; rw [hq]; exact hn j (List.mem_cons_of_mem _ hj)
      rw [ih t1 hn' h, addInner_innerAttrs t t1 i.cname none i.attrs _ (hn i (List.mem_cons_self)) h1 key]
      by_cases hk : key = i.cname
      · subst hk
        simp
      · have : (i.cname == key) = false := by simpa using fun h => hk h.symm
        simp [hk, this]

theorem wfUri_effUri (u : Option Str) (h : wfUri u = true) : wfUri (effUri u) = true := by
  cases u with
  | none => rfl
  | some s => cases s with
    | nil => rfl
    | cons c cs => simpa [effUri] using h

theorem innerNameOK_of_wf (tns : Option Str) (name q c : Str) (hu : wfUri tns = true) (hn : wfLocal name = true)
    (hq : buildQName tns name = .ok q) (hc : wfLocal c = true) : innerNameOK q c := by
  intro q' hq'
  rw [targetUri_buildQName tns name q hu hn hq] at hq'
  exact localName_buildQName _ _ _ (wfUri_effUri _ hu) hc hq'

theorem extItems_cnames (d : Definitions) (pm : PtMessage) (style : Str) (op : Option Str) (exts : List Ext)
    (items : List ExtItem) (h : extItems d pm style op exts = .ok items) :
    items.map (·.cname) = exts.map (fun e => titleA (localName e.qname)) := by
  induction exts generalizing items with
  | nil => simp [extItems] at h; subst h; rfl
  | cons e es ih =>
    simp only [extItems, bind, Except.bind, pure, Except.pure] at h
    cases h1 : extItem d pm style op e with
    | error x => simp [h1] at h
    | ok i =>
      simp only [h1] at h
      cases h2 : extItems d pm style op es with
      | error x => simp [h2] at h
      | ok rest =>
        simp only [h2, Except.ok.injEq] at h
        subst h
        have hc : i.cname = titleA (localName e.qname) := by
          unfold extItem at h1
          simp only [bind, Except.bind, pure, Except.pure] at h1
          split at h1
          · cases h3 : mapPortTypeMessage op pm (aget e.attrs ws!"namespace") with
            | error x => simp [h3] at h1
            | ok a => simp only [h3, Except.ok.injEq] at h1; subst h1; rfl
          · cases h3 : mapBindingMessageParts d pm.message e with
            | error x => simp [h3] at h1
            | ok a => simp only [h3, Except.ok.injEq] at h1; subst h1; rfl
        simp [hc, ih rest h2]

end Xs.Wsdl

namespace Xs.Wsdl
open Py

/-! ## parts -/

/-- the part is given by `element=` or `type=` (others are skipped with a warning) -/
def Part.typed (p : Part) : Bool := truthy p.element || truthy p.type

/-- the reference the attr is built from: `element` wins over `type` -/
def Part.ref (p : Part) : Str := if truthy p.element then p.element.getD [] else p.type.getD []

/-- wire name WSDL 1.1 prescribes: local name of the element, or the part name for typed parts -/
def Part.wireName (p : Part) : Str := if truthy p.element then (splitColon p.ref).2 else p.name

theorem partAttr_untyped (p : Part) (h : p.typed = false) : partAttr p = .ok none := by
  simp only [Part.typed, Bool.or_eq_false_iff] at h
  simp [partAttr, h.1, h.2]

theorem partAttr_typed (p : Part) (a : Option AttrM) (ht : p.typed = true) (h : partAttr p = .ok a) :
    ∃ q, buildQName (aget p.nsMap (splitColon p.ref).1) (splitColon p.ref).2 = .ok q ∧
      a = some (buildAttr p.wireName q
        (native := aget p.nsMap (splitColon p.ref).1 == some Tables.c17XsUri)
        (ns := if truthy p.type then some Tables.c17LazyMarker else aget p.nsMap (splitColon p.ref).1)) := by
  unfold partAttr at h
  by_cases he : truthy p.element = true
  · simp only [he, ↓reduceIte, bind, Except.bind, pure, Except.pure] at h
    cases hq : buildQName (aget p.nsMap (splitColon (p.element.getD [])).1) (splitColon (p.element.getD [])).2 with
    | error e => simp [hq] at h
    | ok q =>
      simp only [hq, Except.ok.injEq] at h
      refine ⟨q, by simpa [Part.ref, he] using hq, ?_⟩
      simp [Part.wireName, Part.ref, he, ← h]
  · have he' : truthy p.element = false := by simpa using he
    have htt : truthy p.type = true := by simpa [Part.typed, he'] using ht
    simp only [he', Bool.false_eq_true, ↓reduceIte, htt, bind, Except.bind, pure, Except.pure] at h
    cases hq : buildQName (aget p.nsMap (splitColon (p.type.getD [])).1) (splitColon (p.type.getD [])).2 with
    | error e => simp [hq] at h
    | ok q =>
      simp only [hq, Except.ok.injEq] at h
      refine ⟨q, by simpa [Part.ref, he'] using hq, ?_⟩
      simp [Part.wireName, Part.ref, he', htt, ← h]

theorem partsAttrs_names (ps : List Part) (as : List AttrM) (h : partsAttrs ps = .ok as) :
    as.map (·.name) = (ps.filter Part.typed).map Part.wireName := by
  induction ps generalizing as with
  | nil => simp [partsAttrs] at h; subst h; rfl
  | cons p ps ih =>
    simp only [partsAttrs, bind, Except.bind, pure, Except.pure] at h
    cases h1 : partAttr p with
    | error e => simp [h1] at h
    | ok a =>
      simp only [h1] at h
      cases h2 : partsAttrs ps with
      | error e => simp [h2] at h
      | ok rest =>
        simp only [h2, Except.ok.injEq] at h
        by_cases ht : p.typed = true
        · obtain ⟨q, _, ha⟩ := partAttr_typed p a ht h1
          subst ha
          simp only at h
          subst h
          simp [ht, ih rest h2, buildAttr]
        · have ht' : p.typed = false := by simpa using ht
          rw [partAttr_untyped p ht'] at h1
          cases h1
          simp only at h
          subst h
          simp [ht', ih rest h2]

/-! ## one extension element -/

theorem extItem_rpc_body (d : Definitions) (pm : PtMessage) (op : Option Str) (e : Ext) (i : ExtItem)
    (hb : titleA (localName e.qname) = ws!"Body") (h : extItem d pm ws!"rpc" op e = .ok i) :
    ∃ q, buildQName (aget pm.nsMap (splitColon pm.message).1) (splitColon pm.message).2 = .ok q ∧
      i.cname = ws!"Body" ∧
      i.attrs = [buildAttr (op.getD (splitColon pm.message).2) q (ns := aget e.attrs ws!"namespace")] := by
  unfold extItem at h
  simp only [hb, beq_self_eq_true, Bool.and_self, ↓reduceIte, bind, Except.bind, pure, Except.pure] at h
  unfold mapPortTypeMessage at h
  simp only [bind, Except.bind, pure, Except.pure] at h
  cases hq : buildQName (aget pm.nsMap (splitColon pm.message).1) (splitColon pm.message).2 with
  | error x => simp [hq] at h
  | ok q =>
    simp only [hq, Except.ok.injEq] at h
    subst h
    exact ⟨q, rfl, rfl, rfl⟩

theorem extItem_parts (d : Definitions) (pm : PtMessage) (style : Str) (op : Option Str) (e : Ext) (i : ExtItem)
    (hb : ¬ (style = ws!"rpc" ∧ titleA (localName e.qname) = ws!"Body")) (h : extItem d pm style op e = .ok i) :
    ∃ m, findMessage d (extMessageName pm.message e) = .ok m ∧
      i.cname = titleA (localName e.qname) ∧
      partsAttrs (selectParts (selectedNames e) m.parts) = .ok i.attrs := by
  unfold extItem at h
  have hc : (style == ws!"rpc" && titleA (localName e.qname) == ws!"Body") = false := by
    cases h1 : style == ws!"rpc" <;> cases h2 : titleA (localName e.qname) == ws!"Body" <;> simp_all
  simp only [hc, Bool.false_eq_true, ↓reduceIte, bind, Except.bind, pure, Except.pure] at h
  unfold mapBindingMessageParts at h
  simp only [bind, Except.bind, pure, Except.pure] at h
  cases hm : findMessage d (extMessageName pm.message e) with
  | error x => simp [hm] at h
  | ok m =>
    simp only [hm] at h
    cases hp : partsAttrs (selectParts (selectedNames e) m.parts) with
    | error x => simp [hp] at h
    | ok as =>
      simp only [hp, Except.ok.injEq] at h
      subst h
      exact ⟨m, rfl, rfl, hp⟩

end Xs.Wsdl

namespace Xs.Wsdl
open Py

/-! ## envelope attrs, faults -/

theorem addInner_attrs_names (t t' : Cls) (c : Str) (ns : Option Str) (as : List AttrM) (upd : NsMap → NsMap)
    (h : addInner t c ns as upd = .ok t') : ∀ a ∈ t'.attrs, a ∈ t.attrs ∨ (a.name = c ∧ a.ns = ns ∧ a.min = none) := by
  unfold addInner at h
  split at h
  · cases h
    intro a ha
    exact Or.inl (by simpa using ha)
  · cases hm : mkInner t c with
    | error e => simp [hm, bind, Except.bind] at h
    | ok inner =>
      simp only [hm, bind, Except.bind, pure, Except.pure, Except.ok.injEq] at h
      subst h
      intro a ha
      simp only [Cls.setAttrs_attrs, List.mem_append, List.mem_singleton] at ha
      rcases ha with ha | ha
      · exact Or.inl ha
      · subst ha; exact Or.inr ⟨rfl, rfl, rfl⟩

theorem addItems_attrs_names (t t' : Cls) (items : List ExtItem) (h : addItems t items = .ok t') :
    ∀ a ∈ t'.attrs, a ∈ t.attrs ∨ (a.name ∈ items.map (·.cname) ∧ a.ns = none ∧ a.min = none) := by
  induction items generalizing t with
  | nil => simp [addItems] at h; subst h; intro a ha; exact Or.inl ha
  | cons i is ih =>
    simp only [addItems, bind, Except.bind] at h
    cases h1 : addItem t i with
    | error e => simp [h1] at h
    | ok t1 =>
      simp only [h1] at h
      intro a ha
      rcases ih t1 h a ha with h2 | ⟨h2, h3, h4⟩
      · rcases addInner_attrs_names _ _ _ _ _ _ h1 a h2 with h5 | ⟨h5, h6, h7⟩
        · exact Or.inl h5
        · exact Or.inr ⟨by simp [h5], h6, h7⟩
      · exact Or.inr ⟨by simp [h2], h3, h4⟩

/-- `Envelope` attrs: one forward attr per extension element name, in the envelope
namespace (no own namespace), required -/
theorem buildEnvelopeClass_attrs (d : Definitions) (bm : BMessage) (pm : PtMessage) (name style : Str)
    (ns op : Option Str) (env : Cls) (h : buildEnvelopeClass d bm pm name style ns op = .ok env) :
    ∀ a ∈ env.attrs, a.name ∈ bm.ext.map (fun e => titleA (localName e.qname)) ∧ a.ns = none ∧ a.min = none := by
  unfold buildEnvelopeClass envelopeBase at h
  cases hq : buildQName d.targetNamespace name with
  | error e => simp [hq, bind, Except.bind] at h
  | ok q =>
    simp only [hq, bind, Except.bind, pure, Except.pure] at h
    cases hi : extItems d pm style op bm.ext with
    | error e => simp [hi] at h
    | ok items =>
      simp only [hi] at h
      intro a ha
      rcases addItems_attrs_names _ _ _ h a ha with h1 | h1
      · simp [Cls.attrs] at h1
      · rw [extItems_cnames _ _ _ _ _ _ hi] at h1
        exact h1

theorem finishFault_attrs (fault0 fault : Cls) (da : List AttrM) (h : finishFault fault0 da = .ok fault) :
    fault.name = fault0.name ∧
    fault.attrs.map (fun a => (a.name, a.ns, a.min)) =
      [(ws!"faultcode", some [], none), (ws!"faultstring", some [], none),
       (ws!"faultactor", some [], some 0), (ws!"detail", some [], some 0)] ∧
    (da = [] → fault.inner = fault0.inner) ∧
    (da ≠ [] → ∃ det, fault.inner = [det] ∧ det.attrs = da.map setMin0) := by
  unfold finishFault at h
  by_cases hd : da.isEmpty = true
  · simp only [hd, ↓reduceIte, Except.ok.injEq] at h
    subst h
    have : da = [] := by simpa using hd
    subst this
    refine ⟨by simp, ?_, ?_, ?_⟩
    · simp [requiredFaultAttrs, faultString, buildAttr, setMin0]
    · intro _; simp
    · intro h; exact absurd rfl h
  · have hd' : da.isEmpty = false := by simpa using hd
    simp only [hd', Bool.false_eq_true, ↓reduceIte, bind, Except.bind, pure, Except.pure] at h
    cases hm : mkInner fault0 ws!"detail" with
    | error e => simp [hm] at h
    | ok det0 =>
      simp only [hm, Except.ok.injEq] at h
      subst h
      refine ⟨by simp, ?_, ?_, ?_⟩
      · simp [requiredFaultAttrs, faultString, buildAttr, setMin0]
      · intro h; subst h; simp at hd'
      · intro _; exact ⟨det0.setAttrs (da.map setMin0), by simp, by simp⟩

theorem addFault_spec (d : Definitions) (po : PtOperation) (envNs : Option Str) (body body' : Cls)
    (h : addFault d po envNs body = .ok body') :
    body'.name = body.name ∧
    ∃ fq fault, body'.attrs = (body.attrs ++ [buildAttr ws!"Fault" fq (forward := true) (ns := envNs)]).map setMin0 ∧
      body'.inner = body.inner ++ [fault] ∧
      fault.attrs.map (fun a => (a.name, a.ns, a.min)) =
        [(ws!"faultcode", some [], none), (ws!"faultstring", some [], none),
         (ws!"faultactor", some [], some 0), (ws!"detail", some [], some 0)] := by
  unfold addFault at h
  simp only [bind, Except.bind, pure, Except.pure] at h
  cases hm : mkInner body ws!"Fault" with
  | error e => simp [hm] at h
  | ok fault0 =>
    simp only [hm] at h
    cases hd : faultDetailAttrs d po.faults with
    | error e => simp [hd] at h
    | ok da =>
      simp only [hd] at h
      cases hf : finishFault fault0 da with
      | error e => simp [hf] at h
      | ok fault =>
        simp only [hf, Except.ok.injEq] at h
        subst h
        refine ⟨by simp, fault0.qname, fault, by simp, by simp, (finishFault_attrs _ _ _ hf).2.1⟩

theorem replaceBody_find (body' : Cls) (l : List Cls) (body : Cls) (hn : body'.name = ws!"Body")
    (h : l.find? (fun c => c.name == ws!"Body") = some body) :
    (replaceBody body' l).find? (fun c => c.name == ws!"Body") = some body' := by
  induction l with
  | nil => simp at h
  | cons c cs ih =>
    unfold replaceBody
    by_cases hc : (c.name == ws!"Body") = true
    · simp only [hc, ↓reduceIte, List.find?_cons]
      have : (body'.name == ws!"Body") = true := by rw [hn]; simp
      simp [this]
    · have hc' : (c.name == ws!"Body") = false := by simpa using hc
      simp only [hc', Bool.false_eq_true, ↓reduceIte, List.find?_cons]
      rw [List.find?_cons, hc'] at h
      exact ih h

/-- `build_envelope_fault`: the envelope's own attrs (Header, Body) are untouched;
the Body entries all become optional and a `Fault` entry in the envelope namespace is appended -/
theorem buildEnvelopeFault_spec (d : Definitions) (po : PtOperation) (env env' : Cls)
    (h : buildEnvelopeFault d po env = .ok env') :
    env'.attrs = env.attrs.map optionalUnlessBody ∧
    ∃ body body' fq fault, findInner env ws!"Body" = some body ∧ findInner env' ws!"Body" = some body' ∧
      body'.attrs = (body.attrs ++ [buildAttr ws!"Fault" fq (forward := true) (ns := env.ns)]).map setMin0 ∧
      body'.inner = body.inner ++ [fault] ∧
      fault.attrs.map (fun a => (a.name, a.ns, a.min)) =
        [(ws!"faultcode", some [], none), (ws!"faultstring", some [], none),
         (ws!"faultactor", some [], some 0), (ws!"detail", some [], some 0)] := by
  unfold buildEnvelopeFault at h
  split at h
  · cases h
  · rename_i body hb
    cases hf : addFault d po env.ns body with
    | error e => simp [hf, bind, Except.bind] at h
    | ok b' =>
      simp only [hf, bind, Except.bind, pure, Except.pure, Except.ok.injEq] at h
      subst h
      obtain ⟨hn, fq, fault, h1, h2, h3⟩ := addFault_spec _ _ _ _ _ hf
      have hbn : body.name = ws!"Body" := by simpa using List.find?_some hb
      refine ⟨by simp, body, b', fq, fault, hb, ?_, h1, h2, h3⟩
      unfold findInner
      simp only [Cls.setAttrs_inner, Cls.setInner_inner]
      exact replaceBody_find b' env.inner body (hn.trans hbn) hb

end Xs.Wsdl

namespace Xs.Wsdl
open Py

/-! ## Body of an envelope -/

theorem extItems_mem (d : Definitions) (pm : PtMessage) (style : Str) (op : Option Str) (exts : List Ext)
    (items : List ExtItem) (h : extItems d pm style op exts = .ok items) :
    ∀ i ∈ items, ∃ e ∈ exts, extItem d pm style op e = .ok i := by
  induction exts generalizing items with
  | nil => simp [extItems] at h; subst h; simp
  | cons e es ih =>
    simp only [extItems, bind, Except.bind, pure, Except.pure] at h
    cases h1 : extItem d pm style op e with
    | error x => simp [h1] at h
    | ok i0 =>
      simp only [h1] at h
      cases h2 : extItems d pm style op es with
      | error x => simp [h2] at h
      | ok rest =>
        simp only [h2, Except.ok.injEq] at h
        subst h
        intro i hi
        rcases List.mem_cons.1 hi with hi | hi
        · subst hi; exact ⟨e, List.mem_cons_self, h1⟩
        · obtain ⟨e', he', h3⟩ := ih rest h2 i hi
          exact ⟨e', List.mem_cons_of_mem _ he', h3⟩

/-- well-formedness of the names an envelope is built from -/
structure EnvWF (d : Definitions) (bm : BMessage) (name : Str) : Prop where
  uri : wfUri d.targetNamespace = true
  name : wfLocal name = true
  exts : ∀ e ∈ bm.ext, wfLocal (titleA (localName e.qname)) = true

/-- **the inner classes of an envelope**: the attrs of the inner class `key` are the
concatenation, in document order, of what the extension elements with that
(title-cased local) name contribute -/
theorem buildEnvelopeClass_innerAttrs (d : Definitions) (bm : BMessage) (pm : PtMessage) (name style : Str)
    (ns op : Option Str) (env : Cls) (wf : EnvWF d bm name)
    (h : buildEnvelopeClass d bm pm name style ns op = .ok env) :
    ∃ items, extItems d pm style op bm.ext = .ok items ∧
      ∀ key, innerAttrs env key = (items.filter (fun i => i.cname == key)).flatMap (·.attrs) := by
  unfold buildEnvelopeClass envelopeBase at h
  cases hq : buildQName d.targetNamespace name with
  | error e => simp [hq, bind, Except.bind] at h
  | ok q =>
    simp only [hq, bind, Except.bind, pure, Except.pure] at h
    cases hi : extItems d pm style op bm.ext with
    | error e => simp [hi] at h
    | ok items =>
      simp only [hi] at h
      refine ⟨items, rfl, ?_⟩
      intro key
      have hn : ∀ i ∈ items, innerNameOK
          (Cls.mk q (some ws!"Envelope") Tables.c17TagBindingMessage Tables.c17StatusRaw ns bm.location bm.nsMap [] []).qname
          i.cname := by
        intro i hi'
        have hc := extItems_cnames _ _ _ _ _ _ hi
        have : i.cname ∈ bm.ext.map (fun e => titleA (localName e.qname)) := by
          rw [← hc]; exact List.mem_map_of_mem hi'
        obtain ⟨e, he, hee⟩ := List.mem_map.1 this
        exact innerNameOK_of_wf d.targetNamespace name q i.cname wf.uri wf.name hq (hee ▸ wf.exts e he)
      rw [addItems_innerAttrs _ _ _ hn h key]
      simp [innerAttrs, findInner, Cls.inner]

/-- rpc: every entry of `Body` is the wrapper: named after `op` (or the message
when `op` is `None`), in the namespace of a `soap:body` -/
theorem rpc_body_entries (d : Definitions) (bm : BMessage) (pm : PtMessage) (name : Str)
    (ns op : Option Str) (env : Cls) (wf : EnvWF d bm name)
    (h : buildEnvelopeClass d bm pm name ws!"rpc" ns op = .ok env) :
    ∀ a ∈ innerAttrs env ws!"Body",
      a.name = op.getD (splitColon pm.message).2 ∧ a.min = none ∧
      ∃ e ∈ bm.ext, titleA (localName e.qname) = ws!"Body" ∧ a.ns = aget e.attrs ws!"namespace" := by
  obtain ⟨items, hi, hk⟩ := buildEnvelopeClass_innerAttrs _ _ _ _ _ _ _ _ wf h
  intro a ha
  rw [hk] at ha
  obtain ⟨i, hi1, hi2⟩ := List.mem_flatMap.1 ha
  obtain ⟨him, hic⟩ := List.mem_filter.1 hi1
  obtain ⟨e, he, hee⟩ := extItems_mem _ _ _ _ _ _ hi i him
  have hcn : i.cname = titleA (localName e.qname) := by
    have := extItems_cnames d pm ws!"rpc" op [e] [i] (by simp [extItems, hee, bind, Except.bind, pure, Except.pure])
    simpa using this
  have hb : titleA (localName e.qname) = ws!"Body" := by rw [← hcn]; simpa using hic
  obtain ⟨q, _, _, hattrs⟩ := extItem_rpc_body d pm op e i hb hee
  rw [hattrs] at hi2
  simp only [List.mem_singleton] at hi2
  subst hi2
  exact ⟨rfl, rfl, e, he, hb, rfl⟩

/-- names of the entries of `Body` other than the `Fault` -/
def bodyEntryNames (env : Cls) : List Str :=
  ((innerAttrs env ws!"Body").map (·.name)).filter (· != ws!"Fault")

theorem innerAttrs_of_find (t c : Cls) (key : Str) (h : findInner t key = some c) : innerAttrs t key = c.attrs := by
  simp [innerAttrs, h]

theorem setMin0_name (a : AttrM) : (setMin0 a).name = a.name := rfl

theorem fault_bodyEntryNames (d : Definitions) (po : PtOperation) (env env' : Cls)
    (h : buildEnvelopeFault d po env = .ok env') : bodyEntryNames env' = bodyEntryNames env := by
  obtain ⟨_, body, body', fq, fault, h1, h2, h3, _⟩ := buildEnvelopeFault_spec _ _ _ _ h
  unfold bodyEntryNames
  rw [innerAttrs_of_find _ _ _ h1, innerAttrs_of_find _ _ _ h2, h3]
  simp [List.map_map, Function.comp_def, setMin0_name, List.filter_append, buildAttr]

end Xs.Wsdl

namespace Xs.Wsdl
open Py

theorem extItem_cname (d : Definitions) (pm : PtMessage) (style : Str) (op : Option Str) (e : Ext) (i : ExtItem)
    (h : extItem d pm style op e = .ok i) : i.cname = titleA (localName e.qname) := by
  have := extItems_cnames d pm style op [e] [i] (by simp [extItems, h, bind, Except.bind, pure, Except.pure])
  simpa using this

theorem extItems_filter (d : Definitions) (pm : PtMessage) (style : Str) (op : Option Str) (exts : List Ext)
    (items : List ExtItem) (key : Str) (h : extItems d pm style op exts = .ok items) :
    extItems d pm style op (exts.filter (fun e => titleA (localName e.qname) == key))
      = .ok (items.filter (fun i => i.cname == key)) := by
  induction exts generalizing items with
  | nil => simp [extItems] at h; subst h; simp [extItems]
  | cons e es ih =>
    simp only [extItems, bind, Except.bind, pure, Except.pure] at h
    cases h1 : extItem d pm style op e with
    | error x => simp [h1] at h
    | ok i0 =>
      simp only [h1] at h
      cases h2 : extItems d pm style op es with
      | error x => simp [h2] at h
      | ok rest =>
        simp only [h2, Except.ok.injEq] at h
        subst h
        have hc := extItem_cname _ _ _ _ _ _ h1
        by_cases hk : (titleA (localName e.qname) == key) = true
        · have hk' : (i0.cname == key) = true := by rw [hc]; exact hk
          simp [hk, hk', extItems, h1, ih rest h2, bind, Except.bind, pure, Except.pure]
        · have hk0 : (titleA (localName e.qname) == key) = false := by simpa using hk
          have hk' : (i0.cname == key) = false := by rw [hc]; exact hk0
          simp [hk0, hk', ih rest h2]

end Xs.Wsdl
