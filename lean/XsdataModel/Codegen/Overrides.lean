/-
`xsdata/codegen/handlers/validate_attributes_overrides.py` (extension classes; the
`is_restricted` branch `prohibit_parent_attrs` is left out).

For every attr of the class that is named like an attr of a base class: an
*override* (same xml type and namespace) is checked against the parent attr — a
list on one side turns the other side into a list, **the parent included** — and
dropped when nothing but the type differs; any other name clash is resolved by
`rename_attribute_by_preference(child, parent)`, which prefers to rename the second
argument, **the parent attr**.  The parent attrs are the live objects of the base
class, so what the next derived class sees depends on which derived classes were
processed before (finding C12-F7).

`cleanUri` stands for `namespaces.clean_uri` (pure string function).
-/
import XsdataModel.Codegen.Resolver

namespace Xs.Codegen
open Py

/-- the part of `Attr` the handler reads and writes -/
structure OAttr where
  name : Str
  /-- `Tag.ATTRIBUTE` (xml type Attribute) or `Tag.ELEMENT` (xml type Element) -/
  isAttribute : Bool := false
  ns : Option Str := none
  minOccurs : Nat := 1
  maxOccurs : Nat := 1
  /-- `default`, `fixed`, `mixed`, `tokens`, `nillable` as one number: equal numbers = all equal -/
  sig : Nat := 0
  anyType : Bool := false
deriving Repr, DecidableEq

def OAttr.slug (a : OAttr) : Str := alnum a.name
def OAttr.isList (a : OAttr) : Bool := a.maxOccurs > 1
def OAttr.isProhibited (a : OAttr) : Bool := a.maxOccurs == 0
def OAttr.isOptional (a : OAttr) : Bool := a.minOccurs == 0
def OAttr.tagName (a : OAttr) : Str :=
  if a.isAttribute then ['A', 't', 't', 'r', 'i', 'b', 'u', 't', 'e'] else ['E', 'l', 'e', 'm', 'e', 'n', 't']

structure OClass where
  attrs : List OAttr
  /-- index of the class it extends -/
  base : Option Nat := none
  /-- `status >= RESOLVE`: the handler ran already -/
  processed : Bool := false
deriving Repr, DecidableEq

abbrev OState := List OClass

/-- `sys.maxsize` -/
def pyMaxsize : Nat := 9223372036854775807

/-- `ClassUtils.unique_name(name, reserved)`; the bound on the index is never reached -/
def uniqueName (name : Str) (reserved : List Str) : Str :=
  if reserved.contains (alnum name) then
    let rec go : Nat → Nat → Str
      | 0, idx => name ++ '_' :: natStr idx
      | fuel + 1, idx =>
        if reserved.contains (alnum (name ++ '_' :: natStr idx)) then go fuel (idx + 1)
        else name ++ '_' :: natStr idx
    go (reserved.length + 1) 1
  else name

/-- `overrides(a, b)`: same xml type and namespace -/
def overridesAttr (a b : OAttr) : Bool := a.isAttribute == b.isAttribute && a.ns == b.ns

/-- positions `(class, attr index)` of the attrs `base_attrs(target)` yields: the
attrs of the base, then those of its bases -/
def baseAttrPositions (st : OState) : Nat → Option Nat → List (Nat × Nat)
  | 0, _ => []
  | _, none => []
  | fuel + 1, some b =>
    match st[b]? with
    | none => []
    | some c => (List.range c.attrs.length).map (fun i => (b, i)) ++ baseAttrPositions st fuel c.base

def attrAt (st : OState) (p : Nat × Nat) : Option OAttr := (st[p.1]?).bind (fun c => c.attrs[p.2]?)

def setAttrAt (st : OState) (p : Nat × Nat) (a : OAttr) : OState :=
  st.zipIdx.map (fun ci => if ci.2 == p.1 then
    { ci.1 with attrs := ci.1.attrs.zipIdx.map (fun ai => if ai.2 == p.2 then a else ai.1) } else ci.1)

/-- outcome for one attr of the target: the (possibly changed) child attr or `none`
when it is removed, and the new state (a parent attr may have been changed) -/
def validateAttr (cleanUri : Str → Str) (st : OState) (t : Nat) (targetAttrs : List OAttr)
    (baseMap : List ((Nat × Nat) × Str)) (child : OAttr) : Option OAttr × OState :=
  let bases := baseMap.map (·.1)
  -- `base_attrs_map.get(attr.slug)[0]`: the first base attr filed under the same slug
  -- (the map is built once per class, before the loop)
  match (baseMap.find? (fun p => p.2 == child.slug)).map (·.1) with
  | none => (if child.isProhibited then none else some child, st)
  | some pp =>
    match attrAt st pp with
    | none => (some child, st)
    | some parent =>
      if overridesAttr child parent then
        -- validate_override
        if parent.anyType && !child.anyType then (some child, st) else
        let (child, parent, st) :=
          if child.isList && !parent.isList && !parent.isProhibited then
            let parent' := { parent with maxOccurs := pyMaxsize }
            (child, parent', setAttrAt st pp parent')
          else if !child.isList && !child.isProhibited && parent.isList then
            ({ child with maxOccurs := parent.maxOccurs }, parent, st)
          else (child, parent, st)
        if child.sig == parent.sig && child.isProhibited == parent.isProhibited
            && child.isOptional == parent.isOptional then (none, st)
        else (some child, st)
      else
        -- resolve_conflict = rename_attribute_by_preference(child, parent), then unique_name
        let others (skipChild skipParent : Bool) : List Str :=
          (targetAttrs.filter (fun a => !(skipChild && a == child))).map (·.slug) ++
          (bases.filterMap (fun p => if skipParent && p == pp then none else (attrAt st p).map (·.slug)))
        if child.isAttribute == parent.isAttribute && (child.ns.isSome || parent.ns.isSome) then
          match parent.ns with
          | some pns =>
            let nm := uniqueName (cleanUri pns ++ '_' :: parent.name) (others false true)
            (some child, setAttrAt st pp { parent with name := nm })
          | none =>
            let nm := uniqueName (cleanUri (child.ns.getD []) ++ '_' :: child.name) (others true false)
            (some { child with name := nm }, st)
        else if parent.isAttribute then
          let nm := uniqueName (parent.name ++ '_' :: parent.tagName) (others false true)
          (some child, setAttrAt st pp { parent with name := nm })
        else
          let nm := uniqueName (child.name ++ '_' :: child.tagName) (others true false)
          (some { child with name := nm }, st)

/-- `process(target)` for a class whose bases are processed -/
def validateClass (cleanUri : Str → Str) (st : OState) (t : Nat) : OState :=
  match st[t]? with
  | none => st
  | some c =>
    let bases := (baseAttrPositions st (st.length + 1) c.base).filterMap
      (fun p => (attrAt st p).map (fun a => (p, a.slug)))
    -- `for attr in target.attrs.copy()`: the snapshot is walked, `target.attrs` is updated as we go
    let (st, attrs) := c.attrs.foldl (fun (acc : OState × List OAttr) child =>
      let cur := acc.2
      let r := validateAttr cleanUri acc.1 t cur bases child
      let cur' := match r.1 with
        | some child' => cur.map (fun a => if a == child then child' else a)
        | none => cur.filter (fun a => !(a == child))
      (r.2, cur')) (st, c.attrs)
    st.zipIdx.map (fun ci => if ci.2 == t then { ci.1 with attrs := attrs, processed := true } else ci.1)

/-- `container.process_class(target, RESOLVE)` with the lazy `container.find(base)`:
a base class that was not processed yet is processed first -/
def processOverrides (cleanUri : Str → Str) : Nat → OState → Nat → OState
  | 0, st, _ => st
  | fuel + 1, st, t =>
    match st[t]? with
    | none => st
    | some c =>
      if c.processed then st else
      let st := match c.base with
        | some b => processOverrides cleanUri fuel st b
        | none => st
      validateClass cleanUri st t

/-- the RESOLVE step over the container in the given order -/
def runOverrides (cleanUri : Str → Str) (st : OState) (order : List Nat) : OState :=
  order.foldl (fun st t => processOverrides cleanUri (st.length + 1) st t) st

/-- what is generated: per class the fields (name, list or not) -/
def overrideFields (st : OState) : List (List (Str × Bool)) :=
  st.map (fun c => c.attrs.map (fun a => (a.name, a.isList)))

end Xs.Codegen
