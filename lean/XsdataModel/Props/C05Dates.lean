/- C05 — property theorems, part 4: `date` / `time` / `datetime` with a `format`
(`DateTimeBase`, `DateConverter`, `TimeConverter`, `DateTimeConverter`). -/
import XsdataModel.Props.C05
import XsdataModel.Proofs.StrptimeL
import XsdataModel.Proofs.DatesFormatParse

namespace Props.C05
open Py Xs.Conv Xs.Spec Xs.Dates

def fmtDate : Str := ['%', 'Y', '-', '%', 'm', '-', '%', 'd']
def fmtTime : Str := ['%', 'H', ':', '%', 'M', ':', '%', 'S']
def fmtTimeF : Str := fmtTime ++ ['.', '%', 'f']
def fmtDateTime : Str := fmtDate ++ 'T' :: fmtTime
def fmtDateTimeF : Str := fmtDate ++ 'T' :: fmtTimeF

/-- a real calendar date has a month in 1..12 and a day in 1..31 -/
theorem valid_date_bounds (y m d : Nat) (hv : validateDate y m d = true) :
    1 ≤ m ∧ m ≤ 12 ∧ 1 ≤ d ∧ d ≤ 31 := by
  obtain ⟨b1, b2, b3, _⟩ := Proofs.DatesFormatParse.validateDate_bounds _ _ _ hv
  refine ⟨by omega, by omega, by omega, ?_⟩
  have hv' := hv
  unfold validateDate at hv'
  have hmm : ((m : Int).toNat) = m := by omega
  simp only [hmm] at hv'
  have hcases : m = 1 ∨ m = 2 ∨ m = 3 ∨ m = 4 ∨ m = 5 ∨ m = 6 ∨ m = 7 ∨ m = 8 ∨ m = 9 ∨ m = 10 ∨ m = 11 ∨
      m = 12 := by omega
  rcases hcases with h | h | h | h | h | h | h | h | h | h | h | h <;> subst h <;>
    simp [monthlen, Tables.mdays] at hv' <;> (try split at hv') <;> omega

/-- **`datetime.date` with `%Y-%m-%d`, full strength** (was refuted by `date(999, 1, 2)` before
`DateTimeBase.serialize` padded the year): every date of the proleptic calendar that Python
can represent (years 1–9999) is written as `YYYY-MM-DD` and read back as the same date -/
theorem date_format_rt (e : CEnv) (y m d : Nat) (hy1 : 1 ≤ y) (hy2 : y ≤ 9999)
    (hv : validateDate y m d = true) :
    atomSerialize (.pyDate y m d) { format := some fmtDate } =
      .ok (zpadInt (y : Int) 4 ++ '-' :: (two m ++ '-' :: two d), none) ∧
    atomDeserialize e .pyDate (zpadInt (y : Int) 4 ++ '-' :: (two m ++ '-' :: two d)) { format := some fmtDate } =
      some (.pyDate y m d) := by
  obtain ⟨hm1, hm2, hd1, hd2⟩ := valid_date_bounds y m d hv
  obtain ⟨hdash, _, _⟩ := dash_colon_T_not_space e.toEnv
  obtain ⟨hyl, hyd, _⟩ := zpad_spec y 4 (by omega) (by omega)
  constructor
  · simp [atomSerialize, dtSerialize, fmtDate, strftime, zpadInt_two m (by omega), zpadInt_two d (by omega)]
  · have hc : compileFmt e.toEnv fmtDate false =
        .ok [.dir 'Y', .lit '-', .dir 'm', .lit '-', .dir 'd'] := by
      simp [fmtDate, compileFmt, numDirectives, hdash, Except.map]
    have hfirst : firstMatch e.toEnv [.dir 'Y', .lit '-', .dir 'm', .lit '-', .dir 'd']
        (zpadInt (y : Int) 4 ++ '-' :: (two m ++ '-' :: two d)) {} =
        some (((({} : TmF).set e.toEnv 'Y' (zpadInt (y : Int) 4)).set e.toEnv 'm' (two m)).set e.toEnv 'd' (two d), []) := by
      apply firstMatch_year e.toEnv _ hyl hyd
      rw [firstMatch_lit]
      apply firstMatch_two e.toEnv 'm' (by decide) m (by omega) (by simp [twoOk]; omega)
      rw [firstMatch_lit]
      have := firstMatch_two e.toEnv 'd' (by decide) d (by omega) (by simp [twoOk]; omega) [] []
        ((({} : TmF).set e.toEnv 'Y' (zpadInt (y : Int) 4)).set e.toEnv 'm' (two m)) _ (firstMatch_nil _ _ _)
      simpa using this
    have hstr := strptime_of_first e.toEnv _ fmtDate _ _ hc (by decide) hfirst
    simp only [TmF.set, pyIntC_zpad e.toEnv y 4 (by omega) (by omega), pyIntC_two e.toEnv m (by omega),
      pyIntC_two e.toEnv d (by omega)] at hstr
    simp only [atomDeserialize, dtParse, hstr]
    have hy0 : ¬ ((y : Int) < 1) := by omega
    simp [hy0, hv]

example : validateDate (999 : Nat) (2 : Nat) (28 : Nat) = true := by decide

/-- the earlier witness, now read back -/
theorem date_999_rt :
    atomSerialize (.pyDate 999 1 2) { format := some fmtDate } = .ok (['0','9','9','9','-','0','1','-','0','2'], none) ∧
    atomDeserialize asciiCEnv .pyDate ['0','9','9','9','-','0','1','-','0','2'] { format := some fmtDate } =
      some (.pyDate 999 1 2) := by
  have := date_format_rt asciiCEnv 999 1 2 (by decide) (by decide) (by decide)
  exact this

/-- **`datetime.time` with `%H:%M:%S.%f`, full strength**: hours, minutes, seconds and all six
digits of the microseconds -/
theorem time_format_rt (e : CEnv) (h mi sec us : Nat) (hh : h ≤ 23) (hmi : mi ≤ 59) (hs : sec ≤ 59)
    (hus : us < 1000000) :
    atomSerialize (.pyTime h mi sec us) { format := some fmtTimeF } =
      .ok (two h ++ ':' :: (two mi ++ ':' :: (two sec ++ '.' :: zpadInt (us : Int) 6)), none) ∧
    atomDeserialize e .pyTime (two h ++ ':' :: (two mi ++ ':' :: (two sec ++ '.' :: zpadInt (us : Int) 6)))
      { format := some fmtTimeF } = some (.pyTime h mi sec us) := by
  obtain ⟨_, hcolon, _⟩ := dash_colon_T_not_space e.toEnv
  have hdot : e.toEnv.isSpace '.' = false := by rw [isSpace_ascii e.toEnv _ (by decide)]; decide
  obtain ⟨hul, hud, _⟩ := zpad_spec us 6 (by omega) (by omega)
  constructor
  · simp [atomSerialize, dtSerialize, fmtTimeF, fmtTime, strftime, zpadInt_two h (by omega),
      zpadInt_two mi (by omega), zpadInt_two sec (by omega)]
  · have hc : compileFmt e.toEnv fmtTimeF false =
        .ok [.dir 'H', .lit ':', .dir 'M', .lit ':', .dir 'S', .lit '.', .dir 'f'] := by
      simp [fmtTimeF, fmtTime, compileFmt, numDirectives, hcolon, hdot, Except.map]
    have hfirst : firstMatch e.toEnv [.dir 'H', .lit ':', .dir 'M', .lit ':', .dir 'S', .lit '.', .dir 'f']
        (two h ++ ':' :: (two mi ++ ':' :: (two sec ++ '.' :: zpadInt (us : Int) 6))) {} =
        some ((((({} : TmF).set e.toEnv 'H' (two h)).set e.toEnv 'M' (two mi)).set e.toEnv 'S' (two sec)).set
          e.toEnv 'f' (zpadInt (us : Int) 6), []) := by
      apply firstMatch_two e.toEnv 'H' (by decide) h (by omega) (by simp [twoOk]; omega)
      rw [firstMatch_lit]
      apply firstMatch_two e.toEnv 'M' (by decide) mi (by omega) (by simp [twoOk]; omega)
      rw [firstMatch_lit]
      apply firstMatch_two e.toEnv 'S' (by decide) sec (by omega) (by simp [twoOk]; omega)
      rw [firstMatch_lit]
      have := firstMatch_frac e.toEnv _ hul hud [] []
        (((({} : TmF).set e.toEnv 'H' (two h)).set e.toEnv 'M' (two mi)).set e.toEnv 'S' (two sec)) _
        (firstMatch_nil _ _ _)
      simpa using this
    have hstr := strptime_of_first e.toEnv _ fmtTimeF _ _ hc (by decide) hfirst
    have hlj : ljust (zpadInt (us : Int) 6) 6 '0' = zpadInt (us : Int) 6 := by
      unfold ljust; simp [hul]
    simp only [TmF.set, pyIntC_two e.toEnv h (by omega), pyIntC_two e.toEnv mi (by omega),
      pyIntC_two e.toEnv sec (by omega), hlj, pyIntC_zpad e.toEnv us 6 (by omega) (by omega)] at hstr
    simp only [atomDeserialize, dtParse, hstr]
    have hs0 : ¬ ((sec : Int) > 59) := by omega
    have hvd : validateDate 1900 1 1 = true := by decide
    simp [hs0, hvd]

example : (23 : Nat) ≤ 23 ∧ (59 : Nat) ≤ 59 ∧ (999999 : Nat) < 1000000 := by decide

/-- **`datetime.datetime` with `%Y-%m-%dT%H:%M:%S.%f`, full strength**: every naive datetime -/
theorem datetime_format_rt (e : CEnv) (y m d h mi sec us : Nat) (hy1 : 1 ≤ y) (hy2 : y ≤ 9999)
    (hv : validateDate y m d = true) (hh : h ≤ 23) (hmi : mi ≤ 59) (hs : sec ≤ 59) (hus : us < 1000000) :
    atomSerialize (.pyDateTime ⟨y, m, d, h, mi, sec, us⟩) { format := some fmtDateTimeF } =
      .ok (zpadInt (y : Int) 4 ++ '-' :: (two m ++ '-' :: (two d ++ 'T' :: (two h ++ ':' :: (two mi ++ ':' ::
        (two sec ++ '.' :: zpadInt (us : Int) 6))))), none) ∧
    atomDeserialize e .pyDateTime
        (zpadInt (y : Int) 4 ++ '-' :: (two m ++ '-' :: (two d ++ 'T' :: (two h ++ ':' :: (two mi ++ ':' ::
          (two sec ++ '.' :: zpadInt (us : Int) 6))))))
        { format := some fmtDateTimeF } = some (.pyDateTime ⟨y, m, d, h, mi, sec, us⟩) := by
  obtain ⟨hm1, hm2, hd1, hd2⟩ := valid_date_bounds y m d hv
  obtain ⟨hdash, hcolon, hT⟩ := dash_colon_T_not_space e.toEnv
  have hdot : e.toEnv.isSpace '.' = false := by rw [isSpace_ascii e.toEnv _ (by decide)]; decide
  obtain ⟨hyl, hyd, _⟩ := zpad_spec y 4 (by omega) (by omega)
  obtain ⟨hul, hud, _⟩ := zpad_spec us 6 (by omega) (by omega)
  constructor
  · simp [atomSerialize, dtSerialize, fmtDateTimeF, fmtDate, fmtTimeF, fmtTime, strftime, zpadInt_two m (by omega),
      zpadInt_two d (by omega), zpadInt_two h (by omega), zpadInt_two mi (by omega), zpadInt_two sec (by omega)]
  · have hc : compileFmt e.toEnv fmtDateTimeF false =
        .ok [.dir 'Y', .lit '-', .dir 'm', .lit '-', .dir 'd', .lit 'T', .dir 'H', .lit ':', .dir 'M', .lit ':',
          .dir 'S', .lit '.', .dir 'f'] := by
      simp [fmtDateTimeF, fmtDate, fmtTimeF, fmtTime, compileFmt, numDirectives, hdash, hcolon, hT, hdot, Except.map]
    have hfirst : firstMatch e.toEnv [.dir 'Y', .lit '-', .dir 'm', .lit '-', .dir 'd', .lit 'T', .dir 'H', .lit ':',
          .dir 'M', .lit ':', .dir 'S', .lit '.', .dir 'f']
        (zpadInt (y : Int) 4 ++ '-' :: (two m ++ '-' :: (two d ++ 'T' :: (two h ++ ':' :: (two mi ++ ':' ::
          (two sec ++ '.' :: zpadInt (us : Int) 6)))))) {} =
        some (((((((({} : TmF).set e.toEnv 'Y' (zpadInt (y : Int) 4)).set e.toEnv 'm' (two m)).set e.toEnv 'd' (two d)).set
          e.toEnv 'H' (two h)).set e.toEnv 'M' (two mi)).set e.toEnv 'S' (two sec)).set e.toEnv 'f'
          (zpadInt (us : Int) 6), []) := by
      apply firstMatch_year e.toEnv _ hyl hyd
      rw [firstMatch_lit]
      apply firstMatch_two e.toEnv 'm' (by decide) m (by omega) (by simp [twoOk]; omega)
      rw [firstMatch_lit]
      apply firstMatch_two e.toEnv 'd' (by decide) d (by omega) (by simp [twoOk]; omega)
      rw [firstMatch_lit]
      apply firstMatch_two e.toEnv 'H' (by decide) h (by omega) (by simp [twoOk]; omega)
      rw [firstMatch_lit]
      apply firstMatch_two e.toEnv 'M' (by decide) mi (by omega) (by simp [twoOk]; omega)
      rw [firstMatch_lit]
      apply firstMatch_two e.toEnv 'S' (by decide) sec (by omega) (by simp [twoOk]; omega)
      rw [firstMatch_lit]
      have := firstMatch_frac e.toEnv _ hul hud [] []
        ((((((({} : TmF).set e.toEnv 'Y' (zpadInt (y : Int) 4)).set e.toEnv 'm' (two m)).set e.toEnv 'd' (two d)).set
          e.toEnv 'H' (two h)).set e.toEnv 'M' (two mi)).set e.toEnv 'S' (two sec)) _ (firstMatch_nil _ _ _)
      simpa using this
    have hstr := strptime_of_first e.toEnv _ fmtDateTimeF _ _ hc (by decide) hfirst
    have hlj : ljust (zpadInt (us : Int) 6) 6 '0' = zpadInt (us : Int) 6 := by
      unfold ljust; simp [hul]
    simp only [TmF.set, pyIntC_zpad e.toEnv y 4 (by omega) (by omega), pyIntC_two e.toEnv m (by omega),
      pyIntC_two e.toEnv d (by omega), pyIntC_two e.toEnv h (by omega), pyIntC_two e.toEnv mi (by omega),
      pyIntC_two e.toEnv sec (by omega), hlj, pyIntC_zpad e.toEnv us 6 (by omega) (by omega)] at hstr
    simp only [atomDeserialize, dtParse, hstr]
    have hy0 : ¬ ((y : Int) < 1) := by omega
    have hs0 : ¬ ((sec : Int) > 59) := by omega
    simp [hy0, hs0, hv]

/-- a missing `format` is a `ConverterError` in both directions, for all three types -/
theorem datetime_needs_format (e : CEnv) (s : Str) (v : PyDT) :
    atomDeserialize e .pyDate s {} = none ∧ atomDeserialize e .pyTime s {} = none ∧
    atomDeserialize e .pyDateTime s {} = none ∧
    atomSerialize (.pyDateTime v) {} = .error .converterError := ⟨rfl, rfl, rfl, rfl⟩

end Props.C05
