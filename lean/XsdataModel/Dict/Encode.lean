/-
L6 — xsdata/formats/dataclass/serializers/dict.py : `DictEncoder.encode` /
`next_value`, and `JsonSerializer.render` with `json.dump` as a parameter.

`encode(value, var, wrapped)` only looks at `var` for the wrapper key (and for
`format`, which no type of the fragment uses), so the recursion is
`encVar` (None / wrapper object) → `encCore` (arrays) → `encItem` (scalars,
mappings, models).  Recursion into a nested model instance goes through the
`rec` argument; `encModelF` ties the knot with a fuel counter that is consumed
once per nesting level of model instances.
-/
import XsdataModel.Dict.Basic

namespace Xs.Dict
open Py Xs.Bind

/-- primitives: `isinstance(value, (dict, int, float, str, bool))` are passed through;
a `QName` goes through `converter.serialize(value, format=…)` = `value.text` -/
def encPrim : PVal → J
  | .str s => .str s
  | .int i => .num i
  | .bool b => .bool b
  | .qname t => .str t

/-- `encode(value, var, wrapped)` for a value that is not an array, after the
`None` and wrapper checks -/
def encItemWith (rec : Val → Except Err J) : Val → Except Err J
  | .none => .ok .null
  | .prim p => .ok (encPrim p)
  | .attrs m => .ok (.obj (m.map fun kv => (kv.1, J.str kv.2)))   -- a `dict` is returned as it is
  | .list _ => .error (.unsupported "list nested deeper than two levels")
  | v => rec v                                                     -- `is_model(value)`

/-- an array item: either a scalar/model or (token lists of a list element) an inner array -/
def encElemWith (rec : Val → Except Err J) : Val → Except Err J
  | .list zs => (zs.mapM (encItemWith rec)).map J.arr
  | x => encItemWith rec x

/-- `encode(value, var, wrapped)` when `var.wrapper` is unset or `wrapped` is true:
`type(value)(self.encode(val, var, wrapped) for val in value)` for arrays -/
def encCoreWith (rec : Val → Except Err J) : Val → Except Err J
  | .list xs => (xs.mapM (encElemWith rec)).map J.arr
  | v => encItemWith rec v

/-- `self.encode(value, var)` as called from `next_value` -/
def encVarWith (fac : Factory) (rec : Val → Except Err J) (var : XmlVar) (value : Val) : Except Err J :=
  match value with
  | .none => .ok .null
  | _ =>
    match wrapperName var.toVarCore with
    | some _ => (encCoreWith rec value).map fun j => fac.apply [(var.localName, j)]
    | none => encCoreWith rec value

/-- `var.is_optional(value)` -/
def isOptional (var : XmlVar) (value : Val) : Bool := !var.required && defaultEq var.default value

/-- the `(key, value)` pairs `next_value` yields for the given vars -/
def encPairsWith (fac : Factory) (cfg : SerCfg) (rec : Val → Except Err J) (fields : List (Str × Val)) :
    List XmlVar → Except Err (List (Str × J))
  | [] => .ok []
  | var :: rest =>
    match getField fields var.name with
    | .error e => .error e
    | .ok value =>
      if !var.isAttribute || !cfg.ignoreDefaultAttributes || !isOptional var value then
        match encVarWith fac rec var value with
        | .error e => .error e
        | .ok j =>
          match encPairsWith fac cfg rec fields rest with
          | .error e => .error e
          | .ok ps => .ok ((keyOf var.toVarCore, j) :: ps)
      else encPairsWith fac cfg rec fields rest

/-- `self.dict_factory(self.next_value(obj))` -/
def encObjWith (Γ : Ctx) (fac : Factory) (cfg : SerCfg) (rec : Val → Except Err J) (c : ClassId)
    (fields : List (Str × Val)) : Except Err J :=
  match metaOf Γ c with
  | .error e => .error e
  | .ok m => (encPairsWith fac cfg rec fields (allVars m)).map fac.apply

/-- a model instance; `fuel` bounds the nesting depth of model instances -/
def encModelF (Γ : Ctx) (fac : Factory) (cfg : SerCfg) : Nat → Val → Except Err J
  | 0, _ => .error (.unsupported "fuel")
  | n + 1, v =>
    match asObject v with
    | some (c, fs) => encObjWith Γ fac cfg (encModelF Γ fac cfg n) c fs
    | none => .error (.context "not a dataclass")   -- `context.build(obj.__class__)` of a non-model

/-- one item of a list document: `self.encode(item)` with no var -/
def encTopItem (Γ : Ctx) (fac : Factory) (cfg : SerCfg) (fuel : Nat) : Val → Except Err J
  | .none => .ok .null
  | .list _ => .error (.unsupported "nested top-level list")
  | x => encModelF Γ fac cfg fuel x

/-- `DictEncoder.encode(value)` (no var): `None`, a list of model instances, or a model instance -/
def encode (Γ : Ctx) (fac : Factory) (cfg : SerCfg) (fuel : Nat) : Val → Except Err J
  | .none => .ok .null
  | .list xs => (xs.mapM (encTopItem Γ fac cfg fuel)).map J.arr
  | v => encModelF Γ fac cfg fuel v

/-! ### JSON text -/

/-- `JsonSerializer.render` -/
def render {Text} (lib : JsonLib Text) (Γ : Ctx) (fac : Factory) (cfg : SerCfg) (fuel : Nat) (v : Val) :
    Except Err Text :=
  match encode Γ fac cfg fuel v with
  | .error e => .error e
  | .ok j =>
    match lib.dump j with
    | some t => .ok t
    | none => .error (.leaked "TypeError")

end Xs.Dict
