/-
C01 helper lemmas, part 3: `EventGenerator.next_attribute` against
`ElementNode.bind_attrs` for the attribute vars of fragment F1.
-/
import XsdataModel.Proofs.C01Spec

namespace Proofs.C01
open Py Xs.Bind Xs.Bind.F1

/-! ### field access -/

theorem find?_fst_isSome {fields : List (Str × Val)} {name : Str}
    (h : name ∈ fields.map (·.1)) : ∃ x, fields.find? (·.1 = name) = some (name, x) := by
  induction fields with
  | nil => simp at h
  | cons a t ih =>
    obtain ⟨k, v⟩ := a
    by_cases hk : k = name
    · subst hk; exact ⟨v, by simp⟩
    · have : name ∈ t.map (·.1) := by
        simp only [List.map_cons, List.mem_cons] at h
        rcases h with h | h
        · exact absurd h.symm hk
        · exact h
      obtain ⟨x, hx⟩ := ih this
      exact ⟨x, by simp [hk, hx]⟩

theorem getField_look {fields : List (Str × Val)} {name : Str}
    (h : name ∈ fields.map (·.1)) : getField fields name = .ok (look fields name) := by
  obtain ⟨x, hx⟩ := find?_fst_isSome h
  simp [getField, look, hx]

theorem encodePrimitive_prim {p : PVal} {t : PT} (h : primHasType p t = true) :
    encodePrimitive (.prim p) = .ok (.prim (.str (serPrim p))) := by
  cases p <;> cases t <;> simp [primHasType] at h <;> simp [encodePrimitive, serPrim]

/-- a typed primitive parses back from its serialization without a warning -/
theorem parseVar_serPrim (e : BEnv) (cfg : ParserConfig) (vc : VarCore) (p : PVal) (t : PT)
    (nsmap : NsMap) (htok : vc.tokens = false) (hty : vc.types = [.prim t])
    (hp : primHasType p t = true) :
    parseVar e cfg vc (some (serPrim p)) nsmap = .ok ⟨.prim p, false⟩ := by
  simp [parseVar, htok, hty, deserialize_serPrim e p t nsmap hp]

/-! ### params -/

theorem Params.has_eq_false {P : Params} {k : Str} :
    P.has k = false ↔ ∀ kv ∈ P, kv.1 ≠ k := by
  simp [Params.has]

theorem Params.set_fresh {P : Params} {k : Str} (v : Val) (h : P.has k = false) :
    P.set k v = P ++ [(k, v)] := by
  simp [Params.set, h]

theorem Params.has_append (P Q : Params) (k : Str) : (P ++ Q).has k = (P.has k || Q.has k) := by
  simp [Params.has]

theorem Params.get_append (P Q : Params) (k : Str) :
    (P ++ Q).get k = (P.get k).or (Q.get k) := by
  simp only [Params.get, List.find?_append]
  cases List.find? (fun x => decide (x.fst = k)) P <;> simp

theorem Params.get_eq_none {P : Params} {k : Str} (h : P.has k = false) : P.get k = none := by
  rw [Params.has_eq_false] at h
  simp only [Params.get, Option.map_eq_none_iff, List.find?_eq_none, decide_eq_true_eq]
  exact h

/-! ### what the proof needs to know about one attribute var and its value -/

structure AttrFacts (Γ : Ctx) (m : XmlMeta) (fields : List (Str × Val)) (var : XmlVar) : Prop where
  isAttr : var.isAttribute = true
  init : var.init = true
  tokens : var.tokens = false
  find : m.findAttribute var.qname = some var
  notNil : var.qname ≠ xsiNil
  notType : var.qname ≠ xsiType
  mem : var.name ∈ fields.map (·.1)
  typed : ∃ t, var.types = [.prim t] ∧
    (look fields var.name = .none ∨
      ∃ p, look fields var.name = .prim p ∧ primHasType p t = true ∧ attrStrOK Γ p = true)

theorem attrOf_some {Γ : Ctx} {m : XmlMeta} {fields : List (Str × Val)} {var : XmlVar}
    (h : AttrFacts Γ m fields var) {cfg : SerCfg} {p : PVal} (hp : attrOf cfg fields var = some p) :
    look fields var.name = .prim p ∧ ∃ t, var.types = [.prim t] ∧ primHasType p t = true ∧
      attrStrOK Γ p = true := by
  obtain ⟨t, hty, hv⟩ := h.typed
  rcases hv with hv | ⟨p', hv, hpt, hs⟩
  · simp [attrOf, hv] at hp
  · simp only [attrOf, hv] at hp
    split at hp
    · cases hp
    · cases hp; exact ⟨hv, t, hty, hpt, hs⟩

/-! ### `next_attribute` -/

theorem attrEvs_flatten (cfg : SerCfg) (fields : List (Str × Val)) (vars : List XmlVar) :
    (vars.map fun var => ((attrOf cfg fields var).map fun p =>
        Ev.attr var.qname (.prim (.str (serPrim p)))).toList).flatten =
      attrEvs (attrPairs cfg vars fields) := by
  induction vars with
  | nil => rfl
  | cons v t ih =>
    simp only [List.map_cons, List.flatten_cons, ih, attrPairs, List.filterMap_cons]
    cases attrOf cfg fields v <;> simp [attrEvs]

theorem nextAttribute_F1 {Γ : Ctx} (cfg : SerCfg) (m : XmlMeta) (fields : List (Str × Val))
    (h : ∀ var ∈ m.attributeVars, AttrFacts Γ m fields var) :
    nextAttribute cfg m fields false none =
      .ok (attrEvs (attrPairs cfg m.attributeVars fields)) := by
  unfold nextAttribute
  rw [mapM_ok _ (fun var => ((attrOf cfg fields var).map fun p =>
        Ev.attr var.qname (.prim (.str (serPrim p)))).toList)]
  · simp only [bind, Except.bind, pure, Except.pure, Bool.false_eq_true, if_false,
      List.append_nil, attrEvs_flatten]
  · intro var hvar
    have hf := h var hvar
    obtain ⟨t, hty, hv⟩ := hf.typed
    simp only [hf.isAttr, if_true, getField_look hf.mem, bind, Except.bind]
    rcases hv with hv | ⟨p, hv, hpt, _⟩
    · simp [hv, attrOf, pure, Except.pure]
    · simp only [hv, attrOf, Bool.false_or]
      split <;> simp_all [encodePrimitive_prim hpt, pure, Except.pure]

/-! ### `bind_attrs` -/

theorem foldlM_attr_gen {Γ : Ctx} {m : XmlMeta} {fields : List (Str × Val)} (cfg : SerCfg)
    (step : Params × Nat → QN × Str → Except Err (Params × Nat))
    (hstep : ∀ (P : Params) (var : XmlVar) (p : PVal), AttrFacts Γ m fields var →
      attrOf cfg fields var = some p → P.has var.name = false →
      step (P, 0) (var.qname, serPrim p) = .ok (P ++ [(var.name, .prim p)], 0)) :
    ∀ (vars : List XmlVar) (P0 : Params), (∀ var ∈ vars, AttrFacts Γ m fields var) →
      (vars.map (·.name)).Nodup → (∀ var ∈ vars, P0.has var.name = false) →
      (attrPairs cfg vars fields).foldlM step (P0, 0) =
        .ok (P0 ++ attrParams cfg vars fields, 0) := by
  intro vars
  induction vars with
  | nil => intro P0 _ _ _; simp [attrPairs, attrParams]; rfl
  | cons v t ih =>
    intro P0 hf hnd hfresh
    simp only [List.map_cons, List.nodup_cons] at hnd
    have iht := fun P (hP : ∀ var ∈ t, Params.has P var.name = false) =>
      ih P (fun var hv => hf var (by simp [hv])) hnd.2 hP
    cases ha : attrOf cfg fields v with
    | none =>
      simp only [attrPairs, attrParams, List.filterMap_cons, ha, Option.map_none]
      exact iht P0 (fun var hv => hfresh var (by simp [hv]))
    | some p =>
      simp only [attrPairs, attrParams, List.filterMap_cons, ha, Option.map_some,
        List.foldlM_cons]
      rw [hstep P0 v p (hf v (by simp)) ha (hfresh v (by simp))]
      show List.foldlM step _ (attrPairs cfg t fields) = _
      rw [iht]
      · simp [attrParams]
      · intro var hv
        rw [Params.has_append, hfresh var (by simp [hv])]
        simp only [Params.has, List.any_cons, List.any_nil, Bool.or_false, Bool.false_or,
          decide_eq_false_iff_not]
        intro heq
        exact hnd.1 (List.mem_map.2 ⟨var, hv, heq.symm⟩)

theorem bindAttrs_F1 {Γ : Ctx} (e : BEnv) (pcfg : ParserConfig) (cfg : SerCfg) (m : XmlMeta)
    (fields : List (Str × Val)) (nsmap : NsMap)
    (h : ∀ var ∈ m.attributeVars, AttrFacts Γ m fields var)
    (hnd : (m.attributeVars.map (·.name)).Nodup) :
    bindAttrs e pcfg m (attrPairs cfg m.attributeVars fields) nsmap =
      .ok (attrParams cfg m.attributeVars fields, 0) := by
  unfold bindAttrs
  refine foldlM_attr_gen (Γ := Γ) (m := m) (fields := fields) cfg _ ?_ m.attributeVars [] h hnd
    (fun _ _ => rfl)
  · intro P var p hf ha hfresh
    obtain ⟨_, t, hty, hpt, _⟩ := attrOf_some hf ha
    have hpv := parseVar_serPrim e pcfg var.toVarCore p t nsmap hf.tokens hty hpt
    simp [hf.find, hfresh, hpv, hf.init, Params.set_fresh, bind, Except.bind, pure, Except.pure]

/-! ### the attribute list in the writer -/

theorem attrPairs_keys {Γ : Ctx} {m : XmlMeta} {fields : List (Str × Val)} (cfg : SerCfg)
    (vars : List XmlVar) (h : ∀ var ∈ vars, AttrFacts Γ m fields var) :
    ∀ kv ∈ attrPairs cfg vars fields, kv.1 ≠ xsiNil ∧ kv.1 ≠ xsiType ∧
      attrPlain (isDatatype Γ) kv := by
  intro kv hkv
  simp only [attrPairs, List.mem_filterMap, Option.map_eq_some_iff] at hkv
  obtain ⟨var, hvar, p, hp, rfl⟩ := hkv
  have hf := h var hvar
  refine ⟨hf.notNil, hf.notType, ?_⟩
  obtain ⟨_, t, _, hpt, hs⟩ := attrOf_some hf hp
  intro ⟨hhead, hdt⟩
  rcases hdt with hdt | hdt
  · exact hf.notType hdt
  · cases p with
    | str s =>
      simp only [attrStrOK, serPrim] at hs hhead hdt
      simp [hhead, hdt] at hs
    | int i => exact serPrim_head (.int i) (by simp) (by simp) hhead
    | bool b => exact serPrim_head (.bool b) (by simp) (by simp) hhead
    | qname s => cases t <;> simp [primHasType] at hpt

theorem attrPairs_nodup (cfg : SerCfg) (fields : List (Str × Val)) (vars : List XmlVar)
    (h : (vars.map (·.qname)).Nodup) : ((attrPairs cfg vars fields).map (·.1)).Nodup := by
  induction vars with
  | nil => simp [attrPairs]
  | cons v t ih =>
    simp only [List.map_cons, List.nodup_cons] at h
    simp only [attrPairs, List.filterMap_cons]
    cases attrOf cfg fields v with
    | none => exact ih h.2
    | some p =>
      simp only [Option.map_some, List.map_cons, List.nodup_cons]
      refine ⟨?_, ih h.2⟩
      intro hmem
      apply h.1
      simp only [List.mem_map, List.mem_filterMap, Option.map_eq_some_iff] at hmem
      obtain ⟨kv, ⟨var, hvar, p', _, rfl⟩, hq⟩ := hmem
      exact List.mem_map.2 ⟨var, hvar, hq⟩

end Proofs.C01
