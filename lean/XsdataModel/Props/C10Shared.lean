/- C10 — the outcome of a parse depends on (metadata, document, configuration) only: the
   shared binding metadata is not written by a parse.  Property theorems (only). -/
import XsdataModel.Proofs.C10Shared
import XsdataModel.BindShared.Union
import XsdataModel.Props.C10

namespace Props.C10
open Py Xs.Bind Proofs.C10 Proofs.C10Shared
open Proofs.C10.Ex (exEnv exCtx metaRoot leafT unk docKids doc)

/-- **parse_reads_given_context**: over a shared context the parser returns what the pure
parser returns on the context as it stood when the call began, and hands the context on. -/
theorem parseRootS_eq (e : BEnv) (cfg : ParserConfig) (clazz : ClassId) (t : Tree) (Γ : Ctx) :
    parseRootS e cfg clazz t Γ = (parseRoot e Γ cfg clazz t, Γ) := by
  obtain ⟨q, a, n, text, c, tl⟩ := t
  simp only [parseRootS, parseRoot, bind, Except.bind]
  cases xsiTypeOf e a n with
  | error err => rfl
  | ok xt =>
    simp only
    cases Γ.fetch clazz none xt with
    | error err => rfl
    | ok m =>
      simp only [parseNodeS_eq]
      cases parseNode e Γ cfg _ (Tree.node q a n text c tl) with
      | error err => rfl
      | ok out => rfl

/-- **meta_unchanged_by_parse**: the binding metadata (every `XmlMeta`, `XmlVar` held by the
context) after any parse — any document, any class, any of the 8 configurations, successful
or failing — is the metadata before it. -/
theorem meta_unchanged_by_parse (e : BEnv) (cfg : ParserConfig) (clazz : ClassId) (t : Tree) (Γ : Ctx) :
    (parseRootS e cfg clazz t Γ).2 = Γ := by
  rw [parseRootS_eq]

/-- **shared_context_transparent**: a program that makes any sequence of parser calls on one
shared context (lenient and strict in any order, documents with unknown content or not)
gets from every call what that call returns on the context alone, and leaves the context
as it found it: the outcome depends on (metadata, document, configuration) only. -/
theorem shared_context_transparent (e : BEnv) (calls : List Call) (Γ : Ctx) :
    parseSeqS e calls Γ = (calls.map (fun c => parseRoot e Γ c.cfg c.clazz c.doc), Γ) := by
  induction calls with
  | nil => rfl
  | cons c cs ih => simp only [parseSeqS, parseRootS_eq, ih, List.map_cons]

/-- **strict_after_lenient**: the situation of the seeded memo: a lenient parse of a document
with an unknown element first, then the same document under the strict default on the same
context: the second call raises `ParserError` (the first one is as in `skip_invariant_root`). -/
theorem strict_after_lenient {e : BEnv} {Γ : Ctx} {lenientCfg strictCfg : ParserConfig} {clazz : ClassId} {q : QN}
    {pa : List (QN × Str)} {pn : NsMap} {m : XmlMeta}
    (hl : lenientCfg.failOnUnknownProperties = false) (hs : strictCfg.failOnUnknownProperties = true)
    (hm : rootMeta e Γ clazz pa pn = some m) (hq : unknownFor m q = true)
    (a : List (QN × Str)) (n : NsMap) (t : Option Str) (c : List Tree) (tl : Option Str)
    (pq : QN) (pt ptl : Option Str) (pre post : List Tree)
    {o1 : Out} {st1 : ElState} (hpre : parseKids e Γ strictCfg m {} none pre = .ok (o1, st1)) :
    let d := Tree.node pq pa pn pt (pre ++ .node q a n t c tl :: post) ptl
    (parseSeqS e [⟨lenientCfg, clazz, d⟩, ⟨strictCfg, clazz, d⟩] Γ).1 =
      [parseRoot e Γ lenientCfg clazz (.node pq pa pn pt (pre ++ post) ptl), .error (.parser "Unknown property")] := by
  have hu : rootUnknown e Γ clazz pa pn q = true := by simp [rootUnknown, hm, hq]
  simp only [shared_context_transparent, List.map_cons, List.map_nil,
    skip_invariant_root hl hu, strict_unknown_fails_root hs hm hq a n t c tl pq pt ptl pre post hpre]

/- non-vacuity: lenient then strict on the example universe, document `<R><a>hi</a><z…/>…</R>` -/
example : (parseSeqS exEnv [⟨lenient, ['R'], doc ([leafT ['h','i'] ['a']] ++ unk :: docKids.drop 1)⟩,
                            ⟨{}, ['R'], doc ([leafT ['h','i'] ['a']] ++ unk :: docKids.drop 1)⟩] exCtx).1
    = [.ok (.obj ['R'] [(['a'], .prim (.str ['h','i'])),
          (['l'], .obj ['L'] [(['x'], .prim (.int 5)), (['i'], .prim (.int 7))])], 0),
       .error (.parser "Unknown property")] := by rfl


/-! ## the options a union element is replayed under -/

/-- **union_replay_config_spec**: the candidates of a union field are parsed with conversions
strict and with the caller's own `fail_on_unknown_properties` / `fail_on_unknown_attributes`. -/
theorem union_replay_config_spec (cfg : ParserConfig) :
    (unionReplayConfig cfg).failOnConverterWarnings = true
    ∧ (unionReplayConfig cfg).failOnUnknownProperties = cfg.failOnUnknownProperties
    ∧ (unionReplayConfig cfg).failOnUnknownAttributes = cfg.failOnUnknownAttributes := ⟨rfl, rfl, rfl⟩

/-- **union_replay_attr_policy**: hence inside a union-bound element an unknown attribute is
treated by the caller's option exactly as anywhere else: `bind_attrs` of a candidate under the
replay configuration decides like `bind_attrs` under the caller's (`unknown_attr_policy`):
ignored when the option is off or the name is an xsi name, `ParserError` otherwise. -/
theorem union_replay_attr_policy {m : XmlMeta} {q : QN} (hq : unknownAttr m q = true)
    (e : BEnv) (cfg : ParserConfig) (ns : NsMap) (v : Str) (a1 a2 : List (QN × Str)) :
    bindAttrs e (unionReplayConfig cfg) m (a1 ++ (q, v) :: a2) ns =
      if attrReported cfg q then
        thenFail (bindAttrs e (unionReplayConfig cfg) m a1 ns) (.parser "Unknown attribute")
      else bindAttrs e (unionReplayConfig cfg) m (a1 ++ a2) ns := by
  rw [unknown_attr_policy hq]
  rfl

/-- **union_replay_unknown_policy**: and an unknown child element below it by the caller's
`fail_on_unknown_properties`: skipped when off (any position, any subtree). -/
theorem union_replay_unknown_policy {e : BEnv} {Γ : Ctx} {cfg : ParserConfig} {m : XmlMeta} {q : QN}
    (hc : cfg.failOnUnknownProperties = false) (hq : unknownFor m q = true)
    (a : List (QN × Str)) (n : NsMap) (t : Option Str) (c : List Tree) (tl : Option Str)
    (st : ElState) (w : Option QN) (pre post : List Tree) :
    parseKids e Γ (unionReplayConfig cfg) m st w (pre ++ .node q a n t c tl :: post)
      = parseKids e Γ (unionReplayConfig cfg) m st w (pre ++ post) :=
  skip_invariant (cfg := unionReplayConfig cfg) hc hq a n t c tl st w pre post

/- non-vacuity: the default configuration: attributes lenient in the replay as well -/
example : attrReported (unionReplayConfig {}) ['z'] = false ∧ (unionReplayConfig {}).failOnConverterWarnings = true := by
  decide

end Props.C10
