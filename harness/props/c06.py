"""C06 — XML Schema date, time, duration and period types are exact."""
import re

from framework import Corr, Oracle, err, ok
from xsdata.models.datatype import XmlDate, XmlDateTime, XmlDuration, XmlPeriod, XmlTime
from xsdata.utils import dates as D

PROP_ID = "C06"
DESIGN_REF = "6/C06"
KINDS = {"date": XmlDate, "time": XmlTime, "datetime": XmlDateTime}
TRUSTED = [
    "CPython int() on ASCII digit runs, str.strip(), str.isdigit(), f-string integer formatting are modelled by hand (Py/Basic.lean) and compared through ops py.int/date.args",
    "Unicode tables come from the interpreter that runs xsdata (unicodedata), regenerated each run",
    "XSD 1.1 Part 2 lexical grammars and lexical mappings of date/time/dateTime/g*/duration in Spec/XsdDate.lean are my transcription "
    "(duration seconds as in the pattern of §3.3.6.2, [0-9]+(\\.[0-9]+)?; the plug-in's oracle regexes are a second, independent transcription)",
    "xml_duration_re is modelled by hand (Lex/Period.lean: optGroup/optSeconds/matchBody), tied to re by op dur.parse",
    "the standard library's date/time/datetime/timezone/timedelta are modelled as records with the range checks, the C-int conversion and the "
    "timedelta/timezone limits of CPython (Lex/Stdlib.lean), tied to the real objects by ops date.to_std/date.from_std",
]
ASSUMPTIONS = [
    "a missing timezone is read as UTC when comparing and when taking the instant of a naive datetime (the property does not fix this; the code does the same)",
    "24:00:00 keeps hour 24 as its component; that it is the first instant of the next day is theorem timeline_end_of_day",
    "'preserve the instant' is claimed where the target type can hold the value: to_* for year 1..9999, no 24:00:00, |offset| < 24 h, exact down to "
    "the microsecond (the deviation fractional_second % 1000 ns is proved exactly); from_* for utcoffsets that are whole minutes (the deviation utcoffset % 1 min is proved exactly)",
    "xs:duration seconds are compared as the matched decimal text; the code hands that text to float()",
    "hash(int) is that of a 64-bit CPython (modulus 2**61-1, asserted when the plug-in is loaded)",
    "the converse theorems speak about s.strip(): Python's strip() removes more kinds of white space than XSD's four characters",
]

# ----------------------------------------------------------------- impl side


def impl_parse(a):
    cls = KINDS[a["kind"]]
    try:
        v = cls.from_string(a["s"])
    except ValueError:
        return err("ValueError")
    except Exception as e:  # noqa: BLE001
        return err("LEAK:" + type(e).__name__)
    return ok(list(v))


def impl_str(a):
    cls = KINDS[a["kind"]]
    return ok(str(cls(*a["v"])))


def impl_args(a):
    try:
        return ok(list(D.parse_date_args(a["s"], a["fmt"])))
    except ValueError:
        return err("ValueError")
    except Exception as e:  # noqa: BLE001
        return err("LEAK:" + type(e).__name__)


def impl_int(a):
    try:
        return ok(int(a["s"]))
    except ValueError:
        return err("ValueError")


def impl_validate_date(a):
    try:
        D.validate_date(*a["v"])
        return ok(True)
    except ValueError:
        return ok(False)
    except Exception as e:  # noqa: BLE001
        return err("LEAK:" + type(e).__name__)


def impl_validate_time(a):
    try:
        D.validate_time(*a["v"])
        return ok(True)
    except ValueError:
        return ok(False)


# ----------------------------------------------------------------- generators

ALPHA = "0123456789-+:.TZ _\t\n٣²x"


def rand_offset(rng):
    r = rng.random()
    if r < 0.35:
        return None
    if r < 0.5:
        return 0
    if r < 0.6:
        return rng.choice([840, -840, 1, -1, 59, 60, -60, 839])
    return rng.randint(-840, 840)


def rand_year(rng):
    r = rng.random()
    if r < 0.5:
        return rng.randint(1, 9999)
    if r < 0.6:
        return rng.choice([0, 1, 9, 10, 99, 100, 999, 1000, 9999, 10000, 99999, 123456789])
    if r < 0.8:
        return -rng.randint(1, 20000)
    return rng.randint(10000, 10**rng.randint(5, 12))


def rand_frac(rng):
    r = rng.random()
    if r < 0.3:
        return 0
    if r < 0.5:
        return rng.randint(0, 999) * 10**6
    if r < 0.7:
        return rng.randint(0, 999999) * 1000
    return rng.randint(0, 999999999)


def rand_date(rng):
    y = rand_year(rng)
    m = rng.randint(1, 12)
    d = rng.randint(1, D.monthlen(y, m)) if rng.random() < 0.8 else D.monthlen(y, m)
    return y, m, d


def rand_time(rng):
    if rng.random() < 0.05:
        return 24, 0, 0, 0
    return rng.randint(0, 23), rng.randint(0, 59), rng.randint(0, 59), rand_frac(rng)


def rand_value(rng, kind):
    if kind == "date":
        return [*rand_date(rng), rand_offset(rng)]
    if kind == "time":
        return [*rand_time(rng), rand_offset(rng)]
    return [*rand_date(rng), *rand_time(rng), rand_offset(rng)]


def mutate(rng, s):
    r = rng.random()
    if not s:
        return rng.choice(ALPHA)
    i = rng.randrange(len(s))
    if r < 0.25:
        return s[:i] + s[i + 1 :]
    if r < 0.5:
        return s[:i] + rng.choice(ALPHA) + s[i:]
    if r < 0.75:
        return s[:i] + rng.choice(ALPHA) + s[i + 1 :]
    if r < 0.85:
        return s[:i] + s[i] + s[i:]
    if r < 0.95:
        return rng.choice([" ", "\t", "\n ", " ", ""]) + s + rng.choice([" ", "\r\n", " ", ""])
    j = rng.randrange(len(s))
    return s[: min(i, j)] + s[max(i, j) :]


HAND = {
    "date": [
        "2021-02-30", "2021-02-28", "2020-02-29", "1900-02-29", "2000-02-29", "2021-13-45", "2021-00-10", "2021-01-00",
        "-0001-01-01", "0000-01-01", "-0000-01-01", "12345-01-01", "012345-01-01", "00001-01-01", "0001-01-01Z", "2002-01-01-05:00",
        "2002-01-01+14:00", "2002-01-01+14:01", "2002-01-01+24:00", "  2002-01-01  ", "2002-1-1", "2002-01-1", "+2002-01-01", "--123-01-01",
        "2002- 1- 1", "2002-01-01z", "2002-01-01+5:00", "2002-01-01+05:0", "2002-01-01+05", "٢٠٠٢-01-01", "2002-٠١-01", "2002-01-01T", "",
        "2002", "2002-01", "20020101", "2002-01-01-", "2002-01-01+", "2002-01-01Z ", "2002-01-01 Z", "2²02-01-01", "2002-01-01+0²:00",
        "2002-1_-01", "2_02-01-01", "20_2-01-01", "9999999999999999999999-01-01",
    ],
    "time": [
        "21:32:52", "21:32:52+02:00", "19:32:52Z", "21:32:52.12679", "24:00:00", "24:00:00.0", "24:00:01", "24:01:00", "25:00:00",
        "00:00:00.000000001", "00:00:00.0000000001", "00:00:00.", "00:60:00", "00:00:60", "1:2:3", "21:32", "21:32:52.1٣", "21:32:52.²",
        "21:32:52-14:00", "21:32:52-14:01", "21:32:52.123456789Z", " 21:32:52 ", "+1:32:52", "21:32:5 ", "21:32:52+2:000",
        "-1:32:52", "21:-1:52", "21:32:-1", "21:32:52.-1",
    ],
    "datetime": [
        "2002-01-01T12:01:01", "2002-01-01T12:01:01Z", "-2002-01-01T12:01:01.5-03:30", "2002-02-30T12:01:01", "2002-01-01T24:00:00",
        "2002-12-31T24:00:00", "2002-01-01T24:00:00.1", "2002-01-01 12:01:01", "2002-01-01t12:01:01", "2002-01-01T12:01:01.123456789",
        "2002-01-01T12:01:01.1234567890", "2002-01-01T12:01", "  2002-01-01T12:01:01\n", "2002-01-01T12:01:01+00:00", "0000-01-01T00:00:00",
        "2002-01-01T12:01:01-00:00", "2002-01-01T12:01:01+99:99", "2002-01-01T12:01:61",
    ],
}


WS_XSD = ["", "", " ", "\t", "\n", "\r\n ", "  "]
WS_OTHER = ["\x0b", "\x0c", "\x1c", "\x85", "\xa0", "\u2003", "\u3000", "\ufeff", "\u200b"]


def xsd_tz(rng):
    r = rng.random()
    if r < 0.25:
        return ""
    if r < 0.4:
        return "Z"
    if r < 0.5:
        return rng.choice(["+00:00", "-00:00", "+14:00", "-14:00", "+13:59", "-13:59"])
    return "%s%02d:%02d" % (rng.choice("+-"), rng.randint(0, 13), rng.randint(0, 59))


def xsd_year(rng):
    r = rng.random()
    if r < 0.15:
        return rng.choice(["0000", "-0000", "0001", "-0001", "9999", "10000", "-10000", "0100", "0099"])
    y = rand_year(rng)
    return D.format_date(y, 1, 1)[:-6]


def xsd_time_body(rng):
    r = rng.random()
    if r < 0.1:
        return "24:00:00" + rng.choice(["", ".0", ".000", ".000000000", ".0000000000"])
    k = rng.choice([0, 0, 1, 2, 3, 4, 5, 6, 7, 8, 9, 9, 10, 12])
    fr = "".join(rng.choice("0123456789") for _ in range(k))
    return "%02d:%02d:%02d%s" % (rng.randint(0, 23), rng.randint(0, 59), rng.randint(0, 59), ("." + fr) if k else "")


def xsd_form(rng, kind):
    """a string drawn from the XSD grammar of `kind` (not via str() of a value)"""
    if kind == "time":
        core = xsd_time_body(rng) + xsd_tz(rng)
    else:
        ys = xsd_year(rng)
        y = int(ys)
        m = rng.randint(1, 12)
        d = rng.choice([1, 28, _mlen(y, m), rng.randint(1, _mlen(y, m))])
        core = "%s-%02d-%02d" % (ys, m, d)
        if kind == "datetime":
            core += "T" + xsd_time_body(rng)
        core += xsd_tz(rng)
    return rng.choice(WS_XSD) + core + rng.choice(WS_XSD)


def near_miss(rng, s):
    """one grammar-level defect: a field out of range by one, a missing/extra digit, a foreign white space"""
    r = rng.random()
    if r < 0.2:
        return rng.choice(WS_OTHER) + s if rng.random() < 0.5 else s + rng.choice(WS_OTHER)
    if r < 0.4:
        return re.sub(r"\d\d(?=\D|$)", lambda m: rng.choice(["00", "13", "24", "32", "60", "61", "99", m.group(0)]), s, count=rng.randint(1, 2))
    if r < 0.55:
        return s.replace(":", rng.choice(["", "::", ".", "-"]), 1)
    if r < 0.7:
        return rng.choice(["+", "0", "00", "-0", "--"]) + s.lstrip()
    if r < 0.85:
        return s.rstrip() + rng.choice(["z", "+1:00", "+01", "+01:0", "+01:000", "-14:01", "+15:00", "+24:00", "ZZ", "."])
    return mutate(rng, s)


def gen_parse(rng, tier):
    n = 700 if tier == "quick" else 400000
    # forms drawn from the XSD grammar itself (every fraction length 0..12, -0000, +00:00, 24:00:00.0…,
    # XSD white space) and one-defect neighbours of them
    for kind in KINDS:
        for _ in range(n // 2):
            s = xsd_form(rng, kind)
            yield {"kind": kind, "s": s if rng.random() < 0.6 else near_miss(rng, s)}
    for kind, xs in HAND.items():
        for s in xs:
            yield {"kind": kind, "s": s}
    # every (month, day) pair x leap classes, for date and dateTime
    for y in (1900, 2000, 2019, 2020, 0, -4, -100, 10000):
        for m in range(0, 14):
            for d in (0, 1, 28, 29, 30, 31, 32):
                ys = D.format_date(y, 1, 1)[:-6]
                yield {"kind": "date", "s": f"{ys}-{m:02d}-{d:02d}"}
                if tier != "quick" or (y in (1900, 2020)):
                    yield {"kind": "datetime", "s": f"{ys}-{m:02d}-{d:02d}T00:00:00"}
    # every fraction length, every offset shape
    for k in range(0, 12):
        yield {"kind": "time", "s": "01:02:03." + "123456789012"[:k]}
        yield {"kind": "time", "s": "01:02:03." + "000000000000"[:k] + "Z"}
    for hh in (0, 1, 13, 14, 15, 23, 24, 99):
        for mm in (0, 1, 59, 60, 99):
            for sg in "+-":
                yield {"kind": "time", "s": f"01:02:03{sg}{hh:02d}:{mm:02d}"}
    # every timezone hh:mm with hh 0..15, mm 0..60, both signs (841 valid ones each side)
    for hh in range(0, 16):
        for mm in range(0, 61):
            for sg in "+-":
                yield {"kind": "time", "s": f"23:59:59{sg}{hh:02d}:{mm:02d}"}
    if tier != "quick":
        # every pair of characters from a hostile alphabet at each two-digit field
        alpha2 = "0123456789 +-_٣²:"
        base = "2004-02-29T23:59:59.5+13:59"
        for pos in (5, 8, 11, 14, 17, 22, 25):
            for c1 in alpha2:
                for c2 in alpha2:
                    t = base[:pos] + c1 + c2 + base[pos + 2:]
                    yield {"kind": "datetime", "s": t}
                    if pos >= 11:
                        yield {"kind": "time", "s": t[11:]}
                    if pos < 11:
                        yield {"kind": "date", "s": t[:10] + t[21:]}
        # every fraction: lengths 0..11 x leading/trailing zeros x all-nines
        for k in range(0, 12):
            for fr in {"1" * k, "0" * k, "9" * k, ("0" * (k - 1) + "1") if k else "", ("1" + "0" * (k - 1)) if k else ""}:
                for tz in ("", "Z", "-00:00"):
                    yield {"kind": "time", "s": "00:00:00" + ("." + fr if k else "") + tz}
                    yield {"kind": "datetime", "s": "-0000-01-01T24:00:00" + ("." + fr if k else "") + tz}
    for kind in KINDS:
        for _ in range(n):
            v = rand_value(rng, kind)
            s = str(KINDS[kind](*v))
            r = rng.random()
            if r < 0.35:
                yield {"kind": kind, "s": s}
            else:
                for _ in range(rng.randint(1, 3)):
                    s = mutate(rng, s)
                yield {"kind": kind, "s": s}


def gen_str(rng, tier):
    n = 500 if tier == "quick" else 400000
    for kind in KINDS:
        for _ in range(n):
            yield {"kind": kind, "v": rand_value(rng, kind)}
    # values outside the valid range: the formatter is total, model must agree
    yield {"kind": "date", "v": [-5, 1, 1, -1]}
    yield {"kind": "date", "v": [5, 123, -1, 841]}
    yield {"kind": "time", "v": [1, 2, 3, 1000, 0]}
    yield {"kind": "time", "v": [1, 2, 3, 1000000, 60]}
    yield {"kind": "time", "v": [-1, -2, -3, 5, -60]}
    yield {"kind": "datetime", "v": [10000, 12, 31, 24, 0, 0, 0, None]}


FMTS = ["%Y-%m-%d%z", "%H:%M:%S%z", "---%d%z", "--%m%z", "--%m-%d%z", "%Y%z", "%Y-%m%z", "%Y-%m-%dT%H:%M:%S%z", "%q", "%", "a%", "%%"]


def gen_args(rng, tier):
    n = 800 if tier == "quick" else 400000
    hand = ["---01", "---31Z", "--12", "--12-31+01:00", "2001", "2001-10", "-2001-10Z", "--1", "---1", "----", "--12-", "---01+", "a"]
    for f in FMTS:
        for s in hand:
            yield {"fmt": f, "s": s}
    for _ in range(n):
        f = rng.choice(FMTS[:8])
        # synthesise a matching string then mutate
        s = ""
        i = 0
        while i < len(f):
            c = f[i]
            if c == "%":
                v = f[i + 1]
                i += 2
                if v == "Y":
                    s += D.format_date(rand_year(rng), 1, 1)[:-6]
                elif v in "dmHM":
                    s += f"{rng.randint(0, 35):02d}"
                elif v == "S":
                    s += f"{rng.randint(0, 61):02d}" + rng.choice(["", ".5", ".123456789", ".000001"])
                elif v == "z":
                    s += D.format_offset(rand_offset(rng))
            else:
                s += c
                i += 1
        for _ in range(rng.choice([0, 0, 1, 1, 2])):
            s = mutate(rng, s)
        yield {"fmt": f, "s": s}


def gen_int(rng, tier):
    hand = ["\x1c1", "1\x1f", "\x0b1", "\x0c1", "\x851", "\xa01", "\u20281", "1\x1c\xa0", "0", "00", "-0", "+5", " 5 ", "5_0", "_5", "5_", "5__0", "", " ", "-", "+", "+-5", "٣", "1٣", "²", " 5", "5 ", "1 2", "0x1", "1e3", "1.0", "-_1", "+_1", "1_٣", "１２"]
    for s in hand:
        yield {"s": s}
    n = 1500 if tier == "quick" else 400000
    a = "0123456789+-_ \t٣²１x\x1c\x1f\xa0\x0b"
    for _ in range(n):
        yield {"s": "".join(rng.choice(a) for _ in range(rng.randint(0, 6)))}


def gen_vdate(rng, tier):
    for y in (1900, 2000, 2019, 2020, 0, -4, -100, 400, -400):
        for m in range(-1, 15):
            for d in (-1, 0, 1, 28, 29, 30, 31, 32):
                yield {"v": [y, m, d]}


def gen_vtime(rng, tier):
    for h in (-1, 0, 23, 24, 25):
        for m in (-1, 0, 59, 60):
            for s in (-1, 0, 59, 60):
                for f in (-1, 0, 1, 999999999, 1000000000):
                    yield {"v": [h, m, s, f]}



# ----------------------------------------------------------------- period / duration / comparison


def impl_period(a):
    try:
        p = XmlPeriod(a["s"])
    except ValueError:
        return err("ValueError")
    except Exception as e:  # noqa: BLE001
        return err("LEAK:" + type(e).__name__)
    return ok({"data": p.data, **p.as_dict()})


def impl_dur(a):
    try:
        d = XmlDuration(a["s"])
    except ValueError:
        return err("ValueError")
    except Exception as e:  # noqa: BLE001
        return err("LEAK:" + type(e).__name__)
    out = {"data": d.data, **d.asdict()}
    if out["seconds"] is not None:
        out["seconds"] = repr(out["seconds"])
    return ok(out)


def canon_dur(o):
    if isinstance(o, dict) and "ok" in o and o["ok"].get("seconds") is not None:
        o = {"ok": dict(o["ok"])}
        o["ok"]["seconds"] = repr(float(o["ok"]["seconds"]))
    return o


def impl_cmp(a):
    cls = KINDS[a["kind"]]
    x, y = cls(*a["a"]), cls(*a["b"])
    return ok([x == y, x != y, x < y, x <= y, x > y, x >= y])


def impl_dfc(a):
    return ok(D.days_from_civil(*a["v"]))


PERIOD_HAND = [
    "---01", "---31", "---32", "---00", "---1", "---01Z", "---15+05:00", "---15-14:00", "--01", "--12", "--13", "--00", "--1", "--12Z",
    "--12+01:00", "--05--", "--05---05:00", "--05--Z", "--01-01", "--02-29", "--02-30", "--12-31", "--04-31", "--12-31Z", "--12-31-05:00",
    "2001", "-2001", "0000", "12345", "02001", "2001Z", "2001+02:00", "2001-05:00", "-2001-05:00", "2001-10", "2001-13", "2001-00",
    "2001-10Z", "2001-10+02:00", "2001-10-05:00", "-2001-10", "12345-10", "12345-10-05:00", " 2001 ", "2001-10-10", "", "-", "--", "---", "----01",
    "--03---02", "--03---02Z", "--12---31+01:00", "--05----", "--05--+14:00", "--05--+14:01", "2001+14:01", "2001-15:00", "---01+99:00",
    "1:", "-1:", "20:01", "2001-1", "٢٠٠١", "2001-١٠", "--0٣", "99999-12+14:00", "1-10", "001-10", "-0001", "-0001-10",
]


def gen_period(rng, tier):
    for s in PERIOD_HAND:
        yield {"s": s}
    n = 1200 if tier == "quick" else 500000
    for _ in range(n):
        k = rng.randrange(5)
        off = D.format_offset(rand_offset(rng))
        if k == 0:
            s = f"---{rng.randint(0, 33):02d}{off}"
        elif k == 1:
            s = f"--{rng.randint(0, 14):02d}{rng.choice(['', '', '--'])}{off}"
        elif k == 2:
            s = f"--{rng.randint(0, 13):02d}-{rng.randint(0, 32):02d}{off}"
        elif k == 3:
            s = D.format_date(rand_year(rng), 1, 1)[:-6] + off
        else:
            s = D.format_date(rand_year(rng), 1, 1)[:-6] + f"-{rng.randint(0, 13):02d}" + off
        if rng.random() < 0.5:
            for _ in range(rng.randint(1, 2)):
                s = mutate(rng, s)
        yield {"s": s}


DUR_HAND = [
    "P2Y6M5DT12H35M30.5S", "P1D", "PT1S", "-P1Y", "P1Y2M", "PT20M", "P20M", "PT1004199059S", "PT130S", "PT2M10S", "P0Y", "PT0.5S", "-PT0.000001S",
    "P-20M", "P20MT", "P1YM5D", "P15.5Y", "P1D2H", "1Y2M", "P2M1Y", "P", "PT", "-P", "-PT", "P1DT", "PT1", "P1", "p1d", "P1d", " P1D ", "P1D\n",
    "PT1x5S", "PT1_5S", "PT1e5S", "PT1E5S", "PT1.S", "PT.5S", "PT1.5.5S", "PT1S5S", "P1Y1Y", "PT1H1H", "PT1M1H", "P1M1M", "P1MT1M", "+P1D", "--P1D",
    "P١D", "PT١.٥S", "P1²D", "P 1D", "P1 D", "PT5S\n", "P1D\n\n", "P1DT\n", "PT1\nS", "PT1\n5S", "P99999999999999999999Y", "PT1" + "0" * 400 + "S", "PT0.0000000001S",
]


def gen_dur(rng, tier):
    for s in DUR_HAND:
        yield {"s": s.replace("\\n", "\n")}
    # every combination of components x sign x seconds with/without fraction x a trailing T
    for mask in range(64):
        for neg in ("", "-"):
            for sec in ("5", "0.5", "05.050"):
                date = "".join(f"{rng.randint(0, 99)}{c}" for i, c in enumerate("YMD") if mask >> i & 1)
                t = "".join(f"{rng.randint(0, 99)}{c}" for i, c in enumerate("HM") if mask >> (3 + i) & 1)
                if mask >> 5 & 1:
                    t += sec + "S"
                elif sec != "5":
                    continue
                yield {"s": neg + "P" + date + ("T" + t if t else "")}
                if t == "":
                    yield {"s": neg + "P" + date + "T"}
    n = 1500 if tier == "quick" else 500000
    for _ in range(n):
        parts = ""
        for c in "YMD":
            if rng.random() < 0.4:
                parts += f"{rng.randint(0, 10 ** rng.randint(1, 5))}{c}"
        t = ""
        for c in "HM":
            if rng.random() < 0.4:
                t += f"{rng.randint(0, 10 ** rng.randint(1, 5))}{c}"
        if rng.random() < 0.4:
            t += f"{rng.randint(0, 999)}" + rng.choice(["", f".{rng.randint(0, 999999)}", ".0", ".000000001"]) + "S"
        s = rng.choice(["", "", "-"]) + "P" + parts + (("T" + t) if (t or rng.random() < 0.1) else "")
        if rng.random() < 0.5:
            for _ in range(rng.randint(1, 2)):
                s = mutate_dur(rng, s)
        yield {"s": s}


def mutate_dur(rng, s):
    alpha = "0123456789PYMDTHS.-+_ e\n٣²x"
    if not s:
        return rng.choice(alpha)
    i = rng.randrange(len(s))
    r = rng.random()
    if r < 0.3:
        return s[:i] + s[i + 1 :]
    if r < 0.6:
        return s[:i] + rng.choice(alpha) + s[i:]
    if r < 0.9:
        return s[:i] + rng.choice(alpha) + s[i + 1 :]
    return rng.choice([" ", "\n", "\t"]) + s + rng.choice([" ", "\n", ""])


def near(rng, v, kind):
    """a value close to v on the timeline (so that orderings are not all trivially decided by the year)"""
    w = list(v)
    k = rng.randrange(6)
    if kind == "datetime":
        if k == 0:  # same instant, other offset
            off = rng.choice([-60, 60, 30, -90, 840, -840])
            h = w[3] + off // 60
            mi = w[4] + off % 60
            if 0 <= h <= 23 and 0 <= mi <= 59:
                w[3], w[4], w[7] = h, mi, (w[7] or 0) + off
        elif k == 1:
            w[6] = max(0, min(999999999, w[6] + rng.choice([-1, 1])))
        elif k == 2:  # next day / month boundary
            y, m, d = w[0:3]
            if d < D.monthlen(y, m):
                w[2] = d + 1
            elif m < 12:
                w[1], w[2] = m + 1, 1
            else:
                w[0], w[1], w[2] = y + 1, 1, 1
            w[3] = rng.randint(0, 23)
        elif k == 3:
            w[5] = (w[5] + 1) % 60
        elif k == 4:
            w[7] = rand_offset(rng)
        else:
            w = rand_value(rng, kind)
    else:
        if k == 0:
            off = rng.choice([-60, 60, 30, -90])
            h = w[0] + off // 60
            mi = w[1] + off % 60
            if 0 <= h <= 23 and 0 <= mi <= 59:
                w[0], w[1], w[4] = h, mi, (w[4] or 0) + off
        elif k == 1:
            w[3] = max(0, min(999999999, w[3] + rng.choice([-1, 1])))
        elif k == 2:
            w[2] = (w[2] + 1) % 60
        elif k == 3:
            w[4] = rand_offset(rng)
        else:
            w = rand_value(rng, kind)
    return w


def gen_cmp(rng, tier):
    yield {"kind": "datetime", "a": [2000, 1, 31, 12, 0, 0, 0, None], "b": [2000, 2, 1, 0, 0, 0, 0, None]}
    yield {"kind": "datetime", "a": [2000, 1, 31, 10, 29, 3, 0, None], "b": [2000, 2, 1, 0, 0, 0, 0, None]}
    yield {"kind": "datetime", "a": [2000, 1, 1, 0, 0, 0, 1, None], "b": [2000, 1, 1, 0, 0, 0, 0, None]}
    yield {"kind": "datetime", "a": [-1, 12, 31, 24, 0, 0, 0, None], "b": [0, 1, 1, 0, 0, 0, 0, None]}
    yield {"kind": "datetime", "a": [2010, 9, 20, 12, 0, 0, 0, 0], "b": [2010, 9, 20, 13, 0, 0, 0, 60]}
    yield {"kind": "time", "a": [12, 0, 0, 0, 0], "b": [13, 0, 0, 0, 60]}
    yield {"kind": "time", "a": [24, 0, 0, 0, None], "b": [0, 0, 0, 0, None]}
    # year boundaries (every change of the number of year digits, the era change, leap centuries)
    for y in (-10000, -1000, -401, -400, -101, -100, -5, -4, -1, 0, 1, 3, 4, 99, 100, 399, 400, 999, 1000, 1899, 1900, 1999, 2000, 9998, 9999, 10000, 99999):
        for h1, h2, o1, o2 in ((23, 0, None, None), (24, 0, None, None), (12, 0, 0, 0), (23, 1, -60, 60), (0, 23, 840, -840)):
            a = [y, 12, 31, h1, 0 if h1 == 24 else 30, 0, 0, o1]
            b = [y + 1, 1, 1, h2, 0, 0, 0, o2]
            yield {"kind": "datetime", "a": a, "b": b}
            yield {"kind": "datetime", "a": b, "b": a}
        for m, d in ((2, 28), (2, 29), (3, 1), (12, 31), (1, 1)):
            if d <= D.monthlen(y, m):
                a = [y, m, d, 12, 0, 0, 0, None]
                yield {"kind": "datetime", "a": a, "b": near(rng, a, "datetime")}
    n = 1500 if tier == "quick" else 600000
    for kind in ("time", "datetime"):
        for _ in range(n):
            v = rand_value(rng, kind)
            yield {"kind": kind, "a": v, "b": near(rng, v, kind)}


def gen_dfc(rng, tier):
    for y in (-401, -400, -101, -100, -5, -4, -1, 0, 1, 4, 100, 400, 1900, 2000, 2023, 2024, 9999, 10000):
        for m in range(1, 13):
            for d in (1, 28, 29, 30, 31):
                yield {"v": [y, m, d]}
    for _ in range(300 if tier == "quick" else 160000):
        yield {"v": [rng.randint(-10**6, 10**6), rng.randint(-3, 16), rng.randint(-5, 40)]}


# ----------------------------------------------------------------- standard-library conversions
import datetime as _dt  # noqa: E402

_US = _dt.timedelta(microseconds=1)


def _off_us(obj):
    td = obj.utcoffset()
    return None if td is None else td // _US


def _dt_fields(r):
    return [r.year, r.month, r.day, r.hour, r.minute, r.second, r.microsecond, _off_us(r)]


def impl_to_std(a):
    kind, v = a["kind"], a["v"]
    try:
        if kind == "date.to_date":
            r = XmlDate(*v).to_date()
            out = [r.year, r.month, r.day]
        elif kind == "date.to_datetime":
            out = _dt_fields(XmlDate(*v).to_datetime())
        elif kind == "time.to_time":
            r = XmlTime(*v).to_time()
            out = [r.hour, r.minute, r.second, r.microsecond, _off_us(r)]
        else:
            out = _dt_fields(XmlDateTime(*v).to_datetime())
    except ValueError:
        return err("ValueError")
    except OverflowError:
        return err("OverflowError")
    except Exception as e:  # noqa: BLE001
        return err("LEAK:" + type(e).__name__)
    return ok(out)


def _mk_tz(u):
    return None if u is None else _dt.timezone(_dt.timedelta(microseconds=u))


def impl_from_std(a):
    kind, v = a["kind"], a["v"]
    if kind == "date.from_date":
        return ok(list(XmlDate.from_date(_dt.date(*v))))
    if kind == "date.from_datetime":
        return ok(list(XmlDate.from_datetime(_dt.datetime(*v[:7], tzinfo=_mk_tz(v[7])))))
    if kind == "time.from_time":
        return ok(list(XmlTime.from_time(_dt.time(*v[:4], tzinfo=_mk_tz(v[4])))))
    return ok(list(XmlDateTime.from_datetime(_dt.datetime(*v[:7], tzinfo=_mk_tz(v[7])))))


C_INT = 2**31
EDGE_YEARS = [0, 1, 9999, 10000, -1, C_INT - 1, C_INT, -C_INT, -C_INT - 1, 10**30]
EDGE_OFFSETS = [None, 0, 1, -1, 840, -840, 1439, -1439, 1440, -1440, 999999999 * 1440 + 1439, 999999999 * 1440 + 1440,
                -999999999 * 1440, -999999999 * 1440 - 1, 10**13, -(10**13), 10**40]
EDGE_FRACS = [0, 1, 999, 1000, 999999999, 10**9, -1, -1000, -1001, C_INT * 1000 - 1, C_INT * 1000, -C_INT * 1000, -C_INT * 1000 - 1]


def gen_to_std(rng, tier):
    n = 400 if tier == "quick" else 200000
    # bounded-exhaustive: every edge year x every edge offset; every edge fraction; field overflows
    for y in EDGE_YEARS:
        for o in EDGE_OFFSETS:
            yield {"kind": "datetime.to_datetime", "v": [y, 6, 15, 12, 30, 30, 5000, o]}
            yield {"kind": "date.to_datetime", "v": [y, 6, 15, o]}
        yield {"kind": "date.to_date", "v": [y, 2, 29, 60]}
    for f in EDGE_FRACS:
        for o in (None, 0, 90, 1440):
            yield {"kind": "datetime.to_datetime", "v": [2024, 2, 29, 23, 59, 59, f, o]}
            yield {"kind": "time.to_time", "v": [23, 59, 59, f, o]}
    for i in range(7):
        for bad in (-1, 0, 13, 24, 32, 60, 61, C_INT, -C_INT - 1):
            v = [2023, 2, 28, 23, 59, 59, 999999999, None]
            v[i] = bad
            yield {"kind": "datetime.to_datetime", "v": v}
            if i >= 3:
                yield {"kind": "time.to_time", "v": v[3:]}
            if i < 3:
                yield {"kind": "date.to_date", "v": v[:3] + [None]}
    for o in EDGE_OFFSETS:
        yield {"kind": "time.to_time", "v": [0, 0, 0, 0, o]}
    for _ in range(n):
        k = rng.randrange(4)
        if k == 0:
            v = rand_value(rng, "datetime")
            kind = "datetime.to_datetime"
        elif k == 1:
            v = rand_value(rng, "time")
            kind = "time.to_time"
        else:
            v = rand_value(rng, "date")
            kind = "date.to_date" if k == 2 else "date.to_datetime"
        r = rng.random()
        if r < 0.55:  # keep inside the representable region most of the time
            if kind.startswith("date") or kind.startswith("datetime"):
                v[0] = rng.randint(1, 9999)
                v[2] = min(v[2], D.monthlen(v[0], v[1]))
            if kind == "datetime.to_datetime" and v[3] == 24:
                v[3] = 0
            if kind == "time.to_time" and v[0] == 24:
                v[0] = 0
        elif r < 0.7:
            v[-1] = rng.choice(EDGE_OFFSETS + [rng.randint(-2000, 2000)])
        elif r < 0.8 and kind in ("datetime.to_datetime", "time.to_time"):
            v[-2] = rng.choice(EDGE_FRACS)
        yield {"kind": kind, "v": v}


DAY_US = 86400 * 10**6


def rand_utcoffset(rng):
    r = rng.random()
    if r < 0.25:
        return None
    if r < 0.35:
        return 0
    if r < 0.6:
        return rng.randint(-1439, 1439) * 60 * 10**6  # whole minutes
    if r < 0.75:
        return rng.randint(-86399, 86399) * 10**6  # whole seconds
    if r < 0.85:
        return rng.choice([DAY_US - 1, -DAY_US + 1, 59999999, -59999999, 60000001, -60000001, 1, -1, -86370 * 10**6])
    return rng.randint(-DAY_US + 1, DAY_US - 1)


def gen_from_std(rng, tier):
    n = 400 if tier == "quick" else 200000
    for u in (None, 0, 1, -1, 59999999, 60000000, 60000001, -59999999, -60000000, -60000001, DAY_US - 1, -DAY_US + 1, 19815 * 10**6):
        yield {"kind": "datetime.from_datetime", "v": [1, 1, 1, 0, 0, 0, 0, u]}
        yield {"kind": "datetime.from_datetime", "v": [9999, 12, 31, 23, 59, 59, 999999, u]}
        yield {"kind": "time.from_time", "v": [23, 59, 59, 999999, u]}
        yield {"kind": "date.from_datetime", "v": [2024, 2, 29, 23, 59, 59, 999999, u]}
    for _ in range(n):
        y = rng.choice([1, 9999, rng.randint(1, 9999)])
        m = rng.randint(1, 12)
        d = rng.randint(1, D.monthlen(y, m))
        t = [rng.randint(0, 23), rng.randint(0, 59), rng.randint(0, 59), rng.choice([0, 1, 999, 1000, 999999, rng.randint(0, 999999)])]
        k = rng.randrange(4)
        if k == 0:
            yield {"kind": "date.from_date", "v": [y, m, d]}
        elif k == 1:
            yield {"kind": "date.from_datetime", "v": [y, m, d, *t, rand_utcoffset(rng)]}
        elif k == 2:
            yield {"kind": "time.from_time", "v": [*t, rand_utcoffset(rng)]}
        else:
            yield {"kind": "datetime.from_datetime", "v": [y, m, d, *t, rand_utcoffset(rng)]}


def classify_std(a, o):
    u = a["v"][-1] if not a["kind"].endswith("_date") else None
    if a["kind"].split(".")[1].startswith("from"):
        oc = "naive" if u is None else "utc" if u == 0 else "minutes" if u % 60000000 == 0 else "subminute"
        return a["kind"] + ":" + oc
    return a["kind"] + ":" + ("ok" if "ok" in o else o["err"])


# ----------------------------------------------------------------- instants and hashes
from xsdata.models import datatype as _DT  # noqa: E402
import sys as _sys  # noqa: E402

assert _sys.hash_info.modulus == 2**61 - 1, "Py.pyHashInt models hash(int) of a 64-bit CPython"


def impl_timeline(a):
    """the real comparison key `_timeline(obj)` (nanoseconds since 0000-03-01T00:00:00Z)"""
    return ok(_DT._timeline(KINDS[a["kind"]](*a["v"])))


EPOCH_SHIFT_DAYS = 306  # 0000-03-01 .. 0001-01-01


def impl_std_instant(a):
    """instant of a *real* stdlib object by stdlib arithmetic only (aware - epoch), shifted to the model's
    epoch; a naive object is read as UTC"""
    kind, v = a["kind"], a["v"]
    if kind == "time":
        t = _dt.time(*v[:4], tzinfo=_mk_tz(v[4]))
        off = t.utcoffset()
        ns = ((t.hour * 60 + t.minute) * 60 + t.second) * 10**9 + t.microsecond * 1000
        return ok(ns - (0 if off is None else (off // _US) * 1000))
    d = _dt.datetime(*v[:7], tzinfo=_mk_tz(v[7]))
    aware = d if d.tzinfo else d.replace(tzinfo=_dt.timezone.utc)
    delta = aware - _dt.datetime(1, 1, 1, tzinfo=_dt.timezone.utc)
    return ok(((delta.days + EPOCH_SHIFT_DAYS) * 86400 + delta.seconds) * 10**9 + delta.microseconds * 1000)


def gen_std_instant(rng, tier):
    for a in gen_from_std(rng, tier):
        if a["kind"] == "datetime.from_datetime":
            yield {"kind": "datetime", "v": a["v"]}
        elif a["kind"] == "time.from_time":
            yield {"kind": "time", "v": a["v"]}


def gen_timeline(rng, tier):
    for a in gen_cmp(rng, tier):
        yield {"kind": a["kind"], "v": a["a"]}
        if rng.random() < 0.3:
            yield {"kind": a["kind"], "v": a["b"]}
    # values far outside the standard library's range, unreal components (the key is total)
    for y in (-10**12, -10**6, -401, 0, 10**6, 10**12):
        for m, d in ((1, 1), (2, 29), (3, 1), (12, 31), (0, 0), (13, 32)):
            yield {"kind": "datetime", "v": [y, m, d, 24, 0, 0, 0, rng.choice([None, 840, -840, 5999])]}


def impl_hash(a):
    return ok(hash(KINDS[a["kind"]](*a["v"])))


def classify_instant(a, o):
    v = a["v"]
    if a["kind"] == "time":
        return "time:" + ("notz" if v[-1] is None else "tz")
    y = v[0]
    return "datetime:" + ("y<1" if y < 1 else "y1-9999" if y <= 9999 else "y>9999") + (":notz" if v[-1] is None else ":tz")


# ----------------------------------------------------------------- history independence (spec-level)
def _snapshot(kind, s):
    try:
        if kind == "period":
            p = XmlPeriod(s)
            return ["ok", p.data, p.as_dict()]
        if kind == "duration":
            d = XmlDuration(s)
            return ["ok", d.data, {k: repr(v) for k, v in d.asdict().items()}]
        x = KINDS[kind].from_string(s)
        return ["ok", list(x), str(x), repr(x)]
    except ValueError:
        return ["ValueError"]


def impl_repeat(a):
    """same input, same answer: before and after other parses, comparisons, conversions and hashing of
    the very same objects (nothing in the date/time types may keep state between calls)"""
    first = _snapshot(a["kind"], a["s"])
    other = _snapshot(a["kind2"], a["s2"])
    objs = []
    for k, t in ((a["kind"], a["s"]), (a["kind2"], a["s2"])):
        if k in KINDS:
            try:
                objs.append(KINDS[k].from_string(t))
            except ValueError:
                pass
    before = [(list(o), str(o)) for o in objs]
    for o in objs:
        for p in objs:
            if type(o) is type(p) and not isinstance(o, XmlDate):
                o < p, o == p, o >= p  # noqa: B015
        hash(o)
        for conv in ("to_datetime", "to_time", "to_date"):
            if hasattr(o, conv):
                try:
                    getattr(o, conv)()
                except (ValueError, OverflowError):
                    pass
    after = [(list(o), str(o)) for o in objs]
    again = _snapshot(a["kind"], a["s"])
    other_again = _snapshot(a["kind2"], a["s2"])
    return ok(first == again and other == other_again and before == after)


def gen_repeat(rng, tier):
    n = 250 if tier == "quick" else 60000
    kinds = ["date", "time", "datetime", "period", "duration"]

    def one(k):
        if k in KINDS:
            t = xsd_form(rng, k)
            return t if rng.random() < 0.7 else near_miss(rng, t)
        if k == "period":
            return rng.choice(PERIOD_HAND)
        return rng.choice(DUR_HAND)

    for _ in range(n):
        k1, k2 = rng.choice(kinds), rng.choice(kinds)
        yield {"kind": k1, "s": one(k1), "kind2": k2, "s2": one(k2)}


# ----------------------------------------------------------------- distribution buckets (evidence: classify=)
def classify_parse(a, o):
    s = a["s"]
    if "err" in o:
        return a["kind"] + ":" + o["err"]
    feats = []
    if s != s.strip():
        feats.append("ws")
    if "." in s:
        feats.append("frac%d" % len(re.search(r"\.([0-9]*)", s).group(1)))
    v = o["ok"]
    if v[-1] is None:
        feats.append("notz")
    elif s.rstrip().endswith("Z"):
        feats.append("Z")
    else:
        feats.append("tz")
    if a["kind"] != "time" and (v[0] <= 0 or v[0] > 9999):
        feats.append("bigyear")
    if a["kind"] != "date" and v[-5] == 24:
        feats.append("h24")
    return a["kind"] + ":ok:" + "+".join(feats)


def classify_str(a, o):
    v = a["v"]
    f = []
    if a["kind"] != "date":
        fr = v[-2]
        f.append("f0" if fr == 0 else "f9" if fr % 1000 else "f6" if fr % 1000000 else "f3")
    f.append("notz" if v[-1] is None else "Z" if v[-1] == 0 else "neg" if v[-1] < 0 else "pos")
    if a["kind"] != "time":
        f.append("y<0" if v[0] < 0 else "y4" if v[0] <= 9999 else "y5+")
    return a["kind"] + ":" + "+".join(f)


def classify_period(a, o):
    if "err" in o:
        return "err:" + o["err"]
    v = o["ok"]
    shape = "gYearMonth" if v["year"] is not None and v["month"] is not None else "gYear" if v["year"] is not None else \
        "gMonthDay" if v["month"] is not None and v["day"] is not None else "gMonth" if v["month"] is not None else "gDay"
    return shape + (":tz" if v["offset"] is not None else ":notz") + (":bogus--" if a["s"].strip()[4:6] == "--" and shape == "gMonth" else "")


def classify_dur(a, o):
    if "err" in o:
        return "err:" + o["err"]
    v = o["ok"]
    comps = "".join(c for c, k in zip("YMDHmS", ("years", "months", "days", "hours", "minutes", "seconds")) if v[k] is not None)
    return ("-" if v["negative"] else "+") + ("n%d" % len(comps)) + (":frac" if v["seconds"] is not None and "." in a["s"] else "")


def classify_cmp(a, o):
    r = o["ok"]
    rel = "eq" if r[0] else "lt" if r[2] else "gt"
    same_off = (a["a"][-1] or 0) == (a["b"][-1] or 0)
    return a["kind"] + ":" + rel + (":sameoff" if same_off else ":diffoff")


def classify_args(a, o):
    return a["fmt"] + ":" + ("ok" if "ok" in o else o["err"])


CORRS = [
    Corr("date.parse", gen_parse, impl_parse, nontrivial=lambda a, o: len(a["s"]) > 4, classify=classify_parse,
         describe="XmlDate/XmlTime/XmlDateTime.from_string vs model"),
    Corr("date.str", gen_str, impl_str, classify=classify_str, describe="__str__ vs model"),
    Corr("date.args", gen_args, impl_args, nontrivial=lambda a, o: len(a["s"]) > 2, classify=classify_args,
         describe="parse_date_args on every DateFormat"),
    Corr("py.int", gen_int, impl_int, nontrivial=lambda a, o: len(a["s"]) > 0, describe="CPython int(str) vs Py.pyInt"),
    Corr("date.validate_date", gen_vdate, impl_validate_date, classify=lambda a, o: "valid" if o.get("ok") else "invalid"),
    Corr("date.validate_time", gen_vtime, impl_validate_time, classify=lambda a, o: "valid" if o.get("ok") else "invalid"),
    Corr("period.parse", gen_period, impl_period, nontrivial=lambda a, o: len(a["s"]) > 2, classify=classify_period,
         describe="XmlPeriod(value) vs model"),
    Corr("dur.parse", gen_dur, impl_dur, canon=canon_dur, nontrivial=lambda a, o: len(a["s"]) > 2, classify=classify_dur,
         describe="XmlDuration(value) vs model"),
    Corr("date.cmp", gen_cmp, impl_cmp, classify=classify_cmp, describe="six rich comparisons of XmlTime/XmlDateTime vs model key"),
    Corr("date.days_from_civil", gen_dfc, impl_dfc,
         classify=lambda a, o: ("jan-feb" if a["v"][1] <= 2 else "mar-dec") + (":y<=0" if a["v"][0] <= 0 else ":y>0")),
    Corr("date.to_std", gen_to_std, impl_to_std, classify=classify_std,
         describe="to_date/to_time/to_datetime vs the record model of datetime (error kinds included)"),
    Corr("date.from_std", gen_from_std, impl_from_std, classify=classify_std,
         describe="from_date/from_time/from_datetime on real stdlib objects (utcoffset down to microseconds) vs model"),
    Corr("date.timeline", gen_timeline, impl_timeline, classify=classify_instant,
         describe="the real comparison key _timeline(obj) vs XmlDateTime.timeline / XmlTime.timeline"),
    Corr("std.instant", gen_std_instant, impl_std_instant, classify=classify_instant,
         describe="instant of real datetime/time objects by stdlib arithmetic (aware - epoch) vs PyDateTime.instantNs / PyTime.instantNs"),
    Corr("date.hash", gen_timeline, impl_hash, classify=classify_instant,
         describe="hash(XmlDateTime/XmlTime) vs pyHashInt of the model's timeline key"),
    Corr("date.repeat", gen_repeat, impl_repeat, spec=lambda a: ok(True), classify=lambda a, o: a["kind"] + "/" + a["kind2"],
         describe="spec-level: results do not depend on earlier parses / comparisons / conversions of the same objects"),
]

# ----------------------------------------------------------------- oracle
# XSD 1.1 Part 2 lexical spaces, written independently of the code.
_YEAR = r"(?P<year>-?(?:[1-9][0-9]{3,}|0[0-9]{3}))"
_MD = r"(?P<month>0[1-9]|1[0-2])-(?P<day>0[1-9]|[12][0-9]|3[01])"
_TZ = r"(?P<tz>Z|[+-](?:(?:0[0-9]|1[0-3]):[0-5][0-9]|14:00))?"
_T = r"(?:(?P<hour>[01][0-9]|2[0-3]):(?P<minute>[0-5][0-9]):(?P<second>[0-5][0-9])(?:\.(?P<frac>[0-9]+))?|(?P<eod>24:00:00(?:\.0+)?))"
XSD_RE = {
    "date": re.compile(_YEAR + "-" + _MD + _TZ + r"\Z"),
    "time": re.compile(_T + _TZ + r"\Z"),
    "datetime": re.compile(_YEAR + "-" + _MD + "T" + _T + _TZ + r"\Z"),
}
XSD_WS = " \t\n\r"


def _leap(y):
    return y % 4 == 0 and (y % 100 != 0 or y % 400 == 0)


def _mlen(y, m):
    return [31, 29 if _leap(y) else 28, 31, 30, 31, 30, 31, 31, 30, 31, 30, 31][m - 1]


def xsd_components(kind, s):
    """Return the components XSD assigns to lexical form s, or None when s is
    not in the lexical space / denotes no value / needs more than ns precision."""
    m = XSD_RE[kind].match(s.strip(XSD_WS))
    if not m:
        return None
    g = m.groupdict()
    out = []
    if kind != "time":
        y, mo, d = int(g["year"]), int(g["month"]), int(g["day"])
        if d > _mlen(y, mo):
            return None
        out += [y, mo, d]
    if kind != "date":
        if g["eod"]:
            out += [24, 0, 0, 0]
        else:
            fr = g["frac"] or ""
            if len(fr.rstrip("0")) > 9:
                return None
            fr = fr[:9] if len(fr) > 9 else fr
            out += [int(g["hour"]), int(g["minute"]), int(g["second"]), int(fr.ljust(9, "0")) if fr else 0]
    tz = g["tz"]
    if tz is None:
        out.append(None)
    elif tz == "Z":
        out.append(0)
    else:
        v = int(tz[1:3]) * 60 + int(tz[4:6])
        out.append(-v if tz[0] == "-" else v)
    return out


def real_value(kind, v):
    """Does the component list denote a real calendar date / time of day?"""
    i = 0
    if kind != "time":
        y, m, d = v[0:3]
        i = 3
        if not (1 <= m <= 12 and 1 <= d <= _mlen(y, m)):
            return False
    if kind != "date":
        h, mi, s, f = v[i : i + 4]
        if not (0 <= mi <= 59 and 0 <= s <= 59 and 0 <= f <= 999999999):
            return False
        if not (0 <= h <= 23 or (h == 24 and mi == 0 and s == 0 and f == 0)):
            return False
    return True


def oracle_parse(a):
    kind, s = a["kind"], a["s"]
    cls = KINDS[kind]
    exp = xsd_components(kind, s)
    try:
        got = list(cls.from_string(s))
    except ValueError:
        got = None
    except Exception as e:  # noqa: BLE001
        return f"from_string({s!r}) raised {type(e).__name__}"
    if exp is not None:
        frac_len = 0
        mm = re.search(r"\.([0-9]+)", s)
        if mm:
            frac_len = len(mm.group(1))
        if frac_len <= 9:
            if got is None:
                return f"XSD-valid {kind} {s!r} rejected"
            if got != exp:
                return f"XSD-valid {kind} {s!r} parsed as {got}, XSD assigns {exp}"
    if got is not None:
        # converse (theorems *_accepts_only_valid): what is accepted is, after Python's strip(), an XSD lexical form
        conv = xsd_components(kind, s.strip())
        if conv is None:
            return f"{kind} {s!r} is accepted as {got} but {s.strip()!r} is no XSD lexical form"
        if conv != got:
            return f"{kind} {s!r} is accepted as {got}, XSD assigns {conv}"
        if not real_value(kind, got):
            return f"{kind} {s!r} denotes no real calendar date/time of day but is accepted as {got}"
        if not _offset_ok(got):
            return f"{kind} {s!r} is accepted with a timezone beyond 14:00 ({got[-1]} minutes)"
        out = str(cls(*got))
        if xsd_components(kind, out) is None:
            return f"str() of parsed value {got} is {out!r}, not XSD-valid"
        try:
            back = list(cls.from_string(out))
        except Exception as e:  # noqa: BLE001
            return f"str() of {got} = {out!r} does not parse back ({type(e).__name__})"
        if back != got:
            return f"{got} formats to {out!r} which parses to {back}"
    return None


def _offset_ok(v):
    return v[-1] is None or -840 <= v[-1] <= 840


def oracle_value(a):
    kind, v = a["kind"], a["v"]
    if not real_value(kind, v) or not _offset_ok(v):
        return None
    cls = KINDS[kind]
    s = str(cls(*v))
    comp = xsd_components(kind, s)
    if comp is None:
        return f"valid value {v} formats to {s!r}, not an XSD-valid {kind}"
    if comp != v:
        return f"valid value {v} formats to {s!r}, which XSD reads as {comp}"
    try:
        back = list(cls.from_string(s))
    except Exception as e:  # noqa: BLE001
        return f"{v} formats to {s!r} which does not parse ({type(e).__name__})"
    if back != v:
        return f"{v} formats to {s!r} which parses to {back}"
    return None


def gen_oracle_parse(rng, tier):
    yield from gen_parse(rng, tier)



# XSD lexical spaces of the g* types and of duration, independent of the code
_GRE = {
    "gDay": re.compile(r"---(?P<day>0[1-9]|[12][0-9]|3[01])" + _TZ + r"\Z"),
    "gMonth": re.compile(r"--(?P<month>0[1-9]|1[0-2])" + _TZ + r"\Z"),
    "gMonthDay": re.compile(r"--(?P<month>0[1-9]|1[0-2])-(?P<day>0[1-9]|[12][0-9]|3[01])" + _TZ + r"\Z"),
    "gYear": re.compile(_YEAR + _TZ + r"\Z"),
    "gYearMonth": re.compile(_YEAR + r"-(?P<month>0[1-9]|1[0-2])" + _TZ + r"\Z"),
}


def _tz(tz):
    if tz is None:
        return None
    if tz == "Z":
        return 0
    v = int(tz[1:3]) * 60 + int(tz[4:6])
    return -v if tz[0] == "-" else v


def xsd_period(s):
    t = s.strip(XSD_WS)
    for name, rx in _GRE.items():
        m = rx.match(t)
        if m:
            g = m.groupdict()
            mo = int(g["month"]) if g.get("month") else None
            d = int(g["day"]) if g.get("day") else None
            if name == "gMonthDay" and d > [31, 29, 31, 30, 31, 30, 31, 31, 30, 31, 30, 31][mo - 1]:
                return None
            return {"year": int(g["year"]) if g.get("year") else None, "month": mo, "day": d, "offset": _tz(g["tz"])}
    return None


def oracle_period(a):
    s = a["s"]
    exp = xsd_period(s)
    try:
        got = XmlPeriod(s).as_dict()
    except ValueError:
        got = None
    except Exception as e:  # noqa: BLE001
        return f"XmlPeriod({s!r}) raised {type(e).__name__}"
    if exp is not None:
        if got is None:
            return f"XSD-valid g* value {s!r} rejected"
        if got != exp:
            return f"XSD-valid g* value {s!r} parsed as {got}, XSD assigns {exp}"
    if got is not None:
        mo, d = got["month"], got["day"]
        if mo is not None and not 1 <= mo <= 12:
            return f"{s!r} accepted with month {mo}"
        if d is not None and not 1 <= d <= ([31, 29, 31, 30, 31, 30, 31, 31, 30, 31, 30, 31][mo - 1] if mo else 31):
            return f"{s!r} accepted with day {d}"
        out = str(XmlPeriod(s))
        back = xsd_period(out)
        if back is None:
            return f"XmlPeriod({s!r}) is accepted and formats to {out!r}, no XSD-valid g* value"
        if back != got:
            return f"XmlPeriod({s!r}) formats to {out!r}, which XSD reads as {back}, not {got}"
    return None


def covered_period(a, msg):
    """C06-gmonth-legacy-spelling: the value is accepted, its string form is `--MM--` + timezone, i.e. exactly the
    valid gMonth `--MM` + timezone with `--` inserted after the month, and the components are those of that gMonth"""
    if " is accepted and formats to " not in msg:
        return None
    try:
        p = XmlPeriod(a["s"])
    except ValueError:
        return None
    out = str(p)
    if len(out) >= 6 and out[:2] == "--" and out[2] != "-" and out[4:6] == "--":
        exp = xsd_period(out[:4] + out[6:])
        if exp is not None and exp["month"] is not None and exp["day"] is None and exp["year"] is None and p.as_dict() == exp:
            return "C06-gmonth-legacy-spelling"
    return None


_DUR = re.compile(
    r"(?P<neg>-?)P(?!\Z)(?:(?P<y>[0-9]+)Y)?(?:(?P<mo>[0-9]+)M)?(?:(?P<d>[0-9]+)D)?"
    r"(?:T(?!\Z)(?:(?P<h>[0-9]+)H)?(?:(?P<mi>[0-9]+)M)?(?:(?P<s>[0-9]+(?:\.[0-9]+)?)S)?)?\Z"
)


def xsd_duration(s):
    m = _DUR.match(s.strip(XSD_WS))
    if not m:
        return None
    g = m.groupdict()
    i = lambda k: int(g[k]) if g[k] is not None else None  # noqa: E731
    return {"negative": g["neg"] == "-", "years": i("y"), "months": i("mo"), "days": i("d"), "hours": i("h"), "minutes": i("mi"),
            "seconds": float(g["s"]) if g["s"] is not None else None}


def oracle_dur(a):
    s = a["s"]
    exp = xsd_duration(s)
    try:
        got = XmlDuration(s).asdict()
    except ValueError:
        got = None
    except Exception as e:  # noqa: BLE001
        return f"XmlDuration({s!r}) raised {type(e).__name__}"
    if exp is not None:
        if got is None:
            return f"XSD-valid duration {s!r} rejected"
        if got != exp:
            return f"XSD-valid duration {s!r} parsed as {got}, XSD assigns {exp}"
    if got is not None:
        out = str(XmlDuration(s))
        if xsd_duration(out) is None:
            return f"XmlDuration({s!r}) is accepted and formats to {out!r}, no XSD-valid duration"
        if XmlDuration(out).asdict() != got:
            return f"XmlDuration({s!r}) formats to {out!r} which parses to {XmlDuration(out).asdict()}"
    return None


def ref_instant(kind, v):
    """reference timeline position in ns, computed with the standard library"""
    import datetime as _dt

    if kind == "datetime":
        y, m, d, h, mi, sec, f, off = v
        cycles, yy = divmod(y - 1, 400)
        days = _dt.date(yy + 1, m, d).toordinal() + cycles * 146097
    else:
        h, mi, sec, f, off = v
        days = 0
    return ((days * 24 + h) * 60 + mi - (off or 0)) * 60 * 10**9 + sec * 10**9 + f


def oracle_cmp(a):
    kind = a["kind"]
    if not (real_value(kind, a["a"]) and real_value(kind, a["b"])):
        return None
    cls = KINDS[kind]
    x, y = cls(*a["a"]), cls(*a["b"])
    ix, iy = ref_instant(kind, a["a"]), ref_instant(kind, a["b"])
    got = [x == y, x != y, x < y, x <= y, x > y, x >= y]
    exp = [ix == iy, ix != iy, ix < iy, ix <= iy, ix > iy, ix >= iy]
    if got != exp:
        return f"{x!r} vs {y!r}: [==,!=,<,<=,>,>=] = {got}, the timeline says {exp}"
    return None


def _std_instant(dt):
    """timeline position in ns of a stdlib datetime (naive = UTC), by stdlib arithmetic only"""
    import datetime as _d

    epoch = _d.datetime(1, 1, 1, tzinfo=_d.timezone.utc)
    aware = dt if dt.tzinfo else dt.replace(tzinfo=_d.timezone.utc)
    delta = aware - epoch
    return ((delta.days + 1) * 86400 + delta.seconds) * 10**9 + delta.microseconds * 1000


def oracle_stdlib(a):
    """conversions to and from the standard library preserve the instant (where datetime can hold the
    value: year 1..9999, no 24:00:00; below the microsecond the value is truncated)"""
    kind, v = a["kind"], a["v"]
    if not real_value(kind, v) or not _offset_ok(v):
        return None
    cls = KINDS[kind]
    x = cls(*v)
    year_ok = kind == "time" or 1 <= v[0] <= 9999
    h24 = kind != "date" and v[-5] == 24
    conv = {"date": "to_datetime", "time": "to_time", "datetime": "to_datetime"}[kind]
    try:
        obj = getattr(x, conv)()
    except (ValueError, OverflowError) as e:
        if year_ok and not h24:
            return f"{x!r}.{conv}() raised {type(e).__name__} for a value the standard library can hold"
        return None
    except Exception as e:  # noqa: BLE001
        return f"{x!r}.{conv}() raised {type(e).__name__}"
    if not year_ok or h24:
        return f"{x!r}.{conv}() = {obj!r}: the standard library cannot hold this value"
    if kind == "date":
        d = x.to_date()
        if (d.year, d.month, d.day) != tuple(v[:3]):
            return f"{x!r}.to_date() = {d!r}"
        if XmlDate.from_date(d) != XmlDate(*v[:3]):
            return f"XmlDate.from_date({d!r}) != {x!r}"
        if XmlDate.from_datetime(obj) != x:
            return f"XmlDate.from_datetime({obj!r}) = {XmlDate.from_datetime(obj)!r} != {x!r}"
        if _std_instant(obj) != ref_instant("datetime", [*v[:3], 0, 0, 0, 0, v[3]]):
            return f"{x!r}.to_datetime() = {obj!r} is not the first instant of that day"
        return None
    trunc = list(v)
    trunc[-2] -= trunc[-2] % 1000
    if kind == "time":
        back = XmlTime.from_time(obj)
        if list(back) != trunc:
            return f"XmlTime.from_time({obj!r}) = {back!r}, expected {trunc}"
        got = ((obj.hour * 60 + obj.minute) * 60 + obj.second) * 10**9 + obj.microsecond * 1000
        off = obj.utcoffset()
        got -= 0 if off is None else (off // _US) * 1000
        if got != ref_instant(kind, trunc):
            return f"{x!r}.to_time() = {obj!r} is another time of day"
        return None
    back = XmlDateTime.from_datetime(obj)
    if list(back) != trunc:
        return f"XmlDateTime.from_datetime({obj!r}) = {back!r}, expected {trunc}"
    if _std_instant(obj) != ref_instant(kind, trunc):
        return f"{x!r}.to_datetime() = {obj!r} is another instant"
    return None


def oracle_from_std(a):
    """from_date/from_time/from_datetime of a real stdlib object: same instant, and the way back gives
    an equal object — for UTC offsets that are whole minutes (XSD timezones have minute resolution)"""
    kind, v = a["kind"], a["v"]
    u = None if kind == "date.from_date" else v[-1]
    if u is not None and u % 60000000:
        return None
    if kind == "date.from_date":
        d = _dt.date(*v)
        x = XmlDate.from_date(d)
        if list(x) != [*v, None] or x.to_date() != d:
            return f"XmlDate.from_date({d!r}) = {x!r}"
        return None
    if kind == "time.from_time":
        t = _dt.time(*v[:4], tzinfo=_mk_tz(u))
        x = XmlTime.from_time(t)
        if not real_value("time", list(x)):
            return f"XmlTime.from_time({t!r}) = {x!r} is no time of day"
        want = ((t.hour * 60 + t.minute) * 60 + t.second) * 10**9 + t.microsecond * 1000 - (u or 0) * 1000
        if ref_instant("time", list(x)) != want:
            return f"XmlTime.from_time({t!r}) = {x!r} is another time of day"
        t2 = x.to_time()
        if t2 != t or t2.utcoffset() != t.utcoffset() or (t2.tzinfo is None) != (t.tzinfo is None):
            return f"XmlTime.from_time({t!r}).to_time() = {t2!r}"
        return None
    dt = _dt.datetime(*v[:7], tzinfo=_mk_tz(u))
    if kind == "date.from_datetime":
        x = XmlDate.from_datetime(dt)
        if list(x)[:3] != v[:3] or x.offset != (None if u is None else u // 60000000):
            return f"XmlDate.from_datetime({dt!r}) = {x!r}"
        return None
    x = XmlDateTime.from_datetime(dt)
    if not real_value("datetime", list(x)):
        return f"XmlDateTime.from_datetime({dt!r}) = {x!r} is no real date/time"
    if ref_instant("datetime", list(x)) != _std_instant(dt):
        return f"XmlDateTime.from_datetime({dt!r}) = {x!r} is another instant"
    dt2 = x.to_datetime()
    if dt2 != dt or dt2.utcoffset() != dt.utcoffset() or (dt2.tzinfo is None) != (dt.tzinfo is None):
        return f"XmlDateTime.from_datetime({dt!r}).to_datetime() = {dt2!r}"
    return None


def oracle_instant(a):
    """the comparison key is the position on the timeline: checked against an independent computation
    (date.toordinal inside a 400-year cycle + integer arithmetic for the cycles; in the standard library's
    range also against `aware datetime - epoch`)"""
    kind, v = a["kind"], a["v"]
    if not real_value(kind, v):
        return None
    x = KINDS[kind](*v)
    got = _DT._timeline(x)
    shift = (EPOCH_SHIFT_DAYS - 1) * 86400 * 10**9 if kind == "datetime" else 0
    want = ref_instant(kind, v) + shift
    if got != want:
        return f"_timeline({x!r}) = {got}, the timeline position is {want}"
    if kind == "datetime" and 1 <= v[0] <= 9999 and v[3] != 24 and v[6] % 1000 == 0 and (v[7] is None or -1440 < v[7] < 1440):
        d = _dt.datetime(*v[:6], v[6] // 1000, tzinfo=None if v[7] is None else _dt.timezone(_dt.timedelta(minutes=v[7])))
        try:
            aware = d if d.tzinfo else d.replace(tzinfo=_dt.timezone.utc)
            delta = aware - _dt.datetime(1, 1, 1, tzinfo=_dt.timezone.utc)
        except OverflowError:
            return None
        std = ((delta.days + EPOCH_SHIFT_DAYS) * 86400 + delta.seconds) * 10**9 + delta.microseconds * 1000
        if got != std:
            return f"_timeline({x!r}) = {got}, datetime arithmetic gives {std}"
    return None


def oracle_hash(a):
    """equal values hash equal (and can share a set / dict slot)"""
    kind = a["kind"]
    if kind == "period":
        try:
            x, y = XmlPeriod(a["a"]), XmlPeriod(a["b"])
        except ValueError:
            return None
    else:
        cls = KINDS[kind]
        x, y = cls(*a["a"]), cls(*a["b"])
    try:
        hx, hy = hash(x), hash(y)
    except TypeError as e:
        return f"hash({x!r}) raises TypeError: {e}"
    if x == y and hx != hy:
        return f"{x!r} == {y!r} but their hashes differ"
    if x == y and len({x, y}) != 1:
        return f"{x!r} == {y!r} but a set keeps both"
    return None


def gen_hash(rng, tier):
    yield {"kind": "period", "a": "2001Z", "b": "2001+00:00"}
    yield {"kind": "period", "a": " --05 ", "b": "--05"}
    yield {"kind": "period", "a": "--05--", "b": "--05"}
    yield {"kind": "period", "a": "---01-00:00", "b": "---01Z"}
    for a in gen_cmp(rng, tier):
        yield a
    for s in PERIOD_HAND:
        yield {"kind": "period", "a": s, "b": " " + s.replace("Z", "+00:00")}


ORACLES = [
    Oracle("c06.parse", gen_oracle_parse, oracle_parse, from_ops=("date.parse",)),
    Oracle("c06.value", gen_str, oracle_value, from_ops=("date.str",)),
    Oracle("c06.period", gen_period, oracle_period, covered=covered_period, from_ops=("period.parse",)),
    Oracle("c06.duration", gen_dur, oracle_dur, from_ops=("dur.parse",)),
    Oracle("c06.cmp", gen_cmp, oracle_cmp, from_ops=("date.cmp",)),
    Oracle("c06.stdlib", gen_str, oracle_stdlib, from_ops=("date.str",)),
    Oracle("c06.from_std", gen_from_std, oracle_from_std, from_ops=("date.from_std",)),
    Oracle("c06.instant", gen_timeline, oracle_instant, from_ops=("date.timeline",)),
    Oracle("c06.hash", gen_hash, oracle_hash, from_ops=("date.cmp",)),
]

def replay_gmonth_legacy():
    try:
        a, b = XmlPeriod("--05--"), XmlPeriod(" --11---05:00")
    except ValueError as e:
        return False, f"rejected now: {e}"
    ok_ = (str(a), a.as_dict(), str(b), b.offset) == ("--05--", {"year": None, "month": 5, "day": None, "offset": None}, "--11---05:00", -300)
    return ok_ and xsd_period(str(a)) is None, f"str(XmlPeriod('--05--')) = {str(a)!r}, {a.as_dict()}"


FINDINGS = {"C06-gmonth-legacy-spelling": replay_gmonth_legacy}

LEVEL_TEXT = (
    "Lean theorems over all strings / all values, every Unicode environment: (acceptance) every XSD-valid lexical form of date/time/dateTime "
    "(Spec/XsdDate.lean: signed >=4-digit years incl. -0000, every calendar day, 24:00:00(.0+), 1-9 fraction digits, Z and every +-hh:mm up to 14:00, "
    "XSD white space around) parses to exactly the components XSD assigns (parse_accepts_valid_*; a 10th fraction digit is refused); likewise the five g* "
    "shapes through XmlPeriod's dispatcher (period_accepts_g*) and xs:duration for every combination of components, sign and fractional seconds "
    "(duration_accepts_valid, duration_format_parse); (rejection) whatever from_string/XmlPeriod accept is a real calendar date / time of day "
    "(reject_unreal_*); (round trip) str() of every valid value parses back to it (*_format_parse); (timeline) the comparison key orders and "
    "identifies values exactly as the calendar does (days_from_civil_*, datetime_key_*, timeline_end_of_day, timeline_offset), equal values hash equal "
    "(datetime_eq_hash, time_eq_hash); (converse) whatever from_string accepts is, after Python's strip(), an XSD lexical form of xs:date / xs:time / "
    "xs:dateTime with XSD's components (date/time/datetime_accepts_only_valid, date_accepts_iff_valid) — false for XmlPeriod because of the legacy "
    "--MM-- spelling (period_accepts_only_valid_false, finding C06-gmonth-legacy-spelling); (standard library) "
    "to_datetime/to_time/to_date succeed exactly on the stated region, move the instant by exactly fractional_second % 1000 ns, from_* by exactly "
    "utcoffset % 1 min, and the two directions are inverse where representable (to_datetime_ok_iff, to_datetime_instant, from_to_datetime, "
    "from_datetime_instant, to_from_datetime, from_datetime_shape, and the XmlTime/XmlDate counterparts). The model is tied to the code by a "
    "differential check of from_string/__str__/parse_date_args/int()/XmlPeriod/XmlDuration/_cmp/_timeline/__hash__/days_from_civil/to_*/from_* and of "
    "the instants of real datetime objects (stdlib arithmetic) on hand-picked, "
    "bounded-exhaustive, grammar-drawn and mutated inputs; the property's own oracles are swept on the implementation on every run."
)
LEVEL_NOTE = (
    "Trusted: Lean kernel; hand models of CPython int()/strip/isdigit/format, of the duration regular expression and of the datetime constructors; "
    "the XSD grammar transcription; the sampling correspondence check. Not modelled: XmlDate/XmlPeriod/XmlDuration ordering (tuple / string order, "
    "outside the statement), hash(XmlPeriod) beyond 'equal values hash equal' (oracle c06.hash), replace(), now()/utcnow() beyond the shape of from_datetime results (the clock is not compared), "
    "converter.py's strptime-based DateTimeConverter for stdlib types with a format."
)
