/-
C01 (fragments F2…): the abstract writer with `xsi:nil` and list-valued attribute payloads.
Generalises `SubW_elem` / `SubW_elem_data` of `C01Write.lean`.
-/
import XsdataModel.Proofs.C01Main
import XsdataModel.Bind.FN

namespace Proofs.C01
open Py Xs.Bind Xs.Bind.F1

/-- the attribute events `evs` leave the entries `A` in the pending start tag -/
def AttrsW (M : NsMap) (isDt : Str → Bool) (evs : List Ev) (A : List (QN × Str)) : Prop :=
  ∀ w : WState, w.pending.isSome = true → (∀ kv ∈ A, ∀ kv' ∈ w.attrs, kv'.1 ≠ kv.1) →
    evs.foldlM (WState.step M isDt) w = .ok { w with attrs := w.attrs ++ A }

theorem AttrsW_nil (M : NsMap) (isDt : Str → Bool) : AttrsW M isDt [] [] := by
  intro w _ _; simp; rfl

theorem AttrsW.append {M : NsMap} {isDt : Str → Bool} {e1 e2 : List Ev} {A1 A2 : List (QN × Str)}
    (h1 : AttrsW M isDt e1 A1) (h2 : AttrsW M isDt e2 A2)
    (hd : ∀ a ∈ A1, ∀ b ∈ A2, a.1 ≠ b.1) : AttrsW M isDt (e1 ++ e2) (A1 ++ A2) := by
  intro w hp hfresh
  rw [foldlM_append_ok (h1 w hp (fun kv hkv => hfresh kv (by simp [hkv])))]
  rw [h2 { w with attrs := w.attrs ++ A1 } hp]
  · simp
  · intro kv hkv kv' hkv'
    simp only [List.mem_append] at hkv'
    rcases hkv' with h | h
    · exact hfresh kv (by simp [hkv]) kv' h
    · exact hd kv' h kv hkv

/-- one attribute event with payload `d` stored as `s` -/
theorem AttrsW_one {M : NsMap} {isDt : Str → Bool} (k : QN) (d : Data) (s : Str)
    (henc : encodeData M d = some (some s))
    (hplain : ∀ t, d = .prim (.str t) → ¬ (t.head? = some '{' ∧ (k = xsiType ∨ isDt t = true))) :
    AttrsW M isDt [Ev.attr k d] [(k, s)] := by
  intro w hp hfresh
  have hpn : w.pending.isNone = false := by
    cases hw : w.pending with
    | none => simp [hw] at hp
    | some _ => rfl
  have hset : dictSet w.attrs k s = w.attrs ++ [(k, s)] :=
    dictSet_fresh _ _ _ (fun kv' hkv' => hfresh (k, s) (by simp) kv' hkv')
  simp only [List.foldlM_cons, List.foldlM_nil, WState.step, hpn, Bool.false_eq_true, if_false]
  cases d with
  | prim p =>
    cases p with
    | str t =>
      have := hplain t rfl
      have hc : (t.head? = some '{' && (decide (k = xsiType) || isDt t)) = false := by
        cases hh : (t.head? = some '{' && (decide (k = xsiType) || isDt t)) with
        | false => rfl
        | true =>
          exfalso; apply this
          simpa [Bool.and_eq_true, Bool.or_eq_true] using hh
      simp only [hc, Bool.false_eq_true, if_false, henc, bind, Except.bind, pure, Except.pure, hset]
    | _ => simp only [henc, bind, Except.bind, pure, Except.pure, hset]
  | _ => simp only [henc, bind, Except.bind, pure, Except.pure, hset]

/-- the `xsi:nil` attribute `next_attribute` / `convert_element` add -/
def nilAttr (b : Bool) : List (QN × Str) := if b then [(xsiNil, "true".toList)] else []
def nilEvs (b : Bool) : List Ev := if b then [Ev.attr xsiNil (.prim (.str "true".toList))] else []

theorem AttrsW_nilAttr (M : NsMap) (isDt : Str → Bool) (b : Bool) :
    AttrsW M isDt (nilEvs b) (nilAttr b) := by
  cases b
  · exact AttrsW_nil M isDt
  · exact AttrsW_one xsiNil _ _ rfl (by intro t ht; cases ht; simp)

/-- the `xsi:type` attribute `next_attribute` adds for an instance of a subclass -/
def typeAttr (M : NsMap) (xt : Option QN) : List (QN × Str) :=
  match xt with
  | some t => if t.isEmpty then [] else [(xsiType, qnameText M t)]
  | none => []
def typeEvs (xt : Option QN) : List Ev :=
  match xt with
  | some t => if t.isEmpty then [] else [Ev.attr xsiType (.prim (.qname t))]
  | none => []

theorem AttrsW_typeAttr (M : NsMap) (isDt : Str → Bool) (xt : Option QN) :
    AttrsW M isDt (typeEvs xt) (typeAttr M xt) := by
  cases xt with
  | none => exact AttrsW_nil M isDt
  | some t =>
    by_cases ht : t.isEmpty = true
    · simpa [typeEvs, typeAttr, ht] using AttrsW_nil M isDt
    · simp only [typeEvs, typeAttr, ht, Bool.false_eq_true, if_false]
      exact AttrsW_one xsiType _ _ rfl (by intro s hs; cases hs)

theorem typeAttr_keys {M : NsMap} {xt : Option QN} : ∀ kv ∈ typeAttr M xt, kv.1 = xsiType := by
  intro kv hkv
  cases xt with
  | none => cases hkv
  | some t =>
    by_cases ht : t.isEmpty = true
    · simp [typeAttr, ht] at hkv
    · simp only [typeAttr, ht, Bool.false_eq_true, if_false, List.mem_singleton] at hkv
      rw [hkv]

theorem nilAttr_keys {b : Bool} : ∀ kv ∈ nilAttr b, kv.1 = xsiNil := by
  intro kv hkv
  cases b
  · cases hkv
  · simp only [nilAttr, if_true, List.mem_singleton] at hkv
    rw [hkv]

theorem filter_nilAttr (A : List (QN × Str)) (b : Bool) (h : ∀ kv ∈ A, kv.1 ≠ xsiNil) :
    (A ++ nilAttr b).filter (fun x => !decide (x.1 = xsiNil)) = A := by
  rw [List.filter_append, filter_ne_nil A h]
  cases b <;> simp [nilAttr]

/-- state after `START q` and attribute events -/
theorem start_attrsW (M : NsMap) (isDt : Str → Bool) (q : QN) (evs : List Ev) (A : List (QN × Str))
    (w : WState) (h2 : w.pending = none → w.attrs = []) (hA : AttrsW M isDt evs A) :
    ([Ev.start q] ++ evs).foldlM (WState.step M isDt) w =
      .ok { w.flush false with pending := some q, attrs := A } := by
  have hattrs : (w.flush false).attrs = [] := by
    unfold WState.flush
    cases hp : w.pending with
    | none => simpa using h2 hp
    | some p => simp
  have h0 : [Ev.start q].foldlM (WState.step M isDt) w =
      .ok { w.flush false with pending := some q } := rfl
  rw [foldlM_append_ok h0, hA _ rfl (by intro kv _ kv' hkv'; simp only [hattrs] at hkv'; cases hkv')]
  simp [hattrs]

/-- an element with attributes `A`, possibly `xsi:nil`, and complete child elements: `xsi:nil`
survives only if there is no child -/
theorem SubW_elemN {M : NsMap} {isDt : Str → Bool} (q : QN) (evsA : List Ev) (A : List (QN × Str))
    (nil : Bool) (body : List Ev) (saxs : List Sax)
    (hA : AttrsW M isDt evsA (A ++ nilAttr nil)) (hnil : ∀ kv ∈ A, kv.1 ≠ xsiNil)
    (hb : BodyW M isDt body saxs) :
    SubW M isDt ([Ev.start q] ++ evsA ++ body ++ [Ev.end q])
      (Sax.open q (if body.isEmpty then A ++ nilAttr nil else A) :: saxs ++ [Sax.close q]) := by
  refine ⟨by simp, fun w h1 h2 => ?_⟩
  have ht : (w.flush false).tail = none := by rw [flush_tail]; exact h1
  generalize hw0 : w.flush false = w0 at ht
  have e1 := start_attrsW M isDt q evsA _ w h2 hA
  rw [hw0] at e1
  have e2 := hb.2 { w0 with pending := some q, attrs := A ++ nilAttr nil } ht (by simp)
  rw [List.append_assoc, foldlM_append_ok e1, foldlM_append_ok e2]
  have hgoal : ∀ X, afterW w X = ⟨w0.out ++ X, none, [], false, none⟩ := by
    intro X; simp [afterW, hw0]
  rw [hgoal]
  cases body with
  | nil =>
    rw [hb.1 rfl]
    simp [WState.step, WState.flush, ht]
  | cons x xs =>
    simp [WState.step, WState.flush, afterW, filter_nilAttr A nil hnil, ht]

/-- an element with attributes `A`, possibly `xsi:nil`, and one `DATA` event: `xsi:nil` survives
only if the payload is `None` -/
theorem SubW_elem_dataN {M : NsMap} {isDt : Str → Bool} (q : QN) (evsA : List Ev)
    (A : List (QN × Str)) (nil : Bool) (d : Data) (value : Option Str)
    (hd : encodeData M d = some value)
    (hA : AttrsW M isDt evsA (A ++ nilAttr nil)) (hnil : ∀ kv ∈ A, kv.1 ≠ xsiNil) :
    SubW M isDt ([Ev.start q] ++ evsA ++ [Ev.data d] ++ [Ev.end q])
      (Sax.open q (if value.isNone then A ++ nilAttr nil else A) :: dataSax value ++ [Sax.close q]) := by
  refine ⟨by simp, fun w h1 h2 => ?_⟩
  have ht : (w.flush false).tail = none := by rw [flush_tail]; exact h1
  generalize hw0 : w.flush false = w0 at ht
  have e1 := start_attrsW M isDt q evsA _ w h2 hA
  rw [hw0] at e1
  rw [List.append_assoc, foldlM_append_ok e1]
  have hgoal : ∀ X, afterW w X = ⟨w0.out ++ X, none, [], false, none⟩ := by
    intro X; simp [afterW, hw0]
  rw [hgoal]
  cases value with
  | none =>
    simp [WState.step, hd, WState.flush, dataSax, ht, bind, Except.bind]
    rfl
  | some s =>
    by_cases hs : s = []
    · subst hs
      simp [WState.step, hd, WState.flush, dataSax, ht, bind, Except.bind, filter_nilAttr A nil hnil]
      rfl
    · simp [WState.step, hd, WState.flush, dataSax, ht, bind, Except.bind, filter_nilAttr A nil hnil, hs]
      rfl

end Proofs.C01
