/- C13 helper lemmas: `reduce_attributes` admits every class it merged. -/
import XsdataModel.Samples.Reduce

namespace Xs.Samples
open Py

/-! ### `Attr.same` is an equivalence -/

theorem same_iff (a b : Attr) : a.same b = true ↔ a.tag = b.tag ∧ a.name = b.name ∧ a.ns = b.ns := by
  simp [Attr.same, and_assoc]

theorem same_refl (a : Attr) : a.same a = true := by simp [same_iff]

theorem same_symm {a b : Attr} (h : a.same b = true) : b.same a = true := by
  rw [same_iff] at *; exact ⟨h.1.symm, h.2.1.symm, h.2.2.symm⟩

theorem same_comm (a b : Attr) : a.same b = b.same a := by
  cases h : a.same b <;> cases h' : b.same a <;> simp_all
  · exact absurd (same_symm h') (by simp [h])
  · exact absurd (same_symm h) (by simp [h'])

theorem same_trans {a b c : Attr} (h : a.same b = true) (h' : b.same c = true) : a.same c = true := by
  rw [same_iff] at *; exact ⟨h.1.trans h'.1, h.2.1.trans h'.2.1, h.2.2.trans h'.2.2⟩

/-- no two attrs of the list answer to the same tag / name / namespace -/
def NodupKeys (l : List Attr) : Prop := l.Pairwise (fun a b => a.same b = false)

instance (l : List Attr) : Decidable (NodupKeys l) := by unfold NodupKeys; infer_instance

/-- the attrs of `c` whose key differs from `k`'s -/
def strip (k : Attr) (c : List Attr) : List Attr := c.filter (fun x => !x.same k)

/-- `c` has no attr with `k`'s key -/
def lacks (k : Attr) (c : List Attr) : Bool := !c.any (fun x => x.same k)

theorem findAttr_none {l : List Attr} {k : Attr} (h : findAttr l k = none) : ∀ x ∈ l, x.same k = false := by
  intro x hx
  simp [findAttr, List.findIdx?_eq_none_iff] at h
  simpa using h x hx

theorem strip_of_lacks {l : List Attr} {k : Attr} (h : ∀ x ∈ l, x.same k = false) : strip k l = l := by
  simp only [strip]
  rw [List.filter_eq_self]
  intro x hx; simp [h x hx]

theorem findAttr_some {l : List Attr} {k : Attr} {pos : Nat} (h : findAttr l k = some pos) :
    ∃ found, l[pos]? = some found ∧ found.same k = true ∧ found ∈ l ∧
      (NodupKeys l → popAt l pos = strip k l) := by
  induction l generalizing pos with
  | nil => simp [findAttr] at h
  | cons x xs ih =>
    simp only [findAttr, List.findIdx?_cons] at h
    by_cases hx : x.same k = true
    · simp [hx] at h
      subst h
      refine ⟨x, by simp, hx, by simp, ?_⟩
      intro hn
      simp only [NodupKeys, List.pairwise_cons] at hn
      have : ∀ y ∈ xs, y.same k = false := by
        intro y hy
        have := hn.1 y hy
        cases hy' : y.same k
        · rfl
        · have := same_trans hx (same_symm hy'); simp_all
      simp [popAt, strip, hx, List.filter_cons]
      rw [List.filter_eq_self.2]
      intro y hy; simp [this y hy]
    · simp [hx] at h
      obtain ⟨p, hp, rfl⟩ := h
      obtain ⟨found, h1, h2, h3, h4⟩ := ih (pos := p) (by simpa [findAttr] using hp)
      refine ⟨found, by simpa using h1, h2, by simp [h3], ?_⟩
      intro hn
      simp only [NodupKeys, List.pairwise_cons] at hn
      have := h4 hn.2
      simp only [popAt] at this ⊢
      simp [strip, List.filter_cons, hx] at this ⊢
      simpa using this


/-! ### `merge_attributes` widens the bounds and keeps the key -/

theorem merge_same (t s : Attr) (k : Attr) : (mergeAttributes t s).same k = t.same k := by
  simp [mergeAttributes, Attr.same]

theorem merge_min_le_left (t s : Attr) : (mergeAttributes t s).min ≤ t.min := by
  simp [mergeAttributes]; exact Nat.min_le_left _ _

theorem merge_min_le_right (t s : Attr) : (mergeAttributes t s).min ≤ s.min := by
  simp [mergeAttributes]; exact Nat.min_le_right _ _

theorem merge_max_ge_left (t s : Attr) : t.max ≤ (mergeAttributes t s).max := by
  simp only [mergeAttributes]
  refine Nat.le_trans ?_ (Nat.le_max_left _ _)
  split <;> omega

theorem merge_max_ge_right (t s : Attr) : s.max ≤ (mergeAttributes t s).max := by
  simp only [mergeAttributes]
  refine Nat.le_trans ?_ (Nat.le_max_right _ _)
  split <;> omega

/-- `m` is at least as permissive as `a`: wider bounds, and it keeps an interleaving marker -/
def Wider (m a : Attr) : Prop := m.min ≤ a.min ∧ a.max ≤ m.max ∧ (a.seq.isSome = true → m.seq.isSome = true)

theorem Wider.refl (a : Attr) : Wider a a := ⟨Nat.le_refl _, Nat.le_refl _, id⟩

theorem Wider.trans {a b c : Attr} (h1 : Wider a b) (h2 : Wider b c) : Wider a c :=
  ⟨Nat.le_trans h1.1 h2.1, Nat.le_trans h2.2.1 h1.2.1, fun h => h1.2.2 (h2.2.2 h)⟩

theorem merge_wider_left (t s : Attr) : Wider (mergeAttributes t s) t := by
  refine ⟨merge_min_le_left t s, merge_max_ge_left t s, ?_⟩
  intro h
  simp only [mergeAttributes]
  cases ht : t.seq with
  | none => simp [ht] at h
  | some q => simp

theorem merge_wider_right (t s : Attr) : Wider (mergeAttributes t s) s := by
  refine ⟨merge_min_le_right t s, merge_max_ge_right t s, ?_⟩
  intro h
  simp only [mergeAttributes]
  cases ht : t.seq with
  | none => simpa using h
  | some q => simp

theorem nodupKeys_unique {l : List Attr} (h : NodupKeys l) {a b : Attr} (ha : a ∈ l) (hb : b ∈ l)
    (hs : a.same b = true) : a = b := by
  induction l with
  | nil => simp at ha
  | cons x xs ih =>
    simp only [NodupKeys, List.pairwise_cons] at h
    simp only [List.mem_cons] at ha hb
    rcases ha with rfl | ha <;> rcases hb with rfl | hb
    · rfl
    · have := h.1 b hb; simp [hs] at this
    · have := h.1 a ha; rw [same_comm] at this; simp [hs] at this
    · exact ih h.2 ha hb

/-- `m` has `k`'s key and its bounds contain those of every `k`-attr of the classes -/
def Covers (k m : Attr) (cs : List (List Attr)) : Prop :=
  m.same k = true ∧ ∀ c ∈ cs, ∀ a ∈ c, a.same k = true → Wider m a

/-- what the inner loop of `reduce_attributes` does for one key -/
theorem reduceOne_spec (k : Attr) (cs : List (List Attr)) (hn : ∀ c ∈ cs, NodupKeys c) :
    ∀ (done : List (List Attr)) (R : List Attr) (added opt : Bool),
      ∃ R', reduceOne k cs done R added opt
          = (done.reverse ++ cs.map (strip k), R', opt || cs.any (lacks k)) ∧
        (added = false →
          (cs.all (lacks k) = true ∧ R' = R) ∨ (cs.all (lacks k) = false ∧ ∃ m, R' = R ++ [m] ∧ Covers k m cs)) ∧
        (added = true → ∀ R0 m0, R = R0 ++ [m0] → m0.same k = true →
          ∃ m, R' = R0 ++ [m] ∧ Wider m m0 ∧ Covers k m cs) := by
  induction cs with
  | nil =>
    intro done R added opt
    refine ⟨R, by simp [reduceOne], ?_, ?_⟩
    · intro _; left; simp
    · intro _ R0 m0 hR hm
      exact ⟨m0, hR, Wider.refl _, hm, by simp⟩
  | cons obj rest ih =>
    intro done R added opt
    have hobj : NodupKeys obj := hn obj (by simp)
    have hrest : ∀ c ∈ rest, NodupKeys c := fun c hc => hn c (by simp [hc])
    cases hf : findAttr obj k with
    | none =>
      have hl := findAttr_none hf
      have hstrip := strip_of_lacks hl
      have hlacks : lacks k obj = true := by
        simp only [lacks, Bool.not_eq_true', List.any_eq_false]
        intro x hx; simp [hl x hx]
      obtain ⟨R', h1, h2, h3⟩ := ih hrest (obj :: done) R added true
      refine ⟨R', ?_, ?_, ?_⟩
      · simp [reduceOne, hf, h1, hstrip, hlacks]
      · intro ha
        rcases h2 ha with ⟨hall, hR⟩ | ⟨hall, m, hR, hc⟩
        · left; simp [hlacks, hall, hR]
        · right
          refine ⟨by simp [hlacks, hall], m, hR, hc.1, ?_⟩
          intro c hc' a ha' hs
          simp only [List.mem_cons] at hc'
          rcases hc' with rfl | hc'
          · simp [hl a ha'] at hs
          · exact hc.2 c hc' a ha' hs
      · intro ha R0 m0 hR hm
        obtain ⟨m, hR', hw, hc⟩ := h3 ha R0 m0 hR hm
        refine ⟨m, hR', hw, hc.1, ?_⟩
        intro c hc' a ha' hs
        simp only [List.mem_cons] at hc'
        rcases hc' with rfl | hc'
        · simp [hl a ha'] at hs
        · exact hc.2 c hc' a ha' hs
    | some pos =>
      obtain ⟨found, hget, hsame, hmem, hpop⟩ := findAttr_some hf
      have hpop := hpop hobj
      have hnl : lacks k obj = false := by
        simp only [lacks, Bool.not_eq_false', List.any_eq_true]
        exact ⟨found, hmem, hsame⟩
      have honly : ∀ a ∈ obj, a.same k = true → a = found := fun a ha hs =>
        nodupKeys_unique hobj ha hmem (same_trans hs (same_symm hsame))
      cases added with
      | false =>
        obtain ⟨R', h1, _, h3⟩ := ih hrest (strip k obj :: done) (R ++ [found]) true opt
        obtain ⟨m, hR', hw, hc⟩ := h3 rfl R found rfl hsame
        refine ⟨R', ?_, ?_, ?_⟩
        · simp [reduceOne, hf, hget, h1, hpop, hnl]
        · intro _
          right
          refine ⟨by simp [hnl], m, hR', hc.1, ?_⟩
          intro c hc' a ha' hs
          simp only [List.mem_cons] at hc'
          rcases hc' with rfl | hc'
          · rw [honly a ha' hs]; exact hw
          · exact hc.2 c hc' a ha' hs
        · intro h; cases h
      | true =>
        refine ?_
        cases hl : R.getLast? with
        | none =>
          obtain ⟨R', h1, _, h3⟩ := ih hrest (strip k obj :: done) R true opt
          refine ⟨R', ?_, ?_, ?_⟩
          · simp [reduceOne, hf, hget, h1, hpop, hnl, hl]
          · intro h; cases h
          · intro _ R0 m0 hR _
            simp [hR] at hl
        | some l =>
          obtain ⟨R', h1, _, h3⟩ := ih hrest (strip k obj :: done) (R.dropLast ++ [mergeAttributes l found]) true opt
          refine ⟨R', ?_, ?_, ?_⟩
          · simp [reduceOne, hf, hget, h1, hpop, hnl, hl]
          · intro h; cases h
          · intro _ R0 m0 hR hm
            have hl' : l = m0 := by simp [hR] at hl; exact hl.symm
            subst hl'
            have hdl : R.dropLast = R0 := by simp [hR]
            obtain ⟨m, hR', hw, hc⟩ := h3 rfl R0 (mergeAttributes l found) (by rw [hdl]) (by rw [merge_same]; exact hm)
            refine ⟨m, hR', hw.trans (merge_wider_left _ _), hc.1, ?_⟩
            intro c hc' a ha' hs
            simp only [List.mem_cons] at hc'
            rcases hc' with rfl | hc'
            · rw [honly a ha' hs]
              exact hw.trans (merge_wider_right _ _)
            · exact hc.2 c hc' a ha' hs


/-! ### `sorted_attrs`: every key once, nothing invented, nothing forgotten -/

theorem nodupKeys_append {l₁ l₂ : List Attr} :
    NodupKeys (l₁ ++ l₂) ↔ NodupKeys l₁ ∧ NodupKeys l₂ ∧ ∀ x ∈ l₁, ∀ y ∈ l₂, x.same y = false := by
  simp [NodupKeys, List.pairwise_append]

theorem insertObj_spec (rest : List Attr) : ∀ (attrs pending : List Attr),
    NodupKeys attrs → NodupKeys (pending ++ rest) →
    (∀ x ∈ attrs, ∀ y ∈ pending, x.same y = false) →
    NodupKeys (insertObj attrs pending rest) ∧
    (∀ x ∈ insertObj attrs pending rest, x ∈ attrs ∨ x ∈ pending ∨ x ∈ rest) ∧
    (∀ x, (x ∈ attrs ∨ x ∈ pending ∨ x ∈ rest) → ∃ y ∈ insertObj attrs pending rest, y.same x = true) := by
  induction rest with
  | nil =>
    intro attrs pending ha hp hd
    simp only [insertObj, List.append_nil] at hp ⊢
    refine ⟨nodupKeys_append.2 ⟨ha, hp, hd⟩, ?_, ?_⟩
    · intro x hx; simp at hx; rcases hx with h | h <;> simp [h]
    · intro x hx
      refine ⟨x, ?_, same_refl x⟩
      simp at hx ⊢; exact hx
  | cons a rest ih =>
    intro attrs pending ha hp hd
    have hp' := nodupKeys_append.1 hp
    have hrest : NodupKeys rest := by
      have := hp'.2.1; simp only [NodupKeys, List.pairwise_cons] at this; exact this.2
    cases hf : findAttr attrs a with
    | some pos =>
      obtain ⟨found, _, hsame, hmem, _⟩ := findAttr_some hf
      have hsplit : attrs = attrs.take pos ++ attrs.drop pos := (List.take_append_drop pos attrs).symm
      have ha' := ha
      rw [hsplit] at ha'
      have hs := nodupKeys_append.1 ha'
      have hmt : ∀ x ∈ attrs.take pos, x ∈ attrs := fun x hx => List.mem_of_mem_take hx
      have hmd : ∀ x ∈ attrs.drop pos, x ∈ attrs := fun x hx => List.mem_of_mem_drop hx
      have hnew : NodupKeys (attrs.take pos ++ pending ++ attrs.drop pos) := by
        rw [nodupKeys_append, nodupKeys_append]
        refine ⟨⟨hs.1, hp'.1, fun x hx y hy => hd x (hmt x hx) y hy⟩, hs.2.1, ?_⟩
        intro x hx y hy
        simp only [List.mem_append] at hx
        rcases hx with hx | hx
        · exact hs.2.2 x hx y hy
        · rw [same_comm]; exact hd y (hmd y hy) x hx
      obtain ⟨h1, h2, h3⟩ := ih (attrs.take pos ++ pending ++ attrs.drop pos) [] hnew (by simpa using hrest) (by simp)
      have hmem' : ∀ x, x ∈ attrs.take pos ++ pending ++ attrs.drop pos ↔ x ∈ attrs ∨ x ∈ pending := by
        intro x
        constructor
        · intro hx
          simp only [List.mem_append] at hx
          rcases hx with (hx | hx) | hx
          · exact Or.inl (hmt x hx)
          · exact Or.inr hx
          · exact Or.inl (hmd x hx)
        · intro hx
          simp only [List.mem_append]
          rcases hx with hx | hx
          · rw [hsplit] at hx
            simp only [List.mem_append] at hx
            rcases hx with hx | hx
            · exact Or.inl (Or.inl hx)
            · exact Or.inr hx
          · exact Or.inl (Or.inr hx)
      simp only [insertObj, hf]
      refine ⟨h1, ?_, ?_⟩
      · intro x hx
        rcases h2 x hx with h | h | h
        · rcases (hmem' x).1 h with h | h
          · exact Or.inl h
          · exact Or.inr (Or.inl h)
        · simp at h
        · exact Or.inr (Or.inr (by simp [h]))
      · intro x hx
        rcases hx with hx | hx | hx
        · exact h3 x (Or.inl ((hmem' x).2 (Or.inl hx)))
        · exact h3 x (Or.inl ((hmem' x).2 (Or.inr hx)))
        · simp only [List.mem_cons] at hx
          rcases hx with rfl | hx
          · obtain ⟨y, hy, hys⟩ := h3 found (Or.inl ((hmem' found).2 (Or.inl hmem)))
            exact ⟨y, hy, same_trans hys hsame⟩
          · exact h3 x (Or.inr (Or.inr hx))
    | none =>
      have hl := findAttr_none hf
      have hp2 : NodupKeys ((pending ++ [a]) ++ rest) := by simpa using hp
      have hd2 : ∀ x ∈ attrs, ∀ y ∈ pending ++ [a], x.same y = false := by
        intro x hx y hy
        simp only [List.mem_append, List.mem_singleton] at hy
        rcases hy with hy | rfl
        · exact hd x hx y hy
        · exact hl x hx
      obtain ⟨h1, h2, h3⟩ := ih attrs (pending ++ [a]) ha hp2 hd2
      simp only [insertObj, hf]
      refine ⟨h1, ?_, ?_⟩
      · intro x hx
        rcases h2 x hx with h | h | h
        · exact Or.inl h
        · simp only [List.mem_append, List.mem_singleton] at h
          rcases h with h | rfl
          · exact Or.inr (Or.inl h)
          · exact Or.inr (Or.inr (by simp))
        · exact Or.inr (Or.inr (by simp [h]))
      · intro x hx
        rcases hx with hx | hx | hx
        · exact h3 x (Or.inl hx)
        · exact h3 x (Or.inr (Or.inl (by simp [hx])))
        · simp only [List.mem_cons] at hx
          rcases hx with rfl | hx
          · exact h3 x (Or.inr (Or.inl (by simp)))
          · exact h3 x (Or.inr (Or.inr hx))

theorem sortedAttrs_fold (cs : List (List Attr)) (hn : ∀ c ∈ cs, NodupKeys c) : ∀ (acc : List Attr),
    NodupKeys acc →
    NodupKeys (cs.foldl (fun attrs obj => insertObj attrs [] obj) acc) ∧
    (∀ x ∈ cs.foldl (fun attrs obj => insertObj attrs [] obj) acc, x ∈ acc ∨ ∃ c ∈ cs, x ∈ c) ∧
    (∀ x, (x ∈ acc ∨ ∃ c ∈ cs, x ∈ c) → ∃ y ∈ cs.foldl (fun attrs obj => insertObj attrs [] obj) acc, y.same x = true) := by
  induction cs with
  | nil =>
    intro acc ha
    refine ⟨ha, fun x hx => Or.inl hx, ?_⟩
    intro x hx
    rcases hx with hx | ⟨c, hc, _⟩
    · exact ⟨x, hx, same_refl x⟩
    · simp at hc
  | cons obj rest ih =>
    intro acc ha
    obtain ⟨i1, i2, i3⟩ := insertObj_spec obj acc [] ha (by simpa using hn obj (by simp)) (by simp)
    obtain ⟨h1, h2, h3⟩ := ih (fun c hc => hn c (by simp [hc])) (insertObj acc [] obj) i1
    simp only [List.foldl_cons]
    refine ⟨h1, ?_, ?_⟩
    · intro x hx
      rcases h2 x hx with h | ⟨c, hc, hxc⟩
      · rcases i2 x h with h | h | h
        · exact Or.inl h
        · simp at h
        · exact Or.inr ⟨obj, by simp, h⟩
      · exact Or.inr ⟨c, by simp [hc], hxc⟩
    · intro x hx
      have via : ∀ z ∈ insertObj acc [] obj, z.same x = true →
          ∃ y ∈ rest.foldl (fun attrs obj => insertObj attrs [] obj) (insertObj acc [] obj), y.same x = true := by
        intro z hz hzs
        obtain ⟨y, hy, hys⟩ := h3 z (Or.inl hz)
        exact ⟨y, hy, same_trans hys hzs⟩
      rcases hx with hx | ⟨c, hc, hxc⟩
      · obtain ⟨z, hz, hzs⟩ := i3 x (Or.inl hx); exact via z hz hzs
      · simp only [List.mem_cons] at hc
        rcases hc with rfl | hc
        · obtain ⟨z, hz, hzs⟩ := i3 x (Or.inr (Or.inr hxc)); exact via z hz hzs
        · exact h3 x (Or.inr ⟨c, hc, hxc⟩)

theorem sortedAttrs_spec (cs : List (List Attr)) (hn : ∀ c ∈ cs, NodupKeys c) :
    NodupKeys (sortedAttrs cs) ∧ (∀ x ∈ sortedAttrs cs, ∃ c ∈ cs, x ∈ c) ∧
    (∀ c ∈ cs, ∀ a ∈ c, ∃ y ∈ sortedAttrs cs, y.same a = true) := by
  obtain ⟨h1, h2, h3⟩ := sortedAttrs_fold cs hn [] (by simp [NodupKeys])
  refine ⟨h1, ?_, ?_⟩
  · intro x hx
    rcases h2 x hx with h | h
    · simp at h
    · exact h
  · intro c hc a ha
    exact h3 a (Or.inr ⟨c, hc, ha⟩)

theorem mem_insertByLen (c x : List Attr) (ds : List (List Attr)) : x ∈ insertByLen c ds ↔ x = c ∨ x ∈ ds := by
  induction ds with
  | nil => simp [insertByLen]
  | cons d ds ih =>
    simp only [insertByLen]
    split
    · simp
    · simp only [List.mem_cons, ih]
      constructor
      · rintro (h | h | h) <;> simp [h]
      · rintro (h | h | h) <;> simp [h]

theorem mem_sortByLenDesc (cs : List (List Attr)) (x : List Attr) : x ∈ sortByLenDesc cs ↔ x ∈ cs := by
  induction cs with
  | nil => simp [sortByLenDesc]
  | cons c cs ih =>
    simp only [sortByLenDesc, List.foldr_cons] at ih ⊢
    rw [mem_insertByLen, ih]; simp


/-! ### the outer loop of `reduce_attributes` -/

/-- the attrs of `c` whose key is none of `P`'s -/
def rem (P : List Attr) (c : List Attr) : List Attr := c.filter (fun x => !P.any (fun p => x.same p))

theorem rem_snoc (P : List Attr) (k : Attr) (c : List Attr) : rem (P ++ [k]) c = strip k (rem P c) := by
  simp only [rem, strip, List.filter_filter]
  congr 1
  funext x
  simp [List.any_append, Bool.and_comm]

theorem rem_nil (c : List Attr) : rem [] c = c := by simp [rem]

/-- what `Attr.__eq__` compares -/
def keyOf (a : Attr) : Tag × Str × Option Str := (a.tag, a.name, a.ns)

theorem same_iff_key (a b : Attr) : a.same b = true ↔ keyOf a = keyOf b := by
  simp [same_iff, keyOf]

/-- state of the outer loop after the keys `P` have been processed -/
def Inv (cs0 : List (List Attr)) (P : List Attr) (st : Option RState) : Prop :=
  ∃ R, st = some ⟨cs0.map (rem P), R⟩ ∧
    (∀ m ∈ R, ∃ p ∈ P, m.same p = true) ∧
    (∀ p ∈ P, ∀ c ∈ cs0, ∀ a ∈ c, a.same p = true → ∀ m ∈ R, m.same p = true → Wider m a) ∧
    (∀ p ∈ P, (∃ c ∈ cs0, ∃ a ∈ c, a.same p = true) → ∃ m ∈ R, m.same p = true) ∧
    (∀ p ∈ P, ∀ c ∈ cs0, lacks p c = true → ∀ m ∈ R, m.same p = true → m.min = 0) ∧
    R.map keyOf = P.map keyOf

theorem mem_rem_same {P : List Attr} {k : Attr} (hk : ∀ p ∈ P, p.same k = false) {c : List Attr} {a : Attr}
    (hs : a.same k = true) : a ∈ rem P c ↔ a ∈ c := by
  simp only [rem, List.mem_filter, Bool.not_eq_true', List.any_eq_false]
  constructor
  · exact fun h => h.1
  · intro h
    refine ⟨h, ?_⟩
    intro p hp
    cases hap : a.same p
    · simp
    · have := same_trans (same_symm hap) hs
      simp [hk p hp] at this

theorem lacks_rem {P : List Attr} {k : Attr} (hk : ∀ p ∈ P, p.same k = false) (c : List Attr) :
    lacks k (rem P c) = lacks k c := by
  simp only [lacks]
  congr 1
  apply Bool.eq_iff_iff.2
  simp only [List.any_eq_true]
  constructor
  · rintro ⟨a, ha, hs⟩; exact ⟨a, (mem_rem_same hk hs).1 ha, hs⟩
  · rintro ⟨a, ha, hs⟩; exact ⟨a, (mem_rem_same hk hs).2 ha, hs⟩

theorem lacks_false_iff {k : Attr} {c : List Attr} : lacks k c = false ↔ ∃ a ∈ c, a.same k = true := by
  simp [lacks]

theorem lacks_true_iff {k : Attr} {c : List Attr} : lacks k c = true ↔ ∀ a ∈ c, a.same k = false := by
  simp [lacks]

theorem reduceStep_inv (cs0 : List (List Attr)) (P : List Attr) (st : Option RState) (k : Attr)
    (hn : ∀ c ∈ cs0, NodupKeys c) (hinv : Inv cs0 P st) (hk : ∀ p ∈ P, p.same k = false)
    (hex : ∃ c ∈ cs0, ∃ a ∈ c, a.same k = true) : Inv cs0 (P ++ [k]) (reduceStep st k) := by
  obtain ⟨R, rfl, J1, J2a, J2b, J2c, J3⟩ := hinv
  have hnd : ∀ c ∈ cs0.map (rem P), NodupKeys c := by
    intro c hc
    simp only [List.mem_map] at hc
    obtain ⟨c0, hc0, rfl⟩ := hc
    exact List.Pairwise.filter _ (hn c0 hc0)
  obtain ⟨R', heq, h2, _⟩ := reduceOne_spec k (cs0.map (rem P)) hnd [] R false false
  have hall : (cs0.map (rem P)).all (lacks k) = false := by
    obtain ⟨c, hc, a, ha, hs⟩ := hex
    simp only [List.all_eq_false, List.mem_map]
    refine ⟨rem P c, ⟨c, hc, rfl⟩, ?_⟩
    rw [lacks_rem hk]
    simp [lacks_false_iff.2 ⟨a, ha, hs⟩]
  rcases h2 rfl with ⟨h, _⟩ | ⟨_, m, hR', hcov⟩
  · rw [hall] at h; cases h
  -- the element appended for `k`, after the `optional` adjustment
  have hcov' : ∀ c ∈ cs0, ∀ a ∈ c, a.same k = true → Wider m a := by
    intro c hc a ha hs
    exact hcov.2 (rem P c) (by simp only [List.mem_map]; exact ⟨c, hc, rfl⟩) a ((mem_rem_same hk hs).2 ha) hs
  have hany : ∀ c ∈ cs0, lacks k c = true → (cs0.map (rem P)).any (lacks k) = true := by
    intro c hc hl
    simp only [List.any_eq_true, List.mem_map]
    exact ⟨rem P c, ⟨c, hc, rfl⟩, by rw [lacks_rem hk]; exact hl⟩
  have hfinal : ∃ m', reduceStep (some ⟨cs0.map (rem P), R⟩) k = some ⟨cs0.map (rem (P ++ [k])), R ++ [m']⟩ ∧
      m'.same k = true ∧ Wider m' m ∧
      ((cs0.map (rem P)).any (lacks k) = true → m'.min = 0) := by
    have hcls : (cs0.map (rem P)).map (strip k) = cs0.map (rem (P ++ [k])) := by
      simp [List.map_map, Function.comp_def, rem_snoc]
    cases hopt : (cs0.map (rem P)).any (lacks k) with
    | true =>
      refine ⟨{ m with min := 0 }, ?_, by simpa [Attr.same] using hcov.1, ⟨by simp, Nat.le_refl _, id⟩, fun _ => rfl⟩
      simp [reduceStep, heq, hopt, hR', hcls]
    | false =>
      refine ⟨m, ?_, hcov.1, Wider.refl _, fun h => by cases h⟩
      simp [reduceStep, heq, hopt, hR', hcls]
  obtain ⟨m', hst, hmk, hwide, hopt⟩ := hfinal
  have hnotP : ∀ p ∈ P, m'.same p = false := by
    intro p hp
    cases h : m'.same p
    · rfl
    · have := same_trans (same_symm h) hmk
      simp [hk p hp] at this
  have holdk : ∀ m1 ∈ R, m1.same k = false := by
    intro m1 hm1
    obtain ⟨p, hp, hs⟩ := J1 m1 hm1
    cases h : m1.same k
    · rfl
    · have := same_trans (same_symm hs) h
      simp [hk p hp] at this
  refine ⟨R ++ [m'], hst, ?_, ?_, ?_, ?_, ?_⟩
  rotate_right
  · simp only [List.map_append, List.map_cons, List.map_nil, J3]
    rw [(same_iff_key m' k).1 hmk]
  · intro m1 hm1
    simp only [List.mem_append, List.mem_singleton] at hm1
    rcases hm1 with hm1 | rfl
    · obtain ⟨p, hp, hs⟩ := J1 m1 hm1
      exact ⟨p, by simp [hp], hs⟩
    · exact ⟨k, by simp, hmk⟩
  · intro p hp c hc a ha hs m1 hm1 hms
    simp only [List.mem_append, List.mem_singleton] at hp hm1
    rcases hp with hp | rfl
    · rcases hm1 with hm1 | rfl
      · exact J2a p hp c hc a ha hs m1 hm1 hms
      · simp [hnotP p hp] at hms
    · rcases hm1 with hm1 | rfl
      · simp [holdk m1 hm1] at hms
      · exact hwide.trans (hcov' c hc a ha hs)
  · intro p hp hex'
    simp only [List.mem_append, List.mem_singleton] at hp
    rcases hp with hp | rfl
    · obtain ⟨m1, hm1, hs⟩ := J2b p hp hex'
      exact ⟨m1, by simp [hm1], hs⟩
    · exact ⟨m', by simp, hmk⟩
  · intro p hp c hc hl m1 hm1 hms
    simp only [List.mem_append, List.mem_singleton] at hp hm1
    rcases hp with hp | rfl
    · rcases hm1 with hm1 | rfl
      · exact J2c p hp c hc hl m1 hm1 hms
      · simp [hnotP p hp] at hms
    · rcases hm1 with hm1 | rfl
      · simp [holdk m1 hm1] at hms
      · exact hopt (hany c hc hl)


theorem reduceFold_inv (cs0 : List (List Attr)) (hn : ∀ c ∈ cs0, NodupKeys c) (S : List Attr) :
    ∀ (P : List Attr) (st : Option RState), Inv cs0 P st → NodupKeys (P ++ S) →
      (∀ k ∈ S, ∃ c ∈ cs0, ∃ a ∈ c, a.same k = true) → Inv cs0 (P ++ S) (S.foldl reduceStep st) := by
  induction S with
  | nil => intro P st h _ _; simpa using h
  | cons k S ih =>
    intro P st hinv hnd hex
    have hnd' := nodupKeys_append.1 hnd
    have hk : ∀ p ∈ P, p.same k = false := fun p hp => hnd'.2.2 p hp k (by simp)
    have hstep := reduceStep_inv cs0 P st k hn hinv hk (hex k (by simp))
    have := ih (P ++ [k]) (reduceStep st k) hstep (by simpa using hnd) (fun k' hk' => hex k' (by simp [hk']))
    simpa using this

/-- `reduce_attributes` never crashes on classes without duplicate attrs, and the result admits
each of the classes: every attr is there with bounds containing its own, and an attr that a
class lacks is optional -/
theorem reduceAttributes_admits (cs : List (List Attr)) (hn : ∀ c ∈ cs, NodupKeys c) :
    ∃ R, reduceAttributes cs = some R ∧ ∀ occ ∈ cs, admitsAttrs R occ = true := by
  have hn' : ∀ c ∈ sortByLenDesc cs, NodupKeys c := fun c hc => hn c ((mem_sortByLenDesc cs c).1 hc)
  obtain ⟨s1, s2, s3⟩ := sortedAttrs_spec (sortByLenDesc cs) hn'
  have h0 : Inv (sortByLenDesc cs) [] (some ⟨sortByLenDesc cs, []⟩) := by
    refine ⟨[], ?_, by simp, by simp, by simp, by simp, by simp⟩
    have : (sortByLenDesc cs).map (rem []) = sortByLenDesc cs := by
      rw [List.map_congr_left (g := id) (fun c _ => rem_nil c)]; simp
    rw [this]
  have hex : ∀ k ∈ sortedAttrs (sortByLenDesc cs), ∃ c ∈ sortByLenDesc cs, ∃ a ∈ c, a.same k = true := by
    intro k hk
    obtain ⟨c, hc, hkc⟩ := s2 k hk
    exact ⟨c, hc, k, hkc, same_refl k⟩
  obtain ⟨R, hst, J1, J2a, J2b, J2c, _⟩ :=
    reduceFold_inv (sortByLenDesc cs) hn' (sortedAttrs (sortByLenDesc cs)) [] _ h0 (by simpa using s1) hex
  simp only [List.nil_append] at hst J1 J2a J2b J2c
  refine ⟨R, by simp [reduceAttributes, hst], ?_⟩
  intro occ hocc
  have hocc' : occ ∈ sortByLenDesc cs := (mem_sortByLenDesc cs occ).2 hocc
  simp only [admitsAttrs, Bool.and_eq_true, List.all_eq_true]
  constructor
  · intro a ha
    obtain ⟨y, hy, hys⟩ := s3 occ hocc' a ha
    obtain ⟨m, hm, hms⟩ := J2b y hy ⟨occ, hocc', a, ha, same_symm hys⟩
    have hma : m.same a = true := same_trans hms hys
    cases hf : R.find? (fun m => m.same a) with
    | none =>
      have := List.find?_eq_none.1 hf m hm
      simp [hma] at this
    | some m1 =>
      have hm1 := List.mem_of_find?_eq_some hf
      have hs1 : m1.same a = true := by simpa using List.find?_some hf
      have := J2a y hy occ hocc' a ha (same_symm hys) m1 hm1 (same_trans hs1 (same_symm hys))
      simp [Attr.within, this.1, this.2.1]
  · intro m hm
    obtain ⟨p, hp, hs⟩ := J1 m hm
    cases hl : lacks p occ with
    | true => simp [J2c p hp occ hocc' hl m hm hs]
    | false =>
      obtain ⟨a, ha, has⟩ := lacks_false_iff.1 hl
      have : occ.any (fun a => a.same m) = true := by
        simp only [List.any_eq_true]
        exact ⟨a, ha, same_trans has (same_symm hs)⟩
      simp [this]


/-- every attr of every class is dominated by the merged attr of its key: wider bounds, and an
interleaving marker is never lost -/
theorem reduceAttributes_wider (cs : List (List Attr)) (hn : ∀ c ∈ cs, NodupKeys c) (R : List Attr)
    (hR : reduceAttributes cs = some R) :
    ∀ occ ∈ cs, ∀ a ∈ occ, ∀ m ∈ R, m.same a = true → Wider m a := by
  have hn' : ∀ c ∈ sortByLenDesc cs, NodupKeys c := fun c hc => hn c ((mem_sortByLenDesc cs c).1 hc)
  obtain ⟨s1, s2, s3⟩ := sortedAttrs_spec (sortByLenDesc cs) hn'
  have h0 : Inv (sortByLenDesc cs) [] (some ⟨sortByLenDesc cs, []⟩) := by
    refine ⟨[], ?_, by simp, by simp, by simp, by simp, by simp⟩
    have : (sortByLenDesc cs).map (rem []) = sortByLenDesc cs := by
      rw [List.map_congr_left (g := id) (fun c _ => rem_nil c)]; simp
    rw [this]
  have hex : ∀ k ∈ sortedAttrs (sortByLenDesc cs), ∃ c ∈ sortByLenDesc cs, ∃ a ∈ c, a.same k = true := by
    intro k hk
    obtain ⟨c, hc, hkc⟩ := s2 k hk
    exact ⟨c, hc, k, hkc, same_refl k⟩
  obtain ⟨R', hst, _, J2a, _, _, _⟩ :=
    reduceFold_inv (sortByLenDesc cs) hn' (sortedAttrs (sortByLenDesc cs)) [] _ h0 (by simpa using s1) hex
  simp only [List.nil_append] at hst J2a
  have : R' = R := by
    simp only [reduceAttributes, hst, Option.map_some, Option.some.injEq] at hR
    exact hR
  subst this
  intro occ hocc a ha m hm hs
  have hocc' : occ ∈ sortByLenDesc cs := (mem_sortByLenDesc cs occ).2 hocc
  obtain ⟨y, hy, hys⟩ := s3 occ hocc' a ha
  exact J2a y hy occ hocc' a ha (same_symm hys) m hm (same_trans hs (same_symm hys))

/-- the attrs `reduce_attributes` returns come in the order of `sorted_attrs`, key by key -/
theorem reduceAttributes_order (cs : List (List Attr)) (hn : ∀ c ∈ cs, NodupKeys c) (R : List Attr)
    (hR : reduceAttributes cs = some R) :
    R.map keyOf = (sortedAttrs (sortByLenDesc cs)).map keyOf := by
  have hn' : ∀ c ∈ sortByLenDesc cs, NodupKeys c := fun c hc => hn c ((mem_sortByLenDesc cs c).1 hc)
  obtain ⟨s1, s2, _⟩ := sortedAttrs_spec (sortByLenDesc cs) hn'
  have h0 : Inv (sortByLenDesc cs) [] (some ⟨sortByLenDesc cs, []⟩) := by
    refine ⟨[], ?_, by simp, by simp, by simp, by simp, by simp⟩
    have : (sortByLenDesc cs).map (rem []) = sortByLenDesc cs := by
      rw [List.map_congr_left (g := id) (fun c _ => rem_nil c)]; simp
    rw [this]
  have hex : ∀ k ∈ sortedAttrs (sortByLenDesc cs), ∃ c ∈ sortByLenDesc cs, ∃ a ∈ c, a.same k = true := by
    intro k hk
    obtain ⟨c, hc, hkc⟩ := s2 k hk
    exact ⟨c, hc, k, hkc, same_refl k⟩
  obtain ⟨R', hst, _, _, _, _, J3⟩ :=
    reduceFold_inv (sortByLenDesc cs) hn' (sortedAttrs (sortByLenDesc cs)) [] _ h0 (by simpa using s1) hex
  simp only [List.nil_append] at hst J3
  have : R' = R := by
    simp only [reduceAttributes, hst, Option.map_some, Option.some.injEq] at hR
    exact hR
  subst this
  exact J3

/-! ### where a merged attr comes from: its key and its sequence marker are those of some input attr -/

/-- some attr of the classes has `m`'s key and `m`'s sequence marker -/
def Origin (cs0 : List (List Attr)) (m : Attr) : Prop :=
  ∃ c ∈ cs0, ∃ a ∈ c, a.same m = true ∧ a.seq = m.seq

/-- every attr of the current classes is an attr of the original classes -/
def FromOrig (cs0 cs : List (List Attr)) : Prop := ∀ c ∈ cs, ∀ a ∈ c, ∃ c0 ∈ cs0, a ∈ c0

theorem mem_popAt {l : List Attr} {pos : Nat} {a : Attr} (h : a ∈ popAt l pos) : a ∈ l := by
  simp only [popAt, List.mem_append] at h
  rcases h with h | h
  · exact List.mem_of_mem_take h
  · exact List.mem_of_mem_drop h

theorem reduceOne_origin (cs0 : List (List Attr)) (k : Attr) (cs : List (List Attr)) :
    ∀ (done : List (List Attr)) (R : List Attr) (added opt : Bool),
      FromOrig cs0 cs → FromOrig cs0 done → (∀ m ∈ R, Origin cs0 m) →
      (added = true → ∀ l, R.getLast? = some l → l.same k = true) →
      FromOrig cs0 (reduceOne k cs done R added opt).1 ∧ ∀ m ∈ (reduceOne k cs done R added opt).2.1, Origin cs0 m := by
  induction cs with
  | nil =>
    intro done R added opt _ hd hR _
    simp only [reduceOne]
    exact ⟨fun c hc => hd c (by simpa using hc), hR⟩
  | cons obj rest ih =>
    intro done R added opt hcs hd hR hlast
    have hrest : FromOrig cs0 rest := fun c hc => hcs c (by simp [hc])
    have hobj : ∀ a ∈ obj, ∃ c0 ∈ cs0, a ∈ c0 := hcs obj (by simp)
    have hdone : FromOrig cs0 (obj :: done) := by
      intro c hc; simp only [List.mem_cons] at hc
      rcases hc with rfl | hc
      · exact hobj
      · exact hd c hc
    simp only [reduceOne]
    cases hf : findAttr obj k with
    | none => exact ih _ _ _ _ hrest hdone hR hlast
    | some pos =>
      simp only
      cases hg : obj[pos]? with
      | none => exact ih _ _ _ _ hrest hdone hR hlast
      | some found =>
        have hfk : found.same k = true := by
          obtain ⟨f', hg', hs', _, _⟩ := findAttr_some hf
          rw [hg] at hg'; cases hg'; exact hs'
        have hfm : found ∈ obj := List.mem_of_getElem? hg
        have hpop : FromOrig cs0 (popAt obj pos :: done) := by
          intro c hc; simp only [List.mem_cons] at hc
          rcases hc with rfl | hc
          · exact fun a ha => hobj a (mem_popAt ha)
          · exact hd c hc
        have hfo : Origin cs0 found := by
          obtain ⟨c0, hc0, hmem⟩ := hobj found hfm
          exact ⟨c0, hc0, found, hmem, same_refl _, rfl⟩
        simp only
        cases added with
        | false =>
          simp only [Bool.not_false, if_true]
          refine ih _ _ _ _ hrest hpop ?_ ?_
          · intro m hm
            simp only [List.mem_append, List.mem_singleton] at hm
            rcases hm with hm | rfl
            · exact hR m hm
            · exact hfo
          · intro _ l hl
            simp at hl; subst hl; exact hfk
        | true =>
          simp only [Bool.not_true, Bool.false_eq_true, if_false]
          cases hl : R.getLast? with
          | none => exact ih _ _ _ _ hrest hpop (by simpa using hR) (by simpa [hl] using hlast rfl)
          | some l =>
            have hlk : l.same k = true := hlast rfl l hl
            refine ih _ _ _ _ hrest hpop ?_ ?_
            · intro m hm
              simp only [List.mem_append, List.mem_singleton] at hm
              rcases hm with hm | rfl
              · exact hR m (List.dropLast_subset _ hm)
              · cases hls : l.seq with
                | some q =>
                  obtain ⟨c, hc, a, ha, hs, hq⟩ := hR l (List.mem_of_getLast? hl)
                  refine ⟨c, hc, a, ha, ?_, ?_⟩
                  · rw [same_comm, merge_same, same_comm]; exact hs
                  · simpa [mergeAttributes, hls] using hq
                | none =>
                  obtain ⟨c0, hc0, hmem⟩ := hobj found hfm
                  refine ⟨c0, hc0, found, hmem, ?_, ?_⟩
                  · rw [same_comm, merge_same]; exact same_trans hlk (same_symm hfk)
                  · simp [mergeAttributes, hls]
            · intro _ l' hl'
              simp at hl'; subst hl'; rw [merge_same]; exact hlk

theorem reduceStep_origin (cs0 : List (List Attr)) (st : RState) (k : Attr)
    (h1 : FromOrig cs0 st.classes) (h2 : ∀ m ∈ st.result, Origin cs0 m) :
    ∀ st', reduceStep (some st) k = some st' → FromOrig cs0 st'.classes ∧ ∀ m ∈ st'.result, Origin cs0 m := by
  intro st' hst
  have ho := reduceOne_origin cs0 k st.classes [] st.result false false h1 (by intro c hc; simp at hc) h2
    (by intro h; cases h)
  simp only [reduceStep] at hst
  generalize reduceOne k st.classes [] st.result false false = r at ho hst
  obtain ⟨cs, result, optional⟩ := r
  simp only at ho hst
  cases optional with
  | false =>
    simp only [Bool.false_eq_true, if_false, Option.some.injEq] at hst
    subst hst; exact ho
  | true =>
    simp only [if_true] at hst
    cases hl : result.getLast? with
    | none => simp [hl] at hst
    | some l =>
      simp only [hl, Option.some.injEq] at hst
      subst hst
      refine ⟨ho.1, ?_⟩
      intro m hm
      simp only [List.mem_append, List.mem_singleton] at hm
      rcases hm with hm | rfl
      · exact ho.2 m (List.dropLast_subset _ hm)
      · obtain ⟨c, hc, a, ha, hs, hq⟩ := ho.2 l (List.mem_of_getLast? hl)
        exact ⟨c, hc, a, ha, by simpa [Attr.same] using hs, by simpa using hq⟩

theorem reduceFold_origin (cs0 : List (List Attr)) (S : List Attr) :
    ∀ (st : RState), FromOrig cs0 st.classes → (∀ m ∈ st.result, Origin cs0 m) →
      ∀ st', S.foldl reduceStep (some st) = some st' → ∀ m ∈ st'.result, Origin cs0 m := by
  induction S with
  | nil => intro st _ h2 st' hst; simp at hst; subst hst; exact h2
  | cons k S ih =>
    intro st h1 h2 st' hst
    simp only [List.foldl_cons] at hst
    cases hs : reduceStep (some st) k with
    | none =>
      rw [hs] at hst
      have : ∀ S : List Attr, S.foldl reduceStep none = none := by
        intro S; induction S with
        | nil => rfl
        | cons _ _ ih => simpa [reduceStep] using ih
      rw [this] at hst; cases hst
    | some st1 =>
      rw [hs] at hst
      obtain ⟨g1, g2⟩ := reduceStep_origin cs0 st k h1 h2 st1 hs
      exact ih st1 g1 g2 st' hst

/-- every attr `reduce_attributes` returns has the key and the sequence marker of an attr of one
of the classes -/
theorem reduceAttributes_origin (cs : List (List Attr)) (R : List Attr) (h : reduceAttributes cs = some R) :
    ∀ m ∈ R, Origin cs m := by
  simp only [reduceAttributes, Option.map_eq_some_iff] at h
  obtain ⟨st', hst, rfl⟩ := h
  have := reduceFold_origin (sortByLenDesc cs) (sortedAttrs (sortByLenDesc cs)) ⟨sortByLenDesc cs, []⟩
    (fun c hc a ha => ⟨c, hc, ha⟩) (by simp) st' hst
  intro m hm
  obtain ⟨c, hc, a, ha, hs, hq⟩ := this m hm
  exact ⟨c, (mem_sortByLenDesc cs c).1 hc, a, ha, hs, hq⟩

end Xs.Samples
