/-
Helper definitions and lemmas for C16: `DtdMapper.build_content` against the language of the
DTD content model.

DTD sites have empty paths, so `CalculateAttributePaths` does nothing; what matters is what
`build_content` does with the occurrence indicators: the indicator of a `seq` node is dropped,
and below an `or` node every field gets `min = 0` and the `max` of the (outermost) `or`.
-/
import XsdataModel.Proofs.OccursSound

namespace Xs.Gen
open Py

/-! ### vocabulary of the statements -/

mutual
/-- the names of the fields `DtdMapper` creates, in order: element names, `value` for `#PCDATA` -/
def dtdNames : DtdContent → List Str
  | .pcdata _ => ["value".toList]
  | .element n _ => [n]
  | .seq _ l r => dtdNamesO l ++ dtdNamesO r
  | .or _ l r => dtdNamesO l ++ dtdNamesO r
def dtdNamesO : Option DtdContent → List Str
  | none => []
  | some c => dtdNames c
end

mutual
/-- the element names of the content model, in order -/
def dtdElemNames : DtdContent → List Str
  | .pcdata _ => []
  | .element n _ => [n]
  | .seq _ l r => dtdElemNamesO l ++ dtdElemNamesO r
  | .or _ l r => dtdElemNamesO l ++ dtdElemNamesO r
def dtdElemNamesO : Option DtdContent → List Str
  | none => []
  | some c => dtdElemNames c
end

/-- field names pairwise distinct (element names, plus `value` if there is `#PCDATA`) -/
def dtdDistinct (c : DtdContent) : Bool := decide (dtdNames c).Nodup

/-- no indicator or `?` -/
def Occur.atMostOnce : Occur → Bool
  | .once => true
  | .opt => true
  | .mult => false
  | .plus => false

mutual
/-- no `*` / `+` anywhere in the subtree -/
def flatD : DtdContent → Bool
  | .pcdata _ => true
  | .element _ o => o.atMostOnce
  | .seq o l r => o.atMostOnce && flatDO l && flatDO r
  | .or o l r => o.atMostOnce && flatDO l && flatDO r
def flatDO : Option DtdContent → Bool
  | none => true
  | some c => flatD c
end

mutual
/-- the restriction under which the DTD theorems hold: every `seq` node carries no indicator,
and nothing *below* an `or` node carries `*` or `+` (the `or` node itself may carry `?`, `*`,
`+`; elements outside of choices may carry any indicator) -/
def restricted : DtdContent → Bool
  | .pcdata _ => true
  | .element _ _ => true
  | .seq o l r => decide (o = .once) && restrictedO l && restrictedO r
  | .or _ l r => flatDO l && flatDO r
def restrictedO : Option DtdContent → Bool
  | none => true
  | some c => restricted c
end

mutual
/-- the same with `?` allowed on `seq` nodes (enough for the non-list statement) -/
def restrictedN : DtdContent → Bool
  | .pcdata _ => true
  | .element _ _ => true
  | .seq o l r => o.atMostOnce && restrictedNO l && restrictedNO r
  | .or _ l r => flatDO l && flatDO r
def restrictedNO : Option DtdContent → Bool
  | none => true
  | some c => restrictedN c
end

mutual
/-- the alternatives of a choice the way property C16 restricts them: single elements without
indicator (libxml2 nests n-ary choices as `or(a, or(b, c))`; `#PCDATA` for mixed content) -/
def orChildStrict : DtdContent → Bool
  | .pcdata _ => true
  | .element _ o => decide (o = .once)
  | .seq _ _ _ => false
  | .or o l r => decide (o = .once) && orChildStrictO l && orChildStrictO r
def orChildStrictO : Option DtdContent → Bool
  | none => true
  | some c => orChildStrict c
end

mutual
/-- property C16's own restriction, literally: `seq` nodes without indicator, choices of single
elements without indicator -/
def restrictedStrict : DtdContent → Bool
  | .pcdata _ => true
  | .element _ _ => true
  | .seq o l r => decide (o = .once) && restrictedStrictO l && restrictedStrictO r
  | .or _ l r => orChildStrictO l && orChildStrictO r
def restrictedStrictO : Option DtdContent → Bool
  | none => true
  | some c => restrictedStrict c
end

mutual
theorem orChildStrict_flat : (c : DtdContent) → orChildStrict c = true → flatD c = true
  | .pcdata _ => by intro _; simp [flatD]
  | .element _ o => by
    intro h; simp only [orChildStrict, decide_eq_true_eq] at h; subst h; simp [flatD, Occur.atMostOnce]
  | .seq _ _ _ => by intro h; simp [orChildStrict] at h
  | .or o l r => by
    intro h
    simp only [orChildStrict, Bool.and_eq_true, decide_eq_true_eq] at h
    obtain ⟨⟨ho, hl⟩, hr⟩ := h
    subst ho
    simp [flatD, Occur.atMostOnce, orChildStrictO_flat l hl, orChildStrictO_flat r hr]
theorem orChildStrictO_flat : (l : Option DtdContent) → orChildStrictO l = true → flatDO l = true
  | none => by intro _; simp [flatDO]
  | some c => by intro h; simp only [orChildStrictO] at h; simp only [flatDO]; exact orChildStrict_flat c h
end

mutual
theorem restrictedStrict_restricted : (c : DtdContent) → restrictedStrict c = true → restricted c = true
  | .pcdata _ => by intro _; simp [restricted]
  | .element _ _ => by intro _; simp [restricted]
  | .seq o l r => by
    intro h
    simp only [restrictedStrict, Bool.and_eq_true, decide_eq_true_eq] at h
    obtain ⟨⟨ho, hl⟩, hr⟩ := h
    simp [restricted, ho, restrictedStrictO_restricted l hl, restrictedStrictO_restricted r hr]
  | .or o l r => by
    intro h
    simp only [restrictedStrict, Bool.and_eq_true] at h
    simp [restricted, orChildStrictO_flat l h.1, orChildStrictO_flat r h.2]
theorem restrictedStrictO_restricted : (l : Option DtdContent) → restrictedStrictO l = true →
    restrictedO l = true
  | none => by intro _; simp [restrictedO]
  | some c => by
    intro h; simp only [restrictedStrictO] at h; simp only [restrictedO]
    exact restrictedStrict_restricted c h
end

mutual
theorem restricted_restrictedN : (c : DtdContent) → restricted c = true → restrictedN c = true
  | .pcdata _ => by intro _; simp [restrictedN]
  | .element _ _ => by intro _; simp [restrictedN]
  | .seq o l r => by
    intro h
    simp only [restricted, Bool.and_eq_true, decide_eq_true_eq] at h
    obtain ⟨⟨ho, hl⟩, hr⟩ := h
    subst ho
    simp [restrictedN, Occur.atMostOnce, restrictedO_restrictedNO l hl, restrictedO_restrictedNO r hr]
  | .or o l r => by
    intro h
    simp only [restricted] at h
    simp only [restrictedN]; exact h
theorem restrictedO_restrictedNO : (l : Option DtdContent) → restrictedO l = true →
    restrictedNO l = true
  | none => by intro _; simp [restrictedNO]
  | some c => by
    intro h; simp only [restrictedO] at h; simp only [restrictedNO]
    exact restricted_restrictedN c h
end

/-! ### unfolding `buildContent` and `toParticle` -/

def buildO (l : Option DtdContent) (kw : Kw) (next : Nat) : List Site × Nat :=
  match l with
  | some c => buildContent c kw next
  | none => ([], next)

def toPs (l : Option DtdContent) : List Particle :=
  match l with
  | some c => (DtdContent.toParticle c).toList
  | none => []

/-- the keyword overrides an `or` node hands down -/
def orKw (o : Occur) (kw : Kw) (next : Nat) : Kw :=
  { min := some (kw.min.getD 0), max := some (kw.max.getD (buildOccurs o).2),
    choice := some (kw.choice.getD (Int.ofNat next)) }

theorem buildContent_element (name : Str) (o : Occur) (kw : Kw) (next : Nat) :
    (buildContent (.element name o) kw next).1 =
      [{ name, index := 0, min := kw.min.getD (buildOccurs o).1, max := kw.max.getD (buildOccurs o).2,
         choice := kw.choice }] := by
  cases o <;> simp [buildContent, buildOccurs]

theorem buildContent_pcdata (o : Occur) (kw : Kw) (next : Nat) :
    (buildContent (.pcdata o) kw next).1 =
      [{ name := "value".toList, index := 0, min := kw.min.getD (buildOccurs o).1,
         max := kw.max.getD (buildOccurs o).2, choice := kw.choice }] := by
  cases o <;> simp [buildContent, buildOccurs]

theorem buildContent_seq_fst (o : Occur) (l r : Option DtdContent) (kw : Kw) (next : Nat) :
    (buildContent (.seq o l r) kw next).1 =
      (buildO l kw next).1 ++ (buildO r kw (buildO l kw next).2).1 := by
  cases l <;> cases r <;> simp [buildContent, buildO]

theorem buildContent_or_fst (o : Occur) (l r : Option DtdContent) (kw : Kw) (next : Nat) :
    (buildContent (.or o l r) kw next).1 =
      (buildO l (orKw o kw next) (next + 1)).1 ++
        (buildO r (orKw o kw next) (buildO l (orKw o kw next) (next + 1)).2).1 := by
  cases l <;> cases r <;> simp [buildContent, buildO, orKw]

theorem toParticle_seq (o : Occur) (l r : Option DtdContent) :
    DtdContent.toParticle (.seq o l r) =
      some (.seq (occurBounds o).1 (occurBounds o).2 (toPs l ++ toPs r)) := by
  cases l <;> cases r <;> simp [DtdContent.toParticle, toPs]

theorem toParticle_or (o : Occur) (l r : Option DtdContent) :
    DtdContent.toParticle (.or o l r) =
      some (.choice (occurBounds o).1 (occurBounds o).2 (toPs l ++ toPs r)) := by
  cases l <;> cases r <;> simp [DtdContent.toParticle, toPs]

theorem toParticle_element (name : Str) (o : Occur) :
    DtdContent.toParticle (.element name o) = some (.elem name (occurBounds o).1 (occurBounds o).2) := by
  simp [DtdContent.toParticle]

theorem toParticle_pcdata (o : Occur) : DtdContent.toParticle (.pcdata o) = none := by
  simp [DtdContent.toParticle]

theorem atMostOnce_max {o : Occur} (h : o.atMostOnce = true) : (occurBounds o).2 = 1 := by
  cases o <;> simp_all [Occur.atMostOnce, occurBounds, buildOccurs]

theorem max_le_one_atMostOnce {o : Occur} (h : (buildOccurs o).2 ≤ 1) : o.atMostOnce = true := by
  have := maxsize_gt_one
  cases o <;> simp_all [Occur.atMostOnce, buildOccurs] <;> omega

/-! ### names -/

mutual
theorem buildContent_names : (c : DtdContent) → ∀ (kw : Kw) (next : Nat),
    (buildContent c kw next).1.map (·.name) = dtdNames c
  | .pcdata o => by intro kw next; rw [buildContent_pcdata]; simp [dtdNames]
  | .element n o => by intro kw next; rw [buildContent_element]; simp [dtdNames]
  | .seq o l r => by
    intro kw next
    rw [buildContent_seq_fst, List.map_append, buildO_names l, buildO_names r, dtdNames]
  | .or o l r => by
    intro kw next
    rw [buildContent_or_fst, List.map_append, buildO_names l, buildO_names r, dtdNames]
theorem buildO_names : (l : Option DtdContent) → ∀ (kw : Kw) (next : Nat),
    (buildO l kw next).1.map (·.name) = dtdNamesO l
  | none => by intro kw next; simp [buildO, dtdNamesO]
  | some c => by intro kw next; simp only [buildO, dtdNamesO]; exact buildContent_names c kw next
end

theorem namesList_append (as bs : List Particle) :
    namesList (as ++ bs) = namesList as ++ namesList bs := by
  induction as with
  | nil => simp [namesList]
  | cons p ps ih => rw [List.cons_append, namesList, namesList, ih, List.append_assoc]

mutual
theorem toParticle_names : (c : DtdContent) →
    namesList (DtdContent.toParticle c).toList = dtdElemNames c
  | .pcdata o => by rw [toParticle_pcdata]; simp [namesList, dtdElemNames]
  | .element n o => by rw [toParticle_element]; simp [namesList, names, dtdElemNames]
  | .seq o l r => by
    rw [toParticle_seq]
    simp only [Option.toList, namesList, names, List.append_nil]
    rw [namesList_append, toPs_names l, toPs_names r, dtdElemNames]
  | .or o l r => by
    rw [toParticle_or]
    simp only [Option.toList, namesList, names, List.append_nil]
    rw [namesList_append, toPs_names l, toPs_names r, dtdElemNames]
theorem toPs_names : (l : Option DtdContent) → namesList (toPs l) = dtdElemNamesO l
  | none => by simp [toPs, namesList, dtdElemNamesO]
  | some c => by simp only [toPs, dtdElemNamesO]; exact toParticle_names c
end

mutual
theorem elemNames_sublist : (c : DtdContent) → (dtdElemNames c).Sublist (dtdNames c)
  | .pcdata o => by simp [dtdElemNames]
  | .element n o => by simp [dtdElemNames, dtdNames]
  | .seq o l r => by
    simp only [dtdElemNames, dtdNames]
    exact List.Sublist.append (elemNamesO_sublist l) (elemNamesO_sublist r)
  | .or o l r => by
    simp only [dtdElemNames, dtdNames]
    exact List.Sublist.append (elemNamesO_sublist l) (elemNamesO_sublist r)
theorem elemNamesO_sublist : (l : Option DtdContent) → (dtdElemNamesO l).Sublist (dtdNamesO l)
  | none => by simp [dtdElemNamesO, dtdNamesO]
  | some c => by simp only [dtdElemNamesO, dtdNamesO]; exact elemNames_sublist c
end

/-! ### what an enclosing `or` does to the fields; paths -/

mutual
theorem buildContent_kw : (c : DtdContent) → ∀ (kw : Kw) (next m M : Nat),
    kw.min = some m → kw.max = some M → ∀ s ∈ (buildContent c kw next).1, s.min = m ∧ s.max = M
  | .pcdata o => by
    intro kw next m M h1 h2 s hs
    rw [buildContent_pcdata, List.mem_singleton] at hs
    subst hs; simp [h1, h2]
  | .element n o => by
    intro kw next m M h1 h2 s hs
    rw [buildContent_element, List.mem_singleton] at hs
    subst hs; simp [h1, h2]
  | .seq o l r => by
    intro kw next m M h1 h2 s hs
    rw [buildContent_seq_fst, List.mem_append] at hs
    rcases hs with hs | hs
    · exact buildO_kw l kw _ m M h1 h2 s hs
    · exact buildO_kw r kw _ m M h1 h2 s hs
  | .or o l r => by
    intro kw next m M h1 h2 s hs
    rw [buildContent_or_fst, List.mem_append] at hs
    have h1' : (orKw o kw next).min = some m := by simp [orKw, h1]
    have h2' : (orKw o kw next).max = some M := by simp [orKw, h2]
    rcases hs with hs | hs
    · exact buildO_kw l _ _ m M h1' h2' s hs
    · exact buildO_kw r _ _ m M h1' h2' s hs
theorem buildO_kw : (l : Option DtdContent) → ∀ (kw : Kw) (next m M : Nat),
    kw.min = some m → kw.max = some M → ∀ s ∈ (buildO l kw next).1, s.min = m ∧ s.max = M
  | none => by intro kw next m M _ _ s hs; simp [buildO] at hs
  | some c => by
    intro kw next m M h1 h2 s hs
    simp only [buildO] at hs
    exact buildContent_kw c kw next m M h1 h2 s hs
end

mutual
theorem buildContent_path : (c : DtdContent) → ∀ (kw : Kw) (next : Nat),
    ∀ s ∈ (buildContent c kw next).1, s.path = []
  | .pcdata o => by
    intro kw next s hs
    rw [buildContent_pcdata, List.mem_singleton] at hs
    subst hs; rfl
  | .element n o => by
    intro kw next s hs
    rw [buildContent_element, List.mem_singleton] at hs
    subst hs; rfl
  | .seq o l r => by
    intro kw next s hs
    rw [buildContent_seq_fst, List.mem_append] at hs
    rcases hs with hs | hs
    · exact buildO_path l _ _ s hs
    · exact buildO_path r _ _ s hs
  | .or o l r => by
    intro kw next s hs
    rw [buildContent_or_fst, List.mem_append] at hs
    rcases hs with hs | hs
    · exact buildO_path l _ _ s hs
    · exact buildO_path r _ _ s hs
theorem buildO_path : (l : Option DtdContent) → ∀ (kw : Kw) (next : Nat),
    ∀ s ∈ (buildO l kw next).1, s.path = []
  | none => by intro kw next s hs; simp [buildO] at hs
  | some c => by
    intro kw next s hs
    simp only [buildO] at hs
    exact buildContent_path c kw next s hs
end

theorem processAttrPath_nil (s : Site) (h : s.path = []) : processAttrPath s = s := by
  obtain ⟨n, i, mn, mx, path, ch, sq⟩ := s
  simp only at h
  subst h
  simp [processAttrPath_eq]

/-! ### content models without `*` / `+`: every name at most once -/

mutual
/-- every `max_occurs ≤ 1` -/
def flatP : Particle → Bool
  | .elem _ _ mx => decide (mx ≤ 1)
  | .seq _ mx ps => decide (mx ≤ 1) && flatPList ps
  | .choice _ mx ps => decide (mx ≤ 1) && flatPList ps
def flatPList : List Particle → Bool
  | [] => true
  | p :: ps => flatP p && flatPList ps
end

theorem flatPList_append (as bs : List Particle) :
    flatPList (as ++ bs) = (flatPList as && flatPList bs) := by
  induction as with
  | nil => simp [flatPList]
  | cons p ps ih => rw [List.cons_append, flatPList, flatPList, ih, Bool.and_assoc]

/-- at most one repetition of bodies in which `n` occurs at most once -/
theorem flat_rep {n : Str} {mn mx : Nat} {ws : List (List Str)} (hmx : mx ≤ 1)
    (hrep : repOK ws.length mn mx) (h : ∀ x ∈ ws, x.count n ≤ 1) : ws.flatten.count n ≤ 1 := by
  have h1 := repOK_le hrep hmx
  have h2 := count_flatten_le n 1 ws h
  omega

mutual
theorem flat_count : (p : Particle) → flatP p = true → (names p).Nodup →
    ∀ w, Matches p w → ∀ n, w.count n ≤ 1
  | .elem name mn mx => by
    intro hf _ w hw n
    simp only [flatP, decide_eq_true_eq] at hf
    obtain ⟨k, hk, rfl⟩ := matches_elem.1 hw
    rw [List.count_replicate]
    have := repOK_le hk hf
    split <;> omega
  | .seq mn mx ps => by
    intro hf hnd w hw n
    simp only [flatP, Bool.and_eq_true, decide_eq_true_eq] at hf
    simp only [names] at hnd
    obtain ⟨ws, hrep, hall, rfl⟩ := matches_seq.1 hw
    exact flat_rep hf.1 hrep (fun x hx => (flat_count_list ps hf.2 hnd).1 x (hall x hx) n)
  | .choice mn mx ps => by
    intro hf hnd w hw n
    simp only [flatP, Bool.and_eq_true, decide_eq_true_eq] at hf
    simp only [names] at hnd
    obtain ⟨ws, hrep, hall, rfl⟩ := matches_choice.1 hw
    exact flat_rep hf.1 hrep (fun x hx => (flat_count_list ps hf.2 hnd).2 x (hall x hx) n)
theorem flat_count_list : (ps : List Particle) → flatPList ps = true → (namesList ps).Nodup →
    (∀ w, SeqOnce ps w → ∀ n, w.count n ≤ 1) ∧ (∀ w, ChoiceOnce ps w → ∀ n, w.count n ≤ 1)
  | [] => by
    intro _ _
    refine ⟨?_, ?_⟩
    · intro w hw n; rw [seqOnce_nil.1 hw]; simp
    · intro w hw; exact (choiceOnce_nil.1 hw).elim
  | p :: ps => by
    intro hf hnd
    simp only [flatPList, Bool.and_eq_true] at hf
    simp only [namesList] at hnd
    have hp := flat_count p hf.1 (nodup_append_left hnd)
    have hps := flat_count_list ps hf.2 (nodup_append_right hnd)
    refine ⟨?_, ?_⟩
    · intro w hw n
      obtain ⟨a, b, ha, hb, rfl⟩ := seqOnce_cons.1 hw
      rw [List.count_append]
      by_cases hn : n ∈ names p
      · rw [(count_zero_list ps n (nodup_append_notMem_right hnd hn)).1 b hb]
        exact hp a ha n
      · rw [count_zero p n hn a ha, Nat.zero_add]
        exact hps.1 b hb n
    · intro w hw n
      rcases choiceOnce_cons.1 hw with h | h
      · exact hp w h n
      · exact hps.2 w h n
end

mutual
theorem flatD_flatP : (c : DtdContent) → flatD c = true →
    flatPList (DtdContent.toParticle c).toList = true
  | .pcdata o => by intro _; rw [toParticle_pcdata]; simp [flatPList]
  | .element n o => by
    intro h
    simp only [flatD] at h
    rw [toParticle_element]
    simp [flatPList, flatP, atMostOnce_max h]
  | .seq o l r => by
    intro h
    simp only [flatD, Bool.and_eq_true] at h
    rw [toParticle_seq]
    simp [flatPList, flatP, atMostOnce_max h.1.1, flatPList_append, flatDO_flatP l h.1.2,
      flatDO_flatP r h.2]
  | .or o l r => by
    intro h
    simp only [flatD, Bool.and_eq_true] at h
    rw [toParticle_or]
    simp [flatPList, flatP, atMostOnce_max h.1.1, flatPList_append, flatDO_flatP l h.1.2,
      flatDO_flatP r h.2]
theorem flatDO_flatP : (l : Option DtdContent) → flatDO l = true → flatPList (toPs l) = true
  | none => by intro _; simp [toPs, flatPList]
  | some c => by intro h; simp only [flatDO] at h; simp only [toPs]; exact flatD_flatP c h
end

/-! ### top level (no enclosing `or`): the two soundness statements -/

theorem seqOnce_singleton {p : Particle} {w : List Str} : SeqOnce [p] w ↔ Matches p w := by
  rw [seqOnce_cons]
  constructor
  · rintro ⟨a, b, ha, hb, rfl⟩
    rw [seqOnce_nil.1 hb, List.append_nil]; exact ha
  · intro h; exact ⟨w, [], h, seqOnce_nil.2 rfl, by simp⟩

mutual
theorem dtd_bound : (c : DtdContent) → restrictedN c = true → (dtdNames c).Nodup →
    ∀ (next : Nat) (s : Site), s ∈ (buildContent c {} next).1 → s.max ≤ 1 →
    ∀ w, SeqOnce (DtdContent.toParticle c).toList w → w.count s.name ≤ 1
  | .pcdata o => by
    intro _ _ next s _ _ w hw
    rw [toParticle_pcdata] at hw
    rw [seqOnce_nil.1 hw]; simp
  | .element n o => by
    intro _ _ next s hs hmax w hw
    rw [buildContent_element, List.mem_singleton] at hs
    subst hs
    simp only [Option.getD_none] at hmax
    rw [toParticle_element] at hw
    obtain ⟨k, hk, rfl⟩ := matches_elem.1 (seqOnce_singleton.1 hw)
    rw [List.count_replicate]
    simp only [BEq.rfl, if_true]
    exact Nat.le_trans (repOK_le hk hmax) hmax
  | .seq o l r => by
    intro hr hnd next s hs hmax w hw
    simp only [restrictedN, Bool.and_eq_true] at hr
    simp only [dtdNames] at hnd
    rw [toParticle_seq] at hw
    obtain ⟨ws, hrep, hall, rfl⟩ := matches_seq.1 (seqOnce_singleton.1 hw)
    rw [atMostOnce_max hr.1.1] at hrep
    refine flat_rep (Nat.le_refl 1) hrep ?_
    intro x hx
    obtain ⟨a, b, ha, hb, rfl⟩ := seqOnce_append.1 (hall x hx)
    rw [List.count_append]
    rw [buildContent_seq_fst, List.mem_append] at hs
    rcases hs with hs | hs
    · have hmem : s.name ∈ dtdNamesO l := by
        rw [← buildO_names l {} next]; exact List.mem_map.2 ⟨s, hs, rfl⟩
      have hnot : s.name ∉ namesList (toPs r) := by
        rw [toPs_names]
        exact fun h => nodup_append_notMem_right hnd hmem ((elemNamesO_sublist r).subset h)
      rw [(count_zero_list _ _ hnot).1 b hb]
      exact dtd_boundO l hr.1.2 (nodup_append_left hnd) _ s hs hmax a ha
    · have hmem : s.name ∈ dtdNamesO r := by
        rw [← buildO_names r {} (buildO l {} next).2]; exact List.mem_map.2 ⟨s, hs, rfl⟩
      have hnot : s.name ∉ namesList (toPs l) := by
        rw [toPs_names]
        exact fun h => nodup_append_notMem_left hnd hmem ((elemNamesO_sublist l).subset h)
      rw [(count_zero_list _ _ hnot).1 a ha, Nat.zero_add]
      exact dtd_boundO r hr.2 (nodup_append_right hnd) _ s hs hmax b hb
  | .or o l r => by
    intro hr hnd next s hs hmax w hw
    simp only [restrictedN, Bool.and_eq_true] at hr
    -- every field below gets the `max` of this `or`
    have hkw : s.min = 0 ∧ s.max = (buildOccurs o).2 := by
      rw [buildContent_or_fst, List.mem_append] at hs
      rcases hs with hs | hs
      · exact buildO_kw l _ _ 0 _ (by simp [orKw]) (by simp [orKw]) s hs
      · exact buildO_kw r _ _ 0 _ (by simp [orKw]) (by simp [orKw]) s hs
    rw [hkw.2] at hmax
    have ho := max_le_one_atMostOnce hmax
    have hflat : flatD (.or o l r) = true := by simp [flatD, ho, hr.1, hr.2]
    have hnd' : (namesList (DtdContent.toParticle (.or o l r)).toList).Nodup := by
      rw [toParticle_names]; exact List.Nodup.sublist (elemNames_sublist _) hnd
    exact (flat_count_list _ (flatD_flatP _ hflat) hnd').1 w hw s.name
theorem dtd_boundO : (l : Option DtdContent) → restrictedNO l = true → (dtdNamesO l).Nodup →
    ∀ (next : Nat) (s : Site), s ∈ (buildO l {} next).1 → s.max ≤ 1 →
    ∀ w, SeqOnce (toPs l) w → w.count s.name ≤ 1
  | none => by intro _ _ next s hs; simp [buildO] at hs
  | some c => by
    intro hr hnd next s hs hmax w hw
    simp only [restrictedNO] at hr
    simp only [dtdNamesO] at hnd
    simp only [buildO] at hs
    simp only [toPs] at hw
    exact dtd_bound c hr hnd next s hs hmax w hw
end

mutual
theorem dtd_once : (c : DtdContent) → restricted c = true → (dtdNames c).Nodup →
    ∀ (next : Nat) (s : Site), s ∈ (buildContent c {} next).1 → s.name ∈ dtdElemNames c →
    1 ≤ s.min → s.max ≤ 1 →
    ∀ w, SeqOnce (DtdContent.toParticle c).toList w → w.count s.name = 1
  | .pcdata o => by
    intro _ _ next s _ hn
    simp [dtdElemNames] at hn
  | .element n o => by
    intro _ _ next s hs _ hmin hmax w hw
    rw [buildContent_element, List.mem_singleton] at hs
    subst hs
    simp only [Option.getD_none] at hmax hmin
    rw [toParticle_element] at hw
    obtain ⟨k, hk, rfl⟩ := matches_elem.1 (seqOnce_singleton.1 hw)
    rw [List.count_replicate]
    simp only [BEq.rfl, if_true]
    have h1 := repOK_le hk hmax
    have h2 := hk.1
    simp only [occurBounds] at h1 h2
    omega
  | .seq o l r => by
    intro hr hnd next s hs hn hmin hmax w hw
    simp only [restricted, Bool.and_eq_true, decide_eq_true_eq] at hr
    simp only [dtdNames] at hnd
    simp only [dtdElemNames, List.mem_append] at hn
    obtain ⟨⟨ho, hrl⟩, hrr⟩ := hr
    subst ho
    rw [toParticle_seq] at hw
    obtain ⟨ws, hrep, hall, rfl⟩ := matches_seq.1 (seqOnce_singleton.1 hw)
    have h1 := repOK_le hrep (Nat.le_refl 1)
    have h2 := hrep.1
    simp only [occurBounds, buildOccurs] at h1 h2
    have hlen : ws.length = 1 := by omega
    obtain ⟨x, rfl⟩ := List.length_eq_one_iff.1 hlen
    simp only [List.flatten_cons, List.flatten_nil, List.append_nil]
    obtain ⟨a, b, ha, hb, rfl⟩ := seqOnce_append.1 (hall x List.mem_cons_self)
    rw [List.count_append]
    rw [buildContent_seq_fst, List.mem_append] at hs
    rcases hs with hs | hs
    · have hmem : s.name ∈ dtdNamesO l := by
        rw [← buildO_names l {} next]; exact List.mem_map.2 ⟨s, hs, rfl⟩
      have hnotr : s.name ∉ dtdElemNamesO r :=
        fun h => nodup_append_notMem_right hnd hmem ((elemNamesO_sublist r).subset h)
      have hnot : s.name ∉ namesList (toPs r) := by rw [toPs_names]; exact hnotr
      rw [(count_zero_list _ _ hnot).1 b hb]
      exact dtd_onceO l hrl (nodup_append_left hnd) _ s hs (hn.resolve_right hnotr) hmin hmax a ha
    · have hmem : s.name ∈ dtdNamesO r := by
        rw [← buildO_names r {} (buildO l {} next).2]; exact List.mem_map.2 ⟨s, hs, rfl⟩
      have hnotl : s.name ∉ dtdElemNamesO l :=
        fun h => nodup_append_notMem_left hnd hmem ((elemNamesO_sublist l).subset h)
      have hnot : s.name ∉ namesList (toPs l) := by rw [toPs_names]; exact hnotl
      rw [(count_zero_list _ _ hnot).1 a ha, Nat.zero_add]
      exact dtd_onceO r hrr (nodup_append_right hnd) _ s hs (hn.resolve_left hnotl) hmin hmax b hb
  | .or o l r => by
    intro _ _ next s hs _ hmin
    have hkw : s.min = 0 ∧ s.max = (buildOccurs o).2 := by
      rw [buildContent_or_fst, List.mem_append] at hs
      rcases hs with hs | hs
      · exact buildO_kw l _ _ 0 _ (by simp [orKw]) (by simp [orKw]) s hs
      · exact buildO_kw r _ _ 0 _ (by simp [orKw]) (by simp [orKw]) s hs
    omega
theorem dtd_onceO : (l : Option DtdContent) → restrictedO l = true → (dtdNamesO l).Nodup →
    ∀ (next : Nat) (s : Site), s ∈ (buildO l {} next).1 → s.name ∈ dtdElemNamesO l →
    1 ≤ s.min → s.max ≤ 1 →
    ∀ w, SeqOnce (toPs l) w → w.count s.name = 1
  | none => by intro _ _ next s hs; simp [buildO] at hs
  | some c => by
    intro hr hnd next s hs hn hmin hmax w hw
    simp only [restrictedO] at hr
    simp only [dtdNamesO] at hnd
    simp only [dtdElemNamesO] at hn
    simp only [buildO] at hs
    simp only [toPs] at hw
    exact dtd_once c hr hnd next s hs hn hmin hmax w hw
end

/-! ### the statements for `occurs (dtdSites c)` -/

theorem dtdSites_names (c : DtdContent) : (dtdSites c).map (·.name) = dtdNames c := by
  rw [dtdSites_eq, withIndex_names, buildContent_names]

/-- with distinct field names the three handlers leave the DTD fields untouched -/
theorem occurs_dtdSites (c : DtdContent) (hd : (dtdNames c).Nodup) :
    occurs (dtdSites c) = some (dtdSites c) := by
  rw [occurs_nodup _ (by rw [dtdSites_names]; exact hd)]
  congr 1
  conv => rhs; rw [← List.map_id (dtdSites c)]
  apply List.map_congr_left
  intro s hs
  rw [dtdSites_eq] at hs
  obtain ⟨s', hs', i, rfl⟩ := mem_withIndex hs
  exact processAttrPath_nil _ (buildContent_path c {} 1 s' hs')

theorem mem_occurs_dtdSites {c : DtdContent} (hd : (dtdNames c).Nodup) {ss : List Site}
    (h : occurs (dtdSites c) = some ss) {s : Site} (hs : s ∈ ss) :
    ∃ s' ∈ (buildContent c {} 1).1, s.name = s'.name ∧ s.max = s'.max ∧ s.min = s'.min := by
  rw [occurs_dtdSites c hd, Option.some.injEq] at h
  subst h
  rw [dtdSites_eq] at hs
  obtain ⟨s', hs', i, rfl⟩ := mem_withIndex hs
  exact ⟨s', hs', rfl, rfl, rfl⟩

theorem dtd_nonlist_sound_core (c : DtdContent) (hr : restrictedN c = true)
    (hd : (dtdNames c).Nodup) (p : Particle) (hp : c.toParticle = some p) (w : List Str)
    (hw : Matches p w) (ss : List Site) (h : occurs (dtdSites c) = some ss) (s : Site)
    (hs : s ∈ ss) (hl : s.isList = false) : w.count s.name ≤ 1 := by
  obtain ⟨s', hs', hname, hmax, _⟩ := mem_occurs_dtdSites hd h hs
  have hle : s.max ≤ 1 := by
    simp only [Site.isList, decide_eq_false_iff_not] at hl; omega
  rw [hname]
  refine dtd_bound c hr hd 1 s' hs' (by omega) w ?_
  rw [hp]; exact seqOnce_singleton.2 hw

theorem dtd_required_sound_core (c : DtdContent) (hr : restricted c = true)
    (hd : (dtdNames c).Nodup) (p : Particle) (hp : c.toParticle = some p) (w : List Str)
    (hw : Matches p w) (ss : List Site) (h : occurs (dtdSites c) = some ss) (s : Site)
    (hs : s ∈ ss) (hn : s.name ∈ dtdElemNames c) (hmin : 1 ≤ s.min) (hl : s.isList = false) :
    w.count s.name = 1 := by
  obtain ⟨s', hs', hname, hmax, hmin'⟩ := mem_occurs_dtdSites hd h hs
  have hle : s.max ≤ 1 := by
    simp only [Site.isList, decide_eq_false_iff_not] at hl; omega
  rw [hname] at hn ⊢
  refine dtd_once c hr hd 1 s' hs' hn (by omega) (by omega) w ?_
  rw [hp]; exact seqOnce_singleton.2 hw

end Xs.Gen
