/- Helper lemmas for C19: invariants of the interleaved semantics. -/
import XsdataModel.Ctx.Conc
import XsdataModel.Proofs.CtxInv

namespace Xs.Ctx
open Py

/-! ### basic facts about single steps -/

theorem afterLocal_isB (g : Goal) (todo : List ClassId) (acc : Index) :
    (afterLocal g todo acc).isB = false := by
  cases todo <;> rfl

theorem afterLocal_isR (g : Goal) (todo : List ClassId) (acc : Index) :
    (afterLocal g todo acc).isR = false := by
  cases todo <;> rfl

theorem enter_isB (s : CState) (g : Goal) : (g.enter s).isB = false := by cases g <;> rfl
theorem enter_isR (s : CState) (g : Goal) : (g.enter s).isR = false := by cases g <;> rfl

/-- the thread is inside the scan of `find_type_by_fields` -/
def TState.isS : TState → Bool
  | .sScan _ _ _ _ _ => true
  | _ => false

def Goal.isLookup : Goal → Bool
  | .lookup _ _ => true
  | .scan _ => false

/-- the thread is not on its way into / inside the scan of `find_type_by_fields` -/
def TState.lk : TState → Bool
  | .xCheck g => g.isLookup
  | .xLocal g _ _ => g.isLookup
  | .xPublish g _ => g.isLookup
  | .xStamp g => g.isLookup
  | .sScan _ _ _ _ _ => false
  | _ => true

theorem afterLocal_lk (g : Goal) (todo : List ClassId) (acc : Index) :
    (afterLocal g todo acc).lk = g.isLookup := by
  cases todo <;> rfl

theorem enter_lk (s : CState) (g : Goal) : (g.enter s).lk = g.isLookup := by cases g <;> rfl

/-- a thread inside `find_types` (not a by-fields scan) stays outside
`build`/`reset`/scan and leaves the cache alone -/
theorem stepT_notBR (U : Universe) (w : World) (s : CState) (st : TState) (hb : st.isB = false)
    (hr : st.isR = false) (hs : st.lk = true) :
    (stepT U w s st).2.isB = false ∧ (stepT U w s st).2.isR = false ∧
      (stepT U w s st).2.lk = true ∧ (stepT U w s st).1.cache = s.cache := by
  cases st with
  | bCheck _ _ => simp [TState.isB] at hb
  | bWrite _ _ _ => simp [TState.isB] at hb
  | bRead _ _ => simp [TState.isB] at hb
  | rCache => simp [TState.isR] at hr
  | rXsi _ => simp [TState.isR] at hr
  | rStamp => simp [TState.isR] at hr
  | sScan _ _ _ _ _ => simp [TState.lk] at hs
  | xCheck g =>
    simp only [stepT]
    split
    · exact ⟨enter_isB _ _, enter_isR _ _, by rw [enter_lk]; exact hs, rfl⟩
    · exact ⟨afterLocal_isB _ _ _, afterLocal_isR _ _ _, by rw [afterLocal_lk]; exact hs, rfl⟩
  | xLocal g todo acc =>
    cases todo with
    | nil => exact ⟨rfl, rfl, hs, rfl⟩
    | cons c rest =>
      exact ⟨afterLocal_isB _ _ _, afterLocal_isR _ _ _,
        (afterLocal_lk g rest (localAdd U acc c)).trans hs, rfl⟩
  | xPublish g acc => exact ⟨rfl, rfl, hs, rfl⟩
  | xStamp g => exact ⟨enter_isB _ _, enter_isR _ _, (enter_lk _ g).trans hs, rfl⟩
  | xContains k q d => simp only [stepT]; split <;> exact ⟨rfl, rfl, rfl, rfl⟩
  | xGet k q d => simp only [stepT]; split <;> exact ⟨rfl, rfl, rfl, rfl⟩
  | done o => exact ⟨rfl, rfl, rfl, rfl⟩

/-- a thread outside the index code and outside `reset` stays there and leaves
the dict objects, the reference and the stamp alone -/
theorem stepT_notXR (U : Universe) (w : World) (s : CState) (st : TState) (hx : st.isX = false)
    (hr : st.isR = false) :
    (stepT U w s st).2.isX = false ∧ (stepT U w s st).2.isR = false ∧
      (stepT U w s st).1.heap = s.heap ∧ (stepT U w s st).1.ref = s.ref ∧
      (stepT U w s st).1.sysModules = s.sysModules := by
  cases st with
  | bCheck c p =>
    simp only [stepT]
    split
    · exact ⟨rfl, rfl, rfl, rfl, rfl⟩
    · split <;> exact ⟨rfl, rfl, rfl, rfl, rfl⟩
  | bWrite c p m => exact ⟨rfl, rfl, rfl, rfl, rfl⟩
  | bRead c p => simp only [stepT]; split <;> exact ⟨rfl, rfl, rfl, rfl, rfl⟩
  | xCheck _ => simp [TState.isX] at hx
  | xLocal _ _ _ => simp [TState.isX] at hx
  | xPublish _ _ => simp [TState.isX] at hx
  | xStamp _ => simp [TState.isX] at hx
  | xContains _ _ _ => simp [TState.isX] at hx
  | xGet _ _ _ => simp [TState.isX] at hx
  | sScan _ _ _ _ _ => simp [TState.isX] at hx
  | rCache => simp [TState.isR] at hr
  | rXsi _ => simp [TState.isR] at hr
  | rStamp => simp [TState.isR] at hr
  | done o => exact ⟨rfl, rfl, rfl, rfl, rfl⟩

/-! #### the cache only grows (also during a scan) -/

theorem doBuild_cache_mono (U : Universe) (s : State) (c' : ClassId) (p : Option Str)
    (c : ClassId × Option Str)
    (h : (s.cache.lookup c).isSome = true) : ((doBuild U s c' p).1.cache.lookup c).isSome = true := by
  unfold doBuild
  split
  · exact h
  · split
    · simp only
      by_cases hc : c = (c', p)
      · subst hc; simp [lookup_dictSet_self]
      · rw [lookup_dictSet_ne _ _ _ _ hc]; exact h
    · exact h

theorem doLocalNamesMatch_cache (U : Universe) (s : State) (names : List Str) (c' : ClassId) :
    (doLocalNamesMatch U s names c').1.cache = (doBuild U s c' none).1.cache := by
  unfold doLocalNamesMatch
  cases hb : doBuild U s c' none with
  | mk s1 r =>
    cases r with
    | ok m => rfl
    | error e =>
      simp only
      split
      · rfl
      · split <;> rfl

theorem scanTypes_cache_mono (U : Universe) (names : List Str) (c : ClassId × Option Str) :
    ∀ (l : List ClassId) (s : State) (acc : List Choice), (s.cache.lookup c).isSome = true →
      ((scanTypes U names l s acc).1.cache.lookup c).isSome = true
  | [], _, _, h => h
  | c' :: rest, s, acc, h => by
    have h1 : ((doLocalNamesMatch U s names c').1.cache.lookup c).isSome = true := by
      rw [doLocalNamesMatch_cache]; exact doBuild_cache_mono U s c' none c h
    unfold scanTypes
    cases hm : doLocalNamesMatch U s names c' with
    | mk s1 r =>
      rw [hm] at h1
      cases r with
      | error e => exact h1
      | ok b =>
        cases b with
        | false => exact scanTypes_cache_mono U names c rest s1 acc h1
        | true =>
          simp only
          have h2 := doBuild_cache_mono U s1 c' none c h1
          cases hdb : doBuild U s1 c' none with
          | mk s2 r2 =>
            rw [hdb] at h2
            cases r2 with
            | error e => exact h2
            | ok m =>
              cases hg : U.get? c' with
              | none => exact h2
              | some d => exact scanTypes_cache_mono U names c rest s2 _ h2

/-- outside `reset` the cache never loses a key -/
theorem stepT_cache_mono (U : Universe) (w : World) (s : CState) (st : TState) (hr : st.isR = false)
    (c : ClassId × Option Str) (h : (s.cache.lookup c).isSome = true) :
    ((stepT U w s st).1.cache.lookup c).isSome = true := by
  cases st with
  | bCheck c' p =>
    simp only [stepT]
    split
    · exact h
    · split <;> exact h
  | bWrite c' p' m =>
    simp only [stepT]
    by_cases hc : c = (c', p')
    · subst hc; simp [lookup_dictSet_self]
    · rw [lookup_dictSet_ne _ _ _ _ hc]; exact h
  | bRead c' p' => simp only [stepT]; split <;> exact h
  | sScan names d todo n0 acc =>
    simp only [stepT]
    split
    · exact h
    · cases todo with
      | nil => exact h
      | cons k rest =>
        simp only
        have hm := scanTypes_cache_mono U names c (((s.dict d).lookup k).getD []) s.toState acc h
        cases hsc : scanTypes U names (((s.dict d).lookup k).getD []) s.toState acc with
        | mk st' r =>
          rw [hsc] at hm
          have : ((s.absorb st').cache.lookup c).isSome = true := by
            unfold CState.absorb; split <;> exact hm
          cases r <;> exact this
  | rCache => simp [TState.isR] at hr
  | rXsi _ => simp [TState.isR] at hr
  | rStamp => simp [TState.isR] at hr
  | xCheck g => simp only [stepT]; split <;> exact h
  | xLocal g todo acc => cases todo <;> exact h
  | xPublish g acc => exact h
  | xStamp g => exact h
  | xContains k q d => simp only [stepT]; split <;> exact h
  | xGet k q d => simp only [stepT]; split <;> exact h
  | done o => exact h

abbrev CacheInv (U : Universe) (cache : List ((ClassId × Option Str) × Meta)) : Prop :=
  ∀ c p m, cache.lookup (c, p) = some m → pureBuild U c p = .ok m

/-! ### the metadata cache under arbitrary interleavings (no by-fields scans) -/

/-- what is known about a thread inside / after `build(c, p)` -/
def BuildOK (U : Universe) (s : CState) (c : ClassId) (p : Option Str) : TState → Prop
  | .bCheck c' p' => c' = c ∧ p' = p
  | .bWrite c' p' m => c' = c ∧ p' = p ∧ pureBuild U c p = .ok m
  | .bRead c' p' => c' = c ∧ p' = p ∧ (s.cache.lookup (c, p)).isSome = true
  | .done o => o = outMeta (pureBuild U c p)
  | _ => False

theorem BuildOK.notR {U : Universe} {s : CState} {c : ClassId} {p : Option Str} {st : TState}
    (h : BuildOK U s c p st) : st.isR = false := by
  cases st <;> first | rfl | cases h

theorem BuildOK.notX {U : Universe} {s : CState} {c : ClassId} {p : Option Str} {st : TState}
    (h : BuildOK U s c p st) : st.isX = false := by
  cases st <;> first | rfl | cases h

def ThreadOK (U : Universe) (s : CState) (th : Thread) : Prop :=
  match th.prog with
  | .build c p => BuildOK U s c p th.st
  | .lookup _ _ => th.st.isB = false ∧ th.st.isR = false ∧ th.st.lk = true
  | .scan _ => False
  | .reset => False

structure SysInv (U : Universe) (sys : Sys) : Prop where
  cache : CacheInv U sys.shared.cache
  threads : ∀ th ∈ sys.threads, ThreadOK U sys.shared th

theorem start_lookup (k : Look) (q : Str) :
    (Prog.lookup k q).start.isB = false ∧ (Prog.lookup k q).start.isR = false ∧
      (Prog.lookup k q).start.lk = true := by
  simp only [Prog.start]; split <;> exact ⟨rfl, rfl, rfl⟩

theorem SysInv.start (U : Universe) (progs : List Prog) (hnr : noReset progs) (hns : noScan progs)
    (s0 : State) (h0 : CacheInv U s0.cache) : SysInv U (Sys.start s0 progs) := by
  refine ⟨h0, ?_⟩
  intro th hth
  simp only [Sys.start, List.mem_map] at hth
  obtain ⟨pr, hpr, rfl⟩ := hth
  cases pr with
  | build c p => exact ⟨rfl, rfl⟩
  | lookup k q => exact start_lookup k q
  | scan names => exact absurd rfl (hns _ hpr names)
  | reset => exact absurd rfl (hnr _ hpr)

theorem BuildOK.mono {U : Universe} {s s' : CState} {c : ClassId} {p : Option Str} {st : TState}
    (h : BuildOK U s c p st)
    (hm : (s.cache.lookup (c, p)).isSome = true → (s'.cache.lookup (c, p)).isSome = true) :
    BuildOK U s' c p st := by
  cases st <;> simp only [BuildOK] at h ⊢ <;> try exact h
  exact ⟨h.1, h.2.1, hm h.2.2⟩

/-- the stepping thread: cache invariant and its own state -/
theorem stepT_build_inv {U : Universe} (w : World) {s : CState} (hI : CacheInv U s.cache)
    {c : ClassId} {p : Option Str} {st : TState} (hst : BuildOK U s c p st) :
    CacheInv U (stepT U w s st).1.cache ∧ BuildOK U (stepT U w s st).1 c p (stepT U w s st).2 := by
  cases st with
  | bCheck c' p' =>
    obtain ⟨rfl, rfl⟩ := hst
    simp only [stepT]
    cases hl : s.cache.lookup (c', p') with
    | some m => exact ⟨hI, rfl, rfl, by simp [hl]⟩
    | none =>
      cases hb : pureBuild U c' p' with
      | ok m => exact ⟨hI, rfl, rfl, hb⟩
      | error e =>
        refine ⟨hI, ?_⟩
        simp only [BuildOK, hb]
        rfl
  | bWrite c' p' m =>
    obtain ⟨rfl, rfl, hb⟩ := hst
    simp only [stepT]
    refine ⟨?_, rfl, rfl, by simp [lookup_dictSet_self]⟩
    intro c2 p2 m2 hl2
    by_cases hcc : (c2, p2) = (c', p')
    · cases hcc
      rw [lookup_dictSet_self] at hl2
      cases hl2
      exact hb
    · rw [lookup_dictSet_ne _ _ _ _ hcc] at hl2
      exact hI c2 p2 m2 hl2
  | bRead c' p' =>
    obtain ⟨rfl, rfl, hsome⟩ := hst
    simp only [stepT]
    cases hl : s.cache.lookup (c', p') with
    | none => simp [hl] at hsome
    | some m =>
      refine ⟨hI, ?_⟩
      simp only [BuildOK]
      rw [hI c' p' m hl]
      rfl
  | done o => exact ⟨hI, hst⟩
  | xCheck _ => cases hst
  | xLocal _ _ _ => cases hst
  | xPublish _ _ => cases hst
  | xStamp _ => cases hst
  | xContains _ _ _ => cases hst
  | xGet _ _ _ => cases hst
  | sScan _ _ _ _ _ => cases hst
  | rCache => cases hst
  | rXsi _ => cases hst
  | rStamp => cases hst

/-- **one atomic step of any thread preserves the invariant** -/
theorem sched_inv {U : Universe} (w : World) {sys : Sys}
    (hI : SysInv U sys) (i : Nat) : SysInv U (sched U w sys i) := by
  unfold sched
  cases hth : sys.threads[i]? with
  | none => exact hI
  | some th =>
    have hmem : th ∈ sys.threads := List.mem_of_getElem? hth
    have hok := hI.threads th hmem
    have key : th.st.isR = false ∧
        CacheInv U (stepT U w sys.shared th.st).1.cache ∧
        ThreadOK U (stepT U w sys.shared th.st).1 ⟨th.prog, (stepT U w sys.shared th.st).2⟩ := by
      unfold ThreadOK at hok ⊢
      cases hp : th.prog with
      | lookup k q =>
        simp only [hp] at hok ⊢
        obtain ⟨h1, h2, h3, h4⟩ := stepT_notBR U w sys.shared th.st hok.1 hok.2.1 hok.2.2
        exact ⟨hok.2.1, by rw [h4]; exact hI.cache, h1, h2, h3⟩
      | build c p =>
        simp only [hp] at hok ⊢
        obtain ⟨h1, h2⟩ := stepT_build_inv w hI.cache hok
        exact ⟨hok.notR, h1, h2⟩
      | scan names => simp only [hp] at hok
      | reset => simp only [hp] at hok
    have hmono := stepT_cache_mono U w sys.shared th.st key.1
    refine ⟨key.2.1, ?_⟩
    intro th' hth'
    cases List.mem_or_eq_of_mem_set hth' with
    | inr h => rw [h]; exact key.2.2
    | inl h =>
      have hok' := hI.threads th' h
      unfold ThreadOK at hok' ⊢
      cases hp : th'.prog with
      | lookup k q => simpa [hp] using hok'
      | build c p =>
        simp only [hp] at hok' ⊢
        exact hok'.mono (hmono (c, p))
      | scan names => simp only [hp] at hok'
      | reset => simp only [hp] at hok'

theorem runSched_inv {U : Universe} (w : World) :
    ∀ (schedule : List Nat) (sys : Sys), SysInv U sys → SysInv U (runSched U w sys schedule)
  | [], _, h => h
  | i :: rest, _, h => runSched_inv w rest _ (sched_inv w h i)

/-! ### the type index: every published dict object is complete -/

/-- the local build computes the specification of the index -/
theorem localFold_eq (U : Universe) : ∀ (l : List ClassId) (acc : Index),
    (l.filter (isBinding U)).foldl (localAdd U) acc =
      (l.filterMap fun c => if isBinding U c then (indexKey U c).map fun k => (k, c) else none).foldl
        (fun d (e : Str × ClassId) => dictAppend d e.1 e.2) acc
  | [], _ => rfl
  | c :: rest, acc => by
    by_cases hb : isBinding U c = true
    · cases hk : indexKey U c with
      | none =>
        simp only [List.filter_cons, hb, if_true, List.foldl_cons, List.filterMap_cons, hk, Option.map_none]
        rw [show localAdd U acc c = acc by simp [localAdd, hk]]
        exact localFold_eq U rest acc
      | some k =>
        simp only [List.filter_cons, hb, if_true, List.foldl_cons, List.filterMap_cons, hk, Option.map_some]
        rw [show localAdd U acc c = dictAppend acc k c by simp [localAdd, hk]]
        exact localFold_eq U rest _
    · have hb' : isBinding U c = false := by simpa using hb
      simp only [List.filter_cons, hb', List.filterMap_cons]
      simpa using localFold_eq U rest acc

theorem localIndex_eq (U : Universe) (n : Nat) :
    (bindingClasses U n).foldl (localAdd U) [] = pureIndex U n := by
  unfold bindingClasses pureIndex indexEntries
  rw [localFold_eq]

/-- dict object `d` holds the complete index -/
def Full (U : Universe) (w : World) (s : CState) (d : Nat) : Prop :=
  s.heap[d]? = some (pureIndex U w.loaded)

theorem Full.dict {U : Universe} {w : World} {s : CState} {d : Nat} (h : Full U w s d) :
    s.dict d = pureIndex U w.loaded := by
  unfold CState.dict; rw [h]; rfl

def Goal.valid : Goal → Prop
  | .lookup _ q => isDataType q = false
  | .scan _ => True

/-- what the call returns when run alone -/
def Goal.alone (U : Universe) (w : World) : Goal → Out
  | .lookup k q => k.out U (pureTypes U w q)
  | .scan names => .gotType (pureFields U w names)

/-- the choices a scan has collected after visiting the entries with keys `pre` -/
def scanAcc (U : Universe) (w : World) (names : List Str) (pre : List Str) : List Choice :=
  (pre.flatMap fun k => ((pureIndex U w.loaded).lookup k).getD []).filterMap (choiceOf U names)

def FindOK (U : Universe) (w : World) (s : CState) (g : Goal) : TState → Prop
  | .xCheck g' => g' = g ∧ g.valid
  | .xLocal g' todo acc => g' = g ∧ g.valid ∧ todo.foldl (localAdd U) acc = pureIndex U w.loaded
  | .xPublish g' acc => g' = g ∧ g.valid ∧ acc = pureIndex U w.loaded
  | .xStamp g' => g' = g ∧ g.valid ∧ Full U w s s.ref
  | .xContains k q d => g = .lookup k q ∧ g.valid ∧ Full U w s d ∧ Full U w s s.ref
  | .xGet k q d => g = .lookup k q ∧ g.valid ∧ Full U w s d ∧
      ((pureIndex U w.loaded).lookup q).isSome = true
  | .sScan names d todo n0 acc => g = .scan names ∧ Full U w s d ∧ Full U w s s.ref ∧
      n0 = (pureIndex U w.loaded).length ∧
      ∃ pre, pre ++ todo = (pureIndex U w.loaded).map (·.1) ∧ acc = scanAcc U w names pre
  | .done o => o = g.alone U w
  | _ => False

theorem FindOK.afterLocal {U : Universe} {w : World} {s : CState} {g : Goal} (hd : g.valid)
    {todo : List ClassId} {acc : Index} (h : todo.foldl (localAdd U) acc = pureIndex U w.loaded) :
    FindOK U w s g (afterLocal g todo acc) := by
  cases todo with
  | nil => exact ⟨rfl, hd, h⟩
  | cons c rest => exact ⟨rfl, hd, h⟩

theorem FindOK.enter {U : Universe} {w : World} {s : CState} {g : Goal} (hd : g.valid)
    (hf : Full U w s s.ref) : FindOK U w s g (g.enter s) := by
  cases g with
  | lookup k q => exact ⟨rfl, hd, hf, hf⟩
  | scan names =>
    simp only [Goal.enter, FindOK, hf.dict]
    exact ⟨trivial, hf, hf, trivial, [], rfl, rfl⟩

theorem FindOK.mono {U : Universe} {w : World} {s s' : CState} {g : Goal} {st : TState}
    (h : FindOK U w s g st) (h1 : ∀ d, Full U w s d → Full U w s' d)
    (h2 : Full U w s s.ref → Full U w s' s'.ref) : FindOK U w s' g st := by
  cases st <;> simp only [FindOK] at h ⊢ <;> try exact h
  · exact ⟨h.1, h.2.1, h2 h.2.2⟩
  · exact ⟨h.1, h.2.1, h1 _ h.2.2.1, h2 h.2.2.2⟩
  · exact ⟨h.1, h.2.1, h1 _ h.2.2.1, h.2.2.2⟩
  · exact ⟨h.1, h1 _ h.2.1, h2 h.2.2.1, h.2.2.2⟩

theorem Look.out_nil (U : Universe) (k : Look) : k.out U [] = k.empty := by
  cases k <;> rfl

/-- the stepping thread of a lookup / of the index refresh before a scan:
complete dicts stay complete, the published one is complete once it was, the
stamp implies completeness, and the thread's next state is again described by
`FindOK`.  (The scan steps themselves are `stepT_scan_inv`.) -/
theorem stepT_find_inv {U : Universe} {w : World} {s : CState} {g : Goal} {st : TState}
    (hstamp : s.sysModules = w.mods + 1 → Full U w s s.ref) (hst : FindOK U w s g st)
    (hns : st.isS = false) :
    (stepT U w s st).1.cache = s.cache ∧
      (∀ d, Full U w s d → Full U w (stepT U w s st).1 d) ∧
      (Full U w s s.ref → Full U w (stepT U w s st).1 (stepT U w s st).1.ref) ∧
      ((stepT U w s st).1.sysModules = w.mods + 1 →
        Full U w (stepT U w s st).1 (stepT U w s st).1.ref) ∧
      FindOK U w (stepT U w s st).1 g (stepT U w s st).2 := by
  cases st with
  | xCheck g' =>
    obtain ⟨rfl, hd⟩ := hst
    simp only [stepT]
    by_cases hcur : w.mods + 1 = s.sysModules
    · rw [if_pos hcur]
      exact ⟨rfl, fun _ h => h, fun h => h, hstamp, FindOK.enter hd (hstamp hcur.symm)⟩
    · rw [if_neg hcur]
      exact ⟨rfl, fun _ h => h, fun h => h, hstamp, FindOK.afterLocal hd (localIndex_eq U w.loaded)⟩
  | xLocal g' todo acc =>
    obtain ⟨rfl, hd, hf⟩ := hst
    cases todo with
    | nil => exact ⟨rfl, fun _ h => h, fun h => h, hstamp, rfl, hd, hf⟩
    | cons c rest => exact ⟨rfl, fun _ h => h, fun h => h, hstamp, FindOK.afterLocal hd hf⟩
  | xPublish g' acc =>
    obtain ⟨rfl, hd, rfl⟩ := hst
    simp only [stepT]
    have hnew : Full U w { s with heap := s.heap ++ [pureIndex U w.loaded], ref := s.heap.length }
        s.heap.length := by
      simp [Full]
    refine ⟨trivial, ?_, fun _ => hnew, fun _ => hnew, rfl, hd, hnew⟩
    intro d hfull
    unfold Full at hfull ⊢
    have hlt : d < s.heap.length := by
      rcases Nat.lt_or_ge d s.heap.length with h | h
      · exact h
      · rw [List.getElem?_eq_none h] at hfull; cases hfull
    simp only
    rw [List.getElem?_append_left hlt]
    exact hfull
  | xStamp g' =>
    obtain ⟨rfl, hd, hf⟩ := hst
    simp only [stepT]
    have hf' : Full U w { s with sysModules := w.mods + 1 } s.ref := hf
    exact ⟨trivial, fun _ h => h, fun h => h, fun _ => hf', FindOK.enter (s := { s with sysModules := w.mods + 1 }) hd hf'⟩
  | xContains k q d =>
    obtain ⟨rfl, hd, hfd, hfr⟩ := hst
    simp only [stepT, hfd.dict]
    cases hl : (pureIndex U w.loaded).lookup q with
    | some l => exact ⟨rfl, fun _ h => h, fun h => h, hstamp, rfl, hd, hfr, by simp [hl]⟩
    | none =>
      refine ⟨rfl, fun _ h => h, fun h => h, hstamp, ?_⟩
      have hd' : isDataType q = false := hd
      simp [FindOK, Goal.alone, pureTypes, hd', hl]
  | xGet k q d =>
    obtain ⟨rfl, hd, hfd, hsome⟩ := hst
    simp only [stepT, hfd.dict]
    cases hl : (pureIndex U w.loaded).lookup q with
    | none => simp [hl] at hsome
    | some l =>
      refine ⟨rfl, fun _ h => h, fun h => h, hstamp, ?_⟩
      have hd' : isDataType q = false := hd
      simp [FindOK, Goal.alone, pureTypes, hd', hl]
  | done o => exact ⟨rfl, fun _ h => h, fun h => h, hstamp, hst⟩
  | sScan _ _ _ _ _ => simp [TState.isS] at hns
  | bCheck _ _ => cases hst
  | bWrite _ _ _ => cases hst
  | bRead _ _ => cases hst
  | rCache => cases hst
  | rXsi _ => cases hst
  | rStamp => cases hst

theorem FindOK.lookup_notS {U : Universe} {w : World} {s : CState} {k : Look} {q : Str} {st : TState}
    (h : FindOK U w s (.lookup k q) st) : st.isS = false := by
  cases st <;> first | rfl | (exact absurd h.1 (by simp))

/-- **one step of the by-fields scan** (one `next()` of the `values()` iterator and
the visited entry's builds): on a complete dict object whose classes are all
buildable it neither fails nor touches the index, keeps the cache valid, and
extends the collected choices exactly as the atomic scan does -/
theorem stepT_scan_inv {U : Universe} {w : World} {s : CState} {names : List Str}
    (hC : CacheInv U s.cache)
    (hB : ∀ c ∈ indexedClasses (pureIndex U w.loaded), buildable U c = true)
    {d : Nat} {todo : List Str} {n0 : Nat} {acc : List Choice}
    (hst : FindOK U w s (.scan names) (.sScan names d todo n0 acc)) :
    CacheInv U (stepT U w s (.sScan names d todo n0 acc)).1.cache ∧
      (stepT U w s (.sScan names d todo n0 acc)).1.heap = s.heap ∧
      (stepT U w s (.sScan names d todo n0 acc)).1.ref = s.ref ∧
      (stepT U w s (.sScan names d todo n0 acc)).1.sysModules = s.sysModules ∧
      FindOK U w (stepT U w s (.sScan names d todo n0 acc)).1 (.scan names)
        (stepT U w s (.sScan names d todo n0 acc)).2 := by
  obtain ⟨_, hfd, hfr, rfl, pre, hpre, rfl⟩ := hst
  simp only [stepT, hfd.dict]
  rw [if_neg (by simp)]
  cases todo with
  | nil =>
    refine ⟨hC, rfl, rfl, rfl, ?_⟩
    simp only [List.append_nil] at hpre
    simp only [FindOK, Goal.alone, pureFields, indexedClasses, scanAcc, hpre]
  | cons k rest =>
    dsimp only
    have hk : k ∈ (pureIndex U w.loaded).map (·.1) := by
      rw [← hpre]; exact List.mem_append_right _ List.mem_cons_self
    have hmem : ∀ c ∈ ((pureIndex U w.loaded).lookup k).getD [], c ∈ indexedClasses (pureIndex U w.loaded) := by
      intro c hcm
      unfold indexedClasses
      exact List.mem_flatMap.mpr ⟨k, hk, hcm⟩
    have hInv : Inv U ⟨[⟨w.loaded, s.sysModules - 1⟩]⟩ s.toState := by
      refine ⟨hC, ?_⟩
      by_cases h0 : s.sysModules = 0
      · exact Or.inl h0
      · refine Or.inr ⟨⟨w.loaded, s.sysModules - 1⟩, List.mem_singleton.mpr rfl, ?_, hfr.dict⟩
        show s.sysModules = s.sysModules - 1 + 1
        omega
    obtain ⟨s', hr, hI', hx', _⟩ :=
      scanTypes_spec (t := ⟨[⟨w.loaded, s.sysModules - 1⟩]⟩) names
        (((pureIndex U w.loaded).lookup k).getD []) s.toState (scanAcc U w names pre) hInv
        (fun c hcm => hB c (hmem c hcm))
    rw [hr]
    dsimp only
    have habs : s.absorb s' = { s with cache := s'.cache } := by
      unfold CState.absorb
      rw [if_pos (by rw [hx']; rfl)]
    rw [habs]
    refine ⟨hI'.cache, rfl, rfl, rfl, ?_⟩
    refine ⟨rfl, hfd, hfr, rfl, pre ++ [k], by rw [List.append_assoc]; exact hpre, ?_⟩
    simp [scanAcc, List.flatMap_append, List.filterMap_append]

/-! #### lookups only (no scans): `LinInv` -/

def ThreadLin (U : Universe) (w : World) (s : CState) (th : Thread) : Prop :=
  match th.prog with
  | .build _ _ => th.st.isX = false ∧ th.st.isR = false
  | .lookup k q => FindOK U w s (.lookup k q) th.st
  | .scan _ => False
  | .reset => False

structure LinInv (U : Universe) (w : World) (sys : Sys) : Prop where
  stamp : sys.shared.sysModules = w.mods + 1 → Full U w sys.shared sys.shared.ref
  threads : ∀ th ∈ sys.threads, ThreadLin U w sys.shared th

theorem FindOK.start {U : Universe} {w : World} {s : CState} (k : Look) (q : Str) :
    FindOK U w s (.lookup k q) (Prog.lookup k q).start := by
  simp only [Prog.start]
  by_cases hd : isDataType q = true
  · simp only [hd, if_true, FindOK, Goal.alone, pureTypes, Look.out_nil]
  · have hd' : isDataType q = false := by simpa using hd
    simp only [hd']
    exact ⟨rfl, hd'⟩

theorem LinInv.start (U : Universe) (w : World) (progs : List Prog) (hnr : noReset progs)
    (hns : noScan progs) (s0 : State)
    (h0 : s0.sysModules = w.mods + 1 → s0.xsi = pureIndex U w.loaded) :
    LinInv U w (Sys.start s0 progs) := by
  refine ⟨?_, ?_⟩
  · intro hs
    simp only [Sys.start, CState.ofState] at hs ⊢
    simp [Full, h0 hs]
  · intro th hth
    simp only [Sys.start, List.mem_map] at hth
    obtain ⟨pr, hpr, rfl⟩ := hth
    cases pr with
    | build c p => exact ⟨rfl, rfl⟩
    | reset => exact absurd rfl (hnr _ hpr)
    | scan names => exact absurd rfl (hns _ hpr names)
    | lookup k q => exact FindOK.start k q

theorem sched_lin {U : Universe} (w : World) {sys : Sys} (hI : LinInv U w sys) (i : Nat) :
    LinInv U w (sched U w sys i) ∧
      ∀ d, Full U w sys.shared d → Full U w (sched U w sys i).shared d := by
  unfold sched
  cases hth : sys.threads[i]? with
  | none => exact ⟨hI, fun _ h => h⟩
  | some th =>
    have hmem : th ∈ sys.threads := List.mem_of_getElem? hth
    have hok := hI.threads th hmem
    have key : (∀ d, Full U w sys.shared d → Full U w (stepT U w sys.shared th.st).1 d) ∧
        (Full U w sys.shared sys.shared.ref →
          Full U w (stepT U w sys.shared th.st).1 (stepT U w sys.shared th.st).1.ref) ∧
        ((stepT U w sys.shared th.st).1.sysModules = w.mods + 1 →
          Full U w (stepT U w sys.shared th.st).1 (stepT U w sys.shared th.st).1.ref) ∧
        ThreadLin U w (stepT U w sys.shared th.st).1 ⟨th.prog, (stepT U w sys.shared th.st).2⟩ := by
      unfold ThreadLin at hok ⊢
      cases hp : th.prog with
      | build c p =>
        simp only [hp] at hok ⊢
        obtain ⟨h1, h2, h3, h4, h5⟩ := stepT_notXR U w sys.shared th.st hok.1 hok.2
        refine ⟨?_, ?_, ?_, h1, h2⟩
        · intro d hf; unfold Full at hf ⊢; rw [h3]; exact hf
        · intro hf; unfold Full at hf ⊢; rw [h3, h4]; exact hf
        · intro hs; rw [h5] at hs; have := hI.stamp hs; unfold Full at this ⊢; rw [h3, h4]; exact this
      | lookup k q =>
        simp only [hp] at hok ⊢
        exact (stepT_find_inv hI.stamp hok hok.lookup_notS).2
      | scan names => simp only [hp] at hok
      | reset => simp only [hp] at hok
    refine ⟨⟨key.2.2.1, ?_⟩, key.1⟩
    intro th' hth'
    cases List.mem_or_eq_of_mem_set hth' with
    | inr h => rw [h]; exact key.2.2.2
    | inl h =>
      have hok' := hI.threads th' h
      unfold ThreadLin at hok' ⊢
      cases hp : th'.prog with
      | build c p => simpa [hp] using hok'
      | lookup k q =>
        simp only [hp] at hok' ⊢
        exact hok'.mono key.1 key.2.1
      | scan names => simp only [hp] at hok'
      | reset => simp only [hp] at hok'

theorem runSched_lin {U : Universe} (w : World) :
    ∀ (schedule : List Nat) (sys : Sys), LinInv U w sys →
      LinInv U w (runSched U w sys schedule) ∧
        ∀ d, Full U w sys.shared d → Full U w (runSched U w sys schedule).shared d
  | [], _, h => ⟨h, fun _ hf => hf⟩
  | i :: rest, _, h => by
    obtain ⟨h1, h2⟩ := sched_lin w h i
    obtain ⟨h3, h4⟩ := runSched_lin w rest _ h1
    exact ⟨h3, fun d hf => h4 d (h2 d hf)⟩

theorem runSched_append (U : Universe) (w : World) : ∀ (a b : List Nat) (sys : Sys),
    runSched U w sys (a ++ b) = runSched U w (runSched U w sys a) b
  | [], _, _ => rfl
  | i :: a, b, sys => by simp only [List.cons_append, runSched]; exact runSched_append U w a b _

/-! #### builds, lookups and by-fields scans together: `CombInv` -/

def ThreadAll (U : Universe) (w : World) (s : CState) (th : Thread) : Prop :=
  match th.prog with
  | .build c p => BuildOK U s c p th.st
  | .lookup k q => FindOK U w s (.lookup k q) th.st
  | .scan names =>
    (∀ c ∈ indexedClasses (pureIndex U w.loaded), buildable U c = true) ∧
      FindOK U w s (.scan names) th.st
  | .reset => False

structure CombInv (U : Universe) (w : World) (sys : Sys) : Prop where
  cache : CacheInv U sys.shared.cache
  stamp : sys.shared.sysModules = w.mods + 1 → Full U w sys.shared sys.shared.ref
  threads : ∀ th ∈ sys.threads, ThreadAll U w sys.shared th

theorem FindOK.notR {U : Universe} {w : World} {s : CState} {g : Goal} {st : TState}
    (h : FindOK U w s g st) : st.isR = false := by
  cases st <;> first | rfl | cases h

theorem sched_comb {U : Universe} (w : World) {sys : Sys}
    (hI : CombInv U w sys) (i : Nat) :
    CombInv U w (sched U w sys i) ∧
      ∀ d, Full U w sys.shared d → Full U w (sched U w sys i).shared d := by
  unfold sched
  cases hth : sys.threads[i]? with
  | none => exact ⟨hI, fun _ h => h⟩
  | some th =>
    have hmem : th ∈ sys.threads := List.mem_of_getElem? hth
    have hok := hI.threads th hmem
    have key : th.st.isR = false ∧
        CacheInv U (stepT U w sys.shared th.st).1.cache ∧
        (∀ d, Full U w sys.shared d → Full U w (stepT U w sys.shared th.st).1 d) ∧
        (Full U w sys.shared sys.shared.ref →
          Full U w (stepT U w sys.shared th.st).1 (stepT U w sys.shared th.st).1.ref) ∧
        ((stepT U w sys.shared th.st).1.sysModules = w.mods + 1 →
          Full U w (stepT U w sys.shared th.st).1 (stepT U w sys.shared th.st).1.ref) ∧
        ThreadAll U w (stepT U w sys.shared th.st).1 ⟨th.prog, (stepT U w sys.shared th.st).2⟩ := by
      unfold ThreadAll at hok ⊢
      cases hp : th.prog with
      | build c p =>
        simp only [hp] at hok ⊢
        obtain ⟨h1, h2⟩ := stepT_build_inv w hI.cache hok
        obtain ⟨_, _, h3, h4, h5⟩ := stepT_notXR U w sys.shared th.st hok.notX hok.notR
        refine ⟨hok.notR, h1, ?_, ?_, ?_, h2⟩
        · intro d hf; unfold Full at hf ⊢; rw [h3]; exact hf
        · intro hf; unfold Full at hf ⊢; rw [h3, h4]; exact hf
        · intro hs; rw [h5] at hs; have := hI.stamp hs; unfold Full at this ⊢; rw [h3, h4]; exact this
      | lookup k q =>
        simp only [hp] at hok ⊢
        obtain ⟨h0, h1, h2, h3, h4⟩ := stepT_find_inv hI.stamp hok hok.lookup_notS
        exact ⟨hok.notR, by rw [h0]; exact hI.cache, h1, h2, h3, h4⟩
      | scan names =>
        simp only [hp] at hok ⊢
        by_cases hS : th.st.isS = false
        · obtain ⟨h0, h1, h2, h3, h4⟩ := stepT_find_inv hI.stamp hok.2 hS
          exact ⟨hok.2.notR, by rw [h0]; exact hI.cache, h1, h2, h3, hok.1, h4⟩
        · cases hs : th.st with
          | sScan names' d todo n0 acc =>
            have hst := hok.2
            rw [hs] at hst
            have hn : names' = names := by
              have := hst.1
              cases this
              rfl
            subst hn
            obtain ⟨h0, h1, h2, h3, h4⟩ :=
              stepT_scan_inv hI.cache hok.1 hst
            refine ⟨rfl, h0, ?_, ?_, ?_, hok.1, h4⟩
            · intro d' hf; unfold Full at hf ⊢; rw [h1]; exact hf
            · intro hf; unfold Full at hf ⊢; rw [h1, h2]; exact hf
            · intro hs'; rw [h3] at hs'
              have := hI.stamp hs'; unfold Full at this ⊢; rw [h1, h2]; exact this
          | _ => simp [hs, TState.isS] at hS
      | reset => simp only [hp] at hok
    have hmono := stepT_cache_mono U w sys.shared th.st key.1
    refine ⟨⟨key.2.1, key.2.2.2.2.1, ?_⟩, key.2.2.1⟩
    intro th' hth'
    cases List.mem_or_eq_of_mem_set hth' with
    | inr h => rw [h]; exact key.2.2.2.2.2
    | inl h =>
      have hok' := hI.threads th' h
      unfold ThreadAll at hok' ⊢
      cases hp : th'.prog with
      | build c p =>
        simp only [hp] at hok' ⊢
        exact hok'.mono (hmono (c, p))
      | lookup k q =>
        simp only [hp] at hok' ⊢
        exact hok'.mono key.2.2.1 key.2.2.2.1
      | scan names =>
        simp only [hp] at hok' ⊢
        exact ⟨hok'.1, hok'.2.mono key.2.2.1 key.2.2.2.1⟩
      | reset => simp only [hp] at hok'

theorem runSched_comb {U : Universe} (w : World) :
    ∀ (schedule : List Nat) (sys : Sys), CombInv U w sys →
      CombInv U w (runSched U w sys schedule) ∧
        ∀ d, Full U w sys.shared d → Full U w (runSched U w sys schedule).shared d
  | [], _, h => ⟨h, fun _ hf => hf⟩
  | i :: rest, _, h => by
    obtain ⟨h1, h2⟩ := sched_comb w h i
    obtain ⟨h3, h4⟩ := runSched_comb w rest _ h1
    exact ⟨h3, fun d hf => h4 d (h2 d hf)⟩

/-- every unbuildable-free index is safe to scan, or nobody scans -/
def scanSafe (U : Universe) (w : World) (progs : List Prog) : Prop :=
  noScan progs ∨ ∀ c ∈ indexedClasses (pureIndex U w.loaded), buildable U c = true

instance (U : Universe) (w : World) (progs : List Prog) : Decidable (scanSafe U w progs) :=
  inferInstanceAs (Decidable (_ ∨ _))

theorem CombInv.start (U : Universe) (w : World) (progs : List Prog) (hnr : noReset progs)
    (hss : scanSafe U w progs) (s0 : State) (hc0 : CacheInv U s0.cache)
    (h0 : s0.sysModules = w.mods + 1 → s0.xsi = pureIndex U w.loaded) :
    CombInv U w (Sys.start s0 progs) := by
  refine ⟨hc0, ?_, ?_⟩
  · intro hs
    simp only [Sys.start, CState.ofState] at hs ⊢
    simp [Full, h0 hs]
  · intro th hth
    simp only [Sys.start, List.mem_map] at hth
    obtain ⟨pr, hpr, rfl⟩ := hth
    cases pr with
    | build c p => exact ⟨rfl, rfl⟩
    | reset => exact absurd rfl (hnr _ hpr)
    | lookup k q => exact FindOK.start k q
    | scan names =>
      refine ⟨?_, rfl, trivial⟩
      cases hss with
      | inl h => exact absurd rfl (h _ hpr names)
      | inr h => exact h

end Xs.Ctx
