/- C18 — Python-code rendering evaluates back to the object: property theorems,
for the code as it is after the fix commits 1242bcb (enum members by
`__qualname__`), e20b710 (tuples keep their brackets), 3837894 (QName text
through `json.dumps`).

Reading guide (definitions in Code/Pycode.lean and Code/PycodeWF.lean):
  `render W v`      the expression `PycodeSerializer.repr_object` emits for `v`
  `importsEnv W v`  the names the emitted `from m import n` lines bind
  `run W v`         that expression evaluated in that namespace
  `pyEq a b`        Python `a == b`
  `wf W v`          `v` is built from classes that exist in world `W`
  `domOK W v`       the property's own domain (no NaN, hashable keys,
                    `init=False` attributes at their default)
  `importsOK W v`   no two imported classes share a name
-/
import XsdataModel.Proofs.Pycode

namespace Props.C18
open Py Xs.Code

/-! ## The formats the model reads off the code (re-checked against Tables.lean) -/

/-- `literal_value` writes non-finite floats as `float("…")` and QNames as
`QName("…")` — a call of the bare names `float` / `QName` with one
double-quoted literal; `build_imports` writes `from M import N\n`; an enum
member is written `Qual.Name.MEMBER`; `float`, `set`, `frozenset` are builtins
and `QName` is not. -/
theorem literal_formats :
    Tables.floatLitPre = cs!"float(\"" ∧ Tables.floatLitPost = cs!"\")" ∧
    Tables.qnameLitPre = cs!"QName(\"" ∧ Tables.qnameLitPost = cs!"\")" ∧
    Tables.importPre = cs!"from " ∧ Tables.importMid = cs!" import " ∧ Tables.importPost = cs!"\n" ∧
    Tables.enumStrSep = cs!"." ∧ Tables.enumNestedProbe = cs!"O7.E7.A7" ∧ Tables.qnameName = cs!"QName" ∧
    Tables.builtinNames.contains cs!"float" = true ∧ Tables.builtinNames.contains cs!"set" = true ∧
    Tables.builtinNames.contains cs!"frozenset" = true ∧ Tables.builtinNames.contains cs!"QName" = false := by
  decide

/-- the text the live `repr_object` gives for `(1,)`, `[1]`, `{1}`,
`frozenset({1})`, `()`, `[]`, `set()`, `frozenset()`, `{}`, `{1: 1}` is what
the model prints: every array kind keeps its own display -/
theorem layout_probes :
    Tables.reprProbes =
      [Val.tuple [.int 1], .list [.int 1], .set false [.int 1], .set true [.int 1], .tuple [], .list [],
       .set false [], .set true [], .dict [], .dict [(.int 1, .int 1)]].map (fun v => (render [] v).text 0) := by
  decide

/-- for each of the 128 ASCII characters, what the live `literal_value` puts
between `QName("` and `")` is the model's `json.dumps` escape -/
theorem qname_escapes_ascii :
    Tables.qnameEscAscii = (List.range 128).map (fun i => jsonEscChar (Char.ofNat i)) := by
  decide

/-- a lone surrogate in a QName text is written as its `\udXXX` escape -/
theorem qname_escapes_surrogates :
    Tables.qnameEscSurrogates = [0xD800, 0xDBFF, 0xDC00, 0xDFFF].map escapeCp := by
  decide

/-! ## What holds of the code as it is -/

/-- **qname_text_roundtrips**: whatever the text of a QName — quotes,
backslashes, control characters, any Unicode scalar value — the Python parser
reads the literal that `json.dumps(text, ensure_ascii=False)` wrote back as
exactly that text. (Lone surrogates are not `Char`s; see NOTES.) -/
theorem qname_text_roundtrips (t : Str) : decodeDq .normal (jsonBody t) = some t :=
  decodeDq_jsonBody t

/-- **qname_codepoints_roundtrip**: the same for *every* Python string — a
sequence of code points below U+110000, lone surrogates included: what
`literal_value` writes (`json.dumps`, then surrogates as `\udXXX`) is read
back by the parser as exactly those code points; and on strings of scalar
values it writes what `json.dumps` writes. -/
theorem qname_codepoints_roundtrip (cps : List Nat) (h : ∀ n ∈ cps, n < 0x110000) :
    decodeCp .normal (qnameLitBody cps) = some cps :=
  decodeCp_qnameLitBody cps h

theorem qname_literal_scalar (t : Str) : qnameLitBody (t.map Char.toNat) = jsonBody t :=
  qnameLitBody_scalar t

example : decodeCp .normal (qnameLitBody [97, 0xD800, 0x1F600, 34, 0xDFFF])
    = some [97, 0xD800, 0x1F600, 34, 0xDFFF] := by decide

/-- **imports_exact**: the import block binds exactly the outermost names of
the non-builtin classes collected while rendering — nothing is missing, nothing
else is imported. -/
theorem imports_exact (ts : List ClsRef) (m n : Str) :
    (m, n) ∈ imports ts ↔ ∃ t ∈ ts, t.module ≠ builtinsMod ∧ m = t.module ∧ n = t.path.headD [] := by
  rw [mem_imports]
  constructor
  · rintro ⟨t, ht, hi⟩
    unfold importOf at hi
    split at hi
    · cases hi
    · rename_i hnb
      simp only [Option.some.injEq, Prod.mk.injEq] at hi
      exact ⟨t, ht, by simpa using hnb, hi.1.symm, hi.2.symm⟩
  · rintro ⟨t, ht, hnb, rfl, rfl⟩
    refine ⟨t, ht, ?_⟩
    have : (t.module == builtinsMod) = false := by simpa using hnb
    simp [importOf, this]

/-- **imports_sufficient (partial)**: for every world and every value in the
property's domain, provided no two imported classes share a name, each dotted name the emitted expression uses — class
constructors at any nesting depth, enum members of nested enums, `QName`,
`Decimal`, `float`, `set`, `frozenset` — resolves, in the namespace created by the emitted
import lines alone, to exactly the class it was written for. -/
theorem imports_sufficient_partial (W : World) (v : Val)
    (hwf : wf W v = true) (hdom : domOK W v = true) 
    (himp : importsOK W v = true) :
    EnvGood W (importsEnv W v) (render W v).refs := by
  intro pc hpc
  have hok := valOK_of_dom W v hdom
  have hg := refs_good W v hwf hok pc hpc
  have hmem := refs_sub_types (render W v) pc hpc
  apply resolve_of_good hg hmem
  intro t ht
  have := himp
  simp only [importsOK, importsOKe, List.all_eq_true] at this
  have h := this pc hpc t ht
  simp only [Bool.or_eq_true, beq_iff_eq, bne_iff_ne] at h
  rcases h with (h | h) | h
  · exact Or.inl h
  · exact Or.inr (Or.inl h)
  · exact Or.inr (Or.inr h)

/-- **code_rt (partial)**: executing the rendered source — the emitted import
lines, then the emitted expression — succeeds and yields a value Python-equal
to the original, for all classes (nested, frozen, with `init=False` fields and
default factories) and all instances in the domain: members of nested enums,
tuples (also as dict keys), sets and frozensets, QNames with any text, ±inf,
Decimals, bytes, date/time values, empty and nested collections, attribute maps. Fields elided
because they equal their default are restored by the constructor to a value
equal to the original's. Still excluded: an import name clash (`importsOK`). -/
theorem code_rt_partial (W : World) (v : Val)
    (hwf : wf W v = true) (hdom : domOK W v = true) 
    (himp : importsOK W v = true) :
    ∃ v', run W v = .ok v' ∧ pyEq v' v = true := by
  obtain ⟨v', h1, h2, _⟩ := rt W (importsEnv W v) v hwf (valOK_of_dom W v hdom)
    (imports_sufficient_partial W v hwf hdom himp)
  exact ⟨v', h1, h2⟩

/-- the same, phrased on the outcome class that the correspondence check
compares with the real `exec` -/
theorem outcome_equal_partial (W : World) (v : Val)
    (hwf : wf W v = true) (hdom : domOK W v = true) 
    (himp : importsOK W v = true) :
    outcome W v = cs!"equal" := by
  obtain ⟨v', hr, he⟩ := code_rt_partial W v hwf hdom himp
  have hrisk := no_risk W v (valOK_of_dom W v hdom)
  simp [outcome, hrisk, hr, he]

/-- **code_rt for any adequate namespace**: the round trip does not depend on
how the names got bound — any namespace in which the references resolve will do
(e.g. the source pasted into a module that already imports the classes; this is
also the way around an import name clash). -/
theorem code_rt_any_env (W : World) (env : Xs.Code.Env) (v : Val)
    (hwf : wf W v = true) (hdom : domOK W v = true) 
    (henv : EnvGood W env (render W v).refs) :
    ∃ v', eval W env (render W v) = .ok v' ∧ pyEq v' v = true := by
  obtain ⟨v', h1, h2, _⟩ := rt W env v hwf (valOK_of_dom W v hdom) henv
  exact ⟨v', h1, h2⟩

/-! The hypotheses are satisfiable by a non-trivial input: nested model
classes three deep, a non-empty tuple, an `init=False` attribute at its
default, a default elided across types (`0 == False`), `inf`, a Decimal, a
QName whose text has a backslash and a double quote, a member of a nested enum,
a dict with an enum key and one with a tuple key, a frozenset of tuples, an
empty set. -/

def mA : Str := cs!"pkg.mod_a"
def mB : Str := cs!"pkg.mod_b"
def outerR : ClsRef := ⟨mA, [cs!"Outer"]⟩
def in2R : ClsRef := ⟨mA, [cs!"Outer", cs!"In2"]⟩
def deepR : ClsRef := ⟨mA, [cs!"Outer", cs!"In2", cs!"Deep"]⟩
def innerR : ClsRef := ⟨mA, [cs!"Outer", cs!"Inner"]⟩
def topR : ClsRef := ⟨mA, [cs!"Top"]⟩
def decR : ClsRef := ⟨cs!"decimal", [cs!"Decimal"]⟩
def en : Val := .str cs!"en" cs!"'en'"

def W1 : World := [
  ⟨outerR, .model [⟨cs!"x", true, .value .none⟩, ⟨cs!"t", true, .factory (.tuple [])⟩,
                   ⟨cs!"lang", false, .value en⟩, ⟨cs!"n", true, .value (.int 0)⟩]⟩,
  ⟨innerR, .enum [cs!"A"]⟩, ⟨topR, .enum [cs!"A", cs!"B"]⟩,
  ⟨in2R, .model [⟨cs!"z", true, .missing⟩]⟩,
  ⟨deepR, .model [⟨cs!"w", true, .factory (.list [])⟩]⟩]

def good : Val :=
  .model outerR [
    .list [.model deepR [.list [.float .pinf cs!"inf", .opaque decR [cs!"Decimal"] cs!"('1.50')" (some (.fin 3 2))]],
           .model in2R [.dict [(.enum topR cs!"B", .qname cs!"{a\\b}\"x")]]],
    .tuple [.enum innerR cs!"A", .dict [(.tuple [.int 1, .int 2], .set true [.tuple [.int 3], .none]), (.int 0, .set false [])]], en, .bool false]

example : wf W1 good = true ∧ domOK W1 good = true ∧ importsOK W1 good = true := by decide
example : outcome W1 good = cs!"equal" := by decide

/-! ## Full-strength statements and why they still fail -/

/-- C18, first half, at full strength: every instance in the domain
round-trips. **False** of the code as it stands (import name clashes). -/
def CodeRoundTrips : Prop :=
  ∀ (W : World) (v : Val), wf W v = true → domOK W v = true →
    ∃ v', run W v = .ok v' ∧ pyEq v' v = true

/-- C18, second half, at full strength: the emitted imports make every name
the source uses denote the class it means. **False** of the code as it stands
(import name clashes). -/
def ImportsSufficient : Prop :=
  ∀ (W : World) (v : Val), wf W v = true → domOK W v = true →
    EnvGood W (importsEnv W v) (render W v).refs

/-- decidable form of "running the source fails with `e`" -/
def failsWith (W : World) (v : Val) (e : Err) : Bool :=
  match run W v with
  | .error e' => e' == e
  | .ok _ => false

/-- decidable form of "running the source gives a value unequal to the original" -/
def givesUnequal (W : World) (v : Val) : Bool :=
  match run W v with
  | .ok v' => !pyEq v' v
  | .error _ => false

theorem not_rt_of_fails {W : World} {v : Val} {e : Err} (h : failsWith W v e = true) :
    ¬ ∃ v', run W v = .ok v' ∧ pyEq v' v = true := by
  rintro ⟨v', hr, _⟩
  simp [failsWith, hr] at h

theorem not_rt_of_unequal {W : World} {v : Val} (h : givesUnequal W v = true) :
    ¬ ∃ v', run W v = .ok v' ∧ pyEq v' v = true := by
  rintro ⟨v', hr, he⟩
  simp [givesUnequal, hr, he] at h

/-- decidable form of `EnvGood` -/
def envGoodB (W : World) (env : Xs.Code.Env) (refs : List (List Str × ClsRef)) : Bool :=
  refs.all fun pc => match resolve W env pc.1 with
    | .ok r => r == pc.2
    | .error _ => false

theorem envGoodB_of {W : World} {env : Xs.Code.Env} {refs : List (List Str × ClsRef)}
    (h : EnvGood W env refs) : envGoodB W env refs = true := by
  simp only [envGoodB, List.all_eq_true]
  intro pc hpc
  simp [h pc hpc]

/-- **Defect — the same class name imported from two modules.** The later
import shadows the earlier one; the source then builds the wrong class
(unequal) or passes it a keyword it does not know (TypeError). -/
def addrA : ClsRef := ⟨mA, [cs!"Address"]⟩
def addrB : ClsRef := ⟨mB, [cs!"Address"]⟩
def W2 : World := [
  ⟨addrA, .model [⟨cs!"x", true, .value .none⟩, ⟨cs!"y", true, .value (.int 0)⟩]⟩,
  ⟨addrB, .model [⟨cs!"x", true, .value .none⟩, ⟨cs!"w", true, .value (.int 0)⟩]⟩]
def clashWitness1 : Val := .model addrA [.model addrB [.none, .int 1], .int 0]
def clashWitness2 : Val := .model addrB [.model addrA [.none, .int 1], .int 0]

theorem import_name_clash :
    wf W2 clashWitness1 = true ∧ domOK W2 clashWitness1 = true ∧
    importsEnv W2 clashWitness1 = [(mA, cs!"Address"), (mB, cs!"Address")] ∧
    givesUnequal W2 clashWitness1 = true ∧
    wf W2 clashWitness2 = true ∧ domOK W2 clashWitness2 = true ∧
    failsWith W2 clashWitness2 .typeError = true ∧
    envGoodB W2 (importsEnv W2 clashWitness1) (render W2 clashWitness1).refs = false := by
  decide

/-- the full-strength round-trip statement is false -/
theorem not_codeRoundTrips : ¬ CodeRoundTrips := fun h =>
  not_rt_of_unequal import_name_clash.2.2.2.1
    (h W2 clashWitness1 import_name_clash.1 import_name_clash.2.1)

/-- the full-strength import statement is false: name clash -/
theorem not_importsSufficient : ¬ ImportsSufficient := by
  intro h
  have := envGoodB_of (h W2 clashWitness1 import_name_clash.1 import_name_clash.2.1)
  rw [import_name_clash.2.2.2.2.2.2.2] at this
  cases this

/-- The remaining exclusion is needed: the clash witnesses satisfy `wf` and
`domOK` and violate only `importsOK`. -/
theorem exclusions_are_tight :
    importsOK W2 clashWitness1 = false ∧ importsOK W2 clashWitness2 = false := by
  decide

/-! ## The repaired defects stay repaired

The witnesses of the former counterexample theorems (`nested_enum_name_error`,
`tuple_rendered_as_list`, `qname_text_unescaped`, `set_rendered_as_list`) now
fall under `code_rt_partial`; their emitted text and outcome, for the record. -/

def nestedEnumWitness : Val := .model outerR [.enum innerR cs!"A", .tuple [], en, .int 0]
def tupleWitness : Val := .model outerR [.none, .tuple [.int 1, .int 2], en, .int 0]
def tupleKeyWitness : Val := .dict [(.tuple [.int 1, .int 2], .int 3)]
def setWitness : Val := .model outerR [.set false [.int 1, .int 2], .tuple [], en, .int 0]
def frozensetWitness : Val := .model outerR [.set true [.int 1], .tuple [], en, .int 0]
def qnameWitness : Val := .model outerR [.qname cs!"{a\\b}\"x", .tuple [], en, .int 0]

theorem repaired_witnesses :
    outcome W1 nestedEnumWitness = cs!"equal" ∧ outcome W1 tupleWitness = cs!"equal" ∧
    outcome W1 tupleKeyWitness = cs!"equal" ∧ outcome W1 qnameWitness = cs!"equal" ∧
    outcome W1 setWitness = cs!"equal" ∧ outcome W1 frozensetWitness = cs!"equal" ∧
    source W1 setWitness cs!"obj"
      = cs!"from pkg.mod_a import Outer\n\n\nobj = Outer(\n    x={\n        1,\n        2,\n    }\n)\n" ∧
    source W1 frozensetWitness cs!"obj"
      = cs!"from pkg.mod_a import Outer\n\n\nobj = Outer(\n    x=frozenset({\n        1,\n    })\n)\n" ∧
    source W1 nestedEnumWitness cs!"obj"
      = cs!"from pkg.mod_a import Outer\n\n\nobj = Outer(\n    x=Outer.Inner.A\n)\n" ∧
    source W1 tupleWitness cs!"obj"
      = cs!"from pkg.mod_a import Outer\n\n\nobj = Outer(\n    t=(\n        1,\n        2,\n    )\n)\n" ∧
    source W1 qnameWitness cs!"obj"
      = cs!"from pkg.mod_a import Outer\nfrom xml.etree.ElementTree import QName\n\n\nobj = Outer(\n    x=QName(\"{a\\\\b}\\\"x\")\n)\n" := by
  decide

end Props.C18
