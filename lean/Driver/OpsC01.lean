import Driver.OpsBind
import XsdataModel.Bind.FN
open Lean Proto Py Xs.Bind

/-! Driver ops of property C01: the value-level hypothesis of `Props.C01.bind_generate_F1`
evaluated on exported real instances (`ctxF1` itself is op `bind.ctxF1`). -/
namespace OpsC01

def run (op : String) (a : Json) : Option (Except String Json) :=
  match op with
  | "c01.valF1" => some do
      let Γ ← OpsBind.dCtx (OpsBind.field a "ctx")
      let v ← OpsBind.dVal (OpsBind.field a "value")
      let c ← OpsBind.dStr (OpsBind.field a "clazz")
      pure (ok (jObj [("ctxF1", jBool (F1.ctxF1 Γ)), ("valF1", jBool (F1.valF1 OpsBind.benv Γ c v)),
        ("instF1", jBool (F1.instF1 Γ c v))]))
  | "c01.valFN" => some do
      -- the hypotheses of `Props.C01.bind_generate_F2…` for the feature set `feat`
      let Γ ← OpsBind.dCtx (OpsBind.field a "ctx")
      let v ← OpsBind.dVal (OpsBind.field a "value")
      let c ← OpsBind.dStr (OpsBind.field a "clazz")
      let f := OpsBind.field a "feat"
      let flag (k : String) : Bool := (OpsBind.field f k).getBool?.toOption.getD false
      let ft : FN.Feat := ⟨flag "nillable", flag "tokens", flag "wrapper", flag "sequence", flag "fixed", flag "anyAttrs", flag "inherit", flag "wildcard", flag "union", flag "qname"⟩
      pure (ok (jObj [("ctx", jBool (FN.ctxOK ft Γ)), ("val", jBool (FN.valOKI ft.inherit OpsBind.benv Γ c v))]))
  | _ => none

end OpsC01
