/- C13 — property theorems (only). Helper lemmas: Proofs/SamplesReduce.lean,
   Proofs/SamplesOccur.lean. -/
import XsdataModel.Proofs.SamplesOccur

namespace Props.C13
open Py Xs.Samples

/-- every name in the live `__EXPLICIT_TYPES__` is a type the model knows -/
theorem explicit_types_known : explicitTypes.all (fun p => p.1.isSome) = true := by decide

/-! ### occurrences: counting children, merging samples -/

theorem fold_nodup (xs : List Attr) : ∀ acc, NodupKeys acc → NodupKeys (xs.foldl addAttribute acc) := by
  induction xs with
  | nil => intro acc h; simpa using h
  | cons x rest ih => intro acc h; simpa using ih _ (addAttribute_nodup x h)

/-- **merged_bounds_sound.** Take any set of samples (occurrences of one element; each is the
list of freshly built child attrs in document order, `min ≤ 1`, `max = 1`), run every one
through `add_attribute` and merge the results with `reduce_attributes`.  Then the merge does
not crash, and for every sample and every key the number of children with that key lies
within `[min, max]` of the merged attr; a key that some sample lacks has `min = 0`. -/
theorem merged_bounds_sound (samples : List (List Attr))
    (hfresh : ∀ s ∈ samples, ∀ a ∈ s, a.min ≤ 1 ∧ a.max = 1)
    (hlen : ∀ s ∈ samples, s.length ≤ maxsize) :
    ∃ R, reduceAttributes (samples.map (fun s => s.foldl addAttribute [])) = some R ∧
      ∀ s ∈ samples, ∀ k : Attr,
        (0 < s.countP (fun x => x.same k) →
          ∃ m, lookup R k = some m ∧ m.min ≤ s.countP (fun x => x.same k) ∧
            s.countP (fun x => x.same k) ≤ m.max) ∧
        (s.countP (fun x => x.same k) = 0 → ∀ m ∈ R, m.same k = true → m.min = 0) := by
  have hn : ∀ c ∈ samples.map (fun s => s.foldl addAttribute []), NodupKeys c := by
    intro c hc
    simp only [List.mem_map] at hc
    obtain ⟨s, _, rfl⟩ := hc
    exact fold_nodup s [] (by simp [NodupKeys])
  obtain ⟨R, hR, hadm⟩ := reduceAttributes_admits _ hn
  refine ⟨R, hR, ?_⟩
  intro s hs k
  have hocc := hadm (s.foldl addAttribute []) (by simp only [List.mem_map]; exact ⟨s, hs, rfl⟩)
  simp only [admitsAttrs, Bool.and_eq_true, List.all_eq_true] at hocc
  have hcount := addAttribute_fold_count s (hfresh s hs) k []
  simp only [lookup, List.find?_nil] at hcount
  constructor
  · intro hpos
    have hne : ¬ s.countP (fun x => x.same k) = 0 := by omega
    simp only [hne, if_false] at hcount
    obtain ⟨r, hr, hmin, hmax⟩ := hcount
    have hmem := List.mem_of_find?_eq_some hr
    have hrk : r.same k = true := by simpa using List.find?_some hr
    have h1 := hocc.1 r hmem
    have hlk : lookup R k = R.find? (fun m => m.same r) := by
      simp only [lookup]
      congr 1
      funext m
      exact (same_congr_right m hrk).symm
    cases hf : R.find? (fun m => m.same r) with
    | none => simp [hf] at h1
    | some m =>
      simp only [hf, Attr.within, Bool.and_eq_true, decide_eq_true_eq] at h1
      refine ⟨m, by rw [hlk, hf], by omega, ?_⟩
      by_cases hc : s.countP (fun x => x.same k) = 1
      · simp only [hc, if_true] at hmax; omega
      · simp only [hc, if_false] at hmax
        have := List.countP_le_length (p := fun x => x.same k) (l := s)
        have := hlen s hs
        omega
  · intro hzero m hm hmk
    simp only [hzero, if_true] at hcount
    have hnone : ∀ a ∈ s.foldl addAttribute [], a.same k = false := by
      intro a ha
      have := List.find?_eq_none.1 hcount a ha
      simpa using this
    have h2 := hocc.2 m hm
    simp only [Bool.or_eq_true, List.any_eq_true, decide_eq_true_eq] at h2
    rcases h2 with ⟨a, ha, ham⟩ | h2
    · have := same_trans ham hmk
      simp [hnone a ha] at this
    · exact h2

/-- the hypotheses of `merged_bounds_sound` are met by real inputs: two samples, `a b a b`
and `a c`, as `build_attr` makes them -/
example :
    let mk (n : String) : Attr := { tag := .element, name := n.toList, ns := none, index := 0, types := [], min := 1, max := 1 }
    let samples := [[mk "a", mk "b", mk "a", mk "b"], [mk "a", mk "c"]]
    (∀ s ∈ samples, ∀ a ∈ s, a.min ≤ 1 ∧ a.max = 1) ∧ (∀ s ∈ samples, s.length ≤ maxsize) := by
  decide

end Props.C13
