/-
L2 — the SAX calls of the tree-shaped writer, fed to XMLGenerator, give a token
list that a namespace-aware parser reads back as the tree of those calls.
-/
import XsdataModel.Proofs.Attrs

namespace Proofs.Generator
open Py Xs.Ns Xs.Sax Xs.Writer Spec.XmlNs Spec.EventTree Proofs.MapInv Proofs.Flush Proofs.Resolve Proofs.TreeWriter Spec.Hyps

/-! ### running the generator -/

theorem gRun_append (x : Str) (a b : List Call) : ∀ g,
    gRun x g (a ++ b) = match gRun x g a with
      | .error e => .error e
      | .ok (t1, g1) =>
        match gRun x g1 b with
        | .error e => .error e
        | .ok (t2, g2) => .ok (t1 ++ t2, g2) := by
  induction a with
  | nil =>
    intro g
    simp only [List.nil_append, gRun]
    cases gRun x g b with
    | error e => rfl
    | ok r => obtain ⟨t, g2⟩ := r; simp
  | cons c r ih =>
    intro g
    simp only [List.cons_append, gRun]
    cases gStep x g c with
    | error e => rfl
    | ok r1 =>
      obtain ⟨t1, g1⟩ := r1
      simp only []
      rw [ih g1]
      cases gRun x g1 r with
      | error e => rfl
      | ok r2 =>
        obtain ⟨t2, g2⟩ := r2
        simp only []
        cases gRun x g2 b with
        | error e => rfl
        | ok r3 => obtain ⟨t3, g3⟩ := r3; simp

theorem gRun_ok_append (x : Str) (a b : List Call) (g g1 g2 : GState) (t1 t2 : List Tok)
    (h1 : gRun x g a = .ok (t1, g1)) (h2 : gRun x g1 b = .ok (t2, g2)) :
    gRun x g (a ++ b) = .ok (t1 ++ t2, g2) := by
  rw [gRun_append, h1]; simp only []; rw [h2]

/-- `_ns_contexts` after a run of `startPrefixMapping` calls -/
def pushCtxs (cur : List (Str × Pfx)) (ctxs : List (List (Str × Pfx))) : List (Pfx × Str) → List (List (Str × Pfx))
  | [] => ctxs
  | (p, u) :: r => pushCtxs (dset cur u p) (cur :: ctxs) r

theorem gRun_startPrefixes (x : Str) (decls : List (Pfx × Str)) : ∀ (ctxs : List (List (Str × Pfx)))
    (cur : List (Str × Pfx)) (und : List (Pfx × Str)) (pend : Option Str),
    gRun x ⟨ctxs, cur, und, pend⟩ (decls.map (fun d => Call.startPrefix d.1 d.2))
      = .ok ([], ⟨pushCtxs cur ctxs decls, applyCur cur decls, und ++ decls, pend⟩) := by
  induction decls with
  | nil => intro ctxs cur und pend; simp [gRun, pushCtxs, applyCur]
  | cons e r ih =>
    obtain ⟨p, u⟩ := e
    intro ctxs cur und pend
    simp only [List.map_cons, gRun, gStep]
    rw [ih]
    simp [pushCtxs, applyCur]

theorem pushCtxs_shape (decls : List (Pfx × Str)) : ∀ (cur : List (Str × Pfx)) (ctxs : List (List (Str × Pfx))),
    ∃ xs, pushCtxs cur ctxs decls = xs ++ ctxs ∧ xs.length = decls.length ∧ (decls ≠ [] → xs.getLast? = some cur) := by
  induction decls with
  | nil => intro cur ctxs; exact ⟨[], rfl, rfl, fun h => absurd rfl h⟩
  | cons e r ih =>
    obtain ⟨p, u⟩ := e
    intro cur ctxs
    obtain ⟨xs, h1, h2, _⟩ := ih (dset cur u p) (cur :: ctxs)
    refine ⟨xs ++ [cur], ?_, ?_, ?_⟩
    · simp [pushCtxs, h1]
    · simp [h2]
    · intro _; simp

theorem gRun_endPrefixes (x : Str) (xs : List (List (Str × Pfx))) : ∀ (ps : List Pfx), ps.length = xs.length →
    ∀ (ctxs : List (List (Str × Pfx))) (cur : List (Str × Pfx)) (und : List (Pfx × Str)) (pend : Option Str),
    gRun x ⟨xs ++ ctxs, cur, und, pend⟩ (ps.map Call.endPrefix)
      = .ok ([], ⟨ctxs, (xs.getLast?).getD cur, und, pend⟩) := by
  induction xs with
  | nil =>
    intro ps h ctxs cur und pend
    have : ps = [] := List.length_eq_zero_iff.mp h
    subst this
    simp [gRun]
  | cons c r ih =>
    intro ps h ctxs cur und pend
    cases ps with
    | nil => simp at h
    | cons p ps' =>
      simp only [List.length_cons, Nat.add_right_cancel_iff] at h
      simp only [List.map_cons, gRun, gStep, List.cons_append]
      rw [ih ps' h]
      cases r with
      | nil => simp
      | cons c' r' =>
        rw [List.getLast?_cons_cons]
        cases hh : (c' :: r').getLast? with
        | none => simp at hh
        | some v => rfl

/-- declarations pushed, then popped again: context and stack are back -/
theorem gRun_endPrefixes_restore (x : Str) (decls : List (Pfx × Str)) (ctxs : List (List (Str × Pfx)))
    (cur : List (Str × Pfx)) (und : List (Pfx × Str)) (pend : Option Str) :
    gRun x ⟨pushCtxs cur ctxs decls, applyCur cur decls, und, pend⟩ ((decls.map (·.1)).map Call.endPrefix)
      = .ok ([], ⟨ctxs, cur, und, pend⟩) := by
  obtain ⟨xs, h1, h2, h3⟩ := pushCtxs_shape decls cur ctxs
  rw [h1, gRun_endPrefixes x xs (decls.map (·.1)) (by simp [h2])]
  cases decls with
  | nil =>
    have : xs = [] := List.length_eq_zero_iff.mp h2
    subst this
    simp [applyCur]
  | cons e r => simp [h3 (by simp)]

end Proofs.Generator

namespace Proofs.Generator
open Py Xs.Ns Xs.Sax Xs.Writer Spec.XmlNs Spec.EventTree Proofs.MapInv Proofs.Flush Proofs.Resolve Proofs.TreeWriter Spec.Hyps

/-! ### small facts about the readers -/

theorem sRun_append (a b : List Call) : ∀ st, sRun st (a ++ b) = match sRun st a with
    | some st' => sRun st' b
    | none => none := by
  induction a with
  | nil => intro st; rfl
  | cons c r ih =>
    intro st
    simp only [List.cons_append, sRun]
    cases sStep st c with
    | none => rfl
    | some st' => exact ih st'

theorem pRun_append (a b : List Tok) : ∀ st, pRun st (a ++ b) = match pRun st a with
    | some st' => pRun st' b
    | none => none := by
  induction a with
  | nil => intro st; rfl
  | cons c r ih =>
    intro st
    simp only [List.cons_append, pRun]
    cases pStep st c with
    | none => rfl
    | some st' => exact ih st'

theorem sRun_startPrefixes (decls : List (Pfx × Str)) (st : List SFrame × Option Node) :
    sRun st (decls.map (fun d => Call.startPrefix d.1 d.2)) = some st := by
  induction decls with
  | nil => rfl
  | cons e r ih => simp [sRun, sStep, ih]

theorem sRun_endPrefixes (ps : List Pfx) (st : List SFrame × Option Node) :
    sRun st (ps.map Call.endPrefix) = some st := by
  induction ps with
  | nil => rfl
  | cons e r ih => simp [sRun, sStep, ih]

theorem someVals_keys (A : List (EName × Option Str)) : ∀ vs, someVals A = some vs → vs.map (·.1) = A.map (·.1) := by
  induction A with
  | nil => intro vs h; simp [someVals] at h; subst h; rfl
  | cons a r ih =>
    obtain ⟨n, vo⟩ := a
    intro vs h
    cases vo with
    | none => simp [someVals] at h
    | some v =>
      simp only [someVals, Option.map_eq_some_iff] at h
      obtain ⟨vs', h1, rfl⟩ := h
      simp [ih vs' h1]

theorem NoDupKeys_of_keys_eq {α β γ : Type} [DecidableEq α] : ∀ (a : List (α × β)) (b : List (α × γ)),
    a.map (·.1) = b.map (·.1) → NoDupKeys b → NoDupKeys a := by
  intro a
  induction a with
  | nil => intro b _ _; simp [NoDupKeys]
  | cons e r ih =>
    obtain ⟨k, v⟩ := e
    intro b hk hb
    cases b with
    | nil => simp at hk
    | cons e' r' =>
      obtain ⟨k', v'⟩ := e'
      simp only [List.map_cons, List.cons.injEq] at hk
      obtain ⟨hk1, hk2⟩ := hk
      subst hk1
      simp only [NoDupKeys] at hb ⊢
      refine ⟨?_, ih r' hk2 hb.2⟩
      intro x hx
      have : x.1 ∈ r.map (·.1) := List.mem_map.mpr ⟨x, hx, rfl⟩
      rw [hk2] at this
      obtain ⟨y, hy, hxy⟩ := List.mem_map.mp this
      rw [← hxy]
      exact hb.1 y hy

theorem prefixedExists_reset (tag : EName) (M : NsMap) (u : Str) (hp : prefixedExists u M = true)
    (hn : NoDupKeys M) : prefixedExists u (resetDefaultNamespace tag M) = true := by
  simp only [prefixedExists, List.any_eq_true, Bool.and_eq_true, decide_eq_true_eq] at hp ⊢
  obtain ⟨e, he, hk, heq⟩ := hp
  obtain ⟨k, v⟩ := e
  cases k with
  | none => simp at hk
  | some s =>
    have hget := NoDupKeys_dget_of_mem M (some s) v hn he
    have : dget (resetDefaultNamespace tag M) (some s) = some v := by rw [reset_dget_some]; exact hget
    exact ⟨(some s, v), dget_some_mem _ _ _ this, hk, heq⟩

theorem reset_qualified (tag : EName) (M : NsMap) (u : Str) (h : tag.1 = some u) (hu : u ≠ []) :
    resetDefaultNamespace tag M = M := by
  rw [reset_eq]
  have : unqualified tag = false := by
    unfold unqualified
    rw [h]
    exact isEmpty_false_of_ne_nil u hu
  simp [this]

theorem reset_unqualified_none (tag : EName) (M : NsMap) (h : tag.1 = none) :
    dget (resetDefaultNamespace tag M) none = none ∨ dget (resetDefaultNamespace tag M) none = some [] := by
  rw [reset_dget_none]
  have : unqualified tag = true := by unfold unqualified; rw [h]
  simp only [this, Bool.true_and]
  by_cases hd : dhas M none = true
  · simp [hd]
  · simp only [hd]
    left
    simp only [dhas, Option.isSome_iff_ne_none, ne_eq, Decidable.not_not, Bool.not_eq_true] at hd
    cases hg : dget M none with
    | none => simp
    | some v => rw [hg] at hd; simp at hd

end Proofs.Generator

namespace Proofs.Generator
open Py Xs.Ns Xs.Sax Xs.Writer Spec.XmlNs Spec.EventTree Proofs.MapInv Proofs.Flush Proofs.Resolve Proofs.TreeWriter Spec.Hyps

def parentScope : List Frame → List (Pfx × Str)
  | f :: _ => f.scope
  | [] => []

/-- conditions on the pending element's name -/
structure TagOK (tag : EName) (M : NsMap) : Prop where
  loc : isNCName tag.2 = true
  ns : nsPartOK tag.1 = true
  bound : ∀ u, tag.1 = some u → prefixExists u M = true

theorem TagOK.ext {tag : EName} {M M' : NsMap} (h : TagOK tag M) (e : Ext M M') : TagOK tag M' :=
  ⟨h.loc, h.ns, fun u hu => prefixExists_ext u M M' e (h.bound u hu)⟩

/-- flushing a pending element: declarations + start tag, as written and as read back -/
theorem open_elem (env : NsEnv) (henv : EnvOK env) (d : Option Str) (isNil : Bool) (base Y : NsMap)
    (tag : EName) (A : Attrs) (gctxs : List (List (Str × Pfx))) (gcur : List (Str × Pfx)) (gpend : Option Str)
    (st : List Frame) (root : Option Node) (sst : List SFrame) (sroot : Option Node)
    (hM : MapOK env d (base ++ Y)) (hK : K2 base gcur) (hS : ScopeEq (parentScope st) base)
    (hA : AttrsOK d A) (htag : TagOK tag (base ++ Y)) (hYok : YOK base Y)
    (hroot : st = [] → root = none) (hsroot : sst = [] → sroot = none) :
    ∃ w ws vs scope' decls,
      decls = newPrefixes base (flushed env isNil base tag A (base ++ Y)).map
      ∧ (flushed env isNil base tag A (base ++ Y)).prefixes = decls.map (·.1)
      ∧ gRun env.saxXmlNs ⟨gctxs, gcur, [], gpend⟩ (flushed env isNil base tag A (base ++ Y)).calls
          = .ok ([Tok.open_ w decls ws], ⟨pushCtxs gcur gctxs decls, applyCur gcur decls, [], some w⟩)
      ∧ pStep ⟨st, root, false⟩ (Tok.open_ w decls ws) = some ⟨⟨w, tag, vs, [], scope'⟩ :: st, root, false⟩
      ∧ sRun (sst, sroot) (flushed env isNil base tag A (base ++ Y)).calls = some (⟨tag, vs, []⟩ :: sst, sroot)
      ∧ MapOK env d (flushed env isNil base tag A (base ++ Y)).map
      ∧ K2 (flushed env isNil base tag A (base ++ Y)).map (applyCur gcur decls)
      ∧ ScopeEq scope' (flushed env isNil base tag A (base ++ Y)).map
      ∧ (∀ g' : GState, g'.cur = applyCur gcur decls → gQName env.saxXmlNs g' tag = .ok w) := by
  -- the attributes that are written
  generalize hA'def : (if !isNil then dpop A (some env.xsiNil.1, env.xsiNil.2) else A) = A'
  have hA' : AttrsOK d A' := by
    rw [← hA'def]; split
    · exact hA.dpop _
    · exact hA
  -- namespaces of the attributes
  have hnsA : ∀ e ∈ A', nsPartOK e.1.1 = true := by
    intro e he
    have := hA'.names e he
    simp only [attrNameOK, Bool.and_eq_true] at this
    cases h1 : e.1.1 with
    | none => rfl
    | some u => rw [h1] at this; exact this.2
  obtain ⟨eA, okA, pA⟩ := addAttrNamespaces_ok env henv d A' (base ++ Y) hM hnsA
  obtain ⟨X, hX, hXk⟩ := eA
  have hMa : addAttrNamespaces env A' (base ++ Y) = base ++ (Y ++ X) := by rw [hX]; simp
  rw [hMa] at okA pA
  obtain ⟨okF, hdecl, hnodup, hscope, hK2⟩ := flush_inv env d base (Y ++ X) tag (parentScope st) gcur okA hS hK (YOK_append base Y X hYok hXk)
  have hfl : flushed env isNil base tag A (base ++ Y)
      = ⟨(newPrefixes base (resetDefaultNamespace tag (base ++ (Y ++ X)))).map (fun d => Call.startPrefix d.1 d.2)
          ++ [Call.startElem tag A'], resetDefaultNamespace tag (base ++ (Y ++ X)),
         (newPrefixes base (resetDefaultNamespace tag (base ++ (Y ++ X)))).map (·.1)⟩ := by
    unfold flushed
    simp only [hA'def, hMa]
  rw [hfl]
  simp only []
  generalize hMf : resetDefaultNamespace tag (base ++ (Y ++ X)) = Mf at *
  generalize hdl : newPrefixes base Mf = decls at *
  have hg1 : gRun env.saxXmlNs ⟨gctxs, gcur, [], gpend⟩ (decls.map (fun d => Call.startPrefix d.1 d.2))
      = .ok ([], ⟨pushCtxs gcur gctxs decls, applyCur gcur decls, decls, gpend⟩) := by
    simpa using gRun_startPrefixes env.saxXmlNs decls gctxs gcur [] gpend
  -- the element name
  have hext : Ext (base ++ Y) (base ++ (Y ++ X)) := ⟨X, by simp, hXk⟩
  have htag' := htag.ext hext
  have hname : ∃ w, (∀ g' : GState, g'.cur = applyCur gcur decls → gQName env.saxXmlNs g' tag = .ok w)
      ∧ resolveElem (applyDecls (parentScope st) decls) w = some tag := by
    obtain ⟨uo, l⟩ := tag
    cases uo with
    | none =>
      have hd0 := reset_unqualified_none (none, l) (base ++ (Y ++ X)) rfl
      rw [hMf] at hd0
      have hd1 : dget (applyDecls (parentScope st) decls) none = none ∨ dget (applyDecls (parentScope st) decls) none = some [] := by
        rw [hscope none]; exact hd0
      exact ⟨l, fun g' _ => rfl, (resolve_unqualified_elem env _ ⟨[], [], [], none⟩ l htag'.loc hd1).2⟩
    | some u =>
      have hun := uriOK_ne_nil u htag'.ns
      have hMfeq : Mf = base ++ (Y ++ X) := by rw [← hMf]; exact reset_qualified (some u, l) _ u rfl hun
      have hpe : prefixExists u Mf = true := by rw [hMfeq]; exact htag'.bound u rfl
      obtain ⟨w, hw, hres, _, _⟩ := resolve_qualified env henv d Mf (applyDecls (parentScope st) decls)
        ⟨[], applyCur gcur decls, [], none⟩ okF hscope hK2 u l htag'.loc htag'.ns hpe
      refine ⟨w, ?_, hres⟩
      intro g' hg'
      have : gQName env.saxXmlNs g' (some u, l) = gQName env.saxXmlNs ⟨[], applyCur gcur decls, [], none⟩ (some u, l) := by
        unfold gQName; simp only [hg']
      rw [this]; exact hw
  obtain ⟨w, hwq, hwres⟩ := hname
  -- the attributes
  have hpA' : ∀ e ∈ A', ∀ u, e.1.1 = some u → prefixedExists u Mf = true := by
    intro e he u heu
    rw [← hMf]
    exact prefixedExists_reset tag _ u (pA e he u heu) okA.nodup
  obtain ⟨ws, vs, hga, hsv, hra⟩ := resolve_attrs env henv d Mf (applyDecls (parentScope st) decls)
    ⟨pushCtxs gcur gctxs decls, applyCur gcur decls, decls, gpend⟩ okF hscope hK2 A' hA'.names hA'.vals hpA'
  have hvsnd : nodupKeys vs = true :=
    nodupKeys_of_NoDupKeys vs (NoDupKeys_of_keys_eq vs A' (someVals_keys A' vs hsv) hA'.nodup)
  refine ⟨w, ws, vs, applyDecls (parentScope st) decls, decls, rfl, rfl, ?_, ?_, ?_, okF, hK2, hscope, hwq⟩
  · -- generator
    have hstep : gRun env.saxXmlNs ⟨pushCtxs gcur gctxs decls, applyCur gcur decls, decls, gpend⟩ [Call.startElem tag A']
        = .ok ([Tok.open_ w decls ws], ⟨pushCtxs gcur gctxs decls, applyCur gcur decls, [], some w⟩) := by
      simp only [gRun, gStep]
      rw [hwq _ rfl, hga]
      simp
    have := gRun_ok_append _ _ _ _ _ _ _ _ hg1 hstep
    simpa using this
  · -- parser
    have hc1 : (st.isEmpty && root.isSome) = false := by
      cases st with
      | nil => simp [hroot rfl]
      | cons _ _ => rfl
    cases st with
    | nil =>
      simp only [parentScope] at hwres hra
      simp only [pStep, hc1, hdecl, hnodup, hwres, hra, hvsnd]
      simp [parentScope]
    | cons f0 r0 =>
      simp only [parentScope] at hwres hra
      simp only [pStep, hc1, hdecl, hnodup, hwres, hra, hvsnd]
      simp [parentScope]
  · -- reading the calls directly
    rw [sRun_append, sRun_startPrefixes]
    have hc2 : (sst.isEmpty && sroot.isSome) = false := by
      cases sst with
      | nil => simp [hsroot rfl]
      | cons _ _ => rfl
    simp [sRun, sStep, hsv, hc2]

end Proofs.Generator

namespace Proofs.Generator
open Py Xs.Ns Xs.Sax Xs.Writer Spec.XmlNs Spec.EventTree Proofs.MapInv Proofs.Flush Proofs.Resolve Proofs.TreeWriter Spec.Hyps Proofs.Attrs

def attachP (node : Node) : List Frame → Option Node → PState
  | [], _ => ⟨[], some node, false⟩
  | g :: r, root => ⟨{ g with kidsRev := node :: g.kidsRev } :: r, root, false⟩

def attachS (node : Node) : List SFrame → Option Node → List SFrame × Option Node
  | [], _ => ([], some node)
  | g :: r, sroot => ({ g with kidsRev := node :: g.kidsRev } :: r, sroot)

/-- end tag and the end of the prefix mappings -/
theorem close_elem (x : Str) (tag : EName) (w : Str) (decls : List (Pfx × Str))
    (gctxs : List (List (Str × Pfx))) (gcur : List (Str × Pfx)) (pend2 : Option Str)
    (hp : pend2 = some w ∨ pend2 = none)
    (hq : ∀ g' : GState, g'.cur = applyCur gcur decls → gQName x g' tag = .ok w)
    (vs : List (EName × Str)) (K : List Node) (sc : List (Pfx × Str)) (st : List Frame) (root : Option Node)
    (lc : Bool) (sst : List SFrame) (sroot : Option Node) :
    gRun x ⟨pushCtxs gcur gctxs decls, applyCur gcur decls, [], pend2⟩
        (Call.endElem tag :: (decls.map (·.1)).map Call.endPrefix)
      = .ok ([Tok.close w], ⟨gctxs, gcur, [], none⟩)
    ∧ pStep ⟨⟨w, tag, vs, K, sc⟩ :: st, root, lc⟩ (Tok.close w) = some (attachP (.elem tag vs K.reverse) st root)
    ∧ sRun (⟨tag, vs, K⟩ :: sst, sroot) (Call.endElem tag :: (decls.map (·.1)).map Call.endPrefix)
        = some (attachS (.elem tag vs K.reverse) sst sroot) := by
  refine ⟨?_, ?_, ?_⟩
  · have hrest := gRun_endPrefixes_restore x decls gctxs gcur [] none
    rcases hp with h | h
    · subst h
      simp only [gRun, gStep]
      rw [hrest]
      rfl
    · subst h
      simp only [gRun, gStep]
      rw [hq _ rfl]
      simp only []
      rw [hrest]
      rfl
  · cases st with
    | nil => simp [pStep, attachP, closeFrame]
    | cons g r => simp [pStep, attachP, closeFrame]
  · cases sst with
    | nil =>
      simp only [sRun, sStep, attachS, bne_self_eq_false, Bool.false_eq_true, if_false]
      exact sRun_endPrefixes _ _
    | cons g r =>
      simp only [sRun, sStep, attachS, bne_self_eq_false, Bool.false_eq_true, if_false]
      exact sRun_endPrefixes _ _

end Proofs.Generator

namespace Proofs.Generator
open Py Xs.Ns Xs.Sax Xs.Writer Spec.XmlNs Spec.EventTree Proofs.MapInv Proofs.Flush Proofs.Resolve Proofs.TreeWriter Spec.Hyps Proofs.Attrs

theorem pStep_text (f : Frame) (st : List Frame) (root : Option Node) (x : Str)
    (hx : xmlChars x = true) (hne : x.isEmpty = false) :
    pStep ⟨f :: st, root, false⟩ (Tok.text x)
      = some ⟨{ f with kidsRev := addText x f.kidsRev } :: st, root, false⟩ := by
  simp [pStep, hx, hne]

/-- L2 for the content of a flushed element -/
def L2c (env : NsEnv) (d : Option Str) (c : Content) : Prop :=
  (∀ M it cs, calls env (.content M it) c = some cs → contentOK env d c = true →
    ∀ (gctxs : List (List (Str × Pfx))) (gcur : List (Str × Pfx)) (gpend : Option Str)
      (f : Frame) (st : List Frame) (root : Option Node) (sf : SFrame) (sst : List SFrame) (sroot : Option Node),
     MapOK env d M → K2 M gcur → ScopeEq f.scope M → sf.kidsRev = f.kidsRev →
     ∃ toks pend' K,
       gRun env.saxXmlNs ⟨gctxs, gcur, [], gpend⟩ cs = .ok (toks, ⟨gctxs, gcur, [], pend'⟩) ∧
       (toks = [] → pend' = gpend) ∧ (toks ≠ [] → pend' = none) ∧
       pRun ⟨f :: st, root, false⟩ toks = some ⟨{ f with kidsRev := K } :: st, root, false⟩ ∧
       sRun (sf :: sst, sroot) cs = some ({ sf with kidsRev := K } :: sst, sroot))

/-- L2 for an element that is still pending -/
def L2b (env : NsEnv) (d : Option Str) (c : Content) : Prop :=
  (∀ base tag A M2 cs, calls env (.body base tag A M2) c = some cs → contentOK env d c = true →
    ∀ (gctxs : List (List (Str × Pfx))) (gcur : List (Str × Pfx)) (gpend : Option Str)
      (st : List Frame) (root : Option Node) (sst : List SFrame) (sroot : Option Node) (Y : NsMap),
     M2 = base ++ Y → YOK base Y → MapOK env d M2 → K2 base gcur → ScopeEq (parentScope st) base → AttrsOK d A → TagOK tag M2 →
     (st = [] → root = none) → (sst = [] → sroot = none) →
     ∃ toks node,
       gRun env.saxXmlNs ⟨gctxs, gcur, [], gpend⟩ cs = .ok (toks, ⟨gctxs, gcur, [], none⟩) ∧ toks ≠ [] ∧
       pRun ⟨st, root, false⟩ toks = some (attachP node st root) ∧
       sRun (sst, sroot) cs = some (attachS node sst sroot))

theorem pRun_two (p p1 p2 : PState) (t1 t2 : Tok) (h1 : pStep p t1 = some p1) (h2 : pStep p1 t2 = some p2) :
    pRun p [t1, t2] = some p2 := by
  simp [pRun, h1, h2]

theorem pRun_cons_ok (p p1 : PState) (t : Tok) (r : List Tok) (h : pStep p t = some p1) :
    pRun p (t :: r) = pRun p1 r := by
  simp [pRun, h]

theorem pRun_snoc (p p1 p2 : PState) (ts : List Tok) (t : Tok) (h1 : pRun p ts = some p1) (h2 : pStep p1 t = some p2) :
    pRun p (ts ++ [t]) = some p2 := by
  rw [pRun_append, h1]; simp [pRun, h2]

theorem sRun_ok_append (a b : List Call) (s s1 s2 : List SFrame × Option Node)
    (h1 : sRun s a = some s1) (h2 : sRun s1 b = some s2) : sRun s (a ++ b) = some s2 := by
  rw [sRun_append, h1]; exact h2

/-- the element of which START, ATTRs and the flush have been decided: `nil` content -/
theorem l2_body_nil (env : NsEnv) (henv : EnvOK env) (d : Option Str) : L2b env d .nil := by
  intro base tag A M2 cs h _ gctxs gcur gpend st root sst sroot Y hY hYok hM hK hS hA htag hroot hsroot
  subst hY
  simp only [calls, Option.some.injEq] at h
  subst h
  obtain ⟨w, ws, vs, scope', decls, _, hpre, hg, hp, hs, _, _, _, hq⟩ :=
    open_elem env henv d true base Y tag A gctxs gcur gpend st root sst sroot hM hK hS hA htag hYok hroot hsroot
  obtain ⟨cg, cp, cs'⟩ := close_elem env.saxXmlNs tag w decls gctxs gcur (some w) (Or.inl rfl) hq vs [] scope' st root false sst sroot
  refine ⟨[Tok.open_ w decls ws] ++ [Tok.close w], .elem tag vs [], ?_, by simp, ?_, ?_⟩
  · refine gRun_ok_append _ _ _ _ _ _ _ _ hg ?_
    simp only [closing, hpre]
    exact cg
  · exact pRun_two _ _ _ _ _ hp (by simpa using cp)
  · refine sRun_ok_append _ _ _ _ _ hs ?_
    simp only [closing, hpre]
    simpa using cs'

end Proofs.Generator

namespace Proofs.Generator
open Py Xs.Ns Xs.Sax Xs.Writer Spec.XmlNs Spec.EventTree Proofs.MapInv Proofs.Flush Proofs.Resolve Proofs.TreeWriter Spec.Hyps Proofs.Attrs

theorem l2_content_nil (env : NsEnv) (d : Option Str) : L2c env d .nil := by
  intro M it cs h _ gctxs gcur gpend f st root sf sst sroot _ _ _ hk
  simp only [calls, Option.some.injEq] at h
  subst h
  refine ⟨[], gpend, f.kidsRev, rfl, fun _ => rfl, fun h => absurd rfl h, rfl, ?_⟩
  rw [← hk]; rfl

/-- one DATA event in flushed content -/
theorem l2_content_data (env : NsEnv) (henv : EnvOK env) (d : Option Str) (v : Val) (k : Content)
    (ih : L2c env d k) : L2c env d (.data v k) := by
  intro M it cs h hok gctxs gcur gpend f st root sf sst sroot hM hK hS hk
  simp only [contentOK, Bool.and_eq_true] at hok
  obtain ⟨hv, hokk⟩ := hok
  simp only [calls] at h
  split at h
  · cases h
  · rename_i val M' he
    split at h
    · cases h
    · rename_i hMM
      have hM' : M' = M := by simpa using hMM
      subst hM'
      -- facts about the encoded value
      obtain ⟨val2, M2, he2, _, _, hxml⟩ := encodeData_ok env henv d v M' hM (dataValOK_valOK v hv)
      rw [he] at he2
      simp only [Except.ok.injEq, Prod.mk.injEq] at he2
      obtain ⟨hv2, _⟩ := he2
      subst hv2
      have skip : ∀ cs', calls env (.content M' true) k = some cs' → ∃ toks pend' K,
          gRun env.saxXmlNs ⟨gctxs, gcur, [], gpend⟩ cs' = .ok (toks, ⟨gctxs, gcur, [], pend'⟩) ∧
          (toks = [] → pend' = gpend) ∧ (toks ≠ [] → pend' = none) ∧
          pRun ⟨f :: st, root, false⟩ toks = some ⟨{ f with kidsRev := K } :: st, root, false⟩ ∧
          sRun (sf :: sst, sroot) cs' = some ({ sf with kidsRev := K } :: sst, sroot) :=
        fun cs' hcs' => ih M' true cs' hcs' hokk gctxs gcur gpend f st root sf sst sroot hM hK hS hk
      cases val with
      | none => exact skip cs h
      | some x =>
        simp only [] at h
        by_cases hx : x.isEmpty = true
        · simp only [hx, if_true] at h
          exact skip cs h
        · have hxe : x.isEmpty = false := by simpa using hx
          simp only [hxe, Bool.false_eq_true, if_false, Option.map_eq_some_iff] at h
          obtain ⟨r, hr, rfl⟩ := h
          have hxx := hxml x rfl
          obtain ⟨toks, pend', K, hg, _, h2, hp, hs⟩ :=
            ih M' true r hr hokk gctxs gcur none { f with kidsRev := addText x f.kidsRev } st root
              { sf with kidsRev := addText x sf.kidsRev } sst sroot hM hK hS (by simp [hk])
          have hpend : pend' = none := by
            by_cases ht : toks = []
            · subst ht; simp_all
            · exact h2 ht
          subst hpend
          refine ⟨Tok.text x :: toks, none, K, ?_, by simp, fun _ => rfl, ?_, ?_⟩
          · simp only [gRun, gStep, hxe, Bool.false_eq_true, if_false]
            rw [hg]
            rfl
          · rw [pRun_cons_ok _ _ _ _ (pStep_text f st root x hxx hxe)]
            exact hp
          · simp only [sRun, sStep]
            exact hs

end Proofs.Generator

namespace Proofs.Generator
open Py Xs.Ns Xs.Sax Xs.Writer Spec.XmlNs Spec.EventTree Proofs.MapInv Proofs.Flush Proofs.Resolve Proofs.TreeWriter Spec.Hyps Proofs.Attrs

/-- open the element, run its (already flushed) content, close it -/
theorem elem_wrap (env : NsEnv) (henv : EnvOK env) (d : Option Str) (isNil : Bool) (base Y : NsMap)
    (tag : EName) (A : Attrs) (gctxs : List (List (Str × Pfx))) (gcur : List (Str × Pfx)) (gpend : Option Str)
    (st : List Frame) (root : Option Node) (sst : List SFrame) (sroot : Option Node)
    (hM : MapOK env d (base ++ Y)) (hK : K2 base gcur) (hS : ScopeEq (parentScope st) base)
    (hA : AttrsOK d A) (htag : TagOK tag (base ++ Y)) (hYok : YOK base Y)
    (hroot : st = [] → root = none) (hsroot : sst = [] → sroot = none)
    (pre : List Call) (inner : List Call)
    -- `pre` is what is written between the start tag and the content proper (at most one text chunk)
    (hpre : pre = [] ∨ ∃ x, pre = [Call.chars x] ∧ xmlChars x = true ∧ x.isEmpty = false)
    (hinner : ∀ (gctxs' : List (List (Str × Pfx))) (gcur' : List (Str × Pfx)) (gpend' : Option Str)
        (f : Frame) (sf : SFrame),
        MapOK env d (flushed env isNil base tag A (base ++ Y)).map →
        K2 (flushed env isNil base tag A (base ++ Y)).map gcur' →
        ScopeEq f.scope (flushed env isNil base tag A (base ++ Y)).map → sf.kidsRev = f.kidsRev →
        ∃ toks pend' K,
          gRun env.saxXmlNs ⟨gctxs', gcur', [], gpend'⟩ inner = .ok (toks, ⟨gctxs', gcur', [], pend'⟩) ∧
          (toks = [] → pend' = gpend') ∧ (toks ≠ [] → pend' = none) ∧
          pRun ⟨f :: st, root, false⟩ toks = some ⟨{ f with kidsRev := K } :: st, root, false⟩ ∧
          sRun (sf :: sst, sroot) inner = some ({ sf with kidsRev := K } :: sst, sroot)) :
    ∃ toks node,
      gRun env.saxXmlNs ⟨gctxs, gcur, [], gpend⟩
          ((flushed env isNil base tag A (base ++ Y)).calls ++ (pre ++ (inner ++ closing tag (flushed env isNil base tag A (base ++ Y)))))
        = .ok (toks, ⟨gctxs, gcur, [], none⟩) ∧ toks ≠ [] ∧
      pRun ⟨st, root, false⟩ toks = some (attachP node st root) ∧
      sRun (sst, sroot) ((flushed env isNil base tag A (base ++ Y)).calls ++ (pre ++ (inner ++ closing tag (flushed env isNil base tag A (base ++ Y)))))
        = some (attachS node sst sroot) := by
  obtain ⟨w, ws, vs, scope', decls, _, hpfx, hg, hp, hs, okF, hK2, hsc, hq⟩ :=
    open_elem env henv d isNil base Y tag A gctxs gcur gpend st root sst sroot hM hK hS hA htag hYok hroot hsroot
  -- after the optional text chunk
  have hmid : ∃ (tpre : List Tok) (pend1 : Option Str) (K1 : List Node),
      (pend1 = some w ∨ pend1 = none) ∧
      gRun env.saxXmlNs ⟨pushCtxs gcur gctxs decls, applyCur gcur decls, [], some w⟩ pre
        = .ok (tpre, ⟨pushCtxs gcur gctxs decls, applyCur gcur decls, [], pend1⟩) ∧
      pRun ⟨⟨w, tag, vs, [], scope'⟩ :: st, root, false⟩ tpre = some ⟨⟨w, tag, vs, K1, scope'⟩ :: st, root, false⟩ ∧
      sRun (⟨tag, vs, []⟩ :: sst, sroot) pre = some (⟨tag, vs, K1⟩ :: sst, sroot) := by
    rcases hpre with h | ⟨x, h, hx, hne⟩
    · subst h
      exact ⟨[], some w, [], Or.inl rfl, rfl, rfl, rfl⟩
    · subst h
      refine ⟨[Tok.text x], none, addText x [], Or.inr rfl, ?_, ?_, ?_⟩
      · simp [gRun, gStep, hne]
      · have := pStep_text ⟨w, tag, vs, [], scope'⟩ st root x hx hne
        simp [pRun, this]
      · simp [sRun, sStep]
  obtain ⟨tpre, pend1, K1, hp1, hg1, hpp1, hs1⟩ := hmid
  obtain ⟨toks, pend2, K, hg2, h2a, h2b, hp2, hs2⟩ :=
    hinner (pushCtxs gcur gctxs decls) (applyCur gcur decls) pend1 ⟨w, tag, vs, K1, scope'⟩ ⟨tag, vs, K1⟩ okF hK2 hsc rfl
  have hpend2 : pend2 = some w ∨ pend2 = none := by
    by_cases ht : toks = []
    · rw [h2a ht]; exact hp1
    · exact Or.inr (h2b ht)
  obtain ⟨cg, cp, cs'⟩ := close_elem env.saxXmlNs tag w decls gctxs gcur pend2 hpend2 hq vs K scope' st root false sst sroot
  refine ⟨[Tok.open_ w decls ws] ++ (tpre ++ (toks ++ [Tok.close w])), .elem tag vs K.reverse, ?_, by simp, ?_, ?_⟩
  · refine gRun_ok_append _ _ _ _ _ _ _ _ hg ?_
    refine gRun_ok_append _ _ _ _ _ _ _ _ hg1 ?_
    refine gRun_ok_append _ _ _ _ _ _ _ _ hg2 ?_
    simp only [closing, hpfx]
    exact cg
  · rw [List.singleton_append, pRun_cons_ok _ _ _ _ hp, pRun_append, hpp1]
    simp only []
    rw [pRun_append, hp2]
    simp only []
    simp only [pRun]
    rw [show pStep ⟨{ (⟨w, tag, vs, K1, scope'⟩ : Frame) with kidsRev := K } :: st, root, false⟩ (Tok.close w)
        = some (attachP (.elem tag vs K.reverse) st root) from cp]
  · refine sRun_ok_append _ _ _ _ _ hs ?_
    refine sRun_ok_append _ _ _ _ _ hs1 ?_
    refine sRun_ok_append _ _ _ _ _ hs2 ?_
    simp only [closing, hpfx]
    exact cs'

end Proofs.Generator

namespace Proofs.Generator
open Py Xs.Ns Xs.Sax Xs.Writer Spec.XmlNs Spec.EventTree Proofs.MapInv Proofs.Flush Proofs.Resolve Proofs.TreeWriter Spec.Hyps Proofs.Attrs

theorem ext_base (base Y M3 : NsMap) (h : Ext (base ++ Y) M3) (hY : YOK base Y) :
    ∃ Y', M3 = base ++ Y' ∧ YOK base Y' := by
  obtain ⟨X, hX, hXk⟩ := h
  exact ⟨Y ++ X, by rw [hX]; simp, YOK_append base Y X hY hXk⟩

theorem l2_body_data (env : NsEnv) (henv : EnvOK env) (d : Option Str) (v : Val) (k : Content)
    (ih : L2c env d k) : L2b env d (.data v k) := by
  intro base tag A M2 cs h hok gctxs gcur gpend st root sst sroot Y hY hYok hM hK hS hA htag hroot hsroot
  subst hY
  simp only [contentOK, Bool.and_eq_true] at hok
  obtain ⟨hv, hokk⟩ := hok
  simp only [calls] at h
  split at h
  · cases h
  · rename_i val M3 he
    simp only [Option.map_eq_some_iff] at h
    obtain ⟨r, hr, rfl⟩ := h
    obtain ⟨val2, M3', he2, hext, hM3, hxml⟩ := encodeData_ok env henv d v (base ++ Y) hM (dataValOK_valOK v hv)
    rw [he] at he2
    simp only [Except.ok.injEq, Prod.mk.injEq] at he2
    obtain ⟨hv2, hm2⟩ := he2
    subst hv2; subst hm2
    obtain ⟨Y', hY', hYok'⟩ := ext_base base Y M3 hext hYok
    subst hY'
    have hpre : charsCalls val = [] ∨ ∃ x, charsCalls val = [Call.chars x] ∧ xmlChars x = true ∧ x.isEmpty = false := by
      cases val with
      | none => exact Or.inl rfl
      | some x =>
        by_cases hx : x.isEmpty = true
        · exact Or.inl (by simp [charsCalls, hx])
        · have hxe : x.isEmpty = false := by simpa using hx
          exact Or.inr ⟨x, by simp [charsCalls, hxe], hxml x rfl, hxe⟩
    exact elem_wrap env henv d val.isNone base Y' tag A gctxs gcur gpend st root sst sroot hM3 hK hS hA
      (htag.ext hext) hYok' hroot hsroot (charsCalls val) r hpre
      (fun gctxs' gcur' gpend' f sf hMf hKf hSf hkf =>
        ih _ true r hr hokk gctxs' gcur' gpend' f st root sf sst sroot hMf hKf hSf hkf)

/-- START + ATTRs of a child of a flushed element: the pending state the body lemma needs -/
theorem child_start (env : NsEnv) (henv : EnvOK env) (d : Option Str) (M : NsMap) (q : Str)
    (attrs : List (Str × Val)) (tag : EName) (M2 : NsMap) (A : Attrs)
    (hM : MapOK env d M) (hq : splitQName q = .ok tag)
    (ha : attrsRun env attrs (addNamespace env tag.1 M) [] = some (M2, A))
    (hname : elemNameOK q = true) (hattrs : attrs.all (attrOK env d) = true) :
    (∃ Y, M2 = M ++ Y ∧ ∀ e ∈ Y, e.1 ≠ none) ∧ MapOK env d M2 ∧ AttrsOK d A ∧ TagOK tag M2 := by
  unfold elemNameOK at hname
  cases hc : clark q with
  | none => rw [hc] at hname; cases hname
  | some n =>
    rw [hc] at hname
    simp only [] at hname
    have hs := clark_splitQName q n hc
    rw [hq] at hs
    cases hs
    have hloc : isNCName tag.2 = true := by
      obtain ⟨uo, l⟩ := tag
      cases uo with
      | none => exact clark_none_ns q l hc
      | some u => exact (clark_some_ns q u l hc).2
    obtain ⟨e1, ok1, p1⟩ := addNamespace_ok env henv d tag.1 M hM hname
    obtain ⟨M2', A', h2, e2, ok2, a2⟩ := attrsRun_ok env henv d attrs _ [] ok1 (AttrsOK.nil d) hattrs
    rw [ha] at h2
    cases h2
    obtain ⟨X, hX, hXk⟩ := e1.trans e2
    exact ⟨⟨X, hX, hXk⟩, ok2, a2, ⟨hloc, hname, fun u hu => prefixExists_ext u _ _ e2 (p1 u hu)⟩⟩

theorem l2_content_child (env : NsEnv) (henv : EnvOK env) (d : Option Str) (q0 : Str) (attrs : List (Str × Val))
    (kids rest0 : Content) (ihk : L2b env d kids) (ihr : L2c env d rest0) :
    L2c env d (.child q0 attrs kids rest0) := by
  intro M it cs h hok gctxs gcur gpend f st root sf sst sroot hM hK hS hk
  simp only [contentOK, Bool.and_eq_true] at hok
  obtain ⟨⟨⟨hname, hattrs⟩, hokk⟩, hokr⟩ := hok
  simp only [calls] at h
  split at h
  · cases h
  · rename_i tag hq
    split at h
    · cases h
    · rename_i M2 A ha
      split at h
      · rename_i b r hb hr
        cases h
        obtain ⟨⟨Y, hY, hYk⟩, hM2, hA, htag⟩ := child_start env henv d M q0 attrs tag M2 A hM hq ha hname hattrs
        obtain ⟨toks1, node, hg1, hne1, hp1, hs1⟩ :=
          ihk M tag A M2 b hb hokk gctxs gcur gpend (f :: st) root (sf :: sst) sroot Y hY (YOK_of_prefixed M Y hYk) hM2 hK hS hA htag
            (by simp) (by simp)
        obtain ⟨toks2, pend2, K, hg2, h2a, h2b, hp2, hs2⟩ :=
          ihr M false r hr hokr gctxs gcur none { f with kidsRev := node :: f.kidsRev } st root
            { sf with kidsRev := node :: sf.kidsRev } sst sroot hM hK hS (by simp [hk])
        have hpend : pend2 = none := by
          by_cases ht : toks2 = []
          · exact h2a ht
          · exact h2b ht
        subst hpend
        refine ⟨toks1 ++ toks2, none, K, gRun_ok_append _ _ _ _ _ _ _ _ hg1 hg2, ?_, fun _ => rfl, ?_, ?_⟩
        · intro he
          have : toks1 = [] := (List.append_eq_nil_iff.mp he).1
          exact absurd this hne1
        · rw [pRun_append, hp1]
          simp only [attachP]
          exact hp2
        · refine sRun_ok_append _ _ _ _ _ hs1 ?_
          simp only [attachS]
          exact hs2
      · cases h

theorem l2_body_child (env : NsEnv) (henv : EnvOK env) (d : Option Str) (q0 : Str) (attrs : List (Str × Val))
    (kids rest0 : Content) (hcontent : L2c env d (.child q0 attrs kids rest0)) :
    L2b env d (.child q0 attrs kids rest0) := by
  intro base tag A M2 cs h hok gctxs gcur gpend st root sst sroot Y hY hYok hM hK hS hA htag hroot hsroot
  subst hY
  have hc : ∃ inner, calls env (.content (flushed env false base tag A (base ++ Y)).map false) (.child q0 attrs kids rest0) = some inner
      ∧ cs = (flushed env false base tag A (base ++ Y)).calls ++ (inner ++ closing tag (flushed env false base tag A (base ++ Y))) := by
    simp only [calls] at h ⊢
    split at h
    · cases h
    · rename_i tag' hq'
      split at h
      · cases h
      · rename_i M2' A' ha
        split at h
        · rename_i b r hb hr
          cases h
          exact ⟨b ++ r, by simp, rfl⟩
        · cases h
  obtain ⟨inner, hinner, rfl⟩ := hc
  have := elem_wrap env henv d false base Y tag A gctxs gcur gpend st root sst sroot hM hK hS hA htag hYok hroot hsroot
    [] inner (Or.inl rfl)
    (fun gctxs' gcur' gpend' f sf hMf hKf hSf hkf =>
      hcontent _ false inner hinner hok gctxs' gcur' gpend' f st root sf sst sroot hMf hKf hSf hkf)
  simpa using this

/-- L2 for every forest -/
theorem l2_all (env : NsEnv) (henv : EnvOK env) (d : Option Str) (c : Content) : L2c env d c ∧ L2b env d c := by
  induction c with
  | nil => exact ⟨l2_content_nil env d, l2_body_nil env henv d⟩
  | data v k ih => exact ⟨l2_content_data env henv d v k ih.1, l2_body_data env henv d v k ih.1⟩
  | child q attrs kids rest ihk ihr =>
    have hc := l2_content_child env henv d q attrs kids rest ihk.2 ihr.1
    exact ⟨hc, l2_body_child env henv d q attrs kids rest hc⟩

end Proofs.Generator
