/-
L2 — xsdata/utils/namespaces.py (load_prefix, generate_prefix, prefix_exists,
clean_prefixes, split_qname, build_qname), xsdata/utils/text.py `split`,
`Namespace.get_enum`, `DataType.from_qname`, and the value encoding the writer
relies on (`EventHandler.encode_data` → `converter.serialize` →
`QNameConverter.serialize`).

`generate_prefix` (since a086d5b) never rebinds a prefix that is already a key.
-/
import XsdataModel.Xml.Dict

namespace Xs.Ns
open Py

/-- key of a prefix-URI map: `None` is the default namespace -/
abbrev Pfx := Option Str

/-- `ns_map: dict[str | None, str]` -/
abbrev NsMap := List (Pfx × Str)

/-- Python exceptions that can leave the modelled code -/
inductive Err
  | indexError
  | keyError
  | attributeError
  | xmlWriterError
  deriving DecidableEq, Repr

def Err.name : Err → String
  | .indexError => "IndexError"
  | .keyError => "KeyError"
  | .attributeError => "AttributeError"
  | .xmlWriterError => "XmlWriterError"

/-- the constant tables of the code, regenerated from the live objects -/
structure NsEnv where
  /-- `__STANDARD_NAMESPACES__` : uri ↦ `Namespace.prefix` -/
  enum : List (Str × Str)
  /-- keys of `__DataTypeQNameIndex__` -/
  dataTypeQNames : List Str
  /-- `QNames.XSI_TYPE` -/
  xsiType : Str
  /-- `mixins.XSI_NIL` -/
  xsiNil : Str × Str
  /-- `QNames.XSI_SCHEMA_LOCATION`, `QNames.XSI_NO_NAMESPACE_SCHEMA_LOCATION` -/
  xsiSchemaLocation : Str
  xsiNoNsSchemaLocation : Str
  /-- the XML namespace literal in `XMLGenerator._qname` -/
  saxXmlNs : Str
  /-- `Namespace.XML.uri`, `Namespace.XML.prefix` -/
  xmlUri : Str
  xmlPrefix : Str
  /-- `namespaces.is_ncname` (Python `str.isalpha` / `isdigit` classes) -/
  isNcnamePy : Str → Bool

/-- `is_ncname` as far as the model knows Python's character classes: exact on ASCII, every
non-ASCII character counted as a letter (the generators keep prefixes inside this approximation) -/
def ncnamePyApprox : Str → Bool
  | [] => false
  | c :: cs =>
    let alpha (x : Char) : Bool := (65 ≤ x.toNat && x.toNat ≤ 90) || (97 ≤ x.toNat && x.toNat ≤ 122) || 128 ≤ x.toNat
    (alpha c || c == '_') &&
    cs.all (fun d => alpha d || isAsciiDigit d || d == '.' || d == '-' || d == '_')

/-- `Namespace.get_enum(uri)` (only the prefix is used) -/
def getEnum (env : NsEnv) (uri : Str) : Option Str :=
  if uri.isEmpty then none else dget env.enum uri

def nsLit : Str := ['n', 's']

/-- the body of `while prefix is None or prefix in ns_map: prefix = f"ns{number}"; number += 1`
once `prefix` has to be generated.  `fuel` bounds the iterations; `m.length + 1`
candidates always contain a free one (`Proofs.MapInv.genLoop_fresh`), so the
fuel-exhausted branch is never taken. -/
def genLoop (m : NsMap) : Nat → Nat → Str
  | 0, number => nsLit ++ natStr number
  | fuel + 1, number =>
    if dhas m (some (nsLit ++ natStr number)) then genLoop m fuel (number + 1)
    else nsLit ++ natStr number

/-- `generate_prefix(uri, ns_map)` → (prefix, mutated map): the standard prefix of
the namespace if there is one and it is not a key yet, else the first `ns<k>`,
`k = len(ns_map), len(ns_map)+1, …`, that is not a key -/
def generatePrefix (env : NsEnv) (uri : Str) (m : NsMap) : Str × NsMap :=
  let p := match getEnum env uri with
    | some p => if dhas m (some p) then genLoop m (m.length + 1) m.length else p
    | none => genLoop m (m.length + 1) m.length
  (p, dset m (some p) uri)

/-- the `for prefix, ns in ns_map.items(): if ns == uri: return prefix` loop -/
def findPrefix (uri : Str) : NsMap → Option Pfx
  | [] => none
  | (p, ns) :: r => if ns = uri then some p else findPrefix uri r

/-- `load_prefix(uri, ns_map)` → (prefix or None, mutated map) -/
def loadPrefix (env : NsEnv) (uri : Str) (m : NsMap) : Pfx × NsMap :=
  match findPrefix uri m with
  | some p => (p, m)
  | none => let (p, m') := generatePrefix env uri m; (some p, m')

/-- `prefix_exists(uri, ns_map)` -/
def prefixExists (uri : Str) (m : NsMap) : Bool := m.any (fun e => e.2 = uri)

/-- `prefix or None` -/
def normPfx : Pfx → Pfx
  | some [] => none
  | other => other

/-- the first loop of `clean_prefixes` -/
def cleanLoop : List (Pfx × Str) → NsMap → NsMap
  | [], acc => acc
  | (p, ns) :: r, acc =>
    if ns.isEmpty then cleanLoop r acc
    else
      let p' : Pfx := normPfx p
      if dhas acc p' then cleanLoop r acc else cleanLoop r (dset acc p' ns)

/-- `clean_prefixes(ns_map)`; the argument lists the user dict's items in
order (keys may be `None`, `""` or a string) -/
def cleanPrefixes (raw : List (Pfx × Str)) : NsMap :=
  let result := cleanLoop raw []
  match dget result none with
  | some d =>
    if !d.isEmpty && result.any (fun e => e.1.isSome && e.1 != some [] && e.2 = d)
    then dpop result none else result
  | none => result

/-- `XmlSerializer.write`: `clean_prefixes(ns_map) if ns_map else {}` -/
def serializerNsMap (raw : List (Pfx × Str)) : NsMap :=
  if raw.isEmpty then [] else cleanPrefixes raw

/-- `text.split(value, sep)` for a one-character separator:
`left, _, right = value.partition(sep); (left, right) if right else (None, left)` -/
def textSplit (value : Str) (sep : Char) : Option Str × Str :=
  let left := value.takeWhile (· ≠ sep)
  let right := (value.dropWhile (· ≠ sep)).drop 1
  if right.isEmpty then (none, left) else (some left, right)

/-- `split_qname(qname)`; `qname[0]` on the empty string is an `IndexError` -/
def splitQName (q : Str) : Except Err (Option Str × Str) :=
  match q with
  | [] => .error .indexError
  | c :: rest =>
    if c = '{' then
      match textSplit rest '}' with
      | (some left, right) => if left.isEmpty then .ok (none, q) else .ok (some left, right)
      | (none, _) => .ok (none, q)
    else .ok (none, q)

/-- `build_qname(tag_or_uri, tag)`; `none` is `ValueError` -/
def buildQName (uri : Option Str) (tag : Option Str) : Option Str :=
  let uriE := match uri with | some u => u | none => []
  let tagE := match tag with | some t => t | none => []
  if uriE.isEmpty then (if tagE.isEmpty then none else some tagE)
  else if tagE.isEmpty then some uriE
  else some ('{' :: uriE ++ '}' :: tagE)

/-- `DataType.from_qname(value) is not None` -/
def isDataTypeQName (env : NsEnv) (s : Str) : Bool := env.dataTypeQNames.contains s

/-! ### values carried by writer events -/

/-- a non-list value of an ATTR/DATA event -/
inductive Atom
  | str (s : Str)
  | qname (text : Str)   -- `xml.etree.ElementTree.QName` with this `.text`
  | int (i : Int)
  | bool (b : Bool)
  deriving DecidableEq, Repr

/-- value of an ATTR/DATA event -/
inductive Val
  | none
  | atom (a : Atom)
  | list (xs : List Atom)
  deriving DecidableEq, Repr

/-- `QNameConverter.serialize(value, ns_map=ns_map)` -/
def serializeQName (env : NsEnv) (text : Str) (m : NsMap) : Except Err (Str × NsMap) :=
  match splitQName text with
  | .error e => .error e
  | .ok (none, tag) => .ok (tag, m)
  | .ok (some ns, tag) =>
    match loadPrefix env ns m with
    | (some p, m') => if p.isEmpty then .ok (tag, m') else .ok (p ++ ':' :: tag, m')
    | (none, m') => .ok (tag, m')

/-- `converter.serialize(atom, ns_map=ns_map)` -/
def serializeAtom (env : NsEnv) (a : Atom) (m : NsMap) : Except Err (Str × NsMap) :=
  match a with
  | .str s => .ok (s, m)
  | .int i => .ok (intStr i, m)
  | .bool b => .ok (if b then ['t', 'r', 'u', 'e'] else ['f', 'a', 'l', 's', 'e'], m)
  | .qname t => serializeQName env t m

/-- the generator expression inside `" ".join(...)`, left to right -/
def serializeAtoms (env : NsEnv) : List Atom → NsMap → Except Err (List Str × NsMap)
  | [], m => .ok ([], m)
  | a :: r, m =>
    match serializeAtom env a m with
    | .error e => .error e
    | .ok (s, m1) =>
      match serializeAtoms env r m1 with
      | .error e => .error e
      | .ok (ss, m2) => .ok (s :: ss, m2)

/-- `EventHandler.encode_data(data)` → (str or None, mutated `self.ns_map`) -/
def encodeData (env : NsEnv) (v : Val) (m : NsMap) : Except Err (Option Str × NsMap) :=
  match v with
  | .none => .ok (none, m)
  | .atom (.str s) => .ok (some s, m)
  | .list [] => .ok (none, m)
  | .atom a =>
    match serializeAtom env a m with
    | .error e => .error e
    | .ok (s, m') => .ok (some s, m')
  | .list xs =>
    match serializeAtoms env xs m with
    | .error e => .error e
    | .ok (ss, m') => .ok (some (joinStr [' '] ss), m')

end Xs.Ns
