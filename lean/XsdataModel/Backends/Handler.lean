/-
C08 — the Python part of the parser back-ends.

`XmlEventHandler.process_context` / `merge_parent_namespaces`
(xsdata/formats/dataclass/parsers/handlers/native.py) rebuild the prefix map
of every element from the `start-ns` events of the tokeniser; the lxml handler
(handlers/lxml.py) passes `element.nsmap`.  For ElementTree sources the native
handler walks the tree (`iterwalk`) and invents prefixes (`load_prefix`).

The tokeniser (expat / libxml2) is external: its output, the event stream, is
the input of this model.  The parser the handler feeds is an environment too:
all the handler ever reads back from it is `queue[-1].ns_map`, so a start token
carries how the node queued for that element keeps the map (`Store`).
-/
import XsdataModel.Bind.Basic

namespace Xs.Backends
open Py Xs.Bind

/-- `d[k] = v` on an insertion-ordered dict -/
def nsSet (m : NsMap) (p : Option Str) (u : Str) : NsMap :=
  match m with
  | [] => [(p, u)]
  | (k, w) :: rest => if k = p then (k, u) :: rest else (k, w) :: nsSet rest p u

/-- `for k, v in src.items(): dst[k] = v` -/
def nsUpdate (dst src : NsMap) : NsMap := src.foldl (fun r kv => nsSet r kv.1 kv.2) dst

/-- how the node the parser queues at a start event keeps the map it is given:
`passed`  – it keeps it (ElementNode, PrimitiveNode, StandardNode, WildcardNode, UnionNode);
`top`     – it has the map of the node that was on top of the queue (WrapperNode: `parent.ns_map`;
            `UnionNode.child` returning itself);
`empty`   – `SkipNode` (`self.ns_map = {}`).
The handler used to read `queue[-1].ns_map` back as the parent's map; it now keeps the maps it
passed on a stack of its own (`ns_maps`), so the plan is no longer read by `pump`.  It stays in the
token so that the correspondence can run the real handler on parsers of every kind. -/
inductive Store | passed | top | empty
deriving DecidableEq, Repr

/-- the events the handler iterates over (`etree.iterparse(source, EVENTS)` / `iterwalk`) -/
inductive Tok
  | startNs (pfx : Str) (uri : Str)          -- raw prefix, `""` for the default namespace
  | start (q : QN) (attrs : List (QN × Str)) (store : Store)
  | «end» (q : QN) (text tail : Option Str)
deriving Repr

/-- the calls the handler makes on the parser -/
inductive PEv
  | registerNs (p : Option Str) (u : Str)
  | start (q : QN) (attrs : List (QN × Str)) (ns : NsMap)
  | «end» (q : QN) (text tail : Option Str)
  | crash                                      -- `queue.pop()` on an empty queue: IndexError
deriving Repr, DecidableEq

/-- `prefix or None` -/
def orNone (p : Str) : Option Str := if p.isEmpty then none else some p

/-- `XmlEventHandler.merge_parent_namespaces(ns_maps[-1], element_ns_map)`; `stack` holds the maps the
handler passed for the open elements, innermost first (the `{}` at the bottom of `ns_maps` is the `[]` case) -/
def mergeParent (stack : List NsMap) (nsMap : NsMap) : NsMap :=
  match stack with
  | parent :: _ => if nsMap.isEmpty then parent else nsUpdate parent nsMap
  | [] => nsUpdate [] nsMap

/-- `XmlEventHandler.process_context`: the loop, with `element_ns_map` as `el` and `ns_maps` as `stack`.
(The END call is pushed to the parser when the next event arrives — see `Backends/Chunks.lean` —
which does not change the sequence of calls.) -/
def pump : List NsMap → NsMap → List Tok → List PEv
  | _, _, [] => []
  | stack, el, .startNs p u :: rest =>
    .registerNs (orNone p) u :: pump stack (nsSet el (orNone p) u) rest
  | stack, el, .start q a _ :: rest =>
    let m := mergeParent stack el
    .start q a m :: pump (m :: stack) [] rest
  | stack, el, .end q t tl :: rest =>
    match stack with
    | [] => [.crash]
    | _ :: qs => .end q t tl :: pump qs el rest

/-- `PushParser.register_namespace` folded over the calls: the recorder map the caller gets back -/
def recorded (evs : List PEv) : NsMap :=
  evs.foldl (fun m ev => match ev with
    | .registerNs p u => if m.any (·.1 = p) then m else m ++ [(p, u)]
    | _ => m) []

/-! ### documents as trees with explicit declarations -/

/-- an element with the namespace declarations written on it (document order), the way the
parser will keep its map, and ElementTree-style text / tail -/
inductive XTree
  | node (decls : List (Str × Str)) (q : QN) (attrs : List (QN × Str)) (store : Store)
      (text : Option Str) (kids : List XTree) (tail : Option Str)
deriving Repr

mutual
/-- the event stream a namespace-aware tokeniser reports for the element (`start-ns`* `start` … `end`) -/
def toks : XTree → List Tok
  | .node d q a st t kids tl =>
    d.map (fun pu => Tok.startNs pu.1 pu.2) ++ (Tok.start q a st :: (toksKids kids ++ [Tok.end q t tl]))
def toksKids : List XTree → List Tok
  | [] => []
  | k :: ks => toks k ++ toksKids ks
end

mutual
def XTree.allPassed : XTree → Bool
  | .node _ _ _ st _ kids _ => st = .passed && XTree.allPassedKids kids
def XTree.allPassedKids : List XTree → Bool
  | [] => true
  | k :: ks => k.allPassed && XTree.allPassedKids ks
end

/-! ### the specification: in-scope namespaces (what `element.nsmap` of lxml is) -/

/-- the binding of prefix `p` under the declaration frames `frames` (innermost element first;
within one element a later declaration of the same prefix wins) -/
def inScope (frames : List (List (Str × Str))) (p : Option Str) : Option Str :=
  frames.findSome? (fun f => (f.reverse.find? (fun d => orNone d.1 = p)).map (·.2))

/-- parser calls with the prefix map seen as a lookup function -/
inductive SEv
  | registerNs (p : Option Str) (u : Str)
  | start (q : QN) (attrs : List (QN × Str)) (scope : Option Str → Option Str)
  | «end» (q : QN) (text tail : Option Str)
  | crash

def PEv.view : PEv → SEv
  | .registerNs p u => .registerNs p u
  | .start q a m => .start q a m.get
  | .end q t tl => .end q t tl
  | .crash => .crash

mutual
/-- what a handler that passes the in-scope namespaces of every element calls -/
def spec (frames : List (List (Str × Str))) : XTree → List SEv
  | .node d q a _ t kids tl =>
    d.map (fun pu => SEv.registerNs (orNone pu.1) pu.2)
      ++ (SEv.start q a (inScope (d :: frames)) :: (specKids (d :: frames) kids ++ [SEv.end q t tl]))
def specKids (frames : List (List (Str × Str))) : List XTree → List SEv
  | [] => []
  | k :: ks => spec frames k ++ specKids frames ks
end

/-! ### ElementTree sources: `iterwalk` + `namespaces.load_prefix` / `generate_prefix` -/

/-- `load_prefix(uri, ns_map)`; `wellKnown` is the `Namespace` enum (uri ↦ prefix).
The walker's map has `str` keys only. -/
def loadPrefix (wellKnown : List (Str × Str)) (uri : Str) (m : NsMap) : Option Str × NsMap :=
  match m.find? (·.2 = uri) with
  | some (p, _) => (p, m)
  | none =>
    let p := match wellKnown.find? (·.1 = uri) with
      | some (_, pfx) => pfx
      | none => "ns".toList ++ natStr m.length
    (some p, nsSet m (some p) uri)

mutual
/-- `iterwalk(element, ns_map)`: the declarations of the tree are gone (`decls` is ignored),
one `start-ns` per namespaced element with a prefix from the shared `ns_map` -/
def iterwalk (wk : List (Str × Str)) : XTree → NsMap → List Tok × NsMap
  | .node _ q a st t kids tl, m =>
    let (pre, m1) := match targetUri q with
      | some uri => let (p, m') := loadPrefix wk uri m; ([Tok.startNs (p.getD []) uri], m')
      | none => ([], m)
    let (ks, m2) := iterwalkKids wk kids m1
    (pre ++ (Tok.start q a st :: (ks ++ [Tok.end q t tl])), m2)
def iterwalkKids (wk : List (Str × Str)) : List XTree → NsMap → List Tok × NsMap
  | [], m => ([], m)
  | k :: ks, m =>
    let (a, m1) := iterwalk wk k m
    let (b, m2) := iterwalkKids wk ks m1
    (a ++ b, m2)
end

mutual
/-- the document `iterwalk` pretends to read: the same tree with the one invented declaration on
every namespaced element -/
def redecl (wk : List (Str × Str)) : XTree → NsMap → XTree × NsMap
  | .node _ q a st t kids tl, m =>
    let (d, m1) := match targetUri q with
      | some uri => let (p, m') := loadPrefix wk uri m; ([(p.getD [], uri)], m')
      | none => ([], m)
    let (ks, m2) := redeclKids wk kids m1
    (.node d q a st t ks tl, m2)
def redeclKids (wk : List (Str × Str)) : List XTree → NsMap → List XTree × NsMap
  | [], m => ([], m)
  | k :: ks, m =>
    let (a, m1) := redecl wk k m
    let (b, m2) := redeclKids wk ks m1
    (a :: b, m2)
end

/-! ### the handlers end to end -/

/-- the kinds of source `XmlParser.parse/from_*` accepts -/
inductive Source
  | bytes (b : List UInt8)
  | str (s : Str)
  | path (p : Str)
  | file (b : List UInt8)

/-- `XmlEventHandler.parse` for a byte-level source: everything that depends on the kind of
source happens inside the tokeniser call `etree.iterparse(source, EVENTS)` -/
def nativeParseSource (tokenise : Source → List Tok) (src : Source) : List PEv :=
  pump [] [] (tokenise src)

/-- `XmlEventHandler.parse` for an ElementTree element / tree -/
def nativeParseTree (wk : List (Str × Str)) (t : XTree) : List PEv :=
  pump [] [] (iterwalk wk t []).1

end Xs.Backends
