/- C10 — unknown attributes on and below an element bound through a `UnionNode`
   (model: Bind/Union.lean).  Property theorems (only). -/
import XsdataModel.Proofs.C10Union
import XsdataModel.Props.C10

namespace Props.C10
open Py Xs.Bind Proofs.C10 Proofs.C10Union
open Proofs.C10.Ex (exEnv)
open Proofs.C10Union.ExU

/-- every class candidate of the union, tried on the element `uq` with attributes `attrs`, has no
attribute var and no `Attributes` field for `q`; primitive candidates are not among them -/
def candsUnknownAttr (e : BEnv) (Γ : Ctx) (cands : List TypeRef) (uq : QN) (attrs : List (QN × Str)) (ns : NsMap)
    (q : QN) : Bool :=
  cands.all fun c =>
    match c with
    | .cls id =>
      (match rootNode e Γ id (targetUri uq) uq attrs ns with
       | .ok root => unknownAttr root.meta q
       | .error _ => true)
    | _ => false

/-- **union_attr_on_element_fails**: with `fail_on_unknown_attributes` on, an unknown attribute
(outside the xsi namespace) on the union-bound element *itself* makes every candidate's trial
fail (`bind_attrs` of each candidate class sees it), so the element is never bound: the result is
an error — `ParserError "Failed to parse union node"` unless a trial left the modelled fragment —
under all settings of the other two options. -/
theorem union_attr_on_element_fails {e : BEnv} {Γ : Ctx} {cfg : ParserConfig} {q : QN}
    (hc : cfg.failOnUnknownAttributes = true) (hx : targetUri q ≠ some xsiNs)
    (pm : XmlMeta) (var : XmlVar) (ns : NsMap) (cands : List TypeRef) (uq : QN)
    (v : Str) (a1 a2 : List (QN × Str)) (hnil : xsiNilOf (a1 ++ (q, v) :: a2) ≠ some true)
    (hall : candsUnknownAttr e Γ cands uq (a1 ++ (q, v) :: a2) ns q = true)
    (ta : List (QN × Str)) (tn : NsMap) (text tail : Option Str) (children : List Tree) :
    ∃ err, parseNodeU e Γ cfg (.union pm var (a1 ++ (q, v) :: a2) ns cands) (.node uq ta tn text children tail)
      = .error err := by
  have hrep : attrReported (strictCfg cfg) q = true := by simp [attrReported, strictCfg, hc, hx]
  -- every trial comes back empty (or leaves the fragment)
  have htrial : ∀ c ∈ cands,
      unionTrial e Γ cfg (fun m => parseKidsU e Γ (strictCfg cfg) m {} none children) var (a1 ++ (q, v) :: a2) ns uq text tail c
        = .ok .none ∨ ∃ w, unionTrial e Γ cfg (fun m => parseKidsU e Γ (strictCfg cfg) m {} none children) var
            (a1 ++ (q, v) :: a2) ns uq text tail c = .error (.unsupported w) := by
    intro c hcm
    have hcand := List.all_eq_true.mp hall c hcm
    cases c with
    | cls id =>
      have hblock : ∃ err, (do
          let root ← rootNode e Γ id (targetUri uq) uq (a1 ++ (q, v) :: a2) ns
          let (sub, st) ← parseKidsU e Γ (strictCfg cfg) root.meta {} none children
          let out ← elementFinish e Γ (strictCfg cfg) root.meta (a1 ++ (q, v) :: a2) ns root.derived root.xsiType
            (xsiNilOf (a1 ++ (q, v) :: a2)) uq text tail sub st
          rootResult out : Except Err (Val × Nat)) = .error err := by
        cases hr : rootNode e Γ id (targetUri uq) uq (a1 ++ (q, v) :: a2) ns with
        | error err => exact ⟨err, rfl⟩
        | ok root =>
          have hu : unknownAttr root.meta q = true := by simpa [hr] using hcand
          cases hk : parseKidsU e Γ (strictCfg cfg) root.meta {} none children with
          | error err => exact ⟨err, by simp [bind, Except.bind, hk]⟩
          | ok p =>
            obtain ⟨sub, st⟩ := p
            have hb : ∃ err, bindAttrs e (strictCfg cfg) root.meta (a1 ++ (q, v) :: a2) ns = .error err := by
              rw [unknown_attr_policy hu, hrep]
              simp only [if_true]
              cases bindAttrs e (strictCfg cfg) root.meta a1 ns with
              | ok r => exact ⟨_, rfl⟩
              | error err => exact ⟨err, rfl⟩
            obtain ⟨err, hb⟩ := hb
            exact ⟨err, by simp [bind, Except.bind, hk, elementFinish_attrs_error hb _ hnil]⟩
      obtain ⟨err, hblock⟩ := hblock
      simp only [unionTrial, hblock]
      cases err <;> simp [suppressed]
    | prim t => simp at hcand
    | obj => simp at hcand
    | other nm => simp at hcand
  -- so the trial loop yields only empty results, or stops on the marker
  have hmap : (∃ rs, cands.mapM (unionTrial e Γ cfg (fun m => parseKidsU e Γ (strictCfg cfg) m {} none children) var
        (a1 ++ (q, v) :: a2) ns uq text tail) = .ok rs ∧ rs.all (fun r => match r with | .none => true | _ => false) = true)
      ∨ ∃ w, cands.mapM (unionTrial e Γ cfg (fun m => parseKidsU e Γ (strictCfg cfg) m {} none children) var
        (a1 ++ (q, v) :: a2) ns uq text tail) = .error (.unsupported w) := by
    clear hall
    induction cands with
    | nil => exact .inl ⟨[], rfl, rfl⟩
    | cons c cs ih =>
      rw [List.mapM_cons]
      rcases htrial c (List.mem_cons_self ..) with h | ⟨w, h⟩
      · rcases ih (fun c' h' => htrial c' (List.mem_cons_of_mem _ h')) with ⟨rs, h2, h3⟩ | ⟨w, h2⟩
        · exact .inl ⟨.none :: rs, by simp [h, h2, bind, Except.bind, pure, Except.pure], by simpa using h3⟩
        · exact .inr ⟨w, by simp [h, h2, bind, Except.bind]⟩
      · exact .inr ⟨w, by simp [h, bind, Except.bind]⟩
  simp only [parseNodeU]
  rcases hmap with ⟨rs, h1, h2⟩ | ⟨w, h1⟩
  · exact ⟨.parser "Failed to parse union node", by simp [h1, bind, Except.bind, unionBind, pickBest_all_none rs h2]⟩
  · exact ⟨.unsupported w, by simp [h1, bind, Except.bind]⟩

/- non-vacuity: both candidates of `u` lack an attribute `z` -/
example : candsUnknownAttr exEnv ctx [.cls ['T'], .cls ['S']] ['u'] [(['z'], ['1'])] [] ['z'] = true := by decide

/-- the witness of `C10-union-strict-attr-rebinds`: `<R><u><i z="1"/></u></R>`, written from `R(u=T(i=L()))`.
Attributes lenient: `T` binds it.  With `fail_on_unknown_attributes` on (and unknown properties
skipped) the trial of `T` fails on `z`; the trial of `S` skips `<i>` as an unknown property, the
attribute with it, and the empty `S()` wins: no error is raised. -/
theorem union_strict_attr_rebinds :
    parseRootU exEnv ctx { failOnUnknownProperties := false } ['R'] (docU [(['z'], ['1'])])
      = .ok (.obj ['R'] [(['u'], .obj ['T'] [(['i'], .obj ['L'] [(['k'], .none)])])], 0)
    ∧ parseRootU exEnv ctx strictAttrs ['R'] (docU [(['z'], ['1'])])
      = .ok (.obj ['R'] [(['u'], .obj ['S'] [(['s'], .none)])], 0) := ⟨by rfl, by rfl⟩

/-- Full-strength form: with the option on, an unknown attribute anywhere inside a union-bound
element (here: on a child of it) fails the parse. -/
def UnionStrictAttrFails : Prop :=
  ∀ (e : BEnv) (Γ : Ctx) (cfg : ParserConfig) (clazz : ClassId) (rq uq cq q : QN) (v : Str),
    cfg.failOnUnknownAttributes = true → targetUri q ≠ some xsiNs →
    Γ.classes.all (fun ci => ci.metas.all (fun pm => unknownAttr pm.2 q)) = true →
    ∃ err, parseRootU e Γ cfg clazz
      (.node rq [] [] none [.node uq [] [] none [.node cq [(q, v)] [] none [] none] none] none) = .error err

/-- **union_strict_attr_fails_false** (known finding `C10-union-strict-attr-rebinds`) -/
theorem union_strict_attr_fails_false : ¬ UnionStrictAttrFails := by
  intro h
  obtain ⟨err, h⟩ := h exEnv ctx strictAttrs ['R'] ['R'] ['u'] ['i'] ['z'] ['1'] rfl (by decide) (by decide)
  have := union_strict_attr_rebinds.2
  simp only [docU] at this
  rw [this] at h
  cases h

/- in the same situation with unknown properties failing as well, no other candidate can skip the
child: the parse fails -/
example :
    parseRootU exEnv ctx { failOnUnknownAttributes := true } ['R'] (docU [(['z'], ['1'])])
      = .error (.parser "Failed to parse union node") := by rfl

end Props.C10
