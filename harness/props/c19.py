"""C19 — A shared binding context is safe under concurrent use."""
from __future__ import annotations

import itertools
import json
import random
import re
import sys
import threading
import time

from framework import Corr, Oracle, ok
from props import ctxgen as G
from props import ctxlib as L
from props.conclib import Scheduler, hooked_context

PROP_ID = "C19"
DESIGN_REF = "6/C19"
XS = G.XS

# a universe with exactly one indexed class: 6 atomic steps per cold lookup
U_ONE = [L.cdef("PA", ns="urn:a", fields=[L.fdef("x")])]
# two indexed classes under one name + a namespace-less child
U_TWO = [
    L.cdef("C", glob=False, fields=[L.fdef("x")]),
    L.cdef("PA", ns="urn:a", fields=[L.fdef("c", cls=0)]),
    L.cdef("PA2", ns="urn:a", mname="PA", fields=[L.fdef("c", cls=0)]),
]


def p_build(c, pns=None):
    return {"k": "build", "c": c, "pns": pns}


def p_find(q):
    return {"k": "find_types", "q": q}


def p_find_type(q):
    return {"k": "find_type", "q": q}


def p_sub(c, q):
    return {"k": "find_subclass", "c": c, "q": q}


def p_scan(names):
    return {"k": "find_type_by_fields", "names": list(names)}


P_RESET = {"k": "reset"}

# one indexed class whose metadata cannot be built
U_BADONE = [L.cdef("T", ns="urn:a", bad=True, fields=[L.fdef("x")])]
# two cold by-fields scans, each iterating the dict it published itself: thread 1
# evicts T from the published dict, thread 0 tries to evict it again -> ValueError
SCAN_VS_SCAN_EVICT = [1, 0, 0, 0, 0, 1, 1, 1, 1, 0]

# three index entries, every class declares its namespace and is buildable:
# a warm scan is 5 steps (staleness check + 4 x next()), a warm miss 2, a warm hit 3
U_SCAN = [
    L.cdef("PA", ns="urn:a", fields=[L.fdef("x")]),
    L.cdef("PB", ns="urn:b", fields=[L.fdef("x"), L.fdef("y")]),
    L.cdef("PC", base=0, ns="urn:a", fields=[L.fdef("z")]),
]


# ------------------------------------------------------------------ impl
def run_forced(a, sched_cls=Scheduler):
    """Run the threads of `a` on one hooked real context under the schedule."""
    realm = L.Realm(a["universe"])
    try:
        sch = sched_cls()
        if a["warm_mods"] is not None:
            # the index was built while len(sys.modules) had this value
            realm.set_world(a["loaded"], a["warm_mods"])
            ctx = hooked_context(sch, realm.pkg, warm=True)
            realm.set_world(a["loaded"], a["mods"])
        else:
            realm.set_world(a["loaded"], a["mods"])
            ctx = hooked_context(sch, realm.pkg)
        fns = [(lambda p=p: realm.call(ctx, p)) for p in a["progs"]]
        res = sch.run(fns, a["schedule"])
        outs = []
        for kind, v in res:
            outs.append(v if kind == "ok" else {"err": "LEAK:" + type(v).__name__})
        # the main thread is not managed by the scheduler: its accesses pass through
        try:
            state = realm.state(ctx)
        except Exception as e:  # noqa: BLE001
            state = {"unexportable": type(e).__name__}
        return outs, state, list(sch.trace)
    finally:
        realm.close()


def impl_conc(a):
    outs, state, _ = run_forced(a)
    return ok({"results": outs, "state": state})


def interleavings(n0, n1):
    for pos in itertools.combinations(range(n0 + n1), n0):
        s = [1] * (n0 + n1)
        for p in pos:
            s[p] = 0
        yield s


def base(universe, progs, schedule, warm=False, mods=0, warm_mods=None):
    if warm:
        warm_mods = mods
    return {"universe": universe, "loaded": len(universe), "mods": mods, "warm_mods": warm_mods, "progs": progs, "schedule": schedule}


# the schedule that broke the code before 556b985 (thread 1 passes the staleness
# check, thread 0 rebuilds completely and stamps, thread 1 goes on, thread 0 looks
# up), in the step list of the repaired code (n = number of binding classes)
def race_schedule(n_binding):
    return [1] + [0] * (n_binding + 3) + [1] * (n_binding + 1) + [0, 0]


# reset() racing with a lookup on a warm context: the lookup passes the
# staleness check, reset runs completely, the lookup reads the cleared index
RESET_VS_LOOKUP = [0, 1, 1, 1, 0]
# reset() racing with build: the class is found in the cache, reset clears the
# cache, `self.cache[clazz]` raises KeyError
RESET_VS_BUILD = [0, 0, 0, 2, 1, 2]


def gen_conc(rng, tier):
    FIND = p_find("{urn:a}PA")
    # 1. hand-picked: the former race (cold, stale, warm), reset races
    yield base(U_ONE, [FIND, FIND], race_schedule(1))
    yield base(U_ONE, [FIND, FIND], race_schedule(1), warm=True)
    yield base(U_ONE, [FIND, FIND], race_schedule(1), mods=1, warm_mods=0)
    yield base(U_TWO, [FIND, p_find("Nope")], race_schedule(3))
    yield base(U_TWO, [p_build(0, "urn:a"), p_build(0, "urn:a")], [0, 1, 0, 1, 0, 1])
    yield base(U_TWO, [p_build(0, "urn:a"), p_build(0, "urn:b")], [0, 1, 0, 1, 0, 1])
    yield base(U_ONE, [FIND, P_RESET], RESET_VS_LOOKUP, warm=True)
    yield base(U_ONE, [p_build(0), P_RESET, p_build(0)], RESET_VS_BUILD)
    yield base(U_BADONE, [p_scan(["x"]), p_scan(["x"])], SCAN_VS_SCAN_EVICT)
    yield base(U_ONE, [p_scan(["x"]), P_RESET], RESET_VS_LOOKUP, warm=True)
    # 2. bounded-exhaustive: all interleavings of two threads
    #    cold lookup x cold lookup over one binding class (6 x 6 steps)
    stride = 1 if tier != "quick" else 4
    for i, s in enumerate(interleavings(6, 6)):
        if i % stride == 0:
            yield base(U_ONE, [FIND, FIND], s)
        if i % (stride * 4) == 1:
            yield base(U_ONE, [FIND, FIND], s, mods=2, warm_mods=1)  # stale index
    #    build x build of the same class (3 x 3 steps), same and different parent
    for s in interleavings(3, 3):
        yield base(U_TWO, [p_build(0, "urn:a"), p_build(0, "urn:a")], s)
        yield base(U_TWO, [p_build(0, "urn:a"), p_build(0, "urn:b")], s)
        yield base(U_TWO, [p_build(1), p_build(9)], s)
    #    build x cold lookup (3 x 8 steps)
    for s in interleavings(3, 8):
        yield base(U_TWO, [p_build(1), FIND], s)
    #    warm context: lookup x lookup (3 x 3)
    for s in interleavings(3, 3):
        yield base(U_TWO, [FIND, p_find("Nope")], s, warm=True)
    #    reset x warm lookup (3 x 3), reset x cold lookup (3 x 6), reset x build (3 x 3)
    for s in interleavings(3, 3):
        yield base(U_ONE, [P_RESET, FIND], s, warm=True)
        yield base(U_ONE, [P_RESET, p_build(0)], s)
    for s in interleavings(3, 6):
        yield base(U_ONE, [P_RESET, FIND], s)
    #    find_type_by_fields' scan (one step per visited entry) x lookups that miss / hit,
    #    x find_type / find_subclass, x a cold build, x another scan; warm context
    SCAN = p_scan(["x"])
    for s in interleavings(5, 2):
        yield base(U_SCAN, [SCAN, p_find("Nope")], s, warm=True)
        yield base(U_SCAN, [SCAN, p_find_type("{urn:z}PA")], s, warm=True)
        yield base(U_SCAN, [SCAN, p_sub(0, "{urn:a}Nope")], s, warm=True)
    for s in interleavings(5, 3):
        yield base(U_SCAN, [SCAN, p_find("{urn:b}PB")], s, warm=True)
        yield base(U_SCAN, [p_scan(["x", "y"]), p_sub(0, "{urn:a}PC")], s, warm=True)
        yield base(U_SCAN, [p_scan(["z"]), p_build(2)], s, warm=True)
    for i, s in enumerate(interleavings(5, 5)):
        if i % (2 * stride) == 0:
            yield base(U_SCAN, [SCAN, p_scan(["y"])], s, warm=True)
    #    cold / stale context: scan (10 steps) x missing lookup (7 steps): sampled
    for _ in range(40 if tier == "quick" else 1500):
        s = [0] * 10 + [1] * 7
        rng.shuffle(s)
        yield base(U_SCAN, [SCAN, p_find("Nope")], s, **rng.choice([{}, {"mods": 1, "warm_mods": 0}]))
    # 3. random: 2-5 threads, random universes, random schedules
    n = 120 if tier == "quick" else 4000
    for _ in range(n):
        U = G.rand_universe(rng, n=rng.randint(1, 4))
        keys = G.index_keys(U)
        progs = []
        for _ in range(rng.randint(2, 5)):
            r = rng.random()
            q = rng.choice(keys) if keys and rng.random() < 0.7 else rng.choice(["Nope", XS + "int", "{urn:a}A"])
            if r < 0.35:
                progs.append(p_build(rng.randrange(len(U) + 1), rng.choice(G.PNS)))
            elif r < 0.55:
                progs.append(p_find(q))
            elif r < 0.65:
                progs.append(p_find_type(q))
            elif r < 0.75:
                progs.append(p_sub(rng.randrange(len(U)), q))
            elif r < 0.93:
                progs.append(p_scan(rng.sample(G.FNAMES, rng.choice([0, 1, 1, 2]))))
            else:
                progs.append(P_RESET)
        sched = [rng.randrange(len(progs)) for _ in range(rng.randint(0, 50))]
        r = rng.random()
        if r < 0.3:
            yield base(U, progs, sched, warm=True)
        elif r < 0.45:
            yield base(U, progs, sched, mods=1, warm_mods=0)
        else:
            yield base(U, progs, sched)


def start_kind(a):
    return "cold" if a["warm_mods"] is None else ("warm" if a["warm_mods"] == a["mods"] else "stale")


def classify_conc(a, o):
    if not isinstance(o, dict) or "ok" not in o:
        return "harness-error"
    alone = alone_results(a)
    diff = sum(1 for x, y in zip(o["ok"]["results"], alone) if x != y)
    rs = "|with-reset" if any(p["k"] == "reset" for p in a["progs"]) else ""
    return f"{start_kind(a)}|threads={len(a['progs'])}{rs}|{'all-as-alone' if diff == 0 else 'differs-from-alone'}"


_ALONE: dict[str, list] = {}


def alone_results(a):
    key = json.dumps([a["universe"], a["loaded"], a["mods"], a["progs"]], sort_keys=True)
    hit = _ALONE.get(key)
    if hit is None:
        realm = L.Realm(a["universe"])
        try:
            realm.set_world(a["loaded"], a["mods"])
            hit = [realm.call(realm.context(), p) for p in a["progs"]]
        finally:
            realm.close()
        if len(_ALONE) > 5000:
            _ALONE.clear()
        _ALONE[key] = hit
    return hit


CORRS = [
    Corr("conc.run", gen_conc, impl_conc, nontrivial=lambda a, o: len(a["schedule"]) >= 2, classify=classify_conc,
         describe="threads on one real XmlContext under a forced schedule (instrumented containers / attribute assignments) vs the interleaved model: per-thread results and final cache/index/stamp"),
]


# ------------------------------------------------------------------ oracles
def _indexed(universe, loaded):
    return [i for i, d in enumerate(universe[:loaded]) if d["model"] and d["pkg"] and d["global"] and not d["inner"]]


def _chain_bad(universe, c):
    while c is not None:
        if G.class_bad(universe[c]):
            return True
        c = universe[c]["base"]
    return False


def covered_conc(a, msg=""):
    """C19-F2: a thread calls reset() while other threads use the context.
    C14-F3: a by-fields scan evicts an unbuildable indexed class while the
    failing thread looks the index up by name."""
    U = a["universe"]
    if any(p["k"] == "reset" for p in a["progs"]) and len(a["progs"]) >= 2:
        return "C19-F2"
    scans = any(p["k"] == "find_type_by_fields" for p in a["progs"])
    indexed = _indexed(U, a["loaded"])
    m = re.match(r"thread (\d+) ", msg)
    if m and scans and any(_chain_bad(U, c) for c in indexed):
        failing = a["progs"][int(m.group(1))]["k"]
        if failing in ("find_types", "find_type", "find_subclass"):
            return "C14-F3"
    return None


def _publishers(trace):
    return sorted({tid for tid, name in trace if name in ("xsi.publish", "xsi.clear")})


def _compare(a, outs, trace, how):
    alone = alone_results(a)
    for i, (x, y) in enumerate(zip(outs, alone)):
        if x != y:
            return (f"thread {i} {json.dumps(a['progs'][i])} returned {json.dumps(x)[:150]} {how} but "
                    f"{json.dumps(y)[:150]} when run alone [start={start_kind(a)}; threads that published/cleared the index: {_publishers(trace)}]")
    return None


def check_forced(a):
    outs, _, trace = run_forced(a)
    return _compare(a, outs, trace, f"under schedule {a['schedule']}")


class YieldingScheduler(Scheduler):
    """Free-running threads with forced yield points at every hook."""

    def hook(self, name):
        if getattr(self.local, "tid", None) is None:
            return
        self.trace.append((self.local.tid, name))
        r = getattr(self.local, "rng", None)
        if r is None:
            r = self.local.rng = random.Random(self.local.tid * 7919 + self.seed)
        if r.random() < 0.6:
            time.sleep(0)
        if r.random() < 0.1:
            time.sleep(0.0002)

    def run(self, fns, schedule):
        results = {}
        self.seed = sum(schedule) if schedule else 0
        start = threading.Barrier(len(fns))

        def body(tid, fn):
            self.local.tid = tid
            start.wait()
            try:
                results[tid] = ("ok", fn())
            except BaseException as e:  # noqa: BLE001
                results[tid] = ("err", e)

        old = sys.getswitchinterval()
        sys.setswitchinterval(1e-6)
        try:
            ts = [threading.Thread(target=body, args=(i, f), daemon=True) for i, f in enumerate(fns)]
            for t in ts:
                t.start()
            for t in ts:
                t.join(20)
        finally:
            sys.setswitchinterval(old)
        return [results.get(i, ("err", TimeoutError())) for i in range(len(fns))]


def check_free(a):
    outs, _, trace = run_forced(a, YieldingScheduler)
    return _compare(a, outs, trace, f"in a free-running {len(a['progs'])}-thread execution")


def gen_free(rng, tier):
    n = 60 if tier == "quick" else 1500
    for _ in range(n):
        U = G.rand_universe(rng, n=rng.randint(2, 6), declared=True, clean=True)
        keys = G.index_keys(U)
        progs = []
        for _ in range(rng.randint(2, 16)):
            if rng.random() < 0.5:
                progs.append(p_build(rng.randrange(len(U)), rng.choice(G.PNS)))
            else:
                progs.append(p_find(rng.choice(keys) if keys else "Nope"))
        yield base(U, progs, [rng.randrange(100)], warm=rng.random() < 0.4)


# ------------------------------------------------------------------ document-level threads
def _doc_ops(rng, U):
    """document-level calls for the threads: parse / render / decode through the shared instances. The parser
    configuration is the default one in every call (the harness assigns it per call: different values would be
    a race of the harness, not of the library); reset() is left to the forced schedules (C19-F2)."""
    return [o for o in G.rand_docs(rng, U) if "cfg" not in o and o["k"] not in ("reset", "find_type")]


def gen_free_docs(rng, tier):
    n = 25 if tier == "quick" else 600
    for _ in range(n):
        U = G.rand_universe(rng, n=rng.randint(2, 5), declared=rng.random() < 0.7, clean=True)
        docs = _doc_ops(rng, U)
        if not docs:
            continue
        progs = [rng.choice(docs) for _ in range(rng.randint(2, 12))]
        yield {"universe": U, "progs": progs, "seed": rng.randrange(100), "warm": rng.random() < 0.3}


def check_free_docs(a):
    """2-12 free-running threads parse, render, encode and decode through ONE context, ONE XmlParser, ONE JsonParser,
    ONE serializer of every kind (the instances the documentation recommends sharing), with a forced yield at every
    instrumented access of the context; every call must return what it returns alone on fresh instances"""
    from props import c14 as H

    U = a["universe"]
    realm = L.Realm(U)
    try:
        realm.set_world(len(U), 0)
        alone = [H.doc_call(realm, H.make_kit(realm.context()), p) for p in a["progs"]]
        sch = YieldingScheduler()
        ctx = hooked_context(sch, realm.pkg, warm=bool(a.get("warm")))
        kit = H.make_kit(ctx)
        res = sch.run([(lambda p=p: H.doc_call(realm, kit, p)) for p in a["progs"]], [a.get("seed", 0)])
        for i, ((kind, v), y) in enumerate(zip(res, alone)):
            x = v if kind == "ok" else {"err": "LEAK:" + type(v).__name__}
            if x != y:
                return (f"thread {i} {json.dumps(a['progs'][i])[:160]} returned {json.dumps(x)[:160]} in a free-running "
                        f"{len(a['progs'])}-thread execution through shared parser/serializer/context but {json.dumps(y)[:160]} alone")
    finally:
        realm.close()
    return None


def covered_forced(a, msg=""):
    """forced schedules are deterministic: a failing input belongs to a listed finding when it has the shape the
    finding describes (covered_conc, decidable on the input) AND every thread returns exactly what the interleaved
    model of the unchanged code computes for this schedule (replay through the driver op conc.run), the failing
    thread included. Another outcome under a schedule of the same shape is reported."""
    fid = covered_conc(a, msg)
    if fid is None:
        return None
    from framework import Driver

    try:
        mo = Driver().run([{"op": "conc.run", "args": a}])[0]["ok"]["results"]
        outs, _, _ = run_forced(a)
    except Exception:  # noqa: BLE001  (no driver / no answer: nothing can be attributed to a finding)
        return None
    return fid if mo == outs and mo != alone_results(a) else None


# ---------------------------------------------------------------- shared parser instances, forced schedules
from props import c14corners as K  # noqa: E402


def impl_parser_threads(a):
    msg = K.check_threads(a)
    return {"ok": "as-alone"} if msg is None else {"err": msg}


CORRS.append(
    Corr("c19.parser_threads", K.gen_threads, impl_parser_threads, spec=lambda a: {"ok": "as-alone"},
         classify=lambda a, o: a["calls"][0]["kind"] + ("|non-default-options" if a["cfg"] else "|default-options"),
         describe="spec-level: two to four threads decode / parse (union, base-class and compound fields, unconvertible "
                  "values, failing documents) through ONE DictDecoder / JsonParser / XmlParser and one hooked context "
                  "under forced schedules (thread 0 parks inside its call at every access of the shared metadata cache); "
                  "every call must return what it returns alone")
)

ORACLES = [
    Oracle("parser-threads", K.gen_threads, K.check_threads),
    Oracle("forced-interleavings", gen_conc, check_forced, covered_forced, from_ops=("conc.run",)),
    Oracle("free-running", gen_free, check_free, covered_conc),
    Oracle("free-running-documents", gen_free_docs, check_free_docs),
]


# ------------------------------------------------------------------ finding
def finding_f2():
    """reset() racing with a class-less parse on a warm context (thread 0 =
    victim) and with build (KeyError), under the model's schedules."""
    from xsdata.exceptions import ParserError
    from xsdata.formats.dataclass.parsers import XmlParser

    realm = L.Realm(U_ONE)
    try:
        realm.set_world(1, 0)
        sch = Scheduler()
        ctx = hooked_context(sch, realm.pkg, warm=True)
        doc = '<ns0:PA xmlns:ns0="urn:a"><ns0:x>1</ns0:x></ns0:PA>'
        res = sch.run([lambda: XmlParser(context=ctx).from_string(doc), ctx.reset], RESET_VS_LOOKUP)
        alone = XmlParser(context=realm.context()).from_string(doc)
        k0, v0 = res[0]
        lookup = k0 == "err" and isinstance(v0, ParserError) and "No class found matching root" in str(v0) and type(alone).__name__ == "PA"
    finally:
        realm.close()
    outs, _, _ = run_forced(base(U_ONE, [p_build(0), P_RESET, p_build(0)], RESET_VS_BUILD))
    keyerr = outs[2] == {"err": "KeyError"}
    return lookup and keyerr, f"parse thread={k0}:{v0!r} alone={alone!r}; build threads={json.dumps(outs)[:200]}"


FINDINGS = {"C19-F2": finding_f2}

LEVEL_TEXT = (
    "Lean proof over all schedules of the interleaved model (atomic step = one dict/slot operation or attribute "
    "assignment, xsi_cache as a reference into a heap of dict objects, any number of threads): "
    "xsi_lookup_linearizable (after the repair 556b985 every concurrent find_types on a cold, stale or warm context "
    "returns the cache-free answer: every published dict object is complete), build_race_benign (every concurrent "
    "build returns the cache-free metadata, the check-then-insert race only duplicates work, no KeyError), "
    "concurrent_safe_partial, thread_progress. What remains excluded is stated and refuted: reset() racing with "
    "lookups, builds or scans (reset_*_counterexample; known finding C19-F2, forced on the real code) and a scan that "
    "evicts an unbuildable class while another thread looks it up by name (scan_eviction_lookup_counterexample, the "
    "sequential finding C14-F3). No hypothesis on parent namespaces is left (cache keyed by (class, parent_ns)). With "
    "find_type_by_fields as a sequence of steps (one per next() of the values() iterator): "
    "concurrent_safe_with_scans / scan_linearizable (the scan equals the atomic one for every schedule) and "
    "lookups_preserve_index_keys (a complete dict object is never changed by any lookup, build or scan). The model is tied to /repo by replaying all interleavings of two threads (cold/stale/warm "
    "lookups, builds, reset, mixed) and random schedules of up to five threads on the real XmlContext."
)
LEVEL_NOTE = (
    "Trusted: Lean kernel; the GIL makes each container operation and attribute assignment atomic (no free-threaded "
    "build, no preemption inside C code, no memory-model effects); find_types' returned list is treated as a value "
    "at the time of the final read. Classes/modules loaded during the concurrent phase, find_type_by_fields / "
    "local_names_match threads, parser/serializer per-call state and the match_namespace memo are not part of the "
    "interleaved model; the oracle free-running-documents exercises them on the real code only (2-12 threads parsing, rendering, "
    "encoding and decoding through one shared context, parser and serializer of every kind, compared with fresh instances run alone)."
)
TRUSTED = [
    "harness/props/conclib.py: an instrumented dict (cache), properties over the xsi_cache / sys_modules slots of a harness-side XmlContext subclass (assignment parks; reading xsi_cache yields a parking view of the published dict object) and an is_binding_model override (thread-local step per binding class) park threads; one release = one model step",
    "threads that finish are skipped in the schedule; after the schedule the remaining threads run to completion in index order (same rule in model and harness)",
]
ASSUMPTIONS = [
    "CPython with the GIL: one dict/list/slot operation is atomic",
    "the set of loaded classes and len(sys.modules) do not change during the concurrent phase",
    "no thread calls reset() concurrently (otherwise C19-F2)",
    "inside one step of a by-fields scan (one visited index entry) the local_names_match builds are atomic: the harness lets the scanning thread's cache operations pass without parking",
]
RULE = "(scans: all interleavings of a warm by-fields scan with missing / hitting find_types, find_type, find_subclass, a cold build, another scan; sampled schedules on cold and stale contexts) hand-picked schedules (the pre-repair race on cold/stale/warm contexts, reset races), then all interleavings of two threads for cold lookup x cold lookup (every 3rd in quick tier; a sample on a stale context), build x build, build x lookup, warm lookups, reset x lookup, reset x build, then seeded random schedules of 2-5 threads over random universes"
