/-
C01 (fragment with inheritance): the prefix map of the abstract writer serves every `xsi:type`
attribute of the document — `QNameConverter.resolve` reads the written `prefix:name` back.
-/
import XsdataModel.Proofs.C01NMain
import XsdataModel.Proofs.NatStr

namespace Proofs.C01
open Py Xs.Bind Xs.Bind.F1 Xs.Bind.FN

/-! ### strings without white space -/

theorem dropWhile_head_false {α : Type} (p : α → Bool) : ∀ (s : List α),
    (∀ c, s.head? = some c → p c = false) → s.dropWhile p = s
  | [], _ => rfl
  | c :: s, h => by simp [List.dropWhile, h c rfl]

theorem strip_nonspace (e : Env) (s : Str) (h : ∀ c ∈ s, e.isSpace c = false) : e.strip s = s := by
  have h1 : e.lstrip s = s := dropWhile_head_false _ s (fun c hc => h c (List.mem_of_mem_head? hc))
  have h2 : e.rstrip s = s := by
    unfold Env.rstrip
    rw [dropWhile_head_false _ s.reverse (fun c hc => h c (by
      have := List.mem_of_mem_head? hc
      simpa using this)), List.reverse_reverse]
  unfold Env.strip
  rw [h1, h2]

theorem takeWhile_all {α : Type} (p : α → Bool) : ∀ (s : List α), (∀ c ∈ s, p c = true) →
    s.takeWhile p = s ∧ s.dropWhile p = []
  | [], _ => ⟨rfl, rfl⟩
  | c :: s, h => by
    have hc := h c (by simp)
    have ih := takeWhile_all p s (fun d hd => h d (by simp [hd]))
    simp [List.takeWhile, List.dropWhile, hc, ih.1, ih.2]

theorem takeWhile_append_sep {α : Type} (p : α → Bool) (l : List α) (x : α) (r : List α)
    (hl : ∀ c ∈ l, p c = true) (hx : p x = false) :
    (l ++ x :: r).takeWhile p = l ∧ (l ++ x :: r).dropWhile p = x :: r := by
  induction l with
  | nil => simp [List.takeWhile, List.dropWhile, hx]
  | cons c l ih =>
    have hc := hl c (by simp)
    have := ih (fun d hd => hl d (by simp [hd]))
    simp [List.takeWhile, List.dropWhile, hc, this.1, this.2]

/-- `text.split(v, sep)` of a string without the separator -/
theorem textSplit_none (v : Str) (sep : Char) (h : ∀ c ∈ v, c ≠ sep) : textSplit v sep = (none, v) := by
  have := takeWhile_all (fun c => decide (c ≠ sep)) v (fun c hc => by simpa using h c hc)
  simp only [textSplit, this.1, this.2]

theorem textSplit_some (l r : Str) (sep : Char) (hl : ∀ c ∈ l, c ≠ sep) (hr : r ≠ []) :
    textSplit (l ++ sep :: r) sep = (some l, r) := by
  have := takeWhile_append_sep (fun c => decide (c ≠ sep)) l sep r (fun c hc => by simpa using hl c hc)
    (by simp)
  simp only [textSplit, this.1, this.2]
  cases r with
  | nil => exact absurd rfl hr
  | cons _ _ => rfl

theorem dropWhile_cons_head {α : Type} (p : α → Bool) : ∀ (l : List α) {x : α} {r : List α},
    l.dropWhile p = x :: r → p x = false
  | [], _, _, h => by cases h
  | c :: l, x, r, h => by
    cases hc : p c with
    | true => simp only [List.dropWhile, hc] at h; exact dropWhile_cons_head p l h
    | false => simp only [List.dropWhile, hc] at h; cases h; exact hc

/-- `text.split` splits at the separator -/
theorem textSplit_eq_some {v : Str} {sep : Char} {l r : Str} (h : textSplit v sep = (some l, r)) :
    v = l ++ sep :: r := by
  unfold textSplit at h
  have hv := List.takeWhile_append_dropWhile (p := fun c => decide (c ≠ sep)) (l := v)
  generalize hd : v.dropWhile (fun c => decide (c ≠ sep)) = dw at h hv
  generalize v.takeWhile (fun c => decide (c ≠ sep)) = tw at h hv
  cases dw with
  | nil => cases h
  | cons x right =>
    have hx : x = sep := by
      have := dropWhile_cons_head _ v hd
      simpa using this
    simp only at h
    split at h
    · cases h
    · cases h
      rw [← hv, hx]

/-- a qualified name with a namespace is `{ns}tag` -/
theorem splitQName_some {t : QN} {ns tag : Str} (h : splitQName t = (some ns, tag)) :
    t = '{' :: ns ++ '}' :: tag ∧ ns ≠ [] := by
  unfold splitQName at h
  split at h
  · rename_i rest
    split at h
    · rename_i left right hs
      split at h
      · cases h
      · rename_i hne
        cases h
        refine ⟨by rw [textSplit_eq_some hs]; rfl, ?_⟩
        intro h0; subst h0; exact hne rfl
    · cases h
  · cases h

theorem splitQName_none {t : QN} {tag : Str} (h : splitQName t = (none, tag)) : tag = t := by
  unfold splitQName at h
  split at h
  · split at h
    · split at h
      · cases h; rfl
      · cases h
    · cases h; rfl
  · cases h; rfl

/-! ### the prefix map `uri ↦ q<k>` -/

theorem prefixMap_get_none (us : List Str) : (prefixMap us).get none = none := by
  simp only [NsMap.get, prefixMap, Option.map_eq_none_iff, List.find?_eq_none, List.mem_map]
  rintro x ⟨iu, _, rfl⟩
  simp

theorem not_space_q (e : Env) : e.isSpace 'q' = false := rfl
theorem not_space_colon (e : Env) : e.isSpace ':' = false := rfl

theorem digit_not_space (e : Env) {c : Char} (h : isDigitChar c = true) : e.isSpace c = false := by
  simp only [isDigitChar, Bool.and_eq_true, decide_eq_true_eq] at h
  have ha : isAscii c = true := by simp [isAscii]; omega
  simp only [Env.isSpace, ha, if_true, isAsciiSpace, Bool.or_eq_false_iff, Bool.and_eq_false_iff,
    decide_eq_false_iff_not]
  constructor <;> omega

theorem digit_ne_colon {c : Char} (h : isDigitChar c = true) : c ≠ ':' := by
  intro hc; subst hc; revert h; decide

/-- the entries of `prefixMap` from index `k` on -/
def pmFrom (k : Nat) : List Str → NsMap
  | [] => []
  | u :: us => (some ('q' :: natStr k), u) :: pmFrom (k + 1) us

theorem zip_range'_map (k : Nat) : ∀ (us : List Str),
    ((List.range' k us.length).zip us).map (fun (iu : Nat × Str) => (some ("q".toList ++ natStr iu.1), iu.2)) =
      pmFrom k us
  | [] => rfl
  | u :: us => by
    simp only [List.length_cons, List.range'_succ, List.zip_cons_cons, List.map_cons, pmFrom]
    rw [zip_range'_map (k + 1) us]
    rfl

theorem prefixMap_eq (us : List Str) : prefixMap us = pmFrom 0 us := by
  unfold prefixMap
  rw [List.range_eq_range']
  exact zip_range'_map 0 us

theorem pmFrom_prefix_ge {k : Nat} {us : List Str} {x : Option Str × Str} (h : x ∈ pmFrom k us) :
    ∃ j, k ≤ j ∧ x.1 = some ('q' :: natStr j) := by
  induction us generalizing k with
  | nil => cases h
  | cons u us ih =>
    rcases List.mem_cons.1 h with rfl | h'
    · exact ⟨k, Nat.le_refl k, rfl⟩
    · obtain ⟨j, hj, hx⟩ := ih h'
      exact ⟨j, by omega, hx⟩

/-- looking a uri up and then its prefix gives the uri back -/
theorem pmFrom_roundtrip (ns : Str) : ∀ (k : Nat) (us : List Str), ns ∈ us →
    ∃ i, (pmFrom k us).find? (fun x => decide (x.2 = ns)) = some (some ('q' :: natStr i), ns) ∧
      (pmFrom k us).get (some ('q' :: natStr i)) = some ns := by
  intro k us
  induction us generalizing k with
  | nil => intro h; cases h
  | cons u us ih =>
    intro h
    by_cases hu : u = ns
    · subst hu
      exact ⟨k, by simp [pmFrom], by simp [pmFrom, NsMap.get]⟩
    · have hmem : ns ∈ us := by
        rcases List.mem_cons.1 h with h' | h'
        · exact absurd h'.symm hu
        · exact h'
      obtain ⟨i, h1, h2⟩ := ih (k + 1) hmem
      have hik : k + 1 ≤ i := by
        obtain ⟨j, hj, hx⟩ := pmFrom_prefix_ge (List.mem_of_find?_eq_some h1)
        simp only [Option.some.injEq, List.cons.injEq, true_and] at hx
        rw [natStr_injective _ _ hx]; exact hj
      have hne : ¬ (some ('q' :: natStr k) = some ('q' :: natStr i)) := by
        intro hh
        simp only [Option.some.injEq, List.cons.injEq, true_and] at hh
        have := natStr_injective _ _ hh
        omega
      refine ⟨i, by simp [pmFrom, hu, h1], ?_⟩
      simp only [NsMap.get, pmFrom, List.find?_cons, hne, decide_false] at h2 ⊢
      exact h2

/-! ### `xsi:type` is read back -/

/-- `QNameConverter.resolve` of a bare name, without a default namespace -/
theorem resolveQName_bare (e : BEnv) (M : NsMap) (tag : Str) (htne : tag ≠ [])
    (hspace : ∀ c ∈ tag, e.py.isSpace c = false) (hcolon : ∀ c ∈ tag, c ≠ ':')
    (hhead : tag.head? ≠ some '{') (hsp : tag.contains ' ' = false) (hnc : e.isNCName tag = true)
    (hdef : M.get none = none) : resolveQName e tag M = some (none, tag) := by
  have hstrip := strip_nonspace e.py tag hspace
  have hsplit := textSplit_none tag ':' hcolon
  unfold resolveQName
  rw [hstrip]
  dsimp only
  split
  · exact absurd rfl htne
  · simp at hhead
  · have hsp' : ¬ ' ' ∈ tag := by simpa using hsp
    simp [hsplit, hdef, hsp', hnc]

/-- `QNameConverter.resolve` of `prefix:name` with a bound prefix -/
theorem resolveQName_prefixed (e : BEnv) (M : NsMap) (p tag ns : Str) (htne : tag ≠ [])
    (hspace : ∀ c ∈ p ++ ':' :: tag, e.py.isSpace c = false) (hpcolon : ∀ c ∈ p, c ≠ ':')
    (hphead : ∀ r, p ++ ':' :: tag ≠ '{' :: r) (hpne : p ≠ [])
    (hsp : tag.contains ' ' = false) (hnc : e.isNCName tag = true)
    (hget : M.get (some p) = some ns) (hns : ns ≠ []) :
    resolveQName e (p ++ ':' :: tag) M = some (some ns, tag) := by
  have hstrip := strip_nonspace e.py _ hspace
  have hsplit := textSplit_some p tag ':' hpcolon htne
  unfold resolveQName
  rw [hstrip]
  dsimp only
  split
  · rename_i heq
    cases p <;> simp at heq
  · rename_i rest heq
    exact absurd heq (hphead rest)
  · simp only [hsplit, hget]
    cases ns with
    | nil => exact absurd rfl hns
    | cons a l =>
      have hsp' : ¬ ' ' ∈ tag := by simpa using hsp
      simp [hsp', hnc]

theorem typesGood_prefixMap (e : BEnv) (evs : List Ev) : TypesGood e (prefixMap (collectUris evs)) evs := by
  intro t hmem hok
  simp only [typeNameOK, Bool.and_eq_true, Bool.not_eq_true', List.all_eq_true, decide_eq_true_eq,
    localName] at hok
  obtain ⟨⟨⟨hne, hall⟩, hhead⟩, hnc⟩ := hok
  replace hhead : (splitQName t).2.head? ≠ some '{' := of_decide_eq_true hhead
  generalize hs : splitQName t = st at hne hall hhead hnc
  obtain ⟨ons, tag⟩ := st
  simp only at hne hall hhead hnc
  have hcolon : ∀ c ∈ tag, c ≠ ':' := fun c hc => (hall c hc).1
  have hspace : ∀ c ∈ tag, e.py.isSpace c = false := fun c hc => (hall c hc).2
  have hsp : (tag.contains ' ') = false := by
    cases hct : tag.contains ' ' with
    | false => rfl
    | true =>
      have hm : ' ' ∈ tag := by simpa using hct
      have := hspace ' ' hm
      have h2 : e.py.isSpace ' ' = true := rfl
      rw [h2] at this; cases this
  have htne : tag ≠ [] := by intro h; rw [h] at hne; simp at hne
  cases ons with
  | none =>
    -- no namespace: the bare name, resolved without a default namespace
    have htag := splitQName_none hs
    subst htag
    have hq : qnameText (prefixMap (collectUris evs)) tag = tag := by simp [qnameText, hs]
    rw [hq]
    have hres := resolveQName_bare e (prefixMap (collectUris evs)) tag htne hspace hcolon hhead hsp hnc
      (prefixMap_get_none _)
    cases htg : tag with
    | nil => exact absurd htg htne
    | cons c rest =>
      rw [htg] at hres
      simp [xsiTypeOf, hres, buildQName]
  | some ns =>
    obtain ⟨ht, hnsne⟩ := splitQName_some hs
    have hnsmem : ns ∈ collectUris evs := by
      unfold collectUris
      rw [List.mem_eraseDups]
      rcases hmem with hmem | hmem
      · refine List.mem_flatten.2 ⟨[ns], List.mem_map.2 ⟨_, hmem, ?_⟩, by simp⟩
        simp [dataUris, targetUri, hs]
      · refine List.mem_flatten.2 ⟨[ns], List.mem_map.2 ⟨_, hmem, ?_⟩, by simp⟩
        simp [dataUris, targetUri, hs]
    obtain ⟨i, hfind, hget⟩ := pmFrom_roundtrip ns 0 (collectUris evs) hnsmem
    rw [← prefixMap_eq] at hfind hget
    have hq : qnameText (prefixMap (collectUris evs)) t = ('q' :: natStr i) ++ ':' :: tag := by
      simp [qnameText, hs, hfind]
    rw [hq]
    have hpcolon : ∀ c ∈ ('q' :: natStr i), c ≠ ':' := by
      intro c hc
      rcases List.mem_cons.1 hc with rfl | hc'
      · decide
      · exact digit_ne_colon (natStr_digits i c hc')
    have hallsp : ∀ c ∈ ('q' :: natStr i) ++ ':' :: tag, e.py.isSpace c = false := by
      intro c hc
      simp only [List.cons_append, List.mem_cons, List.mem_append] at hc
      rcases hc with rfl | hc | rfl | hc
      · exact not_space_q _
      · exact digit_not_space _ (natStr_digits i c hc)
      · exact not_space_colon _
      · exact hspace c hc
    have hres := resolveQName_prefixed e (prefixMap (collectUris evs)) ('q' :: natStr i) tag ns htne hallsp
      hpcolon (by intro r h; simp at h) (by simp) hsp hnc hget hnsne
    have hne2 : ('q' :: natStr i) ++ ':' :: tag ≠ [] := by simp
    cases hv : ('q' :: natStr i) ++ ':' :: tag with
    | nil => exact absurd hv hne2
    | cons c rest =>
      rw [hv] at hres
      cases hnsv : ns with
      | nil => exact absurd hnsv hnsne
      | cons a l =>
        cases htv : tag with
        | nil => exact absurd htv htne
        | cons b k =>
          rw [hnsv, htv] at hres ht
          simp [xsiTypeOf, hres, buildQName, ht]

end Proofs.C01
