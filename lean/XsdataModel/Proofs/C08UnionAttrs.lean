/- C08 — helper lemmas: the events a UnionNode records under the lxml handler. -/
import XsdataModel.Backends.UnionAttrs

namespace Xs.Backends
open Py Xs.Bind

theorem get_clear_ne (s : AStore) (id id' : Nat) (h : id' ≠ id) : (s.clear id).get id' = s.get id' := by
  induction s with
  | nil => rfl
  | cons kv r ih =>
    obtain ⟨k, v⟩ := kv
    unfold AStore.get AStore.clear at ih ⊢
    simp only [List.map_cons, List.find?_cons]
    by_cases hk : k = id
    · subst hk
      have : ¬ k = id' := fun e => h e.symm
      simp only [if_true, this, decide_false]
      exact ih
    · simp only [hk, if_false]
      by_cases hk' : k = id'
      · simp [hk']
      · simp only [hk', decide_false]
        exact ih

theorem unionRecord_spec (s0 : AStore) (toks : List UTok) :
    ∀ s : AStore, noReuse toks = true → (∀ id ∈ startIds toks, s.get id = s0.get id) →
      unionRecord s toks = unionSpec s0 toks := by
  induction toks with
  | nil => intro _ _ _; rfl
  | cons t r ih =>
    intro s hn hs
    cases t with
    | start id q =>
      simp only [noReuse] at hn
      simp only [unionRecord, unionSpec, List.map_cons]
      rw [hs id (by simp [startIds])]
      congr 1
      exact ih s hn (fun i hi => hs i (by simp [startIds, hi]))
    | «end» id q =>
      simp only [noReuse, Bool.and_eq_true, Bool.not_eq_true', List.contains_eq_mem, decide_eq_false_iff_not] at hn
      simp only [unionRecord, unionSpec, List.map_cons]
      congr 1
      apply ih (s.clear id) hn.2
      intro i hi
      have hne : i ≠ id := by intro e; subst e; exact hn.1 hi
      rw [get_clear_ne s id i hne]
      exact hs i (by simpa [startIds] using hi)

end Xs.Backends
