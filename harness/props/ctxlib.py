"""Shared by C14 and C19: realise an abstract class universe (the JSON the Lean
model consumes) as real dataclasses living in throw-away modules, and export
the observable parts of real XmlMeta / XmlContext objects in the model's shape.

Nothing here edits /repo; classes are created with type()/dataclasses and
registered in modules whose names start with a per-realm prefix, which is also
the context's `models_package` so that the process-wide class universe
(`object.__subclasses__()`) is restricted to the realm's classes.
"""
from __future__ import annotations

import dataclasses
import gc
import itertools
import json
import sys
import types
from typing import Dict, List, Optional

from xsdata.exceptions import XmlContextError  # noqa: F401
from xsdata.formats.dataclass.context import XmlContext



def _warm_up():
    """Trigger every lazy import of the code under test once, so that
    len(sys.modules) only changes when a Realm says so."""
    from xsdata.formats.dataclass.parsers import DictDecoder, JsonParser, XmlParser  # noqa: F401
    from xsdata.formats.dataclass.parsers.handlers import LxmlEventHandler, XmlEventHandler
    from xsdata.formats.dataclass.serializers import DictEncoder, JsonSerializer, XmlSerializer  # noqa: F401
    from xsdata.formats.dataclass.serializers.mixins import EventGenerator  # noqa: F401

    @dataclasses.dataclass
    class _W:
        x: Optional[str] = dataclasses.field(default=None, metadata={"type": "Element"})
        y: Optional[object] = dataclasses.field(default=None, metadata={"type": "Wildcard"})

    ctx = XmlContext()
    for h in (LxmlEventHandler, XmlEventHandler):
        xml = XmlSerializer(context=ctx).render(_W(x="1"))
        XmlParser(context=ctx, handler=h).from_string(xml, _W)
        XmlParser(context=ctx, handler=h).from_string("<_W><x>1</x><k/></_W>", _W)
    js = JsonSerializer(context=ctx).render(_W(x="1"))
    JsonParser(context=ctx).from_string(js, _W)
    try:
        XmlParser(context=ctx).from_string("<nope", _W)
    except Exception:  # noqa: BLE001
        pass
    try:
        JsonParser(context=ctx).from_string("{", _W)
    except Exception:  # noqa: BLE001
        pass


_warm_up()
XSI_TYPE = "{http://www.w3.org/2001/XMLSchema-instance}type"
_counter = itertools.count()
_since_gc = 0

KIND_META = {"element": "Element", "attribute": "Attribute", "wildcard": "Wildcard", "text": "Text", "elements": "Elements"}


def cdef(name, base=None, model=True, pkg=True, ns=..., mname=None, tns=None, modns=None,
         glob=True, inner=False, bad=False, fields=()):
    """Abstract class definition (JSON shape of Lean's ClassDef). ns=... means
    'Meta.namespace absent'."""
    return {
        "name": name, "base": base, "model": model, "pkg": pkg,
        "has_ns": ns is not ..., "ns": None if ns is ... else ns,
        "mname": mname, "tns": tns, "modns": modns, "global": glob, "inner": inner,
        "bad": bad, "fields": list(fields),
    }


def fdef(name, kind="element", mname=None, ns=None, cls=None, wrapper=None, alts=()):
    return {"name": name, "kind": kind, "mname": mname, "ns": ns, "cls": cls, "wrapper": wrapper,
            "alts": [dict(a) for a in alts]}


def alt(cls, name=None, ns=None):
    """One entry of metadata['choices'] of a compound field (name=None: the key is absent -> 'any')."""
    return {"name": name, "ns": ns, "cls": cls}


def cfield(name, alts):
    """A compound field: List[object] with type='Elements' and the given choices."""
    return fdef(name, kind="elements", alts=alts)


class Realm:
    """The real-world counterpart of a (Universe, World) pair."""

    def __init__(self, universe: list[dict]):
        global _since_gc
        _since_gc += 1
        if _since_gc >= 200:
            gc.collect()
            _since_gc = 0
        self.n = next(_counter)
        self.pkg = f"c14p{self.n}_"
        self.universe = universe
        self.classes: list[type] = []
        self.ids: dict[type, int] = {}
        self.modules: dict[tuple, types.ModuleType] = {}
        self.dummies: list[str] = []
        for d in universe:
            self._module_for(d)
        self.base = len(sys.modules)

    # ------------------------------------------------------------ modules
    def _module_for(self, d):
        key = (d["modns"], d["pkg"])
        m = self.modules.get(key)
        if m is None:
            name = (self.pkg if d["pkg"] else "x" + self.pkg) + f"m{len(self.modules)}"
            m = types.ModuleType(name)
            if d["modns"] is not None:
                m.__NAMESPACE__ = d["modns"]
            sys.modules[name] = m
            self.modules[key] = m
        return m

    def set_mods(self, k: int):
        while len(self.dummies) < k:
            name = f"c14dummy{self.n}_{len(self.dummies)}"
            sys.modules[name] = types.ModuleType(name)
            self.dummies.append(name)
        while len(self.dummies) > k:
            sys.modules.pop(self.dummies.pop(), None)

    def set_world(self, loaded: int, mods: int):
        while len(self.classes) < min(loaded, len(self.universe)):
            self._make_class(len(self.classes))
        self.set_mods(mods)
        if len(sys.modules) != self.base + mods:
            raise RuntimeError(f"len(sys.modules) drifted: {len(sys.modules)} != {self.base}+{mods}")

    def close(self):
        self.set_mods(0)
        for m in self.modules.values():
            sys.modules.pop(m.__name__, None)
            m.__dict__.clear()
        self.modules.clear()
        self.classes.clear()
        self.ids.clear()

    # ------------------------------------------------------------ classes
    def _make_class(self, i: int):
        d = self.universe[i]
        mod = self._module_for(d)
        bases = (self.classes[d["base"]],) if d["base"] is not None else ()
        ns: dict = {"__module__": mod.__name__, "__annotations__": {}}
        meta_attrs = {}
        if d["has_ns"]:
            meta_attrs["namespace"] = d["ns"]
        if d["mname"] is not None:
            meta_attrs["name"] = d["mname"]
        if d["tns"] is not None:
            meta_attrs["target_namespace"] = d["tns"]
        if not d["global"]:
            meta_attrs["global_type"] = False
        if meta_attrs:
            ns["Meta"] = type("Meta", (), meta_attrs)
        for f in d["fields"]:
            md = {"type": KIND_META[f["kind"]]}
            if f["kind"] == "elements":
                choices = []
                for a in f.get("alts", ()):
                    ch = {"type": self.classes[a["cls"]]}
                    if a["name"] is not None:
                        ch["name"] = a["name"]
                    if a["ns"] is not None:
                        ch["namespace"] = a["ns"]
                    choices.append(ch)
                md["choices"] = tuple(choices)
                ns["__annotations__"][f["name"]] = List[object]
                ns[f["name"]] = dataclasses.field(default_factory=list, metadata=md)
                continue
            if f["cls"] is not None:
                tp = Optional[self.classes[f["cls"]]]
            elif f["kind"] == "wildcard":
                tp = Optional[object]
            else:
                tp = Optional[str]
            if f["mname"] is not None:
                md["name"] = f["mname"]
            if f["ns"] is not None:
                md["namespace"] = f["ns"]
            if f.get("wrapper") is not None:
                md["wrapper"] = f["wrapper"]
            ns["__annotations__"][f["name"]] = tp
            ns[f["name"]] = dataclasses.field(default=None, metadata=md)
        if d["bad"]:
            ns["__annotations__"]["bad_"] = Dict[str, str]
            ns["bad_"] = dataclasses.field(default=None, metadata={"type": "Element"})
        cls = type(d["name"], bases, ns)
        if d["model"]:
            cls = dataclasses.dataclass(cls)
        if d["inner"]:
            cls.__qualname__ = "Outer." + d["name"]
        setattr(mod, d["name"], cls)
        self.classes.append(cls)
        self.ids[cls] = i
        return cls

    def cls(self, i: int):
        if i < len(self.classes):
            return self.classes[i]
        if i < len(self.universe):
            raise RuntimeError(f"class {i} is not loaded yet")
        return int  # "a class the universe does not know": not a binding model

    def obj(self, toks):
        """The object tree a token list denotes (leaf values are the string 'v')."""
        root = None
        stack = []
        for t in toks:
            if t[0] == "enter":
                o = self.cls(t[2])()
                if stack:
                    fld = dataclasses.fields(stack[-1])[t[1]]
                    if fld.metadata.get("type") == "Elements":
                        getattr(stack[-1], fld.name).append(o)  # a compound field holds a list
                    else:
                        setattr(stack[-1], fld.name, o)
                else:
                    root = o
                stack.append(o)
            elif t[0] == "leaf":
                setattr(stack[-1], dataclasses.fields(stack[-1])[t[1]].name, "v")
            else:
                stack.pop()
        return root

    def context(self) -> XmlContext:
        return XmlContext(models_package=self.pkg)

    # ------------------------------------------------------------ export
    def cid(self, c):
        return self.ids.get(c, -1) if c is not None else None

    def var_kind(self, v):
        if v.is_element:
            return "element"
        if v.is_attribute:
            return "attribute"
        if v.is_wildcard:
            return "wildcard"
        if v.is_text:
            return "text"
        if v.is_elements:
            return "elements"
        return "other"

    def meta(self, m):
        return {
            "cls": self.cid(m.clazz), "qname": m.qname, "ns": m.namespace, "tq": m.target_qname,
            "vars": [
                [v.index, v.name, v.local_name, v.qname, sorted(v.namespaces), self.var_kind(v), self.cid(v.clazz), v.wrapper,
                 [[q, self.cid(ch.clazz)] for q, ch in v.elements.items()]]
                for v in m.get_all_vars()
            ],
        }

    def state(self, ctx):
        return {
            # keys are (class, parent_ns) since the repair of C14-F1; a bare class key
            # (older code) is exported with parent_ns "?" so that the difference shows
            "cache": [[self.cid(k[0]), k[1], m.qname, m.namespace] if isinstance(k, tuple)
                      else [self.cid(k), "?", m.qname, m.namespace] for k, m in ctx.cache.items()],
            "xsi": [[k, [self.cid(c) for c in l]] for k, l in ctx.xsi_cache.items()],
            "stamp": 0 if ctx.sys_modules == 0 else ctx.sys_modules - self.base + 1,
        }

    # ------------------------------------------------------------ one call
    def call(self, ctx, op, gen=None):
        """Run one context method; return the model's Out shape.  `gen`: the
        EventGenerator instance to serialise with (one per history for the shared
        side: the model says serialisation depends on the context alone, so a
        serializer instance must not carry anything from call to call)."""
        k = op["k"]
        try:
            if k == "build":
                return {"meta": self.meta(ctx.build(self.cls(op["c"]), op["pns"]))}
            if k == "fetch":
                return {"meta": self.meta(ctx.fetch(self.cls(op["c"]), op["pns"], op["xsi"]))}
            if k == "find_types":
                return {"types": [self.cid(c) for c in ctx.find_types(op["q"])]}
            if k == "find_type":
                return {"type": self.cid(ctx.find_type(op["q"]))}
            if k == "find_subclass":
                return {"type": self.cid(ctx.find_subclass(self.cls(op["c"]), op["q"]))}
            if k == "find_type_by_fields":
                return {"type": self.cid(ctx.find_type_by_fields(set(op["names"])))}
            if k == "local_names_match":
                return {"bool": bool(ctx.local_names_match(set(op["names"]), self.cls(op["c"])))}
            if k == "build_xsi_cache":
                ctx.build_xsi_cache()
                return {"done": None}
            if k == "reset":
                ctx.reset()
                return {"done": None}
            if k == "serialize":
                from xsdata.formats.dataclass.serializers.mixins import EventGenerator

                gen = gen if gen is not None else EventGenerator(context=ctx)
                events = list(gen.generate(self.obj(op["toks"])))
                # START names, and the xsi:type attributes as "@<qname>"
                return {"names": [e[1] if e[0] == "start" else "@" + str(e[2]) for e in events
                                  if e[0] == "start" or (e[0] == "attr" and e[1] == XSI_TYPE)]}
        except (XmlContextError, ValueError, KeyError, IndexError) as e:
            return {"err": type(e).__name__}
        except Exception as e:  # noqa: BLE001
            return {"err": "LEAK:" + type(e).__name__}
        raise ValueError("unknown op " + k)


_PERSISTENT: dict[str, tuple] = {}


def _persistent(universe):
    key = json.dumps(universe, sort_keys=True)
    hit = _PERSISTENT.get(key)
    if hit is None:
        realm = Realm(universe)
        realm.set_world(len(universe), 0)
        hit = _PERSISTENT[key] = (realm, {})
    return hit


def run_steps(universe, steps, keep=False):
    """Shared context vs fresh context, call by call (the shape of ctx.run).

    keep=True (bounded-exhaustive part, every class loaded from the start): the
    realm's classes are created once and reused by later cases, and the result
    of a call on a *fresh* context is computed once per (world, op) - a fresh
    context has no history by construction."""
    n = len(universe)
    if keep and all(st["loaded"] == n for st in steps):
        realm, memo = _persistent(universe)
        close = False
    else:
        realm, memo, close = Realm(universe), None, True
    try:
        from xsdata.formats.dataclass.serializers.mixins import EventGenerator

        shared = realm.context()
        shared_gen = EventGenerator(context=shared)  # one serializer instance for the whole history
        out = []
        for st in steps:
            realm.set_world(st["loaded"], st["mods"])
            o = realm.call(shared, st["op"], shared_gen)
            if memo is None:
                f = realm.call(realm.context(), st["op"])
            else:
                k = json.dumps([st["mods"], st["op"]], sort_keys=True)
                f = memo.get(k)
                if f is None:
                    f = memo[k] = realm.call(realm.context(), st["op"])
            out.append({"shared": o, "fresh": f, "state": realm.state(shared)})
        return out
    finally:
        if close:
            realm.close()
        else:
            realm.set_mods(0)
