/- `DesignateClassPackages` (clusters / namespace clusters): the final
`(package, module)` of every class is a function of the *partition* into
strongly connected components, not of the order in which the components are
yielded nor of the iteration order inside a component. -/
import XsdataModel.Codegen.Packages
import XsdataModel.Proofs.ResolverPerm

set_option linter.unusedSimpArgs false
set_option linter.unusedVariables false

namespace Xs.Codegen
open Py List

/-! ### allSome -/

theorem allSome_map_some {α β} (f : α → Option β) (g : α → β) :
    ∀ (l : List α), (∀ x ∈ l, f x = some (g x)) → allSome (l.map f) = some (l.map g)
  | [], _ => rfl
  | a :: l, h => by
    have ha := h a List.mem_cons_self
    have ih := allSome_map_some f g l (fun x hx => h x (List.mem_cons_of_mem _ hx))
    simp only [List.map_cons, ha, allSome, ih, Option.map_some]

theorem allSome_map_none {α β} (f : α → Option β) :
    ∀ (l : List α) (x : α), x ∈ l → f x = none → allSome (l.map f) = none
  | a :: l, x, hx, hn => by
    simp only [List.map_cons]
    cases hfa : f a with
    | none => rfl
    | some b =>
      have : x ∈ l := by
        rcases List.mem_cons.1 hx with h | h
        · subst h; rw [hn] at hfa; cases hfa
        · exact h
      simp only [allSome, allSome_map_none f l x this hn, Option.map_none]

theorem allSome_mem {α} : ∀ {l : List (Option α)} {r : List α}, allSome l = some r →
    ∀ c ∈ r, some c ∈ l
  | [], r, h, c, hc => by
    simp only [allSome, Option.some.injEq] at h; subst h; cases hc
  | none :: l, r, h, c, hc => by simp [allSome] at h
  | some a :: l, r, h, c, hc => by
    simp only [allSome] at h
    cases hr : allSome l with
    | none => simp [hr] at h
    | some r' =>
      simp only [hr, Option.map_some, Option.some.injEq] at h
      subst h
      rcases List.mem_cons.1 hc with h1 | h1
      · subst h1; exact List.mem_cons_self
      · exact List.mem_cons_of_mem _ (allSome_mem hr c h1)

/-! ### the edges of one component -/

theorem firstClass_qname {cs : List ClassInfo} {q : Str} {c : ClassInfo}
    (h : firstClass cs q = some c) : c.qname = q := by
  unfold firstClass at h
  have := List.find?_some h
  simpa using this

/-- `set(first(q).dependencies()) ∩ qnames` (empty when `q` is unknown) -/
def depsIn (cs : List ClassInfo) (qnames : List Str) (q : Str) : List Str :=
  (((firstClass cs q).map (·.deps)).getD []).filter (qnames.contains ·)

theorem groupEdges_some {cs : List ClassInfo} {qnames : List Str}
    (h : ∀ q ∈ qnames, (firstClass cs q).isSome = true) :
    groupEdges cs qnames = some (qnames.map (fun q => (q, depsIn cs qnames q))) := by
  unfold groupEdges
  apply allSome_map_some
  intro q hq
  have := h q hq
  cases hf : firstClass cs q with
  | none => simp [hf] at this
  | some c => simp [depsIn, hf]

theorem groupEdges_none {cs : List ClassInfo} {qnames : List Str} {q : Str}
    (hq : q ∈ qnames) (h : firstClass cs q = none) : groupEdges cs qnames = none := by
  unfold groupEdges
  apply allSome_map_none _ _ q hq
  simp [h]

theorem depsIn_perm {cs : List ClassInfo} {g g' : List Str} (hp : g ~ g') (q : Str) :
    depsIn cs g q = depsIn cs g' q := by
  unfold depsIn
  apply List.filter_congr
  intro x _
  exact contains_eq_of_perm hp x

theorem groupEdges_equiv {cs : List ClassInfo} {g g' : List Str} (hp : g ~ g') (hn : g.Nodup) :
    (groupEdges cs g = none ∧ groupEdges cs g' = none) ∨
    ∃ e e', groupEdges cs g = some e ∧ groupEdges cs g' = some e' ∧ DepsEquiv e e' := by
  by_cases h : ∀ q ∈ g, (firstClass cs q).isSome = true
  · right
    have h' : ∀ q ∈ g', (firstClass cs q).isSome = true := fun q hq => h q (hp.symm.subset hq)
    refine ⟨_, _, groupEdges_some h, groupEdges_some h', ?_⟩
    have hn' : g'.Nodup := (hp.nodup_iff).1 hn
    have keys : ∀ l : List Str, (l.map (fun q => (q, depsIn cs l q))).map (·.1) = l := by
      intro l; rw [List.map_map]; simp [Function.comp_def]
    refine ⟨by rw [keys]; exact hn, by rw [keys]; exact hn', ?_, ?_⟩
    · intro k ds hk
      obtain ⟨q, hq, heq⟩ := List.mem_map.1 hk
      simp only [Prod.mk.injEq] at heq
      obtain ⟨rfl, rfl⟩ := heq
      exact ⟨depsIn cs g' q, List.mem_map.2 ⟨q, hp.subset hq, rfl⟩, fun x => by rw [depsIn_perm hp]⟩
    · intro k ds hk
      obtain ⟨q, hq, heq⟩ := List.mem_map.1 hk
      simp only [Prod.mk.injEq] at heq
      obtain ⟨rfl, rfl⟩ := heq
      exact ⟨depsIn cs g q, List.mem_map.2 ⟨q, hp.symm.subset hq, rfl⟩, fun x => by rw [depsIn_perm hp]⟩
  · left
    have : ∃ q, q ∈ g ∧ firstClass cs q = none := by
      apply Classical.byContradiction
      intro hne
      apply h
      intro q hq
      cases hf : firstClass cs q with
      | none => exact absurd ⟨q, hq, hf⟩ hne
      | some c => rfl
    obtain ⟨q, hq, hf⟩ := this
    exact ⟨groupEdges_none hq hf, groupEdges_none (hp.subset hq) hf⟩

/-- **`sort_classes` does not depend on the iteration order of the component set.** -/
theorem sortClasses_perm (cs : List ClassInfo) {g g' : List Str} (hp : g ~ g') (hn : g.Nodup) :
    sortClasses cs g = sortClasses cs g' := by
  unfold sortClasses
  rcases groupEdges_equiv (cs := cs) hp hn with ⟨h1, h2⟩ | ⟨e, e', h1, h2, heq⟩
  · rw [h1, h2]
  · rw [h1, h2]
    simp only [toposortFlatten_equiv heq]

/-! ### which classes a component assigns -/

theorem toposortLoop_mem : ∀ (n : Nat) (d : Deps) (acc out : List Str),
    toposortLoop n d acc = some out → ∀ x ∈ out, x ∈ acc ∨ x ∈ d.map (·.1)
  | 0, d, acc, out, h, x, hx => by
    simp only [toposortLoop] at h
    split at h
    · simp only [Option.some.injEq] at h; subst h; exact Or.inl hx
    · cases h
  | n + 1, d, acc, out, h, x, hx => by
    rw [toposortLoop_unfold] at h
    split at h
    · split at h
      · simp only [Option.some.injEq] at h; subst h; exact Or.inl hx
      · cases h
    · rcases toposortLoop_mem n _ _ out h x hx with h1 | h1
      · rcases List.mem_append.1 h1 with h2 | h2
        · exact Or.inl h2
        · right
          have : x ∈ readyOf d := pySorted_mem.1 h2
          unfold readyOf at this
          obtain ⟨kv, hkv, rfl⟩ := List.mem_map.1 this
          exact List.mem_map.2 ⟨kv, (List.mem_filter.1 hkv).1, rfl⟩
      · right
        unfold restOf at h1
        rw [List.map_map] at h1
        obtain ⟨kv, hkv, rfl⟩ := List.mem_map.1 h1
        exact List.mem_map.2 ⟨kv, (List.mem_filter.1 hkv).1, rfl⟩

/-- every emitted item is a key or a dependency of the input dict -/
theorem toposortFlatten_mem {d : Deps} {out : List Str} (h : toposortFlatten d = some out) :
    ∀ x ∈ out, x ∈ d.map (·.1) ∨ ∃ k ds, (k, ds) ∈ d ∧ x ∈ ds := by
  intro x hx
  unfold toposortFlatten at h
  rcases toposortLoop_mem _ _ _ _ h x hx with h1 | h1
  · cases h1
  · rw [toposortPrep_eq, List.map_append, List.mem_append] at h1
    rcases h1 with h2 | h2
    · left; rw [stripSelf_keys] at h2; exact h2
    · right
      rw [List.map_map] at h2
      obtain ⟨y, hy, rfl⟩ := List.mem_map.1 h2
      obtain ⟨⟨k, ds, hm, hxd⟩, _⟩ := mem_extraOf.1 hy
      obtain ⟨ds0, hm0, rfl⟩ := mem_stripSelf.1 hm
      exact ⟨k, ds0, hm0, (List.mem_filter.1 hxd).1⟩

theorem groupEdges_shape {cs : List ClassInfo} {g : List Str} {e : Deps}
    (h : groupEdges cs g = some e) : e = g.map (fun q => (q, depsIn cs g q)) := by
  by_cases hall : ∀ q ∈ g, (firstClass cs q).isSome = true
  · rw [groupEdges_some hall] at h; exact (Option.some.inj h).symm
  · have : ∃ q, q ∈ g ∧ firstClass cs q = none := by
      apply Classical.byContradiction
      intro hne
      apply hall
      intro q hq
      cases hf : firstClass cs q with
      | none => exact absurd ⟨q, hq, hf⟩ hne
      | some c => rfl
    obtain ⟨q, hq, hf⟩ := this
    rw [groupEdges_none hq hf] at h; cases h

/-- the classes a component yields all belong to the component -/
theorem sortClasses_subset {cs : List ClassInfo} {g : List Str} {classes : List ClassInfo}
    (h : sortClasses cs g = .ok classes) : ∀ c ∈ classes, c.qname ∈ g := by
  unfold sortClasses at h
  cases he : groupEdges cs g with
  | none => simp [he] at h
  | some e =>
    simp only [he] at h
    cases ht : toposortFlatten e with
    | none => simp [ht] at h
    | some order =>
      simp only [ht] at h
      cases ha : allSome (order.map (firstClass cs)) with
      | none => simp [ha] at h
      | some r =>
        simp only [ha, Except.ok.injEq] at h
        subst h
        intro c hc
        have hsome := allSome_mem ha c hc
        obtain ⟨q, hq, hfq⟩ := List.mem_map.1 hsome
        have hcq : c.qname = q := firstClass_qname hfq
        rw [hcq]
        have hshape := groupEdges_shape he
        rcases toposortFlatten_mem ht q hq with h1 | ⟨k, ds, hm, hx⟩
        · rw [hshape, List.map_map] at h1
          simpa [Function.comp_def] using h1
        · rw [hshape] at hm
          obtain ⟨q0, _, heq⟩ := List.mem_map.1 hm
          simp only [Prod.mk.injEq] at heq
          obtain ⟨rfl, rfl⟩ := heq
          unfold depsIn at hx
          have := (List.mem_filter.1 hx).2
          simpa using this

/-! ### the loop over the components -/

/-- look-up equivalence of two assignment logs -/
def LEq (r r' : Assignments) : Prop := ∀ q, List.lookup q r = List.lookup q r'

/-- same outcome up to look-up equivalence; any two errors count as the same outcome -/
def ExEq : Except PkgErr Assignments → Except PkgErr Assignments → Prop
  | .ok r, .ok r' => LEq r r'
  | .error _, .error _ => True
  | _, _ => False

theorem ExEq.refl (x : Except PkgErr Assignments) : ExEq x x := by
  cases x with
  | ok r => exact fun _ => rfl
  | error e => trivial

theorem ExEq.trans {x y z : Except PkgErr Assignments} (h1 : ExEq x y) (h2 : ExEq y z) : ExEq x z := by
  cases x <;> cases y <;> cases z <;> simp only [ExEq] at * <;> try trivial
  · exact fun q => (h1 q).trans (h2 q)

def foldGroups (target : List ClassInfo → Except PkgErr (Str × Str)) (cs : List ClassInfo) :
    List (List Str) → Assignments → Except PkgErr Assignments
  | [], acc => .ok acc
  | g :: gs, acc =>
    match groupStep target cs acc g with
    | .error e => .error e
    | .ok acc' => foldGroups target cs gs acc'

theorem foldlM_eq_foldGroups (target : List ClassInfo → Except PkgErr (Str × Str))
    (cs : List ClassInfo) : ∀ (comps : List (List Str)) (acc : Assignments),
    comps.foldlM (groupStep target cs) acc = foldGroups target cs comps acc
  | [], acc => rfl
  | g :: gs, acc => by
    rw [List.foldlM_cons]
    simp only [foldGroups]
    cases hs : groupStep target cs acc g with
    | error e => rfl
    | ok a1 => exact foldlM_eq_foldGroups target cs gs a1

theorem assignGroups_eq (target : List ClassInfo → Except PkgErr (Str × Str))
    (cs : List ClassInfo) (comps : List (List Str)) :
    assignGroups target cs comps = foldGroups target cs comps [] :=
  foldlM_eq_foldGroups target cs comps []

/-- the new log entries of a component -/
def newEntries (classes : List ClassInfo) (p m : Str) : Assignments :=
  classes.reverse.map (fun c => (c.qname, p, m))

theorem assign_eq (classes : List ClassInfo) (p m : Str) (acc : Assignments) :
    assign classes p m acc = newEntries classes p m ++ acc := by
  unfold assign newEntries
  induction classes generalizing acc with
  | nil => rfl
  | cons c cl ih => simp only [List.foldl_cons, ih, List.reverse_cons, List.map_append, List.map_cons,
      List.map_nil, List.append_assoc, List.singleton_append]

theorem lookup_append (q : Str) : ∀ (l r : Assignments),
    List.lookup q (l ++ r) = (List.lookup q l).or (List.lookup q r)
  | [], r => by simp [List.lookup]
  | (k, v) :: l, r => by
    simp only [List.cons_append, List.lookup]
    cases h : (q == k) with
    | true => simp
    | false => exact lookup_append q l r

theorem lookup_none_of_not_mem (q : Str) : ∀ (l : Assignments), q ∉ l.map (·.1) → List.lookup q l = none
  | [], _ => rfl
  | (k, v) :: l, h => by
    simp only [List.map_cons, List.mem_cons, not_or] at h
    have : (q == k) = false := by simpa using h.1
    simp only [List.lookup, this]
    exact lookup_none_of_not_mem q l h.2

/-- a step outcome, split into what it prepends -/
theorem groupStep_ok {target : List ClassInfo → Except PkgErr (Str × Str)} {cs : List ClassInfo}
    {acc acc' : Assignments} {g : List Str} (h : groupStep target cs acc g = .ok acc') :
    ∃ new : Assignments, (∀ acc0, groupStep target cs acc0 g = .ok (new ++ acc0)) ∧
      acc' = new ++ acc ∧ ∀ q, q ∈ new.map (·.1) → q ∈ g := by
  unfold groupStep at h
  cases hs : sortClasses cs g with
  | error e => simp [hs] at h
  | ok classes =>
    simp only [hs] at h
    cases ht : target classes with
    | error e => simp [ht] at h
    | ok pm =>
      simp only [ht, Except.ok.injEq] at h
      refine ⟨newEntries classes pm.1 pm.2, ?_, ?_, ?_⟩
      · intro acc0
        unfold groupStep
        simp only [hs, ht, assign_eq]
      · rw [← h, assign_eq]
      · intro q hq
        unfold newEntries at hq
        rw [List.map_map] at hq
        obtain ⟨c, hc, rfl⟩ := List.mem_map.1 hq
        exact sortClasses_subset hs c (List.mem_reverse.1 hc)

theorem groupStep_error {target : List ClassInfo → Except PkgErr (Str × Str)} {cs : List ClassInfo}
    {acc : Assignments} {g : List Str} {e : PkgErr} (h : groupStep target cs acc g = .error e)
    (acc0 : Assignments) : groupStep target cs acc0 g = .error e := by
  unfold groupStep at h ⊢
  cases hs : sortClasses cs g with
  | error e' => simpa [hs] using h
  | ok classes =>
    simp only [hs] at h ⊢
    cases ht : target classes with
    | error e' => simpa [ht] using h
    | ok pm => simp [ht] at h

/-- continuing from look-up equivalent logs gives equivalent outcomes -/
theorem foldGroups_congr (target : List ClassInfo → Except PkgErr (Str × Str)) (cs : List ClassInfo) :
    ∀ (comps : List (List Str)) (acc acc' : Assignments), LEq acc acc' →
      ExEq (foldGroups target cs comps acc) (foldGroups target cs comps acc')
  | [], acc, acc', h => h
  | g :: gs, acc, acc', h => by
    simp only [foldGroups]
    cases hs : groupStep target cs acc g with
    | error e =>
      rw [groupStep_error hs acc']
      trivial
    | ok a1 =>
      obtain ⟨new, hall, rfl, _⟩ := groupStep_ok hs
      rw [hall acc']
      apply foldGroups_congr target cs gs
      intro q
      rw [lookup_append, lookup_append, h q]

/-- two components with disjoint members can be handled in either order -/
theorem foldGroups_swap (target : List ClassInfo → Except PkgErr (Str × Str)) (cs : List ClassInfo)
    (a b : List Str) (l : List (List Str)) (acc : Assignments)
    (hd : ∀ q, q ∈ a → q ∉ b) :
    ExEq (foldGroups target cs (a :: b :: l) acc) (foldGroups target cs (b :: a :: l) acc) := by
  simp only [foldGroups]
  cases ha : groupStep target cs acc a with
  | error e =>
    cases hb : groupStep target cs acc b with
    | error e' => trivial
    | ok b1 =>
      simp only
      rw [groupStep_error ha b1]
      trivial
  | ok a1 =>
    obtain ⟨na, halla, rfl, hka⟩ := groupStep_ok ha
    cases hb : groupStep target cs acc b with
    | error e' =>
      simp only
      rw [groupStep_error hb (na ++ acc)]
      trivial
    | ok b1 =>
      obtain ⟨nb, hallb, rfl, hkb⟩ := groupStep_ok hb
      simp only
      rw [hallb (na ++ acc), halla (nb ++ acc)]
      apply foldGroups_congr target cs l
      intro q
      simp only [lookup_append]
      by_cases hqa : q ∈ na.map (·.1)
      · have : q ∉ nb.map (·.1) := fun hh => hd q (hka q hqa) (hkb q hh)
        rw [lookup_none_of_not_mem q nb this]
        simp
      · rw [lookup_none_of_not_mem q na hqa]
        simp

/-- members of different components are different -/
def DisjointComps (comps : List (List Str)) : Prop :=
  comps.Pairwise (fun a b => ∀ q, q ∈ a → q ∉ b)

theorem DisjointComps.perm {c c' : List (List Str)} (h : DisjointComps c) (hp : c ~ c') :
    DisjointComps c' :=
  List.Pairwise.perm h hp (fun {x y} hxy q hq hq' => hxy q hq' hq)

/-- the loop is insensitive to the order in which the components are yielded -/
theorem foldGroups_perm (target : List ClassInfo → Except PkgErr (Str × Str)) (cs : List ClassInfo)
    {c c' : List (List Str)} (hp : c ~ c') :
    DisjointComps c → ∀ acc, ExEq (foldGroups target cs c acc) (foldGroups target cs c' acc) := by
  induction hp with
  | nil => intro _ acc; exact ExEq.refl _
  | cons g _ ih =>
    intro hd acc
    simp only [foldGroups]
    cases hs : groupStep target cs acc g with
    | error e => trivial
    | ok a1 => exact ih (List.Pairwise.of_cons hd) a1
  | swap a b l =>
    intro hd acc
    have hba : ∀ q, q ∈ b → q ∉ a := by
      have := List.rel_of_pairwise_cons hd (List.mem_cons_self : a ∈ a :: l)
      exact this
    exact foldGroups_swap target cs b a l acc hba
  | trans h1 _ ih1 ih2 =>
    intro hd acc
    exact ExEq.trans (ih1 hd acc) (ih2 (hd.perm h1) acc)

/-- component-wise: the same components in the same order, each listed in another
internal order (and duplicate free, as a set is) -/
inductive InnerPerm : List (List Str) → List (List Str) → Prop
  | nil : InnerPerm [] []
  | cons {g g' : List Str} {t t' : List (List Str)} :
      g ~ g' → g.Nodup → InnerPerm t t' → InnerPerm (g :: t) (g' :: t')

theorem groupStep_perm (target : List ClassInfo → Except PkgErr (Str × Str)) (cs : List ClassInfo)
    (acc : Assignments) {g g' : List Str} (hp : g ~ g') (hn : g.Nodup) :
    groupStep target cs acc g = groupStep target cs acc g' := by
  unfold groupStep
  rw [sortClasses_perm cs hp hn]

/-- … and to the iteration order inside each component -/
theorem foldGroups_inner (target : List ClassInfo → Except PkgErr (Str × Str)) (cs : List ClassInfo) :
    ∀ {c c' : List (List Str)}, InnerPerm c c' →
      ∀ acc, foldGroups target cs c acc = foldGroups target cs c' acc
  | _, _, .nil, acc => rfl
  | _, _, .cons (g := g) (g' := g') hp hn t, acc => by
    simp only [foldGroups, groupStep_perm target cs acc hp hn]
    cases groupStep target cs acc g' with
    | error e => rfl
    | ok a1 => exact foldGroups_inner target cs t a1

/-- the same partition: `comps'` lists the components of `comps` in another
order, each in another internal order -/
def SamePartition (comps comps' : List (List Str)) : Prop :=
  ∃ mid, InnerPerm comps mid ∧ mid ~ comps'

theorem InnerPerm.exists_perm : ∀ {t t' : List (List Str)}, InnerPerm t t' →
    ∀ b', b' ∈ t' → ∃ b, b ∈ t ∧ b ~ b'
  | _, _, .nil, b', hb' => by cases hb'
  | _, _, .cons hp _ ht, b', hb' => by
    rcases List.mem_cons.1 hb' with h1 | h1
    · subst h1; exact ⟨_, List.mem_cons_self, hp⟩
    · obtain ⟨b, hb, hbp⟩ := ht.exists_perm b' h1
      exact ⟨b, List.mem_cons_of_mem _ hb, hbp⟩

theorem disjoint_of_innerPerm : ∀ {c c' : List (List Str)},
    InnerPerm c c' → DisjointComps c → DisjointComps c'
  | _, _, .nil, _ => List.Pairwise.nil
  | _, _, .cons hp _ ht, hd => by
    have hd' := List.pairwise_cons.1 hd
    refine List.pairwise_cons.2 ⟨?_, disjoint_of_innerPerm ht hd'.2⟩
    intro b' hb' q hq hqb
    obtain ⟨b, hb, hbp⟩ := ht.exists_perm b' hb'
    exact hd'.1 b hb q (hp.symm.subset hq) (hbp.symm.subset hqb)

/-- **Designation is a function of the partition.** -/
theorem assignGroups_partition_invariant (target : List ClassInfo → Except PkgErr (Str × Str))
    (cs : List ClassInfo) {comps comps' : List (List Str)} (h : SamePartition comps comps')
    (hd : DisjointComps comps) :
    (assignGroups target cs comps).toOption.map (finalAssignment cs)
      = (assignGroups target cs comps').toOption.map (finalAssignment cs) := by
  obtain ⟨mid, hin, hperm⟩ := h
  rw [assignGroups_eq, assignGroups_eq, foldGroups_inner target cs hin []]
  have hd' : DisjointComps mid := disjoint_of_innerPerm hin hd
  have := foldGroups_perm target cs hperm hd' []
  cases h1 : foldGroups target cs mid [] with
  | error e =>
    cases h2 : foldGroups target cs comps' [] with
    | error e' => rfl
    | ok r' => rw [h1, h2] at this; exact absurd this (by simp [ExEq])
  | ok r =>
    cases h2 : foldGroups target cs comps' [] with
    | error e' => rw [h1, h2] at this; exact absurd this (by simp [ExEq])
    | ok r' =>
      rw [h1, h2] at this
      simp only [Except.toOption, Option.map_some, Option.some.injEq]
      unfold finalAssignment
      apply List.map_congr_left
      intro c _
      rw [this c.qname]

end Xs.Codegen
