/- `escape` / `quoteattr`: what is written can be read back and contains no markup. -/
import XsdataModel.Spec.XmlNs

namespace Proofs.Escape
open Py Xs.Sax Spec.XmlNs

theorem replaceChar_flatMap (s : Str) (f : Char → Str) (c : Char) (b : Str) :
    replaceChar (s.flatMap f) c b = s.flatMap (fun x => replaceChar (f x) c b) := by
  unfold replaceChar
  rw [List.flatMap_assoc]

/-- per character image of `escape` -/
def escChar (c : Char) : Str :=
  if c = '&' then amp else if c = '>' then gt else if c = '<' then lt else [c]

theorem escape_eq (s : Str) : escape s = s.flatMap escChar := by
  unfold escape
  have h0 : replaceChar s '&' amp = s.flatMap (fun x => if x = '&' then amp else [x]) := rfl
  rw [h0, replaceChar_flatMap, replaceChar_flatMap]
  congr 1
  funext c
  by_cases h1 : c = '&'
  · subst h1; decide
  · by_cases h2 : c = '>'
    · subst h2; decide
    · by_cases h3 : c = '<'
      · subst h3; decide
      · simp [escChar, h1, h2, h3, replaceChar]

/-- per character image of `escape(data, {'\n': '&#10;', '\r': '&#13;', '\t': '&#9;'})` -/
def escAttrChar (c : Char) : Str :=
  if c = '&' then amp else if c = '>' then gt else if c = '<' then lt
  else if c = '\n' then ent10 else if c = '\r' then ent13 else if c = '\t' then ent9 else [c]

theorem escapeAttr_eq (s : Str) : escapeAttr s = s.flatMap escAttrChar := by
  unfold escapeAttr
  rw [escape_eq, replaceChar_flatMap, replaceChar_flatMap, replaceChar_flatMap]
  congr 1
  funext c
  by_cases h1 : c = '&'
  · subst h1; decide
  · by_cases h2 : c = '>'
    · subst h2; decide
    · by_cases h3 : c = '<'
      · subst h3; decide
      · by_cases h4 : c = '\n'
        · subst h4; decide
        · by_cases h5 : c = '\r'
          · subst h5; decide
          · by_cases h6 : c = '\t'
            · subst h6; decide
            · simp [escChar, escAttrChar, h1, h2, h3, h4, h5, h6, replaceChar]

theorem decodeRefs_plain (c : Char) (r : Str) (h1 : c ≠ '&') (h2 : c ≠ '<') :
    decodeRefs (c :: r) = (decodeRefs r).map (c :: ·) := by
  conv => lhs; unfold decodeRefs
  split <;> simp_all

theorem decodeRefs_escAttr (s : Str) : decodeRefs (s.flatMap escAttrChar) = some s := by
  induction s with
  | nil => rfl
  | cons c r ih =>
    simp only [List.flatMap_cons]
    by_cases h1 : c = '&'
    · subst h1; simp [escAttrChar, amp, decodeRefs, ih]
    · by_cases h2 : c = '>'
      · subst h2; simp [escAttrChar, gt, decodeRefs, ih]
      · by_cases h3 : c = '<'
        · subst h3; simp [escAttrChar, lt, decodeRefs, ih]
        · by_cases h4 : c = '\n'
          · subst h4; simp [escAttrChar, ent10, decodeRefs, ih]
          · by_cases h5 : c = '\r'
            · subst h5; simp [escAttrChar, ent13, decodeRefs, ih]
            · by_cases h6 : c = '\t'
              · subst h6; simp [escAttrChar, ent9, decodeRefs, ih]
              · simp only [escAttrChar, h1, h2, h3, h4, h5, h6, if_false, List.singleton_append]
                rw [decodeRefs_plain c _ h1 h3, ih]
                rfl

theorem decodeRefs_esc (s : Str) : decodeRefs (s.flatMap escChar) = some s := by
  induction s with
  | nil => rfl
  | cons c r ih =>
    simp only [List.flatMap_cons]
    by_cases h1 : c = '&'
    · subst h1; simp [escChar, amp, decodeRefs, ih]
    · by_cases h2 : c = '>'
      · subst h2; simp [escChar, gt, decodeRefs, ih]
      · by_cases h3 : c = '<'
        · subst h3; simp [escChar, lt, decodeRefs, ih]
        · simp only [escChar, h1, h2, h3, if_false, List.singleton_append]
          rw [decodeRefs_plain c _ h1 h3, ih]
          rfl

end Proofs.Escape

namespace Proofs.Escape
open Py Xs.Sax Spec.XmlNs

theorem escChar_no (c x : Char) (hx : x ∈ escChar c) (b : Char) (hb : b = '<' ∨ b = '>') : x ≠ b := by
  unfold escChar at hx
  rcases hb with rfl | rfl
  · split at hx
    · intro e; subst e; revert hx; decide
    · split at hx
      · intro e; subst e; revert hx; decide
      · split at hx
        · intro e; subst e; revert hx; decide
        · simp at hx; subst hx; assumption
  · split at hx
    · intro e; subst e; revert hx; decide
    · split at hx
      · intro e; subst e; revert hx; decide
      · split at hx
        · intro e; subst e; revert hx; decide
        · simp at hx; subst hx; assumption

theorem escape_no_lt (s : Str) : '<' ∉ escape s := by
  rw [escape_eq]
  intro h
  obtain ⟨c, _, hc⟩ := List.mem_flatMap.mp h
  exact escChar_no c '<' hc '<' (Or.inl rfl) rfl

theorem escape_no_gt (s : Str) : '>' ∉ escape s := by
  rw [escape_eq]
  intro h
  obtain ⟨c, _, hc⟩ := List.mem_flatMap.mp h
  exact escChar_no c '>' hc '>' (Or.inr rfl) rfl

/-- per character image of the body of a `"`-quoted attribute value with `"` → `&quot;` -/
def escAttrQChar (c : Char) : Str := if c = '"' then quot else escAttrChar c

theorem escAttrChar_forbidden (c x : Char) (hx : x ∈ escAttrChar c) :
    x ≠ '<' ∧ x ≠ '\n' ∧ x ≠ '\r' ∧ x ≠ '\t' := by
  unfold escAttrChar at hx
  repeat' (first | (split at hx; · (refine ⟨?_, ?_, ?_, ?_⟩ <;> (intro e; subst e; revert hx; decide))) | skip)
  simp at hx
  subst hx
  refine ⟨?_, ?_, ?_, ?_⟩ <;> assumption

theorem replaceQuot_eq (s : Str) : replaceChar (s.flatMap escAttrChar) '"' quot = s.flatMap escAttrQChar := by
  rw [replaceChar_flatMap]
  congr 1
  funext c
  unfold escAttrQChar
  by_cases h0 : c = '"'
  · subst h0; decide
  · simp only [h0, if_false]
    unfold escAttrChar
    by_cases h1 : c = '&'
    · subst h1; decide
    · by_cases h2 : c = '>'
      · subst h2; decide
      · by_cases h3 : c = '<'
        · subst h3; decide
        · by_cases h4 : c = '\n'
          · subst h4; decide
          · by_cases h5 : c = '\r'
            · subst h5; decide
            · by_cases h6 : c = '\t'
              · subst h6; decide
              · simp [h0, h1, h2, h3, h4, h5, h6, replaceChar]

theorem decodeRefs_escAttrQ (s : Str) : decodeRefs (s.flatMap escAttrQChar) = some s := by
  induction s with
  | nil => rfl
  | cons c r ih =>
    simp only [List.flatMap_cons]
    by_cases h0 : c = '"'
    · subst h0; simp [escAttrQChar, quot, decodeRefs, ih]
    · simp only [escAttrQChar, h0, if_false]
      by_cases h1 : c = '&'
      · subst h1; simp [escAttrChar, amp, decodeRefs, ih]
      · by_cases h2 : c = '>'
        · subst h2; simp [escAttrChar, gt, decodeRefs, ih]
        · by_cases h3 : c = '<'
          · subst h3; simp [escAttrChar, lt, decodeRefs, ih]
          · by_cases h4 : c = '\n'
            · subst h4; simp [escAttrChar, ent10, decodeRefs, ih]
            · by_cases h5 : c = '\r'
              · subst h5; simp [escAttrChar, ent13, decodeRefs, ih]
              · by_cases h6 : c = '\t'
                · subst h6; simp [escAttrChar, ent9, decodeRefs, ih]
                · simp only [escAttrChar, h1, h2, h3, h4, h5, h6, if_false, List.singleton_append]
                  rw [decodeRefs_plain c _ h1 h3, ih]
                  rfl

theorem escAttrQChar_forbidden (c x : Char) (hx : x ∈ escAttrQChar c) :
    x ≠ '<' ∧ x ≠ '\n' ∧ x ≠ '\r' ∧ x ≠ '\t' ∧ x ≠ '"' := by
  unfold escAttrQChar at hx
  split at hx
  · refine ⟨?_, ?_, ?_, ?_, ?_⟩ <;> (intro e; subst e; revert hx; decide)
  · rename_i h0
    obtain ⟨a, b, c', d⟩ := escAttrChar_forbidden c x hx
    refine ⟨a, b, c', d, ?_⟩
    intro e
    subst e
    unfold escAttrChar at hx
    repeat' (first | (split at hx; · (revert hx; decide)) | skip)
    simp at hx
    exact h0 hx.symm

/-- the shape and content of a quoted attribute value -/
theorem quoteattr_spec (s : Str) :
    ∃ q body, quoteattr s = q :: body ++ [q] ∧ (q = '"' ∨ q = '\'') ∧ q ∉ body
      ∧ '<' ∉ body ∧ '\n' ∉ body ∧ '\r' ∉ body ∧ '\t' ∉ body ∧ decodeRefs body = some s := by
  have hforb : ∀ x ∈ escapeAttr s, x ≠ '<' ∧ x ≠ '\n' ∧ x ≠ '\r' ∧ x ≠ '\t' := by
    intro x hx
    rw [escapeAttr_eq] at hx
    obtain ⟨c, _, hc⟩ := List.mem_flatMap.mp hx
    exact escAttrChar_forbidden c x hc
  have hdec : decodeRefs (escapeAttr s) = some s := by rw [escapeAttr_eq]; exact decodeRefs_escAttr s
  unfold quoteattr
  simp only []
  by_cases h1 : (escapeAttr s).contains '"' = true
  · by_cases h2 : (escapeAttr s).contains '\'' = true
    · simp only [h1, h2, if_true]
      refine ⟨'"', replaceChar (escapeAttr s) '"' quot, by simp, Or.inl rfl, ?_, ?_, ?_, ?_, ?_, ?_⟩
      all_goals rw [escapeAttr_eq, replaceQuot_eq]
      · intro h; obtain ⟨c, _, hc⟩ := List.mem_flatMap.mp h; exact (escAttrQChar_forbidden c _ hc).2.2.2.2 rfl
      · intro h; obtain ⟨c, _, hc⟩ := List.mem_flatMap.mp h; exact (escAttrQChar_forbidden c _ hc).1 rfl
      · intro h; obtain ⟨c, _, hc⟩ := List.mem_flatMap.mp h; exact (escAttrQChar_forbidden c _ hc).2.1 rfl
      · intro h; obtain ⟨c, _, hc⟩ := List.mem_flatMap.mp h; exact (escAttrQChar_forbidden c _ hc).2.2.1 rfl
      · intro h; obtain ⟨c, _, hc⟩ := List.mem_flatMap.mp h; exact (escAttrQChar_forbidden c _ hc).2.2.2.1 rfl
      · exact decodeRefs_escAttrQ s
    · simp only [h1, h2, if_true, Bool.false_eq_true, if_false]
      refine ⟨'\'', escapeAttr s, by simp, Or.inr rfl, ?_, fun h => (hforb _ h).1 rfl, fun h => (hforb _ h).2.1 rfl,
        fun h => (hforb _ h).2.2.1 rfl, fun h => (hforb _ h).2.2.2 rfl, hdec⟩
      intro h
      exact h2 (by simpa using h)
  · simp only [h1, Bool.false_eq_true, if_false]
    refine ⟨'"', escapeAttr s, by simp, Or.inl rfl, ?_, fun h => (hforb _ h).1 rfl, fun h => (hforb _ h).2.1 rfl,
      fun h => (hforb _ h).2.2.1 rfl, fun h => (hforb _ h).2.2.2 rfl, hdec⟩
    intro h
    exact h1 (by simpa using h)

end Proofs.Escape

namespace Proofs.Escape
open Py Xs.Sax Spec.XmlNs

/-- per character image of `escape(content, {"\r": "&#13;"})` -/
def escTextChar (c : Char) : Str :=
  if c = '&' then amp else if c = '>' then gt else if c = '<' then lt else if c = '\r' then ent13 else [c]

theorem escapeText_eq (s : Str) : escapeText s = s.flatMap escTextChar := by
  unfold escapeText
  rw [escape_eq, replaceChar_flatMap]
  congr 1
  funext c
  by_cases h1 : c = '&'
  · subst h1; decide
  · by_cases h2 : c = '>'
    · subst h2; decide
    · by_cases h3 : c = '<'
      · subst h3; decide
      · by_cases h5 : c = '\r'
        · subst h5; decide
        · simp [escChar, escTextChar, h1, h2, h3, h5, replaceChar]

theorem decodeRefs_escText (s : Str) : decodeRefs (s.flatMap escTextChar) = some s := by
  induction s with
  | nil => rfl
  | cons c r ih =>
    simp only [List.flatMap_cons]
    by_cases h1 : c = '&'
    · subst h1; simp [escTextChar, amp, decodeRefs, ih]
    · by_cases h2 : c = '>'
      · subst h2; simp [escTextChar, gt, decodeRefs, ih]
      · by_cases h3 : c = '<'
        · subst h3; simp [escTextChar, lt, decodeRefs, ih]
        · by_cases h5 : c = '\r'
          · subst h5; simp [escTextChar, ent13, decodeRefs, ih]
          · simp only [escTextChar, h1, h2, h3, h5, if_false, List.singleton_append]
            rw [decodeRefs_plain c _ h1 h3, ih]
            rfl

theorem escTextChar_forbidden (c x : Char) (hx : x ∈ escTextChar c) : x ≠ '<' ∧ x ≠ '\r' := by
  unfold escTextChar at hx
  repeat' (first | (split at hx; · (refine ⟨?_, ?_⟩ <;> (intro e; subst e; revert hx; decide))) | skip)
  simp at hx
  subst hx
  refine ⟨?_, ?_⟩ <;> assumption

/-- character data as the repaired native writer writes it -/
theorem escapeText_spec (s : Str) :
    decodeRefs (escapeText s) = some s ∧ '<' ∉ escapeText s ∧ '\r' ∉ escapeText s := by
  rw [escapeText_eq]
  refine ⟨decodeRefs_escText s, ?_, ?_⟩
  · intro h; obtain ⟨c, _, hc⟩ := List.mem_flatMap.mp h; exact (escTextChar_forbidden c _ hc).1 rfl
  · intro h; obtain ⟨c, _, hc⟩ := List.mem_flatMap.mp h; exact (escTextChar_forbidden c _ hc).2 rfl

theorem escapeDecl_eq (s : Str) : escapeDecl s = s.flatMap escAttrQChar := by
  unfold escapeDecl
  rw [escape_eq, replaceChar_flatMap, replaceChar_flatMap, replaceChar_flatMap, replaceChar_flatMap]
  congr 1
  funext c
  unfold escAttrQChar escAttrChar
  by_cases h0 : c = '"'
  · subst h0; decide
  · by_cases h1 : c = '&'
    · subst h1; decide
    · by_cases h2 : c = '>'
      · subst h2; decide
      · by_cases h3 : c = '<'
        · subst h3; decide
        · by_cases h4 : c = '\n'
          · subst h4; decide
          · by_cases h5 : c = '\r'
            · subst h5; decide
            · by_cases h6 : c = '\t'
              · subst h6; decide
              · simp [escChar, h0, h1, h2, h3, h4, h5, h6, replaceChar]

/-- a namespace name inside `xmlns…="…"` as the repaired native writer writes it -/
theorem escapeDecl_spec (s : Str) :
    decodeRefs (escapeDecl s) = some s ∧ '<' ∉ escapeDecl s ∧ '"' ∉ escapeDecl s
      ∧ '\n' ∉ escapeDecl s ∧ '\r' ∉ escapeDecl s ∧ '\t' ∉ escapeDecl s := by
  rw [escapeDecl_eq]
  refine ⟨decodeRefs_escAttrQ s, ?_, ?_, ?_, ?_, ?_⟩
  · intro h; obtain ⟨c, _, hc⟩ := List.mem_flatMap.mp h; exact (escAttrQChar_forbidden c _ hc).1 rfl
  · intro h; obtain ⟨c, _, hc⟩ := List.mem_flatMap.mp h; exact (escAttrQChar_forbidden c _ hc).2.2.2.2 rfl
  · intro h; obtain ⟨c, _, hc⟩ := List.mem_flatMap.mp h; exact (escAttrQChar_forbidden c _ hc).2.1 rfl
  · intro h; obtain ⟨c, _, hc⟩ := List.mem_flatMap.mp h; exact (escAttrQChar_forbidden c _ hc).2.2.1 rfl
  · intro h; obtain ⟨c, _, hc⟩ := List.mem_flatMap.mp h; exact (escAttrQChar_forbidden c _ hc).2.2.2.1 rfl

end Proofs.Escape
