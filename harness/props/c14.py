"""C14 — Parsers, serializers and the binding context are history-independent."""
from __future__ import annotations

import json

from framework import Corr, Oracle, ok
from props import ctxgen as G
from props import ctxlib as L

PROP_ID = "C14"
DESIGN_REF = "6/C14"


# ------------------------------------------------------------------ ctx.run
def impl_run(a):
    return ok(L.run_steps(a["universe"], a["steps"], keep=bool(a.get("keep"))))


def gen_run(rng, tier):
    maxlen = 3 if tier == "quick" else 4
    # 1. hand-picked witnesses
    yield {"universe": G.U_WITNESS, "steps": G.fixed_world(G.U_WITNESS, [G.op_build(1), G.op_build(0, "urn:a"), G.op_build(2), G.op_build(0, "urn:b")])}
    yield {"universe": G.U_WITNESS, "steps": G.fixed_world(G.U_WITNESS, [G.op_fields(["x"]), G.op_build(0, "urn:a")])}
    # stale index: a class defined without a change of len(sys.modules)
    yield {"universe": G.U_WITNESS, "steps": [
        {**G.W(1, 0), "op": G.op_q("find_type", "PA")}, {**G.W(3, 0), "op": G.op_q("find_type", "PA")},
        {**G.W(3, 1), "op": G.op_q("find_type", "PA")}]}
    # eviction while iterating
    yield {"universe": G.U_BAD, "steps": G.fixed_world(G.U_BAD, [G.op_fields(["x"]), G.op_fields(["x"]), G.op_q("find_types", "{urn:a}T")])}
    # 2. bounded-exhaustive op sequences over the hand universes
    for name, U in G.HAND.items():
        pool = G.POOLS[name]
        for seq in G.exhaustive(pool, maxlen):
            yield {"universe": U, "steps": G.fixed_world(U, seq), "keep": True}
    # 3. seeded random universes, worlds and longer histories
    n = 250 if tier == "quick" else 6000
    for _ in range(n):
        U = G.rand_universe(rng)
        keys = G.index_keys(U)
        for _ in range(3):
            yield {"universe": U, "steps": G.rand_steps(rng, U, keys, rng.randint(1, 9))}


def classify_run(a, o):
    if not isinstance(o, dict) or "ok" not in o:
        return "harness-error"
    steps = o["ok"]
    div = [i for i, s in enumerate(steps) if s["shared"] != s["fresh"]]
    errs = sum(1 for s in steps if "err" in s["shared"])
    tag = "agree" if not div else "diverge:" + a["steps"][div[0]]["op"]["k"]
    return f"{tag}|{'with-failing-calls' if errs else 'all-succeed'}"


CORRS = [
    Corr("ctx.run", gen_run, impl_run, nontrivial=lambda a, o: len(a["steps"]) >= 2, classify=classify_run,
         describe="op sequences on one shared XmlContext vs fresh contexts vs the model (results and cache contents after every call)"),
]

ORACLES: list[Oracle] = []
FINDINGS: dict = {}

LEVEL_TEXT = "stub"
LEVEL_NOTE = "stub"
TRUSTED: list[str] = []
ASSUMPTIONS: list[str] = []
