import Driver.Proto
import Driver.OpsBind
import XsdataModel.Dict.Encode
import XsdataModel.Dict.Decode
import XsdataModel.Dict.EncodeFlags
import XsdataModel.Dict.Frag
import XsdataModel.Conv.Factory
import XsdataModel.Conv.TblCEnv
import XsdataModel.Conv.FloatRepr
open Lean Proto Py Xs.Bind Xs.Dict

namespace OpsDict
open OpsBind (field dCtx dVal jVal jErr benv dStr dCfg)

/-- JSON values travel tagged so that key order survives: scalars as they are,
`{"a": [...]}` for arrays, `{"o": [[k, v], ...]}` for objects -/
partial def dJ (j : Json) : Except String J :=
  match j with
  | .null => .ok .null
  | .bool b => .ok (.bool b)
  | .str s => .ok (.str s.toList)
  | .num _ =>
    match j.getInt? with
    | .ok i => .ok (.num i)
    | .error _ => .error "non-integer number"
  | _ =>
    match j.getObjVal? "a", j.getObjVal? "o" with
    | .ok (.arr xs), _ => do
      let ys ← xs.toList.mapM dJ
      pure (.arr ys)
    | _, .ok (.arr ps) => do
      let kvs ← ps.toList.mapM (fun p => match p with
        | .arr #[.str k, v] => do pure (k.toList, ← dJ v)
        | _ => .error "bad pair")
      pure (.obj kvs)
    | _, _ => .error s!"bad J {j.compress}"

partial def jJ : J → Json
  | .null => Json.null
  | .bool b => Json.bool b
  | .num i => jInt i
  | .str s => jStr s
  | .arr xs => jObj [("a", jList jJ xs)]
  | .obj kvs => jObj [("o", jList (fun (kv : Str × J) => Json.arr #[jStr kv.1, jJ kv.2]) kvs)]

def dFactory (j : Json) : Except String Factory :=
  match j with
  | .str "dict" => .ok .dict
  | .str "filter_none" => .ok .filterNone
  | _ => .error "bad factory"

def dTarget (j : Json) : Except String Target :=
  match j with
  | .null => .ok .detect
  | _ =>
    match j.getObjVal? "cls", j.getObjVal? "list" with
    | .ok (.str c), _ => .ok (.cls c.toList)
    | _, .ok (.str c) => .ok (.listOf c.toList)
    | _, _ => .error "bad target"

def fuel : Nat := 200

/-- the driver's environment: no converter for the types outside the layer -/
def denv : DEnv := { toBEnv := benv }

def serCfg (a : Json) : SerCfg :=
  { ignoreDefaultAttributes := (field a "ignore_default_attributes").getBool?.toOption.getD false }

def jND (r : ND Val) : Json :=
  match r.run with
  | .ok vs => ok (jList jVal vs)
  | .error e => jErr e

/-- the converter models of C05 under the names of their Python classes -/
def leafTy (name : String) : Option Xs.Conv.Ty :=
  match name with
  | "XmlDate" => some .xmlDate | "XmlTime" => some .xmlTime | "XmlDateTime" => some .xmlDateTime
  | "XmlDuration" => some .xmlDuration | "XmlPeriod" => some .xmlPeriod | "Decimal" => some .decimal
  | _ => none

def convCEnv : Xs.Conv.CEnv := Xs.Conv.tblCEnv (Xs.Conv.pyFloatReprD tblEnv)

/-- `converter.serialize(converter.deserialize(s, [T]))` through the C05 models -/
def convOther (name s : Str) : Option Str :=
  (leafTy (String.ofList name)).bind fun ty =>
    (Xs.Conv.atomDeserialize convCEnv ty s {}).bind fun a =>
      match Xs.Conv.atomSerialize a {} with
      | .ok (t, _) => some t
      | .error _ => none

/-- the driver's environment with the converter models plugged in -/
def denvConv : DEnv := { toBEnv := benv, other := convOther }

def leafVar (name : Str) : VarCore :=
  { index := 1, name := "f".toList, localName := "f".toList, qname := "f".toList, wrapperQName := none,
    types := [.other name], clazz := none, init := true, mixed := false, tokens := false, format := none,
    anyType := false, processContents := "strict".toList, required := false, nillable := false, sequence := none,
    listElement := false, default := .none, namespaces := [], kind := .element, isClazzUnion := false }

partial def dDV (j : Json) : Except String DV :=
  match j with
  | .null => .ok .none
  | _ =>
    match j.getObjVal? "enum", j.getObjVal? "list", j.getObjVal? "model" with
    | .ok e, _, _ => do
      let mixin ← OpsBind.dBool (field e "mixin")
      let v ← dDV (field e "value")
      pure (.enum mixin v)
    | _, .ok (.arr xs), _ => do
      let ys ← xs.toList.mapM dDV
      pure (.list ys)
    | _, _, .ok i => (asInt i).map .model
    | _, _, _ => (OpsBind.dPVal j).map .prim

def run (op : String) (a : Json) : Option (Except String Json) :=
  match op with
  | "dict.valok" => some do
      -- the hypothesis of `dict_rt` evaluated on an exported universe and instance
      let Γ ← dCtx (field a "ctx")
      let v ← dVal (field a "value")
      let fac ← dFactory (field a "factory")
      let c ← dStr (field a "clazz")
      pure <| ok (jObj [("in_fragment", jBool (valOKj denv Γ fac fuel c v)),
                        ("typed", jBool (valOKu denv Γ fac fuel c v)),
                        ("no_subclass_pools", jBool (noSubclassPools Γ))])
  | "dict.leafdec" => some do
      -- `bind_text` of a JSON string for a field of a converter type, the converter taken from the C05 models
      let name ← dStr (field a "type")
      let text ← dStr (field a "text")
      pure <| match bindTextPlain denvConv (dCfg (field a "config")) (leafVar name) (.str text) with
        | .ok v => ok (jVal v)
        | .error e => jErr e
  | "dict.encflags" => some do
      let fac ← dFactory (field a "factory")
      let wrapper ← OpsBind.dOptStr (field a "wrapper")
      let loc ← dStr (field a "local")
      let wrapped ← OpsBind.dBool (field a "wrapped")
      let v ← dDV (field a "value")
      pure <| match encFlagsF fac wrapper loc fuel wrapped v with
        | .ok j => ok (jJ j)
        | .error e => jErr e
  | "dict.isopt" => some do
      let req ← OpsBind.dBool (field a "required")
      let d ← OpsBind.dDefault (field a "default")
      let v ← dVal (field a "value")
      let var : XmlVar := { toVarCore := { leafVar "x".toList with required := req, default := d }, elements := [], wildcards := [] }
      pure (ok (Json.bool (isOptional var v)))
  | "dict.enc" => some do
      let Γ ← dCtx (field a "ctx")
      let v ← dVal (field a "value")
      let fac ← dFactory (field a "factory")
      pure <| match encode Γ fac (serCfg a) fuel v with
        | .ok j => ok (jJ j)
        | .error e => jErr e
  | "dict.dec" => some do
      let Γ ← dCtx (field a "ctx")
      let data ← dJ (field a "data")
      let target ← dTarget (field a "target")
      pure <| jND (decode denv Γ (dCfg (field a "config")) fuel target data)
  | "dict.roundtrip" => some do
      let Γ ← dCtx (field a "ctx")
      let v ← dVal (field a "value")
      let fac ← dFactory (field a "factory")
      let target ← dTarget (field a "target")
      pure <| match encode Γ fac (serCfg a) fuel v with
        | .error e => jErr e
        | .ok j => jND (decode denv Γ (dCfg (field a "config")) fuel target j)
  | _ => none

end OpsDict
