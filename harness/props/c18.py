"""C18 — Python-code rendering evaluates back to the object.

Inputs are JSON descriptions of a *world* (the classes that exist: module,
qualname path, kind, dataclass fields with init flag and default /
default_factory) and of a value.  `impl` builds the real classes
(dataclasses.make_dataclass / Enum functional API in scratch modules registered
in sys.modules) and the real object, runs the real `PycodeSerializer.render`,
executes the emitted source in a fresh namespace and classifies what happened;
the Lean driver predicts both the exact text and the outcome class.
"""
from __future__ import annotations

import ast
import dataclasses
import importlib
import json
import math
import os
import re
import sys
import types
import warnings
from dataclasses import MISSING, field, fields, is_dataclass, make_dataclass
from decimal import Decimal, InvalidOperation
from enum import Enum
from fractions import Fraction
from typing import Any
from xml.etree.ElementTree import QName

from framework import Corr, Oracle, err, ok
from xsdata.exceptions import SerializerError
from xsdata.formats.dataclass.serializers import PycodeSerializer
from xsdata.models.datatype import (
    XmlBase64Binary,
    XmlDate,
    XmlDateTime,
    XmlDuration,
    XmlHexBinary,
    XmlPeriod,
    XmlTime,
)

PROP_ID = "C18"
DESIGN_REF = "6/C18"

MOD_A, MOD_B = "c18m_a", "c18m_b"
DT = "xsdata.models.datatype"

# ---------------------------------------------------------------------------
# JSON  <->  real objects
# ---------------------------------------------------------------------------


def num_key(x):
    if isinstance(x, float):
        if math.isnan(x):
            return "nan"
        if math.isinf(x):
            return "inf" if x > 0 else "-inf"
    else:  # Decimal
        if x.is_snan():
            return "snan"
        if x.is_nan():
            return "nan"
        if x.is_infinite():
            return "inf" if x > 0 else "-inf"
    f = Fraction(x)
    return [str(f.numerator), str(f.denominator)]


def f64_key(x):
    """the binary64 value as the Lean model holds it: [neg, "m", q] with x = ±m·2^q, m < 2^53, q ≥ -1074"""
    if math.isnan(x):
        return "nan"
    if math.isinf(x):
        return "inf" if x > 0 else "-inf"
    neg = math.copysign(1.0, x) < 0
    if x == 0:
        return [neg, "0", -1074]
    fr, e = math.frexp(abs(x))  # abs(x) = fr * 2**e, 0.5 <= fr < 1
    m, q = int(fr * (1 << 53)), e - 53
    if q < -1074:  # subnormal: fewer significant bits
        m >>= -1074 - q
        q = -1074
    assert math.ldexp(m, q) == abs(x)
    return [neg, str(m), q]


def dec_key(d):
    """a Decimal as the Lean model holds it (its as_tuple())"""
    sign, digits, exp = d.as_tuple()
    neg = bool(sign)
    if exp == "F":
        return ["inf", neg]
    if exp in ("n", "N"):
        return ["nan", neg, exp == "N", "".join(map(str, digits)) or "0"]
    return ["fin", neg, "".join(map(str, digits)) or "0", exp]


def ref_of(cls):
    return {"module": cls.__module__, "path": cls.__qualname__.split(".")}


def to_json(o):
    """Describe a real Python value (introspection only, no xsdata code)."""
    if o is None:
        return {"t": "none"}
    if isinstance(o, bool):
        return {"t": "bool", "v": o}
    if isinstance(o, Enum):
        return {"t": "enum", **ref_of(type(o)), "member": o.name}
    if type(o) is int:
        return {"t": "int", "v": str(o)}
    if type(o) is float:
        return {"t": "float", "repr": repr(o), "num": num_key(o), "f64": f64_key(o)}
    if type(o) is Decimal:
        return {"t": "decimal", "repr": repr(o), "num": num_key(o), "dec": dec_key(o)}
    if type(o) is str:
        return {"t": "str", "v": o, "repr": repr(o)}
    if isinstance(o, bytes):
        return {"t": "bytes", **ref_of(type(o)), "bs": list(o), "repr": repr(o)}
    if isinstance(o, QName):
        if any(0xD800 <= ord(c) <= 0xDFFF for c in o.text):
            # JSON files cannot hold a lone surrogate: give the code points (never sent to the Lean driver)
            return {"t": "qname", "cps": [ord(c) for c in o.text]}
        return {"t": "qname", "text": o.text}
    if type(o) is list:
        return {"t": "list", "items": [to_json(x) for x in o]}
    if type(o) is tuple:
        return {"t": "tuple", "items": [to_json(x) for x in o]}
    if type(o) in (set, frozenset):
        return {"t": "set", "frozen": type(o) is frozenset, "items": [to_json(x) for x in o]}  # iteration order
    if type(o) is dict:
        return {"t": "dict", "items": [[to_json(k), to_json(v)] for k, v in o.items()]}
    if is_dataclass(o) and not isinstance(o, type):
        return {
            "t": "model",
            **ref_of(type(o)),
            "attrs": [[f.name, to_json(getattr(o, f.name))] for f in fields(o)],
        }
    r = repr(o)
    i = r.find("(")
    if i <= 0 or not all(p.isidentifier() for p in r[:i].split(".")):
        raise ValueError(f"cannot describe {type(o).__name__} value {r!r}")
    return {
        "t": "opaque",
        **ref_of(type(o)),
        "callee": r[:i].split("."),
        "args": r[i:],
        "num": num_key(o) if isinstance(o, Decimal) else None,
    }


def describe_class(cls, real=False):
    e = ref_of(cls)
    if isinstance(cls, type) and issubclass(cls, Enum):
        e.update(kind="enum", members=[m.name for m in cls])
    elif is_dataclass(cls):
        fs = []
        for f in fields(cls):
            if f.default is not MISSING:
                d = {"value": to_json(f.default)}
            elif f.default_factory is not MISSING:
                d = {"factory": to_json(f.default_factory())}
            else:
                d = None
            fs.append({"name": f.name, "init": f.init, "default": d})
        e.update(kind="model", fields=fs)
    else:
        e.update(kind="other")
    if real:
        e["real"] = True
    return e


def world_of(obj):
    """World description of every (non-builtin, non-opaque) class a real object
    and the defaults of its classes mention, parents of nested classes first."""
    seen: dict[tuple, dict] = {}
    order = []

    def add_class(cls):
        key = (cls.__module__, cls.__qualname__)
        if key in seen:
            return
        seen[key] = None
        path = cls.__qualname__.split(".")
        mod = importlib.import_module(cls.__module__)
        parent = mod
        for p in path[:-1]:
            parent = getattr(parent, p)
            add_class(parent)
        seen[key] = describe_class(cls, real=True)
        order.append(key)
        if is_dataclass(cls):
            for f in fields(cls):
                if f.default is not MISSING:
                    visit(f.default)
                elif f.default_factory is not MISSING:
                    visit(f.default_factory())

    def visit(o):
        if isinstance(o, Enum):
            add_class(type(o))
        elif isinstance(o, (list, tuple, set, frozenset)):
            for x in o:
                visit(x)
        elif isinstance(o, dict):
            for k, v in o.items():
                visit(k)
                visit(v)
        elif is_dataclass(o) and not isinstance(o, type):
            add_class(type(o))
            for f in fields(o):
                visit(getattr(o, f.name))

    visit(obj)
    return [seen[k] for k in order]


class Built:
    def __init__(self):
        self.classes: dict[tuple, Any] = {}
        self.modules: dict[str, types.ModuleType] = {}

    def activate(self):
        for n, m in self.modules.items():
            sys.modules[n] = m


_WORLD_CACHE: dict[str, Built] = {}


def _walk(mod, path):
    o = importlib.import_module(mod)
    for p in path:
        o = getattr(o, p)
    return o


def build_world(world) -> Built:
    key = json.dumps(world, sort_keys=True)
    b = _WORLD_CACHE.get(key)
    if b is not None:
        b.activate()
        return b
    b = Built()
    for e in world:
        mod, path = e["module"], e["path"]
        if e.get("real"):
            b.classes[(mod, tuple(path))] = _walk(mod, path)
            continue
        if mod not in b.modules:
            b.modules[mod] = types.ModuleType(mod)
        b.activate()
        qual = ".".join(path)
        if e["kind"] == "enum":
            cls = Enum(path[-1], {m: i + 1 for i, m in enumerate(e["members"])}, module=mod, qualname=qual)
        elif e["kind"] == "other":
            cls = type(path[-1], (), {"__module__": mod, "__qualname__": qual})
        else:
            flds = []
            for f in e["fields"]:
                kw: dict[str, Any] = {"init": f["init"]}
                d = f["default"]
                if d is not None and "value" in d:
                    kw["default"] = build_val(d["value"], b)
                elif d is not None:
                    kw["default_factory"] = (lambda j: (lambda: build_val(j, b)))(d["factory"])
                flds.append((f["name"], Any, field(**kw)))
            cls = make_dataclass(path[-1], flds, kw_only=True, frozen=bool(e.get("frozen")), module=mod)
            cls.__qualname__ = qual
        b.classes[(mod, tuple(path))] = cls
        if len(path) == 1:
            setattr(b.modules[mod], path[0], cls)
        else:
            setattr(b.classes[(mod, tuple(path[:-1]))], path[-1], cls)
    if len(_WORLD_CACHE) > 400:
        _WORLD_CACHE.clear()
    _WORLD_CACHE[key] = b
    return b


def build_val(j, b: Built):
    t = j["t"]
    if t == "none":
        return None
    if t == "bool":
        return j["v"]
    if t == "int":
        return int(j["v"])
    if t == "float":
        return float(j["repr"])
    if t == "decimal":
        kind, neg, *rest = j["dec"]
        if kind == "inf":
            return Decimal("-Infinity" if neg else "Infinity")
        if kind == "nan":
            return Decimal((int(neg), tuple(int(c) for c in rest[1].lstrip("0")), "N" if rest[0] else "n"))
        return Decimal((int(neg), tuple(int(c) for c in rest[0]), rest[1]))
    if t == "str":
        return j["v"]
    if t == "bytes":
        raw = ast.literal_eval(j["repr"])
        if j["module"] == "builtins":
            return raw
        return _walk(j["module"], j["path"])(raw)
    if t == "qname":
        return QName("".join(chr(c) for c in j["cps"]) if "cps" in j else j["text"])
    if t == "opaque":
        mod = importlib.import_module(j["module"])
        return eval(".".join(j["callee"]) + j["args"], dict(vars(mod)))  # noqa: S307
    if t == "enum":
        return b.classes[(j["module"], tuple(j["path"]))][j["member"]]
    if t == "list":
        return [build_val(x, b) for x in j["items"]]
    if t == "tuple":
        return tuple(build_val(x, b) for x in j["items"])
    if t == "set":
        items = [build_val(x, b) for x in j["items"]]
        return frozenset(items) if j["frozen"] else set(items)
    if t == "dict":
        return {build_val(k, b): build_val(v, b) for k, v in j["items"]}
    if t == "model":
        cls = b.classes[(j["module"], tuple(j["path"]))]
        vals = {n: build_val(v, b) for n, v in j["attrs"]}
        init = {f.name for f in fields(cls) if f.init}
        obj = cls(**{n: v for n, v in vals.items() if n in init})
        for n, v in vals.items():
            if n not in init:
                object.__setattr__(obj, n, v)
        return obj
    raise ValueError(t)


# ---------------------------------------------------------------------------
# running the real code
# ---------------------------------------------------------------------------
_SER = PycodeSerializer()


def run_source(text, var, obj):
    """exec the emitted source in a fresh namespace and classify."""
    ns: dict[str, Any] = {}
    try:
        with warnings.catch_warnings():
            warnings.simplefilter("ignore")
            code = compile(text, "<c18>", "exec")
    except (SyntaxError, ValueError) as e:
        return "exc:SyntaxError", f"{type(e).__name__}: {e}", None
    try:
        exec(code, ns)  # noqa: S102
    except Exception as e:  # noqa: BLE001
        return "exc:" + type(e).__name__, f"{type(e).__name__}: {e}", None
    if var not in ns:
        return "unbound", f"{var} not bound", None
    got = ns[var]
    try:
        same = bool(got == obj)
    except Exception as e:  # noqa: BLE001
        return "eqexc:" + type(e).__name__, f"== raised {type(e).__name__}", got
    return ("equal" if same else "unequal"), "", got


def real_case(a):
    b = build_world(a["world"])
    obj = build_val(a["val"], b)
    return b, obj


def impl_code(a):
    b, obj = real_case(a)
    back = to_json(obj)
    if back != a["val"]:
        raise RuntimeError("harness self-check: value description does not round-trip")
    for e in a["world"]:
        d = describe_class(b.classes[(e["module"], tuple(e["path"]))])
        if any(d[k] != e[k] for k in d):
            raise RuntimeError(f"harness self-check: class description differs for {e['path']}")
    var = a.get("var", "obj")
    try:
        text = _SER.render(obj, var)
    except SerializerError:
        return ok({"text": "RAISES:SerializerError", "outcome": "refused:SerializerError"})
    except InvalidOperation:
        return ok({"text": "RAISES:InvalidOperation", "outcome": "refused:InvalidOperation"})
    outcome, _, _ = run_source(text, var, obj)
    return ok({"text": text, "outcome": outcome})


def canon_code(o):
    if isinstance(o, dict) and isinstance(o.get("ok"), dict):
        out = {"text": o["ok"]["text"], "outcome": o["ok"]["outcome"]}
        if "hyps" in o["ok"]:
            out["hyps"] = o["ok"]["hyps"]
        return {"ok": out}
    return o


STATS = {"cases": 0, "wf": 0, "claimed": 0, "claimed_equal": 0, "declined": 0}


def compare_code(mo, io, a):
    """text must match exactly; the outcome must match unless the model
    declines; every input must be well-formed for the model (it was built from
    real classes); and wherever the hypotheses of Props.C18.code_rt_partial
    hold, the real outcome must be 'equal' (the theorem's claim, checked on the
    implementation)."""
    if "ok" not in mo or "ok" not in io:
        return mo == io
    h = mo["ok"].get("hyps", {})
    STATS["cases"] += 1
    STATS["wf"] += bool(h.get("wf"))
    STATS["declined"] += mo["ok"]["outcome"] == "unmodelled"
    if not h.get("wf"):
        return False
    if not h.get("reprs"):
        return False  # the repr() of some str/bytes leaf is not what the model's pyReprStr/pyReprBytes computes
    if all(h.get(k) for k in ("wf", "dom", "init", "renders", "nesting", "quiet")):
        STATS["claimed"] += 1
        STATS["claimed_equal"] += io["ok"]["outcome"] == "equal"
        if io["ok"]["outcome"] != "equal" or mo["ok"]["outcome"] != "equal":
            return False
    if mo["ok"]["text"] == "RAISES:unmodelled":
        # a signaling NaN inside a dict/set comparison: the model does not say whether render raises
        return mo["ok"]["outcome"] == "unmodelled" and has_snan(a)
    if mo["ok"]["text"] != io["ok"]["text"]:
        return False
    return mo["ok"]["outcome"] in ("unmodelled", io["ok"]["outcome"])


def impl_dq(a):
    s = a["s"]
    try:
        with warnings.catch_warnings():
            warnings.simplefilter("ignore")
            v = eval(compile('("' + s + '")', "<c18dq>", "eval"))  # noqa: S307
    except (SyntaxError, ValueError):
        return err("unmodelled")
    if not isinstance(v, str):
        return err("unmodelled")
    return ok(v)


def compare_dq(mo, io, a):
    # the model may decline ("unmodelled"); when it answers it must be right
    return mo == io or mo == err("unmodelled")


def impl_pyeq(a):
    b = build_world(a["world"])
    x, y = build_val(a["a"], b), build_val(a["b"], b)
    try:
        return ok(bool(x == y))
    except InvalidOperation:
        return err("InvalidOperation")


# ---------------------------------------------------------------------------
# generators
# ---------------------------------------------------------------------------
def J(o):
    return to_json(o)


def ref(mod, *path):
    return {"module": mod, "path": list(path)}


def fld(name, default=None, init=True):
    return {"name": name, "init": init, "default": default}


def dv(o):
    return {"value": J(o)}


def df(o):
    return {"factory": J(o)}


def model(mod, path, flds, frozen=False):
    e = {"module": mod, "path": list(path), "kind": "model", "fields": flds}
    if frozen:
        e["frozen"] = True
    return e


def enum(mod, path, members=("A", "B")):
    return {"module": mod, "path": list(path), "kind": "enum", "members": list(members)}


def other(mod, path):
    return {"module": mod, "path": list(path), "kind": "other"}


def inst(e, **attrs):
    """instance JSON of world entry e: missing attrs take the default"""
    out = []
    for f in e["fields"]:
        if f["name"] in attrs:
            v = attrs[f["name"]]
        else:
            d = f["default"]
            v = d.get("value", d.get("factory")) if d else {"t": "none"}
        out.append([f["name"], v])
    return {"t": "model", "module": e["module"], "path": e["path"], "attrs": out}


def member(e, name="A"):
    return {"t": "enum", "module": e["module"], "path": e["path"], "member": name}


QNAME_TEXTS = [
    "a", "{urn:x}a", "{http://www.w3.org/2001/XMLSchema}string", "",
    "{a\\b}x", "{a\\qb}x", "{a\\\\b}x", "{a\\tb}x", "{a\\'b}x", "a\\nb", "{c:\\dir}n", "{a\\.b}x", "{a\\€b}x",
    '{a"b}x', "a\nb", "x\\", "{a\\x41}c", "{a\\101}c", "{a\\N{DASH}}c", "{a\\u0041}c", "a\\\nb", "a\rb", "a\\\"b",
    "a\x08b", "a\x0cb", "a\x1fb", "a\x00b", "a\x7fb", "a\u2028b", "a\x85b", "\U0001F600", "a\tb", "\\u0041", '"', "\\",
]
STRS = ["", "a", "en", "a'b", 'a"b', "a'b\"c", "a\nb", "€", "\\", "a\\b", "\x7f", "日本", "\t", "{urn:x}a",
        # every escape class of repr(str): C0 controls, DEL, C1, NBSP / soft hyphen (Latin-1 unprintable), unassigned BMP,
        # line/paragraph separators, BOM, private use, astral printable, astral unprintable, backslash next to quotes
        "\x00\x01\x1f", "\r\n", "\x80\x9f", "\xa0\xad", "\u0378", "\u2028\u2029", "\ufeff", "\ue000", "\U0001f600",
        "\U000e0001", "\U0010ffff", "\\'", '\\"', "'\\", "x\x7fy\xe9z",
        "1", "0", "None", "True", "1.5", "()", "[]", "b'ab'"]  # the last row: str() look-alikes of other defaults
FLOATS = [0.0, -0.0, 1.0, 1.5, 0.1, 1e22, 1e-7, -2.5e-300, float("inf"), float("-inf"), float("nan"), 3.0,
          5e-324, 2.2250738585072014e-308, 2.225073858507201e-308, 1.7976931348623157e308, 1e16, 9999999999999998.0, 1e-5, 0.0001,
          123456789012345678.0, 0.30000000000000004, -1e-323, 4.35, 2.5e-5]  # subnormals, extremes, both notations of repr
DECS = ["0", "1", "1.50", "-0.0", "0.1", "1E+3", "3", "NaN", "Infinity", "-Infinity", "-7.25", "sNaN", "-0E-7", "1E-30", "12345678901234567890.5"]
INTS = [0, 1, -1, 2, 3, 10**30, -5, 255]
OPAQUES = [
    XmlDate(2000, 1, 2), XmlDate(1999, 12, 31), XmlDateTime(2000, 1, 2, 3, 4, 5), XmlDateTime(2001, 1, 2, 3, 4, 5, 600),
    XmlTime(1, 2, 3), XmlTime(23, 59, 59, 5), XmlDuration("P1D"), XmlDuration("PT5S"), XmlPeriod("--12"), XmlPeriod("2001"),
]
BYTES = [b"", b"ab", b"\x00'\"", XmlHexBinary(b"ab"), XmlBase64Binary(b"xyz")]


def rand_scalar(rng, enums):
    r = rng.random()
    if r < 0.08:
        return J(None)
    if r < 0.16:
        return J(rng.random() < 0.5)
    if r < 0.28:
        return J(rng.choice(INTS))
    if r < 0.42:
        return J(rng.choice(FLOATS))
    if r < 0.52:
        return J(Decimal(rng.choice(DECS)))
    if r < 0.66:
        return J(rng.choice(STRS))
    if r < 0.72:
        return J(rng.choice(BYTES))
    if r < 0.82:
        return J(QName(rng.choice(QNAME_TEXTS[:9] if rng.random() < 0.8 else QNAME_TEXTS)))
    if r < 0.90 or not enums:
        return J(rng.choice(OPAQUES))
    e = rng.choice(enums)
    return member(e, rng.choice(e["members"]))


def rand_key(rng, enums, depth=0):
    r = rng.random()
    if r < 0.5:
        return J(rng.choice(STRS))
    if r < 0.6:
        return J(QName(rng.choice(QNAME_TEXTS[:4])))
    if r < 0.7:
        return J(rng.choice(INTS))
    if r < 0.8 and enums:
        e = rng.choice(enums)
        return member(e, rng.choice(e["members"]))
    if r < 0.9 and depth < 2:
        return {"t": "tuple", "items": [rand_key(rng, enums, depth + 1) for _ in range(rng.choice([0, 0, 1, 2]))]}
    return J(rng.choice(OPAQUES[:3]))


def hash_key(j):
    """key under which Python would merge two dict keys (== and hash)"""
    t = j["t"]
    if t == "bool":
        return ("num", "1/1" if j["v"] else "0/1")
    if t == "int":
        return ("num", f"{int(j['v'])}/1")
    if t in ("float", "opaque", "decimal") and isinstance(j.get("num"), list):
        return ("num", "/".join(j["num"]))
    if t in ("str", "qname"):
        return ("s", j.get("v", j.get("text")))
    if t == "tuple":
        return ("tuple", tuple(hash_key(x) for x in j["items"]))
    return json.dumps(j, sort_keys=True)


SET_ELEMS = [0, 1, 2, 3, 5, -1, None, 1.5, (), (1, 2), (3,), frozenset(), frozenset({7}), (frozenset({4}),)]  # hashes that do not depend on PYTHONHASHSEED


def stable_set(items, frozen):
    """JSON of a set whose description is a fixpoint: rebuilding the set from
    the listed order iterates in the listed order again (the real object is
    built from the JSON)"""
    mk = frozenset if frozen else set
    items = list(items)
    for _ in range(8):
        again = list(mk(items))
        if again == items:
            return J(mk(items))
        items = again
    return J(mk(items[:1]))


def rand_set(rng):
    """a set / frozenset of elements whose hash does not depend on the process"""
    n = rng.choice([0, 0, 1, 2, 3])
    return stable_set(rng.sample(SET_ELEMS, n), rng.random() < 0.4)


def rand_value(rng, world, depth, no_models=False):
    enums = [e for e in world if e["kind"] == "enum"]
    models = [] if no_models else [e for e in world if e["kind"] == "model"]
    r = rng.random()
    if depth <= 0 or r < 0.45:
        return rand_scalar(rng, enums)
    if r < 0.60:
        return {"t": "list", "items": [rand_value(rng, world, depth - 1, no_models) for _ in range(rng.choice([0, 1, 1, 2, 3]))]}
    if r < 0.70:
        return {"t": "tuple", "items": [rand_value(rng, world, depth - 1, no_models) for _ in range(rng.choice([0, 0, 1, 2]))]}
    if r < 0.74:
        return rand_set(rng)
    if r < 0.82:
        items, seen = [], set()
        for _ in range(rng.choice([0, 1, 2, 3])):
            k = rand_key(rng, enums)
            hk = hash_key(k)
            if hk in seen:
                continue
            seen.add(hk)
            items.append([k, rand_value(rng, world, depth - 1, no_models)])
        return {"t": "dict", "items": items}
    if models:
        return rand_instance(rng, world, rng.choice(models), depth - 1)
    return rand_scalar(rng, enums)


EQ_VARIANTS = [
    [J(0), J(False), J(0.0), J(-0.0), J(Decimal("0")), J(Decimal("-0.0"))],
    [J(1), J(True), J(1.0), J(Decimal("1")), J(Decimal("1.0"))],
    [J(3), J(3.0), J(Decimal("3"))],
    [J("a"), J(QName("a"))],
    [J("{urn:x}a"), J(QName("{urn:x}a"))],
    [J(b"ab"), J(XmlHexBinary(b"ab"))],
    [J(1.5), J(Decimal("1.5")), J(Decimal("1.50"))],
]


# values whose str() equals that of the default but that are *not* equal to it
LOOKALIKES = [
    [J(0), J("0")], [J(1), J("1")], [J(None), J("None")], [J(True), J("True")], [J(1.5), J("1.5")], [J(()), J("()")],
    [J([]), J("[]")], [J(b"ab"), J("b'ab'")], [J("a"), J(QName("a"))], [J(False), J("False")], [J({}), J("{}")],
]


def eq_variant(rng, j):
    if rng.random() < 0.35:
        for grp in LOOKALIKES:
            if j in grp:
                return rng.choice(grp)
    for grp in EQ_VARIANTS:
        if j in grp:
            return rng.choice(grp)
    return j


def rand_instance(rng, world, e, depth):
    attrs = []
    for f in e["fields"]:
        d = f["default"]
        dval = d.get("value", d.get("factory")) if d else None
        r = rng.random()
        if not f["init"]:
            # fixed attributes normally keep their default
            v = dval if (dval is not None and r < 0.85) else rand_value(rng, world, min(depth, 1))
        elif dval is not None and r < 0.30:
            v = dval
        elif dval is not None and r < 0.42:
            v = eq_variant(rng, dval)
        else:
            v = rand_value(rng, world, depth)
        attrs.append([f["name"], v])
    return {"t": "model", "module": e["module"], "path": e["path"], "attrs": attrs}


FIELD_NAMES = ["a", "b", "c", "d", "value", "items", "attrs", "lang", "x", "kind"]
CLASS_NAMES = ["Outer", "Item", "Address", "Node", "Root"]


def rand_default(rng, world_so_far):
    enums = [e for e in world_so_far if e["kind"] == "enum"]
    r = rng.random()
    if r < 0.25:
        return None
    if r < 0.60:
        while True:
            v = rand_scalar(rng, enums)
            if v["t"] in ("float", "opaque", "decimal") and v.get("num") == "nan":  # NaN defaults: identity shortcuts, not modelled
                continue
            if v["t"] == "opaque" and v["path"][0] in ("XmlPeriod", "XmlDuration"):  # unhashable: dataclasses wants a factory
                return {"factory": v}
            return {"value": v}
    if r < 0.68:
        return {"value": {"t": "tuple", "items": []}}
    if r < 0.72:
        return {"value": {"t": "tuple", "items": [J(1), J("a")]}}
    if r < 0.82:
        return {"factory": {"t": "list", "items": []}}
    if r < 0.88:
        return {"factory": {"t": "tuple", "items": []}}
    if r < 0.94:
        return {"factory": {"t": "dict", "items": []}}
    if r < 0.97:
        return {"factory": {"t": "list", "items": [J(1), J("a")]}}
    return {"factory": {"t": "dict", "items": [[J("k"), J(1)]]}}


def rand_fields(rng, world_so_far):
    names = rng.sample(FIELD_NAMES, rng.choice([1, 2, 3, 3, 4, 5]))
    out = []
    earlier = [e for e in world_so_far if e["kind"] == "model"]
    for n in names:
        d = rand_default(rng, world_so_far)
        if earlier and rng.random() < 0.08:
            # `default_factory=ChildModel`: the default is an instance of an earlier class with its own defaults
            child = rng.choice(earlier)
            if all(f["default"] is not None for f in child["fields"]):
                d = {"factory": inst(child)}
        init = True
        if d is not None and rng.random() < 0.12:
            init = False
        out.append(fld(n, d, init))
    return out


def rand_world(rng):
    """a few enums and dataclasses, some nested, sometimes the same class name
    in two modules"""
    world = []
    shape = rng.random()
    mods = [MOD_A] if shape < 0.7 else [MOD_A, MOD_B]
    for mod in mods:
        if rng.random() < 0.7:
            world.append(enum(mod, ["Color"], rng.choice([("A", "B"), ("RED",), ("A", "B", "C"), ("A", "B"), ("RED", "dark_red", "_x9"),
                                                         ("A", "a-b", "class"), ("ok", "é", "None", "x y")])))
        n_top = rng.choice([1, 1, 2, 3])
        tops = rng.sample(CLASS_NAMES, n_top)
        for t in tops:
            frozen = rng.random() < 0.3
            world.append(model(mod, [t], rand_fields(rng, world), frozen))
            r = rng.random()
            if r < 0.35:
                world.append(enum(mod, [t, "Kind"], ("A", "B")))
            if 0.2 < r < 0.6:
                world.append(model(mod, [t, "Inner"], rand_fields(rng, world), frozen))
                if r < 0.35:
                    world.append(model(mod, [t, "Inner", "Deep"], rand_fields(rng, world)))
                if 0.3 < r < 0.4:
                    world.append(enum(mod, [t, "Inner", "Kind"], ("A",)))
        if rng.random() < 0.1:
            world.append(other(mod, ["Holder"]))
            world.append(model(mod, ["Holder", "Held"], rand_fields(rng, world)))
    return world


import keyword

ODD_ENUM = enum(MOD_A, ["Odd"], ("ok", "a-b", "class", "None", "é", "x y", "1x", "x_1", "match", "lambda"))


def odd_enum_name(n):
    """a member name that `Cls.<name>` cannot denote"""
    return not n.isidentifier() or keyword.iskeyword(n)


def has_odd_enum(a):
    return any(j["t"] == "enum" and odd_enum_name(j["member"]) for j in walk_vals(a["val"]))


def hand_cases():
    """worked cases: every branch of repr_object / literal_value / build_imports,
    the documented defects, default elision across types"""
    E_top = enum(MOD_A, ["Top"])
    E_in = enum(MOD_A, ["Outer", "Inner"])
    In2 = model(MOD_A, ["Outer", "In2"], [fld("z", dv(0))])
    Deep = model(MOD_A, ["Outer", "In2", "Deep"], [fld("w")])
    Outer = model(
        MOD_A, ["Outer"],
        [fld("x", dv(None)), fld("t", df(())), fld("items", df([])), fld("attrs", df({})), fld("lang", dv("en"), init=False),
         fld("n", dv(0)), fld("s", dv("a"))],
    )
    W = [Outer, E_top, E_in, In2, Deep]
    out = []

    def case(world, val, var="obj"):
        out.append({"world": world, "val": val, "var": var})

    scalars = (
        [J(None), J(True), J(False)] + [J(i) for i in INTS] + [J(f) for f in FLOATS] + [J(Decimal(d)) for d in DECS]
        + [J(s) for s in STRS] + [J(b) for b in BYTES] + [J(QName(t)) for t in QNAME_TEXTS] + [J(o) for o in OPAQUES]
        + [member(E_top), member(E_in, "B")]
    )
    for s in scalars:
        case(W, inst(Outer, x=s))
        case(W, s)  # a bare non-model value is accepted by render() too
    for n in EQ_VARIANTS[0] + EQ_VARIANTS[1]:
        case(W, inst(Outer, n=n))
    for s in EQ_VARIANTS[3]:
        case(W, inst(Outer, s=s))
    conts = [
        J([]), J(()), J({}), J([1, 2]), J((1, 2)), J([()]), J([[], {}, ()]), J({"a": "b"}), J({"a": {"b": [1.5, None]}}),
        J({(): 1}), J({(1, 2): 3}), J({QName("a"): 1, 1: QName("{a\\b}c")}), J([float("nan")]), J((float("inf"),)),
        {"t": "dict", "items": [[member(E_top), member(E_in)]]}, {"t": "list", "items": [member(E_in), member(E_top)]},
    ]
    conts += [J(set()), J(frozenset()), J({1, 2}), J(frozenset({1})), J([set(), {3}]), J({(): frozenset()}), J((frozenset({(1, 2)}),))]
    for c in conts:
        case(W, inst(Outer, x=c))
        case(W, inst(Outer, t=c))
        case(W, c)
    case(W, inst(Outer))
    case(W, inst(Outer, lang=J("fr")))
    case(W, inst(Outer, lang=J("en"), x=J("en")))
    case(W, inst(Outer, x=inst(In2, z=J(3))))
    case(W, inst(Outer, x=inst(In2)))
    case(W, inst(Outer, x=inst(Deep, w=inst(In2, z=J(True)))), "books")
    case(W, inst(Outer, items={"t": "list", "items": [inst(Outer, t=J((1,))), inst(In2, z=J(0.0))]}))
    case(W, inst(Outer, attrs=J({"{urn:x}a": "1", "b": "2"})))
    # enum members whose name is not an identifier / is a keyword (Enum functional API)
    WO = [Outer, ODD_ENUM, E_top, E_in, In2, Deep]
    for n in ODD_ENUM["members"]:
        if n:
            case(WO, inst(Outer, x=member(ODD_ENUM, n)))
    case(WO, inst(Outer, x=J([1]), items={"t": "list", "items": [member(ODD_ENUM, "ok"), member(ODD_ENUM, "a-b")]}))
    # nesting around the parser's limit of 200 open brackets: lists, and a chain of models holding lists of models
    def nest(n, leaf):
        v = leaf
        for _ in range(n):
            v = {"t": "list", "items": [v]}
        return v

    NodeC = model(MOD_A, ["Node"], [fld("items", df([])), fld("v", dv(None))])

    def chain(n):
        v = inst(NodeC, v=J(1))
        for _ in range(n):
            v = inst(NodeC, items={"t": "list", "items": [v]})
        return v

    for n in (50, 150, 199, 200, 201, 230):
        case([], nest(n, J(1)), "v")
    case([], nest(198, J([(1, {2})])), "v")
    case([], nest(199, J(frozenset({1}))), "v")
    case([], nest(198, J(frozenset({1}))), "v")
    for n in (40, 98, 99, 100, 101):
        case([NodeC], chain(n))
    # `default_factory=ChildModel` and a non-empty token-list default (the shapes of seeded/C18-falsy-factory-default)
    Hdr = model(MOD_A, ["Header"], [fld("version", dv("1.0"))])
    Pal = model(MOD_A, ["Palette"], [fld("colors", df(["red", "green"])), fld("sizes", df([])), fld("header", {"factory": inst(Hdr)}),
                                      fld("name", dv(None))])
    WP = [Hdr, Pal]
    for kw in ({}, {"colors": J([])}, {"header": J(None)}, {"colors": J(["red", "green"])}, {"header": inst(Hdr, version=J("2"))},
               {"colors": J([]), "sizes": J([]), "header": J(None), "name": J("")}, {"header": inst(Hdr)}):
        case(WP, inst(Pal, **kw))
    # a signaling NaN against numeric / list / non-numeric defaults (render itself raises for the first two)
    SN = J(Decimal("sNaN"))
    Cn = model(MOD_A, ["Cn"], [fld("num", dv(0)), fld("flt", dv(1.5)), fld("non", dv(None)), fld("lst", df([1, "a"])), fld("emp", df([])),
                               fld("dec", dv(Decimal("0")))])
    for kw in ({"num": SN}, {"flt": SN}, {"non": SN}, {"lst": {"t": "list", "items": [SN, J("a")]}}, {"lst": {"t": "list", "items": [SN]}},
               {"emp": {"t": "list", "items": [SN]}}, {"dec": SN}, {"non": {"t": "list", "items": [SN]}},
               {"non": {"t": "dict", "items": [[J("k"), SN]]}}, {"lst": {"t": "list", "items": [J(1), SN]}}):
        case([Cn], inst(Cn, **kw))
    # same class name in two modules
    A1 = model(MOD_A, ["Address"], [fld("x", dv(None)), fld("y", dv(0))])
    A2 = model(MOD_B, ["Address"], [fld("x", dv(None)), fld("w", dv(0))])
    W2 = [A1, A2]
    case(W2, inst(A1, x=inst(A2, w=J(1))))
    case(W2, inst(A2, x=inst(A1, y=J(1))))
    case(W2, inst(A1, x=inst(A2)))
    case(W2, inst(A2, x=inst(A1)))
    case(W2, inst(A1, x=inst(A1, y=J(2))))
    # an enum nested in class X while a top-level class has the enum's name
    Kind_top = model(MOD_A, ["Kind"], [fld("A", dv(1)), fld("q", dv(0))])
    Kind_enum_top = enum(MOD_B, ["Kind"], ("A",))
    X = model(MOD_A, ["X"], [fld("k", dv(None)), fld("o", dv(None))])
    XK = enum(MOD_A, ["X", "Kind"], ("A", "B"))
    W3 = [Kind_top, Kind_enum_top, X, XK]
    case(W3, inst(X, k=member(XK, "A")))
    case(W3, inst(X, k=member(XK, "B"), o=inst(Kind_top)))
    case(W3, inst(X, k=member(XK, "A"), o=inst(Kind_top)))
    case(W3, inst(X, k=member(XK, "A"), o=member(Kind_enum_top, "A")))
    case(W3, inst(X, k=member(XK, "B"), o=member(Kind_enum_top, "A")))
    # classes named like builtins / like the callables the literals use
    Fl = model(MOD_A, ["float"], [fld("v", dv(None))])
    Qn = model(MOD_A, ["QName"], [fld("v", dv(None))])
    Ls = enum(MOD_A, ["Z", "list"], ("A",))
    Z = model(MOD_A, ["Z"], [fld("v", dv(None))])
    W4 = [Fl, Qn, Z, Ls]
    case(W4, inst(Fl, v=J(float("inf"))))
    case(W4, inst(Fl, v=J(1.5)))
    case(W4, inst(Qn, v=J(QName("a"))))
    case(W4, inst(Z, v=member(Ls)))
    # required fields, frozen, tuple defaults, plain holder class
    Fz = model(MOD_A, ["Fz"], [fld("req"), fld("tt", dv(())), fld("uu", dv((1, "a")))], frozen=True)
    H = other(MOD_A, ["Holder"])
    Held = model(MOD_A, ["Holder", "Held"], [fld("q", df([1]))])
    W5 = [Fz, H, Held]
    case(W5, inst(Fz, req=J(1)))
    case(W5, inst(Fz, req=J((1, "a")), uu=J(())))
    case(W5, inst(Fz, req=inst(Held), tt=J((2,))))
    case(W5, inst(Fz, req=inst(Held, q=J([1, 2]))))
    case(W5, inst(Fz, req=inst(Held, q=J([]))))
    return out


def real_fixture_cases():
    """objects of real dataclasses: xsdata's generics and the repo's fixtures"""
    objs = []
    try:
        from xsdata.formats.dataclass.models.generics import AnyElement, DerivedElement

        objs.append(AnyElement(qname="{urn:x}a", text="t", attributes={"{urn:x}b": "1"}, children=[AnyElement(qname="c", tail="\n")]))
        objs.append(DerivedElement(qname="a", value=AnyElement(text="x"), type="{urn:x}T"))
        objs.append(DerivedElement(qname="a", value=Decimal("1.0")))
    except Exception:  # noqa: BLE001
        pass
    try:
        try:
            importlib.import_module("tests.fixtures.books")
        except ModuleNotFoundError:
            if "/repo" not in sys.path:
                sys.path.append("/repo")
        from tests.fixtures.books.fixtures import books
        from tests.fixtures.models import ExtendedType, FixedType, NillableType, Parent, TypeA, TypeB

        objs.append(books)
        objs.append(books.book[0])
        objs.append(ExtendedType(a=TypeA(x=1), any=TypeB(x=2, y="b"), wildcard=[1, "a"]))
        objs.append(FixedType())
        objs.append(NillableType(value=None))
        objs.append(Parent.Inner())
        objs.append(Parent())
    except Exception:  # noqa: BLE001
        pass
    out = []
    for o in objs:
        try:
            out.append({"world": world_of(o), "val": to_json(o), "var": "obj"})
        except Exception:  # noqa: BLE001
            continue
    return out


def bounded_cases(tier="quick"):
    tier = "quick" if tier == "quick" else "thorough"
    """every scalar x every default kind in a one-field class (elision table),
    and every container shape up to size 2 over a small alphabet"""
    out = []
    defaults = [None, dv(None), dv(0), dv(1), dv(0.0), dv("a"), dv(QName("a")), dv(Decimal("1")), dv(()), df(()), df([]), df({}), df([1]), dv(b"ab")]
    values = [J(None), J(0), J(1), J(False), J(True), J(0.0), J(-0.0), J(1.0), J("a"), J(QName("a")), J(Decimal("1.0")), J(()), J([]), J({}), J([1]), J((1,)), J(b"ab"), J(XmlHexBinary(b"ab")),
              J("0"), J("1"), J("None"), J("()"), J("[]"), J("{}"), J("b'ab'"), J("[1]")]
    if tier != "quick":
        # thorough: every member of every ==-group and every look-alike, as default and as value
        extra = [x for grp in EQ_VARIANTS + LOOKALIKES for x in grp]
        uniq = []
        for x in extra:
            if x not in uniq:
                uniq.append(x)
        values = values + [x for x in uniq if x not in values]
        defaults = defaults + [{"value": x} for x in uniq if x["t"] not in ("list", "dict") and {"value": x} not in defaults]
    for d in defaults:
        for init in (True, False) if d is not None else (True,):
            C = model(MOD_A, ["C"], [fld("f", d, init), fld("g", dv(None))])
            for v in values:
                out.append({"world": [C], "val": inst(C, f=v), "var": "obj"})
    atoms = [J(1), J("a"), J(()), J([])]
    for k in ("list", "tuple"):
        for a in atoms:
            out.append({"world": [], "val": {"t": k, "items": [a]}, "var": "v"})
            for b2 in atoms:
                out.append({"world": [], "val": {"t": k, "items": [a, {"t": k, "items": [b2]}]}, "var": "v"})
    return out


def gen_code(rng, tier):
    yield from hand_cases()
    yield from real_fixture_cases()
    yield from bounded_cases(tier)
    n_worlds = {"quick": 150, "oracle-thorough": 1500}.get(tier, 6000)
    per = 20 if tier == "quick" else 40
    for _ in range(n_worlds):
        w = rand_world(rng)
        ms = [e for e in w if e["kind"] == "model"]
        for _ in range(per):
            r = rng.random()
            if r < 0.85:
                v = rand_instance(rng, w, rng.choice(ms), rng.choice([1, 2, 2, 3]))
            else:
                v = rand_value(rng, w, 2)
            yield {"world": w, "val": v, "var": rng.choice(["obj", "obj", "books", "x1"])}


def walk_vals(j):
    yield j
    t = j["t"]
    if t in ("list", "tuple", "set"):
        for x in j["items"]:
            yield from walk_vals(x)
    elif t == "dict":
        for k, v in j["items"]:
            yield from walk_vals(k)
            yield from walk_vals(v)
    elif t == "model":
        for _, v in j["attrs"]:
            yield from walk_vals(v)


def features(a):
    fs = set()
    for j in walk_vals(a["val"]):
        t = j["t"]
        if t == "enum":
            fs.add("nested-enum" if len(j["path"]) > 1 else "enum")
        elif t == "tuple":
            fs.add("tuple+" if j["items"] else "tuple0")
        elif t == "set":
            fs.add("set+" if j["items"] else "set0")
        elif t == "qname":
            fs.add("qname-esc" if any(c in ESCAPED_QNAME_CHARS or ord(c) < 32 for c in j.get("text", "")) else "qname")
        elif t == "model":
            fs.add("nested-model" if len(j["path"]) > 1 else "model")
        elif t == "float":
            fs.add("float-nonfinite" if not isinstance(j["num"], list) else "float")
        elif t == "decimal":
            fs.add("decimal")
        elif t == "opaque":
            fs.add("xml-datatype")
        elif t == "dict":
            fs.add("dict+" if j["items"] else "dict0")
        elif t in ("bytes", "list"):
            fs.add(t)
    return fs


def classify_code(a, o):
    """bucket = outcome of exec'ing the real output | which of the delicate kinds
    the value contains (set+ is the still-defective region; nested-enum, tuple+,
    qname-esc are the repaired ones)"""
    if "ok" not in o:
        return "err:" + str(o.get("err"))
    fs = features(a)
    region = "+".join(sorted(fs & {"nested-enum", "tuple+", "qname-esc", "set+"})) or "plain"
    return o["ok"]["outcome"] + " | " + region


def gen_dq(rng, tier):
    for t in QNAME_TEXTS + STRS:
        yield {"s": t}
    for t in ["\\u0041", "\\u00e9", "\\ud800", "\\udfff", "\\u12", "\\u", "\\u004g", "\\uD7FF\\uE000", "\\u0000", "a\\u000Ab", "\\U00000041"]:
        yield {"s": t}
    alpha = 'ab\\\\\\"\'ntxu0014dDfF8N{}\n\r €'
    for _ in range(1500 if tier == "quick" else 40000):
        yield {"s": "".join(rng.choice(alpha) for _ in range(rng.randint(0, 6)))}


def gen_json(rng, tier):
    for i in range(0x250):
        yield {"s": chr(i)}
        yield {"s": "a" + chr(i) + "\\"}
    for t in QNAME_TEXTS + STRS + ["\u2028\u2029", "\ufeff", "\U0010FFFF", "\ud7ff\ue000"]:
        yield {"s": t}
    alpha = 'ab\\"\'/\n\r\t\x00\x01\x08\x0b\x0c\x1f\x7f\x80 €\u2028😀'
    for _ in range(1500 if tier == "quick" else 40000):
        yield {"s": "".join(rng.choice(alpha) for _ in range(rng.randint(0, 8)))}


def impl_json(a):
    import json as _json

    return ok(_json.dumps(a["s"], ensure_ascii=False))


def impl_qname_literal(a):
    """the real literal_value on a QName with this text, and what CPython makes of it"""
    from xsdata.utils.objects import literal_value

    text = literal_value(QName(a["s"]))
    try:
        back = eval(compile(text, "<c18lit>", "eval"), {"QName": QName}).text  # noqa: S307
    except Exception as e:  # noqa: BLE001
        back = "EXC:" + type(e).__name__
    return ok({"text": text, "back": back})


def gen_qnamecp(rng, tier):
    """QName texts as code point lists: every surrogate boundary, pairs in both
    orders, astral characters, escapes next to surrogates, then random"""
    hand = [[0xD800], [0xDBFF], [0xDC00], [0xDFFF], [0xD7FF], [0xE000], [0xD83D, 0xDE00], [0xDE00, 0xD83D], [0x1F600],
            [97, 0xD800, 98], [0xD800, 34], [92, 0xDFFF], [0xD800, 10, 0xDC00], [0x10FFFF], [0], [0xD800, 0x1F600, 0xDFFF],
            [92, 117, 100, 56, 48, 48]]  # the last one: the *characters* backslash-u-d-8-0-0
    for h in hand:
        yield {"cps": h}
    pool = [0xD800, 0xDABC, 0xDC00, 0xDFFF, 0x1F600, 0x10FFFF, 0xE9, 0x20AC, 0x2028, 34, 92, 10, 13, 9, 0, 8, 12, 0x1F, 0x7F, 97, 117, 48]
    for _ in range(1200 if tier == "quick" else 40000):
        yield {"cps": [rng.choice(pool) if rng.random() < 0.8 else rng.randrange(0x110000) for _ in range(rng.randint(0, 6))]}


def impl_qnamecp(a):
    from xsdata.utils.objects import literal_value

    text = "".join(chr(c) for c in a["cps"])
    lit = literal_value(QName(text))
    pre, post = 'QName("', '")'
    if not (lit.startswith(pre) and lit.endswith(post)):
        return err("shape")
    body = lit[len(pre):len(lit) - len(post)]
    if any(0xD800 <= ord(c) <= 0xDFFF for c in body):
        # a raw surrogate in the source text: nothing the driver protocol (or a source file) can carry
        return ok({"body": "RAW-SURROGATE", "back": None})
    try:
        with warnings.catch_warnings():
            warnings.simplefilter("ignore")
            back = [ord(c) for c in eval(compile(lit, "<c18cp>", "eval"), {"QName": QName}).text]  # noqa: S307
    except Exception:  # noqa: BLE001
        back = None
    return ok({"body": body, "back": back})


def gen_dqcp(rng, tier):
    for t in ["\\ud800", "\\udfff", "\\ud83d\\ude00", "a\\udc00b", "\\ud7ff\\ue000", "\\u0041", "\\ud80", "\\udg00", "\\uD800"]:
        yield {"s": t}
    alpha = 'ab\\\\"ntud8cf0 €'
    for _ in range(1200 if tier == "quick" else 40000):
        yield {"s": "".join(rng.choice(alpha) for _ in range(rng.randint(0, 8)))}


def impl_dqcp(a):
    s = a["s"]
    try:
        with warnings.catch_warnings():
            warnings.simplefilter("ignore")
            v = eval(compile('("' + s + '")', "<c18dqcp>", "eval"))  # noqa: S307
    except (SyntaxError, ValueError):
        return err("unmodelled")
    if not isinstance(v, str):
        return err("unmodelled")
    return ok([ord(c) for c in v])


STR_ALPHA = list("ab'\"\\\t\n\r\x00\x1f \x7f\x80\xa0\xad\xe9\u0378\u20ac\u2028\ue000\ufeff\U0001f600\U000e0001\U0010ffff")


def gen_strrepr(rng, tier):
    for i in list(range(0x180)) + [0x378, 0x2028, 0xD7FF, 0xE000, 0xFEFF, 0xFFFF, 0x10000, 0x1F600, 0xE0001, 0x10FFFF]:
        yield {"s": chr(i)}
        yield {"s": "'" + chr(i)}
        yield {"s": "'\"" + chr(i) + "\\"}
    for t in STRS + QNAME_TEXTS:
        yield {"s": t}
    for _ in range(1500 if tier == "quick" else 60000):
        if rng.random() < 0.15:
            cp = rng.randrange(0x110000)
            while 0xD800 <= cp <= 0xDFFF:
                cp = rng.randrange(0x110000)
            yield {"s": chr(cp) + rng.choice(["", "'", '"'])}
        else:
            yield {"s": "".join(rng.choice(STR_ALPHA) for _ in range(rng.randint(1, 8)))}


def impl_strrepr(a):
    r = repr(a["s"])
    try:
        back = ast.literal_eval(r)
    except Exception:  # noqa: BLE001
        back = None
    return ok({"repr": r, "back": back})


def classify_strrepr(a, o):
    s = a["s"]
    q = o["ok"]["repr"][0]
    kinds = set()
    for c in s:
        n = ord(c)
        kinds.add("ascii" if 32 <= n < 127 else "c0/del" if n < 32 or n == 127 else "latin1" if n < 256 else "bmp" if n < 65536 else "astral")
    esc = "esc" if "\\" in o["ok"]["repr"] else "raw"
    return f"quote={q} {esc} " + "+".join(sorted(kinds) or ["empty"])


def gen_bytesrepr(rng, tier):
    for i in range(256):
        yield {"bs": [i]}
        yield {"bs": [39, i]}
        yield {"bs": [39, 34, i, 92]}
    for _ in range(800 if tier == "quick" else 40000):
        yield {"bs": [rng.choice([39, 34, 92, 9, 10, 13, 0, 31, 32, 97, 126, 127, 128, 255]) if rng.random() < 0.7 else rng.randrange(256)
                      for _ in range(rng.randint(0, 8))]}


def impl_bytesrepr(a):
    r = repr(bytes(a["bs"]))
    return ok({"repr": r, "back": list(ast.literal_eval(r))})


def classify_bytesrepr(a, o):
    r = o["ok"]["repr"]
    return f"quote={r[1]} " + ("esc" if "\\" in r else "raw")


def gen_strlit(rng, tier):
    """whole literals, well-formed or not: what does the parser make of them?"""
    hand = ["''", '""', "'a'", '"a"', "'a\"'", "\"a'\"", "'a", "a'", "'a\"", "'\\x41'", "'\\x4'", "'\\u00e9'", "'\\U0001f600'", "'\\U00110000'",
            "'\\ud800'", "'\\101'", "'\\N{DASH}'", "'\\q'", "'a\nb'", "'\\\n'", "'" * 3 + "a" + "'" * 3, "'a''b'", "b'a'", "", "'", "'\\'", "'\\\\'"]
    for t in hand:
        yield {"t": t}
    alpha = list("ab'\"\\xuU0149afN{}\n é")
    for _ in range(1500 if tier == "quick" else 60000):
        q = rng.choice("'\"")
        if rng.random() < 0.6:  # whole escape tokens, so that valid \x \u \U forms occur often
            body = "".join(rng.choice(LIT_TOKENS) for _ in range(rng.randint(0, 5)))
        else:
            body = "".join(rng.choice(alpha) for _ in range(rng.randint(0, 7)))
        r = rng.random()
        yield {"t": (q + body + q) if r < 0.85 else (q + body) if r < 0.93 else body}


def _parse_literal(t, want):
    try:
        with warnings.catch_warnings():
            warnings.simplefilter("ignore")
            node = ast.parse(t, mode="eval").body
    except (SyntaxError, ValueError):
        return None
    # one literal token only: no implicit concatenation, no expression, no blanks around it
    if not isinstance(node, ast.Constant) or not isinstance(node.value, want):
        return None
    try:
        import io
        import tokenize

        toks = [tk for tk in tokenize.generate_tokens(io.StringIO(t).readline)
                if tk.type not in (tokenize.NEWLINE, tokenize.ENDMARKER, tokenize.NL)]
    except (tokenize.TokenError, SyntaxError, IndentationError):
        return None
    if len(toks) != 1 or toks[0].string != t:
        return None
    return node.value


def impl_strlit(a):
    t = a["t"]
    v = _parse_literal(t, str)
    if v is None or t[:1] not in ("'", '"') or t[:3] in ("'''", '"""'):
        return err("unmodelled")
    return ok(v)


def gen_byteslit(rng, tier):
    hand = ["b''", 'b""', "b'a'", "b'\\x41'", "b'\\x4'", "b'\\u0041'", "b'\\N'", "b'\\101'", "b'é'", "b'a", "'a'", "b'\\''", "b\"'\"", "b'\\q'", "B'a'"]
    for t in hand:
        yield {"t": t}
    alpha = list("ab'\"\\xu0149afN\n é")
    for _ in range(1000 if tier == "quick" else 40000):
        q = rng.choice("'\"")
        if rng.random() < 0.6:
            body = "".join(rng.choice(LIT_TOKENS) for _ in range(rng.randint(0, 5)))
        else:
            body = "".join(rng.choice(alpha) for _ in range(rng.randint(0, 7)))
        yield {"t": "b" + q + body + (q if rng.random() < 0.9 else "")}


def impl_byteslit(a):
    t = a["t"]
    v = _parse_literal(t, bytes)
    if v is None or t[:1] != "b" or t[1:4] in ("'''", '"""'):
        return err("unmodelled")
    return ok(list(v))


def classify_lit(a, o):
    t = a["t"]
    kind = "ok" if "ok" in o else "rejected"
    feats = [k for k, pat in (("x", "\\x"), ("u", "\\u"), ("U", "\\U"), ("octal", "\\0"), ("N", "\\N")) if pat in t]
    return kind + " " + ("+".join(feats) or ("esc" if "\\" in t else "plain"))


def gen_decrepr(rng, tier):
    """Decimal values by their as_tuple(): every notation boundary of str() (exponent 0, ≤ 0 with / without leading zeros,
    the 1e-6 switch to scientific, positive exponents, one and many digits), zeros of both signs, specials with payloads"""
    for neg in (False, True):
        for c in ("0", "1", "5", "10", "15", "100", "12345", "99999999999999999999"):
            for x in (0, 1, 2, 3, -1, -2, -4, -5, -6, -7, -8, -10, -19, -20, -21, -26, -30, 30, 999999):
                yield {"dec": ["fin", neg, c, x]}
        yield {"dec": ["inf", neg]}
        for sg in (False, True):
            for p in ("0", "1", "123", "9" * 30):
                yield {"dec": ["nan", neg, sg, p]}
    for _ in range(1500 if tier == "quick" else 30000):
        c = str(rng.choice([0, rng.randrange(10), rng.randrange(10**4), rng.randrange(10**12), rng.randrange(10**30)]))
        yield {"dec": ["fin", rng.random() < 0.5, c, rng.choice([0, 0, rng.randint(-40, 40), rng.randint(-8, 2), rng.randint(-400, 400)])]}


def impl_decrepr(a):
    d = build_val({"t": "decimal", "dec": a["dec"]}, None)
    r = repr(d)
    back = eval(r, {"Decimal": Decimal})  # noqa: S307
    return ok({"repr": r, "back": back.as_tuple() == d.as_tuple()})


def classify_decrepr(a, o):
    r = o["ok"]["repr"]
    kind = a["dec"][0]
    if kind != "fin":
        return kind + (" payload" if kind == "nan" and a["dec"][3] != "0" else "") + (" signaling" if kind == "nan" and a["dec"][2] else "")
    return "fin " + ("sci" if "E" in r else "plain") + (" point" if "." in r else "") + (" zero" if a["dec"][2].strip("0") == "" else "")


def gen_pyeq(rng, tier):
    """Python == vs pyEq: scalars x scalars (numeric tower, QName/str, bytes
    subclasses, NaN, specials), containers, and instances of two dataclasses
    and two enums (same / other class, same / other values, nested)."""
    PA = model(MOD_A, ["P"], [fld("a", dv(None)), fld("b", df([]))])
    PB = model(MOD_B, ["P"], [fld("a", dv(None)), fld("b", df([]))])
    QA = model(MOD_A, ["Q"], [fld("a", dv(None))], frozen=True)
    EA = enum(MOD_A, ["E"], ("A", "B"))
    EB = enum(MOD_B, ["E"], ("A", "B"))
    w = [PA, PB, QA, EA, EB]
    vals = [x for grp in EQ_VARIANTS for x in grp] + [
        J(None), J(float("nan")), J(Decimal("NaN")), J(float("inf")), J(Decimal("Infinity")), J(float("-inf")), J(Decimal("-Infinity")),
        J(()), J([]), J({}), J([1]), J((1,)), J([True]), J({"a": 1}), J({"a": 1.0}), J("b"), J(b"a"), J(0.1), J(Decimal("0.1")),
        J(XmlDate(2000, 1, 2)), J(XmlDate(1999, 12, 31)), J(XmlDuration("P1D")), J([[0]]), J([(False,)]), J(((),)),
        J(set()), J(frozenset()), J({1}), J(frozenset({1})), J({1, 2}), J(frozenset({1, 2})), J({1.0}), J([{1}]),
        J(Decimal("sNaN")), J([Decimal("sNaN")]), J((Decimal("sNaN"),)), J((1, Decimal("sNaN"))), J([1, Decimal("sNaN")]), J(XmlDate(2000, 1, 2)),
        J(""), J(b""), J(QName("")), J("a'b"), J(b"a'b"), J(XmlBase64Binary(b"a")), J(10**30), J(1e30), J(Decimal(10**30)),
        J([QName("a")]), J(["a"]), J({"a": QName("a")}), J({QName("a"): 1}), J([1.0, True]), J([1, 1]), J((1, [2, {3: 4}])), J([1, [2, {3: 4.0}]]),
        member(EA, "A"), member(EA, "B"), member(EB, "A"), J([1, None]), J([None, 1]),
        inst(PA), inst(PA, a=J(1)), inst(PA, a=J(True)), inst(PA, a=J(1), b=J([1])), inst(PB), inst(PB, a=J(1)), inst(QA), inst(QA, a=J(1.0)),
        inst(PA, a=inst(PA, a=J(0))), inst(PA, a=inst(PA, a=J(False))), inst(PA, a=inst(PB, a=J(0))), inst(PA, a=member(EA, "A")),
        inst(PA, a=member(EB, "A")), inst(PA, b=J([float("nan")])), J([inst(PA)]), J([inst(PB)]),
    ]
    for x in vals:
        for y in vals:
            yield {"world": w, "a": x, "b": y}
    if tier != "quick":
        # random pairs built from the same pools as the code generator, one side often a perturbed copy
        for _ in range(60000):
            x = rand_value(rng, w, 2)
            y = x if rng.random() < 0.3 else eq_variant(rng, x) if rng.random() < 0.5 else rand_value(rng, w, 2)
            yield {"world": w, "a": x, "b": y}


def classify_pyeq(a, o):
    def kind(j):
        t = j["t"]
        if t in ("bool", "int", "float", "decimal") or (t == "opaque" and j.get("num") is not None):
            return "num"
        return {"str": "text", "qname": "text", "list": "seq", "tuple": "seq", "set": "set", "opaque": "opaque"}.get(t, t)

    return f"{kind(a['a'])}~{kind(a['b'])} -> {o.get('ok')}"


def classify_dq(a, o):
    s = a.get("s", "")
    feats = [k for k, pat in (("u", "\\u"), ("x", "\\x"), ("U", "\\U"), ("N", "\\N"), ("octal", "\\0"), ("quote", '"'), ("nl", "\n")) if pat in s]
    return ("ok" if "ok" in o else "declined/rejected") + " " + ("+".join(feats) or ("esc" if "\\" in s else "plain"))


def classify_text(a, o):
    s = a.get("s", "")
    kinds = set()
    for c in s:
        n = ord(c)
        kinds.add("quote/backslash" if c in '"\\' else "short-esc" if c in "\n\r\t\b\f" else "c0" if n < 32 else "ascii" if n < 127 else
                  "del/c1" if n < 160 else "bmp" if n < 0x10000 else "astral")
    return "+".join(sorted(kinds)) or "empty"


def classify_cps(a, o):
    cps = a["cps"]
    sur = sum(1 for c in cps if 0xD800 <= c <= 0xDFFF)
    pair = any(0xD800 <= x <= 0xDBFF and 0xDC00 <= y <= 0xDFFF for x, y in zip(cps, cps[1:]))
    return ("no-surrogate" if not sur else "pair" if pair else "lone x%d" % min(sur, 3)) + (" +astral" if any(c > 0xFFFF for c in cps) else "") + (
        " +escapes" if any(c in (34, 92) or c < 32 for c in cps) else "")


LIT_TOKENS = ["a", "b", " ", "é", "'", '"', "\\'", '\\"', "\\\\", "\\n", "\\t", "\\a", "\\x41", "\\xe9", "\\xff", "\\u00e9", "\\u20ac", "\\u0041",
              "\\U0001f600", "\\U0010ffff", "\\q", "\\.", "\\ud800", "\\U00110000", "\\x4", "\\u12", "\\101", "\\0", "\\N{DASH}", "\n", "\\"]


def gen_seq(rng, tier):
    """several renders on ONE serializer (one shared XmlContext): A, B, A again,
    the same class in another module in between - the text of each render must
    be what a fresh serializer gives (no state may leak between calls)"""
    for _ in range(25 if tier == "quick" else 2000):
        w = rand_world(rng)
        ms = [e for e in w if e["kind"] == "model"]
        vals = [rand_instance(rng, w, rng.choice(ms), 2) for _ in range(rng.choice([2, 3, 4]))]
        vals.append(vals[0])
        if rng.random() < 0.5:
            vals.insert(1, vals[0])
        yield {"world": w, "vals": vals}
    # the same class name in two modules, rendered one after the other (never together)
    A1 = model(MOD_A, ["Address"], [fld("x", dv(None)), fld("y", dv(0))])
    A2 = model(MOD_B, ["Address"], [fld("x", dv(None)), fld("w", dv(0))])
    yield {"world": [A1, A2], "vals": [inst(A1, y=J(1)), inst(A2, w=J(2)), inst(A1, y=J(1)), inst(A2, x=J(1.5)), inst(A1, x=J(float("inf")))]}
    E1 = enum(MOD_A, ["Kind"], ("A",))
    E2 = enum(MOD_B, ["Kind"], ("A", "B"))
    H = model(MOD_A, ["H"], [fld("k", dv(None))])
    yield {"world": [E1, E2, H], "vals": [inst(H, k=member(E1)), inst(H, k=member(E2, "B")), inst(H, k=member(E1)), inst(H)]}


def impl_seq(a):
    b = build_world(a["world"])
    ser = PycodeSerializer()
    out = []
    for j in a["vals"]:
        obj = build_val(j, b)
        try:
            out.append(ser.render(obj, "obj"))
        except SerializerError:
            out.append("RAISES:SerializerError")
        except InvalidOperation:
            out.append("RAISES:InvalidOperation")
    return ok(out)


def compare_seq(mo, io, a):
    if "ok" not in mo or "ok" not in io or len(mo["ok"]) != len(io["ok"]):
        return mo == io
    # the model may decline one render (a signaling NaN in a comparison it does not cover)
    return all(m == i or m == "RAISES:unmodelled" for m, i in zip(mo["ok"], io["ok"]))


def classify_seq(a, o):
    texts = o.get("ok", [])
    return f"{len(texts)} renders, {sum(1 for t in texts if t.startswith('RAISES'))} refused, {len(set(texts))} distinct"


CORRS = [
    Corr("c18.code", gen_code, impl_code, canon=canon_code, compare=compare_code, classify=classify_code,
         nontrivial=lambda a, o: a["val"]["t"] in ("model", "list", "tuple", "dict", "set"),
         describe="PycodeSerializer.render text + outcome of exec'ing it vs model (text exact; outcome unless the model declines)"),
    Corr("c18.seq", gen_seq, impl_seq, compare=compare_seq, classify=classify_seq,
         describe="several renders on one PycodeSerializer / XmlContext (A, B, A again; same class name in two modules in turn) vs the stateless model"),
    Corr("c18.dq", gen_dq, impl_dq, compare=compare_dq, classify=classify_dq, nontrivial=lambda a, o: "\\" in a["s"],
         describe='CPython decoding of the body of a "…" literal vs decodeDq (model may decline)'),
    Corr("c18.strrepr", gen_strrepr, impl_strrepr, classify=classify_strrepr, nontrivial=lambda a, o: len(a["s"]) > 0,
         describe="repr(s) and its evaluation vs pyReprStr (interpreter's printability table) and decodeStrLit"),
    Corr("c18.bytesrepr", gen_bytesrepr, impl_bytesrepr, classify=classify_bytesrepr, nontrivial=lambda a, o: len(a["bs"]) > 0,
         describe="repr(bytes) and its evaluation vs pyReprBytes and decodeBytesLit"),
    Corr("c18.strlit", gen_strlit, impl_strlit, compare=compare_dq, classify=classify_lit, nontrivial=lambda a, o: "\\" in a["t"],
         describe="CPython's reading of a whole str literal (either quote, all escapes) vs decodeStrLit (model may decline)"),
    Corr("c18.byteslit", gen_byteslit, impl_byteslit, compare=compare_dq, classify=classify_lit, nontrivial=lambda a, o: "\\" in a["t"],
         describe="CPython's reading of a whole bytes literal vs decodeBytesLit (model may decline)"),
    Corr("c18.decrepr", gen_decrepr, impl_decrepr, classify=classify_decrepr,
         describe="repr(Decimal) (= Decimal('<str(d)>'), the decimal module's scientific notation) and its evaluation vs decRepr / readDecimal"),
    Corr("c18.pyeq", gen_pyeq, impl_pyeq, compare=compare_dq, classify=classify_pyeq, describe="Python == on scalar/collection values vs pyEq"),
    Corr("c18.json", gen_json, impl_json, classify=classify_text, nontrivial=lambda a, o: len(a["s"]) > 0,
         describe="json.dumps(s, ensure_ascii=False) vs jsonDumps (every code point below U+0250, then random)"),
    Corr("c18.qnamecp", gen_qnamecp, impl_qnamecp, classify=classify_cps, nontrivial=lambda a, o: any(0xD800 <= c <= 0xDFFF for c in a["cps"]),
         describe="literal_value(QName(text)) for texts given by code points, lone surrogates included: text between the quotes and what CPython reads back vs qnameLitBody / decodeCp"),
    Corr("c18.dqcp", gen_dqcp, impl_dqcp, compare=compare_dq, classify=classify_dq, nontrivial=lambda a, o: "\\u" in a["s"],
         describe='CPython decoding of a "…" body to code points (surrogate escapes included) vs decodeCp (model may decline)'),
    Corr("c18.qnamelit", gen_json, impl_qname_literal, classify=classify_text, nontrivial=lambda a, o: len(a["s"]) > 0,
         describe="literal_value(QName(s)) text and its evaluation by CPython vs the model's text and decodeDq"),
]

# ---------------------------------------------------------------------------
# oracle: the property on the implementation alone
# ---------------------------------------------------------------------------
ESCAPED_QNAME_CHARS = '\\"'


def same_value(a, b):
    """equal in the sense of the property: Python ==, or the same structure
    where NaN counts as equal to NaN"""
    try:
        if a == b:
            return True
    except Exception:  # noqa: BLE001
        pass
    if type(a) is not type(b):
        return False
    if isinstance(a, float):
        return math.isnan(a) and math.isnan(b)
    if isinstance(a, Decimal):
        return a.is_nan() and b.is_nan()
    if isinstance(a, (list, tuple)):
        return len(a) == len(b) and all(same_value(x, y) for x, y in zip(a, b))
    if isinstance(a, dict):
        return len(a) == len(b) and all(same_value(k1, k2) and same_value(v1, v2) for (k1, v1), (k2, v2) in zip(a.items(), b.items()))
    if is_dataclass(a):
        return all(same_value(getattr(a, f.name), getattr(b, f.name, MISSING)) for f in fields(a))
    return False


def graph_name_clash(obj):
    """Own traversal of the object graph (everything reachable, elided or not):
    does one outermost class name belong to two modules?  Only then may
    `render` refuse the object."""
    names: dict[str, set] = {}
    seen = set()

    def visit(o):
        if id(o) in seen:
            return
        seen.add(id(o))
        t = type(o)
        names.setdefault(t.__qualname__.split(".")[0], set()).add(t.__module__)
        if isinstance(o, (list, tuple, set, frozenset)):
            for x in o:
                visit(x)
        elif isinstance(o, dict):
            for k, v in o.items():
                visit(k)
                visit(v)
        elif is_dataclass(o) and not isinstance(o, type):
            for f in fields(o):
                visit(getattr(o, f.name, None))

    visit(obj)
    return sorted(n for n, ms in names.items() if len(ms) > 1)


def oracle_check(a):
    b, obj = real_case(a)
    var = a.get("var", "obj")
    try:
        text = PycodeSerializer().render(obj, var)
    except SerializerError as e:
        # an explicit refusal is acceptable only for a graph that really holds
        # two classes of one name (ASSUMPTIONS); anything else is a violation
        if graph_name_clash(obj):
            return None
        return f"render refused an object graph without any class-name clash: {e}"
    except Exception as e:  # noqa: BLE001
        return f"render raised {type(e).__name__}: {e}"
    outcome, detail, got = run_source(text, var, obj)
    if outcome.startswith("exc:") or outcome == "unbound":
        return f"exec of the rendered source raised {detail}"
    if not same_value(got, obj):
        return f"rendered source evaluates to {got!r}, original is {obj!r}"
    return None


def moved_init_false(a):
    """(path of) model instances holding an init=False attribute that differs from the class default"""
    by_ref = {(e["module"], tuple(e["path"])): e for e in a["world"]}
    for j in walk_vals(a["val"]):
        if j["t"] != "model":
            continue
        e = by_ref[(j["module"], tuple(j["path"]))]
        for f, (_, v) in zip(e["fields"], j["attrs"]):
            if not f["init"]:
                d = f["default"]
                if d is None or d.get("value", d.get("factory")) != v:
                    return True
    return False


def _defaults(a):
    for e in a["world"]:
        for f in e.get("fields", []):
            d = f["default"]
            if d is not None:
                yield d.get("value", d.get("factory"))


def has_snan(a):
    """a signaling NaN in the value or in a class default (both sides of `default == value`)"""
    vals = [a["val"], *_defaults(a)]
    return any(j["t"] == "decimal" and j.get("num") == "snan" for v in vals for j in walk_vals(v))


def _map_everywhere(a, quiet):
    """apply a leaf replacement to the value and to every class default"""
    world = []
    for e in a["world"]:
        if "fields" in e:
            fs = []
            for f in e["fields"]:
                d = f["default"]
                if d is not None:
                    k = "value" if "value" in d else "factory"
                    d = {k: _map_val(d[k], quiet)}
                fs.append({**f, "default": d})
            e = {**e, "fields": fs}
        world.append(e)
    return {**a, "world": world, "val": _map_val(a["val"], quiet)}


def _quiet_snan(a):
    return _map_everywhere(a, lambda j: J(Decimal("NaN")) if j["t"] == "decimal" and j.get("num") == "snan" else None)


def _drop_odd_enum(a):
    return _map_everywhere(a, lambda j: {"t": "none"} if j["t"] == "enum" and odd_enum_name(j["member"]) else None)


def _map_val(j, fn):
    r = fn(j)
    if r is not None:
        return r
    t = j["t"]
    if t in ("list", "tuple", "set"):
        return {**j, "items": [_map_val(x, fn) for x in j["items"]]}
    if t == "dict":
        return {**j, "items": [[_map_val(k, fn), _map_val(v, fn)] for k, v in j["items"]]}
    if t == "model":
        return {**j, "attrs": [[n, _map_val(v, fn)] for n, v in j["attrs"]]}
    return j


def _reset_init_false(a):
    by_ref = {(e["module"], tuple(e["path"])): e for e in a["world"]}

    def fix(j):
        if j["t"] != "model":
            return None
        e = by_ref[(j["module"], tuple(j["path"]))]
        attrs = []
        for f, (n, v) in zip(e["fields"], j["attrs"]):
            d = f["default"]
            if not f["init"] and d is not None:
                v = d.get("value", d.get("factory"))
            attrs.append([n, _map_val(v, fix)])
        return {**j, "attrs": attrs}

    return {**a, "val": _map_val(a["val"], fix)}


# (finding id, "the input lies in the region", "the failure is the one the finding describes", input with the trigger removed)
KNOWN_REGIONS = [
    ("C18-enum-member-name", has_odd_enum,
     lambda msg: re.match(r"exec of the rendered source raised (SyntaxError|AttributeError|NameError)\b", msg) is not None,
     _drop_odd_enum),
    ("C18-init-false-attribute", moved_init_false,
     lambda msg: msg.startswith("rendered source evaluates to"),
     _reset_init_false),
    ("C18-decimal-snan-compare", has_snan,
     lambda msg: msg.startswith("render raised InvalidOperation"),
     _quiet_snan),
]


def covered(a, msg):
    """A failing input belongs to a listed finding when (1) it lies in that
    finding's region (a predicate on the input), (2) the failure is of the kind
    the finding describes, and (3) the property holds once exactly the triggers
    of the known findings are removed - so nothing else is wrong with it."""
    try:
        hit = covered_nesting(a, msg)
        if hit:
            return hit
        regions = [r for r in KNOWN_REGIONS if r[1](a)]
        named = [r for r in regions if r[2](msg)]
        if not named:
            return None
        fixed = a
        for r in regions:
            fixed = r[3](fixed)
        if oracle_check(fixed) is None:
            return named[0][0]
    except Exception:  # noqa: BLE001
        return None
    return None


def bracket_depth(text):
    """most brackets open at once in the source text, string literals skipped
    (own scanner: the rendered literals are single-line, quote-delimited)"""
    depth = best = 0
    i, n = 0, len(text)
    while i < n:
        c = text[i]
        if c in "'\"":
            i += 1
            while i < n and text[i] != c:
                i += 2 if text[i] == "\\" else 1
        elif c in "([{":
            depth += 1
            best = max(best, depth)
        elif c in ")]}":
            depth -= 1
        i += 1
    return best


PARSER_LIMIT = 200


def covered_nesting(a, msg):
    """the rendered source nests brackets deeper than CPython's tokenizer allows"""
    if "too many nested parentheses" not in msg:
        return None
    b, obj = real_case(a)
    text = PycodeSerializer().render(obj, a.get("var", "obj"))
    return "C18-nesting-limit" if bracket_depth(text) > PARSER_LIMIT else None


def gen_oracle(rng, tier):
    # QName texts with lone surrogates (c18.qnamecp covers literal_value; here the whole render/exec path)
    C = model(MOD_A, ["C"], [fld("q", dv(None))])
    for t in ("a\ud800b", "\udfff", "{urn:\udc00}x", "\ud83d\ude00"):
        yield {"world": [C], "val": inst(C, q=J(QName(t))), "var": "obj"}
    yield from gen_code(rng, "quick" if tier == "quick" else "oracle-thorough")


ORACLES = [
    Oracle("c18.roundtrip", gen_oracle, oracle_check, covered=covered, from_ops=("c18.code",)),
]

def finding_enum_member_name():
    """members created through the Enum functional API may have any name"""
    m = types.ModuleType("c18find_e")
    sys.modules["c18find_e"] = m
    m.Odd = Enum("Odd", {"a-b": 1, "class": 2, "ok": 3}, module="c18find_e")

    @dataclasses.dataclass
    class Holder:
        x: Any = None

    Holder.__module__ = "c18find_e"
    Holder.__qualname__ = "Holder"
    m.Holder = Holder
    outs = []
    for name in ("a-b", "class", "ok"):
        obj = Holder(x=m.Odd[name])
        text = PycodeSerializer().render(obj)
        outs.append(run_source(text, "obj", obj)[0])
    return outs == ["exc:AttributeError", "exc:SyntaxError", "equal"], "/".join(outs)


def finding_nesting_limit():
    def nest(n):
        v = 1
        for _ in range(n):
            v = [v]
        return v

    outs = []
    for n in (200, 201):
        obj = nest(n)
        text = PycodeSerializer().render(obj)
        outcome, detail, _ = run_source(text, "obj", obj)
        outs.append(outcome + ("" if outcome == "equal" else ":" + detail[:60]))
    return outs[0] == "equal" and outs[1].startswith("exc:SyntaxError") and "too many nested" in outs[1], " / ".join(outs)


def _finding_module():
    m = types.ModuleType("c18find_f")
    sys.modules["c18find_f"] = m
    exec(  # noqa: S102
        "from dataclasses import dataclass, field\nfrom typing import Any\n"
        "@dataclass\nclass Doc:\n    lang: str = field(init=False, default='en')\n    total: Any = 0\n    note: Any = None\n",
        m.__dict__,
    )
    return m


def finding_init_false_attribute():
    m = _finding_module()
    obj = m.Doc()
    obj.lang = "fr"  # an attribute of an init=False field, changed after construction
    text = PycodeSerializer().render(obj)
    outcome, _, got = run_source(text, "obj", obj)
    untouched = m.Doc()
    o2, _, _ = run_source(PycodeSerializer().render(untouched), "obj", untouched)
    return outcome == "unequal" and got.lang == "en" and "lang" not in text and o2 == "equal", f"{outcome} (restored lang={getattr(got, 'lang', None)!r}) / untouched: {o2}"


def finding_decimal_snan():
    m = _finding_module()
    try:
        PycodeSerializer().render(m.Doc(total=Decimal("sNaN")))
        first = "rendered"
    except InvalidOperation:
        first = "InvalidOperation"
    second = PycodeSerializer().render(m.Doc(note=Decimal("sNaN")))  # non-numeric default: no comparison with a number
    return first == "InvalidOperation" and "note=Decimal('sNaN')" in second, f"numeric default: {first}; None default: rendered"


FINDINGS = {
    "C18-enum-member-name": finding_enum_member_name,
    "C18-nesting-limit": finding_nesting_limit,
    "C18-init-false-attribute": finding_init_false_attribute,
    "C18-decimal-snan-compare": finding_decimal_snan,
}

_RULE = (
    "hand-picked cases (every repr_object/literal_value/build_imports branch, each remaining and each repaired defect, cross-type default elision), "
    "real fixture objects (books, generics), bounded-exhaustive default x value table and container shapes, then seeded random "
    "worlds (nested classes/enums, two modules, frozen) x random instances; distinct = distinct canonical (op,args); "
    "non-trivial = the value is a model instance or a collection"
)


def __getattr__(name):
    """`RULE` is read by the framework after the correspondence ran: complete it
    with this run's counters (PEP 562 module attribute)."""
    if name == "RULE":
        return _RULE + (
            f"; this run: {STATS['cases']} c18.code cases, {STATS['wf']} well-formed for the model, model declined "
            f"(unmodelled) on {STATS['declined']}, hypotheses of code_rt_partial held on {STATS['claimed']} of them and the "
            f"real outcome was 'equal' on {STATS['claimed_equal']} of those"
        )
    raise AttributeError(name)

LEVEL_TEXT = (
    "Lean theorems for all worlds and all values at AST level, about the code as it is after the fix commits: render either "
    "refuses with SerializerError (exactly when one outermost class name belongs to two modules) or returns source whose "
    "expression, evaluated in the namespace its own import lines create, yields a value Python-equal to the original "
    "(render_refuses_or_round_trips, code_rt_partial: nested classes and enums, tuples, sets, frozensets, QNames, str and bytes of "
    "any content, ...); every name the source uses is bound to the class it means (imports_sufficient, full strength); repr() of "
    "every str (for every printability table) and of every bytes value is read back by the parser as that value "
    "(str_repr_roundtrips, bytes_repr_roundtrips), likewise repr(float) for every binary64 value (float_repr_evaluates_back, from C05's "
    "float_repr_rt) and repr(Decimal) for every Decimal (decimal_repr_evaluates_back), as is the literal written for a QName text, lone surrogates included "
    "(qname_codepoints_roundtrip). One region remains excluded from the round trip, a proved counterexample and a replayed "
    "finding: more than 200 nested brackets (CPython's tokenizer limit, probed each run); attributes of init=False fields changed "
    "after construction are not restored (explicit hypothesis initFalseAtDefault, proved counterexample, finding), and a "
    "Decimal('sNaN') compared with a numeric default makes render itself raise (modelled: cmpRaises; finding). Enum members whose name is not an "
    "ASCII identifier or is a keyword are outside the model (listed finding). The model is tied to /repo by comparing the exact "
    "emitted text and the exec outcome on generated dataclasses and values (also several renders on one serializer), repr() and "
    "literal parsing of str/bytes, json.dumps and the QName literal on every code point below U+0250, surrogates and random "
    "strings, Python == on 94x94 value pairs, and the theorem's claim is re-checked on the real code wherever its hypotheses hold."
)
LEVEL_NOTE = (
    "Trusted: Lean kernel; CPython's tokenising of the emitted text into the modelled AST (string/bytes literal decoding, the "
    "bracket nesting limit, repr(str)/repr(bytes), float()/repr(float) (C05's exact binary64 model, float_repr_rt) and "
    "Decimal(str)/str(Decimal) are modelled, proved to round-trip and compared with the interpreter); the repr/eval round "
    "trip of xsdata date/time values (their repr is an input); the sampling correspondence check. IntEnum/StrEnum/Flag, "
    "NaN-valued defaults, dict/set permutations and duplicate collapse, a signaling NaN inside a dict/set comparison, dataclass "
    "instances as dict keys or set elements, generators, NamedTuples and classes defined inside functions are not modelled."
)
TRUSTED = [
    "CPython parses the emitted text into the PyExpr AST the model evaluates (the text itself is compared character by character with the real output)",
    "repr()/constructor round trip of XmlDate/XmlTime/XmlDateTime/XmlDuration/XmlPeriod is taken from the interpreter (repr strings are inputs of the model); for str, bytes, float and Decimal the repr is an input too, but every input is checked against the model's own pyReprStr / pyReprBytes / F64.repr / decRepr and the theorems str_repr_roundtrips, bytes_repr_roundtrips, float_repr_evaluates_back, decimal_repr_evaluates_back show it is read back as the value",
    "numeric == between bool/int/float/Decimal is exact comparison of fractions.Fraction values supplied by the harness",
    "format pieces (indent, float(\"…\"), QName(\"…\") and its escapes for all ASCII characters, import line, enum member, bracket layout of every array kind) and dir(builtins) are regenerated by probing the live functions and tied to the model by the theorems literal_formats, layout_probes, qname_escapes_ascii",
]
ASSUMPTIONS = [
    "'equal' is Python ==; for the failing-input search NaN is additionally taken equal to NaN position-wise",
    "classes are importable by module and qualified name (module-level or nested in classes, not in functions or __main__)",
    "a SerializerError from render is an accepted outcome exactly for object graphs that hold two classes of one outermost name from different modules (checked by an own traversal of the object graph)",
    "field defaults contain no NaN; enums are plain Enum; str values consist of Unicode scalar values (QName texts may hold lone surrogates); no signalling NaN",
]
