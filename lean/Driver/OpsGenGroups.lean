import Driver.Proto
import Driver.OpsGen
import XsdataModel.Gen.Groups
open Lean Proto Py Xs.Gen

namespace OpsGenGroups
open OpsGen

partial def dGParticle (j : Json) : Except String GParticle :=
  let kids (ps : Json) : Except String (List GParticle) := do (← asArr ps).mapM dGParticle
  match j.getObjVal? "elem", j.getObjVal? "ref" with
  | .ok (.arr #[n, mn, mx]), _ => do pure (.elem (← asStr n) (← dNat mn) (← dNat mx))
  | _, .ok (.arr #[n, mn, mx]) => do pure (.ref (← asStr n) (← dNat mn) (← dNat mx))
  | _, _ =>
    match j.getObjVal? "seq", j.getObjVal? "choice", j.getObjVal? "all" with
    | .ok (.arr #[mn, mx, ps]), _, _ => do pure (.seq (← dNat mn) (← dNat mx) (← kids ps))
    | _, .ok (.arr #[mn, mx, ps]), _ => do pure (.choice (← dNat mn) (← dNat mx) (← kids ps))
    | _, _, .ok (.arr #[mn, mx, ps]) => do pure (.all (← dNat mn) (← dNat mx) (← kids ps))
    | _, _, _ => .error s!"bad particle {j.compress}"

def dDefs (j : Json) : Except String GroupDefs := do
  (← asArr j).mapM fun d => match d with
    | .arr #[n, p] => do pure (← asStr n, ← dGParticle p)
    | _ => .error "bad group definition"

def schemaArg (a : Json) : Except String (GroupDefs × List GParticle) := do
  pure (← dDefs (fld a "defs"), ← (← asArr (fld a "types")).mapM dGParticle)

/-- one answer per class; a class whose references do not resolve makes the run fail -/
def perClass (f : List Site → List Site) (cs : List (Option (List Site))) : Json :=
  if cs.any (·.isNone) then err "GEN:CodegenError" else
  ok (jList (fun (c : Option (List Site)) => jList jSite (f (c.getD []))) cs)

def run (op : String) (a : Json) : Option (Except String Json) :=
  match op with
  | "gen.grp_sites" => some do
      let (defs, types) ← schemaArg a
      pure <| perClass id (schemaSites defs types)
  | "gen.grp_calc" => some do
      let classes ← (← asArr (fld a "classes")).mapM fun c => do (← asArr c).mapM dSite
      pure <| ok (jList (fun ss => jList jSite (calculatePaths ss)) classes)
  | "gen.grp_occurs" | "gen.grp_fields" => some do
      let (defs, types) ← schemaArg a
      pure <| perClass occurs (schemaSites defs types)
  | _ => none

end OpsGenGroups
