"""Tables for C02: the DataType enumeration (code -> python type, format) and the list builtins."""
from extract_tables import chars, extra


@extra
def c02_tables(w):
    from xsdata.models.enums import DataType

    w("-- xsdata/models/enums.py : DataType members (code, python type of the member, format)")
    w(
        "def dataTypeMembers : List (List Char × List Char × Option (List Char)) := ["
        + ", ".join(f"({chars(d.code)}, {chars(d.type.__name__)}, {'some ' + chars(d.format) if d.format else 'none'})" for d in DataType)
        + "]"
    )
    w("")
