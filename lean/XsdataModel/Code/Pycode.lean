/-
L8 — xsdata/formats/dataclass/serializers/code.py : PycodeSerializer
     (render / write / build_imports / repr_object / repr_array / repr_mapping /
      repr_model), xsdata/utils/objects.py : literal_value, and the part of
     xsdata/formats/dataclass/compat.py it uses (Dataclasses.get_fields /
     default_value), **as the code is**, plus the fragment of Python needed to
     say what the emitted source does when it is executed in a fresh namespace.

Layers
  * `Val`      — the Python values a binding-model instance is made of.
  * `World`    — the classes that exist (module, qualname path, kind, fields).
  * `PyExpr`   — the expression the serializer emits (an AST; `PyExpr.text`
                 is the exact source text, layout included).
  * `render`   — `repr_object`; `PyExpr.types` — the `types` set;
                 `imports` — `build_imports`; `source` — `render()`.
  * `eval`     — CPython executing that expression after the import lines:
                 name lookup through the imported names, attribute walk,
                 dataclass `__init__(**kwargs)`, list/dict displays.
  * `pyEq`     — Python `==` on these values.
  * `outcome`  — "equal" / "unequal" / "exc:<Type>" / "unmodelled".

What is *not* modelled (trusted to CPython): tokenising/parsing of the text
into the AST; `repr()`/literal round trip of `str`, `bytes`, finite `float`
and of opaque values whose `repr` is a constructor call (`Decimal('1.5')`,
`XmlDate(2000, 1, 2)`): their text is an input (`repr` field) and evaluating
it is taken to give the value back.
-/
import XsdataModel.Py.Basic
import XsdataModel.Tables

open Lean in
/-- `cs!"abc"` = `['a','b','c']` (strings in the model are `List Char`) -/
macro:max "cs!" s:str : term => do
  let elems := s.getString.toList.map fun c => Syntax.mkCharLit c
  `(([$(elems.toArray),*] : List Char))

namespace Xs.Code
open Py

/-! ## Values -/

/-- exact numeric value of a `float` / `Decimal`: a fraction in lowest terms
(as `fractions.Fraction(x)` gives it) or one of the specials -/
inductive NumV
  | fin (num : Int) (den : Nat)
  | pinf
  | ninf
  | nan
deriving DecidableEq, Repr

/-- Python numeric `==` (exact; NaN equals nothing) -/
def NumV.eq : NumV → NumV → Bool
  | .nan, _ => false
  | _, .nan => false
  | a, b => decide (a = b)

def NumV.isFin : NumV → Bool
  | .fin _ _ => true
  | _ => false

/-- a class: `__module__` and `__qualname__.split(".")` -/
structure ClsRef where
  module : Str
  path : List Str
deriving DecidableEq, Repr

def builtinsMod : Str := cs!"builtins"
def bref (n : Str) : ClsRef := ⟨builtinsMod, [n]⟩
def noneT : ClsRef := bref Tables.noneTypeName
def boolT : ClsRef := bref cs!"bool"
def intT : ClsRef := bref cs!"int"
def floatT : ClsRef := bref cs!"float"
def strT : ClsRef := bref cs!"str"
def bytesT : ClsRef := bref cs!"bytes"
def listT : ClsRef := bref cs!"list"
def tupleT : ClsRef := bref cs!"tuple"
def dictT : ClsRef := bref cs!"dict"
def qnameT : ClsRef := ⟨Tables.qnameModule, [Tables.qnameName]⟩

inductive Val
  | none
  | bool (b : Bool)
  | int (i : Int)
  /-- `repr` = `str(value)` -/
  | float (n : NumV) (repr : Str)
  | str (s : Str) (repr : Str)
  /-- `bytes` or a subclass (`XmlHexBinary`, `XmlBase64Binary`); `repr` is `b'…'` -/
  | bytes (cls : ClsRef) (repr : Str)
  /-- `xml.etree.ElementTree.QName`; `text` is `value.text`, `repr` is
      `repr(value.text)` (used only by the patched serializer) -/
  | qname (text : Str) (repr : Str)
  /-- a value of class `cls` whose `repr` is the constructor call
      `callee(args)` (`Decimal('1.5')`, `XmlDate(2000, 1, 2)`); `n` is its
      numeric value when it takes part in numeric `==` (Decimal) -/
  | opaque (cls : ClsRef) (callee : List Str) (args : Str) (n : Option NumV)
  | enum (cls : ClsRef) (member : Str)
  | list (xs : List Val)
  | tuple (xs : List Val)
  | dict (kvs : List (Val × Val))
  /-- dataclass instance: the attribute values in `fields(cls)` order -/
  | model (cls : ClsRef) (attrs : List Val)

/-! ## The classes that exist -/

inductive Default
  | missing
  | value (v : Val)
  /-- `default_factory`; `v` is what calling it returns -/
  | factory (v : Val)

structure FieldSpec where
  name : Str
  init : Bool
  dflt : Default

inductive ClsKind
  | model (fields : List FieldSpec)
  | enum (members : List Str)
  /-- any other class (only its existence matters, for attribute walks) -/
  | other

structure ClsEntry where
  ref : ClsRef
  kind : ClsKind

abbrev World := List ClsEntry

def World.find (W : World) (r : ClsRef) : Option ClsEntry := List.find? (fun e => decide (e.ref = r)) W

def World.fieldsOf (W : World) (r : ClsRef) : List FieldSpec :=
  match W.find r with
  | some ⟨_, .model fs⟩ => fs
  | _ => []

/-! ## Python `==` -/

/-- numeric view of a value (bool ⊂ int; float; Decimal) -/
def numOf : Val → Option NumV
  | .bool b => some (.fin (if b then 1 else 0) 1)
  | .int i => some (.fin i 1)
  | .float n _ => some n
  | .opaque _ _ _ (some n) => some n
  | _ => Option.none

/-- `a == b` when `a` is not a list/tuple/dict/dataclass -/
def leafEq (a b : Val) : Bool :=
  match numOf a, numOf b with
  | some x, some y => x.eq y
  | _, _ =>
    match a, b with
    | .none, .none => true
    | .str s _, .str t _ => s == t
    -- `QName.__eq__` compares `.text` with a plain string too (both directions)
    | .str s _, .qname t _ => s == t
    | .qname s _, .str t _ => s == t
    | .qname s _, .qname t _ => s == t
    | .bytes _ r, .bytes _ r' => r == r'
    | .enum c m, .enum c' m' => decide (c = c') && m == m'
    | .opaque c cal ar _, .opaque c' cal' ar' _ => decide (c = c') && cal == cal' && ar == ar'
    | _, _ => false

mutual
/-- Python `a == b` (dataclasses with `eq=True`; dicts compared in order — see
NOTES: the generator never permutes dicts) -/
def pyEq (a b : Val) : Bool :=
  match a with
  | .list xs => match b with
    | .list ys => pyEqL xs ys
    | _ => false
  | .tuple xs => match b with
    | .tuple ys => pyEqL xs ys
    | _ => false
  | .dict kvs => match b with
    | .dict kvs' => pyEqKV kvs kvs'
    | _ => false
  | .model c xs => match b with
    | .model c' ys => decide (c = c') && pyEqL xs ys
    | _ => false
  | a' => leafEq a' b
def pyEqL (xs ys : List Val) : Bool :=
  match xs with
  | [] => ys.isEmpty
  | x :: xs' => match ys with
    | [] => false
    | y :: ys' => pyEq x y && pyEqL xs' ys'
def pyEqKV (xs ys : List (Val × Val)) : Bool :=
  match xs with
  | [] => ys.isEmpty
  | (k, v) :: xs' => match ys with
    | [] => false
    | (k', v') :: ys' => pyEq k k' && pyEq v v' && pyEqKV xs' ys'
end

mutual
/-- can the value be a dict key (`hash()` does not raise)?  Dataclass
instances are taken as unhashable (`eq=True, frozen=False`). -/
def hashable : Val → Bool
  | .list _ => false
  | .dict _ => false
  | .model _ _ => false
  | .tuple xs => hashableL xs
  | _ => true
def hashableL : List Val → Bool
  | [] => true
  | x :: xs => hashable x && hashableL xs
end

/-! ## The emitted expression -/

/-- Which of the three proposed one-line repairs are applied (NOTES-C18.md).
`Cfg.asIs` is the code under test; `Cfg.patched` is used only to show that the
repairs are sufficient. -/
structure Cfg where
  /-- `repr_array` writes non-empty tuples as `( …, )` -/
  tupleFix : Bool
  /-- enum members are written `Qual.Name.MEMBER` -/
  enumFix : Bool
  /-- `literal_value` writes `QName({text!r})` -/
  qnameFix : Bool
deriving DecidableEq, Repr

def Cfg.asIs : Cfg := ⟨false, false, false⟩
def Cfg.patched : Cfg := ⟨true, true, true⟩

inductive PyExpr
  /-- a literal token `text` that evaluates to `v`; `ty` is `type(obj)` of the
      object it was produced from -/
  | lit (v : Val) (text : Str) (ty : ClsRef)
  /-- `repr_array`: `[]` / `()` when empty, a **list display** otherwise,
      whatever the source type was (`isTuple`) -/
  | arr (isTuple : Bool) (xs : List PyExpr)
  | dict (kvs : List (PyExpr × PyExpr))
  /-- `float("inf")` -/
  | floatCall (n : NumV) (arg : Str)
  /-- `QName("raw")` — `raw` pasted between the quotes unescaped -/
  | qnameCall (raw : Str) (repr : Str)
  | opaqueCall (cls : ClsRef) (callee : List Str) (args : Str) (n : Option NumV)
  /-- `str(member)`: `ClassName.MEMBER`, with `__name__`, not `__qualname__` -/
  | enumRef (cls : ClsRef) (member : Str)
  /-- `Qual.Name(\n kw=…,\n …)` -/
  | call (cls : ClsRef) (kwargs : List (Str × PyExpr))

/-- the name of the callable in `float("…")` / `QName("…")`, read off the
format the code uses -/
def calleeOf (pre : Str) : Str := pre.takeWhile (· ≠ '(')
def floatCallee : Str := calleeOf Tables.floatLitPre
def qnameCallee : Str := calleeOf Tables.qnameLitPre

def spaces (n : Nat) : Str := (List.replicate n Tables.pycodeSpaces).flatten

def dotted : List Str → Str
  | [] => []
  | [a] => a
  | a :: rest => a ++ '.' :: dotted rest

def lastName (p : List Str) : Str := p.getLastD []

/-- the name path by which `str(member)` refers to the enum class -/
def enumNames (cfg : Cfg) (c : ClsRef) : List Str := if cfg.enumFix then c.path else [lastName c.path]

mutual
/-- the source text, exactly as the generator functions yield it -/
def PyExpr.text (cfg : Cfg) (level : Nat) : PyExpr → Str
  | .lit _ t _ => t
  | .arr isT [] => if isT then cs!"()" else cs!"[]"
  | .arr isT (x :: xs) =>
    if cfg.tupleFix && isT then cs!"(\n" ++ textItems cfg (level + 1) (x :: xs) ++ spaces level ++ cs!")"
    else cs!"[\n" ++ textItems cfg (level + 1) (x :: xs) ++ spaces level ++ cs!"]"
  | .dict [] => cs!"{}"
  | .dict (p :: ps) => cs!"{\n" ++ textKV cfg (level + 1) (p :: ps) ++ spaces level ++ cs!"}"
  | .floatCall _ a => Tables.floatLitPre ++ a ++ Tables.floatLitPost
  | .qnameCall raw r =>
    if cfg.qnameFix then qnameCallee ++ cs!"(" ++ r ++ cs!")"
    else Tables.qnameLitPre ++ raw ++ Tables.qnameLitPost
  | .opaqueCall _ callee args _ => dotted callee ++ args
  | .enumRef c m => dotted (enumNames cfg c) ++ Tables.enumStrSep ++ m
  | .call c kws => dotted c.path ++ cs!"(\n" ++ textKw cfg (level + 1) true kws ++ cs!"\n" ++ spaces level ++ cs!")"
def textItems (cfg : Cfg) (level : Nat) : List PyExpr → Str
  | [] => []
  | x :: xs => spaces level ++ x.text cfg level ++ cs!",\n" ++ textItems cfg level xs
def textKV (cfg : Cfg) (level : Nat) : List (PyExpr × PyExpr) → Str
  | [] => []
  | (k, v) :: r => spaces level ++ k.text cfg level ++ cs!": " ++ v.text cfg level ++ cs!",\n" ++ textKV cfg level r
def textKw (cfg : Cfg) (level : Nat) (first : Bool) : List (Str × PyExpr) → Str
  | [] => []
  | (n, e) :: r =>
    (if first then [] else cs!",\n") ++ spaces level ++ n ++ cs!"=" ++ e.text cfg level ++ textKw cfg level false r
end

mutual
/-- what `types.add(type(obj))` collected while the expression was produced -/
def PyExpr.types : PyExpr → List ClsRef
  | .lit _ _ ty => [ty]
  | .arr isT xs => (if isT then tupleT else listT) :: typesL xs
  | .dict kvs => dictT :: typesKV kvs
  | .floatCall _ _ => [floatT]
  | .qnameCall _ _ => [qnameT]
  | .opaqueCall c _ _ _ => [c]
  | .enumRef c _ => [c]
  | .call c kws => c :: typesKw kws
def typesL : List PyExpr → List ClsRef
  | [] => []
  | x :: xs => x.types ++ typesL xs
def typesKV : List (PyExpr × PyExpr) → List ClsRef
  | [] => []
  | (k, v) :: r => k.types ++ v.types ++ typesKV r
def typesKw : List (Str × PyExpr) → List ClsRef
  | [] => []
  | (_, e) :: r => e.types ++ typesKw r
end

mutual
/-- the class references the source makes: (dotted name as written, class meant) -/
def PyExpr.refs (cfg : Cfg) : PyExpr → List (List Str × ClsRef)
  | .lit _ _ _ => []
  | .arr _ xs => refsL cfg xs
  | .dict kvs => refsKV cfg kvs
  | .floatCall _ _ => [([floatCallee], floatT)]
  | .qnameCall _ _ => [([qnameCallee], qnameT)]
  | .opaqueCall c callee _ _ => [(callee, c)]
  | .enumRef c _ => [(enumNames cfg c, c)]
  | .call c kws => (c.path, c) :: refsKw cfg kws
def refsL (cfg : Cfg) : List PyExpr → List (List Str × ClsRef)
  | [] => []
  | x :: xs => x.refs cfg ++ refsL cfg xs
def refsKV (cfg : Cfg) : List (PyExpr × PyExpr) → List (List Str × ClsRef)
  | [] => []
  | (k, v) :: r => k.refs cfg ++ v.refs cfg ++ refsKV cfg r
def refsKw (cfg : Cfg) : List (Str × PyExpr) → List (List Str × ClsRef)
  | [] => []
  | (_, e) :: r => e.refs cfg ++ refsKw cfg r
end

/-! ## `repr_object` -/

/-- `(callable(default) and default() == value) or default == value`
(a factory function itself never equals a field value) -/
def elide : Default → Val → Bool
  | .missing, _ => false
  | .value d, v => pyEq d v
  | .factory d, v => pyEq d v

/-- the loop of `repr_model` over `get_fields(obj)`: `exprs` are the rendered
attribute values, position by position -/
def selectKw : List FieldSpec → List Val → List PyExpr → List (Str × PyExpr)
  | f :: fs, v :: vs, e :: es =>
    if f.init && !(elide f.dflt v) then (f.name, e) :: selectKw fs vs es else selectKw fs vs es
  | _, _, _ => []

mutual
def render (W : World) : Val → PyExpr
  | .none => .lit .none cs!"None" noneT
  | .bool b => .lit (.bool b) (if b then cs!"True" else cs!"False") boolT
  | .int i => .lit (.int i) (intStr i) intT
  | .float n r => if n.isFin then .lit (.float n r) r floatT else .floatCall n r
  | .str s r => .lit (.str s r) r strT
  | .bytes c r => .lit (.bytes bytesT r) r c
  | .qname t r => .qnameCall t r
  | .opaque c callee args n => .opaqueCall c callee args n
  | .enum c m => .enumRef c m
  | .list xs => .arr false (renderL W xs)
  | .tuple xs => .arr true (renderL W xs)
  | .dict kvs => .dict (renderKV W kvs)
  | .model c attrs => .call c (selectKw (W.fieldsOf c) attrs (renderL W attrs))
def renderL (W : World) : List Val → List PyExpr
  | [] => []
  | x :: xs => render W x :: renderL W xs
def renderKV (W : World) : List (Val × Val) → List (PyExpr × PyExpr)
  | [] => []
  | (k, v) :: r => (render W k, render W v) :: renderKV W r
end

/-! ## `build_imports` -/

/-- Python `str` ordering (by code point) -/
def strLe : Str → Str → Bool
  | [], _ => true
  | _ :: _, [] => false
  | a :: as, b :: bs => a.toNat < b.toNat || (a.toNat == b.toNat && strLe as bs)

def importLine (p : Str × Str) : Str :=
  Tables.importPre ++ p.1 ++ Tables.importMid ++ p.2 ++ Tables.importPost

/-- insert into a list sorted by line, dropping a pair that is already there
(the code keeps a *set of lines*; for module and class names, which contain
no blanks, two pairs give the same line only when they are the same pair) -/
def insertImport (p : Str × Str) : List (Str × Str) → List (Str × Str)
  | [] => [p]
  | q :: qs =>
    if p == q then q :: qs
    else if strLe (importLine p) (importLine q) then p :: q :: qs
    else q :: insertImport p qs

/-- `(module, name)` of the import a type causes: nothing for `builtins`, the
outermost name of a dotted qualname -/
def importOf (t : ClsRef) : Option (Str × Str) :=
  if t.module == builtinsMod then Option.none else some (t.module, t.path.headD [])

/-- `build_imports(types)`: the set of lines, sorted -/
def imports (ts : List ClsRef) : List (Str × Str) :=
  (ts.filterMap importOf).foldr insertImport []

def importsText (ts : List ClsRef) : Str := ((imports ts).map importLine).flatten

/-! ## Executing the source -/

inductive Err
  | nameError
  | attributeError
  | typeError
  /-- outside what this model predicts -/
  | unmodelled
deriving DecidableEq, Repr

def Err.name : Err → Str
  | .nameError => cs!"NameError"
  | .attributeError => cs!"AttributeError"
  | .typeError => cs!"TypeError"
  | .unmodelled => cs!"unmodelled"

/-- namespace after the import lines ran: `(module, name)` in execution order;
a later `from m import n` rebinds `n` -/
abbrev Env := List (Str × Str)

def Env.lookup (env : Env) (n : Str) : Option Str :=
  (env.reverse.find? (fun p => p.2 == n)).map (·.1)

/-- attribute walk `cur.a1.a2…` below module-level object `m.cur` -/
def walk (W : World) (m : Str) : List Str → List Str → Except Err ClsRef
  | cur, [] => .ok ⟨m, cur⟩
  | cur, a :: rest =>
    if (W.find ⟨m, cur ++ [a]⟩).isSome then walk W m (cur ++ [a]) rest else .error .attributeError

/-- evaluate a dotted name to the class object it denotes -/
def resolve (W : World) (env : Env) : List Str → Except Err ClsRef
  | [] => .error .unmodelled
  | h :: rest =>
    match env.lookup h with
    | some m => walk W m [h] rest
    | Option.none =>
      if Tables.builtinNames.contains h then
        (if rest.isEmpty then .ok (bref h) else .error .attributeError)
      else .error .nameError

/-- body of a `"…"` literal → the string it denotes. `none`: the literal is
malformed or uses an escape this model does not decode (octal, `\x`, `\N`,
`\u`, `\U`, line continuation) -/
def simpleEsc (c : Char) : Option Char :=
  if c = '\\' then some '\\' else if c = '\'' then some '\'' else if c = '"' then some '"'
  else if c = 'a' then some (Char.ofNat 7) else if c = 'b' then some (Char.ofNat 8)
  else if c = 'f' then some (Char.ofNat 12) else if c = 'n' then some (Char.ofNat 10)
  else if c = 'r' then some (Char.ofNat 13) else if c = 't' then some (Char.ofNat 9)
  else if c = 'v' then some (Char.ofNat 11) else Option.none

def hardEsc (c : Char) : Bool :=
  ('0'.toNat ≤ c.toNat && c.toNat ≤ '7'.toNat) || c = 'x' || c = 'N' || c = 'u' || c = 'U'
    || c = '\n' || c = '\r' || c.toNat = 0

def rawBad (c : Char) : Bool := c = '"' || c = '\n' || c = '\r' || c.toNat = 0

def decodeDq : Bool → Str → Option Str
  | false, [] => some []
  | true, [] => Option.none
  | false, c :: r =>
    if c = '\\' then decodeDq true r
    else if rawBad c then Option.none
    else (decodeDq false r).map (c :: ·)
  | true, c :: r =>
    if hardEsc c then Option.none
    else match simpleEsc c with
      | some d => (decodeDq false r).map (d :: ·)
      | Option.none => (decodeDq false r).map (fun t => '\\' :: c :: t)   -- unknown escape: kept (SyntaxWarning)

def kwGet (n : Str) : List (Str × Val) → Option Val
  | [] => Option.none
  | (k, v) :: r => if k == n then some v else kwGet n r

/-- value of one field after `__init__(**kw)` -/
def fieldVal (f : FieldSpec) (kw : List (Str × Val)) : Except Err Val :=
  match (if f.init then kwGet f.name kw else Option.none) with
  | some v => .ok v
  | Option.none =>
    match f.dflt with
    | .value d => .ok d
    | .factory d => .ok d
    | .missing => .error (if f.init then .typeError else .unmodelled)

def construct : List FieldSpec → List (Str × Val) → Except Err (List Val)
  | [], _ => .ok []
  | f :: fs, kw =>
    match fieldVal f kw with
    | .error e => .error e
    | .ok v => match construct fs kw with
      | .error e => .error e
      | .ok vs => .ok (v :: vs)

/-- every keyword is the name of an `init` field (else `TypeError: unexpected keyword`) -/
def kwNamesOK (fs : List FieldSpec) (kw : List (Str × Val)) : Bool :=
  kw.all fun p => fs.any fun f => f.init && f.name == p.1

mutual
def eval (cfg : Cfg) (W : World) (env : Env) : PyExpr → Except Err Val
  | .lit v _ _ => .ok v
  | .arr isT xs =>
    match evalL cfg W env xs with
    | .error e => .error e
    | .ok vs => .ok (if isT && (cfg.tupleFix || vs.isEmpty) then .tuple vs else .list vs)
  | .dict kvs =>
    match evalKV cfg W env kvs with
    | .error e => .error e
    | .ok ps => if ps.all (fun p => hashable p.1) then .ok (.dict ps) else .error .typeError
  | .floatCall n a =>
    match resolve W env [floatCallee] with
    | .error e => .error e
    | .ok r => if r = floatT then .ok (.float n a) else .error .unmodelled
  | .qnameCall raw rp =>
    match resolve W env [qnameCallee] with
    | .error e => .error e
    | .ok r =>
      if r = qnameT then
        if cfg.qnameFix then .ok (.qname raw rp)   -- `repr(text)` evaluates to `text` (trusted, as for `str`)
        else match decodeDq false raw with
          | some t => .ok (.qname t rp)
          | Option.none => .error .unmodelled
      else .error .unmodelled
  | .opaqueCall c callee args n =>
    match resolve W env callee with
    | .error e => .error e
    | .ok r => if r = c then .ok (.opaque c callee args n) else .error .unmodelled
  | .enumRef c m =>
    match resolve W env (enumNames cfg c) with
    | .error e => .error e
    | .ok r =>
      match W.find r with
      | some ⟨_, .enum ms⟩ => if ms.contains m then .ok (.enum r m) else .error .attributeError
      | some ⟨_, .model fs⟩ =>
        -- class attribute: a field default or a nested class would be found
        if fs.any (fun f => f.name == m) || (W.find ⟨r.module, r.path ++ [m]⟩).isSome
        then .error .unmodelled else .error .attributeError
      | _ => .error .unmodelled
  | .call c kws =>
    match resolve W env c.path with
    | .error e => .error e
    | .ok r =>
      match evalKw cfg W env kws with
      | .error e => .error e
      | .ok kv =>
        match W.find r with
        | some ⟨_, .model fs⟩ =>
          if kwNamesOK fs kv then
            match construct fs kv with
            | .ok vs => .ok (.model r vs)
            | .error e => .error e
          else .error .typeError
        | some ⟨_, .enum _⟩ => .error .typeError
        | _ => .error .unmodelled
def evalL (cfg : Cfg) (W : World) (env : Env) : List PyExpr → Except Err (List Val)
  | [] => .ok []
  | x :: xs =>
    match eval cfg W env x with
    | .error e => .error e
    | .ok v => match evalL cfg W env xs with
      | .error e => .error e
      | .ok vs => .ok (v :: vs)
def evalKV (cfg : Cfg) (W : World) (env : Env) : List (PyExpr × PyExpr) → Except Err (List (Val × Val))
  | [] => .ok []
  | (k, v) :: r =>
    match eval cfg W env k with
    | .error e => .error e
    | .ok k' => match eval cfg W env v with
      | .error e => .error e
      | .ok v' => match evalKV cfg W env r with
        | .error e => .error e
        | .ok ps => .ok ((k', v') :: ps)
def evalKw (cfg : Cfg) (W : World) (env : Env) : List (Str × PyExpr) → Except Err (List (Str × Val))
  | [] => .ok []
  | (n, e) :: r =>
    match eval cfg W env e with
    | .error e => .error e
    | .ok v => match evalKw cfg W env r with
      | .error e => .error e
      | .ok ps => .ok ((n, v) :: ps)
end

mutual
/-- does compiling the text depend on string-literal decoding this model does
not cover (then the compile-time `SyntaxError` would pre-empt everything) -/
def PyExpr.syntaxRisk (cfg : Cfg) : PyExpr → Bool
  | .qnameCall raw _ => !cfg.qnameFix && (decodeDq false raw).isNone
  | .arr _ xs => riskL cfg xs
  | .dict kvs => riskKV cfg kvs
  | .call _ kws => riskKw cfg kws
  | _ => false
def riskL (cfg : Cfg) : List PyExpr → Bool
  | [] => false
  | x :: xs => x.syntaxRisk cfg || riskL cfg xs
def riskKV (cfg : Cfg) : List (PyExpr × PyExpr) → Bool
  | [] => false
  | (k, v) :: r => k.syntaxRisk cfg || v.syntaxRisk cfg || riskKV cfg r
def riskKw (cfg : Cfg) : List (Str × PyExpr) → Bool
  | [] => false
  | (_, e) :: r => e.syntaxRisk cfg || riskKw cfg r
end

/-! ## `PycodeSerializer.render(obj, var_name)` and what running it gives -/

def sourceC (cfg : Cfg) (W : World) (v : Val) (var : Str) : Str :=
  let e := render W v
  importsText e.types ++ cs!"\n\n" ++ var ++ cs!" = " ++ e.text cfg 0 ++ cs!"\n"

/-- the namespace the expression is evaluated in -/
def importsEnv (W : World) (v : Val) : Env := imports (render W v).types

/-- `exec(source, {})` then `ns[var]` -/
def runC (cfg : Cfg) (W : World) (v : Val) : Except Err Val := eval cfg W (importsEnv W v) (render W v)

def outcomeC (cfg : Cfg) (W : World) (v : Val) : Str :=
  if (render W v).syntaxRisk cfg then cs!"unmodelled" else
  match runC cfg W v with
  | .ok v' => if pyEq v' v then cs!"equal" else cs!"unequal"
  | .error .unmodelled => cs!"unmodelled"
  | .error e => cs!"exc:" ++ e.name

/-- the code under test -/
abbrev source := sourceC Cfg.asIs
abbrev run := runC Cfg.asIs
abbrev outcome := outcomeC Cfg.asIs

end Xs.Code
