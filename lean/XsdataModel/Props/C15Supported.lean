/- C15 — the supported region of the models and the no-leak statements inside it: property theorems (only).
   Predicates: `Fault/Supported.lean`; helper lemmas: `Proofs/C15Supported.lean`, `Proofs/C15SupportedDict.lean`. -/
import XsdataModel.Proofs.C15SupportedDict
import XsdataModel.Proofs.C15Union
import XsdataModel.Proofs.C15Witness
import XsdataModel.Fault.Doc

namespace Props.C15
open Py Xs.Bind Xs.Fault Proofs.C15

/-! ## XML -/

/-- **supported_region_xml.** `xmlSupported e Γ t` is a decidable predicate on the universe (every
field's default is one `parse_var` follows) and on the document (no `xsi:type` naming a builtin
datatype other than str/int/bool/QName).  Inside it the parser model — union nodes included —
never answers `unsupported`, for every configuration and target class. -/
theorem supported_region_xml (e : BEnv) (Γ : Ctx) (cfg : ParserConfig) (c : ClassId) (t : Tree)
    (h : xmlSupported e Γ t = true) (w : String) : parseRootU e Γ cfg c t ≠ .error (.unsupported w) := by
  simp only [xmlSupported, Bool.and_eq_true] at h
  exact (parseRootU_sup e Γ h.1 cfg c t h.2).not_unsupported w

/-- **no_leak_parse_supported.** For every input in the supported region the outcome of
`NodeParser.parse` is a value or one of the library's errors — ParserError, ConverterError,
XmlContextError — and nothing else.  (Outside the region the model answers `unsupported` and the
check relies on the correspondence; the evidence records the share of generated inputs inside.) -/
theorem no_leak_parse_supported (e : BEnv) (he : e.isNCName [] = false) (Γ : Ctx) (cfg : ParserConfig)
    (c : ClassId) (t : Tree) (h : xmlSupported e Γ t = true) :
    (∃ v w, parseRootU e Γ cfg c t = .ok (v, w)) ∨
    (∃ m, parseRootU e Γ cfg c t = .error (.parser m)) ∨
    parseRootU e Γ cfg c t = .error .converter ∨
    (∃ m, parseRootU e Γ cfg c t = .error (.context m)) := by
  have hc := parseRootU_clean e he Γ cfg c t
  have hs := supported_region_xml e Γ cfg c t h
  cases hr : parseRootU e Γ cfg c t with
  | ok vw => exact .inl ⟨vw.1, vw.2, rfl⟩
  | error err =>
    rw [hr] at hc
    cases err with
    | parser m => exact .inr (.inl ⟨m, rfl⟩)
    | converter => exact .inr (.inr (.inl rfl))
    | context m => exact .inr (.inr (.inr ⟨m, rfl⟩))
    | unsupported m => exact absurd hr (hs m)
    | serializer m => cases hc
    | leaked m => cases hc

/-- the byte level: every tokenizer outcome of both handlers, documents inside the region -/
theorem no_leak_document_supported (e : BEnv) (he : e.isNCName [] = false) (Γ : Ctx) (cfg : ParserConfig)
    (c : ClassId) (tok : Tok) (h : ∀ t, tok = .tree t → xmlSupported e Γ t = true) :
    (∃ v w, parseDocument e Γ cfg c tok = .ok (v, w)) ∨
    (∃ m, parseDocument e Γ cfg c tok = .error (.parser m)) ∨
    parseDocument e Γ cfg c tok = .error .converter ∨
    (∃ m, parseDocument e Γ cfg c tok = .error (.context m)) := by
  cases tok with
  | tree t => exact no_leak_parse_supported e he Γ cfg c t (h t rfl)
  | syntaxError => exact .inr (.inl ⟨_, rfl⟩)
  | codecError s => exact .inr (.inl ⟨_, rfl⟩)
  | includeError => exact .inr (.inl ⟨_, rfl⟩)
  | stopped => exact .inr (.inl ⟨_, rfl⟩)
  | textDecodeError => exact .inr (.inl ⟨_, rfl⟩)

/-- the witness universes and documents are inside the region (also the union one), so the
theorems above are not vacuous -/
example :
    xmlSupported Witness.env Witness.ctx Witness.docValid = true ∧
    xmlSupported Witness.env Witness.ctx Witness.docBadXsi = true ∧
    xmlSupported Witness.env Witness.uctx Witness.uDocItem = true :=
  ⟨by decide, by decide, by decide⟩

/-- … and the region is not everything: a field whose default is an arbitrary callable leaves it,
and the model does answer `unsupported` there -/
theorem supported_region_xml_sharp :
    xmlSupported Witness.env Witness.ctxOther Witness.docMissing = false := by
  decide

/-! ## JSON -/

/-- **supported_region_dict.** `dictSupported Γ fuel data`: no compound / wildcard / anyType /
union-of-classes field in the universe, no object of the document spelled like a generic
`AnyElement`, and fuel for the document's depth (`3 * depth + 1`; the driver supplies
`4 * depth + 16`).  Inside it the decoder model never answers `unsupported`. -/
theorem supported_region_dict (e : BEnv) (Γ : Ctx) (cfg : ParserConfig) (fuel : Nat) (c : ClassId) (listOf : Bool)
    (data : J) (h : dictSupported Γ fuel data = true) (w : String) :
    decode e Γ cfg fuel c listOf data ≠ .error (.unsupported w) :=
  (decode_sup e Γ cfg fuel c listOf data h).not_unsupported w

/-- **no_leak_dict_supported.** For every input in the supported region `DictDecoder.decode`
ends in a value or in ParserError / ConverterError / XmlContextError. -/
theorem no_leak_dict_supported (e : BEnv) (Γ : Ctx) (cfg : ParserConfig) (fuel : Nat) (c : ClassId) (listOf : Bool)
    (data : J) (h : dictSupported Γ fuel data = true) :
    (∃ v, decode e Γ cfg fuel c listOf data = .ok v) ∨
    (∃ m, decode e Γ cfg fuel c listOf data = .error (.parser m)) ∨
    decode e Γ cfg fuel c listOf data = .error .converter ∨
    (∃ m, decode e Γ cfg fuel c listOf data = .error (.context m)) := by
  have hc := decode_clean e Γ cfg fuel c listOf data
  have hs := supported_region_dict e Γ cfg fuel c listOf data h
  cases hr : decode e Γ cfg fuel c listOf data with
  | ok v => exact .inl ⟨v, rfl⟩
  | error err =>
    rw [hr] at hc
    cases err with
    | parser m => exact .inr (.inl ⟨m, rfl⟩)
    | converter => exact .inr (.inr (.inl rfl))
    | context m => exact .inr (.inr (.inr ⟨m, rfl⟩))
    | unsupported m => exact absurd hr (hs m)
    | serializer m => cases hc
    | leaked m => cases hc

example :
    dictSupported Witness.jctx 16 (Witness.o [("x", .str "12x".toList), ("t", .arr [.int 1, .str ['a']]), ("zz", .null)]) = true ∧
    dictSupported Witness.jctx 16 (Witness.o [("x", Witness.o [("a", .int 1)])]) = true ∧
    -- fuel is part of the region: depth 2 needs 7
    dictSupported Witness.jctx 6 (Witness.o [("x", Witness.o [("a", .int 1)])]) = false :=
  ⟨by decide, by decide, by decide⟩

end Props.C15
