/- C09 — parsing depends only on the XML infoset: property theorems (only).

The parser model (`Xs.Bind.parseRoot` / `parseNode`) consumes the infoset
`Tree` (qualified names in Clark form, attribute list, in-scope prefix map,
merged character data).  Comments, processing instructions, CDATA sections,
character references, encodings, attribute quoting, empty-element tags and
XInclude are resolved by the tokenisers *before* this interface; they are
invisible to the model by construction and are covered by the byte-level
correspondence of `harness/props/c09.py` only.  What can be proved here is
independence from attribute order, ignorable white space, padding of
non-string values and the prefix maps. -/
import XsdataModel.Proofs.C09Strip
import XsdataModel.Proofs.C09Ws
import XsdataModel.Proofs.C09Data

namespace Props.C09
open Py Xs.Bind Proofs.C09

/-! ## 2. ignorable white space -/

/-- element-only content: the class has no text field and no wildcard field -/
def elementOnly (m : XmlMeta) : Bool := m.text.isNone && m.wildcards.isEmpty

/-- **ws_invariant**: an element bound to a class with element-only content is parsed to
the same result whatever its own character data `t` is, and whatever the tails of its
children (and its own tail) are *within* `normalize_content` — absent, empty and
white-space-only tails are interchangeable.  (`KidsEq`: same children, tails equal after
`normalizeContent`.) -/
theorem ws_invariant (e : BEnv) (Γ : Ctx) (cfg : ParserConfig) (m : XmlMeta) (hm : elementOnly m = true)
    (ats ns d xt xn q a n) (t t' : Option Str) (kids kids' : List Tree) (tl tl' : Option Str)
    (hk : KidsEq e.py kids kids') (htl : normalizeContent e.py tl = normalizeContent e.py tl') :
    parseNode e Γ cfg (.element m ats ns d xt xn) (.node q a n t kids tl) =
    parseNode e Γ cfg (.element m ats ns d xt xn) (.node q a n t' kids' tl') := by
  have hm' : m.text = none ∧ m.wildcards = [] := by
    simpa [elementOnly, Option.isNone_iff_eq_none, List.isEmpty_iff] using hm
  rw [parseNode_element_text e Γ cfg m hm'.1 hm'.2 ats ns d xt xn q a n kids tl t t',
      parseNode_tail e Γ cfg _ q a n t' kids tl tl' htl]
  simp only [parseNode, parseKids_tailEq e Γ cfg m none kids kids' hk]

/-- indentation: `ws₀` becomes the text of the element, every child without significant
tail gets the tail `ws` -/
def indentKid (e : Env) (ws : Str) : Tree → Tree
  | .node q a n t c tl => .node q a n t c (if (normalizeContent e tl).isNone then some ws else tl)

def indent (e : Env) (ws₀ ws : Str) : Tree → Tree
  | .node q a n _ c tl => .node q a n (some ws₀) (c.map (indentKid e ws)) tl

theorem kidsEq_indent (e : Env) (ws : Str) (hws : e.strip ws = []) :
    ∀ kids : List Tree, KidsEq e kids (kids.map (indentKid e ws))
  | [] => .nil
  | .node q a n t c tl :: rest => by
    refine .cons ?_ (kidsEq_indent e ws hws rest)
    refine .mk q a n t c tl _ ?_
    cases h : normalizeContent e tl with
    | none => simp [normalizeContent_ws e ws hws]
    | some s => simp [h]

/-- **indent_invariant**: pretty-printing an element with element-only content (any text
`ws₀` before the first child, white space `ws` after every child) does not change the
result, for every environment's notion of white space. -/
theorem indent_invariant (e : BEnv) (Γ : Ctx) (cfg : ParserConfig) (m : XmlMeta) (hm : elementOnly m = true)
    (ats ns d xt xn) (ws₀ ws : Str) (hws : e.py.strip ws = []) (t : Tree) :
    parseNode e Γ cfg (.element m ats ns d xt xn) (indent e.py ws₀ ws t) =
    parseNode e Γ cfg (.element m ats ns d xt xn) t := by
  cases t with
  | node q a n t c tl =>
    exact (ws_invariant e Γ cfg m hm ats ns d xt xn q a n t (some ws₀) c _ tl tl
      (kidsEq_indent e.py ws hws c) rfl).symm

/-- the tail of *any* kind of node only matters up to `normalize_content` -/
theorem tail_ws_invariant (e : BEnv) (Γ : Ctx) (cfg : ParserConfig) (node : Node) (q a n t c) (tl tl' : Option Str)
    (h : normalizeContent e.py tl = normalizeContent e.py tl') :
    parseNode e Γ cfg node (.node q a n t c tl) = parseNode e Γ cfg node (.node q a n t c tl') :=
  parseNode_tail e Γ cfg node q a n t c tl tl' h

-- non-vacuity: the class `Plain` of `Proofs.C09.Data` has element-only content, "\n  " is white space,
-- and the indented document parses to a proper object
example : elementOnly Data.plainMeta = true := by decide
example : Data.benv.py.strip "\n  ".toList = [] := by decide
example : Data.primOf (parseRoot Data.benv Data.ctx {} "Plain".toList Data.plainDocPretty) "y" = some (.bool true) := by
  decide

/-! ## 3. surrounding white space of non-string values -/

/-- **value_ws_invariant**: for every environment, padding the lexical value with white
space (`str.isspace` characters of that environment) does not change what
`converter.deserialize` returns when every candidate type is int, bool or QName
(`strips`: every type except `str`/`object`). -/
theorem value_ws_invariant (e : BEnv) (l s r : Str) (ts : List TypeRef) (n : NsMap) (ht : ts.all strips = true)
    (hl : allSpace e.py l = true) (hr : allSpace e.py r = true) :
    deserialize e (l ++ s ++ r) ts n = deserialize e s ts n :=
  deserialize_pad e l s r ts n ht hl hr

/-- the conversion of `s` for `var` succeeds (no ConverterWarning) -/
def converts (e : BEnv) (var : VarCore) (s : Str) (n : NsMap) : Bool :=
  if var.tokens then ((pySplitWs e.py s).mapM (fun t => deserialize e t var.types n)).isSome
  else (deserialize e s var.types n).isSome

/-- **parseVar_ws_invariant**: `ParserUtils.parse_var` on a padded value: same result for
a token list of any type and for non-string types, as long as the value converts (on
failure the raw string, padding included, is kept with a warning — or a ParserError is
raised, in which case the two agree again). -/
theorem parseVar_ws_invariant (e : BEnv) (cfg : ParserConfig) (var : VarCore) (l s r : Str) (n : NsMap)
    (ht : var.tokens = true ∨ var.types.all strips = true)
    (hc : converts e var s n = true ∨ cfg.failOnConverterWarnings = true)
    (hl : allSpace e.py l = true) (hr : allSpace e.py r = true) :
    parseVar e cfg var (some (l ++ s ++ r)) n = parseVar e cfg var (some s) n := by
  unfold parseVar
  simp only [Option.getD_none]
  by_cases htok : var.tokens = true
  · simp only [htok, if_true, pySplitWs_pad e.py l s r hl hr]
    rcases hc with hc | hc
    · simp only [converts, htok, if_true] at hc
      cases hm : (pySplitWs e.py s).mapM (fun t => deserialize e t var.types n) with
      | none => simp [hm] at hc
      | some vs => rfl
    · simp [hc]
  · have hs : var.types.all strips = true := by
      rcases ht with h | h
      · exact absurd h htok
      · exact h
    simp only [htok, deserialize_pad e l s r var.types n hs hl hr]
    rcases hc with hc | hc
    · simp only [converts, htok] at hc
      cases hm : deserialize e s var.types n with
      | none => simp [hm] at hc
      | some v => rfl
    · simp [hc]

-- non-vacuity
example : allSpace Data.benv.py [' ', '\n', '\t'] = true := by decide
example : [TypeRef.prim .int, .prim .bool].all strips = true := by decide
example : deserialize Data.benv (" \n".toList ++ "42".toList ++ "\t".toList) [.prim .int] [] = some (.int 42) := by decide
example : converts Data.benv Data.vA.toVarCore "42".toList [] = true := by decide

end Props.C09
