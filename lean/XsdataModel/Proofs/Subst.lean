/-
Helper lemmas for C02, part 7: substitution groups (`Gen/Subst`), one element reference with the
members of its group against the choice particle it stands for.
-/
import XsdataModel.Gen.Subst
import XsdataModel.Proofs.OccursBasic
import XsdataModel.Proofs.OccursSound
import XsdataModel.Proofs.OccursList

namespace Xs.Gen
open Py

/-- an element reference `ref="head" minOccurs=mn maxOccurs=mx` whose substitution group has the
members `members`: each of the `mn..mx` occurrences is the head or one of the members -/
def substParticle (head : Str) (members : List Str) (mn mx : Nat) : Particle :=
  .choice mn mx ((head :: members).map (.elem · 1 1))

theorem choiceOnce_singles : ∀ (names : List Str) (x : List Str),
    ChoiceOnce (names.map (.elem · 1 1)) x ↔ ∃ n ∈ names, x = [n]
  | [], x => by simp [choiceOnce_nil]
  | n :: ns, x => by
    rw [List.map_cons, choiceOnce_cons, choiceOnce_singles ns x, matches_elem]
    constructor
    · rintro (⟨k, hk, rfl⟩ | ⟨m, hm, rfl⟩)
      · have h1 := repOK_le hk (Nat.le_refl 1)
        have h2 := hk.1
        have : k = 1 := by omega
        subst this
        exact ⟨n, List.mem_cons_self, rfl⟩
      · exact ⟨m, List.mem_cons_of_mem _ hm, rfl⟩
    · rintro ⟨m, hm, rfl⟩
      rcases List.mem_cons.1 hm with rfl | hm
      · exact Or.inl ⟨1, by decide, rfl⟩
      · exact Or.inr ⟨m, hm, rfl⟩

theorem flatten_singles_length : ∀ (ws : List (List Str)), (∀ x ∈ ws, x.length = 1) →
    ws.flatten.length = ws.length
  | [], _ => rfl
  | x :: xs, h => by
    rw [List.flatten_cons, List.length_append, h x List.mem_cons_self,
      flatten_singles_length xs (fun y hy => h y (List.mem_cons_of_mem _ hy)), List.length_cons]
    omega

theorem substituteSite_max {members : List Str} {fresh : Nat} {s f : Site}
    (hf : f ∈ substituteSite members fresh s) : f.max = s.max := by
  unfold substituteSite at hf
  split at hf
  · rw [List.mem_singleton.1 hf]
  · have hp : (prepareSubstituted fresh s).max = s.max := by
      unfold prepareSubstituted; split <;> rfl
    rcases List.mem_cons.1 hf with rfl | hf
    · exact hp
    · obtain ⟨m, _, rfl⟩ := List.mem_map.1 hf
      exact hp

theorem substituteSite_min {members : List Str} {fresh : Nat} {s f : Site} (hm : members ≠ [])
    (hf : f ∈ substituteSite members fresh s) : f.min = 0 := by
  unfold substituteSite at hf
  have : members.isEmpty = false := by cases members <;> simp_all
  simp only [this, Bool.false_eq_true, if_false] at hf
  have hp : (prepareSubstituted fresh s).min = 0 := by
    unfold prepareSubstituted; split <;> rfl
  rcases List.mem_cons.1 hf with rfl | hf
  · exact hp
  · obtain ⟨m, _, rfl⟩ := List.mem_map.1 hf
    exact hp

theorem substituteSite_name {members : List Str} {fresh : Nat} {s f : Site}
    (hf : f ∈ substituteSite members fresh s) : f.name ∈ s.name :: members := by
  unfold substituteSite at hf
  split at hf
  · rw [List.mem_singleton.1 hf]; exact List.mem_cons_self
  · have hp : (prepareSubstituted fresh s).name = s.name := by
      unfold prepareSubstituted; split <;> rfl
    rcases List.mem_cons.1 hf with rfl | hf
    · rw [hp]; exact List.mem_cons_self
    · obtain ⟨m, hm, rfl⟩ := List.mem_map.1 hf
      exact List.mem_cons_of_mem _ hm

theorem substitution_nonlist_core (members : List Str) (fresh : Nat) (s : Site) (w : List Str)
    (hw : Matches (substParticle s.name members s.min s.max) w)
    (f : Site) (hf : f ∈ substituteSite members fresh s) (hl : f.isList = false) :
    w.count f.name ≤ 1 := by
  obtain ⟨ws, hrep, hall, rfl⟩ := matches_choice.1 hw
  have hmax : s.max ≤ 1 := by
    rw [← substituteSite_max hf]
    simp only [Site.isList, decide_eq_false_iff_not] at hl; omega
  have hlen := repOK_le hrep hmax
  have h1 : ws.flatten.length = ws.length := flatten_singles_length ws (by
    intro x hx
    obtain ⟨n, _, rfl⟩ := (choiceOnce_singles _ x).1 (hall x hx)
    rfl)
  have := List.count_le_length (a := f.name) (l := ws.flatten)
  omega

theorem substitution_list_needed_core (members : List Str) (fresh : Nat) (s : Site)
    (hwf : s.min ≤ s.max) (f : Site) (hf : f ∈ substituteSite members fresh s)
    (hl : f.isList = true) :
    ∃ w, Matches (substParticle s.name members s.min s.max) w ∧ 2 ≤ w.count f.name := by
  have hmax : 2 ≤ s.max := by
    rw [← substituteSite_max hf]
    simp only [Site.isList, decide_eq_true_eq] at hl; omega
  refine ⟨(List.replicate (repK s.min s.max) [f.name]).flatten, matches_choice.2
    ⟨List.replicate (repK s.min s.max) [f.name], ?_, ?_, rfl⟩, ?_⟩
  · rw [List.length_replicate]; exact repOK_repK hwf
  · intro x hx
    rw [(List.mem_replicate.1 hx).2]
    exact (choiceOnce_singles _ _).2 ⟨f.name, substituteSite_name hf, rfl⟩
  · rw [count_replicate_flatten]
    have hK : Nat.min s.max 2 ≤ repK s.min s.max := repK_ge
    have h2 : 2 ≤ repK s.min s.max := Nat.le_trans (Nat.le_min.2 ⟨hmax, Nat.le_refl 2⟩) hK
    simp only [List.count_cons_self, List.count_nil]
    omega

end Xs.Gen
