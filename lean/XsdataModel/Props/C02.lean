/- C02 — the occurrence decisions of the code generator against the language of the
content model: property theorems (only).

The model of `UpdateAttributesEffectiveChoice` is the handler after the repair `fix:
UpdateAttributesEffectiveChoice treats a merged group as a symmetrical sequence only when every
attr of the group belongs to that sequence`: the handlers are total (`occurs : List Site → List
Site`); before the repair `occurs` was partial (`none` = `AssertionError` in
`reset_symmetrical_choices`, reachable from a valid schema, see `assertWitness_occurs`).

A generated field that is **not a list** rejects a second occurrence of its element
(`ParserError: Unknown property`), and a field **without default** (`min ≥ 1`, not a list)
rejects a document that lacks the element. `occurs (sites p)` is what the three handlers
`CalculateAttributePaths`, `UpdateAttributesEffectiveChoice`, `MergeAttributes` leave of the
element sites of a content model `p`; `Matches p w` is the language of `p` (independent of the
code). Vocabulary (`names`, `distinctNames`, `wf`) and helper lemmas:
`Proofs/OccursBasic`, `Proofs/OccursSound`, `Proofs/OccursList`; named model groups and `xs:all`
(section 3): model `Gen/Groups`, vocabulary (`namesG`, `distinctG`, `wfG`, `liveG`) and lemmas
`Proofs/OccursGroups`. -/
import XsdataModel.Gen.Occurs
import XsdataModel.Proofs.OccursBasic
import XsdataModel.Proofs.OccursSound
import XsdataModel.Proofs.OccursList
import XsdataModel.Proofs.OccursGroups
import XsdataModel.Proofs.AttrsField
import XsdataModel.Proofs.Derive
import XsdataModel.Proofs.Subst
import XsdataModel.Proofs.SubstLift
import XsdataModel.Proofs.EnumDefault

namespace Props.C02
open Py Xs.Gen

/-! ## 1. content models whose element names are pairwise distinct -/

/-- a running example: `(a, (b | c+)?, (d?)*)` -/
def exP : Particle :=
  .seq 1 1 [.elem ['a'] 1 1,
            .choice 0 1 [.elem ['b'] 1 1, .elem ['c'] 1 maxsize],
            .seq 0 maxsize [.elem ['d'] 0 1]]

/-- `[a, b]` is a word of the running example -/
theorem exP_matches : Matches exP [['a'], ['b']] :=
  matches_seq.2 ⟨[[['a'], ['b']]], by decide, (by
    intro x hx
    rw [List.mem_singleton.1 hx]
    exact seqOnce_cons.2 ⟨[['a']], [['b']], matches_elem.2 ⟨1, by decide, rfl⟩,
      seqOnce_cons.2 ⟨[['b']], [],
        matches_choice.2 ⟨[[['b']]], by decide, (by
          intro y hy
          rw [List.mem_singleton.1 hy]
          exact choiceOnce_cons.2 (Or.inl (matches_elem.2 ⟨1, by decide, rfl⟩))), rfl⟩,
        seqOnce_cons.2 ⟨[], [], matches_seq.2 ⟨[], by decide, by simp, rfl⟩, seqOnce_nil.2 rfl, rfl⟩,
        rfl⟩, rfl⟩), rfl⟩

/-- the fields the handlers produce for the running example: `a` required, `b` optional,
`c` and `d` lists -/
theorem exP_occurs : occurs (sites exP) = [
    { name := ['a'], index := 0, min := 1, max := 1, path := [⟨.s, 1, 1, 1⟩],
      choice := none, sequence := some 1 },
    { name := ['b'], index := 1, min := 0, max := 1, path := [⟨.s, 1, 1, 1⟩, ⟨.c, 2, 0, 1⟩],
      choice := some 2, sequence := some 1 },
    { name := ['c'], index := 2, min := 0, max := maxsize, path := [⟨.s, 1, 1, 1⟩, ⟨.c, 2, 0, 1⟩],
      choice := some 2, sequence := some 1 },
    { name := ['d'], index := 3, min := 0, max := maxsize,
      path := [⟨.s, 1, 1, 1⟩, ⟨.s, 3, 0, maxsize⟩], choice := none, sequence := some 1 }] := by
  decide

/-- **One field per element, document order**: with pairwise distinct element names the three
handlers keep exactly one field per element particle. -/
theorem occurs_distinct (p : Particle) (hd : distinctNames p = true) :
    (occurs (sites p)).map (·.name) = names p := by
  have hd' : (names p).Nodup := of_decide_eq_true hd
  rw [occurs_sites p hd', ← calculatePaths_eq_map, calculatePaths_names, sites_names]

example : distinctNames exP = true := by decide

/-- **A non-list field never sees its element twice**: if the generator decides that the field
for element `s.name` is not a list, no word of the content model contains `s.name` more than
once. (No well-formedness of the occurrence ranges is needed.) -/
theorem nonlist_sound (p : Particle) (hd : distinctNames p = true)
    (w : List Str) (hw : Matches p w)
    (s : Site) (hs : s ∈ occurs (sites p))
    (hl : s.isList = false) : w.count s.name ≤ 1 :=
  nonlist_sound_core p (of_decide_eq_true hd) w hw s hs hl

/-- the hypotheses are satisfiable: field `b` of the running example, word `[a, b]` -/
example : List.count ['b'] [['a'], ['b']] ≤ 1 :=
  nonlist_sound exP (by decide) _ exP_matches
    { name := ['b'], index := 1, min := 0, max := 1, path := [⟨.s, 1, 1, 1⟩, ⟨.c, 2, 0, 1⟩],
      choice := some 2, sequence := some 1 } (by rw [exP_occurs]; decide) (by decide)

/-- **A required non-list field always finds its element exactly once**: if the field has
`min ≥ 1` (no default, so the strict parser insists on it) and is not a list, every word of
the content model contains the element exactly once. -/
theorem required_sound (p : Particle) (hd : distinctNames p = true) (hwf : wf p = true)
    (w : List Str) (hw : Matches p w)
    (s : Site) (hs : s ∈ occurs (sites p))
    (hr : s.min ≥ 1) (hl : s.isList = false) : w.count s.name = 1 :=
  required_sound_core p (of_decide_eq_true hd) hwf w hw s hs hr hl

/-- the hypotheses are satisfiable: field `a` of the running example, word `[a, b]` -/
example : List.count ['a'] [['a'], ['b']] = 1 :=
  required_sound exP (by decide) (by decide) _ exP_matches
    { name := ['a'], index := 0, min := 1, max := 1, path := [⟨.s, 1, 1, 1⟩],
      choice := none, sequence := some 1 } (by rw [exP_occurs]; decide) (by decide) (by decide)

/-- **Converse sanity — list fields are needed**: if the occurrence ranges are non-empty (`wf`)
and every choice has at least one alternative (`live`; otherwise the language may be empty),
a field the generator makes a list does occur twice in some word of the content model. -/
theorem list_needed (p : Particle) (hd : distinctNames p = true) (hwf : wf p = true)
    (hlive : live p = true)
    (s : Site) (hs : s ∈ occurs (sites p))
    (hl : s.isList = true) : ∃ w, Matches p w ∧ 2 ≤ w.count s.name :=
  list_needed_core p (of_decide_eq_true hd) hwf hlive s hs hl

/-- the hypotheses are satisfiable: field `c` of the running example -/
example : ∃ w, Matches exP w ∧ 2 ≤ w.count ['c'] :=
  list_needed exP (by decide) (by decide) (by decide)
    { name := ['c'], index := 2, min := 0, max := maxsize, path := [⟨.s, 1, 1, 1⟩, ⟨.c, 2, 0, 1⟩],
      choice := some 2, sequence := some 1 } (by rw [exP_occurs]; decide) (by decide)

/-! ## 2. the full statement fails: two sites with the same name -/

/-- the statement of `nonlist_sound` without the restriction to distinct names -/
def NonlistSound : Prop :=
  ∀ (p : Particle) (w : List Str) (s : Site), wf p = true → Matches p w →
    s ∈ occurs (sites p) → s.isList = false → w.count s.name ≤ 1

/-- `((a | b), (a | c))` -/
def badP : Particle :=
  .seq 1 1 [.choice 1 1 [.elem ['a'] 1 1, .elem ['b'] 1 1],
            .choice 1 1 [.elem ['a'] 1 1, .elem ['c'] 1 1]]

theorem badP_matches : Matches badP [['a'], ['a']] :=
  have ha : Matches (.elem ['a'] 1 1) [['a']] := matches_elem.2 ⟨1, by decide, rfl⟩
  matches_seq.2 ⟨[[['a'], ['a']]], by decide, (by
    intro x hx
    rw [List.mem_singleton.1 hx]
    exact seqOnce_cons.2 ⟨[['a']], [['a']],
      matches_choice.2 ⟨[[['a']]], by decide, (by
        intro y hy
        rw [List.mem_singleton.1 hy]
        exact choiceOnce_cons.2 (Or.inl ha)), rfl⟩,
      seqOnce_cons.2 ⟨[['a']], [],
        matches_choice.2 ⟨[[['a']]], by decide, (by
          intro y hy
          rw [List.mem_singleton.1 hy]
          exact choiceOnce_cons.2 (Or.inl ha)), rfl⟩,
        seqOnce_nil.2 rfl, rfl⟩, rfl⟩), rfl⟩

theorem badP_occurs : occurs (sites badP) = [
    { name := ['a'], index := 0, min := 0, max := 1, path := [⟨.s, 1, 1, 1⟩, ⟨.c, 2, 1, 1⟩],
      choice := some 2, sequence := some 1 },
    { name := ['b'], index := 1, min := 0, max := 1, path := [⟨.s, 1, 1, 1⟩, ⟨.c, 2, 1, 1⟩],
      choice := some 2, sequence := some 1 },
    { name := ['c'], index := 3, min := 0, max := 1, path := [⟨.s, 1, 1, 1⟩, ⟨.c, 3, 1, 1⟩],
      choice := some 3, sequence := some 1 }] := by
  decide

/-- **Defect (finding `C02-duplicate-name-sites`)**: for `((a | b), (a | c))` the two sites of
`a` lie in different choices of equal depth; `group_repeating_attrs` leaves them alone and
`merge_duplicate_attrs` takes the *maximum* of the two `max_occurs` ("exclusive" branches),
so `a` becomes a single optional non-list field — but `<a/><a/>` is schema-valid. -/
theorem nonlist_sound_false : ¬ NonlistSound := by
  intro h
  have := h badP [['a'], ['a']]
    { name := ['a'], index := 0, min := 0, max := 1, path := [⟨.s, 1, 1, 1⟩, ⟨.c, 2, 1, 1⟩],
      choice := some 2, sequence := some 1 }
    (by decide) badP_matches (by rw [badP_occurs]; decide) (by decide)
  exact absurd this (by decide)

/-! ## 2b. the handlers are total: the former `AssertionError` -/

/-- `((b | c | d)? | (a, a, d)?)` — a valid schema on which generation died before the repair:
the merged group of `d … d` contains attrs of the sequence (`a`, `d`) and an attr outside of any
sequence (`d` of the inner choice) -/
def assertWitness : Particle :=
  .choice 1 1 [.choice 0 1 [.elem ['b'] 1 1, .elem ['c'] 1 1, .elem ['d'] 1 1],
               .seq 0 1 [.elem ['a'] 1 1, .elem ['a'] 1 1, .elem ['d'] 1 1]]

/-- **Repaired** (`fixed: … AssertionError in reset_symmetrical_choices`): the group is not taken
for a symmetrical sequence, the class gets optional `b`, `c` and list fields `d`, `a`. -/
theorem assertWitness_occurs : occurs (sites assertWitness) = [
    { name := ['b'], index := 0, min := 0, max := 1, path := [⟨.c, 1, 1, 1⟩, ⟨.c, 2, 0, 1⟩],
      choice := some 1, sequence := none },
    { name := ['c'], index := 1, min := 0, max := 1, path := [⟨.c, 1, 1, 1⟩, ⟨.c, 2, 0, 1⟩],
      choice := some 1, sequence := none },
    { name := ['d'], index := 2, min := 0, max := 2, path := [⟨.c, 1, 1, 1⟩, ⟨.c, 2, 0, 1⟩],
      choice := some (-1), sequence := none },
    { name := ['a'], index := 3, min := 0, max := 2, path := [⟨.c, 1, 1, 1⟩, ⟨.s, 3, 0, 1⟩],
      choice := some (-1), sequence := some 3 }] := by
  decide

/-- the fields of the witness are sound although its names repeat: `d` and `a` are lists -/
example : (occurs (sites assertWitness)).all (fun s => s.isList || (s.name != ['a'] && s.name != ['d'])) = true := by
  decide

/-! ## 3. named model groups (`xs:group`) and `xs:all`

`GMatches defs p` is the language of a content model `p` that may contain `xs:all` and references
`<xs:group ref=… minOccurs maxOccurs/>` to the named groups `defs`; `occursG defs p` is what
`SchemaMapper`, the UNGROUP step (`FlattenAttributeGroups` → `copy_group_attributes`: clones of
the group's attrs, `path = reference's path ++ clone's path`, ids of the definition shared by all
references) and the three FLATTEN handlers leave of it. Every reference gets its own occurrence
product: the statements of section 1 hold class by class. -/

/-- a running example: `<xs:group name="g"><xs:sequence>a, b?</xs:sequence></xs:group>` … -/
def exDefs : GroupDefs := [(['g'], .seq 1 1 [.elem ['a'] 1 1, .elem ['b'] 0 1])]
/-- … referenced once inside a sequence: `(x, g)` … -/
def exT1 : GParticle := .seq 1 1 [.elem ['x'] 1 1, .ref ['g'] 1 1]
/-- … and as the whole content with `minOccurs="0" maxOccurs="unbounded"`: `g*` -/
def exT2 : GParticle := .ref ['g'] 0 maxsize
/-- `xs:all(p, q?)` -/
def exT3 : GParticle := .all 1 1 [.elem ['p'] 1 1, .elem ['q'] 0 1]

theorem exG_word_a : groupLang exDefs 1 ['g'] [['a']] :=
  (groupLang_succ (k := 0) rfl).2 (gmatchesW_seq.2 ⟨[[['a']]], by decide, (by
    intro x hx
    rw [List.mem_singleton.1 hx]
    exact gseqOnce_cons.2 ⟨[['a']], [], gmatchesW_elem.2 ⟨1, by decide, rfl⟩,
      gseqOnce_cons.2 ⟨[], [], gmatchesW_elem.2 ⟨0, by decide, rfl⟩, gseqOnce_nil.2 rfl, rfl⟩,
      rfl⟩), rfl⟩)

/-- `[x, a]` is a word of `(x, g)` -/
theorem exT1_matches : GMatches exDefs exT1 [['x'], ['a']] :=
  gmatchesW_seq.2 ⟨[[['x'], ['a']]], by decide, (by
    intro y hy
    rw [List.mem_singleton.1 hy]
    exact gseqOnce_cons.2 ⟨[['x']], [['a']], gmatchesW_elem.2 ⟨1, by decide, rfl⟩,
      gseqOnce_cons.2 ⟨[['a']], [], gmatchesW_ref.2 ⟨[[['a']]], by decide, (by
        intro z hz
        rw [List.mem_singleton.1 hz]
        exact exG_word_a), rfl⟩, gseqOnce_nil.2 rfl, rfl⟩, rfl⟩), rfl⟩

/-- `[q, p]` is a word of `xs:all(p, q?)`: any order -/
theorem exT3_matches : GMatches exDefs exT3 [['q'], ['p']] :=
  gmatchesW_all.2 ⟨[[['q'], ['p']]], by decide, (by
    intro y hy
    rw [List.mem_singleton.1 hy]
    exact ⟨[['p'], ['q']], gseqOnce_cons.2 ⟨[['p']], [['q']], gmatchesW_elem.2 ⟨1, by decide, rfl⟩,
      gseqOnce_cons.2 ⟨[['q']], [], gmatchesW_elem.2 ⟨1, by decide, rfl⟩, gseqOnce_nil.2 rfl, rfl⟩,
      rfl⟩, List.Perm.swap _ _ _⟩), rfl⟩

/-- the class of `(x, g)`: `x`, `a` required, `b` optional … -/
theorem exT1_occurs : occursG exDefs exT1 = some [
    { name := ['x'], index := 6, min := 1, max := 1, path := [⟨.s, 5, 1, 1⟩],
      choice := none, sequence := some 5 },
    { name := ['a'], index := 3, min := 1, max := 1,
      path := [⟨.s, 5, 1, 1⟩, ⟨.g, 7, 1, 1⟩, ⟨.g, 1, 1, 1⟩, ⟨.s, 2, 1, 1⟩],
      choice := none, sequence := some 5 },
    { name := ['b'], index := 4, min := 0, max := 1,
      path := [⟨.s, 5, 1, 1⟩, ⟨.g, 7, 1, 1⟩, ⟨.g, 1, 1, 1⟩, ⟨.s, 2, 1, 1⟩],
      choice := none, sequence := some 5 }] := by
  decide

/-- … the class of `g*`: the same two declarations (same ids `1`, `2` of the definition on the
path, same `index`), now optional lists: each reference has its own occurrence product -/
theorem exT2_occurs : occursG exDefs exT2 = some [
    { name := ['a'], index := 3, min := 0, max := maxsize,
      path := [⟨.g, 5, 0, maxsize⟩, ⟨.g, 1, 1, 1⟩, ⟨.s, 2, 1, 1⟩],
      choice := none, sequence := some 2 },
    { name := ['b'], index := 4, min := 0, max := maxsize,
      path := [⟨.g, 5, 0, maxsize⟩, ⟨.g, 1, 1, 1⟩, ⟨.s, 2, 1, 1⟩],
      choice := none, sequence := some 2 }] := by
  decide

theorem exT3_occurs : occursG exDefs exT3 = some [
    { name := ['p'], index := 6, min := 1, max := 1, path := [⟨.a, 5, 1, 1⟩] },
    { name := ['q'], index := 7, min := 0, max := 1, path := [⟨.a, 5, 1, 1⟩] }] := by
  decide

/-- **Groups and `xs:all`: a non-list field never sees its element twice.** For every schema
`defs`, every content model `p` over it whose expansion uses each element name once, every word
of its language and every field the generator produces for the class. -/
theorem nonlist_sound_groups (defs : GroupDefs) (p : GParticle) (hd : distinctG defs p = true)
    (w : List Str) (hw : GMatches defs p w)
    (ss : List Site) (h : occursG defs p = some ss) (s : Site) (hs : s ∈ ss)
    (hl : s.isList = false) : w.count s.name ≤ 1 :=
  nonlist_sound_groups_core defs p (of_decide_eq_true hd) w hw ss h s hs hl

/-- the hypotheses are satisfiable: field `a` of `(x, g)`, word `[x, a]` -/
example : List.count ['a'] [['x'], ['a']] ≤ 1 :=
  nonlist_sound_groups exDefs exT1 (by decide) _ exT1_matches _ exT1_occurs
    { name := ['a'], index := 3, min := 1, max := 1,
      path := [⟨.s, 5, 1, 1⟩, ⟨.g, 7, 1, 1⟩, ⟨.g, 1, 1, 1⟩, ⟨.s, 2, 1, 1⟩],
      choice := none, sequence := some 5 } (by decide) (by decide)

/-- **Groups and `xs:all`: a required non-list field always finds its element exactly once.** -/
theorem required_sound_groups (defs : GroupDefs) (p : GParticle) (hd : distinctG defs p = true)
    (hwf : wfG defs p = true) (w : List Str) (hw : GMatches defs p w)
    (ss : List Site) (h : occursG defs p = some ss) (s : Site) (hs : s ∈ ss)
    (hr : s.min ≥ 1) (hl : s.isList = false) : w.count s.name = 1 :=
  required_sound_groups_core defs p (of_decide_eq_true hd) hwf w hw ss h s hs hr hl

/-- the hypotheses are satisfiable: field `a` of `(x, g)`, word `[x, a]` … -/
example : List.count ['a'] [['x'], ['a']] = 1 :=
  required_sound_groups exDefs exT1 (by decide) (by decide) _ exT1_matches _ exT1_occurs
    { name := ['a'], index := 3, min := 1, max := 1,
      path := [⟨.s, 5, 1, 1⟩, ⟨.g, 7, 1, 1⟩, ⟨.g, 1, 1, 1⟩, ⟨.s, 2, 1, 1⟩],
      choice := none, sequence := some 5 } (by decide) (by decide) (by decide)

/-- … and field `p` of `xs:all(p, q?)` with the word `[q, p]` -/
example : List.count ['p'] [['q'], ['p']] = 1 :=
  required_sound_groups exDefs exT3 (by decide) (by decide) _ exT3_matches _ exT3_occurs
    { name := ['p'], index := 6, min := 1, max := 1, path := [⟨.a, 5, 1, 1⟩] }
    (by decide) (by decide) (by decide)

/-- **Groups and `xs:all`: list fields are needed** (`resolves`, every reference names a group, not
circularly, is implied by `occursG … = some _`). -/
theorem list_needed_groups (defs : GroupDefs) (p : GParticle) (hd : distinctG defs p = true)
    (hwf : wfG defs p = true) (hlive : liveG defs p = true)
    (ss : List Site) (h : occursG defs p = some ss) (s : Site) (hs : s ∈ ss)
    (hl : s.isList = true) : ∃ w, GMatches defs p w ∧ 2 ≤ w.count s.name :=
  list_needed_groups_core defs p (of_decide_eq_true hd) hwf hlive ss h s hs hl

/-- the hypotheses are satisfiable: field `a` of `g*` -/
example : ∃ w, GMatches exDefs exT2 w ∧ 2 ≤ w.count ['a'] :=
  list_needed_groups exDefs exT2 (by decide) (by decide) (by decide) _ exT2_occurs
    { name := ['a'], index := 3, min := 0, max := maxsize,
      path := [⟨.g, 5, 0, maxsize⟩, ⟨.g, 1, 1, 1⟩, ⟨.s, 2, 1, 1⟩],
      choice := none, sequence := some 2 } (by decide) (by decide)

/-- a dangling reference makes generation fail (`CodegenError: Unknown group reference`) -/
theorem dangling_reference_fails : occursG exDefs (.ref ['h'] 1 1) = none := by decide

/-! ## 4. `use` / `default` / `fixed`: requiredness and default of the generated field

`attrField d` / `elemField d` : the dataclass field (or none) the pipeline generates for an
`xs:attribute` / `xs:element` declaration (`SchemaMapper.build_class_attribute`,
`SanitizeAttributesDefaultValue`, `ValidateAttributesOverrides`, `Filters.field_definition`;
model `Gen/Attrs`, case analyses `Proofs/AttrsField`). `AttrDecl.allows` / `normalized` : what a
valid element may carry for the declaration and its schema-normalized value (Spec). -/

/-- **Attributes are read faithfully**: for every valid declaration, whatever a schema-valid
element carries for it (`allows`), the strict parser accepts it and the field holds the
schema-normalized value: the given value, or the `default` / `fixed` value of an absent
attribute, or nothing. -/
theorem attribute_faithful (d : AttrDecl) (hwf : d.wf = true) (x : Option Str) (hx : d.allows x) :
    readAttr (attrField d) x = some (d.normalized x) :=
  attribute_faithful_core d hwf x hx

/-- the hypotheses are satisfiable: `use="optional" default="dv"`, attribute absent → `dv` -/
example : readAttr (attrField { default := some ['d', 'v'] }) none = some (some ['d', 'v']) :=
  attribute_faithful { default := some ['d', 'v'] } (by decide) none (by simp [AttrDecl.allows])

/-- **A required attribute field is present in every valid document**: a field without default
(the constructor demands it) only comes from `use="required"`, and then no valid element lacks
the attribute. -/
theorem attribute_required_sound (d : AttrDecl) (f : Field) (h : attrField d = some f)
    (hm : f.default = .missing) : d.use = .required ∧ ¬ d.allows none :=
  attribute_required_sound_core d f h hm

example : attrField { use := .required } = some { init := true, default := .missing } := by decide

/-- **A fixed attribute given with another value is rejected** (`init=False` fields are not assigned,
but `ElementNode.bind_attr` checks the given value against the fixed one): the parser is not
more lenient than the schema here. -/
theorem attribute_fixed_guard (d : AttrDecl) (f v : Str) (hf : d.fixed = some f) (hd : d.default = none)
    (hu : d.use ≠ .prohibited) (hv : v ≠ f) : readAttr (attrField d) (some v) = none := by
  obtain ⟨use, dflt, fx, tp⟩ := d
  simp only at hf hd hu
  subst hf hd
  cases use <;> cases tp <;>
    simp_all [attrField, fieldOf, sanitize, mapAttribute, shouldResetRequired, shouldResetDefault,
      defaultValue, typeIsObject, useBounds, GAttr.isList, readAttr]

example : readAttr (attrField { fixed := some ['f'] }) (some ['g']) = none :=
  attribute_fixed_guard { fixed := some ['f'] } ['f'] ['g'] rfl rfl (by decide) (by decide)

/-- a prohibited attribute gives no field: under `fail_on_unknown_attributes` a document that
carries it is rejected, as the schema demands -/
theorem attribute_prohibited (d : AttrDecl) (h : d.use = .prohibited) : attrField d = none := by
  obtain ⟨use, dflt, fx, tp⟩ := d
  simp only at h
  subst h
  cases dflt <;> cases fx <;> cases tp <;>
    simp [attrField, fieldOf, sanitize, mapAttribute, shouldResetRequired, shouldResetDefault,
      defaultValue, typeIsObject, useBounds, GAttr.isList]

/-- **An element field without default belongs to a required single element**: `min ≥ 1`,
`max = 1` (with `required_sound`: the element is present exactly once in every valid document),
no `default`/`fixed`, a declared type. -/
theorem element_missing_default (d : ElemDecl) (f : Field) (h : elemField d = some f)
    (hm : f.default = .missing) :
    d.min ≥ 1 ∧ d.max = 1 ∧ d.default = none ∧ d.fixed = none ∧ d.type = .str :=
  element_missing_default_core d f h hm

example : elemField {} = some { init := true, default := .missing } := by decide

/-- **An element field is a list exactly when the element may repeat** -/
theorem element_list_iff (d : ElemDecl) (f : Field) (h : elemField d = some f) :
    f.default = .listFactory ↔ d.max > 1 :=
  element_list_iff_core d f h

example : elemField { min := 0, max := 3 } = some { init := true, default := .listFactory } := by
  decide

/-- **An absent optional element is not conjured up from a default**: with `minOccurs="0"` the
field defaults to `None` whatever `default` / `fixed` the declaration has (XSD applies element
defaults to *empty present* elements only). -/
theorem element_optional_absent (d : ElemDecl) (hmin : d.min = 0) (hmax : d.max = 1) :
    elemField d = some { init := true, default := .none } :=
  element_optional_absent_core d hmin hmax

example : elemField { min := 0, fixed := some ['f'] } = some { init := true, default := .none } :=
  element_optional_absent { min := 0, fixed := some ['f'] } rfl rfl

/-- a required single element keeps its `default` / `fixed` value as field default
(`init=False` for `fixed`) -/
theorem element_required_default (d : ElemDecl) (hmin : d.min ≥ 1) (hmax : d.max = 1) (v : Str)
    (hv : defaultValue d.default d.fixed = some v) :
    elemField d = some { init := d.fixed.isNone, default := .value v } :=
  element_required_default_core d hmin hmax v hv

example : elemField { fixed := some ['f'] } = some { init := false, default := .value ['f'] } :=
  element_required_default { fixed := some ['f'] } (by decide) rfl ['f'] rfl

/-! ## 5. derived complex types: restriction overrides, extension

Restriction: the class of the derived type re-declares the elements of its content model;
`ValidateAttributesOverrides.validate_override` reconciles each with the inherited field of the same
name (`Gen/Derive`: `validateOverride`, `effective`). The derived type's own decisions are sound
for its content model by sections 1 and 3; the override may only *widen* them.
Extension: the class keeps the python base class; the content model of the derived type is
`sequence(base content, extension content)`. -/

/-- **An override never narrows**: the field the derived class ends up with (its own, or the
inherited one when `validate_override` removes the re-declaration) is a list whenever the
re-declaration asks for a list, is optional exactly when the re-declaration is, and is prohibited
exactly when the re-declaration is. So a non-list field of the derived class never has to hold two
values and a required one is present in every document valid for the restricted type. -/
theorem override_never_narrows (c p : OAttr) :
    (c.isList = true → (effective c p).isList = true) ∧
    (effective c p).isOptional = c.isOptional ∧
    (effective c p).isProhibited = c.isProhibited :=
  ⟨effective_list c p, effective_optional c p, effective_prohibited c p⟩

/-- base `c*` restricted to `c` (1..1): the derived field becomes a list like the inherited one,
and stays required -/
example : effective { min := 1, max := 1 } { min := 0, max := maxsize } =
    { min := 1, max := maxsize } := by decide

/-- **The base class field never stops being a list** when `validate_override` changes it in place
(it is turned into a list when a derived class re-declares the element as a list). -/
theorem override_parent_stays_list (c p : OAttr) (h : p.isList = true) :
    (validateOverride c p).2.isList = true :=
  parent_stays_list c p h

example : (validateOverride { min := 1, max := 1 } { min := 0, max := 5 }).2.isList = true :=
  override_parent_stays_list _ _ (by decide)

/-- a restriction that leaves out an optional element of its base: `prohibit_parent_attrs` gives the
derived class a prohibited field (`max_occurs = 0`, rendered `init=False`, metadata type `Ignore`),
so the strict parser rejects the element for the derived type -/
theorem restriction_prohibits_omitted :
    restrictClass [(['a'], { min := 1, max := 1 }), (['b'], { min := 0, max := 1 })]
                  [(['a'], { min := 1, max := 1 })] =
      ([(['b'], { min := 0, max := 0 })],
       [(['a'], { min := 1, max := 1 }), (['b'], { min := 0, max := 1 })]) := by
  decide

/-- **Extension: inherited and own fields are sound for `sequence(base, extension)`** — a non-list
field (of the base class, computed from the base content model `pa`, or of the derived class,
computed from the extension's content model `pb`) never sees its element twice in a word of the
derived type's content model. -/
theorem extension_nonlist_sound (pa pb : Particle) (hd : (names pa ++ names pb).Nodup)
    (w : List Str) (hw : Matches (.seq 1 1 [pa, pb]) w)
    (s : Site) (hs : s ∈ occurs (sites pa) ++ occurs (sites pb)) (hl : s.isList = false) :
    w.count s.name ≤ 1 :=
  extension_nonlist_core pa pb hd w hw s hs hl

/-- **Extension: a required non-list field finds its element exactly once** -/
theorem extension_required_sound (pa pb : Particle) (hd : (names pa ++ names pb).Nodup)
    (hwa : wf pa = true) (hwb : wf pb = true)
    (w : List Str) (hw : Matches (.seq 1 1 [pa, pb]) w)
    (s : Site) (hs : s ∈ occurs (sites pa) ++ occurs (sites pb)) (hr : s.min ≥ 1)
    (hl : s.isList = false) : w.count s.name = 1 :=
  extension_required_core pa pb hd hwa hwb w hw s hs hr hl

/-- base `(x)`, extension `(y?)` -/
def extA : Particle := .seq 1 1 [.elem ['x'] 1 1]
def extB : Particle := .seq 1 1 [.elem ['y'] 0 1]

theorem ext_matches : Matches (.seq 1 1 [extA, extB]) [['x']] :=
  matches_seq.2 ⟨[[['x']]], by decide, (by
    intro z hz
    rw [List.mem_singleton.1 hz]
    exact seqOnce_cons.2 ⟨[['x']], [],
      matches_seq.2 ⟨[[['x']]], by decide, (by
        intro u hu
        rw [List.mem_singleton.1 hu]
        exact seqOnce_cons.2 ⟨[['x']], [], matches_elem.2 ⟨1, by decide, rfl⟩, seqOnce_nil.2 rfl, rfl⟩),
        rfl⟩,
      seqOnce_cons.2 ⟨[], [],
        matches_seq.2 ⟨[[]], by decide, (by
          intro u hu
          rw [List.mem_singleton.1 hu]
          exact seqOnce_cons.2 ⟨[], [], matches_elem.2 ⟨0, by decide, rfl⟩, seqOnce_nil.2 rfl, rfl⟩),
          rfl⟩,
        seqOnce_nil.2 rfl, rfl⟩, rfl⟩), rfl⟩

theorem extA_occurs : occurs (sites extA) = [
    { name := ['x'], index := 0, min := 1, max := 1, path := [⟨.s, 1, 1, 1⟩], sequence := some 1 }] := by
  decide

theorem extB_occurs : occurs (sites extB) = [
    { name := ['y'], index := 0, min := 0, max := 1, path := [⟨.s, 1, 1, 1⟩], sequence := some 1 }] := by
  decide

/-- the hypotheses are satisfiable: the inherited field `x`, word `[x]` -/
example : List.count ['x'] [['x']] = 1 :=
  extension_required_sound extA extB (by decide) (by decide) (by decide) _ ext_matches
    { name := ['x'], index := 0, min := 1, max := 1, path := [⟨.s, 1, 1, 1⟩], sequence := some 1 }
    (by rw [extA_occurs, extB_occurs]; decide) (by decide) (by decide)

example : List.count ['y'] [['x']] ≤ 1 :=
  extension_nonlist_sound extA extB (by decide) _ ext_matches
    { name := ['y'], index := 0, min := 0, max := 1, path := [⟨.s, 1, 1, 1⟩], sequence := some 1 }
    (by rw [extA_occurs, extB_occurs]; decide) (by decide)

/-! ## 6. substitution groups

An element reference whose element heads a substitution group stands for a choice between the
head and the members, `substParticle`; `substituteSite` is what `AddAttributeSubstitutions` makes of
the reference's attr (its `min`/`max` already the products over its path): the head and one clone per
member, all optional, all with the reference's `max_occurs`. The first three statements are local
(one reference with its group); `substitution_*_model` below are the statements for whole content
models: `substP mem p` is the content model a schema with substitution groups stands for,
`occursSubst mem (sites p)` what the FLATTEN handlers (`AddAttributeSubstitutions` included) compute
for the class (`Proofs/SubstLift`). -/

/-- **No field of a substitution group is required**: a valid document may always use another
member instead. -/
theorem substitution_never_required (members : List Str) (fresh : Nat) (s f : Site)
    (hm : members ≠ []) (hf : f ∈ substituteSite members fresh s) : f.min = 0 :=
  substituteSite_min hm hf

/-- **A non-list field of a substitution group never sees its element twice** -/
theorem substitution_nonlist_sound (members : List Str) (fresh : Nat) (s : Site) (w : List Str)
    (hw : Matches (substParticle s.name members s.min s.max) w)
    (f : Site) (hf : f ∈ substituteSite members fresh s) (hl : f.isList = false) :
    w.count f.name ≤ 1 :=
  substitution_nonlist_core members fresh s w hw f hf hl

/-- **Converse sanity**: a list field of a substitution group is needed -/
theorem substitution_list_needed (members : List Str) (fresh : Nat) (s : Site)
    (hwf : s.min ≤ s.max) (f : Site) (hf : f ∈ substituteSite members fresh s)
    (hl : f.isList = true) :
    ∃ w, Matches (substParticle s.name members s.min s.max) w ∧ 2 ≤ w.count f.name :=
  substitution_list_needed_core members fresh s hwf f hf hl

/-- `<xs:element ref="h"/>` with `m` substitutable for `h` -/
def exSubst : Site :=
  { name := ['h'], index := 1, min := 1, max := 1, path := [⟨.s, 1, 1, 1⟩], sequence := some 1 }

theorem exSubst_sites : substituteSite [['m']] 9 exSubst = [
    { name := ['h'], index := 1, min := 0, max := 1, path := [⟨.s, 1, 1, 1⟩, ⟨.c, 9, 1, 1⟩],
      choice := some 9, sequence := some 1 },
    { name := ['m'], index := 1, min := 0, max := 1, path := [⟨.s, 1, 1, 1⟩, ⟨.c, 9, 1, 1⟩],
      choice := some 9, sequence := some 1 }] := by
  decide

theorem exSubst_matches : Matches (substParticle ['h'] [['m']] 1 1) [['m']] :=
  matches_choice.2 ⟨[[['m']]], by decide, (by
    intro x hx
    rw [List.mem_singleton.1 hx]
    exact (choiceOnce_singles [['h'], ['m']] [['m']]).2 ⟨['m'], by decide, rfl⟩), rfl⟩

/-- the hypotheses are satisfiable: the member's field, the word `[m]` -/
example : List.count ['m'] [['m']] ≤ 1 :=
  substitution_nonlist_sound [['m']] 9 exSubst _ exSubst_matches
    { name := ['m'], index := 1, min := 0, max := 1, path := [⟨.s, 1, 1, 1⟩, ⟨.c, 9, 1, 1⟩],
      choice := some 9, sequence := some 1 } (by rw [exSubst_sites]; decide) (by decide)

/-- the member's field -/
def exSubstM : Site :=
  { name := ['m'], index := 1, min := 0, max := 1, path := [⟨.s, 1, 1, 1⟩, ⟨.c, 9, 1, 1⟩],
    choice := some 9, sequence := some 1 }

example : exSubstM.min = 0 :=
  substitution_never_required [['m']] 9 exSubst exSubstM (by decide) (by rw [exSubst_sites]; decide)

example : ∃ w, Matches (substParticle ['h'] [['m']] 0 3) w ∧ 2 ≤ w.count ['m'] :=
  substitution_list_needed [['m']] 9 { exSubst with min := 0, max := 3 } (by decide)
    { name := ['m'], index := 1, min := 0, max := 3, path := [⟨.s, 1, 1, 1⟩, ⟨.c, 9, 1, 1⟩],
      choice := some 9, sequence := some 1 } (by decide) (by decide)

/-- a running example: `(d, c)*`, `m` substitutable for `d` -/
def exMem : Str → List Str := fun n => if n = ['d'] then [['m']] else []
def exSP : Particle := .seq 0 maxsize [.elem ['d'] 1 1, .elem ['c'] 1 1]

theorem exSP_substP : substP exMem exSP =
    .seq 0 maxsize [.choice 1 1 [.elem ['d'] 1 1, .elem ['m'] 1 1], .elem ['c'] 1 1] := by
  simp [substP, substPList, exMem, exSP]

theorem exSP_occurs : occursSubst exMem (sites exSP) = [
    { name := ['d'], index := 0, min := 0, max := maxsize,
      path := [⟨.s, 1, 0, maxsize⟩, ⟨.c, 1000, 1, 1⟩], choice := some 1000, sequence := some 1 },
    { name := ['m'], index := 0, min := 0, max := maxsize,
      path := [⟨.s, 1, 0, maxsize⟩, ⟨.c, 1000, 1, 1⟩], choice := some 1000, sequence := some 1 },
    { name := ['c'], index := 1, min := 0, max := maxsize, path := [⟨.s, 1, 0, maxsize⟩],
      choice := none, sequence := some 1 }] := by
  decide

/-- **Substitution groups, whole content models: a non-list field never sees its element twice.**
For every content model `p`, every assignment `mem` of members to element references such that the
field names (element names and member names) are pairwise distinct, every word of the content
model the schema stands for and every field of the class. -/
theorem substitution_nonlist_sound_model (mem : Str → List Str) (p : Particle)
    (hd : (names (substP mem p)).Nodup) (w : List Str) (hw : Matches (substP mem p) w)
    (f : Site) (hf : f ∈ occursSubst mem (sites p)) (hl : f.isList = false) :
    w.count f.name ≤ 1 :=
  subst_nonlist_core mem p hd w hw f hf hl

/-- **… a required non-list field finds its element exactly once** (a field of a substitution
group is never required, `substitution_never_required`; the others keep their `min`). -/
theorem substitution_required_sound_model (mem : Str → List Str) (p : Particle)
    (hd : (names (substP mem p)).Nodup) (hwf : wf p = true) (w : List Str)
    (hw : Matches (substP mem p) w)
    (f : Site) (hf : f ∈ occursSubst mem (sites p)) (hr : f.min ≥ 1) (hl : f.isList = false) :
    w.count f.name = 1 :=
  subst_required_core mem p hd hwf w hw f hf hr hl

/-- **… and a list field is needed.** -/
theorem substitution_list_needed_model (mem : Str → List Str) (p : Particle)
    (hd : (names (substP mem p)).Nodup) (hwf : wf p = true) (hlive : live p = true)
    (f : Site) (hf : f ∈ occursSubst mem (sites p)) (hl : f.isList = true) :
    ∃ w, Matches (substP mem p) w ∧ 2 ≤ w.count f.name :=
  subst_list_needed_core mem p hd hwf hlive f hf hl

/-- `(x, d?)` with `m` substitutable for `d` -/
def exSQ : Particle := .seq 1 1 [.elem ['x'] 1 1, .elem ['d'] 0 1]

theorem exSQ_matches : Matches (substP exMem exSQ) [['x'], ['m']] := by
  have hx : Matches (.elem ['x'] 1 1) [['x']] := matches_elem.2 ⟨1, by decide, rfl⟩
  have hm : Matches (.choice 0 1 [.elem ['d'] 1 1, .elem ['m'] 1 1]) [['m']] :=
    matches_choice.2 ⟨[[['m']]], by decide, (by
      intro y hy
      rw [List.mem_singleton.1 hy]
      exact choiceOnce_cons.2 (Or.inr (choiceOnce_cons.2 (Or.inl
        (matches_elem.2 ⟨1, by decide, rfl⟩))))), rfl⟩
  have : substP exMem exSQ =
      .seq 1 1 [.elem ['x'] 1 1, .choice 0 1 [.elem ['d'] 1 1, .elem ['m'] 1 1]] := by
    simp [substP, substPList, exMem, exSQ]
  rw [this]
  exact matches_seq.2 ⟨[[['x'], ['m']]], by decide, (by
    intro z hz
    rw [List.mem_singleton.1 hz]
    exact seqOnce_cons.2 ⟨[['x']], [['m']], hx,
      seqOnce_cons.2 ⟨[['m']], [], hm, seqOnce_nil.2 rfl, rfl⟩, rfl⟩), rfl⟩

theorem exSQ_occurs : occursSubst exMem (sites exSQ) = [
    { name := ['x'], index := 0, min := 1, max := 1, path := [⟨.s, 1, 1, 1⟩], sequence := some 1 },
    { name := ['d'], index := 1, min := 0, max := 1, path := [⟨.s, 1, 1, 1⟩, ⟨.c, 1001, 1, 1⟩],
      choice := some 1001, sequence := some 1 },
    { name := ['m'], index := 1, min := 0, max := 1, path := [⟨.s, 1, 1, 1⟩, ⟨.c, 1001, 1, 1⟩],
      choice := some 1001, sequence := some 1 }] := by
  decide

/-- the hypotheses are satisfiable: the member's field and the required field `x`, word `[x, m]` -/
example : List.count ['m'] [['x'], ['m']] ≤ 1 :=
  substitution_nonlist_sound_model exMem exSQ (by decide) _ exSQ_matches
    { name := ['m'], index := 1, min := 0, max := 1, path := [⟨.s, 1, 1, 1⟩, ⟨.c, 1001, 1, 1⟩],
      choice := some 1001, sequence := some 1 } (by rw [exSQ_occurs]; decide) (by decide)

example : List.count ['x'] [['x'], ['m']] = 1 :=
  substitution_required_sound_model exMem exSQ (by decide) (by decide) _ exSQ_matches
    { name := ['x'], index := 0, min := 1, max := 1, path := [⟨.s, 1, 1, 1⟩], sequence := some 1 }
    (by rw [exSQ_occurs]; decide) (by decide) (by decide)

example : ∃ w, Matches (substP exMem exSP) w ∧ 2 ≤ w.count ['m'] :=
  substitution_list_needed_model exMem exSP (by decide) (by decide) (by decide)
    { name := ['m'], index := 0, min := 0, max := maxsize,
      path := [⟨.s, 1, 0, maxsize⟩, ⟨.c, 1000, 1, 1⟩], choice := some 1000, sequence := some 1 }
    (by rw [exSP_occurs]; decide) (by decide)

/-! ## enumeration-typed fields: the default is the member with the declared *value*

an attribute or element whose type is an `xs:enumeration` restriction, with `default` / `fixed`: `SanitizeAttributesDefaultValue.is_valid_enum_type` turns the string default into a reference
to member *names* (which `RenameDuplicateAttributes` may have changed: `on`, `ON` → `on`, `ON_1`),
`Filters.field_default_enum` renders the reference (model `Gen/EnumDefault`, lemmas
`Proofs/EnumDefault`). -/

/-- **The default of an enumeration-typed field is the member whose value was declared**: for every
enumeration with pairwise distinct values and (after renaming) pairwise distinct, non-empty member
names, and every member `m`, a field declared with the default / fixed value `m.value` gets exactly
`m` as its default — whatever the other members are called, in particular when another member's
name, or python constant, spells `m.value`. -/
theorem enum_default_faithful (members : List EnumMember)
    (hv : (members.map (·.value)).Nodup) (hn : (members.map (·.name)).Nodup)
    (m : EnumMember) (hm : m ∈ members) (hne : m.name ≠ []) :
    enumDefaultValues members m.value = some [some m.value] :=
  enum_default_core members hv hn m hm hne

/-- the hypotheses are satisfiable: `(on | ON | off)` with default `ON`; the members are called
`on`, `ON_1`, `off` after renaming -/
example : enumDefaultValues
    [⟨"on".toList, "on".toList⟩, ⟨"ON".toList, "ON_1".toList⟩, ⟨"off".toList, "off".toList⟩]
    "ON".toList = some [some "ON".toList] :=
  enum_default_faithful _ (by decide) (by decide) ⟨"ON".toList, "ON_1".toList⟩ (by decide) (by decide)

/-- a token-list default refers to one member per token -/
example : enumDefaultValues
    [⟨"x-1".toList, "x-1".toList⟩, ⟨"x1".toList, "x1_1".toList⟩] "x1 x-1".toList =
    some [some "x1".toList, some "x-1".toList] := by decide

/-- **`SanitizeAttributesDefaultValue` keeps the default of every single attribute**, tokens or not:
the default is reset only for `xsi:type`, for a field with several occurrences and for an optional
ELEMENT — never because the value is a list of tokens (`is_list`, not `is_factory`). -/
theorem sanitize_attribute_keeps_default (a : GAttr) (ha : a.isAttribute = true) (hl : a.max ≤ 1)
    (hx : a.xsiType = false) : (sanitize a).default = a.default ∧ (sanitize a).fixed = a.fixed := by
  have hnl : a.isList = false := by simp [GAttr.isList]; omega
  simp [sanitize, shouldResetRequired, shouldResetDefault, ha, hx, hnl]

/-- an optional tokens attribute with the default `a b` (`GAttr.mk isAttribute min max default fixed anyObj xsiType tokens`) -/
example : (sanitize (GAttr.mk true 0 1 (some "a b".toList) false false false true)).default = some "a b".toList := by
  decide

end Props.C02
