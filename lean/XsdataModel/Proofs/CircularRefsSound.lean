/- C07 — DetectCircularReferences: `is_circular` decides reachability, and after the handler no
plain reference is left on a cycle (helper lemmas; property theorems in Props/C07Layout.lean). -/
import XsdataModel.Codegen.CircularRefs
import XsdataModel.Proofs.SccStruct

namespace Xs.Codegen.Refs
open Py Xs.Codegen

/-- one step of the search: from `x` to the target of a type that is cached for `x` and not flagged -/
def CEdge (edges : List TEdge) (rt : RefTypes) (x y : Nat) : Prop :=
  ∃ ids i e, List.lookup x rt = some ids ∧ i ∈ ids ∧ edges[i]? = some e ∧ e.circular = false ∧ e.tgt = y

/-- `y` can be reached from `x` through unflagged types (zero or more steps) -/
inductive CReach (edges : List TEdge) (rt : RefTypes) : Nat → Nat → Prop
  | refl (x : Nat) : CReach edges rt x x
  | step {x y z : Nat} : CReach edges rt x y → CEdge edges rt y z → CReach edges rt x z

theorem mem_pushed {edges : List TEdge} {path ids : List Nat} {y : Nat} :
    y ∈ pushed edges path ids ↔
      ∃ i e, i ∈ ids ∧ edges[i]? = some e ∧ e.circular = false ∧ path.contains e.tgt = false ∧ e.tgt = y := by
  unfold pushed
  rw [List.mem_filterMap]
  constructor
  · rintro ⟨i, hi, h⟩
    cases he : edges[i]? with
    | none => simp [he] at h
    | some e =>
      simp only [he] at h
      split at h
      · rename_i hc
        simp only [Option.some.injEq] at h
        simp only [Bool.and_eq_true, Bool.not_eq_true'] at hc
        exact ⟨i, e, hi, he, hc.1, hc.2, h⟩
      · cases h
  · rintro ⟨i, e, hi, he, hc, hp, rfl⟩
    have hp' : e.tgt ∉ path := by simpa using hp
    exact ⟨i, hi, by simp [he, hc, hp']⟩

theorem circLoop_spec (edges : List TEdge) (rt : RefTypes) (start stop : Nat) :
    ∀ (fuel : Nat) (path stack : List Nat) (b : Bool),
      circLoop edges rt stop fuel path stack = .ok b →
      (∀ x, x ∈ path ∨ x ∈ stack → CReach edges rt start x) →
      (∀ x ∈ path, ∀ y, CEdge edges rt x y → y ∈ path ∨ y ∈ stack) →
      (start ∈ path ∨ start ∈ stack) →
      (b = true ↔ CReach edges rt start stop)
  | 0, _, _, _, h, _, _, _ => by simp [circLoop] at h
  | fuel + 1, path, [], b, h, h1, h2, h3 => by
    simp only [circLoop, CircRes.ok.injEq] at h
    subst h
    constructor
    · intro hc
      exact h1 stop (Or.inl (by simpa using hc))
    · intro hr
      have hstart : start ∈ path := by
        rcases h3 with h | h
        · exact h
        · cases h
      have hclosed : ∀ x, CReach edges rt start x → x ∈ path := by
        intro x hx
        induction hx with
        | refl => exact hstart
        | step _ he ih =>
          rcases h2 _ ih _ he with h | h
          · exact h
          · cases h
      simpa using hclosed stop hr
  | fuel + 1, path, ref :: rest, b, h, h1, h2, h3 => by
    rw [circLoop] at h
    by_cases hstop : path.contains stop = true
    · simp only [hstop, if_true, CircRes.ok.injEq] at h
      subst h
      simp only [true_iff]
      exact h1 stop (Or.inl (by simpa using hstop))
    · simp only [hstop] at h
      cases hl : List.lookup ref rt with
      | none => simp [hl] at h
      | some ids =>
        simp only [hl] at h
        obtain ⟨path', hp'⟩ : ∃ p, p = (if path.contains ref then path else ref :: path) := ⟨_, rfl⟩
        rw [← hp'] at h
        have hsub : ∀ x, x ∈ path' ↔ x ∈ path ∨ x = ref := by
          intro x
          rw [hp']
          by_cases hc : path.contains ref = true
          · simp only [hc, if_true]
            constructor
            · exact Or.inl
            · rintro (h | rfl)
              · exact h
              · simpa using hc
          · simp only [hc]
            simp [or_comm]
        have href : CReach edges rt start ref := h1 ref (Or.inr (by simp))
        apply circLoop_spec edges rt start stop fuel path' _ b h
        · intro x hx
          rcases hx with hx | hx
          · rcases (hsub x).1 hx with hx | rfl
            · exact h1 x (Or.inl hx)
            · exact href
          · rcases List.mem_append.1 hx with hx | hx
            · obtain ⟨i, e, hi, he, hc, _, rfl⟩ := mem_pushed.1 (List.mem_reverse.1 hx)
              exact CReach.step href ⟨ids, i, e, hl, hi, he, hc, rfl⟩
            · exact h1 x (Or.inr (List.mem_cons_of_mem _ hx))
        · intro x hx y hxy
          rcases (hsub x).1 hx with hx | rfl
          · rcases h2 x hx y hxy with hy | hy
            · exact Or.inl ((hsub y).2 (Or.inl hy))
            · rcases List.mem_cons.1 hy with rfl | hy
              · exact Or.inl ((hsub _).2 (Or.inr rfl))
              · exact Or.inr (List.mem_append.2 (Or.inr hy))
          · obtain ⟨ids', i, e, hl', hi, he, hc, rfl⟩ := hxy
            rw [hl] at hl'
            cases hl'
            by_cases hin : path'.contains e.tgt = true
            · exact Or.inl (by simpa using hin)
            · refine Or.inr (List.mem_append.2 (Or.inl (List.mem_reverse.2 ?_)))
              exact mem_pushed.2 ⟨i, e, hi, he, hc, by simpa using hin, rfl⟩
        · rcases h3 with h | h
          · exact Or.inl ((hsub start).2 (Or.inl h))
          · rcases List.mem_cons.1 h with rfl | h
            · exact Or.inl ((hsub _).2 (Or.inr rfl))
            · exact Or.inr (List.mem_append.2 (Or.inr h))

/-- **`is_circular(start, stop)` decides reachability** in the graph of unflagged cached types -/
theorem isCircular_spec (edges : List TEdge) (rt : RefTypes) (start stop : Nat) (b : Bool)
    (h : isCircular edges rt start stop = .ok b) : b = true ↔ CReach edges rt start stop := by
  unfold isCircular at h
  apply circLoop_spec edges rt start stop _ [] [start] b h
  · intro x hx
    rcases hx with hx | hx
    · cases hx
    · simp at hx; subst hx; exact CReach.refl _
  · intro x hx; cases hx
  · exact Or.inr (by simp)

/-! ### the search always ends within the model's step bound -/

/-- depth-first discipline: an unvisited successor of a visited node lies above every copy of
that node on the stack -/
def InvL (edges : List TEdge) (rt : RefTypes) (path stack : List Nat) : Prop :=
  ∀ x ∈ path, ∀ y, CEdge edges rt x y → y ∉ path → ∀ s1 s2, stack = s1 ++ x :: s2 → y ∈ s1

theorem split_of_not_mem {x : Nat} : ∀ (l1 l2 s1 s2 : List Nat), l1 ++ l2 = s1 ++ x :: s2 → x ∉ l1 →
    ∃ r1, s1 = l1 ++ r1 ∧ l2 = r1 ++ x :: s2
  | [], l2, s1, s2, h, _ => ⟨s1, by simp, by simpa using h⟩
  | a :: l1, l2, [], s2, h, hx => by
    simp only [List.cons_append, List.nil_append, List.cons.injEq] at h
    exact absurd (by simp [h.1]) hx
  | a :: l1, l2, b :: s1, s2, h, hx => by
    simp only [List.cons_append, List.cons.injEq] at h
    obtain ⟨r1, h1, h2⟩ := split_of_not_mem l1 l2 s1 s2 h.2 (fun hm => hx (List.mem_cons_of_mem _ hm))
    exact ⟨r1, by rw [h.1, h1]; simp, h2⟩

def unvisited (rt : RefTypes) (path : List Nat) : Nat :=
  ((rt.map (·.1)).filter (fun k => !path.contains k)).length

def totalIds (rt : RefTypes) : Nat := (rt.map (·.2.length)).sum

theorem lookup_length_le {rt : RefTypes} {k : Nat} {ids : List Nat} (h : List.lookup k rt = some ids) :
    ids.length ≤ totalIds rt ∧ k ∈ rt.map (·.1) := by
  induction rt with
  | nil => simp at h
  | cons a rt ih =>
    obtain ⟨k0, v0⟩ := a
    simp only [List.lookup_cons] at h
    by_cases hk : k = k0
    · subst hk
      simp at h
      subst h
      simp [totalIds]
    · have : (k == k0) = false := by simpa using hk
      simp only [this] at h
      obtain ⟨h1, h2⟩ := ih h
      refine ⟨?_, by simp [h2]⟩
      simp only [totalIds, List.map_cons, List.sum_cons] at h1 ⊢
      omega

theorem unvisited_cons_lt {rt : RefTypes} {path : List Nat} {k : Nat} (hk : k ∈ rt.map (·.1))
    (hp : path.contains k = false) : unvisited rt (k :: path) < unvisited rt path := by
  unfold unvisited
  apply filter_length_lt
  · intro x _ hx
    simp only [Bool.not_eq_true', List.contains_cons, Bool.or_eq_false_iff] at hx ⊢
    exact hx.2
  · have hk' : k ∉ path := by simpa using hp
    exact ⟨k, hk, by simp [hk'], by simp⟩

theorem pushed_length_le (edges : List TEdge) (path ids : List Nat) :
    (pushed edges path ids).length ≤ ids.length := by
  unfold pushed
  exact List.length_filterMap_le _ _

theorem circLoop_no_fuel (edges : List TEdge) (rt : RefTypes) (stop : Nat) :
    ∀ (fuel : Nat) (path stack : List Nat), InvL edges rt path stack →
      unvisited rt path * (totalIds rt + 2) + stack.length < fuel →
      circLoop edges rt stop fuel path stack ≠ .fuel
  | 0, _, _, _, h => by omega
  | fuel + 1, path, [], _, _ => by simp [circLoop]
  | fuel + 1, path, ref :: rest, hinv, hm => by
    rw [circLoop]
    by_cases hstop : path.contains stop = true
    · rw [if_pos hstop]; simp
    · rw [if_neg hstop]
      cases hl : List.lookup ref rt with
      | none => simp
      | some ids =>
        simp only []
        obtain ⟨hlen, hkey⟩ := lookup_length_le hl
        by_cases href : path.contains ref = true
        · -- a stale entry: everything it could push is already visited
          rw [if_pos href]
          have hnil : pushed edges path ids = [] := by
            apply List.eq_nil_iff_forall_not_mem.2
            intro y hy
            obtain ⟨i, e, hi, he, hc, hp, rfl⟩ := mem_pushed.1 hy
            have := hinv ref (by simpa using href) e.tgt ⟨ids, i, e, hl, hi, he, hc, rfl⟩
              (by simpa using hp) [] rest rfl
            cases this
          rw [hnil]
          apply circLoop_no_fuel edges rt stop fuel path rest
          · intro x hx y hxy hy s1 s2 hs
            have := hinv x hx y hxy hy (ref :: s1) s2 (by rw [hs]; rfl)
            rcases List.mem_cons.1 this with rfl | h
            · exact absurd (by simpa using href) hy
            · exact h
          · simp only [List.length_cons] at hm
            omega
        · have href' : path.contains ref = false := by simpa using href
          rw [if_neg href]
          apply circLoop_no_fuel edges rt stop fuel (ref :: path) _
          · intro x hx y hxy hy s1 s2 hs
            have hyp : y ∉ path := fun h => hy (List.mem_cons_of_mem _ h)
            have hxnp : x ∉ (pushed edges (ref :: path) ids).reverse := by
              intro hxm
              obtain ⟨_, e, _, _, _, hp, rfl⟩ := mem_pushed.1 (List.mem_reverse.1 hxm)
              have : e.tgt ∉ ref :: path := by simpa using hp
              exact this hx
            obtain ⟨r1, h1, h2⟩ := split_of_not_mem _ _ _ _ hs hxnp
            rw [h1]
            rcases List.mem_cons.1 hx with rfl | hx
            · -- the node just visited: its unvisited successors were pushed
              obtain ⟨ids', i, e, hl', hi, he, hc, rfl⟩ := hxy
              rw [hl] at hl'; cases hl'
              exact List.mem_append.2 (Or.inl (List.mem_reverse.2
                (mem_pushed.2 ⟨i, e, hi, he, hc, by simpa using hy, rfl⟩)))
            · have := hinv x hx y hxy hyp (ref :: r1) s2 (by rw [h2]; rfl)
              rcases List.mem_cons.1 this with rfl | h
              · exact absurd (by simp) hy
              · exact List.mem_append.2 (Or.inr h)
          · have hlt := unvisited_cons_lt hkey href'
            have hpl := pushed_length_le edges (ref :: path) ids
            have h1 : (unvisited rt (ref :: path) + 1) * (totalIds rt + 2) ≤
                unvisited rt path * (totalIds rt + 2) := Nat.mul_le_mul_right _ hlt
            rw [Nat.succ_mul] at h1
            simp only [List.length_cons, List.length_append, List.length_reverse] at hm ⊢
            omega

/-- **the model's step bound is never reached**: `is_circular` ends with a verdict or a KeyError -/
theorem isCircular_no_fuel (edges : List TEdge) (rt : RefTypes) (start stop : Nat) :
    isCircular edges rt start stop ≠ .fuel := by
  unfold isCircular
  apply circLoop_no_fuel
  · intro x hx; cases hx
  · have : unvisited rt [] ≤ rt.length := by
      unfold unvisited
      exact Nat.le_trans (List.length_filter_le _ _) (by simp)
    unfold circFuel
    have h2 : unvisited rt [] * (totalIds rt + 2) ≤ rt.length * (totalIds rt + 2) :=
      Nat.mul_le_mul_right _ this
    simp only [List.length_cons, List.length_nil, totalIds] at h2 ⊢
    rw [Nat.add_mul]
    omega

/-! ### flags only grow, reachability only shrinks -/

/-- `edges'` is `edges` with possibly more circular flags -/
def Mono (edges edges' : List TEdge) : Prop :=
  ∀ (i : Nat) (e' : TEdge), edges'[i]? = some e' → ∃ e : TEdge, edges[i]? = some e ∧ e.tgt = e'.tgt ∧ e.forward = e'.forward ∧
    e.native = e'.native ∧ (e.circular = true → e'.circular = true)

theorem Mono.refl (edges : List TEdge) : Mono edges edges :=
  fun _ e' h => ⟨e', h, rfl, rfl, rfl, id⟩

theorem Mono.trans {a b c : List TEdge} (h1 : Mono a b) (h2 : Mono b c) : Mono a c := by
  intro i e'' h
  obtain ⟨e', he', t1, f1, n1, c1⟩ := h2 i e'' h
  obtain ⟨e, he, t0, f0, n0, c0⟩ := h1 i e' he'
  exact ⟨e, he, t0.trans t1, f0.trans f1, n0.trans n1, fun hc => c1 (c0 hc)⟩

theorem Mono.setCircular (edges : List TEdge) (i : Nat) (b : Bool) (e : TEdge) (he : edges[i]? = some e)
    (hc : e.circular = false) : Mono edges (setCircular edges i b) := by
  intro j e' h
  unfold Xs.Codegen.Refs.setCircular at h
  by_cases hij : i = j
  · subst hij
    rw [List.getElem?_modify_eq, he] at h
    simp at h
    subst h
    exact ⟨e, he, rfl, rfl, rfl, fun h => by rw [hc] at h; cases h⟩
  · rw [List.getElem?_modify_ne _ _ hij] at h
    exact ⟨e', h, rfl, rfl, rfl, id⟩

theorem CEdge.anti {edges edges' : List TEdge} {rt : RefTypes} (hm : Mono edges edges') {x y : Nat}
    (h : CEdge edges' rt x y) : CEdge edges rt x y := by
  obtain ⟨ids, i, e', hl, hi, he', hc, ht⟩ := h
  obtain ⟨e, he, t, _, _, c⟩ := hm i e' he'
  refine ⟨ids, i, e, hl, hi, he, ?_, t.trans ht⟩
  cases hce : e.circular with
  | false => rfl
  | true => rw [c hce] at hc; cases hc

theorem CReach.anti {edges edges' : List TEdge} {rt : RefTypes} (hm : Mono edges edges') {x y : Nat}
    (h : CReach edges' rt x y) : CReach edges rt x y := by
  induction h with
  | refl => exact CReach.refl _
  | step _ he ih => exact CReach.step ih (CEdge.anti hm he)

/-- the type object `i`, if it is still a plain dependency, does not lead back to class `c` -/
def Done (edges : List TEdge) (rt : RefTypes) (c : Nat) (i : Nat) : Prop :=
  ∀ e : TEdge, edges[i]? = some e → e.forward = false → e.native = false → e.circular = false →
    ¬ CReach edges rt e.tgt c

theorem Done.mono {edges edges' : List TEdge} {rt : RefTypes} {c i : Nat} (hd : Done edges rt c i)
    (hm : Mono edges edges') : Done edges' rt c i := by
  intro e' he' hf hn hc hr
  obtain ⟨e, he, t, f, n, cc⟩ := hm i e' he'
  have hce : e.circular = false := by
    cases hce : e.circular with
    | false => rfl
    | true => rw [cc hce] at hc; cases hc
  exact hd e he (f.trans hf) (n.trans hn) hce (t ▸ CReach.anti hm hr)

/-- a flag that was added was justified: at that moment the target led back to the class -/
def Justified (edges0 edges' : List TEdge) (rt : RefTypes) (c : Nat) (i : Nat) : Prop :=
  ∀ e0 e' : TEdge, edges0[i]? = some e0 → edges'[i]? = some e' → e0.circular = false → e'.circular = true →
    CReach edges0 rt e0.tgt c

theorem processTypes_spec (rt : RefTypes) (stop : Nat) : ∀ (ids : List Nat) (edges edges' : List TEdge),
    processTypes rt stop edges ids = some edges' →
      Mono edges edges' ∧ (∀ i ∈ ids, Done edges' rt stop i) ∧
      (∀ i, (∃ e e', edges[i]? = some e ∧ edges'[i]? = some e' ∧ e.circular = false ∧ e'.circular = true) →
        i ∈ ids ∧ ∃ e, edges[i]? = some e ∧ CReach edges rt e.tgt stop)
  | [], edges, edges', h => by
    simp only [processTypes, Option.some.injEq] at h
    subst h
    refine ⟨Mono.refl _, by simp, ?_⟩
    rintro i ⟨e, e', he, he', hc, hc'⟩
    rw [he] at he'; cases he'
    rw [hc] at hc'; cases hc'
  | i :: rest, edges, edges', h => by
    rw [processTypes] at h
    cases he : edges[i]? with
    | none =>
      simp only [he] at h
      obtain ⟨m, d, j⟩ := processTypes_spec rt stop rest edges edges' h
      refine ⟨m, ?_, ?_⟩
      · intro k hk
        rcases List.mem_cons.1 hk with rfl | hk
        · intro e' he' _ _ _
          obtain ⟨e, he0, _⟩ := m _ e' he'
          rw [he] at he0; cases he0
        · exact d k hk
      · intro k hk
        obtain ⟨h1, h2⟩ := j k hk
        exact ⟨List.mem_cons_of_mem _ h1, h2⟩
    | some e =>
      simp only [he] at h
      by_cases helig : (!e.forward && !e.native && !e.circular) = true
      · simp only [helig, if_true] at h
        cases hres : isCircular edges rt e.tgt stop with
        | ok b =>
          simp only [hres] at h
          have hcirc : e.circular = false := by
            simp only [Bool.and_eq_true, Bool.not_eq_true'] at helig
            exact helig.2
          have hm1 := Mono.setCircular edges i b e he hcirc
          obtain ⟨m, d, j⟩ := processTypes_spec rt stop rest _ edges' h
          have hspec := isCircular_spec edges rt e.tgt stop b hres
          refine ⟨hm1.trans m, ?_, ?_⟩
          · intro k hk
            rcases List.mem_cons.1 hk with rfl | hk
            · cases b with
              | false =>
                have hd0 : Done edges rt stop k := by
                  intro e2 he2 _ _ _ hr
                  rw [he] at he2; cases he2
                  have := hspec.2 hr
                  cases this
                exact hd0.mono (hm1.trans m)
              | true =>
                intro e' he' _ _ hc'
                -- the flag was set and flags never go back
                have h1 : (setCircular edges k true)[k]? = some { e with circular := true } := by
                  unfold Xs.Codegen.Refs.setCircular
                  rw [List.getElem?_modify_eq, he]; rfl
                obtain ⟨e1, he1, _, _, _, c1⟩ := m k e' he'
                rw [h1] at he1; cases he1
                rw [c1 rfl] at hc'; cases hc'
            · exact d k hk
          · rintro k ⟨e0, e', he0, he', hc0, hc'⟩
            by_cases hki : k = i
            · subst hki
              rw [he] at he0; cases he0
              refine ⟨by simp, e, he, ?_⟩
              cases b with
              | true => exact hspec.1 rfl
              | false =>
                exfalso
                -- then a later step flagged it (the object may be listed twice): the recursive
                -- statement on the intermediate table applies
                have h1 : (setCircular edges k false)[k]? = some { e with circular := false } := by
                  unfold Xs.Codegen.Refs.setCircular
                  rw [List.getElem?_modify_eq, he]; rfl
                obtain ⟨hin, e1, he1, hr⟩ := j k ⟨_, e', h1, he', rfl, hc'⟩
                rw [h1] at he1; cases he1
                have := hspec.2 (CReach.anti hm1 hr)
                cases this
            · have h1 : (setCircular edges i b)[k]? = edges[k]? := by
                unfold Xs.Codegen.Refs.setCircular
                exact List.getElem?_modify_ne _ _ (fun h => hki h.symm)
              obtain ⟨hin, e1, he1, hr⟩ := j k ⟨e0, e', by rw [h1]; exact he0, he', hc0, hc'⟩
              rw [h1, he0] at he1; cases he1
              exact ⟨List.mem_cons_of_mem _ hin, e0, he0, CReach.anti hm1 hr⟩
        | keyError => simp [hres] at h
        | fuel => simp [hres] at h
      · simp only [helig] at h
        obtain ⟨m, d, j⟩ := processTypes_spec rt stop rest edges edges' h
        refine ⟨m, ?_, ?_⟩
        · intro k hk
          rcases List.mem_cons.1 hk with rfl | hk
          · intro e' he' hf hn hc
            obtain ⟨e0, he0, _, f, n, c⟩ := m _ e' he'
            rw [he] at he0; cases he0
            exfalso
            apply helig
            simp only [Bool.and_eq_true, Bool.not_eq_true']
            refine ⟨⟨f.trans hf, n.trans hn⟩, ?_⟩
            cases hce : e.circular with
            | false => rfl
            | true => rw [c hce] at hc; cases hc
          · exact d k hk
        · intro k hk
          obtain ⟨h1, h2⟩ := j k hk
          exact ⟨List.mem_cons_of_mem _ h1, h2⟩

theorem detectCircular_spec (rt : RefTypes) : ∀ (cs : List CClass) (edges final : List TEdge),
    detectCircular rt edges cs = some final →
      Mono edges final ∧ (∀ c ∈ cs, ∀ i ∈ c.own, Done final rt c.ref i) ∧
      (∀ i, (∃ e e', edges[i]? = some e ∧ final[i]? = some e' ∧ e.circular = false ∧ e'.circular = true) →
        ∃ c ∈ cs, i ∈ c.own ∧ ∃ e, edges[i]? = some e ∧ CReach edges rt e.tgt c.ref)
  | [], edges, final, h => by
    simp only [detectCircular, Option.some.injEq] at h
    subst h
    refine ⟨Mono.refl _, by simp, ?_⟩
    rintro i ⟨e, e', he, he', hc, hc'⟩
    rw [he] at he'; cases he'
    rw [hc] at hc'; cases hc'
  | c :: cs, edges, final, h => by
    rw [detectCircular] at h
    cases hp : processTypes rt c.ref edges c.own with
    | none => simp [hp] at h
    | some edges1 =>
      simp only [hp] at h
      obtain ⟨m1, d1, j1⟩ := processTypes_spec rt c.ref c.own edges edges1 hp
      obtain ⟨m2, d2, j2⟩ := detectCircular_spec rt cs edges1 final h
      refine ⟨m1.trans m2, ?_, ?_⟩
      · intro c' hc' i hi
        rcases List.mem_cons.1 hc' with rfl | hc'
        · exact (d1 i hi).mono m2
        · exact d2 c' hc' i hi
      · rintro i ⟨e, e', he, he', hc, hc'⟩
        -- where was the flag set: in this class or later?
        obtain ⟨e1, he1, t1, _, _, _⟩ := m2 i e' he'
        cases hc1 : e1.circular with
        | true =>
          obtain ⟨hin, e0, he0, hr⟩ := j1 i ⟨e, e1, he, he1, hc, hc1⟩
          exact ⟨c, by simp, hin, e0, he0, hr⟩
        | false =>
          obtain ⟨c', hc'm, hin, e2, he2, hr⟩ := j2 i ⟨e1, e', he1, he', hc1, hc'⟩
          rw [he1] at he2; cases he2
          obtain ⟨e0, he0, t0, _, _, _⟩ := m1 i e1 he1
          rw [he] at he0; cases he0
          exact ⟨c', List.mem_cons_of_mem _ hc'm, hin, e, he, t0 ▸ CReach.anti m1 hr⟩

/-! ### a second pass changes nothing -/

/-- every reference reachable from `start` has a cache entry -/
def Entries (edges : List TEdge) (rt : RefTypes) (start : Nat) : Prop :=
  ∀ x, CReach edges rt start x → (List.lookup x rt).isSome = true

theorem Entries.mono {edges edges' : List TEdge} {rt : RefTypes} {s : Nat} (h : Entries edges rt s)
    (hm : Mono edges edges') : Entries edges' rt s :=
  fun x hx => h x (CReach.anti hm hx)

/-- a search that ends with `False` has looked up every reachable reference -/
theorem circLoop_false_entries (edges : List TEdge) (rt : RefTypes) (start stop : Nat) :
    ∀ (fuel : Nat) (path stack : List Nat),
      circLoop edges rt stop fuel path stack = .ok false →
      (∀ x ∈ path, ∀ y, CEdge edges rt x y → y ∈ path ∨ y ∈ stack) →
      (start ∈ path ∨ start ∈ stack) →
      (∀ x ∈ path, (List.lookup x rt).isSome = true) →
      Entries edges rt start
  | 0, _, _, h, _, _, _ => by simp [circLoop] at h
  | fuel + 1, path, [], _, h2, h3, hp => by
    have hstart : start ∈ path := by
      rcases h3 with h | h
      · exact h
      · cases h
    intro x hx
    have hclosed : ∀ x, CReach edges rt start x → x ∈ path := by
      intro x hx
      induction hx with
      | refl => exact hstart
      | step _ he ih =>
        rcases h2 _ ih _ he with h | h
        · exact h
        · cases h
    exact hp x (hclosed x hx)
  | fuel + 1, path, ref :: rest, h, h2, h3, hp => by
    rw [circLoop] at h
    by_cases hstop : path.contains stop = true
    · rw [if_pos hstop] at h; cases h
    · rw [if_neg hstop] at h
      cases hl : List.lookup ref rt with
      | none => simp [hl] at h
      | some ids =>
        simp only [hl] at h
        obtain ⟨path', hp'⟩ : ∃ p, p = (if path.contains ref then path else ref :: path) := ⟨_, rfl⟩
        rw [← hp'] at h
        have hsub : ∀ x, x ∈ path' ↔ x ∈ path ∨ x = ref := by
          intro x
          rw [hp']
          by_cases hc : path.contains ref = true
          · simp only [hc, if_true]
            constructor
            · exact Or.inl
            · rintro (h | rfl)
              · exact h
              · simpa using hc
          · simp only [hc]
            simp [or_comm]
        apply circLoop_false_entries edges rt start stop fuel path' _ h
        · intro x hx y hxy
          rcases (hsub x).1 hx with hx | rfl
          · rcases h2 x hx y hxy with hy | hy
            · exact Or.inl ((hsub y).2 (Or.inl hy))
            · rcases List.mem_cons.1 hy with rfl | hy
              · exact Or.inl ((hsub _).2 (Or.inr rfl))
              · exact Or.inr (List.mem_append.2 (Or.inr hy))
          · obtain ⟨ids', i, e, hl', hi, he, hc, rfl⟩ := hxy
            rw [hl] at hl'
            cases hl'
            by_cases hin : path'.contains e.tgt = true
            · exact Or.inl (by simpa using hin)
            · refine Or.inr (List.mem_append.2 (Or.inl (List.mem_reverse.2 ?_)))
              exact mem_pushed.2 ⟨i, e, hi, he, hc, by simpa using hin, rfl⟩
        · rcases h3 with h | h
          · exact Or.inl ((hsub start).2 (Or.inl h))
          · rcases List.mem_cons.1 h with rfl | h
            · exact Or.inl ((hsub _).2 (Or.inr rfl))
            · exact Or.inr (List.mem_append.2 (Or.inr h))
        · intro x hx
          rcases (hsub x).1 hx with hx | rfl
          · exact hp x hx
          · simp [hl]

theorem isCircular_false_entries (edges : List TEdge) (rt : RefTypes) (start stop : Nat)
    (h : isCircular edges rt start stop = .ok false) : Entries edges rt start := by
  unfold isCircular at h
  apply circLoop_false_entries edges rt start stop _ [] [start] h
  · intro x hx; cases hx
  · exact Or.inr (by simp)
  · intro x hx; cases hx

/-- with a cache entry for every reachable reference the search raises no KeyError -/
theorem circLoop_no_keyError (edges : List TEdge) (rt : RefTypes) (start stop : Nat)
    (hent : Entries edges rt start) :
    ∀ (fuel : Nat) (path stack : List Nat), (∀ x ∈ stack, CReach edges rt start x) →
      circLoop edges rt stop fuel path stack ≠ .keyError
  | 0, _, _, _ => by simp [circLoop]
  | fuel + 1, path, [], _ => by simp [circLoop]
  | fuel + 1, path, ref :: rest, h1 => by
    rw [circLoop]
    by_cases hstop : path.contains stop = true
    · rw [if_pos hstop]; simp
    · rw [if_neg hstop]
      have href := h1 ref (by simp)
      cases hl : List.lookup ref rt with
      | none => have := hent ref href; simp [hl] at this
      | some ids =>
        simp only []
        apply circLoop_no_keyError edges rt start stop hent fuel
        intro x hx
        rcases List.mem_append.1 hx with hx | hx
        · obtain ⟨i, e, hi, he, hc, _, rfl⟩ := mem_pushed.1 (List.mem_reverse.1 hx)
          exact CReach.step href ⟨ids, i, e, hl, hi, he, hc, rfl⟩
        · exact h1 x (List.mem_cons_of_mem _ hx)

theorem isCircular_ok_of_entries (edges : List TEdge) (rt : RefTypes) (start stop : Nat)
    (hent : Entries edges rt start) : ∃ b, isCircular edges rt start stop = .ok b := by
  cases h : isCircular edges rt start stop with
  | ok b => exact ⟨b, rfl⟩
  | fuel => exact absurd h (isCircular_no_fuel edges rt start stop)
  | keyError =>
    exfalso
    unfold isCircular at h
    exact circLoop_no_keyError edges rt start stop hent _ [] [start]
      (by intro x hx; simp at hx; subst hx; exact CReach.refl _) h

/-- what a later pass needs to know about the type object `i`: if it is still a plain dependency,
every reference reachable from its target has a cache entry -/
def Explored (edges : List TEdge) (rt : RefTypes) (i : Nat) : Prop :=
  ∀ e : TEdge, edges[i]? = some e → e.forward = false → e.native = false → e.circular = false →
    Entries edges rt e.tgt

theorem Explored.mono {edges edges' : List TEdge} {rt : RefTypes} {i : Nat} (hd : Explored edges rt i)
    (hm : Mono edges edges') : Explored edges' rt i := by
  intro e' he' hf hn hc
  obtain ⟨e, he, t, f, n, cc⟩ := hm i e' he'
  have hce : e.circular = false := by
    cases hce : e.circular with
    | false => rfl
    | true => rw [cc hce] at hc; cases hc
  exact t ▸ (hd e he (f.trans hf) (n.trans hn) hce).mono hm

theorem processTypes_explored (rt : RefTypes) (stop : Nat) : ∀ (ids : List Nat) (edges edges' : List TEdge),
    processTypes rt stop edges ids = some edges' → ∀ i ∈ ids, Explored edges' rt i
  | [], _, _, _ => by simp
  | i :: rest, edges, edges', h => by
    have hspec := processTypes_spec rt stop (i :: rest) edges edges' h
    rw [processTypes] at h
    intro k hk
    cases he : edges[i]? with
    | none =>
      simp only [he] at h
      rcases List.mem_cons.1 hk with rfl | hk
      · intro e' he' _ _ _
        obtain ⟨e, he0, _⟩ := hspec.1 _ e' he'
        rw [he] at he0; cases he0
      · exact processTypes_explored rt stop rest edges edges' h k hk
    | some e =>
      simp only [he] at h
      by_cases helig : (!e.forward && !e.native && !e.circular) = true
      · simp only [helig, if_true] at h
        cases hres : isCircular edges rt e.tgt stop with
        | ok b =>
          simp only [hres] at h
          have hcirc : e.circular = false := by
            simp only [Bool.and_eq_true, Bool.not_eq_true'] at helig
            exact helig.2
          have hm1 := Mono.setCircular edges i b e he hcirc
          have hm2 := (processTypes_spec rt stop rest _ edges' h).1
          rcases List.mem_cons.1 hk with rfl | hk
          · cases b with
            | false =>
              have hexp : Explored edges rt k := by
                intro e2 he2 _ _ _
                rw [he] at he2; cases he2
                exact isCircular_false_entries edges rt e.tgt stop hres
              exact hexp.mono (hm1.trans hm2)
            | true =>
              intro e' he' _ _ hc'
              have h1 : (setCircular edges k true)[k]? = some { e with circular := true } := by
                unfold Xs.Codegen.Refs.setCircular
                rw [List.getElem?_modify_eq, he]; rfl
              obtain ⟨e1, he1, _, _, _, c1⟩ := hm2 k e' he'
              rw [h1] at he1; cases he1
              rw [c1 rfl] at hc'; cases hc'
          · exact processTypes_explored rt stop rest _ edges' h k hk
        | keyError => simp [hres] at h
        | fuel => simp [hres] at h
      · simp only [helig] at h
        rcases List.mem_cons.1 hk with rfl | hk
        · intro e' he' hf hn hc
          obtain ⟨e0, he0, _, f, n, c⟩ := hspec.1 _ e' he'
          rw [he] at he0; cases he0
          exfalso
          apply helig
          simp only [Bool.and_eq_true, Bool.not_eq_true']
          refine ⟨⟨f.trans hf, n.trans hn⟩, ?_⟩
          cases hce : e.circular with
          | false => rfl
          | true => rw [c hce] at hc; cases hc
        · exact processTypes_explored rt stop rest edges edges' h k hk

theorem detectCircular_explored (rt : RefTypes) : ∀ (cs : List CClass) (edges final : List TEdge),
    detectCircular rt edges cs = some final → ∀ c ∈ cs, ∀ i ∈ c.own, Explored final rt i
  | [], _, _, _ => by simp
  | c :: cs, edges, final, h => by
    rw [detectCircular] at h
    cases hp : processTypes rt c.ref edges c.own with
    | none => simp [hp] at h
    | some edges1 =>
      simp only [hp] at h
      have hm2 := (detectCircular_spec rt cs edges1 final h).1
      intro c' hc' i hi
      rcases List.mem_cons.1 hc' with rfl | hc'
      · exact (processTypes_explored rt _ _ edges edges1 hp i hi).mono hm2
      · exact detectCircular_explored rt cs edges1 final h c' hc' i hi

theorem setCircular_same (edges : List TEdge) (i : Nat) (e : TEdge) (he : edges[i]? = some e) :
    setCircular edges i e.circular = edges := by
  apply List.ext_getElem?
  intro j
  unfold Xs.Codegen.Refs.setCircular
  by_cases hij : i = j
  · subst hij
    rw [List.getElem?_modify_eq, he]
    rfl
  · rw [List.getElem?_modify_ne _ _ hij]

theorem processTypes_stable (rt : RefTypes) (stop : Nat) (final : List TEdge) : ∀ (ids : List Nat),
    (∀ i ∈ ids, Done final rt stop i ∧ Explored final rt i) → processTypes rt stop final ids = some final
  | [], _ => rfl
  | i :: rest, h => by
    have ih := processTypes_stable rt stop final rest (fun k hk => h k (List.mem_cons_of_mem _ hk))
    rw [processTypes]
    cases he : final[i]? with
    | none => simpa [he] using ih
    | some e =>
      simp only [he]
      by_cases helig : (!e.forward && !e.native && !e.circular) = true
      · simp only [helig, if_true]
        simp only [Bool.and_eq_true, Bool.not_eq_true'] at helig
        obtain ⟨hd, hx⟩ := h i (by simp)
        obtain ⟨b, hb⟩ := isCircular_ok_of_entries final rt e.tgt stop (hx e he helig.1.1 helig.1.2 helig.2)
        have hbf : b = false := by
          cases b with
          | false => rfl
          | true =>
            exact absurd ((isCircular_spec final rt e.tgt stop true hb).1 rfl)
              (hd e he helig.1.1 helig.1.2 helig.2)
        subst hbf
        simp only [hb]
        have := setCircular_same final i e he
        rw [helig.2] at this
        rw [this]
        exact ih
      · simp only [helig]
        exact ih

/-- **a second pass with the same cache changes nothing and raises nothing** -/
theorem detectCircular_idempotent (rt : RefTypes) (cs : List CClass) (edges final : List TEdge)
    (h : detectCircular rt edges cs = some final) : detectCircular rt final cs = some final := by
  obtain ⟨_, d, _⟩ := detectCircular_spec rt cs edges final h
  have x := detectCircular_explored rt cs edges final h
  have key : ∀ (l : List CClass), (∀ c ∈ l, c ∈ cs) → detectCircular rt final l = some final := by
    intro l
    induction l with
    | nil => intro _; rfl
    | cons c l ih =>
      intro hl
      rw [detectCircular, processTypes_stable rt c.ref final c.own
        (fun i hi => ⟨d c (hl c (by simp)) i hi, x c (hl c (by simp)) i hi⟩)]
      exact ih (fun c' hc' => hl c' (List.mem_cons_of_mem _ hc'))
  exact key cs (fun _ h => h)

/-! ### the remaining plain references form an acyclic graph -/

/-- `x` still has a plain (unflagged, non-forward, non-native) attr or choice type pointing to `y` -/
def PlainEdge (final : List TEdge) (cs : List CClass) (x y : Nat) : Prop :=
  ∃ c ∈ cs, c.ref = x ∧ ∃ i ∈ c.own, ∃ e : TEdge, final[i]? = some e ∧ e.forward = false ∧
    e.native = false ∧ e.circular = false ∧ e.tgt = y

inductive PlainReach (final : List TEdge) (cs : List CClass) : Nat → Nat → Prop
  | refl (x : Nat) : PlainReach final cs x x
  | step {x y z : Nat} : PlainReach final cs x y → PlainEdge final cs y z → PlainReach final cs x z

/-- the cache lists every own type of every processed class under that class (what
`build_reference_types` does for types with a reference) -/
def OwnCached (rt : RefTypes) (cs : List CClass) : Prop :=
  ∀ c ∈ cs, ∃ ids, List.lookup c.ref rt = some ids ∧ ∀ i ∈ c.own, i ∈ ids

theorem PlainReach.toC {final : List TEdge} {rt : RefTypes} {cs : List CClass} (hown : OwnCached rt cs)
    {x y : Nat} (h : PlainReach final cs x y) : CReach final rt x y := by
  induction h with
  | refl => exact CReach.refl _
  | step _ he ih =>
    obtain ⟨c, hc, rfl, i, hi, e, hfe, _, _, hcirc, rfl⟩ := he
    obtain ⟨ids, hl, hsub⟩ := hown c hc
    exact CReach.step ih ⟨ids, i, e, hl, hsub i hi, hfe, hcirc, rfl⟩

theorem plain_acyclic (rt : RefTypes) (cs : List CClass) (edges final : List TEdge)
    (h : detectCircular rt edges cs = some final) (hown : OwnCached rt cs) (x y : Nat)
    (hxy : PlainEdge final cs x y) : ¬ PlainReach final cs y x := by
  intro hr
  obtain ⟨c, hc, rfl, i, hi, e, hfe, hf, hn, hcirc, rfl⟩ := hxy
  obtain ⟨_, d, _⟩ := detectCircular_spec rt cs edges final h
  exact d c hc i hi e hfe hf hn hcirc (PlainReach.toC hown hr)

end Xs.Codegen.Refs
