/- C09 helper lemmas: the calls of the native handler on the events of a document assemble to the
document's element tree, every element carrying a prefix map that looks up like its in-scope
namespaces. -/
import XsdataModel.Backends.Infoset
import XsdataModel.Proofs.C08Handler
import XsdataModel.Proofs.C09NsRel

namespace Xs.Backends
open Py Xs.Bind Proofs.C09

mutual
/-- the tree the calls of `pump` spell out: the map of an element is `merge_parent_namespaces` of the
map passed for its parent and its own declarations -/
def pumpedTree (stack : List NsMap) : XTree → Tree
  | .node d q a _ t kids tl =>
    .node q a (mergeParent stack (declMap d [])) t (pumpedKids (mergeParent stack (declMap d []) :: stack) kids) tl
def pumpedKids (stack : List NsMap) : List XTree → List Tree
  | [] => []
  | k :: ks => pumpedTree stack k :: pumpedKids stack ks
end

def isRegister : PEv → Bool
  | .registerNs _ _ => true
  | _ => false

/-- what `assembleGo` does with a finished element -/
def deliver (el : Tree) (opens : List Open) (rest : List PEv) : Option Tree :=
  match opens with
  | [] => if rest.all (fun ev => match ev with | .registerNs _ _ => true | _ => false) then some el else none
  | p :: ps => assembleGo ({ p with kids := el :: p.kids } :: ps) rest

theorem assembleGo_registers (opens : List Open) (d : List (Str × Str)) (rest : List PEv) :
    assembleGo opens (d.map (fun pu => PEv.registerNs (orNone pu.1) pu.2) ++ rest) = assembleGo opens rest := by
  induction d with
  | nil => rfl
  | cons x xs ih => simp only [List.map_cons, List.cons_append, assembleGo, ih]

/-- adding finished children to the element on top -/
def addKids (ks : List Tree) : List Open → List Open
  | [] => []
  | o :: os => { o with kids := ks.reverse ++ o.kids } :: os

mutual
theorem assemble_tree (t : XTree) (stack : List NsMap) (opens : List Open) (rest : List Tok) :
    assembleGo opens (pump stack [] (toks t ++ rest)) = deliver (pumpedTree stack t) opens (pump stack [] rest) := by
  match t with
  | .node d q a st tx kids tl =>
    simp only [toks, List.append_assoc, List.cons_append]
    rw [pump_decls, assembleGo_registers]
    simp only [pump, assembleGo]
    have ih := assemble_kids kids (mergeParent stack (declMap d []) :: stack)
      ⟨q, a, mergeParent stack (declMap d []), []⟩ opens (Tok.end q tx tl :: rest)
    simp only [List.nil_append] at ih ⊢
    rw [ih]
    simp only [pump, assembleGo, pumpedTree, deliver, List.append_nil, List.reverse_reverse]
    cases opens <;> rfl
theorem assemble_kids (ks : List XTree) (stack : List NsMap) (o : Open) (opens : List Open) (rest : List Tok) :
    assembleGo (o :: opens) (pump stack [] (toksKids ks ++ rest)) =
      assembleGo ({ o with kids := (pumpedKids stack ks).reverse ++ o.kids } :: opens) (pump stack [] rest) := by
  match ks with
  | [] => simp [toksKids, pumpedKids]
  | k :: ks' =>
    simp only [toksKids, pumpedKids, List.append_assoc]
    rw [assemble_tree k stack (o :: opens) _]
    simp only [deliver]
    rw [assemble_kids ks' stack _ opens rest]
    simp only [List.reverse_cons, List.append_assoc, List.singleton_append]
end

theorem assemble_pump (t : XTree) : assemble (pump [] [] (toks t)) = some (pumpedTree [] t) := by
  have := assemble_tree t [] [] []
  simp only [List.append_nil] at this
  unfold assemble
  rw [this]
  simp [deliver, pump]

/-! ### the maps look up like the in-scope namespaces -/

theorem get_append (m m' : NsMap) (p : Option Str) :
    NsMap.get (m ++ m') p = match NsMap.get m p with | some u => some u | none => NsMap.get m' p := by
  unfold NsMap.get
  rw [List.find?_append]
  cases List.find? (fun x => decide (x.1 = p)) m <;> rfl

theorem get_declFrame (d : List (Str × Str)) (p : Option Str) :
    NsMap.get (d.reverse.map (fun x => (orNone x.1, x.2))) p = declLast d p := by
  unfold NsMap.get declLast
  rw [List.find?_map]
  cases h : List.find? ((fun x => decide (x.1 = p)) ∘ fun x : Str × Str => (orNone x.1, x.2)) d.reverse with
  | none =>
    have : List.find? (fun x : Str × Str => decide (orNone x.1 = p)) d.reverse = none := h
    simp [this]
  | some x =>
    have : List.find? (fun x : Str × Str => decide (orNone x.1 = p)) d.reverse = some x := h
    simp [this]

theorem get_inScopeMap (frames : List (List (Str × Str))) (p : Option Str) :
    NsMap.get (inScopeMap frames) p = inScope frames p := by
  induction frames with
  | nil => rfl
  | cons d fs ih =>
    have : inScopeMap (d :: fs) = d.reverse.map (fun x => (orNone x.1, x.2)) ++ inScopeMap fs := by
      simp [inScopeMap]
    rw [this, get_append, get_declFrame, inScope_cons, ih]
    cases declLast d p <;> rfl

mutual
theorem nsRel_native_spec (e : BEnv) (t : XTree) (stack : List NsMap) (frames : List (List (Str × Str)))
    (hq : ∀ p, NsMap.get (topMap stack) p = inScope frames p) :
    nsRel e (pumpedTree stack t) (specTree frames t) = true := by
  match t with
  | .node d q a st tx kids tl =>
    have hm : ∀ p, NsMap.get (mergeParent stack (declMap d [])) p = NsMap.get (inScopeMap (d :: frames)) p := by
      intro p
      rw [get_mergeParent, get_inScopeMap, inScope_cons, hq]
    have hq' : ∀ p, NsMap.get (topMap (mergeParent stack (declMap d []) :: stack)) p = inScope (d :: frames) p := by
      intro p
      have := hm p
      rw [get_inScopeMap] at this
      simpa [topMap] using this
    have ih := nsRelL_native_spec e kids _ (d :: frames) hq'
    simp only [pumpedTree, specTree, nsRel, decide_true, Bool.true_and, ih, Bool.and_true, valuesStable,
      Bool.and_eq_true, List.all_eq_true]
    refine ⟨fun kv _ => strStable_of_get e _ _ hm kv.2, ?_⟩
    cases tx with
    | none => rfl
    | some s => exact strStable_of_get e _ _ hm s
theorem nsRelL_native_spec (e : BEnv) (ks : List XTree) (stack : List NsMap) (frames : List (List (Str × Str)))
    (hq : ∀ p, NsMap.get (topMap stack) p = inScope frames p) :
    nsRelL e (pumpedKids stack ks) (specKidsT frames ks) = true := by
  match ks with
  | [] => rfl
  | k :: ks' =>
    simp only [pumpedKids, specKidsT, nsRelL, nsRel_native_spec e k stack frames hq,
      nsRelL_native_spec e ks' stack frames hq, Bool.and_self]
end

end Xs.Backends
