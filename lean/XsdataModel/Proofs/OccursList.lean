/-
Helper lemmas for C02, part 3 (converse sanity): a field the generator makes a list really
needs to be one — some word of the content model contains the element twice.
-/
import XsdataModel.Proofs.OccursSound

namespace Xs.Gen
open Py

mutual
/-- every choice has an alternative (a choice without alternatives accepts nothing) -/
def live : Particle → Bool
  | .elem _ _ _ => true
  | .seq _ _ ps => liveList ps
  | .choice _ _ ps => !ps.isEmpty && liveList ps
def liveList : List Particle → Bool
  | [] => true
  | p :: ps => live p && liveList ps
end

/-- a repetition count: as small as allowed, but `2` where `2` is allowed -/
def repK (mn mx : Nat) : Nat := Nat.max mn (Nat.min mx 2)

theorem repOK_repK {mn mx : Nat} (h : mn ≤ mx) : repOK (repK mn mx) mn mx := by
  unfold repOK repK
  refine ⟨Nat.le_max_left _ _, Or.inr ?_⟩
  exact Nat.max_le.2 ⟨h, Nat.min_le_left _ _⟩

theorem repK_ge {mn mx : Nat} : Nat.min mx 2 ≤ repK mn mx := Nat.le_max_right _ _

mutual
/-- a word of the content model in which `n` occurs as often as twice, where possible -/
def fatFor (n : Str) : Particle → List Str
  | .elem name mn mx => List.replicate (repK mn mx) name
  | .seq mn mx ps => (List.replicate (repK mn mx) (fatSeq n ps)).flatten
  | .choice mn mx ps => (List.replicate (repK mn mx) (fatPick n ps)).flatten
def fatSeq (n : Str) : List Particle → List Str
  | [] => []
  | p :: ps => fatFor n p ++ fatSeq n ps
/-- the alternative that contains `n` (the last one that does); the first one if none does -/
def fatPick (n : Str) : List Particle → List Str
  | [] => []
  | p :: ps => if n ∈ namesList ps then fatPick n ps else fatFor n p
end

theorem count_replicate_flatten (n : Str) (x : List Str) : ∀ k : Nat,
    (List.replicate k x).flatten.count n = k * x.count n := by
  intro k
  induction k with
  | zero => simp
  | succ k ih =>
    rw [List.replicate_succ, List.flatten_cons, List.count_append, ih, Nat.succ_mul, Nat.add_comm]

mutual
theorem fat_matches (n : Str) : (p : Particle) → wf p = true → live p = true →
    Matches p (fatFor n p)
  | .elem name mn mx => by
    intro hwf _
    simp only [wf, decide_eq_true_eq] at hwf
    exact matches_elem.2 ⟨repK mn mx, repOK_repK hwf, rfl⟩
  | .seq mn mx ps => by
    intro hwf hl
    simp only [wf, Bool.and_eq_true, decide_eq_true_eq] at hwf
    simp only [live] at hl
    refine matches_seq.2 ⟨List.replicate (repK mn mx) (fatSeq n ps), ?_, ?_, rfl⟩
    · rw [List.length_replicate]; exact repOK_repK hwf.1
    · intro x hx
      rw [(List.mem_replicate.1 hx).2]
      exact (fat_matches_list n ps hwf.2 hl).1
  | .choice mn mx ps => by
    intro hwf hl
    simp only [wf, Bool.and_eq_true, decide_eq_true_eq] at hwf
    simp only [live, Bool.and_eq_true, Bool.not_eq_true', List.isEmpty_eq_false_iff] at hl
    refine matches_choice.2 ⟨List.replicate (repK mn mx) (fatPick n ps), ?_, ?_, rfl⟩
    · rw [List.length_replicate]; exact repOK_repK hwf.1
    · intro x hx
      rw [(List.mem_replicate.1 hx).2]
      exact (fat_matches_list n ps hwf.2 hl.2).2 hl.1
theorem fat_matches_list (n : Str) : (ps : List Particle) → wfList ps = true →
    liveList ps = true →
    SeqOnce ps (fatSeq n ps) ∧ (ps ≠ [] → ChoiceOnce ps (fatPick n ps))
  | [] => by
    intro _ _
    exact ⟨seqOnce_nil.2 (by simp [fatSeq]), fun h => absurd rfl h⟩
  | p :: ps => by
    intro hwf hl
    simp only [wfList, Bool.and_eq_true] at hwf
    simp only [liveList, Bool.and_eq_true] at hl
    have hp := fat_matches n p hwf.1 hl.1
    have hps := fat_matches_list n ps hwf.2 hl.2
    refine ⟨seqOnce_cons.2 ⟨_, _, hp, hps.1, by simp [fatSeq]⟩, ?_⟩
    intro _
    simp only [fatPick]
    split
    · rename_i hc
      have hne : ps ≠ [] := by
        intro h; subst h; simp [namesList] at hc
      exact choiceOnce_cons.2 (Or.inr (hps.2 hne))
    · exact choiceOnce_cons.2 (Or.inl hp)
end

/-- the repetition step of the lower bound -/
theorem fat_rep {mn mx sm c : Nat} {q : List PathE} (e : PathE) (he : e.max = mx)
    (hc : 1 ≤ sm * pathMaxProd q → Nat.min 2 (sm * pathMaxProd q) ≤ c)
    (hpos : 1 ≤ sm * pathMaxProd (e :: q)) :
    Nat.min 2 (sm * pathMaxProd (e :: q)) ≤ repK mn mx * c := by
  have hcomm : sm * pathMaxProd (e :: q) = mx * (sm * pathMaxProd q) := by
    simp only [pathMaxProd, he]; exact Nat.mul_left_comm _ _ _
  rw [hcomm] at hpos ⊢
  generalize sm * pathMaxProd q = X at hc hpos
  obtain ⟨hmx, hX⟩ := one_le_mul hpos
  have hc := hc hX
  have hK : Nat.min mx 2 ≤ repK mn mx := repK_ge
  have hc1 : 1 ≤ c := Nat.le_trans (Nat.le_min.2 ⟨by omega, hX⟩) hc
  by_cases h2 : 2 ≤ mx
  · have hK2 : 2 ≤ repK mn mx := Nat.le_trans (Nat.le_min.2 ⟨h2, Nat.le_refl 2⟩) hK
    have : 2 * 1 ≤ repK mn mx * c := Nat.mul_le_mul hK2 hc1
    exact Nat.le_trans (Nat.min_le_left _ _) (by omega)
  · have hmx1 : mx = 1 := by omega
    subst hmx1
    have hK1 : 1 ≤ repK mn 1 := Nat.le_trans (Nat.le_min.2 ⟨Nat.le_refl 1, by omega⟩) hK
    have : 1 * c ≤ repK mn 1 * c := Nat.mul_le_mul hK1 (Nat.le_refl c)
    rw [Nat.one_mul] at this ⊢
    exact Nat.le_trans hc this

mutual
theorem fat_count : (p : Particle) → ∀ (path : List PathE) (next : Nat) (s : Site),
    s ∈ (sitesAux p path next).1 →
    ∃ q, s.path = path ++ q ∧
      ((names p).Nodup → 1 ≤ s.max * pathMaxProd q →
        Nat.min 2 (s.max * pathMaxProd q) ≤ (fatFor s.name p).count s.name)
  | .elem name mn mx => by
    intro path next s hs
    simp only [sitesAux, List.mem_singleton] at hs
    subst hs
    refine ⟨[], by simp, ?_⟩
    intro _ _
    simp only [pathMaxProd, Nat.mul_one, fatFor]
    rw [List.count_replicate]
    simp only [BEq.rfl, if_true]
    have : Nat.min mx 2 ≤ repK mn mx := repK_ge
    show min 2 mx ≤ repK mn mx
    rw [Nat.min_comm]; exact this
  | .seq mn mx ps => by
    intro path next s hs
    simp only [sitesAux] at hs
    obtain ⟨q, hq, hcount⟩ := fat_countList ps _ _ s hs
    refine ⟨⟨.s, next, mn, mx⟩ :: q, by rw [hq]; simp, ?_⟩
    intro hnd hpos
    simp only [names] at hnd
    simp only [fatFor]
    rw [count_replicate_flatten]
    exact fat_rep ⟨.s, next, mn, mx⟩ rfl (fun hX => (hcount hnd hX).1) hpos
  | .choice mn mx ps => by
    intro path next s hs
    simp only [sitesAux] at hs
    obtain ⟨q, hq, hcount⟩ := fat_countList ps _ _ s hs
    refine ⟨⟨.c, next, mn, mx⟩ :: q, by rw [hq]; simp, ?_⟩
    intro hnd hpos
    simp only [names] at hnd
    simp only [fatFor]
    rw [count_replicate_flatten]
    exact fat_rep ⟨.c, next, mn, mx⟩ rfl (fun hX => (hcount hnd hX).2) hpos
theorem fat_countList : (ps : List Particle) → ∀ (path : List PathE) (next : Nat) (s : Site),
    s ∈ (sitesList ps path next).1 →
    ∃ q, s.path = path ++ q ∧
      ((namesList ps).Nodup → 1 ≤ s.max * pathMaxProd q →
        Nat.min 2 (s.max * pathMaxProd q) ≤ (fatSeq s.name ps).count s.name ∧
        Nat.min 2 (s.max * pathMaxProd q) ≤ (fatPick s.name ps).count s.name)
  | [] => by
    intro path next s hs
    simp [sitesList] at hs
  | p :: ps => by
    intro path next s hs
    rw [sitesList_cons_fst, List.mem_append] at hs
    rcases hs with hs | hs
    · obtain ⟨q, hq, hcount⟩ := fat_count p _ _ s hs
      refine ⟨q, hq, ?_⟩
      intro hnd hpos
      simp only [namesList] at hnd
      have hmem : s.name ∈ names p := by
        rw [← sitesAux_names p path next]; exact List.mem_map.2 ⟨s, hs, rfl⟩
      have hnot := nodup_append_notMem_right hnd hmem
      have h1 := hcount (nodup_append_left hnd) hpos
      refine ⟨?_, ?_⟩
      · simp only [fatSeq]
        rw [List.count_append]; omega
      · simp only [fatPick]
        rw [if_neg hnot]
        exact h1
    · obtain ⟨q, hq, hcount⟩ := fat_countList ps _ _ s hs
      refine ⟨q, hq, ?_⟩
      intro hnd hpos
      simp only [namesList] at hnd
      have hmem : s.name ∈ namesList ps := by
        rw [← sitesList_names ps path (sitesAux p path next).2]; exact List.mem_map.2 ⟨s, hs, rfl⟩
      obtain ⟨h1, h2⟩ := hcount (nodup_append_right hnd) hpos
      refine ⟨?_, ?_⟩
      · simp only [fatSeq]
        rw [List.count_append]; omega
      · simp only [fatPick]
        rw [if_pos hmem]
        exact h2
end

theorem list_needed_core (p : Particle) (hd : (names p).Nodup) (hwf : wf p = true)
    (hlive : live p = true) (s : Site)
    (hs : s ∈ occurs (sites p)) (hl : s.isList = true) : ∃ w, Matches p w ∧ 2 ≤ w.count s.name := by
  obtain ⟨s', hs', hname, hmax, _⟩ := mem_occurs_sites hd hs
  obtain ⟨q, hq, hcount⟩ := fat_count p [] 1 s' hs'
  rw [List.nil_append] at hq
  subst hq
  have hgt : 2 ≤ s.max := by
    simp only [Site.isList, decide_eq_true_eq] at hl; omega
  rw [hmax] at hgt
  have h1 := hcount hd (by omega)
  refine ⟨fatFor s'.name p, fat_matches _ p hwf hlive, ?_⟩
  rw [hname]
  exact Nat.le_trans (Nat.le_min.2 ⟨Nat.le_refl 2, hgt⟩) h1

end Xs.Gen
