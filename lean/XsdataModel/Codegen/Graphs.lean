/-
`xsdata/utils/graphs.py : strongly_connected_components` — the path-based
(Gabow / mypy) algorithm, transcribed statement by statement.

`edges` is the dict (association list, insertion order), `vorder` is the
iteration order of `set(edges)`; the order of every `edges[v]` list is part of
`edges` (the caller builds it with `list(set(deps))`).
-/
import XsdataModel.Codegen.Basic

namespace Xs.Codegen
open Py

abbrev Graph := List (Str × List Str)

/-- the mutable locals of `strongly_connected_components` -/
structure Scc where
  /-- `identified` -/
  identified : List Str := []
  /-- `stack`, bottom first -/
  stack : List Str := []
  /-- `index` -/
  index : List (Str × Nat) := []
  /-- `boundaries`, **top first** (`boundaries[-1]` is the head) -/
  boundaries : List Nat := []
  /-- components yielded so far, in yield order; each in stack order -/
  out : List (List Str) := []
  /-- an exception was raised (`KeyError` at `edges[v]`; `IndexError` on an empty `boundaries`) -/
  err : Bool := false

/-- `while index[w] < boundaries[-1]: boundaries.pop()`; `none` = `IndexError` -/
def popWhile (iw : Nat) : List Nat → Option (List Nat)
  | b :: bs => if iw < b then popWhile iw bs else some (b :: bs)
  | [] => none

/-- the tail of `dfs(v)` after the `for w in edges[v]` loop -/
def sccClose (i : Nat) (st : Scc) : Scc :=
  match st.boundaries with
  | b :: bs =>
    if b = i then
      let scc := st.stack.drop i
      { st with boundaries := bs, stack := st.stack.take i,
                identified := scc ++ st.identified, out := st.out ++ [scc] }
    else st
  | [] => { st with err := true }

/-- `index[v] = len(stack); stack.append(v); boundaries.append(index[v])` -/
def sccPush (v : Str) (st : Scc) : Scc :=
  { st with index := (v, st.stack.length) :: st.index, stack := st.stack ++ [v],
            boundaries := st.stack.length :: st.boundaries }

/-- one iteration of `for w in edges[v]`; `rec` is the recursive `dfs` -/
def sccStep (rec : Str → Scc → Scc) (st : Scc) (w : Str) : Scc :=
  if st.err then st else
  match dget st.index w with
  | none => rec w st
  | some iw =>
    if st.identified.contains w then st else
    match popWhile iw st.boundaries with
    | some bs => { st with boundaries := bs }
    | none => { st with err := true }

/-- `dfs(v)`; the first argument bounds the recursion depth (every nested call
indexes a vertex that was not indexed before, so `|edges| + 2` is never reached). -/
def dfs : Nat → Graph → Str → Scc → Scc
  | 0, _, _, st => { st with err := true }
  | fuel + 1, g, v, st =>
    let i := st.stack.length
    let st := sccPush v st
    match dget g v with
    | none => { st with err := true }
    | some ws =>
      let st := ws.foldl (sccStep (dfs fuel g)) st
      if st.err then st else sccClose i st

/-- one iteration of `for vertex in set(edges): if vertex not in index: dfs(vertex)` -/
def sccRoot (g : Graph) (st : Scc) (v : Str) : Scc :=
  if st.err then st else
  if dhas st.index v then st else dfs (g.length + 2) g v st

/-- the whole function -/
def sccRun (g : Graph) (vorder : List Str) : Scc := vorder.foldl (sccRoot g) {}

/-- `list(strongly_connected_components(edges))`; `none` = an exception escaped -/
def stronglyConnectedComponents (g : Graph) (vorder : List Str) : Option (List (List Str)) :=
  let st := sccRun g vorder
  if st.err then none else some st.out

end Xs.Codegen
