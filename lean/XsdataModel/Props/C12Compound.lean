/- C12, compound field names (`CreateCompoundFields.choose_name`).  Property theorems (only). -/
import XsdataModel.Codegen.CompoundName
import XsdataModel.Proofs.ToposortPerm

namespace Props.C12
open Py Xs.Codegen List

/-- The joined name reads the parts **in the order they are handed in**: two orders of
the same groups give different field names.  So the parts must come from the document
(a list), never from a set — whose order would change with the hash seed. -/
theorem choose_name_order_sensitive :
    chooseName {} [['a'], ['b']] [] [] ≠ chooseName {} [['b'], ['a']] [] [] := by decide

/-- what the name is in the regular case: the distinct parts, first occurrence first,
joined by `_Or_` (nothing reserved, not forced, not too many parts) -/
theorem choose_name_document_order (cfg : CompoundCfg) (names substitutions : List Str)
    (hf : cfg.forceDefaultName = false)
    (hm : (nameParts cfg names substitutions).length ≤ cfg.maxNameParts) :
    chooseName cfg names substitutions [] = joinOr (nameParts cfg names substitutions) := by
  unfold chooseName
  have : ¬ (nameParts cfg names substitutions).length > cfg.maxNameParts := by omega
  simp [hf, this, uniqueName]

example : chooseName { useSubstitutionGroups := true } [['x'], ['y'], ['z']]
    [['v', 'e', 'h'], ['b', 'l', 'd'], ['v', 'e', 'h']] []
    = ['v', 'e', 'h', '_', 'O', 'r', '_', 'b', 'l', 'd'] := by decide

theorem dedup_length_perm {l l' : List Str} (hp : l ~ l') : (dedup l).length = (dedup l').length :=
  ((List.perm_ext_iff_of_nodup (nodup_dedup l) (nodup_dedup l')).2
    (fun x => by rw [mem_dedup, mem_dedup]; exact hp.mem_iff)).length_eq

/-- When the default name is used (forced, or more parts than `max_name_parts`) the name
does not depend on the order of the parts at all. -/
theorem choose_name_default_perm_invariant (cfg : CompoundCfg) {names names' : List Str}
    (reserved : List Str) (hp : names ~ names') (hu : cfg.useSubstitutionGroups = false)
    (hd : cfg.forceDefaultName = true ∨ (dedup names).length > cfg.maxNameParts) :
    chooseName cfg names [] reserved = chooseName cfg names' [] reserved := by
  unfold chooseName nameParts
  simp only [hu, Bool.false_and, Bool.false_eq_true, if_false]
  rw [← dedup_length_perm hp]
  rcases hd with h | h
  · simp [h]
  · simp [h]

example : (dedup [['a'], ['b'], ['c'], ['d']]).length > ({} : CompoundCfg).maxNameParts := by decide

end Props.C12
