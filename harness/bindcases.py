"""Shared correspondence plumbing of the binding-layer properties (C01, C08-C11, C15):
universe registry, document streams, real-code adapters, comparison helpers."""
import json
import random

import bindgen as G
import bindlib as B

_UNIS: dict[str, B.Universe] = {}
_GENERATED: set[str] = set()  # universes made by new_universe (random ones): the only ones drop_universes forgets


def uni_of(a) -> B.Universe:
    key = a.get("_uni")
    if key in _UNIS:
        return _UNIS[key]
    u = B.Universe(a["desc"])
    _UNIS[u.modname] = u
    a["_uni"] = u.modname
    return u


def drop_universes():
    """Forget the class universes built so far (called by the framework between correspondence ops and
    oracles).  XmlContext walks every live class (`object.__subclasses__()` recursively) when it builds its
    xsi index, so keeping thousands of generated dataclasses alive makes every later context slower
    (quadratic over a thorough run: C08's thorough tier went from 1630 s to 404 s with this).  `uni_of`
    re-creates a universe from its description when a later stage (search, replay) needs it again."""
    import gc

    for name in list(_GENERATED):
        u = _UNIS.pop(name, None)
        if u is not None:
            try:
                u.close()
            except Exception:  # noqa: BLE001, S110
                pass
    _GENERATED.clear()
    gc.collect()


def new_universe(rng, features=None):
    for _ in range(60):
        desc = G.gen_universe_desc(rng, features)
        if not G.single_parent_namespace(desc):
            continue
        try:
            u = B.Universe(desc)
            ctx = u.export_ctx()
        except Exception:  # noqa: BLE001  (a description the real builder rejects: not our subject here)
            continue
        _UNIS[u.modname] = u
        _GENERATED.add(u.modname)
        return u, desc, ctx
    raise RuntimeError("could not build a universe")


CONFIGS = [
    {},
    {"fail_on_unknown_properties": False},
    {"fail_on_unknown_attributes": True},
    {"fail_on_converter_warnings": True},
    {"fail_on_unknown_properties": False, "fail_on_unknown_attributes": True, "fail_on_converter_warnings": True},
]


def n_cases(tier, quick, thorough):
    return quick if tier == "quick" else thorough


# ------------------------------------------------------------------ bind.generate
def gen_generate(rng, tier):
    for _ in range(n_cases(tier, 60, 400)):
        u, desc, ctx = new_universe(rng)
        for _ in range(6):
            try:
                obj = G.gen_instance(rng, u, "Root")
            except Exception:  # noqa: BLE001
                continue
            yield {"ctx": ctx, "value": u.to_val(obj), "ignore_default_attributes": rng.random() < 0.3, "desc": desc, "_uni": u.modname}


def impl_generate(a):
    u = uni_of(a)
    return B.real_generate(u, a["value"], a.get("ignore_default_attributes", False))


def unsupported(o):
    return isinstance(o, dict) and "unsupported" in o


def cmp_skip_unsupported(mo, io, a):
    if unsupported(mo):
        return True
    return mo == io


# ------------------------------------------------------------------ bind.parse
def documents(rng, tier, n_uni, per_uni, mutate=True):
    """(universe, ctx, desc, tree) from real serialisation read back by lxml, plus faults"""
    for _ in range(n_uni):
        u, desc, ctx = new_universe(rng)
        for _ in range(per_uni):
            try:
                obj = G.gen_instance(rng, u, "Root")
                xml = G.real_serialize(u, obj, writer=rng.choice(["native", "lxml"]))
                tree = G.xml_tree(xml.encode())
            except Exception:  # noqa: BLE001
                continue
            yield u, ctx, desc, tree, "valid"
            if mutate:
                for _ in range(3):
                    kind, t2 = G.mutate_tree(rng, tree)
                    yield u, ctx, desc, t2, kind


def gen_parse(rng, tier):
    for u, ctx, desc, tree, kind in documents(rng, tier, n_cases(tier, 50, 350), 4):
        yield {"ctx": ctx, "tree": tree, "clazz": "Root", "config": rng.choice(CONFIGS), "desc": desc, "_uni": u.modname, "_kind": kind}


def impl_parse(a):
    return B.real_parse_tree(uni_of(a), a["clazz"], a["tree"], a["config"])


def cmp_parse(mo, io, a):
    if unsupported(mo):
        return True
    if "ok" in mo and "ok" in io:
        return mo == io
    return mo == io


def classify_parse(a, o):
    k = a.get("_kind", "?")
    r = "ok" if "ok" in o else o.get("err", "unsupported")
    return f"{k}:{r}"


# ------------------------------------------------------------------ end to end
def corpus_roundtrip(pattern="roundtrip-*.json"):
    """recorded `bind.roundtrip` inputs (corpus/C01/roundtrip-*.json): shapes the random generator meets rarely"""
    import glob
    import os

    root = os.path.join(os.path.dirname(os.path.dirname(os.path.abspath(__file__))), "corpus", "C01")
    for path in sorted(glob.glob(os.path.join(root, pattern))):
        a = json.load(open(path))
        a.pop("_why", None)
        u = B.Universe(a["desc"])
        _UNIS[u.modname] = u
        yield {**a, "ctx": u.export_ctx(), "_uni": u.modname}


def gen_roundtrip(rng, tier):
    yield from corpus_roundtrip()
    for _ in range(n_cases(tier, 50, 350)):
        u, desc, ctx = new_universe(rng)
        for _ in range(4):
            try:
                obj = G.gen_instance(rng, u, "Root")
            except Exception:  # noqa: BLE001
                continue
            yield {
                "ctx": ctx, "value": u.to_val(obj), "clazz": "Root", "config": {}, "desc": desc, "_uni": u.modname,
                "ignore_default_attributes": rng.random() < 0.3,
                "writer": rng.choice(["native", "lxml"]), "handler": rng.choice(["native", "lxml"]),
                "indent": None, "xml_declaration": rng.random() < 0.5,
            }


def impl_roundtrip(a):
    u = uni_of(a)
    obj = u.from_val(a["value"])
    try:
        xml = G.real_serialize(
            u, obj, writer=a["writer"], ignore_default_attributes=a["ignore_default_attributes"], indent=a["indent"],
            xml_declaration=a["xml_declaration"],
        )
    except Exception as e:  # noqa: BLE001
        return B.classify_exc(e)
    out = G.real_parse_bytes(u, a["clazz"], xml.encode(), handler=a["handler"], config=a["config"])
    if "ok" in out and a.get("_bindings"):
        out["ok"]["bindings"] = _bindings(xml)
    return out


def impl_roundtrip_scoped(a):
    """`impl_roundtrip` + the prefix bindings of the document (for `cmp_roundtrip`)"""
    return impl_roundtrip({**a, "_bindings": True})


def _bindings(xml):
    """prefix -> the namespaces it is bound to somewhere in the document"""
    from lxml import etree

    binds = {}
    try:
        for el in etree.fromstring(xml.encode()).iter():
            if isinstance(el.tag, str):
                for p, uri in el.nsmap.items():
                    binds.setdefault(p or "", set()).add(uri)
    except etree.XMLSyntaxError:
        return {}
    return {p: sorted(us) for p, us in sorted(binds.items())}


_Q, _NS = __import__("re").compile(r"^q(\d+):(.*)$", __import__("re").S), __import__("re").compile(r"^ns(\d+):(.*)$", __import__("re").S)


def _same_token(tm, ti, uris, binds):
    """`q<k>:local` of the model and `ns<j>:local` of the code denote the same name: the namespace the
    abstract writer binds to `q<k>` is one the document binds to `ns<j>`"""
    if tm == ti:
        return True
    mm, im = _Q.match(tm), _NS.match(ti)
    if not (mm and im and mm.group(2) == im.group(2)):
        return False
    k = int(mm.group(1))
    return k < len(uris) and uris[k] in binds.get("ns" + im.group(1), [])


def _same_generic_text(tm, ti, uris, binds):
    if tm == ti:
        return True
    if not (isinstance(tm, str) and isinstance(ti, str)):
        return False
    a, b = tm.split(" "), ti.split(" ")
    return len(a) == len(b) and all(_same_token(x, y, uris, binds) for x, y in zip(a, b))


def _same_attr_value(vm, vi, uris, binds):
    """a value of an `Attributes` map / of a generic element's attributes: `parse_any_attribute` turns
    `p:rest` into `{uri}rest` exactly when `p` is bound where the attribute stands.  The abstract writer
    binds `q0, q1, …`, the real ones `ns0, …` (and `xs`, `xsi` on demand): the two answers are the same
    rule applied to two prefix allocations when one side kept `p:rest`, the other resolved it, and `p`
    is bound to that namespace on the resolving side only"""
    if vm == vi:
        return True
    if not (isinstance(vm, str) and isinstance(vi, str)):
        return False

    def split(v):
        p, sep, rest = v.partition(":")
        return (p, rest) if sep and p and rest and not v.startswith("{") else None

    def clark(v):
        return (v[1:].split("}", 1)) if v.startswith("{") and "}" in v else None

    model_binds = {"q%d" % k: u for k, u in enumerate(uris)}
    pm, ci = split(vm), clark(vi)
    if pm and ci and pm[1] == ci[1]:   # the code resolved a prefix the model does not bind
        return pm[0] not in model_binds and ci[0] in binds.get(pm[0], [])
    cm, pi = clark(vm), split(vi)
    if cm and pi and cm[1] == pi[1]:   # the model resolved one of its own prefixes
        return model_binds.get(pi[0]) == cm[0] and pi[0] not in binds
    return False


def _same_attr_pairs(pm, pi, uris, binds):
    return (isinstance(pm, list) and isinstance(pi, list) and len(pm) == len(pi)
            and all(x[0] == y[0] and _same_attr_value(x[1], y[1], uris, binds) for x, y in zip(pm, pi)))


def _same_denoted(m, i, uris, binds, raw=False):
    """equality of two parsed values, strict everywhere but in the text and the attribute values of
    generic elements and in the values of `Attributes` maps (prefix names, see above)"""
    if isinstance(m, dict) and isinstance(i, dict):
        if m.keys() != i.keys():
            return False
        if set(m) == {"any"} and isinstance(m["any"], dict) and isinstance(i["any"], dict):
            am, ai = m["any"], i["any"]
            return (am.keys() == ai.keys() and all(am[k] == ai[k] for k in am if k not in ("text", "children", "attrs"))
                    and _same_generic_text(am["text"], ai["text"], uris, binds)
                    and _same_attr_pairs(am["attrs"], ai["attrs"], uris, binds)
                    and _same_denoted(am["children"], ai["children"], uris, binds, raw))
        if set(m) == {"attrs"}:
            return _same_attr_pairs(m["attrs"], i["attrs"], uris, binds)
        if raw and set(m) == {"str"}:
            # the raw text a converter could not convert (both sides warned): a QName-typed value that
            # is no valid `prefix:local` keeps the generated prefix in its text
            return _same_generic_text(m["str"], i["str"], uris, binds)
        return all(_same_denoted(m[k], i[k], uris, binds, raw) for k in m)
    if isinstance(m, list) and isinstance(i, list):
        return len(m) == len(i) and all(_same_denoted(x, y, uris, binds, raw) for x, y in zip(m, i))
    return m == i


def cmp_roundtrip(mo, io, a):
    """Exact comparison of the parsed objects, with one exception: the text of a *generic* element
    (AnyElement).  A QName-typed element that the parser reads back as generic content (it is captured by
    a wildcard) keeps its raw text `prefix:local`; the abstract writer of the model names its prefixes
    `q0, q1, …` (the driver reports the namespaces they stand for), the real writers `ns0, ns1, …` (prefix
    allocation is the writer layer, C03).  Such text is compared by the name it denotes: the namespace of
    the model's prefix must be one the real document binds to the code's prefix."""
    if unsupported(mo):
        return True
    if "ok" in mo and "ok" in io:
        m, i = dict(mo["ok"]), dict(io["ok"])
        uris, binds = m.pop("prefixes", []), i.pop("bindings", {})
        raw = bool(m.get("warnings")) and bool(i.get("warnings"))
        return m == i or _same_denoted(m, i, uris, binds, raw)
    return mo == io


def classify_rt(a, o):
    if "ok" in o:
        return "identity" if o["ok"]["value"] == a["value"] else "changed"
    return o.get("err", "?")


