/- JSON helpers for the line protocol (driver only; never imported by the model). -/
import Lean.Data.Json
import XsdataModel.Py.Basic
open Lean

namespace Proto

def jStr (s : Py.Str) : Json := Json.str (String.ofList s)
def jInt (i : Int) : Json := Json.num (JsonNumber.fromInt i)
def jNat (n : Nat) : Json := Json.num (JsonNumber.fromNat n)
def jBool (b : Bool) : Json := Json.bool b
def jOpt {α} (f : α → Json) : Option α → Json
  | none => Json.null
  | some a => f a
def jList {α} (f : α → Json) (xs : List α) : Json := Json.arr (xs.map f).toArray
def jObj (kvs : List (String × Json)) : Json := Json.mkObj kvs
def ok (j : Json) : Json := jObj [("ok", j)]
def err (k : String) : Json := jObj [("err", Json.str k)]

def getStr (j : Json) (k : String) : Except String Py.Str :=
  match j.getObjValD k with
  | .str s => .ok s.toList
  | _ => .error s!"missing string {k}"

def getInt (j : Json) (k : String) : Except String Int :=
  match (j.getObjValD k).getInt? with
  | .ok i => .ok i
  | .error _ => .error s!"missing int {k}"

def getNat (j : Json) (k : String) : Except String Nat :=
  match (j.getObjValD k).getNat? with
  | .ok i => .ok i
  | .error _ => .error s!"missing nat {k}"

def getBool (j : Json) (k : String) : Except String Bool :=
  match j.getObjValD k with
  | .bool b => .ok b
  | _ => .error s!"missing bool {k}"

def asInt (j : Json) : Except String Int :=
  match j.getInt? with
  | .ok i => .ok i
  | .error _ => .error "expected int"

def asOptInt (j : Json) : Except String (Option Int) :=
  match j with
  | .null => .ok none
  | _ => (asInt j).map some

def asStr (j : Json) : Except String Py.Str :=
  match j with
  | .str s => .ok s.toList
  | _ => .error "expected string"

def getArr (j : Json) (k : String) : Except String (List Json) :=
  match j.getObjValD k with
  | .arr a => .ok a.toList
  | _ => .error s!"missing array {k}"

def asArr (j : Json) : Except String (List Json) :=
  match j with
  | .arr a => .ok a.toList
  | _ => .error "expected array"

def getOptStr (j : Json) (k : String) : Except String (Option Py.Str) :=
  match j.getObjValD k with
  | .str s => .ok (some s.toList)
  | .null => .ok none
  | _ => .error s!"bad optional string {k}"

end Proto
