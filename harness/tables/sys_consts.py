"""interpreter constants"""
from extract_tables import extra


@extra
def _sys(w):
    import sys

    w("-- interpreter constants")
    w(f"def sysMaxsize : Nat := {sys.maxsize}")
    w("")
