/- Helper lemmas for C19: invariants of the interleaved semantics. -/
import XsdataModel.Ctx.Conc
import XsdataModel.Proofs.CtxInv

namespace Xs.Ctx
open Py

/-! ### basic facts about single steps -/

theorem afterLocal_isB (q : Str) (todo : List ClassId) (acc : Index) :
    (afterLocal q todo acc).isB = false := by
  cases todo <;> rfl

theorem afterLocal_isR (q : Str) (todo : List ClassId) (acc : Index) :
    (afterLocal q todo acc).isR = false := by
  cases todo <;> rfl

/-- a thread inside `find_types` stays outside `build`/`reset` and leaves the cache alone -/
theorem stepT_notBR (U : Universe) (w : World) (s : CState) (st : TState) (hb : st.isB = false)
    (hr : st.isR = false) :
    (stepT U w s st).2.isB = false ∧ (stepT U w s st).2.isR = false ∧
      (stepT U w s st).1.cache = s.cache := by
  cases st with
  | bCheck _ _ => simp [TState.isB] at hb
  | bWrite _ _ => simp [TState.isB] at hb
  | bRead _ => simp [TState.isB] at hb
  | rCache => simp [TState.isR] at hr
  | rXsi _ => simp [TState.isR] at hr
  | rStamp => simp [TState.isR] at hr
  | xCheck q =>
    simp only [stepT]
    split
    · exact ⟨rfl, rfl, rfl⟩
    · exact ⟨afterLocal_isB _ _ _, afterLocal_isR _ _ _, rfl⟩
  | xLocal q todo acc =>
    cases todo with
    | nil => exact ⟨rfl, rfl, rfl⟩
    | cons c rest => exact ⟨afterLocal_isB _ _ _, afterLocal_isR _ _ _, rfl⟩
  | xPublish q acc => exact ⟨rfl, rfl, rfl⟩
  | xStamp q => exact ⟨rfl, rfl, rfl⟩
  | xContains q d => simp only [stepT]; split <;> exact ⟨rfl, rfl, rfl⟩
  | xGet q d => simp only [stepT]; split <;> exact ⟨rfl, rfl, rfl⟩
  | done o => exact ⟨rfl, rfl, rfl⟩

/-- a thread outside the index code and outside `reset` stays there and leaves
the dict objects, the reference and the stamp alone -/
theorem stepT_notXR (U : Universe) (w : World) (s : CState) (st : TState) (hx : st.isX = false)
    (hr : st.isR = false) :
    (stepT U w s st).2.isX = false ∧ (stepT U w s st).2.isR = false ∧
      (stepT U w s st).1.heap = s.heap ∧ (stepT U w s st).1.ref = s.ref ∧
      (stepT U w s st).1.sysModules = s.sysModules := by
  cases st with
  | bCheck c p =>
    simp only [stepT]
    split
    · exact ⟨rfl, rfl, rfl, rfl, rfl⟩
    · split <;> exact ⟨rfl, rfl, rfl, rfl, rfl⟩
  | bWrite c m => exact ⟨rfl, rfl, rfl, rfl, rfl⟩
  | bRead c => simp only [stepT]; split <;> exact ⟨rfl, rfl, rfl, rfl, rfl⟩
  | xCheck _ => simp [TState.isX] at hx
  | xLocal _ _ _ => simp [TState.isX] at hx
  | xPublish _ _ => simp [TState.isX] at hx
  | xStamp _ => simp [TState.isX] at hx
  | xContains _ _ => simp [TState.isX] at hx
  | xGet _ _ => simp [TState.isX] at hx
  | rCache => simp [TState.isR] at hr
  | rXsi _ => simp [TState.isR] at hr
  | rStamp => simp [TState.isR] at hr
  | done o => exact ⟨rfl, rfl, rfl, rfl, rfl⟩

/-- outside `reset` the cache never loses a key -/
theorem stepT_cache_mono (U : Universe) (w : World) (s : CState) (st : TState) (hr : st.isR = false)
    (c : ClassId) (h : (s.cache.lookup c).isSome = true) :
    ((stepT U w s st).1.cache.lookup c).isSome = true := by
  by_cases hb : st.isB = false
  · rw [(stepT_notBR U w s st hb hr).2.2]; exact h
  · cases st with
    | bCheck c' p =>
      simp only [stepT]
      split
      · exact h
      · split <;> exact h
    | bWrite c' m =>
      simp only [stepT]
      by_cases hc : c = c'
      · subst hc; simp [lookup_dictSet_self]
      · rw [lookup_dictSet_ne _ _ _ _ hc]; exact h
    | bRead c' => simp only [stepT]; split <;> exact h
    | _ => simp [TState.isB] at hb

theorem cache_entry_eq_pure {U : Universe} {uses : List Use} {cache : List (ClassId × Meta)}
    (hI : ∀ c m, cache.lookup c = some m → ∃ p, (c, p) ∈ uses ∧ pureBuild U c p = .ok m)
    (hc : consistent U uses) {c : ClassId} {p : Option Str} (hu : (c, p) ∈ uses)
    {m : Meta} (hl : cache.lookup c = some m) : pureBuild U c p = .ok m := by
  obtain ⟨p0, hp0, hb⟩ := hI c m hl
  by_cases hs : nsSensitive U c = true
  · have := hc (c, p0) hp0 (c, p) hu rfl hs
    simp at this
    subst this
    exact hb
  · have hs' : nsSensitive U c = false := by simpa using hs
    rw [pureBuild_insensitive U c hs' p p0]
    exact hb

/-! ### the metadata cache under arbitrary interleavings -/

/-- what is known about a thread inside / after `build(c, p)` -/
def BuildOK (U : Universe) (s : CState) (c : ClassId) (p : Option Str) : TState → Prop
  | .bCheck c' p' => c' = c ∧ p' = p
  | .bWrite c' m => c' = c ∧ pureBuild U c p = .ok m
  | .bRead c' => c' = c ∧ (s.cache.lookup c).isSome = true
  | .done o => o = outMeta (pureBuild U c p)
  | _ => False

theorem BuildOK.notR {U : Universe} {s : CState} {c : ClassId} {p : Option Str} {st : TState}
    (h : BuildOK U s c p st) : st.isR = false := by
  cases st <;> first | rfl | cases h

def ThreadOK (U : Universe) (uses : List Use) (s : CState) (th : Thread) : Prop :=
  match th.prog with
  | .build c p => (c, p) ∈ uses ∧ BuildOK U s c p th.st
  | .findTypes _ => th.st.isB = false ∧ th.st.isR = false
  | .reset => False

structure SysInv (U : Universe) (uses : List Use) (sys : Sys) : Prop where
  cache : ∀ c m, sys.shared.cache.lookup c = some m → ∃ p, (c, p) ∈ uses ∧ pureBuild U c p = .ok m
  threads : ∀ th ∈ sys.threads, ThreadOK U uses sys.shared th

theorem mem_progUses : ∀ (progs : List Prog) (c : ClassId) (p : Option Str),
    Prog.build c p ∈ progs → (c, p) ∈ progUses progs
  | [], _, _, h => by cases h
  | .build c' p' :: rest, c, p, h => by
    simp only [progUses]
    cases List.mem_cons.mp h with
    | inl h => cases h; exact List.mem_cons_self
    | inr h => exact List.mem_cons_of_mem _ (mem_progUses rest c p h)
  | .findTypes _ :: rest, c, p, h => by
    simp only [progUses]
    cases List.mem_cons.mp h with
    | inl h => cases h
    | inr h => exact mem_progUses rest c p h
  | .reset :: rest, c, p, h => by
    simp only [progUses]
    cases List.mem_cons.mp h with
    | inl h => cases h
    | inr h => exact mem_progUses rest c p h

theorem start_isB (q : Str) : (Prog.findTypes q).start.isB = false := by
  simp only [Prog.start]; split <;> rfl

theorem start_isR (q : Str) : (Prog.findTypes q).start.isR = false := by
  simp only [Prog.start]; split <;> rfl

theorem SysInv.start (U : Universe) (progs : List Prog) (hnr : noReset progs) (s0 : State)
    (h0 : ∀ c m, s0.cache.lookup c = some m → ∃ p, (c, p) ∈ progUses progs ∧ pureBuild U c p = .ok m) :
    SysInv U (progUses progs) (Sys.start s0 progs) := by
  refine ⟨h0, ?_⟩
  intro th hth
  simp only [Sys.start, List.mem_map] at hth
  obtain ⟨pr, hpr, rfl⟩ := hth
  cases pr with
  | build c p => exact ⟨mem_progUses progs c p hpr, rfl, rfl⟩
  | findTypes q => exact ⟨start_isB q, start_isR q⟩
  | reset => exact absurd rfl (hnr _ hpr)

theorem BuildOK.mono {U : Universe} {s s' : CState} {c : ClassId} {p : Option Str} {st : TState}
    (h : BuildOK U s c p st)
    (hm : (s.cache.lookup c).isSome = true → (s'.cache.lookup c).isSome = true) :
    BuildOK U s' c p st := by
  cases st <;> simp only [BuildOK] at h ⊢ <;> try exact h
  exact ⟨h.1, hm h.2⟩

/-- the stepping thread: cache invariant and its own state -/
theorem stepT_build_inv {U : Universe} {uses : List Use} (hc : consistent U uses) (w : World)
    {s : CState} (hI : ∀ c m, s.cache.lookup c = some m → ∃ p, (c, p) ∈ uses ∧ pureBuild U c p = .ok m)
    {c : ClassId} {p : Option Str} (hu : (c, p) ∈ uses) {st : TState} (hst : BuildOK U s c p st) :
    (∀ c2 m2, (stepT U w s st).1.cache.lookup c2 = some m2 →
        ∃ p2, (c2, p2) ∈ uses ∧ pureBuild U c2 p2 = .ok m2) ∧
      BuildOK U (stepT U w s st).1 c p (stepT U w s st).2 := by
  cases st with
  | bCheck c' p' =>
    obtain ⟨rfl, rfl⟩ := hst
    simp only [stepT]
    cases hl : s.cache.lookup c' with
    | some m => exact ⟨hI, rfl, by simp [hl]⟩
    | none =>
      cases hb : pureBuild U c' p' with
      | ok m => exact ⟨hI, rfl, hb⟩
      | error e =>
        refine ⟨hI, ?_⟩
        simp only [BuildOK, hb]
        rfl
  | bWrite c' m =>
    obtain ⟨rfl, hb⟩ := hst
    simp only [stepT]
    refine ⟨?_, rfl, by simp [lookup_dictSet_self]⟩
    intro c2 m2 hl2
    by_cases hcc : c2 = c'
    · subst hcc
      rw [lookup_dictSet_self] at hl2
      cases hl2
      exact ⟨p, hu, hb⟩
    · rw [lookup_dictSet_ne _ _ _ _ hcc] at hl2
      exact hI c2 m2 hl2
  | bRead c' =>
    obtain ⟨rfl, hsome⟩ := hst
    simp only [stepT]
    cases hl : s.cache.lookup c' with
    | none => simp [hl] at hsome
    | some m =>
      refine ⟨hI, ?_⟩
      simp only [BuildOK]
      rw [cache_entry_eq_pure hI hc hu hl]
      rfl
  | done o => exact ⟨hI, hst⟩
  | xCheck _ => cases hst
  | xLocal _ _ _ => cases hst
  | xPublish _ _ => cases hst
  | xStamp _ => cases hst
  | xContains _ _ => cases hst
  | xGet _ _ => cases hst
  | rCache => cases hst
  | rXsi _ => cases hst
  | rStamp => cases hst

/-- **one atomic step of any thread preserves the invariant** -/
theorem sched_inv {U : Universe} {uses : List Use} (hc : consistent U uses) (w : World) {sys : Sys}
    (hI : SysInv U uses sys) (i : Nat) : SysInv U uses (sched U w sys i) := by
  unfold sched
  cases hth : sys.threads[i]? with
  | none => exact hI
  | some th =>
    have hmem : th ∈ sys.threads := List.mem_of_getElem? hth
    have hok := hI.threads th hmem
    have key : th.st.isR = false ∧
        (∀ c m, (stepT U w sys.shared th.st).1.cache.lookup c = some m →
          ∃ p, (c, p) ∈ uses ∧ pureBuild U c p = .ok m) ∧
        ThreadOK U uses (stepT U w sys.shared th.st).1 ⟨th.prog, (stepT U w sys.shared th.st).2⟩ := by
      unfold ThreadOK at hok ⊢
      cases hp : th.prog with
      | findTypes q =>
        simp only [hp] at hok ⊢
        obtain ⟨h1, h2, h3⟩ := stepT_notBR U w sys.shared th.st hok.1 hok.2
        exact ⟨hok.2, by rw [h3]; exact hI.cache, h1, h2⟩
      | build c p =>
        simp only [hp] at hok ⊢
        obtain ⟨h1, h2⟩ := stepT_build_inv hc w hI.cache hok.1 hok.2
        exact ⟨hok.2.notR, h1, hok.1, h2⟩
      | reset => simp only [hp] at hok
    have hmono := stepT_cache_mono U w sys.shared th.st key.1
    refine ⟨key.2.1, ?_⟩
    intro th' hth'
    cases List.mem_or_eq_of_mem_set hth' with
    | inr h => rw [h]; exact key.2.2
    | inl h =>
      have hok' := hI.threads th' h
      unfold ThreadOK at hok' ⊢
      cases hp : th'.prog with
      | findTypes q => simpa [hp] using hok'
      | build c p =>
        simp only [hp] at hok' ⊢
        exact ⟨hok'.1, hok'.2.mono (hmono c)⟩
      | reset => simp only [hp] at hok'

theorem runSched_inv {U : Universe} {uses : List Use} (hc : consistent U uses) (w : World) :
    ∀ (schedule : List Nat) (sys : Sys), SysInv U uses sys → SysInv U uses (runSched U w sys schedule)
  | [], _, h => h
  | i :: rest, _, h => runSched_inv hc w rest _ (sched_inv hc w h i)

/-! ### the type index: every published dict object is complete -/

/-- the local build computes the specification of the index -/
theorem localFold_eq (U : Universe) : ∀ (l : List ClassId) (acc : Index),
    (l.filter (isBinding U)).foldl (localAdd U) acc =
      (l.filterMap fun c => if isBinding U c then (indexKey U c).map fun k => (k, c) else none).foldl
        (fun d (e : Str × ClassId) => dictAppend d e.1 e.2) acc
  | [], _ => rfl
  | c :: rest, acc => by
    by_cases hb : isBinding U c = true
    · cases hk : indexKey U c with
      | none =>
        simp only [List.filter_cons, hb, if_true, List.foldl_cons, List.filterMap_cons, hk, Option.map_none]
        rw [show localAdd U acc c = acc by simp [localAdd, hk]]
        exact localFold_eq U rest acc
      | some k =>
        simp only [List.filter_cons, hb, if_true, List.foldl_cons, List.filterMap_cons, hk, Option.map_some]
        rw [show localAdd U acc c = dictAppend acc k c by simp [localAdd, hk]]
        exact localFold_eq U rest _
    · have hb' : isBinding U c = false := by simpa using hb
      simp only [List.filter_cons, hb', List.filterMap_cons]
      simpa using localFold_eq U rest acc

theorem localIndex_eq (U : Universe) (n : Nat) :
    (bindingClasses U n).foldl (localAdd U) [] = pureIndex U n := by
  unfold bindingClasses pureIndex indexEntries
  rw [localFold_eq]

/-- dict object `d` holds the complete index -/
def Full (U : Universe) (w : World) (s : CState) (d : Nat) : Prop :=
  s.heap[d]? = some (pureIndex U w.loaded)

theorem Full.dict {U : Universe} {w : World} {s : CState} {d : Nat} (h : Full U w s d) :
    s.dict d = pureIndex U w.loaded := by
  unfold CState.dict; rw [h]; rfl

def FindOK (U : Universe) (w : World) (s : CState) (q : Str) : TState → Prop
  | .xCheck q' => q' = q ∧ isDataType q = false
  | .xLocal q' todo acc => q' = q ∧ isDataType q = false ∧
      todo.foldl (localAdd U) acc = pureIndex U w.loaded
  | .xPublish q' acc => q' = q ∧ isDataType q = false ∧ acc = pureIndex U w.loaded
  | .xStamp q' => q' = q ∧ isDataType q = false ∧ Full U w s s.ref
  | .xContains q' d => q' = q ∧ isDataType q = false ∧ Full U w s d ∧ Full U w s s.ref
  | .xGet q' d => q' = q ∧ isDataType q = false ∧ Full U w s d ∧
      ((pureIndex U w.loaded).lookup q).isSome = true
  | .done o => o = .gotTypes (pureTypes U w q)
  | _ => False

def ThreadLin (U : Universe) (w : World) (s : CState) (th : Thread) : Prop :=
  match th.prog with
  | .build _ _ => th.st.isX = false ∧ th.st.isR = false
  | .findTypes q => FindOK U w s q th.st
  | .reset => False

structure LinInv (U : Universe) (w : World) (sys : Sys) : Prop where
  stamp : sys.shared.sysModules = w.mods + 1 → Full U w sys.shared sys.shared.ref
  threads : ∀ th ∈ sys.threads, ThreadLin U w sys.shared th

theorem FindOK.afterLocal {U : Universe} {w : World} {s : CState} {q : Str} (hd : isDataType q = false)
    {todo : List ClassId} {acc : Index} (h : todo.foldl (localAdd U) acc = pureIndex U w.loaded) :
    FindOK U w s q (afterLocal q todo acc) := by
  cases todo with
  | nil => exact ⟨rfl, hd, h⟩
  | cons c rest => exact ⟨rfl, hd, h⟩

theorem FindOK.mono {U : Universe} {w : World} {s s' : CState} {q : Str} {st : TState}
    (h : FindOK U w s q st) (h1 : ∀ d, Full U w s d → Full U w s' d)
    (h2 : Full U w s s.ref → Full U w s' s'.ref) : FindOK U w s' q st := by
  cases st <;> simp only [FindOK] at h ⊢ <;> try exact h
  · exact ⟨h.1, h.2.1, h2 h.2.2⟩
  · exact ⟨h.1, h.2.1, h1 _ h.2.2.1, h2 h.2.2.2⟩
  · exact ⟨h.1, h.2.1, h1 _ h.2.2.1, h.2.2.2⟩

theorem LinInv.start (U : Universe) (w : World) (progs : List Prog) (hnr : noReset progs) (s0 : State)
    (h0 : s0.sysModules = w.mods + 1 → s0.xsi = pureIndex U w.loaded) :
    LinInv U w (Sys.start s0 progs) := by
  refine ⟨?_, ?_⟩
  · intro hs
    simp only [Sys.start, CState.ofState] at hs ⊢
    simp [Full, h0 hs]
  · intro th hth
    simp only [Sys.start, List.mem_map] at hth
    obtain ⟨pr, hpr, rfl⟩ := hth
    cases pr with
    | build c p => exact ⟨rfl, rfl⟩
    | reset => exact absurd rfl (hnr _ hpr)
    | findTypes q =>
      simp only [ThreadLin, Prog.start]
      by_cases hd : isDataType q = true
      · simp only [hd, if_true, FindOK, pureTypes]
      · have hd' : isDataType q = false := by simpa using hd
        simp [hd', FindOK]

/-- the stepping thread of a lookup: complete dicts stay complete, the published
one is complete once it was, the stamp implies completeness, and the thread's
next state is again described by `FindOK` -/
theorem stepT_find_inv {U : Universe} {w : World} {s : CState} {q : Str} {st : TState}
    (hstamp : s.sysModules = w.mods + 1 → Full U w s s.ref) (hst : FindOK U w s q st) :
    (∀ d, Full U w s d → Full U w (stepT U w s st).1 d) ∧
      (Full U w s s.ref → Full U w (stepT U w s st).1 (stepT U w s st).1.ref) ∧
      ((stepT U w s st).1.sysModules = w.mods + 1 →
        Full U w (stepT U w s st).1 (stepT U w s st).1.ref) ∧
      FindOK U w (stepT U w s st).1 q (stepT U w s st).2 := by
  cases st with
  | xCheck q' =>
    obtain ⟨rfl, hd⟩ := hst
    simp only [stepT]
    by_cases hcur : w.mods + 1 = s.sysModules
    · rw [if_pos hcur]
      have hf := hstamp hcur.symm
      exact ⟨fun _ h => h, fun h => h, hstamp, rfl, hd, hf, hf⟩
    · rw [if_neg hcur]
      exact ⟨fun _ h => h, fun h => h, hstamp, FindOK.afterLocal hd (localIndex_eq U w.loaded)⟩
  | xLocal q' todo acc =>
    obtain ⟨rfl, hd, hf⟩ := hst
    cases todo with
    | nil => exact ⟨fun _ h => h, fun h => h, hstamp, rfl, hd, hf⟩
    | cons c rest => exact ⟨fun _ h => h, fun h => h, hstamp, FindOK.afterLocal hd hf⟩
  | xPublish q' acc =>
    obtain ⟨rfl, hd, rfl⟩ := hst
    simp only [stepT]
    have hnew : Full U w { s with heap := s.heap ++ [pureIndex U w.loaded], ref := s.heap.length }
        s.heap.length := by
      simp [Full]
    refine ⟨?_, fun _ => hnew, fun _ => hnew, rfl, hd, hnew⟩
    intro d hfull
    unfold Full at hfull ⊢
    have hlt : d < s.heap.length := by
      rcases Nat.lt_or_ge d s.heap.length with h | h
      · exact h
      · rw [List.getElem?_eq_none h] at hfull; cases hfull
    simp only
    rw [List.getElem?_append_left hlt]
    exact hfull
  | xStamp q' =>
    obtain ⟨rfl, hd, hf⟩ := hst
    exact ⟨fun _ h => h, fun h => h, fun _ => hf, rfl, hd, hf, hf⟩
  | xContains q' d =>
    obtain ⟨rfl, hd, hfd, hfr⟩ := hst
    simp only [stepT, hfd.dict]
    cases hl : (pureIndex U w.loaded).lookup q' with
    | some l => exact ⟨fun _ h => h, fun h => h, hstamp, rfl, hd, hfr, by simp [hl]⟩
    | none =>
      refine ⟨fun _ h => h, fun h => h, hstamp, ?_⟩
      simp [FindOK, pureTypes, hd, hl]
  | xGet q' d =>
    obtain ⟨rfl, hd, hfd, hsome⟩ := hst
    simp only [stepT, hfd.dict]
    cases hl : (pureIndex U w.loaded).lookup q' with
    | none => simp [hl] at hsome
    | some l =>
      refine ⟨fun _ h => h, fun h => h, hstamp, ?_⟩
      simp [FindOK, pureTypes, hd, hl]
  | done o => exact ⟨fun _ h => h, fun h => h, hstamp, hst⟩
  | bCheck _ _ => cases hst
  | bWrite _ _ => cases hst
  | bRead _ => cases hst
  | rCache => cases hst
  | rXsi _ => cases hst
  | rStamp => cases hst

theorem sched_lin {U : Universe} (w : World) {sys : Sys} (hI : LinInv U w sys) (i : Nat) :
    LinInv U w (sched U w sys i) := by
  unfold sched
  cases hth : sys.threads[i]? with
  | none => exact hI
  | some th =>
    have hmem : th ∈ sys.threads := List.mem_of_getElem? hth
    have hok := hI.threads th hmem
    have key : (∀ d, Full U w sys.shared d → Full U w (stepT U w sys.shared th.st).1 d) ∧
        (Full U w sys.shared sys.shared.ref →
          Full U w (stepT U w sys.shared th.st).1 (stepT U w sys.shared th.st).1.ref) ∧
        ((stepT U w sys.shared th.st).1.sysModules = w.mods + 1 →
          Full U w (stepT U w sys.shared th.st).1 (stepT U w sys.shared th.st).1.ref) ∧
        ThreadLin U w (stepT U w sys.shared th.st).1 ⟨th.prog, (stepT U w sys.shared th.st).2⟩ := by
      unfold ThreadLin at hok ⊢
      cases hp : th.prog with
      | build c p =>
        simp only [hp] at hok ⊢
        obtain ⟨h1, h2, h3, h4, h5⟩ := stepT_notXR U w sys.shared th.st hok.1 hok.2
        refine ⟨?_, ?_, ?_, h1, h2⟩
        · intro d hf; unfold Full at hf ⊢; rw [h3]; exact hf
        · intro hf; unfold Full at hf ⊢; rw [h3, h4]; exact hf
        · intro hs; rw [h5] at hs; have := hI.stamp hs; unfold Full at this ⊢; rw [h3, h4]; exact this
      | findTypes q =>
        simp only [hp] at hok ⊢
        exact stepT_find_inv hI.stamp hok
      | reset => simp only [hp] at hok
    refine ⟨key.2.2.1, ?_⟩
    intro th' hth'
    cases List.mem_or_eq_of_mem_set hth' with
    | inr h => rw [h]; exact key.2.2.2
    | inl h =>
      have hok' := hI.threads th' h
      unfold ThreadLin at hok' ⊢
      cases hp : th'.prog with
      | build c p => simpa [hp] using hok'
      | findTypes q =>
        simp only [hp] at hok' ⊢
        exact hok'.mono key.1 key.2.1
      | reset => simp only [hp] at hok'

theorem runSched_lin {U : Universe} (w : World) :
    ∀ (schedule : List Nat) (sys : Sys), LinInv U w sys → LinInv U w (runSched U w sys schedule)
  | [], _, h => h
  | i :: rest, _, h => runSched_lin w rest _ (sched_lin w h i)

end Xs.Ctx
